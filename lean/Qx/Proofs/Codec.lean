import Qx.Xml.Codec.Schema
import Qx.Props.C01Scalar
/-!
Helper lemmas for the schema-driven codecs (tier C of C01/C02): integer printer/parser round trip,
scalar types, attribute / child lookup framing, and the generic field-list induction.
-/
namespace Qx.Xml.Codec
open Qx.Xml

/-! ### integers -/

def isDig (c : Char) : Bool := 48 ≤ c.toNat && c.toNat ≤ 57

theorem digit_cases {n : Nat} (h : n < 10) :
    n = 0 ∨ n = 1 ∨ n = 2 ∨ n = 3 ∨ n = 4 ∨ n = 5 ∨ n = 6 ∨ n = 7 ∨ n = 8 ∨ n = 9 := by omega

theorem digitVal_digitChar {n : Nat} (h : n < 10) : digitVal (digitChar n) = some n := by
  rcases digit_cases h with h | h | h | h | h | h | h | h | h | h <;> subst h <;> decide

theorem isDig_digitChar {n : Nat} (h : n < 10) : isDig (digitChar n) = true := by
  rcases digit_cases h with h | h | h | h | h | h | h | h | h | h <;> subst h <;> decide

theorem parseDigits_snoc (s : Str) (c : Char) :
    parseDigits (s ++ [c]) = digitStep (parseDigits s) c := by
  simp [parseDigits, List.foldl_append]

theorem parseDigits_natToStrF : ∀ (f n : Nat), n < f → parseDigits (natToStrF f n) = some n := by
  intro f
  induction f with
  | zero => intro n h; omega
  | succ f ih =>
    intro n h
    simp only [natToStrF]
    split
    · rename_i h10
      simp [parseDigits, digitStep, digitVal_digitChar h10]
    · rename_i h10
      rw [parseDigits_snoc, ih (n / 10) (by omega)]
      have hd : n % 10 < 10 := Nat.mod_lt _ (by omega)
      simp only [digitStep, digitVal_digitChar hd]
      congr 1
      omega

theorem parseDigits_natToStr (n : Nat) : parseDigits (natToStr n) = some n :=
  parseDigits_natToStrF (n + 1) n (by omega)

theorem natToStrF_isDig : ∀ (f n : Nat), ∀ c ∈ natToStrF f n, isDig c = true := by
  intro f
  induction f with
  | zero => intro n c h; simp [natToStrF] at h
  | succ f ih =>
    intro n c h
    simp only [natToStrF] at h
    split at h
    · rename_i h10
      simp at h; subst h; exact isDig_digitChar h10
    · simp only [List.mem_append, List.mem_singleton] at h
      rcases h with h | h
      · exact ih _ _ h
      · subst h; exact isDig_digitChar (Nat.mod_lt _ (by omega))

theorem natToStr_isDig (n : Nat) : ∀ c ∈ natToStr n, isDig c = true := natToStrF_isDig _ _

theorem natToStr_ne_nil (n : Nat) : natToStr n ≠ [] := by
  simp only [natToStr, natToStrF]
  split <;> simp

theorem isDig_not_space {c : Char} (h : isDig c = true) : isSpaceQt c = false := by
  simp only [isDig, Bool.and_eq_true, decide_eq_true_eq] at h
  cases hs : isSpaceQt c
  · rfl
  · simp only [isSpaceQt, Bool.or_eq_true, Bool.and_eq_true, decide_eq_true_eq] at hs
    omega

theorem dropWhile_all_false {α} (p : α → Bool) (s : List α) (h : ∀ c ∈ s, p c = false) :
    s.dropWhile p = s := by
  cases s with
  | nil => rfl
  | cons c cs => simp [h c (by simp)]

theorem trimQt_of_no_space (s : Str) (h : ∀ c ∈ s, isSpaceQt c = false) : trimQt s = s := by
  unfold trimQt
  rw [dropWhile_all_false _ s h, dropWhile_all_false _ s.reverse (by simpa using h), List.reverse_reverse]

theorem dropPlus_of_isDig (s : Str) (h : ∀ c ∈ s, isDig c = true) : dropPlus s = s := by
  cases s with
  | nil => rfl
  | cons c cs =>
    have hc := h c (by simp)
    have : c ≠ '+' := by intro e; subst e; revert hc; decide
    simp [dropPlus, this]

theorem strictNat_natToStr (b n : Nat) (h : n < 2 ^ b) : strictNat b (natToStr n) = some n := by
  have h1 : trimQt (natToStr n) = natToStr n :=
    trimQt_of_no_space _ (fun c hc => isDig_not_space (natToStr_isDig n c hc))
  have h2 : dropPlus (natToStr n) = natToStr n := dropPlus_of_isDig _ (natToStr_isDig n)
  have h3 : (natToStr n).isEmpty = false := by
    cases hh : natToStr n with
    | nil => exact absurd hh (natToStr_ne_nil n)
    | cons _ _ => rfl
  simp only [strictNat, h1, h2, h3, parseDigits_natToStr, h]
  simp

theorem lenientNat_natToStr (b n : Nat) (h : n < 2 ^ b) : lenientNat b (natToStr n) = n := by
  simp [lenientNat, strictNat_natToStr b n h]

theorem strictNat_lt {b : Nat} {s : Str} {n : Nat} (h : strictNat b s = some n) : n < 2 ^ b := by
  simp only [strictNat] at h
  split at h
  · simp at h
  · split at h
    · split at h
      · simp at h; omega
      · simp at h
    · simp at h

theorem lenientNat_lt (b : Nat) (s : Str) : lenientNat b s < 2 ^ b := by
  simp only [lenientNat]
  split
  · rename_i n h; exact strictNat_lt h
  · exact Nat.two_pow_pos b

theorem strictNat_nil (b : Nat) : strictNat b [] = none := by
  simp [strictNat, trimQt, dropPlus]

theorem dropSign_of_isDig (s : Str) (h : ∀ c ∈ s, isDig c = true) : dropSign s = (false, s) := by
  cases s with
  | nil => rfl
  | cons c cs =>
    have hc := h c (by simp)
    simp only [isDig, Bool.and_eq_true, decide_eq_true_eq] at hc
    have h1 : c ≠ '+' := by intro e; subst e; revert hc; decide
    have h2 : ¬ (c = '-' ∨ c.toNat = 0x2212) := by
      intro e
      rcases e with e | e
      · subst e; revert hc; decide
      · omega
    simp [dropSign, h1, h2]

theorem strictInt_natToStr (b n : Nat) (h : n < 2 ^ b) : strictInt b (natToStr n) = some (false, n) := by
  have h1 : trimQt (natToStr n) = natToStr n :=
    trimQt_of_no_space _ (fun c hc => isDig_not_space (natToStr_isDig n c hc))
  have h2 := dropSign_of_isDig _ (natToStr_isDig n)
  have h3 : (natToStr n).isEmpty = false := by
    cases hh : natToStr n with
    | nil => exact absurd hh (natToStr_ne_nil n)
    | cons _ _ => rfl
  simp only [strictInt, h1, h2, h3, parseDigits_natToStr, h]
  simp

theorem strictInt_neg_natToStr (b n : Nat) (h : n ≤ 2 ^ b) : strictInt b ('-' :: natToStr n) = some (true, n) := by
  have hns : ∀ c ∈ ('-' :: natToStr n), isSpaceQt c = false := by
    intro c hc
    simp only [List.mem_cons] at hc
    rcases hc with rfl | hc
    · decide
    · exact isDig_not_space (natToStr_isDig n c hc)
  have h1 : trimQt ('-' :: natToStr n) = '-' :: natToStr n := trimQt_of_no_space _ hns
  have h3 : (natToStr n).isEmpty = false := by
    cases hh : natToStr n with
    | nil => exact absurd hh (natToStr_ne_nil n)
    | cons _ _ => rfl
  have h4 : ('-' : Char) ≠ '+' := by decide
  simp only [strictInt, h1, dropSign, h4, if_false, true_or, if_true, h3, Bool.false_eq_true, parseDigits_natToStr, h]

theorem strictInt_nil (b : Nat) : strictInt b [] = none := by
  simp [strictInt, trimQt, dropSign]

theorem strictInt_lt {b : Nat} {s : Str} {neg : Bool} {m : Nat} (h : strictInt b s = some (neg, m)) :
    m ≤ 2 ^ b ∧ (neg = false → m < 2 ^ b) := by
  simp only [strictInt] at h
  split at h
  · simp at h
  · split at h
    · split at h
      · split at h
        · simp at h; obtain ⟨rfl, rfl⟩ := h; exact ⟨by assumption, by simp⟩
        · simp at h
      · split at h
        · simp at h; obtain ⟨rfl, rfl⟩ := h; exact ⟨by omega, fun _ => by assumption⟩
        · simp at h
    · simp at h

theorem countOfSigned_lt {b : Nat} {s : Str} {g : Option Nat} {n : Nat} (hg : ∀ k, g = some k → k < 2 ^ b)
    (h : countOfSigned g (strictInt b s) = some n) : n < 2 ^ b := by
  cases hs : strictInt b s with
  | none => rw [hs] at h; exact hg n h
  | some r =>
    obtain ⟨neg, m⟩ := r
    rw [hs] at h
    have hl := strictInt_lt hs
    simp only [countOfSigned] at h
    split at h
    · simp at h
    · rename_i hc
      simp at h; subst h
      cases neg with
      | false => exact hl.2 rfl
      | true =>
        simp at hc
        subst hc
        exact Nat.two_pow_pos b

theorem posOfSigned_lt {b : Nat} {s : Str} {n : Nat} (h : posOfSigned (strictInt b s) = some n) :
    0 < n ∧ n < 2 ^ b := by
  cases hs : strictInt b s with
  | none => rw [hs] at h; simp [posOfSigned] at h
  | some r =>
    obtain ⟨neg, m⟩ := r
    rw [hs] at h
    have hl := strictInt_lt hs
    simp only [posOfSigned] at h
    split at h
    · simp at h
    · rename_i hc
      simp only [Option.some.injEq] at h; subst h
      simp only [Bool.or_eq_true, beq_iff_eq, not_or] at hc
      have hneg : neg = false := by cases neg <;> simp_all
      exact ⟨by omega, hl.2 hneg⟩

theorem lowerStr_of_mem {ns : List Str} (h : (ns.all fun n => lowerStr n == n) = true) {n : Str} (hn : n ∈ ns) :
    lowerStr n = n := by
  simp only [List.all_eq_true, beq_iff_eq] at h
  exact h n hn

theorem lenientNat_nil (b : Nat) : lenientNat b [] = 0 := by
  simp [lenientNat, strictNat_nil]

/-! ### Base64 -/

theorem b64Val_b64Char : ∀ d, d < 64 → b64Val (b64Char d) = some d := by decide

theorem b64Val_pad : b64Val '=' = none := by decide

theorem b64Val_lt {c : Char} {d : Nat} (h : b64Val c = some d) : d < 64 := by
  simp only [b64Val] at h
  split at h
  · simp at h; omega
  · split at h
    · simp at h; omega
    · split at h
      · simp at h; omega
      · split at h
        · simp at h; omega
        · split at h
          · simp at h; omega
          · simp at h

theorem toNat_ofNat_byte (n : Nat) (h : n < 256) : (Char.ofNat n).toNat = n := by
  have hv : n.isValidChar := Or.inl (by omega)
  simp only [Char.ofNat, hv, dite_true, Char.ofNatAux, Char.toNat]
  simp [UInt32.toNat_ofNatLT]

theorem regroup_lt : ∀ (ds : List Nat), (∀ d ∈ ds, d < 64) → ∀ b ∈ regroup ds, b < 256
  | [], _, b, hb => by simp [regroup] at hb
  | [_], _, b, hb => by simp [regroup] at hb
  | [d0, d1], h, b, hb => by
    have h0 := h d0 (by simp); have h1 := h d1 (by simp)
    simp [regroup] at hb; omega
  | [d0, d1, d2], h, b, hb => by
    have h0 := h d0 (by simp); have h1 := h d1 (by simp); have h2 := h d2 (by simp)
    simp [regroup] at hb; omega
  | d0 :: d1 :: d2 :: d3 :: rest, h, b, hb => by
    have h0 := h d0 (by simp); have h1 := h d1 (by simp); have h2 := h d2 (by simp); have h3 := h d3 (by simp)
    simp only [regroup, List.mem_cons] at hb
    rcases hb with hb | hb | hb | hb
    · omega
    · omega
    · omega
    · exact regroup_lt rest (fun d hd => h d (by simp [hd])) b hb

theorem b64dec_lt (s : Str) : ∀ b ∈ b64dec s, b < 256 := by
  apply regroup_lt
  intro d hd
  simp only [List.mem_filterMap] at hd
  obtain ⟨c, _, hc⟩ := hd
  exact b64Val_lt hc

theorem b64dec_b64enc : ∀ (bs : List Nat), (∀ b ∈ bs, b < 256) → b64dec (b64enc bs) = bs
  | [], _ => rfl
  | [a], h => by
    have ha := h a (by simp)
    have e1 := b64Val_b64Char (a / 4) (by omega)
    have e2 := b64Val_b64Char (a % 4 * 16) (by omega)
    simp only [b64dec, b64enc, List.filterMap_cons, e1, e2, b64Val_pad, List.filterMap_nil, regroup]
    congr 1; omega
  | [a, b], h => by
    have ha := h a (by simp); have hb := h b (by simp)
    have e1 := b64Val_b64Char (a / 4) (by omega)
    have e2 := b64Val_b64Char (a % 4 * 16 + b / 16) (by omega)
    have e3 := b64Val_b64Char (b % 16 * 4) (by omega)
    simp only [b64dec, b64enc, List.filterMap_cons, e1, e2, e3, b64Val_pad, List.filterMap_nil, regroup]
    congr 1
    · omega
    · congr 1; omega
  | a :: b :: c :: rest, h => by
    have ha := h a (by simp); have hb := h b (by simp); have hc := h c (by simp)
    have e1 := b64Val_b64Char (a / 4) (by omega)
    have e2 := b64Val_b64Char (a % 4 * 16 + b / 16) (by omega)
    have e3 := b64Val_b64Char (b % 16 * 4 + c / 64) (by omega)
    have e4 := b64Val_b64Char (c % 64) (by omega)
    have ih := b64dec_b64enc rest (fun x hx => h x (by simp [hx]))
    simp only [b64dec] at ih
    simp only [b64dec, b64enc, List.filterMap_cons, e1, e2, e3, e4, regroup, ih]
    congr 1
    · omega
    · congr 1
      · omega
      · congr 1; omega

theorem strOfBytes_bytesOf (s : Str) : strOfBytes (bytesOf s) = s := by
  simp [strOfBytes, bytesOf, List.map_map, Function.comp_def]

/-! ### enum names -/

theorem contains_false_iff {l : List Str} {s : Str} : l.contains s = false ↔ s ∉ l := by
  simp

theorem idxOf_none_of_not_mem {s : Str} : ∀ {names : List Str}, s ∉ names → idxOf s names = none
  | [], _ => rfl
  | n :: ns, h => by
    simp only [List.mem_cons, not_or] at h
    simp [idxOf, h.1, idxOf_none_of_not_mem h.2]

theorem idxOf_lt {s : Str} : ∀ {names : List Str} {i : Nat}, idxOf s names = some i → i < names.length
  | [], _, h => by simp [idxOf] at h
  | n :: ns, i, h => by
    simp only [idxOf] at h
    split at h
    · simp at h; subst h; simp
    · simp only [Option.map_eq_some_iff] at h
      obtain ⟨j, hj, rfl⟩ := h
      have := idxOf_lt hj
      simp; omega

theorem nth_mem : ∀ {names : List Str} {i : Nat}, i < names.length → nth names i ∈ names
  | [], _, h => by simp at h
  | n :: ns, 0, _ => by simp [nth]
  | n :: ns, i + 1, h => by
    have hi : i < ns.length := by simpa using h
    simp [nth, nth_mem hi]

theorem nth_nil_of_ge : ∀ {names : List Str} {i : Nat}, names.length ≤ i → nth names i = []
  | [], _, _ => by simp [nth]
  | n :: ns, 0, h => by simp at h
  | n :: ns, i + 1, h => by
    have hi : ns.length ≤ i := by simpa using h
    simp [nth, nth_nil_of_ge hi]

theorem idxOf_nth : ∀ {names : List Str} {i : Nat}, nodupB names = true → i < names.length →
    idxOf (nth names i) names = some i
  | [], _, _, h => by simp at h
  | n :: ns, 0, _, _ => by simp [idxOf, nth]
  | n :: ns, i + 1, hn, h => by
    simp only [nodupB, Bool.and_eq_true, Bool.not_eq_true', contains_false_iff] at hn
    have hi : i < ns.length := by simpa using h
    have hne : ¬ (nth ns i = n) := by
      intro e
      apply hn.1
      rw [← e]
      exact nth_mem hi
    simp [idxOf, nth, hne, idxOf_nth hn.2 hi]

theorem dtParseCode_nil : Scalar.dtParseCode [] = none := by
  simp [Scalar.dtParseCode, Scalar.units]

/-! ### sets of strings -/

theorem char_eq_of_toNat {a b : Char} (h : a.toNat = b.toNat) : a = b := by
  have ha := Char.ofNat_toNat a
  have hb := Char.ofNat_toNat b
  rw [← ha, ← hb, h]

/-- the order is total: two different strings are comparable one way or the other -/
theorem ltStr_total : ∀ (x y : Str), ltStr x y = false → ¬ x = y → ltStr y x = true
  | [], [], _, hne => absurd rfl hne
  | [], _ :: _, h, _ => by simp [ltStr] at h
  | _ :: _, [], _, _ => by simp [ltStr]
  | a :: as, b :: bs, h, hne => by
    simp only [ltStr, Bool.or_eq_false_iff, decide_eq_false_iff_not, Bool.and_eq_false_imp, beq_iff_eq] at h
    simp only [ltStr, Bool.or_eq_true, decide_eq_true_eq, Bool.and_eq_true, beq_iff_eq]
    by_cases hab : a.toNat = b.toNat
    · right
      refine ⟨hab.symm, ?_⟩
      have hc : a = b := char_eq_of_toNat hab
      apply ltStr_total as bs (h.2 hab)
      intro e
      apply hne
      rw [hc, e]
    · left; omega

theorem sortedB_cons_insert : ∀ (l : List Str) (x y : Str), sortedB (y :: l) = true → ltStr y x = true →
    sortedB (y :: insertSet x l) = true
  | [], x, y, _, hyx => by simp [insertSet, sortedB, hyx]
  | z :: zs, x, y, hs, hyx => by
    simp only [sortedB, Bool.and_eq_true] at hs
    simp only [insertSet]
    split
    · rename_i hxz
      simp [sortedB, hyx, hxz, hs.2]
    · rename_i hxz
      split
      · simp [sortedB, hs.1, hs.2]
      · rename_i hne
        have hzx : ltStr z x = true := ltStr_total x z (by simpa using hxz) (by simpa using hne)
        simp only [sortedB, Bool.and_eq_true]
        exact ⟨hs.1, sortedB_cons_insert zs x z hs.2 hzx⟩

theorem sortedB_insertSet (x : Str) : ∀ (l : List Str), sortedB l = true → sortedB (insertSet x l) = true
  | [], _ => by simp [insertSet, sortedB]
  | z :: zs, hs => by
    simp only [insertSet]
    split
    · rename_i hxz; simp [sortedB, hxz, hs]
    · rename_i hxz
      split
      · exact hs
      · rename_i hne
        exact sortedB_cons_insert zs x z hs (ltStr_total x z (by simpa using hxz) (by simpa using hne))

theorem sortedB_mkSet : ∀ (l : List Str), sortedB (mkSet l) = true
  | [] => rfl
  | x :: l => by
    have := sortedB_insertSet x (mkSet l) (sortedB_mkSet l)
    simpa [mkSet] using this

theorem sortedB_tail {x : Str} {l : List Str} (h : sortedB (x :: l) = true) : sortedB l = true := by
  cases l with
  | nil => rfl
  | cons y r => simp only [sortedB, Bool.and_eq_true] at h; exact h.2

/-- a canonical (strictly increasing) list is its own set -/
theorem mkSet_of_sorted : ∀ (l : List Str), sortedB l = true → mkSet l = l
  | [], _ => rfl
  | x :: l, h => by
    have ih := mkSet_of_sorted l (sortedB_tail h)
    have e : mkSet (x :: l) = insertSet x (mkSet l) := rfl
    rw [e, ih]
    cases l with
    | nil => rfl
    | cons y r =>
      simp only [sortedB, Bool.and_eq_true] at h
      simp [insertSet, h.1]

theorem map_str_getStr : ∀ (items : List Val), items.all Val.isStr = true → (items.map Val.getStr).map Val.str = items
  | [], _ => rfl
  | it :: items, h => by
    simp only [List.all_cons, Bool.and_eq_true] at h
    cases it <;> simp_all [Val.isStr, Val.getStr, map_str_getStr items]

/-! ### scalar types -/

theorem FTy.canon_parse (ty : FTy) (s : Str) : ty.canon (ty.parse s) = true := by
  cases ty with
  | str => rfl
  | nat b => simp [FTy.parse, FTy.canon, lenientNat_lt]
  | optNat b =>
    simp only [FTy.parse]
    cases h : strictNat b s with
    | none => rfl
    | some n => simp [FTy.canon, strictNat_lt h]
  | optInt b =>
    simp only [FTy.parse]
    cases h : countOfSigned none (strictInt b s) with
    | none => rfl
    | some n => simp [FTy.canon, countOfSigned_lt (by simp) h]
  | optIntZ b =>
    simp only [FTy.parse]
    cases h : countOfSigned (some 0) (strictInt b s) with
    | none => rfl
    | some n =>
      have := countOfSigned_lt (g := some 0) (b := b) (by intro k hk; simp at hk; subst hk; exact Nat.two_pow_pos b) h
      simp [FTy.canon, this]
  | posInt b =>
    simp only [FTy.parse]
    cases h : posOfSigned (strictInt b s) with
    | none => rfl
    | some n => simp [FTy.canon, posOfSigned_lt h]
  | sint b ze =>
    simp only [FTy.parse]
    cases h : strictInt b s with
    | none => simp [FTy.canon, Nat.two_pow_pos]
    | some r =>
      obtain ⟨neg, m⟩ := r
      have hl := strictInt_lt h
      cases neg with
      | false => simp [FTy.canon, hl.2 rfl]
      | true =>
        by_cases hm : m = 0
        · subst hm; simp [FTy.canon, Nat.two_pow_pos]
        · have : (m != 0) = true := by simpa using hm
          simp only [Bool.true_and, this, FTy.canon, if_true, Bool.and_eq_true, decide_eq_true_eq]
          exact ⟨by omega, hl.1⟩
  | flag ts => rfl
  | enum ns =>
    simp only [FTy.parse]
    cases h : idxOf s ns with
    | none => rfl
    | some n => simp [FTy.canon, idxOf_lt h]
  | enumD ns d =>
    simp only [FTy.parse]
    cases h : idxOf s ns with
    | none => simp [FTy.canon]
    | some n => simp [FTy.canon, idxOf_lt h]
  | enumL ns =>
    simp only [FTy.parse]
    cases h : idxOf (lowerStr s) ns with
    | none => rfl
    | some n => simp [FTy.canon, idxOf_lt h]
  | b64 =>
    simp only [FTy.parse, FTy.canon, List.all_eq_true, decide_eq_true_eq, strOfBytes, List.mem_map]
    rintro c ⟨b, hb, rfl⟩
    have := b64dec_lt s b hb
    rw [toNat_ofNat_byte b this]; exact this
  | dateTime =>
    simp only [FTy.parse]
    cases h : (Scalar.dtParseCode s).filter (fun d => decide (Scalar.ValidDt d)) with
    | none => rfl
    | some d =>
      have := Option.mem_filter_iff.mp (Option.mem_def.mpr h)
      simp only [FTy.canon]; exact this.2

/-- (A)+(B): whatever is printed (possibly nothing) parses back to the value -/
theorem FTy.parse_show (ty : FTy) (v : Val) (hw : ty.wf = true) (hc : ty.canon v = true) :
    ty.parse (ty.show v) = v := by
  cases ty with
  | str => cases v <;> simp_all [FTy.canon, FTy.show, FTy.parse]
  | nat b =>
    cases v <;> simp_all [FTy.canon, FTy.show, FTy.parse]
    exact lenientNat_natToStr _ _ hc
  | optNat b =>
    cases v with
    | opt i =>
      cases i with
      | none => simp [FTy.show, FTy.parse, strictNat_nil]
      | some n => simp_all [FTy.canon, FTy.show, FTy.parse, strictNat_natToStr]
    | _ => simp [FTy.canon] at hc
  | optInt b =>
    cases v with
    | opt i =>
      cases i with
      | none => simp [FTy.show, FTy.parse, strictInt_nil, countOfSigned]
      | some n =>
        simp only [FTy.canon, decide_eq_true_eq] at hc
        simp [FTy.show, FTy.parse, strictInt_natToStr b n hc, countOfSigned]
    | _ => simp [FTy.canon] at hc
  | optIntZ b => simp [FTy.wf] at hw
  | posInt b =>
    cases v with
    | opt i =>
      cases i with
      | none => simp [FTy.show, FTy.parse, strictInt_nil, posOfSigned]
      | some n =>
        simp only [FTy.canon, Bool.and_eq_true, decide_eq_true_eq] at hc
        have hn : (n == 0) = false := by simp; omega
        simp [FTy.show, FTy.parse, strictInt_natToStr b n hc.2, posOfSigned, hn]
    | _ => simp [FTy.canon] at hc
  | sint b ze =>
    cases v with
    | int neg m =>
      cases neg with
      | false =>
        simp only [FTy.canon, Bool.false_eq_true, if_false, decide_eq_true_eq] at hc
        by_cases hz : (ze && m == 0) = true
        · simp only [Bool.and_eq_true, beq_iff_eq] at hz
          obtain ⟨hze, rfl⟩ := hz
          simp [FTy.show, FTy.parse, strictInt_nil, hze]
        · simp [FTy.show, FTy.parse, strictInt_natToStr b m hc, hz]
      | true =>
        simp only [FTy.canon, if_true, Bool.and_eq_true, decide_eq_true_eq] at hc
        have hm : (m != 0) = true := by simp; omega
        have hm0 : (m == 0) = false := by simp; omega
        simp [FTy.show, FTy.parse, strictInt_neg_natToStr b m hc.2, hm, hm0]
    | _ => simp [FTy.canon] at hc
  | flag ts =>
    cases v with
    | flag b =>
      simp only [FTy.wf, Bool.and_eq_true, Bool.not_eq_true', contains_false_iff] at hw
      cases b with
      | false => simp [FTy.show, FTy.parse, hw.2]
      | true =>
        cases ts with
        | nil => simp at hw
        | cons t ts' => simp [FTy.show, FTy.parse]
    | _ => simp [FTy.canon] at hc
  | enum ns =>
    cases v with
    | opt i =>
      simp only [FTy.wf, Bool.and_eq_true, Bool.not_eq_true', contains_false_iff] at hw
      cases i with
      | none => simp [FTy.show, FTy.parse, idxOf_none_of_not_mem hw.1]
      | some n =>
        simp only [FTy.canon, decide_eq_true_eq] at hc
        simp [FTy.show, FTy.parse, idxOf_nth hw.2 hc]
    | _ => simp [FTy.canon] at hc
  | enumD ns d =>
    cases v with
    | nat i =>
      simp only [FTy.wf, Bool.and_eq_true, Bool.not_eq_true', contains_false_iff] at hw
      simp only [FTy.canon, Bool.or_eq_true, decide_eq_true_eq, beq_iff_eq] at hc
      simp only [FTy.show, FTy.parse]
      by_cases hi : i < ns.length
      · simp [idxOf_nth hw.2 hi]
      · have hd : i = d := by rcases hc with h | h; exact absurd h hi; exact h
        rw [nth_nil_of_ge (by omega), idxOf_none_of_not_mem hw.1, hd]
    | _ => simp [FTy.canon] at hc
  | enumL ns =>
    cases v with
    | opt i =>
      simp only [FTy.wf, Bool.and_eq_true, Bool.not_eq_true', contains_false_iff] at hw
      cases i with
      | none => simp [FTy.show, FTy.parse, lowerStr, idxOf_none_of_not_mem hw.1.1]
      | some n =>
        simp only [FTy.canon, decide_eq_true_eq] at hc
        simp [FTy.show, FTy.parse, lowerStr_of_mem hw.2 (nth_mem hc), idxOf_nth hw.1.2 hc]
    | _ => simp [FTy.canon] at hc
  | b64 =>
    cases v with
    | str s =>
      simp only [FTy.canon, List.all_eq_true, decide_eq_true_eq] at hc
      simp only [FTy.show, FTy.parse]
      rw [b64dec_b64enc _ (by simpa [bytesOf] using hc), strOfBytes_bytesOf]
    | _ => simp [FTy.canon] at hc
  | dateTime =>
    cases v with
    | dt d =>
      cases d with
      | none => simp [FTy.show, FTy.parse, dtParseCode_nil]
      | some d =>
        simp only [FTy.canon, decide_eq_true_eq] at hc
        simp [FTy.show, FTy.parse, Scalar.dt_roundtrip d hc, hc]
    | _ => simp [FTy.canon] at hc

/-- (C): the value an omitting writer skips is what an absent attribute/element reads as -/
theorem FTy.parse_nil_of_default (ty : FTy) (v : Val) (hw : ty.wf = true) (hc : ty.canon v = true)
    (hd : ty.isDefault v = true) : ty.parse [] = v := by
  cases ty with
  | str => cases v <;> simp_all [FTy.canon, FTy.isDefault, FTy.parse]
  | nat b => cases v <;> simp_all [FTy.canon, FTy.isDefault, FTy.parse, lenientNat_nil]
  | optNat b =>
    cases v with
    | opt i => cases i <;> simp_all [FTy.isDefault, FTy.parse, strictNat_nil]
    | _ => simp [FTy.canon] at hc
  | optInt b =>
    cases v with
    | opt i => cases i <;> simp_all [FTy.isDefault, FTy.parse, strictInt_nil, countOfSigned]
    | _ => simp [FTy.canon] at hc
  | optIntZ b => simp [FTy.wf] at hw
  | posInt b =>
    cases v with
    | opt i => cases i <;> simp_all [FTy.isDefault, FTy.parse, strictInt_nil, posOfSigned]
    | _ => simp [FTy.canon] at hc
  | sint b ze =>
    cases v with
    | int neg m =>
      simp only [FTy.isDefault, beq_iff_eq] at hd
      subst hd
      cases neg with
      | false => simp [FTy.parse, strictInt_nil]
      | true => simp [FTy.canon] at hc
    | _ => simp [FTy.canon] at hc
  | flag ts =>
    cases v with
    | flag b =>
      simp only [FTy.wf, Bool.and_eq_true, Bool.not_eq_true', contains_false_iff] at hw
      cases b <;> simp_all [FTy.isDefault, FTy.parse]
    | _ => simp [FTy.canon] at hc
  | enum ns =>
    cases v with
    | opt i =>
      simp only [FTy.wf, Bool.and_eq_true, Bool.not_eq_true', contains_false_iff] at hw
      cases i <;> simp_all [FTy.isDefault, FTy.parse, idxOf_none_of_not_mem]
    | _ => simp [FTy.canon] at hc
  | enumD ns d =>
    cases v with
    | nat i =>
      simp only [FTy.wf, Bool.and_eq_true, Bool.not_eq_true', contains_false_iff] at hw
      simp only [FTy.isDefault, beq_iff_eq] at hd
      simp [FTy.parse, idxOf_none_of_not_mem hw.1, hd]
    | _ => simp [FTy.canon] at hc
  | enumL ns =>
    cases v with
    | opt i =>
      simp only [FTy.wf, Bool.and_eq_true, Bool.not_eq_true', contains_false_iff] at hw
      cases i <;> simp_all [FTy.isDefault, FTy.parse, lowerStr, idxOf_none_of_not_mem]
    | _ => simp [FTy.canon] at hc
  | b64 =>
    cases v with
    | str s =>
      simp only [FTy.isDefault, List.isEmpty_iff] at hd
      subst hd
      rfl
    | _ => simp [FTy.canon] at hc
  | dateTime =>
    cases v with
    | dt d => cases d <;> simp_all [FTy.isDefault, FTy.parse, dtParseCode_nil]
    | _ => simp [FTy.canon] at hc

/-! ### attribute and child lookup -/

theorem find?_frame {α} (p : α → Bool) (Q K : List α) (h : ∀ k ∈ Q, p k = false) :
    (Q ++ K).find? p = K.find? p := by
  induction Q with
  | nil => rfl
  | cons q Q ih =>
    simp [h q (by simp), ih (fun k hk => h k (by simp [hk]))]

theorem attr_append_of_not_mem (P Q : List (Str × Str)) (k : Str) (h : ∀ kv ∈ P, ¬ kv.1 = k) :
    attr (P ++ Q) k = attr Q k := by
  unfold attr
  rw [find?_frame _ P Q (by simpa using h)]

theorem attr_cons_self (Q : List (Str × Str)) (k s : Str) : attr ((k, s) :: Q) k = s := by
  simp [attr]

theorem attr_of_not_mem (Q : List (Str × Str)) (k : Str) (h : ∀ kv ∈ Q, ¬ kv.1 = k) : attr Q k = [] := by
  have := attr_append_of_not_mem Q [] k h
  simpa [attr] using this

theorem find?_none_of_all_false {α} (p : α → Bool) (Q : List α) (h : ∀ k ∈ Q, p k = false) :
    Q.find? p = none := by
  simpa using h

theorem filter_nil_of_all_false {α} (p : α → Bool) (Q : List α) (h : ∀ k ∈ Q, p k = false) :
    Q.filter p = [] := by
  simpa using h

theorem filter_self_of_all_true {α} (p : α → Bool) (Q : List α) (h : ∀ k ∈ Q, p k = true) :
    Q.filter p = Q := by
  simpa using h

theorem nsOf_no_xmlns (n : Str) (as : List (Str × Str)) (ks : List Node) (pns : Str)
    (h : ∀ kv ∈ as, ¬ kv.1 = xmlnsKey) : (Node.elem n as ks).nsOf pns = pns := by
  have : as.find? (fun kv => kv.1 == "xmlns".toList) = none := by
    simpa [xmlnsKey] using h
  simp only [Node.nsOf, this]

theorem nsOf_mk' (h : Head) (pns : Str) (as : List (Str × Str)) (ks : List Node)
    (hok : h.ok pns = true) (hx : ∀ kv ∈ h.extra ++ as, ¬ kv.1 = xmlnsKey) : (h.mk' as ks).nsOf pns = h.ns := by
  unfold Head.mk' nsAttr
  cases hd : h.decl with
  | true => simp [Node.nsOf, xmlnsKey]
  | false =>
    simp only [Head.ok, hd, Bool.false_or, beq_iff_eq] at hok
    simp only [Bool.false_eq_true, if_false, List.nil_append]
    rw [nsOf_no_xmlns _ _ _ _ hx, hok]

theorem tagParts_eq {v : Val} {i : Option Nat} {t : Str} (h : v.tagParts = some (i, t)) :
    v = .record [.opt i, .str t] := by
  unfold Val.tagParts at h
  split at h
  · simp only [Option.some.injEq, Prod.mk.injEq] at h
    obtain ⟨rfl, rfl⟩ := h
    rfl
  · simp at h

/-! ### first / last match -/

theorem pickChild_none (last : Bool) (p : Node → Bool) (Q S : List Node)
    (hQ : ∀ k ∈ Q, p k = false) (hS : ∀ k ∈ S, p k = false) : pickChild last p (Q ++ S) = none := by
  have h1 : (Q ++ S).filter p = [] := by
    rw [List.filter_append]
    have a : Q.filter p = [] := by simpa using hQ
    have b : S.filter p = [] := by simpa using hS
    rw [a, b]; rfl
  have h2 : (Q ++ S).find? p = none := by
    simp only [List.find?_eq_none, List.mem_append]
    intro k hk
    rcases hk with hk | hk
    · simp [hQ k hk]
    · simp [hS k hk]
  unfold pickChild
  cases last <;> simp [h1, h2]

theorem pickChild_single (last : Bool) (p : Node → Bool) (Q S : List Node) (k : Node)
    (hQ : ∀ k ∈ Q, p k = false) (hS : ∀ k ∈ S, p k = false) (hk : p k = true) :
    pickChild last p (Q ++ (k :: S)) = some k := by
  have a : Q.filter p = [] := by simpa using hQ
  have b : S.filter p = [] := by simpa using hS
  have h1 : (Q ++ (k :: S)).filter p = [k] := by
    rw [List.filter_append, a, List.filter_cons_of_pos hk, b]; rfl
  have h2 : (Q ++ (k :: S)).find? p = some k := by
    rw [find?_frame p Q (k :: S) hQ]; simp [hk]
  unfold pickChild
  cases last <;> simp [h1, h2]

theorem extra_no_xmlns {h : Head} {fs : List Field} (he : h.extraOk fs = true) :
    ∀ kv ∈ h.extra, ¬ kv.1 = xmlnsKey := by
  intro kv hkv
  simp only [Head.extraOk, List.all_eq_true, Bool.and_eq_true, bne_iff_ne, ne_eq] at he
  exact (he kv hkv).1

theorem extra_not_read {h : Head} {fs : List Field} (he : h.extraOk fs = true) :
    ∀ kv ∈ h.extra, ∀ f ∈ fs, f.reads kv.1 = false := by
  intro kv hkv f hf
  simp only [Head.extraOk, List.all_eq_true, Bool.and_eq_true, Bool.not_eq_true'] at he
  exact (he kv hkv).2 f hf

theorem deepText_textNode (t : Str) (as : List (Str × Str)) (s : Str) :
    deepText (.elem t as (textNode s)) = s := by
  unfold textNode
  cases s with
  | nil => simp [deepText, deepTextList]
  | cons c cs => simp [deepText, deepTextList]

/-! ### uninterpreted children: `normE` is idempotent and keeps tag and namespace -/

theorem keptAttrs_find_xmlns (as : List (Str × Str)) :
    (keptAttrs as).find? (fun kv => kv.1 == "xmlns".toList) = none := by
  simp only [keptAttrs, List.find?_eq_none, List.mem_filter, Bool.and_eq_true, bne_iff_ne, ne_eq]
  intro kv h
  simpa using h.2.1

theorem keptAttrs_idem (as : List (Str × Str)) : keptAttrs (keptAttrs as) = keptAttrs as := by
  simp [keptAttrs, List.filter_filter]

theorem nsOf_attrs_only (n : Str) (as : List (Str × Str)) (ks ks' : List Node) (p : Str) :
    (Node.elem n as ks).nsOf p = (Node.elem n as ks').nsOf p := rfl

/-- the attributes `normE` writes put the element in the namespace it was in -/
theorem nsOf_normAttrs (n : Str) (as : List (Str × Str)) (ks : List Node) (p : Str) :
    (Node.elem n ((if (Node.elem n as []).nsOf p == p then [] else [("xmlns".toList, (Node.elem n as []).nsOf p)])
        ++ keptAttrs as) ks).nsOf p = (Node.elem n as []).nsOf p := by
  split
  · rename_i h
    simp only [List.nil_append, Node.nsOf, keptAttrs_find_xmlns]
    simpa [Node.nsOf] using (beq_iff_eq.mp h).symm
  · simp [Node.nsOf]

theorem keptAttrs_normAttrs (x : List (Str × Str)) (as : List (Str × Str))
    (hx : ∀ kv ∈ x, kv.1 = "xmlns".toList) : keptAttrs (x ++ keptAttrs as) = keptAttrs as := by
  have : keptAttrs x = [] := by
    simp only [keptAttrs, List.filter_eq_nil_iff, Bool.and_eq_true, bne_iff_ne, ne_eq, not_and]
    intro kv hkv h
    exact absurd (hx kv hkv) h
  simp only [keptAttrs] at this ⊢
  rw [List.filter_append, this, List.nil_append]
  exact keptAttrs_idem as

theorem directText_normEs : ∀ (q : Str) (ks : List Node), directText (normEs q ks) = []
  | _, [] => rfl
  | q, .text _ :: ks => by simp only [normEs]; exact directText_normEs q ks
  | q, .elem n as ks' :: ks => by simp only [normEs, normE, directText]; exact directText_normEs q ks

mutual
theorem normE_idem : ∀ (p : Str) (t : Node), normE p (normE p t) = normE p t
  | _, .text _ => rfl
  | p, .elem n as ks => by
    simp only [normE]
    have hns := nsOf_normAttrs n as [] p
    have hns' : (Node.elem n ((if (Node.elem n as []).nsOf p == p then [] else [("xmlns".toList, (Node.elem n as []).nsOf p)])
        ++ keptAttrs as) []).nsOf p = (Node.elem n as []).nsOf p := hns
    rw [hns']
    have hk : keptAttrs ((if (Node.elem n as []).nsOf p == p then [] else [("xmlns".toList, (Node.elem n as []).nsOf p)])
        ++ keptAttrs as) = keptAttrs as := by
      apply keptAttrs_normAttrs
      intro kv hkv
      split at hkv
      · simp at hkv
      · simp only [List.mem_singleton] at hkv
        rw [hkv]
    rw [hk]
    -- the children: text first, then the (already normalised) elements
    have hd : directText ((if (directText ks).isEmpty then [] else [Node.text (directText ks)])
        ++ normEs ((Node.elem n as []).nsOf p) ks) = directText ks := by
      split
      · rename_i h
        simp only [List.nil_append, directText_normEs]
        exact (List.isEmpty_iff.mp h).symm
      · simp [directText, directText_normEs]
    have hes : normEs ((Node.elem n as []).nsOf p) ((if (directText ks).isEmpty then [] else [Node.text (directText ks)])
        ++ normEs ((Node.elem n as []).nsOf p) ks) = normEs ((Node.elem n as []).nsOf p) ks := by
      split
      · simp only [List.nil_append]; exact normEs_idem _ ks
      · simp only [List.singleton_append, normEs]; exact normEs_idem _ ks
    rw [hd, hes]
theorem normEs_idem : ∀ (q : Str) (ks : List Node), normEs q (normEs q ks) = normEs q ks
  | _, [] => rfl
  | q, .text _ :: ks => by simp only [normEs]; exact normEs_idem q ks
  | q, .elem n as ks' :: ks => by
    have h1 := normE_idem q (.elem n as ks')
    have h2 := normEs_idem q ks
    have hshape : ∃ n' as' ks'', normE q (.elem n as ks') = .elem n' as' ks'' := ⟨_, _, _, rfl⟩
    obtain ⟨n', as', ks'', he⟩ := hshape
    simp only [normEs]
    rw [he] at h1 ⊢
    simp only [normEs, h1, h2]
end

mutual
theorem nodeEq_refl : ∀ (t : Node), nodeEq t t = true
  | .text _ => by simp [nodeEq]
  | .elem n as ks => by simp [nodeEq, nodesEq_refl ks]
theorem nodesEq_refl : ∀ (ks : List Node), nodesEq ks ks = true
  | [] => rfl
  | k :: ks => by simp [nodesEq, nodeEq_refl k, nodesEq_refl ks]
end

mutual
theorem nodeEq_eq : ∀ (a b : Node), nodeEq a b = true → a = b
  | .text a, .text b, h => by simp only [nodeEq, beq_iff_eq] at h; rw [h]
  | .elem n as ks, .elem m bs ls, h => by
    simp only [nodeEq, Bool.and_eq_true, beq_iff_eq] at h
    rw [h.1.1, h.1.2, nodesEq_eq ks ls h.2]
  | .text _, .elem .., h => by simp [nodeEq] at h
  | .elem .., .text _, h => by simp [nodeEq] at h
theorem nodesEq_eq : ∀ (as bs : List Node), nodesEq as bs = true → as = bs
  | [], [], _ => rfl
  | a :: as, b :: bs, h => by
    simp only [nodesEq, Bool.and_eq_true] at h
    rw [nodeEq_eq a b h.1, nodesEq_eq as bs h.2]
  | [], _ :: _, h => by simp [nodesEq] at h
  | _ :: _, [], h => by simp [nodesEq] at h
end

theorem normE_isElem (p : Str) (t : Node) : (normE p t).isElem = t.isElem := by
  cases t <;> simp [normE, Node.isElem]

theorem normE_name (p : Str) (t : Node) : (normE p t).name = t.name := by
  cases t <;> simp [normE, Node.name]

theorem normE_nsOf (p : Str) (t : Node) : (normE p t).nsOf p = t.nsOf p := by
  cases t with
  | text s => rfl
  | elem n as ks =>
    simp only [normE]
    exact nsOf_normAttrs n as _ p

theorem Pat.matches_normE (e : Pat) (p : Str) (t : Node) : e.matches p (normE p t) = e.matches p t := by
  simp only [Pat.matches, normE_isElem, normE_name, normE_nsOf]

theorem exclAny_normE (excl : List Pat) (p : Str) (t : Node) : exclAny excl p (normE p t) = exclAny excl p t := by
  simp only [exclAny, Pat.matches_normE]

theorem Pat.matches_of_covers (e : Pat) (p : Str) (k : Node) (hk : k.isElem = true)
    (h : e.covers (k.name, k.nsOf p) = true) : e.matches p k = true := by
  simp only [Pat.covers, Bool.and_eq_true] at h
  simp only [Pat.matches, hk, Bool.true_and, Bool.and_eq_true]
  exact h

/-- a pattern that covers a lookup matches every child the lookup can see -/
theorem Pat.matches_of_coversLookup (e : Pat) (anyTag : Bool) (tag : Str) (anyNs : Bool) (ns p : Str) (k : Node)
    (hc : e.coversLookup anyTag tag anyNs ns = true)
    (hs : (k.isElem && (anyTag || k.name == tag) && (anyNs || k.nsOf p == ns)) = true) : e.matches p k = true := by
  simp only [Bool.and_eq_true, Bool.or_eq_true, beq_iff_eq] at hs
  obtain ⟨⟨he, ht⟩, hn⟩ := hs
  simp only [Pat.coversLookup, Bool.and_eq_true] at hc
  simp only [Pat.matches, he, Bool.true_and, Bool.and_eq_true]
  constructor
  · cases htg : e.tag with
    | none => rfl
    | some t' =>
      have := hc.1
      simp only [htg, Bool.and_eq_true, Bool.not_eq_true', beq_iff_eq] at this
      rcases ht with ht | ht
      · simp [ht] at this
      · simp [ht, this.2]
  · cases hng : e.ns with
    | none => rfl
    | some n' =>
      have := hc.2
      simp only [hng, Bool.and_eq_true, Bool.not_eq_true', beq_iff_eq] at this
      rcases hn with hn | hn
      · simp [hn] at this
      · simp [hn, this.2]

theorem exclAny_of_coversLookup (excl : List Pat) (anyTag : Bool) (tag : Str) (anyNs : Bool) (ns p : Str) (k : Node)
    (hc : (excl.any fun e => e.coversLookup anyTag tag anyNs ns) = true)
    (hs : (k.isElem && (anyTag || k.name == tag) && (anyNs || k.nsOf p == ns)) = true) : exclAny excl p k = true := by
  simp only [List.any_eq_true] at hc
  obtain ⟨e, he, hce⟩ := hc
  simp only [exclAny, List.any_eq_true]
  exact ⟨e, he, Pat.matches_of_coversLookup e anyTag tag anyNs ns p k hce hs⟩

/-- what a sibling field can see is claimed by an exclusion list that covers the field -/
theorem covered_sees (excl : List Pat) (f : Field) (p : Str) (k : Node) (hc : f.covered excl = true)
    (hs : f.sees p k = true) : exclAny excl p k = true := by
  cases f with
  | attr n ty o => simp [Field.sees] at hs
  | attrReadOnly n ty => simp [Field.sees] at hs
  | attrRW r w ty o => simp [Field.sees] at hs
  | attrReq n ty => simp [Field.sees] at hs
  | text ty => simp [Field.covered] at hc
  | rest p' excl' => simp [Field.covered] at hc
  | enumChild ns decl anyNs names m =>
    simp only [Field.covered] at hc
    simp only [Field.sees, matchesNs] at hs
    exact exclAny_of_coversLookup excl true [] anyNs ns p k hc (by simpa using hs)
  | tagChild ns decl anyNs names skip ko l tf =>
    simp only [Field.covered] at hc
    simp only [Field.sees, tagCand, Bool.and_eq_true] at hs
    exact exclAny_of_coversLookup excl true [] anyNs ns p k hc (by simp [hs.1.1.1, hs.1.1.2])
  | child h fs mode =>
    simp only [Field.covered] at hc
    simp only [Field.sees, Head.matches] at hs
    exact exclAny_of_coversLookup excl _ _ _ _ p k hc hs
  | many h fs ne =>
    simp only [Field.covered] at hc
    simp only [Field.sees, Head.matches] at hs
    exact exclAny_of_coversLookup excl _ _ _ _ p k hc hs
  | strSet h =>
    simp only [Field.covered] at hc
    simp only [Field.sees, Head.matches] at hs
    exact exclAny_of_coversLookup excl _ _ _ _ p k hc hs
  | formValue a names dflt vh kinds de oh ofs optFor =>
    simp only [Field.covered, Bool.and_eq_true] at hc
    simp only [Field.sees, Head.matches, Bool.or_eq_true] at hs
    rcases hs with hs | hs
    · exact exclAny_of_coversLookup excl _ _ _ _ p k hc.1 hs
    · exact exclAny_of_coversLookup excl _ _ _ _ p k hc.2 hs

/-! ### what a field writes -/

theorem encF_attrs (f : Field) (v : Val) : ∀ kv ∈ (encF f v).1, f.writes kv.1 = true := by
  intro kv h
  cases f with
  | attr name ty omitD =>
    simp only [encF] at h
    split at h
    · simp at h
    · simp at h; subst h; simp [Field.writes]
  | attrReadOnly name ty => simp [encF] at h
  | attrRW r w ty omitD =>
    simp only [encF] at h
    split at h
    · simp at h
    · simp at h; subst h; simp [Field.writes]
  | attrReq name ty =>
    simp only [encF, List.mem_singleton] at h
    subst h; simp [Field.writes]
  | text ty => simp [encF] at h
  | enumChild ns decl anyNs names m =>
    simp only [encF] at h
    split at h <;> simp at h
  | tagChild ns decl anyNs names skip ko l tf =>
    simp only [encF] at h
    split at h <;> simp at h
  | child hd fs mode =>
    simp only [encF] at h
    split at h
    · split at h
      · simp at h
      · split at h <;> simp at h
    · simp at h
  | many hd fs ne =>
    simp only [encF] at h
    split at h <;> simp at h
  | strSet hd =>
    simp only [encF] at h
    split at h <;> simp at h
  | formValue a names dflt vh kinds de oh ofs optFor =>
    simp only [encF] at h
    split at h
    · simp at h; subst h; simp [Field.writes]
    · simp at h
  | rest p excl =>
    simp only [encF] at h
    split at h <;> simp at h

theorem encFs_attrs : ∀ (fs : List Field) (vs : List Val),
    ∀ kv ∈ (encFs fs vs).1, ∃ f ∈ fs, f.writes kv.1 = true
  | [], _, kv, h => by simp [encFs] at h
  | _ :: _, [], kv, h => by simp [encFs] at h
  | f :: fs, v :: vs, kv, h => by
    simp only [encFs, List.mem_append] at h
    rcases h with h | h
    · exact ⟨f, by simp, encF_attrs f v kv h⟩
    · obtain ⟨g, hg, hr⟩ := encFs_attrs fs vs kv h
      exact ⟨g, by simp [hg], hr⟩

theorem wfFs_cons {pns : Str} {f : Field} {fs : List Field} (h : wfFs pns (f :: fs) = true) :
    wfF pns f = true ∧ (∀ g ∈ fs, indep f g = true ∧ indep g f = true) ∧ wfFs pns fs = true := by
  simp only [wfFs, Bool.and_eq_true, List.all_eq_true] at h
  exact ⟨h.1.1, h.1.2, h.2⟩

theorem wfFs_mem : ∀ {pns : Str} {fs : List Field}, wfFs pns fs = true → ∀ f ∈ fs, wfF pns f = true
  | _, [], _, f, hf => by simp at hf
  | pns, g :: fs, h, f, hf => by
    obtain ⟨h1, _, h3⟩ := wfFs_cons h
    simp only [List.mem_cons] at hf
    rcases hf with rfl | hf
    · exact h1
    · exact wfFs_mem h3 f hf

theorem wfF_reads_xmlns {pns : Str} {f : Field} (h : wfF pns f = true) : f.reads xmlnsKey = false := by
  cases f with
  | attr name ty omitD =>
    simp only [wfF, Bool.and_eq_true, bne_iff_ne, ne_eq] at h
    simp [Field.reads, h.1]
  | attrReadOnly name ty => simp [wfF] at h
  | attrRW r w ty o => simp [wfF] at h
  | attrReq name ty =>
    simp only [wfF, Bool.and_eq_true, bne_iff_ne, ne_eq] at h
    simp [Field.reads, h.1]
  | formValue a names dflt vh kinds de oh ofs optFor =>
    simp only [Field.reads, beq_eq_false_iff_ne, ne_eq]
    intro e
    subst e
    simp [wfF] at h
  | _ => rfl

theorem writes_reads {pns : Str} {f : Field} {k : Str} (hw : wfF pns f = true) (h : f.writes k = true) :
    f.reads k = true := by
  cases f <;> simp_all [Field.writes, Field.reads, wfF]

theorem encFs_no_xmlns {pns : Str} {fs : List Field} (vs : List Val) (h : wfFs pns fs = true) :
    ∀ kv ∈ (encFs fs vs).1, ¬ kv.1 = xmlnsKey := by
  intro kv hkv e
  obtain ⟨f, hf, hr⟩ := encFs_attrs fs vs kv hkv
  have := wfF_reads_xmlns (wfFs_mem h f hf)
  rw [e] at hr
  have hr' := writes_reads (wfFs_mem h f hf) hr
  simp [this] at hr'

theorem mk_no_xmlns {h : Head} {fs : List Field} (he : h.extraOk fs = true) (vs : List Val)
    (hw : wfFs h.ns fs = true) : ∀ kv ∈ h.extra ++ (encFs fs vs).1, ¬ kv.1 = xmlnsKey := by
  intro kv hkv
  simp only [List.mem_append] at hkv
  rcases hkv with hkv | hkv
  · exact extra_no_xmlns he kv hkv
  · exact encFs_no_xmlns vs hw kv hkv

theorem prefix_not_read {h : Head} {fs : List Field} (he : h.extraOk fs = true) (hw : wfFs h.ns fs = true) :
    ∀ kv ∈ nsAttr h.decl h.ns ++ h.extra, ∀ f ∈ fs, f.reads kv.1 = false := by
  intro kv hkv f hf
  simp only [List.mem_append] at hkv
  rcases hkv with hkv | hkv
  · have hk : kv.1 = xmlnsKey := by
      unfold nsAttr at hkv
      split at hkv <;> simp at hkv
      rw [hkv]
    rw [hk]; exact wfF_reads_xmlns (wfFs_mem hw f hf)
  · exact extra_not_read he kv hkv f hf

/-! ### `formValue`: value children and option records -/

theorem formParts_eq {v : Val} {i : Nat} {w : Val} {os : List Val} (h : v.formParts = some (i, w, os)) :
    v = .record [.nat i, w, .list os] := by
  unfold Val.formParts at h
  split at h
  · simp only [Option.some.injEq, Prod.mk.injEq] at h
    obtain ⟨rfl, rfl, rfl⟩ := h
    rfl
  · simp at h

theorem deepText_mk'_text (h : Head) (s : Str) : deepText (h.mk' [] (textNode s)) = s := by
  simp [Head.mk', deepText_textNode]

theorem formValueKids_mem {vh : Head} {k : Nat} {de : Bool} {w : Val} {n : Node}
    (hn : n ∈ formValueKids vh k de w) : ∃ s, n = vh.mk' [] (textNode s) := by
  cases w with
  | str s =>
    simp only [formValueKids] at hn
    split at hn
    · simp at hn
    · simp at hn; exact ⟨s, hn.2⟩
  | flag b =>
    simp only [formValueKids] at hn
    split at hn
    · simp at hn; exact ⟨_, hn⟩
    · simp at hn
  | list items =>
    simp only [formValueKids] at hn
    split at hn
    · simp only [List.mem_map] at hn
      obtain ⟨it, _, rfl⟩ := hn
      exact ⟨_, rfl⟩
    · simp at hn
  | _ => simp [formValueKids] at hn

/-- the value children written for a canonical value read back as that value -/
theorem formValue_texts (vh : Head) (k : Nat) (w : Val) (hc : formValueCanon k w = true) :
    formValueOf k ((formValueKids vh k false w).map deepText) = w := by
  cases w with
  | absent =>
    simp only [formValueCanon, Bool.and_eq_true, bne_iff_ne, ne_eq] at hc
    simp [formValueOf, formValueKids, hc.1, hc.2]
  | str s =>
    simp only [formValueCanon, Bool.and_eq_true, bne_iff_ne, ne_eq] at hc
    simp [formValueOf, formValueKids, hc.1, hc.2, deepText_mk'_text]
  | flag b =>
    simp only [formValueCanon, beq_iff_eq] at hc
    subst hc
    cases b <;> simp [formValueOf, formValueKids, deepText_mk'_text, boolTrues]
  | list items =>
    simp only [formValueCanon, Bool.and_eq_true, beq_iff_eq] at hc
    obtain ⟨rfl, hall⟩ := hc
    have this : (List.map (deepText ∘ fun it => vh.mk' [] (textNode it.getStr)) items) = items.map Val.getStr := by
      apply List.map_congr_left
      intro it _
      simp [Function.comp, deepText_mk'_text]
    have e : (formValueKids vh 2 false (.list items)).map deepText = items.map Val.getStr := by
      simp only [formValueKids, beq_self_eq_true, if_true, List.map_map]
      exact this
    rw [e]
    simp [formValueOf, map_str_getStr items hall]
  | _ => simp [formValueCanon] at hc

theorem formValueCanon_of (k : Nat) (ts : List Str) : formValueCanon k (formValueOf k ts) = true := by
  unfold formValueOf
  split
  · rename_i h; simp [formValueCanon, h]
  · split
    · rename_i h1 h2; simp [formValueCanon, h2, Val.isStr]
    · rename_i h1 h2
      cases ts <;> simp [formValueCanon] <;> exact ⟨by simpa using h1, by simpa using h2⟩

/-- an element written under head `oh` is not matched by a head `vh` that is distinguishable from it -/
theorem matches_other (vh oh : Head) (pns : Str) (as : List (Str × Str)) (ks : List Node)
    (hok : oh.ok pns = true) (hx : ∀ kv ∈ oh.extra ++ as, ¬ kv.1 = xmlnsKey)
    (hd : ((vh.anyTag || oh.tag == vh.tag) && (vh.anyNs || oh.ns == vh.ns)) = false) :
    vh.matches pns (oh.mk' as ks) = false := by
  have hns := nsOf_mk' oh pns as ks hok hx
  simp only [Head.matches, hns]
  simp only [Head.mk', Node.isElem, Node.name, Bool.true_and]
  exact hd

/-- what a `formValue` field writes: value children, option records -/
def fvVK (vh : Head) (kinds : List Nat) (i : Nat) (w : Val) : List Node := formValueKids vh (kinds.getD i 0) false w
def fvOK (oh : Head) (ofs : List Field) (optFor : List Nat) (i : Nat) (os : List Val) : List Node :=
  if optFor.contains i then os.map (fun it => oh.mk' (encFs ofs it.recVals).1 (encFs ofs it.recVals).2) else []

def Field.isText : Field → Bool
  | .text _ => true
  | _ => false

theorem encF_kids (pns : Str) (f : Field) (v : Val) (hw : wfF pns f = true) (hc : canonF f v = true) :
    ∀ k ∈ (encF f v).2, (f.isText = true ∧ k.isElem = false)
      ∨ (k.isElem = true ∧ (k.name, k.nsOf pns) ∈ f.heads) ∨ f.isRest = true := by
  intro k hk
  cases f with
  | attr name ty omitD => simp [encF] at hk
  | attrReadOnly name ty => simp [encF] at hk
  | attrRW r w ty o => simp [wfF] at hw
  | attrReq name ty => simp [encF] at hk
  | text ty =>
    left
    simp only [encF, textNode] at hk
    split at hk
    · simp at hk
    · simp at hk; subst hk; simp [Field.isText, Node.isElem]
  | enumChild ns decl anyNs names m =>
    right; left
    simp only [encF] at hk
    split at hk
    · rename_i i
      simp only [List.mem_singleton] at hk
      subst hk
      simp only [canonF, decide_eq_true_eq] at hc
      simp only [wfF, Bool.and_eq_true, Bool.or_eq_true, beq_iff_eq] at hw
      have hns : (Node.elem (nth names i) (nsAttr decl ns) []).nsOf pns = ns := by
        unfold nsAttr
        cases hd : decl with
        | true => simp [Node.nsOf, xmlnsKey]
        | false =>
          have : ns = pns := by simpa [hd] using hw.1.1
          simp [Node.nsOf, this]
      simp only [Node.isElem, Node.name, hns, Field.heads, List.mem_map, true_and]
      exact ⟨nth names i, nth_mem hc, rfl⟩
    · simp at hk
  | tagChild ns decl anyNs names skip ko l tf =>
    right; left
    simp only [encF] at hk
    split at hk
    · rename_i i tx hp
      simp only [List.mem_singleton] at hk
      subst hk
      simp only [canonF, hp, Bool.and_eq_true, decide_eq_true_eq] at hc
      simp only [wfF, Bool.and_eq_true, Bool.or_eq_true, beq_iff_eq] at hw
      have hns : (Node.elem (nth names i) (nsAttr decl ns) (textNode tx)).nsOf pns = ns := by
        unfold nsAttr
        cases hd : decl with
        | true => simp [Node.nsOf, xmlnsKey]
        | false =>
          have : ns = pns := by simpa [hd] using hw.1.1.1
          simp [Node.nsOf, this]
      simp only [Node.isElem, Node.name, hns, Field.heads, List.mem_map, true_and]
      exact ⟨nth names i, nth_mem hc.1, rfl⟩
    · simp at hk
  | child hd fs mode =>
    right; left
    simp only [wfF, Bool.and_eq_true] at hw
    simp only [encF] at hk
    split at hk
    · rename_i vs
      split at hk
      · simp at hk
      · split at hk
        · simp at hk
        · simp only [List.mem_singleton] at hk
          subst hk
          rw [nsOf_mk' hd pns _ (encFs fs vs).2 hw.1.1.1.1 (mk_no_xmlns hw.1.1.1.2 vs hw.1.1.2)]
          simp [Field.heads, Head.mk', Node.isElem, Node.name]
    · simp at hk
  | many hd fs ne =>
    right; left
    simp only [wfF, Bool.and_eq_true] at hw
    simp only [encF] at hk
    split at hk
    · rename_i items
      simp only [List.mem_map] at hk
      obtain ⟨it, _, rfl⟩ := hk
      rw [nsOf_mk' hd pns _ (encFs fs it.recVals).2 hw.1.1 (mk_no_xmlns hw.1.2 it.recVals hw.2)]
      simp [Field.heads, Head.mk', Node.isElem, Node.name]
    · simp at hk
  | strSet hd =>
    right; left
    simp only [wfF, Bool.and_eq_true] at hw
    simp only [encF] at hk
    split at hk
    · rename_i items
      simp only [List.mem_map] at hk
      obtain ⟨it, _, rfl⟩ := hk
      rw [nsOf_mk' hd pns _ _ hw.1 (by simpa using extra_no_xmlns hw.2)]
      simp [Field.heads, Head.mk', Node.isElem, Node.name]
    · simp at hk
  | formValue a names dflt vh kinds de oh ofs optFor =>
    right; left
    simp only [wfF, Bool.and_eq_true] at hw
    obtain ⟨⟨⟨⟨⟨⟨⟨⟨⟨⟨⟨_, _⟩, _⟩, _⟩, _⟩, hvok⟩, hvex⟩, hook⟩, hoex⟩, hwfs⟩, _⟩, _⟩ := hw
    simp only [encF] at hk
    split at hk
    · rename_i i w os _
      simp only [List.mem_append] at hk
      rcases hk with hk | hk
      · obtain ⟨s, rfl⟩ := formValueKids_mem hk
        rw [nsOf_mk' vh pns _ _ hvok (by simpa using extra_no_xmlns hvex)]
        simp [Field.heads, Head.mk', Node.isElem, Node.name]
      · split at hk
        · simp only [List.mem_map] at hk
          obtain ⟨it, _, rfl⟩ := hk
          rw [nsOf_mk' oh pns _ _ hook (mk_no_xmlns hoex it.recVals hwfs)]
          simp [Field.heads, Head.mk', Node.isElem, Node.name]
        · simp at hk
    · simp at hk
  | rest p excl => right; right; rfl

/-! ### independence of fields -/

theorem writes_wname {g : Field} {k : Str} (h : g.writes k = true) : g.wname = some k := by
  cases g <;> simp_all [Field.writes, Field.wname]

theorem indep_writes_reads (f g : Field) (hi : indep f g = true) (k : Str) (hw : g.writes k = true) :
    f.reads k = false := by
  simp only [indep, Bool.and_eq_true] at hi
  have h1 := hi.1
  simp only [indepA, writes_wname hw, Bool.not_eq_true'] at h1
  exact h1

theorem indep_reads (f g : Field) (v : Val) (hi : indep f g = true) :
    ∀ kv ∈ (encF g v).1, f.reads kv.1 = false :=
  fun kv hkv => indep_writes_reads f g hi kv.1 (encF_attrs g v kv hkv)

theorem heads_all_sees (pns : Str) (g : Field) (v : Val) (hwg : wfF pns g = true)
    (hcg : canonF g v = true) (hgt : g.isText = false) (hgr : g.isRest = false) (p : Str × Str → Bool)
    (hall : g.heads.all (fun hd => !p hd) = true) :
    ∀ k ∈ (encF g v).2, k.isElem = true ∧ p (k.name, k.nsOf pns) = false := by
  intro k hk
  rcases encF_kids pns g v hwg hcg k hk with h | h | h
  · simp [hgt] at h
  · simp only [List.all_eq_true, Bool.not_eq_true'] at hall
    exact ⟨h.1, hall _ h.2⟩
  · simp [hgr] at h

theorem indep_sees (pns : Str) (f g : Field) (v : Val) (hi : indep f g = true) (hwf : wfF pns f = true)
    (hwg : wfF pns g = true) (hcg : canonF g v = true) :
    ∀ k ∈ (encF g v).2, f.sees pns k = false := by
  intro k hk
  have hiK : indepK f g = true := by
    simp only [indep, Bool.and_eq_true] at hi
    exact hi.2
  clear hi
  cases hgr : g.isRest with
  | true =>
    -- `g` is the rest: its trees are outside its exclusion list, which covers everything `f` can see
    obtain ⟨p, excl, rfl⟩ : ∃ p excl, g = Field.rest p excl := by cases g <;> simp_all [Field.isRest]
    have hcov : f.covered excl = true := by simpa [indepK] using hiK
    have hp : p = pns := by simpa [wfF] using hwg
    subst hp
    cases v with
    | list items =>
      simp only [encF, List.mem_map] at hk
      obtain ⟨it, hit, rfl⟩ := hk
      simp only [canonF, List.all_eq_true, Bool.and_eq_true, Bool.not_eq_true'] at hcg
      have hne := (hcg it hit).1.2
      cases hs : f.sees p it.getNode with
      | false => rfl
      | true => rw [covered_sees excl f p _ hcov hs] at hne; exact absurd hne (by decide)
    | _ => simp [encF] at hk
  | false =>
  cases f with
  | attr n ty o => rfl
  | attrReadOnly n ty => rfl
  | attrRW r w ty o => rfl
  | attrReq n ty => rfl
  | text ty =>
    cases g <;> simp_all [indepK, Field.emitsKids, encF, Field.isRest]
  | enumChild ns decl anyNs names m =>
    cases hgt : g.isText with
    | true => cases g <;> simp_all [indepK, Field.isText, Field.isRest]
    | false =>
      have hall : g.heads.all (fun hd => !(anyNs || hd.2 == ns)) = true := by
        cases g <;> simp_all [indepK, Field.isText, Field.isRest] <;> assumption
      have := heads_all_sees pns g v hwg hcg hgt hgr
        (fun hd => anyNs || hd.2 == ns) hall k hk
      simp only [Field.sees, matchesNs, this.1, Bool.true_and]
      exact this.2
  | tagChild ns decl anyNs names skip ko l tf =>
    cases hgt : g.isText with
    | true =>
      rcases encF_kids pns g v hwg hcg k hk with h' | h' | h'
      · simp [Field.sees, tagCand, h'.2]
      · cases g <;> simp_all [Field.isText, Field.heads]
      · simp [hgr] at h'
    | false =>
      have hall : g.heads.all (fun hd => !((anyNs || hd.2 == ns) && !skip.contains hd.1
          && (!ko || names.contains hd.1))) = true := by
        cases g <;> simp_all [indepK, Field.isText, Field.isRest]
      have := heads_all_sees pns g v hwg hcg hgt hgr
        (fun hd => (anyNs || hd.2 == ns) && !skip.contains hd.1 && (!ko || names.contains hd.1)) hall k hk
      simp only [Field.sees, tagCand, this.1, Bool.true_and]
      exact this.2
  | child h fs mode =>
    cases hgt : g.isText with
    | true =>
      rcases encF_kids pns g v hwg hcg k hk with h' | h' | h'
      · simp [Field.sees, Head.matches, h'.2]
      · cases g <;> simp_all [Field.isText, Field.heads]
      · simp [hgr] at h'
    | false =>
      have hall : g.heads.all (fun hd => !((h.anyTag || hd.1 == h.tag) && (h.anyNs || hd.2 == h.ns))) = true := by
        cases g <;> simp_all [indepK, Field.isText, Field.isRest]
      have := heads_all_sees pns g v hwg hcg hgt hgr
        (fun hd => (h.anyTag || hd.1 == h.tag) && (h.anyNs || hd.2 == h.ns)) hall k hk
      simp only [Field.sees, Head.matches, this.1, Bool.true_and]
      exact this.2
  | many h fs ne =>
    cases hgt : g.isText with
    | true =>
      rcases encF_kids pns g v hwg hcg k hk with h' | h' | h'
      · simp [Field.sees, Head.matches, h'.2]
      · cases g <;> simp_all [Field.isText, Field.heads]
      · simp [hgr] at h'
    | false =>
      have hall : g.heads.all (fun hd => !((h.anyTag || hd.1 == h.tag) && (h.anyNs || hd.2 == h.ns))) = true := by
        cases g <;> simp_all [indepK, Field.isText, Field.isRest]
      have := heads_all_sees pns g v hwg hcg hgt hgr
        (fun hd => (h.anyTag || hd.1 == h.tag) && (h.anyNs || hd.2 == h.ns)) hall k hk
      simp only [Field.sees, Head.matches, this.1, Bool.true_and]
      exact this.2
  | strSet h =>
    cases hgt : g.isText with
    | true =>
      rcases encF_kids pns g v hwg hcg k hk with h' | h' | h'
      · simp [Field.sees, Head.matches, h'.2]
      · cases g <;> simp_all [Field.isText, Field.heads]
      · simp [hgr] at h'
    | false =>
      have hall : g.heads.all (fun hd => !((h.anyTag || hd.1 == h.tag) && (h.anyNs || hd.2 == h.ns))) = true := by
        cases g <;> simp_all [indepK, Field.isText, Field.isRest]
      have := heads_all_sees pns g v hwg hcg hgt hgr
        (fun hd => (h.anyTag || hd.1 == h.tag) && (h.anyNs || hd.2 == h.ns)) hall k hk
      simp only [Field.sees, Head.matches, this.1, Bool.true_and]
      exact this.2
  | formValue a names dflt vh kinds de oh ofs optFor =>
    cases hgt : g.isText with
    | true =>
      rcases encF_kids pns g v hwg hcg k hk with h' | h' | h'
      · simp [Field.sees, Head.matches, h'.2]
      · cases g <;> simp_all [Field.isText, Field.heads]
      · simp [hgr] at h'
    | false =>
      have hall : g.heads.all (fun hd => !(((vh.anyTag || hd.1 == vh.tag) && (vh.anyNs || hd.2 == vh.ns))
          || ((oh.anyTag || hd.1 == oh.tag) && (oh.anyNs || hd.2 == oh.ns)))) = true := by
        cases g <;> simp_all [indepK, Field.isText, Field.isRest]
      have := heads_all_sees pns g v hwg hcg hgt hgr
        (fun hd => ((vh.anyTag || hd.1 == vh.tag) && (vh.anyNs || hd.2 == vh.ns))
          || ((oh.anyTag || hd.1 == oh.tag) && (oh.anyNs || hd.2 == oh.ns))) hall k hk
      simp only [Field.sees, Head.matches, this.1, Bool.true_and]
      exact this.2
  | rest p excl =>
    have hp : p = pns := by simpa [wfF] using hwf
    subst hp
    cases hgt : g.isText with
    | true =>
      rcases encF_kids p g v hwg hcg k hk with h' | h' | h'
      · simp [Field.sees, h'.2]
      · cases g <;> simp_all [Field.isText, Field.heads]
      · simp [hgr] at h'
    | false =>
      have hall : g.heads.all (fun hd => !((fun hd => !(excl.any fun e => e.covers hd)) hd)) = true := by
        cases g <;> simp_all [indepK, Field.isText, Field.isRest]
      have := heads_all_sees p g v hwg hcg hgt hgr (fun hd => !(excl.any fun e => e.covers hd)) hall k hk
      have hany : (excl.any fun e => e.covers (k.name, k.nsOf p)) = true := by simpa using this.2
      simp only [List.any_eq_true] at hany
      obtain ⟨e, he, hce⟩ := hany
      have hm := Pat.matches_of_covers e p k this.1 hce
      have : exclAny excl p k = true := by simp only [exclAny, List.any_eq_true]; exact ⟨e, he, hm⟩
      simp [Field.sees, this]

theorem encFs_sees (pns : Str) (f : Field) (hwf : wfF pns f = true) : ∀ (fs : List Field) (vs : List Val),
    wfFs pns fs = true → canonFs fs vs = true → (∀ g ∈ fs, indep f g = true) →
    ∀ k ∈ (encFs fs vs).2, f.sees pns k = false
  | [], _, _, _, _, k, hk => by simp [encFs] at hk
  | _ :: _, [], _, hc, _, k, hk => by simp [encFs] at hk
  | g :: fs, v :: vs, hw, hc, hi, k, hk => by
    obtain ⟨hwg, _, hwfs⟩ := wfFs_cons hw
    simp only [canonFs, Bool.and_eq_true] at hc
    simp only [encFs, List.mem_append] at hk
    rcases hk with hk | hk
    · exact indep_sees pns f g v (hi g (by simp)) hwf hwg hc.1 k hk
    · exact encFs_sees pns f hwf fs vs hwfs hc.2 (fun g' hg' => hi g' (by simp [hg'])) k hk

/-! ### guarded wrappers -/

theorem guardEmpty_of_empty : ∀ (n : List Bool) (fs : List Field) (vs : List Val),
    encFs fs vs = ([], []) → guardEmpty n fs vs = true
  | [], _, _, _ => by simp [guardEmpty]
  | _ :: _, [], _, _ => by simp [guardEmpty]
  | _ :: _, _ :: _, [], _ => by simp [guardEmpty]
  | _ :: n, f :: fs, v :: vs, h => by
    simp only [encFs, Prod.mk.injEq, List.append_eq_nil_iff] at h
    have ih := guardEmpty_of_empty n fs vs (Prod.ext h.1.2 h.2.2)
    simp [guardEmpty, h.1.1, h.2.1, ih]

theorem decFs_length : ∀ (fs : List Field) (pns : Str) (x : Node), (decFs pns x fs).length = fs.length
  | [], _, _ => rfl
  | f :: fs, pns, x => by simp [decFs, decFs_length fs pns x]

theorem guardSome_of_empty : ∀ (m : List Bool) (fs : List Field) (vs : List Val), vs.length = fs.length →
    encFs fs vs = ([], []) → maskHits m fs = true → guardSome m fs vs = true
  | [], _, _, _, _, h => by simp [maskHits] at h
  | _ :: _, [], _, _, _, h => by simp [maskHits] at h
  | _ :: _, _ :: _, [], hl, _, _ => by simp at hl
  | b :: m, f :: fs, v :: vs, hl, h, hm => by
    simp only [encFs, Prod.mk.injEq, List.append_eq_nil_iff] at h
    simp only [maskHits, Bool.or_eq_true] at hm
    simp only [guardSome, h.1.1, h.2.1, List.isEmpty_nil, Bool.and_true, Bool.or_eq_true]
    rcases hm with hm | hm
    · left; exact hm
    · right
      exact guardSome_of_empty m fs vs (by simpa using hl) (Prod.ext h.1.2 h.2.2) hm

theorem beq_wrapAll_optional (n : List Bool) : (ChildMode.wrapAll n == ChildMode.optional) = false := rfl
theorem beq_wrapAll_wrapOmit (n : List Bool) : (ChildMode.wrapAll n == ChildMode.wrapOmit) = false := rfl

theorem beq_optional_optional : (ChildMode.optional == ChildMode.optional) = true := rfl
theorem beq_wrapOmit_optional : (ChildMode.wrapOmit == ChildMode.optional) = false := rfl
theorem beq_wrapOmit_wrapOmit : (ChildMode.wrapOmit == ChildMode.wrapOmit) = true := rfl
theorem beq_wrapGuard_optional (n : List Bool) : (ChildMode.wrapGuard n == ChildMode.optional) = false := rfl
theorem beq_wrapGuard_wrapOmit (n : List Bool) : (ChildMode.wrapGuard n == ChildMode.wrapOmit) = false := rfl

theorem attr_nil (k : Str) : attr [] k = [] := by simp [attr]

theorem pickChild_nil (last : Bool) (p : Node → Bool) : pickChild last p [] = none := by
  cases last <;> simp [pickChild]

mutual
theorem encF_null_quiet : ∀ (f : Field) (pns : Str), quietF f = true →
    encF f (decF pns nullNode f) = ([], [])
  | .attr name ty omitD, pns, h => by
    simp only [quietF, Bool.and_eq_true] at h
    simp [decF, encF, nullNode, Node.attrs, attr_nil, h.1, h.2]
  | .attrReadOnly .., _, _ => by simp [encF]
  | .attrRW r w ty o, pns, h => by
    simp only [quietF, Bool.and_eq_true] at h
    simp [decF, encF, nullNode, Node.attrs, attr_nil, h.1, h.2]
  | .attrReq .., _, h => by simp [quietF] at h
  | .text ty, pns, h => by
    simp only [quietF, List.isEmpty_iff] at h
    simp [decF, encF, nullNode, deepText, deepTextList, h, textNode]
  | .enumChild .., _, _ => by simp [decF, encF, nullNode, Node.kids]
  | .tagChild .., _, _ => by simp [decF, encF, nullNode, Node.kids, pickChild_nil, Val.tagParts]
  | .many .., _, _ => by simp [decF, encF, nullNode, Node.kids]
  | .strSet .., _, _ => by simp [decF, encF, nullNode, Node.kids, mkSet]
  | .formValue .., _, h => by simp [quietF] at h
  | .rest .., _, _ => by simp [decF, encF, nullNode, Node.kids]
  | .child hd fs mode, pns, h => by
    simp only [decF, nullNode, Node.kids, pickChild_nil, Option.filter_none]
    cases mode with
    | optional => simp [encF, beq_optional_optional]
    | wrapAlways => simp [quietF] at h
    | wrapOmit =>
      simp only [quietF] at h
      have ih := encFs_null_quiet fs hd.ns h
      simp only [nullNode] at ih
      simp [encF, ih, beq_wrapOmit_optional, beq_wrapOmit_wrapOmit]
    | wrapGuard n =>
      simp only [quietF] at h
      have ih := encFs_null_quiet fs hd.ns h
      simp only [nullNode] at ih
      have hg := guardEmpty_of_empty n fs _ ih
      simp [encF, ih, hg, beq_wrapGuard_optional, beq_wrapGuard_wrapOmit, ChildMode.isGuard, ChildMode.guardN]
    | wrapAll n =>
      simp only [quietF, Bool.and_eq_true] at h
      have ih := encFs_null_quiet fs hd.ns h.1
      have hg := guardSome_of_empty n fs _ (decFs_length fs hd.ns nullNode) ih h.2
      simp only [nullNode] at ih hg
      simp [encF, ih, hg, beq_wrapAll_optional, beq_wrapAll_wrapOmit, ChildMode.isGuard, ChildMode.isAll, ChildMode.guardN]
theorem encFs_null_quiet : ∀ (fs : List Field) (pns : Str), quietFs fs = true →
    encFs fs (decFs pns nullNode fs) = ([], [])
  | [], _, _ => by simp [decFs, encFs]
  | f :: fs, pns, h => by
    simp only [quietFs, Bool.and_eq_true] at h
    simp [decFs, encFs, encF_null_quiet f pns h.1, encFs_null_quiet fs pns h.2]
end

/-! ### the generic round trip: one induction over the field list -/

theorem reads_false_ne {f : Field} {name : Str} {ty : FTy} {o : Bool} (h : f = .attr name ty o)
    {k : Str} (hr : f.reads k = false) : ¬ k = name := by
  subst h
  simp only [Field.reads, beq_eq_false_iff_ne, ne_eq] at hr
  exact fun e => hr e.symm

theorem head_matches_mk' (h : Head) (pns : Str) (as : List (Str × Str)) (ks : List Node)
    (hok : h.ok pns = true) (hx : ∀ kv ∈ h.extra ++ as, ¬ kv.1 = xmlnsKey) :
    h.matches pns (h.mk' as ks) = true := by
  have := nsOf_mk' h pns as ks hok hx
  simp only [Head.matches, this]
  simp [Head.mk', Node.isElem, Node.name]

mutual
theorem decF_encF : ∀ (f : Field) (pns t : Str) (P R : List (Str × Str)) (Q S : List Node) (v : Val),
    wfF pns f = true → canonF f v = true →
    (∀ kv ∈ P, f.reads kv.1 = false) → (∀ kv ∈ R, f.reads kv.1 = false) →
    (∀ k ∈ Q, f.sees pns k = false) → (∀ k ∈ S, f.sees pns k = false) →
    decF pns (.elem t (P ++ ((encF f v).1 ++ R)) (Q ++ ((encF f v).2 ++ S))) f = v
  | .attr name ty omitD, pns, t, P, R, Q, S, v, hw, hc, hP, hR, _, _ => by
    simp only [wfF, Bool.and_eq_true] at hw
    simp only [canonF] at hc
    have hP' : ∀ kv ∈ P, ¬ kv.1 = name := fun kv hkv => reads_false_ne rfl (hP kv hkv)
    have hR' : ∀ kv ∈ R, ¬ kv.1 = name := fun kv hkv => reads_false_ne rfl (hR kv hkv)
    simp only [decF, Node.attrs, encF]
    rw [attr_append_of_not_mem P _ name hP']
    split
    · rename_i hcond
      simp only [Bool.and_eq_true] at hcond
      rw [List.nil_append, attr_of_not_mem R name hR']
      exact FTy.parse_nil_of_default ty v hw.2 hc hcond.2
    · rw [List.singleton_append, attr_cons_self]
      exact FTy.parse_show ty v hw.2 hc
  | .attrReadOnly name ty, pns, t, P, R, Q, S, v, hw, hc, _, _, _, _ => by simp [wfF] at hw
  | .attrRW r w ty o, pns, t, P, R, Q, S, v, hw, hc, _, _, _, _ => by simp [wfF] at hw
  | .attrReq name ty, pns, t, P, R, Q, S, v, hw, hc, hP, hR, _, _ => by
    simp only [wfF, Bool.and_eq_true] at hw
    simp only [canonF] at hc
    have hP' : ∀ kv ∈ P, ¬ kv.1 = name := fun kv hkv => by
      have := hP kv hkv; simp only [Field.reads, beq_eq_false_iff_ne, ne_eq] at this; exact fun e => this e.symm
    simp only [decF, Node.attrs, encF]
    rw [attr_append_of_not_mem P _ name hP', List.singleton_append, attr_cons_self]
    exact FTy.parse_show ty v hw.2 hc
  | .text ty, pns, t, P, R, Q, S, v, hw, hc, _, _, hQ, hS => by
    simp only [wfF] at hw
    simp only [canonF] at hc
    have hQ' : Q = [] := List.eq_nil_iff_forall_not_mem.mpr (fun k hk => by simpa [Field.sees] using hQ k hk)
    have hS' : S = [] := List.eq_nil_iff_forall_not_mem.mpr (fun k hk => by simpa [Field.sees] using hS k hk)
    subst hQ' hS'
    simp only [decF, encF, List.nil_append, List.append_nil, deepText_textNode]
    exact FTy.parse_show ty v hw hc
  | .enumChild ns decl anyNs names m, pns, t, P, R, Q, S, v, hw, hc, _, _, hQ, hS => by
    simp only [Field.sees] at hQ hS
    simp only [decF, Node.kids, encF]
    rw [find?_frame _ Q _ hQ]
    cases v with
    | opt i =>
      cases i with
      | none =>
        simp only [List.nil_append, find?_none_of_all_false _ S hS]
      | some i =>
        simp only [canonF, decide_eq_true_eq] at hc
        simp only [wfF, Bool.and_eq_true, Bool.or_eq_true, beq_iff_eq, Bool.not_eq_true',
          contains_false_iff] at hw
        have hns : (Node.elem (nth names i) (nsAttr decl ns) []).nsOf pns = ns := by
          unfold nsAttr
          cases hd : decl with
          | true => simp [Node.nsOf, xmlnsKey]
          | false =>
            have : ns = pns := by simpa [hd] using hw.1.1
            simp [Node.nsOf, this]
        have hm : matchesNs ns anyNs pns (Node.elem (nth names i) (nsAttr decl ns) []) = true := by
          simp [matchesNs, hns, Node.isElem]
        simp only [List.singleton_append, List.find?_cons, hm, Node.name, idxOf_nth hw.2 hc]
    | _ => simp [canonF] at hc
  | .tagChild ns decl anyNs names skip ko last tf, pns, t, P, R, Q, S, v, hw, hc, _, _, hQ, hS => by
    simp only [Field.sees] at hQ hS
    simp only [decF, Node.kids, encF]
    cases hp : v.tagParts with
    | none => simp [canonF, hp] at hc
    | some it =>
      obtain ⟨i, tx⟩ := it
      have hv := tagParts_eq hp
      cases i with
      | none =>
        simp only [canonF, hp, List.isEmpty_iff] at hc
        subst hc
        simp only [List.nil_append, pickChild_none _ _ Q S hQ hS, hv]
      | some i =>
        simp only [canonF, hp, Bool.and_eq_true, decide_eq_true_eq, Bool.or_eq_true, List.isEmpty_iff] at hc
        simp only [wfF, Bool.and_eq_true, Bool.or_eq_true, beq_iff_eq, Bool.not_eq_true',
          contains_false_iff, List.all_eq_true] at hw
        have hns : (Node.elem (nth names i) (nsAttr decl ns) (textNode tx)).nsOf pns = ns := by
          unfold nsAttr
          cases hd : decl with
          | true => simp [Node.nsOf, xmlnsKey]
          | false =>
            have : ns = pns := by simpa [hd] using hw.1.1.1
            simp [Node.nsOf, this]
        have hmem := nth_mem hc.1
        have hm : tagCand ns anyNs names skip ko pns (Node.elem (nth names i) (nsAttr decl ns) (textNode tx)) = true := by
          simp [tagCand, hns, Node.isElem, Node.name, hmem, hw.2 _ hmem]
        simp only [List.singleton_append, pickChild_single _ _ Q S _ hQ hS hm, Node.name, idxOf_nth hw.1.2 hc.1,
          deepText_textNode, hv]
        rcases hc.2 with h | h
        · subst h; simp
        · have h' : i ∈ tf := by simpa using h
          simp [h']
  | .child h fs mode, pns, t, P, R, Q, S, v, hw, hc, _, _, hQ, hS => by
    simp only [Field.sees] at hQ hS
    simp only [wfF, Bool.and_eq_true] at hw
    obtain ⟨⟨⟨⟨hok, hex⟩, hwfs⟩, _⟩, _⟩ := hw
    simp only [decF, Node.kids, encF]
    cases v with
    | absent =>
      simp only [canonF] at hc
      simp only [List.nil_append, pickChild_none _ _ Q S hQ hS, hc, if_true, Option.filter_none]
    | record vs =>
      simp only [canonF, Bool.and_eq_true] at hc
      obtain ⟨hcf, hcg⟩ := hc
      -- an element that is not written reads back as all defaults, which is what `vs` is
      have hnull : (encFs fs vs).1 = [] → (encFs fs vs).2 = [] → decFs h.ns nullNode fs = vs := by
        intro e1 e2
        have := decFs_encFs fs h.ns [] [] [] vs hwfs hcf (by simp) (by simp)
        rw [e1, e2] at this
        simpa [nullNode] using this
      cases hcond : (mode == ChildMode.wrapOmit && (encFs fs vs).1.isEmpty && (encFs fs vs).2.isEmpty) with
      | true =>
        simp only [hcond, ↓reduceIte]
        simp only [Bool.and_eq_true, List.isEmpty_iff] at hcond
        have hmode : (mode == ChildMode.optional) = false := by
          have h1 := hcond.1.1
          cases mode <;> first | rfl | exact absurd h1 (by decide)
        simp only [List.nil_append, pickChild_none _ _ Q S hQ hS, hmode, Bool.false_eq_true, if_false,
          Option.filter_none]
        exact congrArg Val.record (hnull hcond.1.2 hcond.2)
      | false =>
        simp only [hcond, Bool.false_eq_true, ↓reduceIte]
        cases hg : guardOff mode fs vs with
        | true =>
          have hg' : ((mode.isGuard && guardEmpty mode.guardN fs vs) || (mode.isAll && guardSome mode.guardN fs vs)) = true := hg
          have hmode : (mode == ChildMode.optional) = false := by
            cases mode <;> first | rfl | (simp [guardOff, ChildMode.isGuard, ChildMode.isAll] at hg)
          simp only [hg', ↓reduceIte, List.nil_append, pickChild_none _ _ Q S hQ hS, hmode, Bool.false_eq_true,
            if_false, Option.filter_none]
          simp only [hg, Bool.not_true, Bool.false_or, Bool.and_eq_true, List.isEmpty_iff] at hcg
          exact congrArg Val.record (hnull hcg.1 hcg.2)
        | false =>
          have hg' : ((mode.isGuard && guardEmpty mode.guardN fs vs) || (mode.isAll && guardSome mode.guardN fs vs)) = false := hg
          simp only [hg', Bool.false_eq_true, ↓reduceIte]
          have hx := mk_no_xmlns hex vs hwfs
          have hm := head_matches_mk' h pns (encFs fs vs).1 (encFs fs vs).2 hok hx
          have hns := nsOf_mk' h pns _ (encFs fs vs).2 hok hx
          have hdec := decFs_encFs fs h.ns h.tag (nsAttr h.decl h.ns ++ h.extra) [] vs hwfs hcf
            (prefix_not_read hex hwfs) (by simp)
          have hdec' : decFs h.ns (h.mk' (encFs fs vs).1 (encFs fs vs).2) fs = vs := by
            simpa [Head.mk'] using hdec
          simp only [List.singleton_append, pickChild_single _ _ Q S _ hQ hS hm, Option.filter_some, hns,
            beq_self_eq_true, Bool.or_true, if_true, hdec', hg, Bool.false_eq_true, ↓reduceIte]
    | _ => simp [canonF] at hc
  | .many h fs ne, pns, t, P, R, Q, S, v, hw, hc, _, _, hQ, hS => by
    simp only [Field.sees] at hQ hS
    simp only [wfF, Bool.and_eq_true] at hw
    simp only [decF, Node.kids, encF]
    cases v with
    | list items =>
      simp only [canonF, List.all_eq_true] at hc
      have hall : ∀ k ∈ items.map (fun it => h.mk' (encFs fs it.recVals).1 (encFs fs it.recVals).2),
          h.matches pns k = true := by
        intro k hk
        simp only [List.mem_map] at hk
        obtain ⟨it, _, rfl⟩ := hk
        exact head_matches_mk' h pns _ _ hw.1.1 (mk_no_xmlns hw.1.2 it.recVals hw.2)
      rw [List.filter_append, List.filter_append, filter_nil_of_all_false _ Q hQ,
        filter_nil_of_all_false _ S hS, filter_self_of_all_true _ _ hall, List.nil_append, List.append_nil]
      congr 1
      -- every written item has its mandatory parts, so none is skipped, and reads back as itself
      have hitems : ∀ (l : List Val), (∀ it ∈ l, (match it with | .record vs => canonFs fs vs && mandOK fs vs | _ => false) = true) →
          (l.map fun it => h.mk' (encFs fs it.recVals).1 (encFs fs it.recVals).2).filterMap (fun k =>
            if mandOK fs (decFs (k.nsOf pns) k fs) then some (Val.record (decFs (k.nsOf pns) k fs)) else none) = l := by
        intro l
        induction l with
        | nil => intro _; rfl
        | cons it l ih =>
          intro hl
          have hit := hl it (by simp)
          have ih' := ih (fun x hx => hl x (by simp [hx]))
          cases it with
          | record vs =>
            simp only [Bool.and_eq_true] at hit
            have hx := mk_no_xmlns hw.1.2 vs hw.2
            have hdec := decFs_encFs fs h.ns h.tag (nsAttr h.decl h.ns ++ h.extra) [] vs hw.2 hit.1
              (prefix_not_read hw.1.2 hw.2) (by simp)
            have hdec' : decFs h.ns (h.mk' (encFs fs vs).1 (encFs fs vs).2) fs = vs := by simpa [Head.mk'] using hdec
            simp only [List.map_cons, Val.recVals, List.filterMap_cons, nsOf_mk' h pns _ _ hw.1.1 hx, hdec', hit.2, if_true]
            exact congrArg (List.cons (Val.record vs)) ih'
          | _ => simp at hit
      exact hitems items hc
    | _ => simp [canonF] at hc
  | .strSet h, pns, t, P, R, Q, S, v, hw, hc, _, _, hQ, hS => by
    simp only [Field.sees] at hQ hS
    simp only [wfF, Bool.and_eq_true] at hw
    simp only [decF, Node.kids, encF]
    cases v with
    | list items =>
      simp only [canonF, Bool.and_eq_true] at hc
      have hx : ∀ kv ∈ h.extra ++ ([] : List (Str × Str)), ¬ kv.1 = xmlnsKey := by simpa using extra_no_xmlns hw.2
      have hall : ∀ k ∈ items.map (fun it => h.mk' [] (textNode it.getStr)), h.matches pns k = true := by
        intro k hk
        simp only [List.mem_map] at hk
        obtain ⟨it, _, rfl⟩ := hk
        exact head_matches_mk' h pns _ _ hw.1 hx
      rw [List.filter_append, List.filter_append, filter_nil_of_all_false _ Q hQ,
        filter_nil_of_all_false _ S hS, filter_self_of_all_true _ _ hall, List.nil_append, List.append_nil,
        List.map_map]
      have htxt : (items.map ((deepText) ∘ fun it => h.mk' [] (textNode it.getStr))) = items.map Val.getStr := by
        apply List.map_congr_left
        intro it _
        simp [Function.comp, Head.mk', deepText_textNode]
      rw [htxt, mkSet_of_sorted _ hc.2, map_str_getStr items hc.1]
    | _ => simp [canonF] at hc
  | .formValue a names dflt vh kinds de oh ofs optFor, pns, t, P, R, Q, S, v, hw, hc, hP, hR, hQ, hS => by
    simp only [wfF, Bool.and_eq_true, decide_eq_true_eq, bne_iff_ne, ne_eq, Bool.not_eq_true', contains_false_iff] at hw
    obtain ⟨⟨⟨⟨⟨⟨⟨⟨⟨⟨⟨_, hne⟩, hnd⟩, hd⟩, hde⟩, hvok⟩, hvex⟩, hook⟩, hoex⟩, hwfs⟩, hdist1⟩, hdist2⟩ := hw
    subst hde
    cases hp : v.formParts with
    | none => simp [canonF, hp] at hc
    | some parts =>
      obtain ⟨i, w, os⟩ := parts
      have hv := formParts_eq hp
      simp only [canonF, hp, Bool.and_eq_true, decide_eq_true_eq] at hc
      obtain ⟨⟨hi, hcw⟩, hco⟩ := hc
      have hP' : ∀ kv ∈ P, ¬ kv.1 = a := fun kv hkv => by
        have := hP kv hkv; simp only [Field.reads, beq_eq_false_iff_ne, ne_eq] at this; exact fun e => this e.symm
      have hR' : ∀ kv ∈ R, ¬ kv.1 = a := fun kv hkv => by
        have := hR kv hkv; simp only [Field.reads, beq_eq_false_iff_ne, ne_eq] at this; exact fun e => this e.symm
      simp only [Field.sees, Bool.or_eq_false_iff] at hQ hS
      have hvx : ∀ kv ∈ vh.extra ++ ([] : List (Str × Str)), ¬ kv.1 = xmlnsKey := by simpa using extra_no_xmlns hvex
      have hVKv : ∀ k ∈ fvVK vh kinds i w, vh.matches pns k = true := by
        intro k hk
        obtain ⟨s, rfl⟩ := formValueKids_mem hk
        exact head_matches_mk' vh pns _ _ hvok hvx
      have hVKo : ∀ k ∈ fvVK vh kinds i w, oh.matches pns k = false := by
        intro k hk
        obtain ⟨s, rfl⟩ := formValueKids_mem hk
        exact matches_other oh vh pns _ _ hvok hvx hdist2
      have hOKo : ∀ k ∈ fvOK oh ofs optFor i os, oh.matches pns k = true := by
        intro k hk
        simp only [fvOK] at hk
        split at hk
        · simp only [List.mem_map] at hk
          obtain ⟨it, _, rfl⟩ := hk
          exact head_matches_mk' oh pns _ _ hook (mk_no_xmlns hoex it.recVals hwfs)
        · simp at hk
      have hOKv : ∀ k ∈ fvOK oh ofs optFor i os, vh.matches pns k = false := by
        intro k hk
        simp only [fvOK] at hk
        split at hk
        · simp only [List.mem_map] at hk
          obtain ⟨it, _, rfl⟩ := hk
          exact matches_other vh oh pns _ _ hook (mk_no_xmlns hoex it.recVals hwfs) hdist1
        · simp at hk
      have hfv : (Q ++ ((fvVK vh kinds i w ++ fvOK oh ofs optFor i os) ++ S)).filter (vh.matches pns) = fvVK vh kinds i w := by
        rw [List.filter_append, List.filter_append, List.filter_append,
          filter_nil_of_all_false _ Q (fun k hk => (hQ k hk).1), filter_nil_of_all_false _ S (fun k hk => (hS k hk).1),
          filter_self_of_all_true _ _ hVKv, filter_nil_of_all_false _ _ hOKv]
        simp
      have hfo : (Q ++ ((fvVK vh kinds i w ++ fvOK oh ofs optFor i os) ++ S)).filter (oh.matches pns) = fvOK oh ofs optFor i os := by
        rw [List.filter_append, List.filter_append, List.filter_append,
          filter_nil_of_all_false _ Q (fun k hk => (hQ k hk).2), filter_nil_of_all_false _ S (fun k hk => (hS k hk).2),
          filter_nil_of_all_false _ _ hVKo, filter_self_of_all_true _ _ hOKo]
        simp
      have henc : encF (.formValue a names dflt vh kinds false oh ofs optFor) v
          = ([(a, nth names i)], fvVK vh kinds i w ++ fvOK oh ofs optFor i os) := by
        simp only [encF, hp, fvVK, fvOK]
      -- option records written for canonical values read back as those values
      have hitems : ∀ (l : List Val), (∀ it ∈ l, (match it with | .record vs => canonFs ofs vs | _ => false) = true) →
          l.map ((fun k => Val.record (decFs (k.nsOf pns) k ofs)) ∘
            fun it => oh.mk' (encFs ofs it.recVals).1 (encFs ofs it.recVals).2) = l := by
        intro l
        induction l with
        | nil => intro _; rfl
        | cons it l ih =>
          intro hl
          have hit := hl it (by simp)
          simp only [List.map_cons, ih (fun x hx => hl x (by simp [hx]))]
          congr 1
          cases it with
          | record vs =>
            simp only at hit
            have hx := mk_no_xmlns hoex vs hwfs
            simp only [Function.comp, Val.recVals]
            rw [nsOf_mk' oh pns _ _ hook hx]
            have := decFs_encFs ofs oh.ns oh.tag (nsAttr oh.decl oh.ns ++ oh.extra) [] vs hwfs hit
              (prefix_not_read hoex hwfs) (by simp)
            simpa [Head.mk'] using congrArg Val.record this
          | _ => simp at hit
      have hval : formValueOf (kinds.getD i 0) ((fvVK vh kinds i w).map deepText) = w := formValue_texts vh _ w hcw
      have hopts : (if optFor.contains i then (fvOK oh ofs optFor i os).map (fun k => Val.record (decFs (k.nsOf pns) k ofs)) else [])
          = os := by
        cases hopt : optFor.contains i with
        | false =>
          simp only [hopt, Bool.false_eq_true, if_false, List.isEmpty_iff] at hco ⊢
          exact hco.symm
        | true =>
          simp only [hopt, if_true, List.all_eq_true] at hco
          simp only [fvOK, hopt, if_true, List.map_map]
          exact hitems os hco
      rw [henc]
      simp only [decF, Node.attrs, Node.kids, hfv, hfo]
      have hidx : enumIdxD (nth names i) names dflt = i := by simp [enumIdxD, idxOf_nth hnd hi]
      rw [attr_append_of_not_mem P _ a hP', List.singleton_append, attr_cons_self, hidx]
      simp only [hval, hopts, hv]
  | .rest p excl, pns, t, P, R, Q, S, v, hw, hc, _, _, hQ, hS => by
    simp only [Field.sees] at hQ hS
    simp only [decF, Node.kids, encF]
    cases v with
    | list items =>
      simp only [canonF, List.all_eq_true, Bool.and_eq_true, Bool.not_eq_true'] at hc
      have hall : ∀ k ∈ items.map Val.getNode, (k.isElem && !exclAny excl p k) = true := by
        intro k hk
        simp only [List.mem_map] at hk
        obtain ⟨it, hit, rfl⟩ := hk
        have := hc it hit
        simp [this.1.1.2, this.1.2]
      rw [List.filter_append, List.filter_append, filter_nil_of_all_false _ Q hQ,
        filter_nil_of_all_false _ S hS, filter_self_of_all_true _ _ hall, List.nil_append, List.append_nil,
        List.map_map]
      congr 1
      have : ∀ it ∈ items, ((fun k => Val.node (normE p k)) ∘ Val.getNode) it = it := by
        intro it hit
        have h := hc it hit
        cases it with
        | node t' =>
          simp only [Function.comp, Val.getNode] at h ⊢
          rw [nodeEq_eq _ _ h.2]
        | _ => simp [Val.isNode] at h
      calc items.map ((fun k => Val.node (normE p k)) ∘ Val.getNode) = items.map id := List.map_congr_left this
        _ = items := List.map_id _
    | _ => simp [canonF] at hc
theorem decFs_encFs : ∀ (fs : List Field) (pns t : Str) (P : List (Str × Str)) (Q : List Node) (vs : List Val),
    wfFs pns fs = true → canonFs fs vs = true →
    (∀ kv ∈ P, ∀ f ∈ fs, f.reads kv.1 = false) → (∀ k ∈ Q, ∀ f ∈ fs, f.sees pns k = false) →
    decFs pns (.elem t (P ++ (encFs fs vs).1) (Q ++ (encFs fs vs).2)) fs = vs
  | [], pns, t, P, Q, vs, _, hc, _, _ => by
    cases vs with
    | nil => simp [decFs]
    | cons v vs => simp [canonFs] at hc
  | f :: fs, pns, t, P, Q, [], _, hc, _, _ => by simp [canonFs] at hc
  | f :: fs, pns, t, P, Q, v :: vs, hw, hc, hP, hQ => by
    obtain ⟨hwf, hind, hwfs⟩ := wfFs_cons hw
    simp only [canonFs, Bool.and_eq_true] at hc
    simp only [decFs, encFs]
    congr 1
    · -- the head field: later fields' output is invisible to it
      apply decF_encF f pns t P (encFs fs vs).1 Q (encFs fs vs).2 v hwf hc.1
      · exact fun kv hkv => hP kv hkv f (by simp)
      · intro kv hkv
        obtain ⟨g, hg, hr⟩ := encFs_attrs fs vs kv hkv
        exact indep_writes_reads f g (hind g hg).1 kv.1 hr
      · exact fun k hk => hQ k hk f (by simp)
      · intro k hk
        exact encFs_sees pns f hwf fs vs hwfs hc.2 (fun g hg => (hind g hg).1) k hk
    · -- the remaining fields: the head field's output is invisible to them
      have := decFs_encFs fs pns t (P ++ (encF f v).1) (Q ++ (encF f v).2) vs hwfs hc.2
        (by
          intro kv hkv g hg
          simp only [List.mem_append] at hkv
          rcases hkv with hkv | hkv
          · exact hP kv hkv g (by simp [hg])
          · exact indep_reads g f v (hind g hg).2 kv hkv)
        (by
          intro k hk g hg
          simp only [List.mem_append] at hk
          rcases hk with hk | hk
          · exact hQ k hk g (by simp [hg])
          · exact indep_sees pns g f v (hind g hg).2 (wfFs_mem hwfs g hg) hwf hc.1 k hk)
      simpa [List.append_assoc] using this
end

/-! ### every decode result is canonical -/

mutual
theorem canonF_decF : ∀ (f : Field) (pw pns : Str) (x : Node), wfF pw f = true → canonF f (decF pns x f) = true
  | .attr name ty o, _, pns, x, _ => by simp only [decF, canonF, FTy.canon_parse]
  | .attrReadOnly name ty, _, pns, x, _ => by simp only [decF, canonF, FTy.canon_parse]
  | .attrRW r w ty o, _, pns, x, _ => by simp only [decF, canonF, FTy.canon_parse]
  | .attrReq name ty, _, pns, x, _ => by simp only [decF, canonF, FTy.canon_parse]
  | .text ty, _, pns, x, _ => by simp only [decF, canonF, FTy.canon_parse]
  | .enumChild ns decl anyNs names m, _, pns, x, _ => by
    simp only [decF]
    split
    · rename_i k _
      cases hi : idxOf k.name names with
      | none => rfl
      | some i => simp [canonF, idxOf_lt hi]
    · rfl
  | .tagChild ns decl anyNs names skip ko last tf, _, pns, x, _ => by
    simp only [decF]
    split
    · rename_i k _
      split
      · rename_i i hi
        by_cases htf : i ∈ tf <;> simp [canonF, Val.tagParts, idxOf_lt hi, htf]
      · simp [canonF, Val.tagParts]
    · simp [canonF, Val.tagParts]
  | .child h fs mode, pw, pns, x, hw => by
    simp only [wfF, Bool.and_eq_true] at hw
    obtain ⟨⟨⟨⟨_, _⟩, hwfs⟩, hq⟩, hqa⟩ := hw
    -- the all-defaults record is canonical: under a guard it writes nothing
    have hnull : canonF (.child h fs mode) (.record (decFs h.ns nullNode fs)) = true := by
      simp only [canonF, Bool.and_eq_true, canonFs_decFs fs h.ns h.ns nullNode hwfs, true_and]
      cases mode with
      | wrapGuard n =>
        have hq' : quietFs fs = true := by simpa [ChildMode.isGuard] using hq
        simp [encFs_null_quiet fs h.ns hq']
      | wrapAll n =>
        have hq' : quietFs fs = true := by
          simp only [ChildMode.isAll, Bool.not_true, Bool.false_or, Bool.and_eq_true] at hqa
          exact hqa.1
        simp [encFs_null_quiet fs h.ns hq']
      | _ => simp [guardOff, ChildMode.isGuard, ChildMode.isAll]
    simp only [decF]
    split
    · rename_i k _
      split
      · exact hnull
      · rename_i hg
        simp only [Bool.not_eq_true] at hg
        simp [canonF, canonFs_decFs fs h.ns _ k hwfs, hg]
    · split
      · rename_i hm; simp only [canonF, hm]
      · exact hnull
  | .many h fs ne, pw, pns, x, hw => by
    simp only [wfF, Bool.and_eq_true] at hw
    simp only [decF, canonF, List.all_eq_true, List.mem_filterMap]
    rintro it ⟨k, _, hk⟩
    split at hk
    · rename_i hm
      simp only [Option.some.injEq] at hk
      subst hk
      simp [canonFs_decFs fs h.ns _ _ hw.2, hm]
    · simp at hk
  | .strSet h, pw, pns, x, _ => by
    simp only [decF, canonF, Bool.and_eq_true, List.map_map]
    refine ⟨by simp [Val.isStr], ?_⟩
    have : (List.map (Val.getStr ∘ Val.str) (mkSet (List.map deepText (List.filter (h.matches pns) x.kids))))
        = mkSet (List.map deepText (List.filter (h.matches pns) x.kids)) := by
      have hid : (Val.getStr ∘ Val.str) = id := by funext z; rfl
      rw [hid, List.map_id]
    rw [this]
    exact sortedB_mkSet _
  | .formValue a names dflt vh kinds de oh ofs optFor, pw, pns, x, hw => by
    simp only [wfF, Bool.and_eq_true, decide_eq_true_eq] at hw
    obtain ⟨⟨⟨⟨⟨⟨⟨⟨⟨⟨⟨_, _⟩, _⟩, hd⟩, _⟩, _⟩, _⟩, _⟩, _⟩, hwfs⟩, _⟩, _⟩ := hw
    simp only [decF, canonF, Val.formParts]
    generalize hi : enumIdxD (attr x.attrs a) names dflt = i
    have hlt : i < names.length := by
      subst hi
      unfold enumIdxD
      split
      · rename_i j hj; exact idxOf_lt hj
      · exact hd
    simp only [Bool.and_eq_true, decide_eq_true_eq]
    refine ⟨⟨hlt, formValueCanon_of _ _⟩, ?_⟩
    cases hopt : optFor.contains i with
    | false => simp
    | true =>
      simp only [if_true, List.all_eq_true, List.mem_map]
      rintro it ⟨k, _, rfl⟩
      exact canonFs_decFs ofs oh.ns _ _ hwfs
  | .rest p excl, pw, pns, x, _ => by
    simp only [decF, canonF, List.all_eq_true, List.mem_map, List.mem_filter, Bool.and_eq_true, Bool.not_eq_true']
    rintro it ⟨k, ⟨_, hk⟩, rfl⟩
    simp only [Val.isNode, Val.getNode, normE_isElem, exclAny_normE, normE_idem, nodeEq_refl, hk.1, hk.2, and_self]
theorem canonFs_decFs : ∀ (fs : List Field) (pw pns : Str) (x : Node), wfFs pw fs = true →
    canonFs fs (decFs pns x fs) = true
  | [], _, pns, x, _ => by simp [decFs, canonFs]
  | f :: fs, pw, pns, x, hw => by
    obtain ⟨h1, _, h3⟩ := wfFs_cons hw
    simp only [decFs, canonFs, Bool.and_eq_true]
    exact ⟨canonF_decF f pw pns x h1, canonFs_decFs fs pw pns x h3⟩
end

-- schemas without mandatory parts accept every value list
mutual
theorem mandF_of_noMand : ∀ (f : Field) (v : Val), noMandF f = true → mandF f v = true
  | .attr .., _, _ => by simp [mandF]
  | .attrReadOnly .., _, _ => by simp [mandF]
  | .attrRW .., _, _ => by simp [mandF]
  | .attrReq .., _, h => by simp [noMandF] at h
  | .text _, _, _ => by simp [mandF]
  | .tagChild .., _, _ => by simp [mandF]
  | .strSet .., _, _ => by simp [mandF]
  | .formValue .., _, _ => by simp [mandF]
  | .rest .., _, _ => by simp [mandF]
  | .enumChild _ _ _ _ m, v, h => by
    simp only [noMandF, Bool.not_eq_true'] at h
    simp [mandF, h]
  | .many _ fs ne, v, h => by
    simp only [noMandF, Bool.not_eq_true'] at h
    cases v <;> simp [mandF, h]
  | .child _ fs mode, v, h => by
    simp only [noMandF] at h
    cases v <;> simp [mandF, mandOK_of_noMand fs _ h]
theorem mandOK_of_noMand : ∀ (fs : List Field) (vs : List Val), noMandFs fs = true → mandOK fs vs = true
  | [], _, _ => by simp [mandOK]
  | _ :: _, [], _ => by simp [mandOK]
  | f :: fs, v :: vs, h => by
    simp only [noMandFs, Bool.and_eq_true] at h
    simp [mandOK, mandF_of_noMand f v h.1, mandOK_of_noMand fs vs h.2]
end

end Qx.Xml.Codec
