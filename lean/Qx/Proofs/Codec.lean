import Qx.Xml.Codec.Schema
/-!
Helper lemmas for the schema-driven codecs (tier C of C01/C02): integer printer/parser round trip,
scalar types, attribute / child lookup framing, and the generic field-list induction.
-/
namespace Qx.Xml.Codec
open Qx.Xml

/-! ### integers -/

def isDig (c : Char) : Bool := 48 ≤ c.toNat && c.toNat ≤ 57

theorem digit_cases {n : Nat} (h : n < 10) :
    n = 0 ∨ n = 1 ∨ n = 2 ∨ n = 3 ∨ n = 4 ∨ n = 5 ∨ n = 6 ∨ n = 7 ∨ n = 8 ∨ n = 9 := by omega

theorem digitVal_digitChar {n : Nat} (h : n < 10) : digitVal (digitChar n) = some n := by
  rcases digit_cases h with h | h | h | h | h | h | h | h | h | h <;> subst h <;> decide

theorem isDig_digitChar {n : Nat} (h : n < 10) : isDig (digitChar n) = true := by
  rcases digit_cases h with h | h | h | h | h | h | h | h | h | h <;> subst h <;> decide

theorem parseDigits_snoc (s : Str) (c : Char) :
    parseDigits (s ++ [c]) = digitStep (parseDigits s) c := by
  simp [parseDigits, List.foldl_append]

theorem parseDigits_natToStrF : ∀ (f n : Nat), n < f → parseDigits (natToStrF f n) = some n := by
  intro f
  induction f with
  | zero => intro n h; omega
  | succ f ih =>
    intro n h
    simp only [natToStrF]
    split
    · rename_i h10
      simp [parseDigits, digitStep, digitVal_digitChar h10]
    · rename_i h10
      rw [parseDigits_snoc, ih (n / 10) (by omega)]
      have hd : n % 10 < 10 := Nat.mod_lt _ (by omega)
      simp only [digitStep, digitVal_digitChar hd]
      congr 1
      omega

theorem parseDigits_natToStr (n : Nat) : parseDigits (natToStr n) = some n :=
  parseDigits_natToStrF (n + 1) n (by omega)

theorem natToStrF_isDig : ∀ (f n : Nat), ∀ c ∈ natToStrF f n, isDig c = true := by
  intro f
  induction f with
  | zero => intro n c h; simp [natToStrF] at h
  | succ f ih =>
    intro n c h
    simp only [natToStrF] at h
    split at h
    · rename_i h10
      simp at h; subst h; exact isDig_digitChar h10
    · simp only [List.mem_append, List.mem_singleton] at h
      rcases h with h | h
      · exact ih _ _ h
      · subst h; exact isDig_digitChar (Nat.mod_lt _ (by omega))

theorem natToStr_isDig (n : Nat) : ∀ c ∈ natToStr n, isDig c = true := natToStrF_isDig _ _

theorem natToStr_ne_nil (n : Nat) : natToStr n ≠ [] := by
  simp only [natToStr, natToStrF]
  split <;> simp

theorem isDig_not_space {c : Char} (h : isDig c = true) : isSpaceQt c = false := by
  simp only [isDig, Bool.and_eq_true, decide_eq_true_eq] at h
  cases hs : isSpaceQt c
  · rfl
  · simp only [isSpaceQt, Bool.or_eq_true, Bool.and_eq_true, decide_eq_true_eq] at hs
    omega

theorem dropWhile_all_false {α} (p : α → Bool) (s : List α) (h : ∀ c ∈ s, p c = false) :
    s.dropWhile p = s := by
  cases s with
  | nil => rfl
  | cons c cs => simp [h c (by simp)]

theorem trimQt_of_no_space (s : Str) (h : ∀ c ∈ s, isSpaceQt c = false) : trimQt s = s := by
  unfold trimQt
  rw [dropWhile_all_false _ s h, dropWhile_all_false _ s.reverse (by simpa using h), List.reverse_reverse]

theorem dropPlus_of_isDig (s : Str) (h : ∀ c ∈ s, isDig c = true) : dropPlus s = s := by
  cases s with
  | nil => rfl
  | cons c cs =>
    have hc := h c (by simp)
    have : c ≠ '+' := by intro e; subst e; revert hc; decide
    simp [dropPlus, this]

theorem strictNat_natToStr (b n : Nat) (h : n < 2 ^ b) : strictNat b (natToStr n) = some n := by
  have h1 : trimQt (natToStr n) = natToStr n :=
    trimQt_of_no_space _ (fun c hc => isDig_not_space (natToStr_isDig n c hc))
  have h2 : dropPlus (natToStr n) = natToStr n := dropPlus_of_isDig _ (natToStr_isDig n)
  have h3 : (natToStr n).isEmpty = false := by
    cases hh : natToStr n with
    | nil => exact absurd hh (natToStr_ne_nil n)
    | cons _ _ => rfl
  simp only [strictNat, h1, h2, h3, parseDigits_natToStr, h]
  simp

theorem lenientNat_natToStr (b n : Nat) (h : n < 2 ^ b) : lenientNat b (natToStr n) = n := by
  simp [lenientNat, strictNat_natToStr b n h]

theorem strictNat_lt {b : Nat} {s : Str} {n : Nat} (h : strictNat b s = some n) : n < 2 ^ b := by
  simp only [strictNat] at h
  split at h
  · simp at h
  · split at h
    · split at h
      · simp at h; omega
      · simp at h
    · simp at h

theorem lenientNat_lt (b : Nat) (s : Str) : lenientNat b s < 2 ^ b := by
  simp only [lenientNat]
  split
  · rename_i n h; exact strictNat_lt h
  · exact Nat.two_pow_pos b

theorem strictNat_nil (b : Nat) : strictNat b [] = none := by
  simp [strictNat, trimQt, dropPlus]

theorem lenientNat_nil (b : Nat) : lenientNat b [] = 0 := by
  simp [lenientNat, strictNat_nil]

/-! ### enum names -/

theorem contains_false_iff {l : List Str} {s : Str} : l.contains s = false ↔ s ∉ l := by
  simp

theorem idxOf_none_of_not_mem {s : Str} : ∀ {names : List Str}, s ∉ names → idxOf s names = none
  | [], _ => rfl
  | n :: ns, h => by
    simp only [List.mem_cons, not_or] at h
    simp [idxOf, h.1, idxOf_none_of_not_mem h.2]

theorem idxOf_lt {s : Str} : ∀ {names : List Str} {i : Nat}, idxOf s names = some i → i < names.length
  | [], _, h => by simp [idxOf] at h
  | n :: ns, i, h => by
    simp only [idxOf] at h
    split at h
    · simp at h; subst h; simp
    · simp only [Option.map_eq_some_iff] at h
      obtain ⟨j, hj, rfl⟩ := h
      have := idxOf_lt hj
      simp; omega

theorem nth_mem : ∀ {names : List Str} {i : Nat}, i < names.length → nth names i ∈ names
  | [], _, h => by simp at h
  | n :: ns, 0, _ => by simp [nth]
  | n :: ns, i + 1, h => by
    have hi : i < ns.length := by simpa using h
    simp [nth, nth_mem hi]

theorem idxOf_nth : ∀ {names : List Str} {i : Nat}, nodupB names = true → i < names.length →
    idxOf (nth names i) names = some i
  | [], _, _, h => by simp at h
  | n :: ns, 0, _, _ => by simp [idxOf, nth]
  | n :: ns, i + 1, hn, h => by
    simp only [nodupB, Bool.and_eq_true, Bool.not_eq_true', contains_false_iff] at hn
    have hi : i < ns.length := by simpa using h
    have hne : ¬ (nth ns i = n) := by
      intro e
      apply hn.1
      rw [← e]
      exact nth_mem hi
    simp [idxOf, nth, hne, idxOf_nth hn.2 hi]

/-! ### scalar types -/

theorem FTy.canon_parse (ty : FTy) (s : Str) : ty.canon (ty.parse s) = true := by
  cases ty with
  | str => rfl
  | nat b => simp [FTy.parse, FTy.canon, lenientNat_lt]
  | optNat b =>
    simp only [FTy.parse]
    cases h : strictNat b s with
    | none => rfl
    | some n => simp [FTy.canon, strictNat_lt h]
  | flag ts => rfl
  | enum ns =>
    simp only [FTy.parse]
    cases h : idxOf s ns with
    | none => rfl
    | some n => simp [FTy.canon, idxOf_lt h]

/-- (A)+(B): whatever is printed (possibly nothing) parses back to the value -/
theorem FTy.parse_show (ty : FTy) (v : Val) (hw : ty.wf = true) (hc : ty.canon v = true) :
    ty.parse (ty.show v) = v := by
  cases ty with
  | str => cases v <;> simp_all [FTy.canon, FTy.show, FTy.parse]
  | nat b =>
    cases v <;> simp_all [FTy.canon, FTy.show, FTy.parse]
    exact lenientNat_natToStr _ _ hc
  | optNat b =>
    cases v with
    | opt i =>
      cases i with
      | none => simp [FTy.show, FTy.parse, strictNat_nil]
      | some n => simp_all [FTy.canon, FTy.show, FTy.parse, strictNat_natToStr]
    | _ => simp [FTy.canon] at hc
  | flag ts =>
    cases v with
    | flag b =>
      simp only [FTy.wf, Bool.and_eq_true, Bool.not_eq_true', contains_false_iff] at hw
      cases b with
      | false => simp [FTy.show, FTy.parse, hw.2]
      | true =>
        cases ts with
        | nil => simp at hw
        | cons t ts' => simp [FTy.show, FTy.parse]
    | _ => simp [FTy.canon] at hc
  | enum ns =>
    cases v with
    | opt i =>
      simp only [FTy.wf, Bool.and_eq_true, Bool.not_eq_true', contains_false_iff] at hw
      cases i with
      | none => simp [FTy.show, FTy.parse, idxOf_none_of_not_mem hw.1]
      | some n =>
        simp only [FTy.canon, decide_eq_true_eq] at hc
        simp [FTy.show, FTy.parse, idxOf_nth hw.2 hc]
    | _ => simp [FTy.canon] at hc

/-- (C): the value an omitting writer skips is what an absent attribute/element reads as -/
theorem FTy.parse_nil_of_default (ty : FTy) (v : Val) (hw : ty.wf = true) (hc : ty.canon v = true)
    (hd : ty.isDefault v = true) : ty.parse [] = v := by
  cases ty with
  | str => cases v <;> simp_all [FTy.canon, FTy.isDefault, FTy.parse]
  | nat b => cases v <;> simp_all [FTy.canon, FTy.isDefault, FTy.parse, lenientNat_nil]
  | optNat b =>
    cases v with
    | opt i => cases i <;> simp_all [FTy.isDefault, FTy.parse, strictNat_nil]
    | _ => simp [FTy.canon] at hc
  | flag ts =>
    cases v with
    | flag b =>
      simp only [FTy.wf, Bool.and_eq_true, Bool.not_eq_true', contains_false_iff] at hw
      cases b <;> simp_all [FTy.isDefault, FTy.parse]
    | _ => simp [FTy.canon] at hc
  | enum ns =>
    cases v with
    | opt i =>
      simp only [FTy.wf, Bool.and_eq_true, Bool.not_eq_true', contains_false_iff] at hw
      cases i <;> simp_all [FTy.isDefault, FTy.parse, idxOf_none_of_not_mem]
    | _ => simp [FTy.canon] at hc

/-! ### attribute and child lookup -/

theorem find?_frame {α} (p : α → Bool) (Q K : List α) (h : ∀ k ∈ Q, p k = false) :
    (Q ++ K).find? p = K.find? p := by
  induction Q with
  | nil => rfl
  | cons q Q ih =>
    simp [h q (by simp), ih (fun k hk => h k (by simp [hk]))]

theorem attr_append_of_not_mem (P Q : List (Str × Str)) (k : Str) (h : ∀ kv ∈ P, ¬ kv.1 = k) :
    attr (P ++ Q) k = attr Q k := by
  unfold attr
  rw [find?_frame _ P Q (by simpa using h)]

theorem attr_cons_self (Q : List (Str × Str)) (k s : Str) : attr ((k, s) :: Q) k = s := by
  simp [attr]

theorem attr_of_not_mem (Q : List (Str × Str)) (k : Str) (h : ∀ kv ∈ Q, ¬ kv.1 = k) : attr Q k = [] := by
  have := attr_append_of_not_mem Q [] k h
  simpa [attr] using this

theorem find?_none_of_all_false {α} (p : α → Bool) (Q : List α) (h : ∀ k ∈ Q, p k = false) :
    Q.find? p = none := by
  simpa using h

theorem filter_nil_of_all_false {α} (p : α → Bool) (Q : List α) (h : ∀ k ∈ Q, p k = false) :
    Q.filter p = [] := by
  simpa using h

theorem filter_self_of_all_true {α} (p : α → Bool) (Q : List α) (h : ∀ k ∈ Q, p k = true) :
    Q.filter p = Q := by
  simpa using h

theorem nsOf_no_xmlns (n : Str) (as : List (Str × Str)) (ks : List Node) (pns : Str)
    (h : ∀ kv ∈ as, ¬ kv.1 = xmlnsKey) : (Node.elem n as ks).nsOf pns = pns := by
  have : as.find? (fun kv => kv.1 == "xmlns".toList) = none := by
    simpa [xmlnsKey] using h
  simp only [Node.nsOf, this]

theorem nsOf_mk' (h : Head) (pns : Str) (as : List (Str × Str)) (ks : List Node)
    (hok : h.ok pns = true) (hx : ∀ kv ∈ as, ¬ kv.1 = xmlnsKey) : (h.mk' as ks).nsOf pns = h.ns := by
  unfold Head.mk' nsAttr
  cases hd : h.decl with
  | true => simp [Node.nsOf, xmlnsKey]
  | false =>
    simp only [Head.ok, hd, Bool.false_or, beq_iff_eq] at hok
    simp only [Bool.false_eq_true, if_false, List.nil_append]
    rw [nsOf_no_xmlns _ _ _ _ hx, hok]

theorem deepText_textNode (t : Str) (as : List (Str × Str)) (s : Str) :
    deepText (.elem t as (textNode s)) = s := by
  unfold textNode
  cases s with
  | nil => simp [deepText, deepTextList]
  | cons c cs => simp [deepText, deepTextList]

end Qx.Xml.Codec
