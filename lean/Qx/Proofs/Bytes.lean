/-
Lemmas about `Qx.Base.Bytes` (round trips of the big-endian integer codecs, xor cancellation,
4-byte padding arithmetic).
-/
import Qx.Base.Bytes

namespace Qx.Bytes

theorem putU16_length (n : Nat) : (putU16 n).length = 2 := rfl
theorem putU32_length (n : Nat) : (putU32 n).length = 4 := rfl
theorem putU64_length (n : Nat) : (putU64 n).length = 8 := rfl

private theorem u8 (n : Nat) : (UInt8.ofNat n).toNat = n % 256 := by
  simp [UInt8.toNat_ofNat']

/-- reading back a 16-bit big-endian value returns the value and the untouched rest -/
theorem getU16_putU16 (x : Nat) (rest : Bytes) (h : x < 65536) :
    getU16 (putU16 x ++ rest) = some (x, rest) := by
  simp only [putU16, getU16, List.cons_append, List.nil_append, u8]
  congr 2
  omega

/-- reading back a 32-bit big-endian value returns the value and the untouched rest -/
theorem getU32_putU32 (x : Nat) (rest : Bytes) (h : x < 4294967296) :
    getU32 (putU32 x ++ rest) = some (x, rest) := by
  simp only [putU32, getU32, List.cons_append, List.nil_append, u8]
  congr 2
  omega

/-- reading back a 64-bit big-endian value returns the value and the untouched rest -/
theorem getU64_putU64 (x : Nat) (rest : Bytes) (h : x < 18446744073709551616) :
    getU64 (putU64 x ++ rest) = some (x, rest) := by
  simp only [putU64, putU32, getU64, List.cons_append, List.nil_append, u8]
  congr 2
  omega

/-- without the range hypothesis the value comes back reduced mod 2^16 -/
theorem getU16_putU16_mod (x : Nat) (rest : Bytes) :
    getU16 (putU16 x ++ rest) = some (x % 65536, rest) := by
  simp only [putU16, getU16, List.cons_append, List.nil_append, u8]
  congr 2
  omega

theorem getU32_putU32_mod (x : Nat) (rest : Bytes) :
    getU32 (putU32 x ++ rest) = some (x % 4294967296, rest) := by
  simp only [putU32, getU32, List.cons_append, List.nil_append, u8]
  congr 2
  omega

/-- `getU16` fails exactly on inputs shorter than 2 bytes -/
theorem getU16_eq_none (bs : Bytes) : getU16 bs = none ↔ bs.length < 2 := by
  match bs with
  | [] => simp [getU16]
  | [_] => simp [getU16]
  | _ :: _ :: _ => simp [getU16]

/-- `getU32` fails exactly on inputs shorter than 4 bytes -/
theorem getU32_eq_none (bs : Bytes) : getU32 bs = none ↔ bs.length < 4 := by
  match bs with
  | [] => simp [getU32]
  | [_] => simp [getU32]
  | [_, _] => simp [getU32]
  | [_, _, _] => simp [getU32]
  | _ :: _ :: _ :: _ :: _ => simp [getU32]

/-- a successful `getU16` consumes exactly two bytes and yields a value below 2^16 -/
theorem getU16_some {bs rest : Bytes} {v : Nat} (h : getU16 bs = some (v, rest)) :
    bs.length = rest.length + 2 ∧ v < 65536 := by
  match bs, h with
  | a :: b :: r, h =>
    simp only [getU16, Option.some.injEq, Prod.mk.injEq] at h
    obtain ⟨hv, hr⟩ := h
    subst hr
    have ha := a.toNat_lt
    have hb := b.toNat_lt
    exact ⟨by simp, by omega⟩

/-- a successful `getU32` consumes exactly four bytes and yields a value below 2^32 -/
theorem getU32_some {bs rest : Bytes} {v : Nat} (h : getU32 bs = some (v, rest)) :
    bs.length = rest.length + 4 ∧ v < 4294967296 := by
  match bs, h with
  | a :: b :: c :: d :: r, h =>
    simp only [getU32, Option.some.injEq, Prod.mk.injEq] at h
    obtain ⟨hv, hr⟩ := h
    subst hr
    have ha := a.toNat_lt
    have hb := b.toNat_lt
    have hc := c.toNat_lt
    have hd := d.toNat_lt
    exact ⟨by simp, by omega⟩

/-- re-encoding what `getU16` read gives back the original bytes -/
theorem putU16_getU16 {bs rest : Bytes} {v : Nat} (h : getU16 bs = some (v, rest)) :
    putU16 v ++ rest = bs := by
  match bs, h with
  | a :: b :: r, h =>
    simp only [getU16, Option.some.injEq, Prod.mk.injEq] at h
    obtain ⟨hv, hr⟩ := h
    subst hr hv
    have ha := a.toNat_lt
    have hb := b.toNat_lt
    simp only [putU16, List.cons_append, List.nil_append, List.cons.injEq, and_true]
    constructor
    · apply UInt8.toNat_inj.mp; rw [u8]; omega
    · apply UInt8.toNat_inj.mp; rw [u8]; omega

theorem xorBytes_length (a b : Bytes) : (xorBytes a b).length = min a.length b.length := by
  induction a generalizing b with
  | nil => simp [xorBytes]
  | cons x xs ih =>
    cases b with
    | nil => simp [xorBytes]
    | cons y ys => simp [xorBytes, ih, Nat.succ_min_succ]

private theorem xor_cancel (x y : UInt8) : x ^^^ y ^^^ y = x := by
  rw [UInt8.xor_assoc, UInt8.xor_self, UInt8.xor_zero]

/-- xoring twice with the same pad gives the original back (lengths equal) -/
theorem xorBytes_self_cancel (a b : Bytes) (h : a.length = b.length) :
    xorBytes (xorBytes a b) b = a := by
  induction a generalizing b with
  | nil => cases b <;> simp [xorBytes]
  | cons x xs ih =>
    cases b with
    | nil => simp at h
    | cons y ys =>
      simp only [List.length_cons, Nat.add_right_cancel_iff] at h
      simp [xorBytes, ih ys h, xor_cancel]

/-- xor is commutative -/
theorem xorBytes_comm (a b : Bytes) : xorBytes a b = xorBytes b a := by
  induction a generalizing b with
  | nil => cases b <;> simp [xorBytes]
  | cons x xs ih =>
    cases b with
    | nil => simp [xorBytes]
    | cons y ys => simp [xorBytes, ih ys, UInt8.xor_comm]

/-- padding brings any length to a multiple of four and is at most three bytes -/
theorem pad4_spec (n : Nat) : (n + pad4 n) % 4 = 0 ∧ pad4 n < 4 := by
  unfold pad4
  omega

/-- a multiple of four needs no padding -/
theorem pad4_eq_zero (n : Nat) : pad4 n = 0 ↔ n % 4 = 0 := by
  unfold pad4
  omega

/-- `pad4` is the *least* padding: nothing smaller reaches a multiple of four -/
theorem pad4_least (n k : Nat) (h : (n + k) % 4 = 0) : pad4 n ≤ k := by
  unfold pad4
  omega

theorem takeExact_some {n : Nat} {bs a b : Bytes} (h : takeExact n bs = some (a, b)) :
    a ++ b = bs ∧ a.length = n := by
  unfold takeExact at h
  split at h
  · simp only [Option.some.injEq, Prod.mk.injEq] at h
    obtain ⟨h1, h2⟩ := h
    subst h1 h2
    simp [List.length_take]
    omega
  · simp at h

end Qx.Bytes
