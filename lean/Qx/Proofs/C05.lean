import Qx.Model.C05Sasl
/-!
Helper lemmas for C05 (property theorems are in `Qx/Props/C05.lean`).
-/
namespace Qx.C05
open Qx.SaslOrder

/-! ## the lexicographic order on ranks -/

theorem rlt_iff (a b : Nat × Nat × Nat) : rlt a b = true ↔
    (a.1 < b.1 ∨ (a.1 = b.1 ∧ (a.2.1 < b.2.1 ∨ (a.2.1 = b.2.1 ∧ a.2.2 < b.2.2)))) := by
  simp [rlt]

theorem rlt_false_iff (a b : Nat × Nat × Nat) : rlt a b = false ↔
    ¬ (a.1 < b.1 ∨ (a.1 = b.1 ∧ (a.2.1 < b.2.1 ∨ (a.2.1 = b.2.1 ∧ a.2.2 < b.2.2)))) := by
  rw [← rlt_iff]; simp

theorem rlt_irrefl (a : Nat × Nat × Nat) : rlt a a = false := by
  rw [rlt_false_iff]; omega

theorem rlt_trans {a b c : Nat × Nat × Nat} (h1 : rlt a b = true) (h2 : rlt b c = true) : rlt a c = true := by
  rw [rlt_iff] at *; omega

theorem rlt_asymm {a b : Nat × Nat × Nat} (h1 : rlt a b = true) : rlt b a = false := by
  rw [rlt_iff] at h1; rw [rlt_false_iff]; omega

/-- `b ≤ a` and `b < c` give `a`… no: `a ≤ b` (i.e. `¬ b < a`) and `b < c` give `a < c` -/
theorem rlt_of_le_of_lt {a b c : Nat × Nat × Nat} (h1 : rlt b a = false) (h2 : rlt b c = true) : rlt a c = true := by
  rw [rlt_false_iff] at h1; rw [rlt_iff] at *; omega

theorem rlt_connected {a b : Nat × Nat × Nat} (h1 : rlt a b = false) (h2 : rlt b a = false) : a = b := by
  rw [rlt_false_iff] at h1 h2
  have e1 : a.1 = b.1 := by omega
  have e2 : a.2.1 = b.2.1 := by omega
  have e3 : a.2.2 = b.2.2 := by omega
  exact Prod.ext e1 (Prod.ext e2 e3)

theorem weaker_irrefl (m : Mech) : weaker m m = false := rlt_irrefl _

theorem weaker_trans {a b c : Mech} (h1 : weaker a b = true) (h2 : weaker b c = true) : weaker a c = true :=
  rlt_trans h1 h2

theorem weaker_asymm {a b : Mech} (h : weaker a b = true) : weaker b a = false := rlt_asymm h

/-! ## `rank` is injective (on the generated declaration orders) -/

theorem Simple.mem_all (f : Simple) : f ∈ Simple.all := by cases f <;> decide
theorem ScramAlg.mem_all (a : ScramAlg) : a ∈ ScramAlg.all := by cases a <;> decide
theorem Cb.mem_all (c : Cb) : c ∈ Cb.all := by cases c <;> decide

theorem simple_idx_inj (f f' : Simple) : variantOrder.idxOf f.cxx = variantOrder.idxOf f'.cxx → f = f' := by
  cases f <;> cases f' <;> decide

theorem scram_idx_inj (a a' : ScramAlg) : scramAlgOrder.idxOf a.cxx = scramAlgOrder.idxOf a'.cxx → a = a' := by
  cases a <;> cases a' <;> decide

theorem cb_idx_inj (c c' : Cb) : channelBindingOrder.idxOf c.cxx = channelBindingOrder.idxOf c'.cxx → c = c' := by
  cases c <;> cases c' <;> decide

theorem simple_ne_scram (f : Simple) : variantOrder.idxOf f.cxx ≠ variantOrder.idxOf scramCxx := by
  cases f <;> decide

theorem simple_ne_ht (f : Simple) : variantOrder.idxOf f.cxx ≠ variantOrder.idxOf htCxx := by
  cases f <;> decide

theorem scram_ne_ht : variantOrder.idxOf scramCxx ≠ variantOrder.idxOf htCxx := by decide

theorem rank_ht_fst (h : Nat) (cb : Cb) : (rank (.ht h cb)).1 = variantOrder.idxOf htCxx := by
  simp only [rank]; split <;> rfl

theorem rank_injective (m m' : Mech) (h : rank m = rank m') : m = m' := by
  cases m with
  | simple f =>
    cases m' with
    | simple f' =>
      simp only [rank, Prod.mk.injEq] at h
      rw [simple_idx_inj f f' h.1]
    | scram a =>
      simp only [rank, Prod.mk.injEq] at h
      exact absurd h.1 (simple_ne_scram f)
    | ht h' cb =>
      have h1 := congrArg Prod.fst h
      rw [rank_ht_fst] at h1
      exact absurd h1 (simple_ne_ht f)
  | scram a =>
    cases m' with
    | simple f' =>
      simp only [rank, Prod.mk.injEq] at h
      exact absurd h.1.symm (simple_ne_scram f')
    | scram a' =>
      simp only [rank, Prod.mk.injEq] at h
      rw [scram_idx_inj a a' h.2.1]
    | ht h' cb =>
      have h1 := congrArg Prod.fst h
      rw [rank_ht_fst] at h1
      exact absurd h1 scram_ne_ht
  | ht h0 cb0 =>
    cases m' with
    | simple f' =>
      have h1 := congrArg Prod.fst h
      rw [rank_ht_fst] at h1
      exact absurd h1.symm (simple_ne_ht f')
    | scram a' =>
      have h1 := congrArg Prod.fst h
      rw [rank_ht_fst] at h1
      exact absurd h1.symm scram_ne_ht
    | ht h' cb' =>
      simp only [rank] at h
      split at h
      · simp only [Prod.mk.injEq] at h
        rw [h.2.1, cb_idx_inj cb0 cb' h.2.2]
      · simp only [Prod.mk.injEq] at h
        rw [h.2.2, cb_idx_inj cb0 cb' h.2.1]

/-! ## `pickMax` / `maxMech` / `chooseFrom` -/

theorem pickMax_spec (xs : List Mech) : ∀ b : Mech,
    (pickMax b xs = b ∨ pickMax b xs ∈ xs) ∧ weaker (pickMax b xs) b = false ∧
      ∀ x ∈ xs, weaker (pickMax b xs) x = false := by
  induction xs with
  | nil => intro b; simp [pickMax, weaker_irrefl]
  | cons x xs ih =>
    intro b
    simp only [pickMax]
    by_cases hw : weaker b x = true
    · simp only [hw, if_true]
      obtain ⟨h1, h2, h3⟩ := ih x
      refine ⟨?_, ?_, ?_⟩
      · rcases h1 with h | h
        · right; rw [h]; exact List.mem_cons_self
        · right; exact List.mem_cons_of_mem _ h
      · cases hc : weaker (pickMax x xs) b with
        | false => rfl
        | true => rw [weaker_trans hc hw] at h2; exact h2
      · intro y hy
        rcases List.mem_cons.mp hy with rfl | hy
        · exact h2
        · exact h3 y hy
    · have hw' : weaker b x = false := by simpa using hw
      simp only [hw', Bool.false_eq_true, if_false]
      obtain ⟨h1, h2, h3⟩ := ih b
      refine ⟨?_, h2, ?_⟩
      · rcases h1 with h | h
        · left; exact h
        · right; exact List.mem_cons_of_mem _ h
      · intro y hy
        rcases List.mem_cons.mp hy with rfl | hy
        · cases hc : weaker (pickMax b xs) y with
          | false => rfl
          | true =>
            have := rlt_of_le_of_lt (a := rank b) (b := rank (pickMax b xs)) (c := rank y) h2 hc
            unfold weaker at hw'; rw [this] at hw'; exact hw'
        · exact h3 y hy

theorem maxMech_spec {ms : List Mech} {r : Mech} (h : maxMech ms = some r) :
    r ∈ ms ∧ ∀ x ∈ ms, weaker r x = false := by
  cases ms with
  | nil => simp [maxMech] at h
  | cons m ms =>
    simp only [maxMech, Option.some.injEq] at h
    subst h
    obtain ⟨h1, h2, h3⟩ := pickMax_spec ms m
    refine ⟨?_, ?_⟩
    · rcases h1 with h | h
      · rw [h]; exact List.mem_cons_self
      · exact List.mem_cons_of_mem _ h
    · intro x hx
      rcases List.mem_cons.mp hx with rfl | hx
      · exact h2
      · exact h3 x hx

theorem maxMech_none_iff (ms : List Mech) : maxMech ms = none ↔ ms = [] := by
  cases ms <;> simp [maxMech]

/-- the greatest element is determined by the *set* of elements -/
theorem maxMech_congr {l l' : List Mech} (hmem : ∀ m, m ∈ l ↔ m ∈ l') : maxMech l = maxMech l' := by
  cases h : maxMech l with
  | none =>
    have hl : l = [] := (maxMech_none_iff l).mp h
    have hl' : l' = [] := by
      apply List.eq_nil_iff_forall_not_mem.mpr
      intro a ha
      have := (hmem a).mpr ha
      rw [hl] at this; exact absurd this List.not_mem_nil
    rw [hl']; rfl
  | some r =>
    cases h' : maxMech l' with
    | none =>
      have hl' : l' = [] := (maxMech_none_iff l').mp h'
      have := (hmem r).mp (maxMech_spec h).1
      rw [hl'] at this; exact absurd this List.not_mem_nil
    | some r' =>
      have s := maxMech_spec h
      have s' := maxMech_spec h'
      have a1 : weaker r r' = false := s.2 r' ((hmem r').mpr s'.1)
      have a2 : weaker r' r = false := s'.2 r ((hmem r).mp s.1)
      rw [rank_injective r r' (rlt_connected a1 a2)]

theorem chooseFrom_mem {pref : Option Mech} {ms : List Mech} {m : Mech} (h : chooseFrom pref ms = some m) : m ∈ ms := by
  unfold chooseFrom at h
  split at h
  · simp at h
  · split at h
    · split at h
      · rename_i p hp
        simp only [Option.some.injEq] at h
        subst h
        simpa using hp
      · exact (maxMech_spec h).1
    · exact (maxMech_spec h).1

theorem chooseFrom_none_iff (pref : Option Mech) (ms : List Mech) : chooseFrom pref ms = none ↔ ms = [] := by
  unfold chooseFrom
  constructor
  · intro h
    split at h
    · rename_i he; simpa using he
    · split at h
      · split at h
        · simp at h
        · exact (maxMech_none_iff ms).mp h
      · exact (maxMech_none_iff ms).mp h
  · intro h; simp [h]

theorem chooseFrom_pref {p : Mech} {ms : List Mech} (h : p ∈ ms) : chooseFrom (some p) ms = some p := by
  unfold chooseFrom
  have hne : ms.isEmpty = false := by
    cases ms with
    | nil => exact absurd h List.not_mem_nil
    | cons _ _ => rfl
  simp [hne, h]

theorem chooseFrom_max {pref : Option Mech} {ms : List Mech} {m : Mech} (h : chooseFrom pref ms = some m)
    (hp : ∀ p, pref = some p → p ∉ ms) : ∀ x ∈ ms, weaker m x = false := by
  unfold chooseFrom at h
  split at h
  · simp at h
  · split at h
    · rename_i p
      split at h
      · rename_i hc
        have : p ∈ ms := by simpa using hc
        exact absurd this (hp p rfl)
      · exact (maxMech_spec h).2
    · exact (maxMech_spec h).2

theorem chooseFrom_congr (pref : Option Mech) {l l' : List Mech} (hmem : ∀ m, m ∈ l ↔ m ∈ l') :
    chooseFrom pref l = chooseFrom pref l' := by
  have hmax := maxMech_congr hmem
  have hemp : l.isEmpty = l'.isEmpty := by
    cases l with
    | nil =>
      have : l' = [] := by
        apply List.eq_nil_iff_forall_not_mem.mpr
        intro a ha
        exact absurd ((hmem a).mpr ha) List.not_mem_nil
      rw [this]
    | cons a t =>
      cases l' with
      | nil => exact absurd ((hmem a).mp List.mem_cons_self) List.not_mem_nil
      | cons _ _ => rfl
  unfold chooseFrom
  rw [hemp, hmax]
  cases pref with
  | none => rfl
  | some p =>
    have hc : l.contains p = l'.contains p := by
      rw [Bool.eq_iff_iff]; simpa using hmem p
    simp only [hc]

/-! ## membership in `permitted` -/

theorem mem_permitted_iff (cfg : Cfg) (off : List String) (m : Mech) :
    m ∈ permitted cfg off ↔
      ∃ n, n ∈ off ∧ n ∉ cfg.disabled ∧ fromName n = some m ∧ available cfg.creds m = true := by
  simp only [permitted, enabledNames, List.mem_filter, List.mem_filterMap, List.contains_eq_mem, Bool.not_eq_true',
    decide_eq_false_iff_not]
  constructor
  · rintro ⟨⟨n, ⟨hn, hd⟩, hf⟩, ha⟩
    exact ⟨n, hn, hd, hf, ha⟩
  · rintro ⟨n, hn, hd, hf, ha⟩
    exact ⟨⟨n, ⟨hn, hd⟩, hf⟩, ha⟩

/-! ## names: what parses to a mechanism -/

theorem lookup_mem {tbl : List (String × String)} {k v : String} (h : lookup tbl k = some v) : (k, v) ∈ tbl := by
  induction tbl with
  | nil => simp [lookup] at h
  | cons e t ih =>
    simp only [lookup] at h
    split at h
    · rename_i he
      simp only [Option.some.injEq] at h
      have : e = (k, v) := Prod.ext he h
      rw [this]; exact List.mem_cons_self
    · exact List.mem_cons_of_mem _ (ih h)

theorem fromNameTbl_some {tbl : List (String × String × String)} {n : String} {m : Mech}
    (h : fromNameTbl tbl n = some m) : ∃ e ∈ tbl, fromEntry n e = some (some m) := by
  induction tbl with
  | nil => simp [fromNameTbl] at h
  | cons e t ih =>
    simp only [fromNameTbl] at h
    split at h
    · rename_i r hr
      exact ⟨e, List.mem_cons_self, by rw [hr, h]⟩
    · obtain ⟨e', he', hf⟩ := ih h
      exact ⟨e', List.mem_cons_of_mem _ he', hf⟩

/-- what a successful test of `SaslMechanism::fromString` tells about the name -/
theorem fromEntry_some {n : String} {e : String × String × String} {m : Mech} (h : fromEntry n e = some (some m)) :
    (e.1 ≠ "prefix" ∧ e.2.1 = n ∧ ∃ f, simpleOfCxx e.2.2 = some f ∧ m = .simple f) ∨
    (e.1 = "prefix" ∧ e.2.2 = scramCxx ∧ ∃ a, scramFromName n = some a ∧ m = .scram a) ∨
    (e.1 = "prefix" ∧ e.2.2 = htCxx ∧ ∃ p, htFromName n = some p ∧ m = .ht p.1 p.2) := by
  unfold fromEntry at h
  split at h
  · rename_i hpre
    split at h
    · simp only [Option.some.injEq] at h
      split at h
      · rename_i hs
        right; left
        cases hsn : scramFromName n with
        | none => rw [hsn] at h; simp at h
        | some a =>
          rw [hsn] at h
          simp only [Option.map_some, Option.some.injEq] at h
          exact ⟨hpre, hs, a, rfl, h.symm⟩
      · split at h
        · rename_i hh
          right; right
          cases hhn : htFromName n with
          | none => rw [hhn] at h; simp at h
          | some p =>
            rw [hhn] at h
            simp only [Option.map_some, Option.some.injEq] at h
            exact ⟨hpre, hh, p, rfl, h.symm⟩
        · simp at h
    · simp at h
  · rename_i hpre
    split at h
    · rename_i heq
      simp only [Option.some.injEq] at h
      left
      cases hs : simpleOfCxx e.2.2 with
      | none => rw [hs] at h; simp at h
      | some f =>
        rw [hs] at h
        simp only [Option.map_some, Option.some.injEq] at h
        exact ⟨hpre, heq, f, rfl, h.symm⟩
    · simp at h

/-- (decided on the generated tables) an exact-match test returns the alternative whose `toString` is that literal -/
theorem simple_table_canonical : ∀ e ∈ mechFromString, e.1 ≠ "prefix" →
    ∀ f ∈ Simple.all, simpleOfCxx e.2.2 = some f → toName (.simple f) = e.2.1 := by decide

/-- (decided on the generated tables) same for `SaslScramMechanism::fromString` / `toString` -/
theorem scram_table_canonical : ∀ p ∈ scramFromString,
    ∀ a ∈ ScramAlg.all, scramOfCxx p.2 = some a → toName (.scram a) = p.1 := by decide

theorem fromName_simple_canonical {n : String} {f : Simple} (h : fromName n = some (.simple f)) :
    toName (.simple f) = n := by
  obtain ⟨e, he, hfe⟩ := fromNameTbl_some h
  rcases fromEntry_some hfe with ⟨hne, heq, f', hf', hm⟩ | ⟨_, _, a, _, hm⟩ | ⟨_, _, p, _, hm⟩
  · injection hm with hm
    subst hm
    rw [simple_table_canonical e he hne f (Simple.mem_all f) hf', heq]
  · cases hm
  · cases hm

theorem fromName_scram_canonical {n : String} {a : ScramAlg} (h : fromName n = some (.scram a)) :
    toName (.scram a) = n := by
  obtain ⟨e, _, hfe⟩ := fromNameTbl_some h
  rcases fromEntry_some hfe with ⟨_, _, f', _, hm⟩ | ⟨_, _, a', ha', hm⟩ | ⟨_, _, p, _, hm⟩
  · cases hm
  · injection hm with hm
    subst hm
    unfold scramFromName at ha'
    cases hl : lookup scramFromString n with
    | none => rw [hl] at ha'; simp at ha'
    | some c =>
      rw [hl] at ha'
      simp only [Option.bind_some] at ha'
      exact scram_table_canonical (n, c) (lookup_mem hl) a (ScramAlg.mem_all a) ha'
  · cases hm

/-! ## the hash of a parsed HT mechanism is a valid index of the table -/

theorem htHashLoop_bound (names : List String) : ∀ (i : Nat) (s : List Char) (alg : Option Nat) (h : Nat),
    (htHashLoop names i s alg).2 = some h → alg = some h ∨ (i ≤ h ∧ h < i + names.length) := by
  induction names with
  | nil => intro i s alg h hh; left; simpa [htHashLoop] using hh
  | cons nm rest ih =>
    intro i s alg h hh
    unfold htHashLoop at hh
    split at hh
    · split at hh
      · simp only [Option.some.injEq] at hh
        right; simp only [List.length_cons]; omega
      · rcases ih (i + 1) _ (some i) h hh with h1 | h1
        · simp only [Option.some.injEq] at h1
          right; simp only [List.length_cons]; omega
        · right; simp only [List.length_cons]; omega
    · rcases ih (i + 1) s alg h hh with h1 | h1
      · left; exact h1
      · right; simp only [List.length_cons]; omega

theorem htFromName_bound {n : String} {p : Nat × Cb} (h : htFromName n = some p) : p.1 < ianaHashNames.length := by
  unfold htFromName at h
  split at h
  · simp at h
  · rename_i r _
    simp only at h
    split at h
    · simp at h
    · rename_i hh hs
      cases hl : (lookup htCbFromString (String.ofList (htHashLoop ianaHashNames 0 r none).1)).bind cbOfCxx with
      | none => rw [hl] at h; simp at h
      | some cb =>
        rw [hl] at h
        simp only [Option.map_some, Option.some.injEq] at h
        rcases htHashLoop_bound ianaHashNames 0 r none hh hs with h1 | h1
        · simp at h1
        · rw [← h]; simp only; omega

theorem fromName_ht_bound {n : String} {h : Nat} {cb : Cb} (hf : fromName n = some (.ht h cb)) :
    h < ianaHashNames.length := by
  obtain ⟨e, _, hfe⟩ := fromNameTbl_some hf
  rcases fromEntry_some hfe with ⟨_, _, f', _, hm⟩ | ⟨_, _, a', _, hm⟩ | ⟨_, _, p, hp, hm⟩
  · cases hm
  · cases hm
  · injection hm with h1 h2
    rw [h1]; exact htFromName_bound hp

end Qx.C05

namespace Qx.C05
open Qx.SaslOrder

theorem mem_allMechs_ht {h : Nat} (cb : Cb) (hh : h < ianaHashNames.length) : Mech.ht h cb ∈ allMechs := by
  unfold allMechs
  apply List.mem_append_right
  rw [List.mem_flatMap]
  exact ⟨h, List.mem_range.mpr hh, List.mem_map.mpr ⟨cb, Cb.mem_all cb, rfl⟩⟩

theorem mem_allMechs_of_fromName {n : String} {m : Mech} (h : fromName n = some m) : m ∈ allMechs := by
  cases m with
  | simple f =>
    unfold allMechs
    exact List.mem_append_left _ (List.mem_append_left _ (List.mem_map.mpr ⟨f, Simple.mem_all f, rfl⟩))
  | scram a =>
    unfold allMechs
    exact List.mem_append_left _ (List.mem_append_right _ (List.mem_map.mpr ⟨a, ScramAlg.mem_all a, rfl⟩))
  | ht h' cb => exact mem_allMechs_ht cb (fromName_ht_bound h)

end Qx.C05

/-! ## HT names are canonical once the hash loop stops at the first match -/
namespace Qx.C05
open Qx.SaslOrder

theorem stripPrefix?_some {p s r : List Char} (h : stripPrefix? p s = some r) : s = p ++ r := by
  unfold stripPrefix? at h
  split at h
  · rename_i hp
    simp only [Option.some.injEq] at h
    rw [← h]
    exact (List.prefix_iff_eq_append.mp (List.isPrefixOf_iff_prefix.mp hp)).symm
  · simp at h

/-- with the `break` in place the loop consumes exactly one table entry: the one whose index it returns -/
theorem htHashLoop_break_spec (hb : htHashLoopBreaks = true) (names : List String) :
    ∀ (i : Nat) (s s' : List Char) (h : Nat), htHashLoop names i s none = (s', some h) →
      i ≤ h ∧ ∃ nm, names[h - i]? = some nm ∧ s = nm.toList ++ s' := by
  induction names with
  | nil => intro i s s' h hh; simp [htHashLoop] at hh
  | cons nm rest ih =>
    intro i s s' h hh
    unfold htHashLoop at hh
    split at hh
    · rename_i hp
      simp only [Prod.mk.injEq, Option.some.injEq] at hh
      obtain ⟨h1, h2⟩ := hh
      subst h2
      refine ⟨Nat.le_refl _, nm, by simp, ?_⟩
      rw [← h1]
      exact (List.prefix_iff_eq_append.mp (List.isPrefixOf_iff_prefix.mp hp)).symm
    · obtain ⟨h1, nm', h2, h3⟩ := ih (i + 1) s s' h hh
      refine ⟨by omega, nm', ?_, h3⟩
      have e : h - i = (h - (i + 1)) + 1 := by omega
      rw [e, List.getElem?_cons_succ]; exact h2

/-- (decided on the generated tables) suffix accepted by `fromString` = separator + text written by `toString` -/
theorem ht_cb_table_canonical : ∀ p ∈ htCbFromString, ∀ cb ∈ Cb.all, cbOfCxx p.2 = some cb →
    htToStringSep ++ (lookup channelBindingToString cb.cxx).getD "" = p.1 := by decide

theorem ht_prefix_eq : htToStringPrefix = htPrefix := by decide

theorem htFromName_canonical (hb : htHashLoopBreaks = true) {n : String} {p : Nat × Cb} (h : htFromName n = some p) :
    toName (.ht p.1 p.2) = n := by
  unfold htFromName at h
  split at h
  · simp at h
  · rename_i r hr
    simp only at h
    split at h
    · simp at h
    · rename_i hh hs
      cases hl : lookup htCbFromString (String.ofList (htHashLoop ianaHashNames 0 r none).1) with
      | none => rw [hl] at h; simp at h
      | some c =>
        rw [hl] at h
        simp only [Option.bind_some] at h
        cases hc : cbOfCxx c with
        | none => rw [hc] at h; simp at h
        | some cb =>
          rw [hc] at h
          simp only [Option.map_some, Option.some.injEq] at h
          subst h
          have hpair : htHashLoop ianaHashNames 0 r none = ((htHashLoop ianaHashNames 0 r none).1, some hh) :=
            Prod.ext rfl hs
          obtain ⟨_, nm, hnm, hr2⟩ := htHashLoop_break_spec hb ianaHashNames 0 r _ hh hpair
          have hcb := ht_cb_table_canonical _ (lookup_mem hl) cb (Cb.mem_all cb) hc
          simp only at hcb
          have hn : n.toList = htPrefix.toList ++ r := stripPrefix?_some hr
          apply String.toList_injective
          simp only [toName, Nat.sub_zero] at hnm ⊢
          rw [hnm, ht_prefix_eq]
          simp only [Option.getD_some, String.toList_append, List.append_assoc]
          rw [hn, hr2]
          congr 2
          rw [← String.toList_append, hcb, String.toList_ofList]

theorem fromName_ht_canonical (hb : htHashLoopBreaks = true) {n : String} {h : Nat} {cb : Cb}
    (hf : fromName n = some (.ht h cb)) : toName (.ht h cb) = n := by
  obtain ⟨e, _, hfe⟩ := fromNameTbl_some hf
  rcases fromEntry_some hfe with ⟨_, _, f', _, hm⟩ | ⟨_, _, a', _, hm⟩ | ⟨_, _, p, hp, hm⟩
  · cases hm
  · cases hm
  · injection hm with h1 h2
    rw [h1, h2]; exact htFromName_canonical hb hp

/-- the C++ loop has the `break` (read from the source by the translator) -/
theorem htHashLoopBreaks_true : htHashLoopBreaks = true := by decide

end Qx.C05
