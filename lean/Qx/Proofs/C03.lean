/-
C03 — helper lemmas.  Part 1: framing (text level), induction over the chunk list with the invariant
"buffer = text received since the last item boundary at which a read ended".
Part 2: UTF-8 (stateful decoder is chunk independent; per-chunk decoding is, iff no chunk boundary cuts a
character).  Part 3: byte level = text level after decoding.  Part 4: decidable checker for `PrefixOracle`.
-/
import Qx.Model.C03Framing
import Qx.Model.C03Check

namespace Qx.C03

variable {E : Type}

/-! ## Part 1: framing -/

theorem events_append (a b : List (Ev E)) : events (a ++ b) = events a ++ events b := by
  simp [events, List.filter_append]

theorem events_keepAlive : events ([Ev.keepAlive] : List (Ev E)) = [] := by
  simp [events, Ev.isKeepAlive]

theorem events_nil : events ([] : List (Ev E)) = [] := rfl

theorem textOf_append (a b : List (Item E)) : textOf (a ++ b) = textOf a ++ textOf b := by
  simp [textOf, List.flatMap_append]

theorem evsOf_append (a b : List (Item E)) : evsOf (a ++ b) = evsOf a ++ evsOf b := by
  simp [evsOf, List.flatMap_append]

theorem textOf_cons (it : Item E) (l : List (Item E)) : textOf (it :: l) = it.text ++ textOf l := by
  simp [textOf]

theorem textOf_nil : textOf ([] : List (Item E)) = [] := rfl

theorem tagAfter_nil : tagFrom [] ([] : List (Item E)) = [] := rfl

/-- items without a tag of their own (whitespace) do not change the cached open tag -/
theorem tagAfter_append_notag (t0 : List Char) (A W : List (Item E)) (h : ∀ it ∈ W, it.tag = none) :
    tagFrom t0 (A ++ W) = tagFrom t0 A := by
  unfold tagFrom
  rw [List.foldl_append]
  generalize List.foldl _ t0 A = t
  induction W generalizing t with
  | nil => rfl
  | cons w W ih =>
    have hw : w.tag = none := h w (by simp)
    simp only [List.foldl_cons, hw]
    exact ih (fun it hit => h it (by simp [hit])) t

/-- cutting the text of an item list at any point: the cut is on an item boundary or strictly inside one item -/
theorem split_textOf (C : List (Item E)) : ∀ (d r : List Char), d ++ r = textOf C →
    ∃ C1 C2, C = C1 ++ C2 ∧
      ((d = textOf C1 ∧ r = textOf C2) ∨
       (∃ it C3 p q, C2 = it :: C3 ∧ it.text = p ++ q ∧ p ≠ [] ∧ q ≠ [] ∧
          d = textOf C1 ++ p ∧ r = q ++ textOf C3)) := by
  induction C with
  | nil =>
    intro d r h
    simp only [textOf_nil, List.append_eq_nil_iff] at h
    exact ⟨[], [], rfl, Or.inl ⟨by simp [h.1, textOf_nil], by simp [h.2, textOf_nil]⟩⟩
  | cons it C ih =>
    intro d r h
    rw [textOf_cons] at h
    rcases List.append_eq_append_iff.mp h with ⟨as, h1, h2⟩ | ⟨bs, h1, h2⟩
    · -- it.text = d ++ as, r = as ++ textOf C
      by_cases hd : d = []
      · subst hd
        simp only [List.nil_append] at h1
        exact ⟨[], it :: C, rfl, Or.inl ⟨rfl, by rw [h2, textOf_cons, h1]⟩⟩
      · by_cases ha : as = []
        · subst ha
          simp only [List.append_nil] at h1
          simp only [List.nil_append] at h2
          exact ⟨[it], C, rfl, Or.inl ⟨by simp [textOf, h1], h2⟩⟩
        · exact ⟨[], it :: C, rfl, Or.inr ⟨it, C, d, as, rfl, h1, hd, ha, by simp [textOf_nil], h2⟩⟩
    · -- d = it.text ++ bs, textOf C = bs ++ r
      obtain ⟨C1, C2, hC, hcase⟩ := ih bs r h2.symm
      refine ⟨it :: C1, C2, by simp [hC], ?_⟩
      rcases hcase with ⟨e1, e2⟩ | ⟨it', C3, p, q, e1, e2, e3, e4, e5, e6⟩
      · exact Or.inl ⟨by rw [h1, textOf_cons, e1], e2⟩
      · exact Or.inr ⟨it', C3, p, q, e1, e2, e3, e4, by rw [h1, textOf_cons, e5, List.append_assoc], e6⟩

theorem all_isSpace_false_of_mem (l : List Char) (c : Char) (hc : c ∈ l) (h : isSpace c = false) :
    l.all isSpace = false := by
  rw [List.all_eq_false]
  exact ⟨c, hc, by simp [h]⟩

section oracle
variable {P : Parser E} {items : List (Item E)} {t0 : List Char}

/-- an item cut into two non-empty parts is not a whitespace item, and its first part starts with a
non-space character -/
theorem nonws_of_cut (hP : PrefixOracleFrom t0 P items) (it : Item E) (hit : it ∈ items) (p q : List Char)
    (ht : it.text = p ++ q) (hp : p ≠ []) (hq : q ≠ []) :
    ∃ c p', p = c :: p' ∧ isSpace c = false := by
  cases hws : it.ws with
  | true =>
    obtain ⟨⟨c, hc, _⟩, _, _⟩ := hP.ws_shape it hit hws
    rw [ht] at hc
    cases p with
    | nil => exact absurd rfl hp
    | cons x p' =>
      cases q with
      | nil => exact absurd rfl hq
      | cons y q' => simp at hc
  | false =>
    obtain ⟨c, r, hc, hsp⟩ := hP.nonws_shape it hit hws
    rw [ht] at hc
    cases p with
    | nil => exact absurd rfl hp
    | cons x p' =>
      simp only [List.cons_append, List.cons.injEq] at hc
      exact ⟨x, p', rfl, by rw [hc.1]; exact hsp⟩

/-- a buffer containing the text of a non-whitespace item is not whitespace-only -/
theorem not_allSpace_of_nonws (hP : PrefixOracleFrom t0 P items) (L : List (Item E)) (hL : ∀ it ∈ L, it ∈ items)
    (h : ∃ it ∈ L, it.ws = false) (z : List Char) : (textOf L ++ z).all isSpace = false := by
  obtain ⟨it, hit, hws⟩ := h
  obtain ⟨c, r, hc, hsp⟩ := hP.nonws_shape it (hL it hit) hws
  apply all_isSpace_false_of_mem _ c _ hsp
  simp only [List.mem_append, textOf, List.mem_flatMap]
  exact Or.inl ⟨it, hit, by simp [hc]⟩

/-- a buffer made of whitespace items only is whitespace-only -/
theorem allSpace_of_ws (hP : PrefixOracleFrom t0 P items) (L : List (Item E)) (hL : ∀ it ∈ L, it ∈ items)
    (h : ∀ it ∈ L, it.ws = true) : (textOf L).all isSpace = true := by
  rw [List.all_eq_true]
  intro c hc
  simp only [textOf, List.mem_flatMap] at hc
  obtain ⟨it, hit, hc⟩ := hc
  obtain ⟨⟨c', hc', hsp⟩, _, _⟩ := hP.ws_shape it (hL it hit) (h it hit)
  rw [hc'] at hc
  simp only [List.mem_singleton] at hc
  rw [hc]; exact hsp

theorem evsOf_ws (hP : PrefixOracleFrom t0 P items) (L : List (Item E)) (hL : ∀ it ∈ L, it ∈ items)
    (h : ∀ it ∈ L, it.ws = true) : evsOf L = [] := by
  simp only [evsOf, List.flatMap_eq_nil_iff]
  intro it hit
  exact (hP.ws_shape it (hL it hit) (h it hit)).2.1

/-- every item has a non-empty text, so an item list with empty text is empty -/
theorem nil_of_textOf_nil (hP : PrefixOracleFrom t0 P items) (C : List (Item E)) (hC : ∀ it ∈ C, it ∈ items)
    (h : textOf C = []) : C = [] := by
  cases C with
  | nil => rfl
  | cons it C =>
    exfalso
    rw [textOf_cons, List.append_eq_nil_iff] at h
    have hit := hC it (by simp)
    cases hws : it.ws with
    | true =>
      obtain ⟨⟨c, hc, _⟩, _, _⟩ := hP.ws_shape it hit hws
      rw [hc] at h; simp at h
    | false =>
      obtain ⟨c, r, hc, _⟩ := hP.nonws_shape it hit hws
      rw [hc] at h; simp at h

/-- The invariant.  `s` = state of the socket wrapper, `rest` = stream text not yet received,
`ev` = the (non-keep-alive) events still to be delivered. -/
def Good (t0 : List Char) (items : List (Item E)) (s : St) (rest : List Char) (ev : List (Ev E)) : Prop :=
  (∃ A C, items = A ++ C ∧ s = { buf := [], openTag := tagFrom t0 A } ∧ rest = textOf C ∧
      ev = events (evsOf C)) ∨
  (∃ A B it C p q, items = A ++ B ++ it :: C ∧ it.text = p ++ q ∧ p ≠ [] ∧ q ≠ [] ∧
      s = { buf := textOf B ++ p, openTag := tagFrom t0 A } ∧ rest = q ++ textOf C ∧
      ev = events (evsOf (B ++ it :: C)))

/-- one `processData` whose new buffer is `textOf B0 ++ d`, where `B0` are complete items (none, or not only
whitespace) received since the last successful parse and `d` a prefix of the remaining text -/
theorem feed_aligned (hP : PrefixOracleFrom t0 P items) (A B0 C : List (Item E)) (hitems : items = A ++ B0 ++ C)
    (hB0 : B0 = [] ∨ ∃ it ∈ B0, it.ws = false) (d r : List Char) (h : d ++ r = textOf C) :
    ∃ ev', Good t0 items (feedBuf P (tagFrom t0 A) (textOf B0 ++ d)).1 r ev' ∧
      events (evsOf (B0 ++ C)) = events (feedBuf P (tagFrom t0 A) (textOf B0 ++ d)).2 ++ ev' := by
  have memA : ∀ it ∈ A, it ∈ items := fun it hit => by rw [hitems]; simp [hit]
  have memB : ∀ it ∈ B0, it ∈ items := fun it hit => by rw [hitems]; simp [hit]
  have memC : ∀ it ∈ C, it ∈ items := fun it hit => by rw [hitems]; simp [hit]
  obtain ⟨C1, C2, hC, hcase⟩ := split_textOf C d r h
  have memC1 : ∀ it ∈ C1, it ∈ items := fun it hit => memC it (by rw [hC]; simp [hit])
  rcases hcase with ⟨e1, e2⟩ | ⟨it, C3, p, q, e1, e2, e3, e4, e5, e6⟩
  · -- the read ends on an item boundary
    have hbuf : textOf B0 ++ d = textOf (B0 ++ C1) := by rw [e1, textOf_append]
    have memBC : ∀ it ∈ B0 ++ C1, it ∈ items := fun it hit => by
      rcases List.mem_append.mp hit with h' | h'
      · exact memB it h'
      · exact memC1 it h'
    by_cases hnw : ∃ it ∈ B0 ++ C1, it.ws = false
    · have hns : (textOf (B0 ++ C1)).all isSpace = false := by
        have := not_allSpace_of_nonws hP (B0 ++ C1) memBC hnw []
        simpa using this
      have hat := hP.at_boundary A (B0 ++ C1) C2 (by rw [hitems, hC]; simp) hnw
      refine ⟨events (evsOf C2), ?_, ?_⟩
      · left
        refine ⟨A ++ (B0 ++ C1), C2, by rw [hitems, hC]; simp, ?_, e2, rfl⟩
        simp [feedBuf, hbuf, hns, hat]
      · simp only [feedBuf, hbuf, hns, hat]
        rw [hC, ← List.append_assoc, evsOf_append, events_append]
        simp
    · -- only whitespace so far: keep-alive
      have hallws : ∀ it ∈ B0 ++ C1, it.ws = true := by
        intro it hit
        cases hw : it.ws with
        | true => rfl
        | false => exact absurd ⟨it, hit, hw⟩ hnw
      have hB0nil : B0 = [] := by
        rcases hB0 with h0 | ⟨it, hit, hw⟩
        · exact h0
        · exact absurd ⟨it, by simp [hit], hw⟩ hnw
      subst hB0nil
      simp only [List.nil_append] at hallws hbuf memBC
      have hsp : (textOf C1).all isSpace = true := allSpace_of_ws hP C1 memC1 hallws
      have hev : evsOf C1 = [] := evsOf_ws hP C1 memC1 hallws
      have htag : tagFrom t0 (A ++ C1) = tagFrom t0 A :=
        tagAfter_append_notag t0 A C1 (fun it hit => (hP.ws_shape it (memC1 it hit) (hallws it hit)).2.2)
      refine ⟨events (evsOf C2), ?_, ?_⟩
      · left
        refine ⟨A ++ C1, C2, by rw [hitems, hC]; simp, ?_, e2, rfl⟩
        simp [feedBuf, textOf_nil, e1, hsp, htag]
      · simp only [feedBuf, textOf_nil, List.nil_append, e1, hsp, if_true]
        rw [hC, evsOf_append, hev, events_keepAlive]
        simp
  · -- the read ends strictly inside item `it`
    have hitmem : it ∈ items := memC it (by rw [hC, e1]; simp)
    obtain ⟨c, p', hp', hsp⟩ := nonws_of_cut hP it hitmem p q e2 e3 e4
    have hbuf : textOf B0 ++ d = textOf (B0 ++ C1) ++ p := by rw [e5, textOf_append, List.append_assoc]
    have hns : (textOf (B0 ++ C1) ++ p).all isSpace = false :=
      all_isSpace_false_of_mem _ c (by simp [hp']) hsp
    have hin := hP.inside_item A (B0 ++ C1) it C3 p q (by rw [hitems, hC, e1]; simp) e2 e3 e4
    have hatt : attempt P (tagFrom t0 A) (textOf (B0 ++ C1) ++ p) = none := by
      simp [attempt, hin]
    refine ⟨events (evsOf (B0 ++ C1 ++ it :: C3)), ?_, ?_⟩
    · right
      refine ⟨A, B0 ++ C1, it, C3, p, q, by rw [hitems, hC, e1]; simp, e2, e3, e4, ?_, e6, rfl⟩
      simp [feedBuf, hbuf, hns, hatt]
    · simp only [feedBuf, hbuf, hns, hatt]
      rw [hC, e1]
      simp [events_nil]

/-- one read preserves the invariant and delivers a prefix of the events still due -/
theorem step_good (hP : PrefixOracleFrom t0 P items) (s : St) (rest : List Char) (ev : List (Ev E))
    (hg : Good t0 items s rest ev) (d r : List Char) (h : d ++ r = rest) :
    ∃ ev', Good t0 items (feedText P s d).1 r ev' ∧ ev = events (feedText P s d).2 ++ ev' := by
  rcases hg with ⟨A, C, hitems, hs, hrest, hev⟩ | ⟨A, B, it, C, p, q, hitems, ht, hp, hq, hs, hrest, hev⟩
  · subst hs
    have := feed_aligned hP A [] C (by simpa using hitems) (Or.inl rfl) d r (by rw [h, hrest])
    simp only [textOf_nil, List.nil_append] at this
    obtain ⟨ev', g, e⟩ := this
    exact ⟨ev', by simpa [feedText] using g, by rw [hev]; simpa [feedText] using e⟩
  · subst hs
    rw [hrest] at h
    have hitmem : it ∈ items := by rw [hitems]; simp
    rcases List.append_eq_append_iff.mp h with ⟨as, h1, h2⟩ | ⟨bs, h1, h2⟩
    · -- q = d ++ as
      by_cases ha : as = []
      · -- the read completes the item exactly
        subst ha
        simp only [List.append_nil] at h1
        simp only [List.nil_append] at h2
        have := feed_aligned hP A (B ++ [it]) C (by rw [hitems]; simp)
          (Or.inr ⟨it, by simp, by
            obtain ⟨c, p', hp', hsp⟩ := nonws_of_cut hP it hitmem p q ht hp hq
            cases hw : it.ws with
            | false => rfl
            | true =>
              obtain ⟨⟨c', hc', _⟩, _, _⟩ := hP.ws_shape it hitmem hw
              rw [ht, hp'] at hc'
              cases q with
              | nil => exact absurd rfl hq
              | cons y q' => simp at hc'⟩) [] r (by simpa using h2)
        obtain ⟨ev', g, e⟩ := this
        have hb : (textOf B ++ p) ++ d = textOf (B ++ [it]) ++ [] := by
          rw [textOf_append, textOf_cons, textOf_nil, ht, h1]; simp
        refine ⟨ev', ?_, ?_⟩
        · simpa [feedText, hb] using g
        · rw [hev]
          have : B ++ it :: C = B ++ [it] ++ C := by simp
          rw [this]
          simpa [feedText, hb] using e
      · -- still inside the same item
        obtain ⟨c, p', hp', hsp⟩ := nonws_of_cut hP it hitmem p q ht hp hq
        have hns : ((textOf B ++ p) ++ d).all isSpace = false :=
          all_isSpace_false_of_mem _ c (by simp [hp']) hsp
        have hpd : p ++ d ≠ [] := by simp [hp]
        have hin := hP.inside_item A B it C (p ++ d) as hitems (by rw [ht, h1]; simp) hpd ha
        have hatt : attempt P (tagFrom t0 A) ((textOf B ++ p) ++ d) = none := by
          rw [List.append_assoc]; simp [attempt, hin]
        refine ⟨ev, ?_, ?_⟩
        · right
          refine ⟨A, B, it, C, p ++ d, as, hitems, by rw [ht, h1]; simp, hpd, ha, ?_, h2, hev⟩
          simp only [feedText, feedBuf, hns, hatt, Bool.false_eq_true, if_false]
          simp
        · simp only [feedText, feedBuf, hns, hatt, Bool.false_eq_true, if_false]
          simp [events_nil]
    · -- d = q ++ bs : the read completes the item and goes on
      have hnw : it.ws = false := by
        obtain ⟨c, p', hp', hsp⟩ := nonws_of_cut hP it hitmem p q ht hp hq
        cases hw : it.ws with
        | false => rfl
        | true =>
          obtain ⟨⟨c', hc', _⟩, _, _⟩ := hP.ws_shape it hitmem hw
          rw [ht, hp'] at hc'
          cases q with
          | nil => exact absurd rfl hq
          | cons y q' => simp at hc'
      have := feed_aligned hP A (B ++ [it]) C (by rw [hitems]; simp)
        (Or.inr ⟨it, by simp, hnw⟩) bs r h2.symm
      obtain ⟨ev', g, e⟩ := this
      have hb : (textOf B ++ p) ++ d = textOf (B ++ [it]) ++ bs := by
        rw [textOf_append, textOf_cons, textOf_nil, ht, h1]; simp
      refine ⟨ev', ?_, ?_⟩
      · simpa [feedText, hb] using g
      · rw [hev]
        have : B ++ it :: C = B ++ [it] ++ C := by simp
        rw [this]
        simpa [feedText, hb] using e

/-- the invariant lifted over any list of reads: everything still due is delivered, in order, exactly once -/
theorem run_good (hP : PrefixOracleFrom t0 P items) : ∀ (chunks : List (List Char)) (s : St) (ev : List (Ev E)),
    Good t0 items s chunks.flatten ev → events (run P s chunks).2 = ev := by
  intro chunks
  induction chunks with
  | nil =>
    intro s ev hg
    simp only [List.flatten_nil] at hg
    rcases hg with ⟨A, C, hitems, _, hrest, hev⟩ | ⟨A, B, it, C, p, q, _, _, _, hq, _, hrest, _⟩
    · have hC : C = [] := nil_of_textOf_nil hP C (fun it hit => by rw [hitems]; simp [hit]) hrest.symm
      subst hC
      simp [run, runWith, hev, evsOf, events]
    · exfalso
      have := hrest.symm
      simp only [List.append_eq_nil_iff] at this
      exact hq this.1
  | cons d ds ih =>
    intro s ev hg
    obtain ⟨ev', g, e⟩ := step_good hP s _ ev hg d ds.flatten (by simp)
    have := ih (feedText P s d).1 ev' g
    simp only [run] at this
    simp only [run, runWith, events_append, this]
    exact e.symm

/-- … and when the whole text has been received the buffer is empty and the cached open tag is that of the items -/
theorem run_good_state (hP : PrefixOracleFrom t0 P items) : ∀ (chunks : List (List Char)) (s : St) (ev : List (Ev E)),
    Good t0 items s chunks.flatten ev → (run P s chunks).1 = { buf := [], openTag := tagFrom t0 items } := by
  intro chunks
  induction chunks with
  | nil =>
    intro s ev hg
    simp only [List.flatten_nil] at hg
    rcases hg with ⟨A, C, hitems, hs, hrest, _⟩ | ⟨A, B, it, C, p, q, _, _, _, hq, _, hrest, _⟩
    · have hC : C = [] := nil_of_textOf_nil hP C (fun it hit => by rw [hitems]; simp [hit]) hrest.symm
      subst hC
      simp only [List.append_nil] at hitems
      simp [run, runWith, hs, hitems]
    · exfalso
      have := hrest.symm
      simp only [List.append_eq_nil_iff] at this
      exact hq this.1
  | cons d ds ih =>
    intro s ev hg
    obtain ⟨ev', g, _⟩ := step_good hP s _ ev hg d ds.flatten (by simp)
    have := ih (feedText P s d).1 ev' g
    simp only [run] at this
    simp only [run, runWith, this]

theorem good_start (t0 : List Char) (items : List (Item E)) :
    Good t0 items { buf := [], openTag := t0 } (textOf items) (events (evsOf items)) :=
  Or.inl ⟨[], items, rfl, rfl, rfl, rfl⟩

theorem good_init (items : List (Item E)) : Good [] items init (textOf items) (events (evsOf items)) :=
  good_start [] items

end oracle

theorem run_append (P : Parser E) (a b : List (List Char)) : ∀ s : St,
    (run P s (a ++ b)).2 = (run P s a).2 ++ (run P (run P s a).1 b).2 ∧
    (run P s (a ++ b)).1 = (run P (run P s a).1 b).1 := by
  induction a with
  | nil => intro s; simp [run, runWith]
  | cons x a ih =>
    intro s
    have := ih (feedText P s x).1
    simp only [run] at this
    simp only [run, List.cons_append, runWith, this.1, this.2, List.append_assoc, and_self]

/-- several streams one after the other on one connection (stream restarts), each received in its own reads -/
theorem run_sessions (P : Parser E) : ∀ (sessions : List (List (Item E) × List (List Char))) (t0 : List Char),
    (∀ sc ∈ sessions, sc.2.flatten = textOf sc.1) → SessionsOracle P t0 (sessions.map (·.1)) →
    events (run P { buf := [], openTag := t0 } (sessions.map (·.2)).flatten).2
      = events (evsOf (sessions.map (·.1)).flatten) := by
  intro sessions
  induction sessions with
  | nil => intro t0 _ _; simp [run, runWith, evsOf, events]
  | cons sc rest ih =>
    intro t0 hc ho
    simp only [List.map_cons, SessionsOracle] at ho
    obtain ⟨ho1, ho2⟩ := ho
    have hflat := hc sc (by simp)
    have hg : Good t0 sc.1 { buf := [], openTag := t0 } sc.2.flatten (events (evsOf sc.1)) := by
      rw [hflat]; exact good_start t0 sc.1
    have e1 := run_good ho1 sc.2 _ _ hg
    have e2 := run_good_state ho1 sc.2 _ _ hg
    have := ih (tagFrom t0 sc.1) (fun x hx => hc x (by simp [hx])) ho2
    simp only [List.map_cons, List.flatten_cons]
    rw [(run_append P sc.2 _ _).1, events_append, e1, e2, this, evsOf_append, events_append]

end Qx.C03

/-! ## Part 2: UTF-8 — lemmas about `Qx.Base.Utf8` (the stateful decoder is chunk independent for every input;
per-chunk decoding agrees with one-shot decoding when every chunk consists of whole characters) -/

namespace Qx.C03.U8
open Qx.Utf8 Qx.Utf8.Dec

theorem look_mono (b : UInt8) (a x : Bytes) : look b a = .more ∨ look b (a ++ x) = look b a := by
  rcases a with _ | ⟨a1, _ | ⟨a2, _ | ⟨a3, a⟩⟩⟩ <;> simp only [look, List.nil_append, List.cons_append] <;>
    (repeat' split) <;> simp_all

theorem look_cp_len (b : UInt8) (a : Bytes) (c k : Nat) (h : look b a = .cp c k) : k ≤ a.length := by
  rcases a with _ | ⟨a1, _ | ⟨a2, _ | ⟨a3, a⟩⟩⟩ <;> simp only [look] at h <;>
    (repeat' split at h) <;> simp_all <;> omega

theorem look_more_conts (b : UInt8) (a : Bytes) (h : look b a = .more) : ∀ y ∈ a, isCont y = true := by
  rcases a with _ | ⟨a1, _ | ⟨a2, _ | ⟨a3, a⟩⟩⟩ <;> simp only [look] at h <;>
    (repeat' split at h) <;> simp_all

theorem look_cont_bad (y : UInt8) (r : Bytes) (h : isCont y = true) : look y r = .bad := by
  simp only [isCont, Bool.and_eq_true, decide_eq_true_eq] at h
  simp only [look]
  have h1 : ¬ y.toNat < 0x80 := by omega
  have h2 : y.toNat < 0xC2 := by omega
  simp [h1, h2]
end Qx.C03.U8

namespace Qx.C03.U8
open Qx.Utf8 Qx.Utf8.Dec

theorem run_append (a : Bytes) : ∀ (k : Nat) (b : Bytes), k ≤ a.length →
    Dec.run k (a ++ b) =
      ((Dec.run k a).1 ++ (Dec.run 0 ((Dec.run k a).2 ++ b)).1, (Dec.run 0 ((Dec.run k a).2 ++ b)).2) := by
  induction a with
  | nil => intro k b hk; simp at hk; subst hk; simp [Dec.run]
  | cons x a ih =>
    intro k b hk
    cases k with
    | succ k =>
      simp only [List.cons_append, Dec.run]
      exact ih k b (by simpa using hk)
    | zero =>
      cases hl : look x a with
      | cp c j =>
        have hm : look x (a ++ b) = .cp c j := by
          rcases look_mono x a b with h | h
          · rw [hl] at h; cases h
          · rw [h, hl]
        have hj := look_cp_len x a c j hl
        simp only [List.cons_append, Dec.run, hl, hm]
        rw [ih j b hj]
      | bad =>
        have hm : look x (a ++ b) = .bad := by
          rcases look_mono x a b with h | h
          · rw [hl] at h; cases h
          · rw [h, hl]
        simp only [List.cons_append, Dec.run, hl, hm]
        rw [ih 0 b (Nat.zero_le _)]
      | more =>
        simp only [Dec.run, hl]
        simp

theorem run_stuck (a : Bytes) : ∀ k, Dec.run 0 (Dec.run k a).2 = ([], (Dec.run k a).2) := by
  induction a with
  | nil => intro k; simp [Dec.run]
  | cons x a ih =>
    intro k
    cases k with
    | succ k => simp only [Dec.run]; exact ih k
    | zero =>
      cases hl : look x a with
      | cp c j => simp only [Dec.run, hl]; exact ih j
      | bad => simp only [Dec.run, hl]; exact ih 0
      | more => simp only [Dec.run, hl]

theorem lossy_conts (a : Bytes) (h : ∀ y ∈ a, isCont y = true) :
    lossyGo 0 a = a.map (fun _ => replacement) := by
  induction a with
  | nil => simp [lossyGo]
  | cons x a ih =>
    have hx := look_cont_bad x a (h x (by simp))
    simp only [lossyGo, hx, List.map_cons]
    rw [ih (fun y hy => h y (by simp [hy]))]

theorem lossy_eq_run (a : Bytes) : ∀ k,
    lossyGo k a = (Dec.run k a).1 ++ (Dec.run k a).2.map (fun _ => replacement) := by
  induction a with
  | nil => intro k; simp [lossyGo, Dec.run]
  | cons x a ih =>
    intro k
    cases k with
    | succ k => simp only [lossyGo, Dec.run]; exact ih k
    | zero =>
      cases hl : look x a with
      | cp c j => simp only [lossyGo, Dec.run, hl, List.cons_append]; rw [ih j]
      | bad => simp only [lossyGo, Dec.run, hl, List.cons_append]; rw [ih 0]
      | more =>
        simp only [lossyGo, Dec.run, hl, List.nil_append, List.map_cons]
        rw [lossy_conts a (look_more_conts x a hl)]

theorem feedAll_eq (chunks : List Bytes) : ∀ st : DecSt, Dec.run 0 st.pending = ([], st.pending) →
    (feedAll st chunks).2 = (Dec.run 0 (st.pending ++ chunks.flatten)).1 ∧
    (feedAll st chunks).1.pending = (Dec.run 0 (st.pending ++ chunks.flatten)).2 := by
  induction chunks with
  | nil => intro st h; simp [feedAll, h]
  | cons c cs ih =>
    intro st h
    have hs := run_stuck (st.pending ++ c) 0
    have := ih (feed st c).1 (by simpa [feed] using hs)
    simp only [feedAll, feed, List.flatten_cons] at this ⊢
    rw [this.1, this.2, ← List.append_assoc, run_append (st.pending ++ c) 0 cs.flatten (Nat.zero_le _)]
    simp

theorem stateful_chunk_indep (chunks : List Bytes) : decodeChunks chunks = decodeLossy chunks.flatten := by
  have h := feedAll_eq chunks Dec.init (by simp [Dec.init, Dec.run])
  simp only [Dec.init, List.nil_append] at h
  simp only [decodeChunks, flush, decodeLossy, Dec.init]
  rw [h.1, h.2]
  exact (lossy_eq_run _ 0).symm

theorem valid_run (a : Bytes) : ∀ k cs, strictGo k a = some cs → Dec.run k a = (cs, []) := by
  induction a with
  | nil => intro k cs h; simp [strictGo] at h; simp [Dec.run, h]
  | cons x a ih =>
    intro k cs h
    cases k with
    | succ k => simp only [strictGo] at h; simp only [Dec.run]; exact ih k cs h
    | zero =>
      cases hl : look x a with
      | cp c j =>
        simp only [strictGo, hl, Option.map_eq_some_iff] at h
        obtain ⟨cs', h1, h2⟩ := h
        simp only [Dec.run, hl, ih j cs' h1, h2]
      | bad => simp [strictGo, hl] at h
      | more => simp [strictGo, hl] at h

theorem lossy_append_of_nopending (a b : Bytes) (h : (Dec.run 0 a).2 = []) :
    decodeLossy (a ++ b) = decodeLossy a ++ decodeLossy b := by
  simp only [decodeLossy, lossy_eq_run, run_append a 0 b (Nat.zero_le _), h]
  simp

end Qx.C03.U8

namespace Qx.C03.U8
open Qx.Utf8 Qx.Utf8.Dec

theorem cutAtNul_append (a b : Bytes) (ha : cutAtNul a = a) (hb : cutAtNul b = b) :
    cutAtNul (a ++ b) = a ++ b := by
  induction a with
  | nil => simpa using hb
  | cons x a ih =>
    simp only [cutAtNul] at ha
    by_cases hx : x = 0
    · simp [hx] at ha
    · simp only [hx, if_false, List.cons.injEq, true_and] at ha
      simp [cutAtNul, hx, ih ha]

theorem stripBom_ne (x : UInt8) (l : Bytes) (h : x ≠ 0xEF) : stripBom (x :: l) = x :: l := by
  unfold stripBom
  split <;> simp_all

theorem stripBom_append_long (a b d : UInt8) (c r : Bytes) (h : stripBom (a :: b :: d :: c) = a :: b :: d :: c) :
    stripBom (a :: b :: d :: c ++ r) = a :: b :: d :: c ++ r := by
  unfold stripBom at h ⊢
  split at h
  · rename_i heq
    simp only [List.cons.injEq] at heq
    obtain ⟨_, _, _, hc⟩ := heq
    subst hc
    have := congrArg List.length h
    simp at this
    omega
  · split
    · rename_i h1 _ _ heq
      simp only [List.cons_append, List.cons.injEq] at heq
      exact (h1 c (by rw [heq.1, heq.2.1, heq.2.2.1])).elim
    · rfl

theorem valid_EF_len (c : Bytes) (h : isValid (0xEF :: c) = true) : 2 ≤ c.length := by
  rcases c with _ | ⟨b1, _ | ⟨b2, c⟩⟩
  · simp [isValid, decode?, strictGo, look] at h
  · by_cases hc : isCont b1 = true <;> simp [isValid, decode?, strictGo, look, hc] at h
  · simp

theorem stripBom_append_valid (c r : Bytes) (hv : isValid c = true) (hb : stripBom c = c) (hne : c ≠ []) :
    stripBom (c ++ r) = c ++ r := by
  cases c with
  | nil => exact absurd rfl hne
  | cons x c =>
    by_cases hx : x = 0xEF
    · subst hx
      have hl := valid_EF_len c hv
      rcases c with _ | ⟨b1, _ | ⟨b2, c⟩⟩
      · simp at hl
      · simp at hl
      · exact stripBom_append_long _ _ _ c r hb
    · exact stripBom_ne x _ hx

theorem valid_nopending (c : Bytes) (h : isValid c = true) : (Dec.run 0 c).2 = [] := by
  simp only [isValid, decode?, Option.isSome_iff_exists] at h
  obtain ⟨cs, h⟩ := h
  rw [valid_run c 0 cs h]

/-- a chunk that consists of whole characters and does not trigger the two quirks of
`QString::fromUtf8(QByteArray)` (cut at NUL, BOM dropped at offset 0) -/
def Clean (c : Bytes) : Prop := isValid c = true ∧ cutAtNul c = c ∧ stripBom c = c

theorem clean_flatten (chunks : List Bytes) (h : ∀ c ∈ chunks, Clean c) :
    cutAtNul chunks.flatten = chunks.flatten ∧ stripBom chunks.flatten = chunks.flatten ∧
    decodeLossy chunks.flatten = chunks.flatMap decodeLossy := by
  induction chunks with
  | nil => simp [cutAtNul, stripBom, decodeLossy, lossyGo]
  | cons c cs ih =>
    obtain ⟨i1, i2, i3⟩ := ih (fun c hc => h c (by simp [hc]))
    obtain ⟨hv, hn, hb⟩ := h c (by simp)
    refine ⟨?_, ?_, ?_⟩
    · simpa using cutAtNul_append c cs.flatten hn i1
    · by_cases hc : c = []
      · subst hc; simpa using i2
      · simpa using stripBom_append_valid c cs.flatten hv hb hc
    · simp only [List.flatten_cons, List.flatMap_cons]
      rw [lossy_append_of_nopending c cs.flatten (valid_nopending c hv), i3]

theorem perchunk_eq_of_clean (chunks : List Bytes) (h : ∀ c ∈ chunks, Clean c) :
    decodePerChunk chunks = qtFromUtf8 chunks.flatten := by
  obtain ⟨h1, h2, h3⟩ := clean_flatten chunks h
  simp only [decodePerChunk, qtFromUtf8, h1, h2, h3]
  clear h1 h2 h3
  induction chunks with
  | nil => rfl
  | cons c cs ih =>
    obtain ⟨_, hn, hb⟩ := h c (by simp)
    simp only [List.flatMap_cons]
    rw [ih (fun c hc => h c (by simp [hc]))]
    simp only [qtFromUtf8, hn, hb]

end Qx.C03.U8

namespace Qx.C03
open Qx.Utf8 Qx.C03.U8

variable {E : Type}

/-! ## Part 3: byte level = text level after decoding -/

theorem toChars_append (a b : List Nat) : toChars (a ++ b) = toChars a ++ toChars b := by
  simp [toChars]

/-- today's code: the text-level run over the per-chunk decoded texts -/
theorem runWith_perChunk (P : Parser E) (chunks : List Bytes) : ∀ s : BSt,
    (runWith (feedBytesPerChunk P) s chunks).2 =
      (run P s.st (chunks.map fun c => toChars (qtFromUtf8 c))).2 := by
  induction chunks with
  | nil => intro s; rfl
  | cons c cs ih =>
    intro s
    simp only [runWith, run, List.map_cons]
    have := ih (feedBytesPerChunk P s c).1
    simp only [run] at this
    rw [this]
    rfl

/-- the texts the stateful decoder hands to `processData`, read by read -/
def decTexts : Bool → DecSt → List Bytes → List (List Char)
  | _, _, [] => []
  | done, d, c :: cs =>
    toChars (bomStep done (Dec.feed d c).2).2 :: decTexts (bomStep done (Dec.feed d c).2).1 (Dec.feed d c).1 cs

theorem runWith_stateful (P : Parser E) (chunks : List Bytes) : ∀ s : BSt,
    (runWith (feedBytesStateful P) s chunks).2 = (run P s.st (decTexts s.hdrDone s.dec chunks)).2 := by
  induction chunks with
  | nil => intro s; rfl
  | cons c cs ih =>
    intro s
    simp only [runWith, run, decTexts]
    have := ih (feedBytesStateful P s c).1
    simp only [run] at this
    rw [this]
    rfl

theorem dropBom1_append (a b : List Nat) (h : a ≠ []) : dropBom1 (a ++ b) = dropBom1 a ++ b := by
  cases a with
  | nil => exact absurd rfl h
  | cons x a => simp only [List.cons_append, dropBom1]; split <;> simp

/-- all reads together: the decoder output with a U+FEFF dropped iff it is the very first character -/
theorem decTexts_flatten (chunks : List Bytes) : ∀ (done : Bool) (d : DecSt),
    (decTexts done d chunks).flatten =
      toChars (if done then (Dec.feedAll d chunks).2 else dropBom1 (Dec.feedAll d chunks).2) := by
  induction chunks with
  | nil => intro done d; cases done <;> rfl
  | cons c cs ih =>
    intro done d
    simp only [decTexts, List.flatten_cons, Dec.feedAll, ih]
    cases done with
    | true => simp [bomStep, toChars_append]
    | false =>
      cases ho : (Dec.feed d c).2 with
      | nil => simp [bomStep, toChars]
      | cons x o =>
        simp only [bomStep, Bool.false_eq_true, if_false, if_true]
        rw [dropBom1_append (x :: o) _ (by simp), ← toChars_append]
        rfl

/-- for well-formed UTF-8 the stateful decoder has delivered every character when the input ends -/
theorem decTexts_flatten_valid (chunks : List Bytes) (cps : List Nat)
    (h : decode? chunks.flatten = some cps) :
    (decTexts false Dec.init chunks).flatten = toChars (dropBom1 cps) := by
  rw [decTexts_flatten]
  have h1 := (feedAll_eq chunks Dec.init (by simp [Dec.init, Dec.run])).1
  simp only [Dec.init, List.nil_append] at h1
  simp only [Dec.init, Bool.false_eq_true, if_false]
  rw [h1, valid_run chunks.flatten 0 cps h]

theorem perChunk_texts_flatten (chunks : List Bytes) :
    (chunks.map fun c => toChars (qtFromUtf8 c)).flatten = toChars (decodePerChunk chunks) := by
  induction chunks with
  | nil => rfl
  | cons c cs ih =>
    simp only [List.map_cons, List.flatten_cons, ih, decodePerChunk, List.flatMap_cons, toChars_append]

theorem runWith_map_feed (P : Parser E) (chunks : List Bytes) : ∀ s : BSt,
    runWith (stepOp P) s (chunks.map Op.feed) = runWith (feedBytesCode P) s chunks := by
  induction chunks with
  | nil => intro s; rfl
  | cons c cs ih => intro s; simp only [List.map_cons, runWith, stepOp, ih]

/-! ## Part 4: a decidable checker for `PrefixOracle` (used for the non-vacuity examples and by the driver on
every corpus stream) and a toy parser -/

theorem mem_splits {α : Type} (l : List α) : ∀ a b, a ++ b = l → (a, b) ∈ splits l := by
  induction l with
  | nil => intro a b h; simp at h; simp [splits, h.1, h.2]
  | cons x xs ih =>
    intro a b h
    cases a with
    | nil => simp at h; simp [splits, h]
    | cons y a =>
      simp only [List.cons_append, List.cons.injEq] at h
      simp only [splits, List.mem_cons, List.mem_map]
      right
      exact ⟨(a, b), ih a b h.2, by simp [h.1]⟩

theorem checkOracleFrom_sound [DecidableEq E] (t0 : List Char) (P : Parser E) (items : List (Item E))
    (h : checkOracleFrom t0 P items = true) : PrefixOracleFrom t0 P items := by
  simp only [checkOracleFrom, Bool.and_eq_true, List.all_eq_true] at h
  obtain ⟨hshape, hsp⟩ := h
  refine ⟨?_, ?_, ?_, ?_⟩
  · intro it hit hws
    have := hshape it hit
    simp only [shapeOk, hws, if_true, Bool.and_eq_true] at this
    obtain ⟨⟨h1, h2⟩, h3⟩ := this
    refine ⟨?_, by simpa using h2, by simpa using h3⟩
    cases htx : it.text with
    | nil => rw [htx] at h1; simp at h1
    | cons c r =>
      cases r with
      | nil => rw [htx] at h1; exact ⟨c, rfl, by simpa using h1⟩
      | cons y r' => rw [htx] at h1; simp at h1
  · intro it hit hws
    have := hshape it hit
    simp only [shapeOk, hws] at this
    cases htx : it.text with
    | nil => rw [htx] at this; simp at this
    | cons c r => rw [htx] at this; exact ⟨c, r, rfl, by simpa using this⟩
  · intro A B C hitems hnw
    have h1 := hsp (A, B ++ C) (mem_splits items A (B ++ C) (by rw [hitems]; simp))
    have h2 := (h1 (B, C) (mem_splits (B ++ C) B C rfl)).1
    simp only [Bool.or_eq_true, List.all_eq_true, decide_eq_true_eq] at h2
    rcases h2 with h2 | h2
    · obtain ⟨it, hit, hw⟩ := hnw
      rw [h2 it hit] at hw; cases hw
    · exact h2
  · intro A B it C p q hitems ht hp hq
    have h1 := hsp (A, B ++ it :: C) (mem_splits items A (B ++ it :: C) (by rw [hitems]; simp))
    have h2 := (h1 (B, it :: C) (mem_splits (B ++ it :: C) B (it :: C) rfl)).2
    simp only [checkCuts, List.all_eq_true] at h2
    have h3 := h2 (p, q) (mem_splits it.text p q ht.symm)
    simp only [Bool.or_eq_true, List.isEmpty_iff, Option.isNone_iff_eq_none] at h3
    rcases h3 with (h3 | h3) | h3
    · exact absurd h3 hp
    · exact absurd h3 hq
    · exact h3

theorem checkOracle_sound [DecidableEq E] (P : Parser E) (items : List (Item E))
    (h : checkOracle P items = true) : PrefixOracle P items :=
  checkOracleFrom_sound [] P items h

/-! ### a toy parser, enough for `<stream:stream>` followed by `<n/>`, `<n>text</n>`, blanks and the close tag -/

def isLetter (c : Char) : Bool := 97 ≤ c.toNat && c.toNat ≤ 122

/-- children of the toy stream element up to the closing tag, after which only blanks may follow -/
def toyKids : Nat → List Char → Option (List (List Char))
  | 0, _ => none
  | f + 1, l =>
    if closeTag.isPrefixOf l && (l.drop closeTag.length).all (fun c => c == ' ') then some []
    else
      match l with
      | ' ' :: r => toyKids f r
      | '<' :: r =>
        let n := r.takeWhile isLetter
        let r1 := r.dropWhile isLetter
        if n.isEmpty then none
        else
          match r1 with
          | '/' :: '>' :: r2 => (toyKids f r2).map fun ks => n :: ks
          | '>' :: r2 =>
            let t := r2.takeWhile fun c => c != '<'
            let r3 := r2.dropWhile fun c => c != '<'
            if ('<' :: '/' :: n ++ ['>']).isPrefixOf r3 then
              (toyKids f (r3.drop (n.length + 3))).map fun ks => (n ++ ':' :: t) :: ks
            else none
          | _ => none
      | _ => none

/-- elements are represented by `name` or `name:text` -/
def toyP : Parser (List Char) := fun w =>
  if (openLit ++ ['>']).isPrefixOf w then
    (toyKids w.length (w.drop (openLit.length + 1))).map fun ks => { root := "stream".toList, children := ks }
  else none

def toyHdr : Item (List Char) :=
  { text := "<stream:stream>".toList, tag := some "<stream:stream>".toList, evs := [.streamOpen "stream".toList] }
def toyStanza (text elem : String) : Item (List Char) := { text := text.toList, evs := [.stanza elem.toList] }
def toyWs : Item (List Char) := { text := [' '], ws := true, evs := [] }
def toyClose : Item (List Char) := { text := closeTag, evs := [.streamClose] }

end Qx.C03
