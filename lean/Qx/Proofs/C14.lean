/-
Helper lemmas for C14 (STUN codec): CRC table = bitwise CRC, HMAC forms, QDataStream reads of what encode wrote,
one lemma per attribute ("the decode loop, standing in front of what encode wrote for X, consumes it and sets X"),
and the invariants of the decode loop (stream = rest of the packet; MESSAGE-INTEGRITY / FINGERPRINT were verified).
-/
import Qx.Model.C14Stun
import Qx.Proofs.Bytes

namespace Qx.C14
open Qx Qx.Bytes Qx.Crypto Qx.Generated

/-! ## CRC-32: the extracted table is the bitwise definition -/

/-- the table extracted from QXmppUtils.cpp equals the table computed from the bitwise definition -/
theorem crcTable_eq_std : crcTable = stdTableList := by decide +kernel

/-- what the low bit contributes in one shift -/
def lowMask (x : UInt32) : UInt32 := if x &&& 1 = 1 then 0xEDB88320 else 0

theorem crcBit_eq (x : UInt32) : crcBit x = (x >>> 1) ^^^ lowMask x := by
  unfold crcBit lowMask; split <;> simp

theorem and_one_cases (x : UInt32) : x &&& 1 = 0 ∨ x &&& 1 = 1 := by
  have h : (x &&& 1).toNat = x.toNat % 2 := by
    simp [UInt32.toNat_and]
  rcases Nat.mod_two_eq_zero_or_one x.toNat with h0 | h1
  · left; apply UInt32.toNat_inj.mp; rw [h, h0]; rfl
  · right; apply UInt32.toNat_inj.mp; rw [h, h1]; rfl

theorem lowMask_xor (a b : UInt32) : lowMask (a ^^^ b) = lowMask a ^^^ lowMask b := by
  have hx : (a ^^^ b) &&& 1 = (a &&& 1) ^^^ (b &&& 1) := by
    apply UInt32.toBitVec_inj.mp
    simp only [UInt32.toBitVec_and, UInt32.toBitVec_xor]
    ext i hi
    simp [Bool.and_xor_distrib_right]
  unfold lowMask
  rw [hx]
  rcases and_one_cases a with ha | ha <;> rcases and_one_cases b with hb | hb <;> rw [ha, hb] <;> decide

/-- one CRC shift is linear over GF(2) -/
theorem crcBit_xor (a b : UInt32) : crcBit (a ^^^ b) = crcBit a ^^^ crcBit b := by
  simp only [crcBit_eq, lowMask_xor, UInt32.shiftRight_xor]
  ac_rfl

theorem crcBit8_xor (a b : UInt32) : crcBit8 (a ^^^ b) = crcBit8 a ^^^ crcBit8 b := by
  simp only [crcBit8, crcBit_xor]

theorem crcBit_of_even (x : UInt32) (h : x &&& 1 = 0) : crcBit x = x >>> 1 := by
  rw [crcBit_eq]; unfold lowMask; rw [h]; simp

macro "low_bit_clear" : tactic =>
  `(tactic| (apply UInt32.toBitVec_inj.mp; simp; ext i hi; simp; intro _ h hi0; subst hi0; simp at h))

/-- eight shifts of a register whose low byte is zero just move it down by one byte -/
theorem crcBit8_high (x : UInt32) : crcBit8 (x &&& 0xffffff00) = x >>> 8 := by
  have e0 : (x &&& 0xffffff00) &&& 1 = 0 := by low_bit_clear
  have e1 : ((x &&& 0xffffff00) >>> 1) &&& 1 = 0 := by low_bit_clear
  have e2 : ((x &&& 0xffffff00) >>> 1 >>> 1) &&& 1 = 0 := by low_bit_clear
  have e3 : ((x &&& 0xffffff00) >>> 1 >>> 1 >>> 1) &&& 1 = 0 := by low_bit_clear
  have e4 : ((x &&& 0xffffff00) >>> 1 >>> 1 >>> 1 >>> 1) &&& 1 = 0 := by low_bit_clear
  have e5 : ((x &&& 0xffffff00) >>> 1 >>> 1 >>> 1 >>> 1 >>> 1) &&& 1 = 0 := by low_bit_clear
  have e6 : ((x &&& 0xffffff00) >>> 1 >>> 1 >>> 1 >>> 1 >>> 1 >>> 1) &&& 1 = 0 := by low_bit_clear
  have e7 : ((x &&& 0xffffff00) >>> 1 >>> 1 >>> 1 >>> 1 >>> 1 >>> 1 >>> 1) &&& 1 = 0 := by low_bit_clear
  unfold crcBit8
  rw [crcBit_of_even _ e0, crcBit_of_even _ e1, crcBit_of_even _ e2, crcBit_of_even _ e3,
    crcBit_of_even _ e4, crcBit_of_even _ e5, crcBit_of_even _ e6, crcBit_of_even _ e7]
  apply UInt32.toBitVec_inj.mp
  simp
  ext i hi
  simp
  intro h
  have h24 : i < 24 := by have := BitVec.lt_of_getLsbD h; omega
  have hm : ∀ j, j < 24 → (4294967040#32).getLsbD (8 + j) = true := by decide
  exact hm i h24

theorem mask_lo : ∀ j, j < 8 → (255#32).getLsbD j = true ∧ (4294967040#32).getLsbD j = false := by decide
theorem mask_hi : ∀ j, j < 24 → (255#32).getLsbD (8 + j) = false ∧ (4294967040#32).getLsbD (8 + j) = true := by decide

theorem byte_bit (b : UInt8) (i : Nat) (h : b.toBitVec.getLsbD i = true) : i < 8 := BitVec.lt_of_getLsbD h

theorem low_byte_xor (c : UInt32) (b : UInt8) :
    (c ^^^ b.toUInt32) &&& 0xff = (c &&& 0xff) ^^^ b.toUInt32 := by
  apply UInt32.toBitVec_inj.mp
  simp
  ext i hi
  simp only [BitVec.getElem_and, BitVec.getElem_xor, BitVec.getElem_setWidth]
  cases hb : b.toBitVec.getLsbD i
  · simp
  · have := mask_lo i (byte_bit b i hb)
    simp [← BitVec.getLsbD_eq_getElem, this.1]

theorem byte_shift (b : UInt8) : b.toUInt32 >>> 8 = 0 := by
  apply UInt32.toBitVec_inj.mp
  simp
  ext i hi
  simp

theorem split_hi_lo (x : UInt32) : x = (x &&& 0xffffff00) ^^^ (x &&& 0xff) := by
  apply UInt32.toBitVec_inj.mp
  simp
  ext i hi
  simp only [BitVec.getElem_and, BitVec.getElem_xor]
  by_cases h8 : i < 8
  · have := mask_lo i h8
    simp [← BitVec.getLsbD_eq_getElem, this.1, this.2]
  · have := mask_hi (i - 8) (by omega)
    have e : 8 + (i - 8) = i := by omega
    rw [e] at this
    simp [← BitVec.getLsbD_eq_getElem, this.1, this.2]

/-- the identity behind every table-driven CRC: eight shifts = shift by a byte xor the table entry of the low byte -/
theorem crcBit8_split (x : UInt32) : crcBit8 x = (x >>> 8) ^^^ crcBit8 (x &&& 0xff) := by
  conv => lhs; rw [split_hi_lo x]
  rw [crcBit8_xor, crcBit8_high]

theorem and_ff_lt (x : UInt32) : (x &&& 0xff).toNat < 256 := by
  rw [UInt32.toNat_and]
  exact Nat.lt_succ_of_le Nat.and_le_right

theorem table_lookup (y : UInt32) (hlt : y.toNat < 256) : crcTable.toArray.getD y.toNat 0 = crcBit8 y := by
  rw [crcTable_eq_std]
  have hg : (stdTableList.toArray)[y.toNat]? = some (crcTableEntry y.toNat) := by
    unfold stdTableList
    simp only [List.getElem?_toArray, List.getElem?_map, List.getElem?_range hlt, Option.map_some]
  have hy : UInt32.ofNat y.toNat = y := by simp
  simp only [Array.getD_eq_getD_getElem?, hg, Option.getD_some, crcTableEntry, hy]

/-- one byte through the extracted table = one byte bit by bit -/
theorem crcByte_eq (c : UInt32) (b : UInt8) :
    crcByteTable crcTable.toArray c b = crcByteBitwise c b := by
  have hlt := and_ff_lt (c ^^^ b.toUInt32)
  rw [low_byte_xor] at hlt
  unfold crcByteTable crcByteBitwise
  rw [crcBit8_split, UInt32.shiftRight_xor, byte_shift, UInt32.xor_zero, low_byte_xor, table_lookup _ hlt]

/-! ## HMAC -/

theorem hmacCode_eq_rfc (H : Bytes → Bytes) (B : Nat) (k t : Bytes) (h : k.length ≤ B) :
    hmacCode H B k t = hmacRfc H B k t := by
  have hk : ¬ k.length > B := by omega
  have hl : (k ++ zeros (B - k.length)).length = B := by simp [zeros]; omega
  have e : (k ++ zeros (B - k.length)).take B = k ++ zeros (B - k.length) :=
    List.take_of_length_le (by omega)
  simp only [hmacCode, hmacRfc, hmac, hmacKey0, hk, if_false, hmacKeyed, hmacIpad, hmacOpad, e]

theorem hmacCode_tail (H : Bytes → Bytes) (B : Nat) (k a t : Bytes) (h : k.length = B) :
    hmacCode H B (k ++ a) t = hmacCode H B k t := by
  have e1 : ((k ++ a) ++ zeros (B - (k ++ a).length)).take B = k := by
    rw [List.append_assoc, List.take_append_of_le_length (by omega)]
    exact List.take_of_length_le (by omega)
  have e2 : (k ++ zeros (B - k.length)).take B = k := by
    rw [List.take_append_of_le_length (by omega)]
    exact List.take_of_length_le (by omega)
  simp only [hmacCode, e1, e2]

end Qx.C14
