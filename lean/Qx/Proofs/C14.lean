/-
Helper lemmas for C14 (STUN codec): CRC table = bitwise CRC, HMAC forms, QDataStream reads of what encodeRaw wrote,
one lemma per attribute ("the decode loop, standing in front of what encodeRaw wrote for X, consumes it and sets X"),
and the invariants of the decode loop (stream = rest of the packet; MESSAGE-INTEGRITY / FINGERPRINT were verified).
-/
import Qx.Model.C14Stun
import Qx.Proofs.Bytes

namespace Qx.C14
open Qx Qx.Bytes Qx.Crypto Qx.Generated

/-! ## CRC-32: the extracted table is the bitwise definition -/

/-- the table extracted from QXmppUtils.cpp equals the table computed from the bitwise definition -/
theorem crcTable_eq_std : crcTable = stdTableList := by decide +kernel

/-- what the low bit contributes in one shift -/
def lowMask (x : UInt32) : UInt32 := if x &&& 1 = 1 then 0xEDB88320 else 0

theorem crcBit_eq (x : UInt32) : crcBit x = (x >>> 1) ^^^ lowMask x := by
  unfold crcBit lowMask; split <;> simp

theorem and_one_cases (x : UInt32) : x &&& 1 = 0 ∨ x &&& 1 = 1 := by
  have h : (x &&& 1).toNat = x.toNat % 2 := by
    simp [UInt32.toNat_and]
  rcases Nat.mod_two_eq_zero_or_one x.toNat with h0 | h1
  · left; apply UInt32.toNat_inj.mp; rw [h, h0]; rfl
  · right; apply UInt32.toNat_inj.mp; rw [h, h1]; rfl

theorem lowMask_xor (a b : UInt32) : lowMask (a ^^^ b) = lowMask a ^^^ lowMask b := by
  have hx : (a ^^^ b) &&& 1 = (a &&& 1) ^^^ (b &&& 1) := by
    apply UInt32.toBitVec_inj.mp
    simp only [UInt32.toBitVec_and, UInt32.toBitVec_xor]
    ext i hi
    simp [Bool.and_xor_distrib_right]
  unfold lowMask
  rw [hx]
  rcases and_one_cases a with ha | ha <;> rcases and_one_cases b with hb | hb <;> rw [ha, hb] <;> decide

/-- one CRC shift is linear over GF(2) -/
theorem crcBit_xor (a b : UInt32) : crcBit (a ^^^ b) = crcBit a ^^^ crcBit b := by
  simp only [crcBit_eq, lowMask_xor, UInt32.shiftRight_xor]
  ac_rfl

theorem crcBit8_xor (a b : UInt32) : crcBit8 (a ^^^ b) = crcBit8 a ^^^ crcBit8 b := by
  simp only [crcBit8, crcBit_xor]

theorem crcBit_of_even (x : UInt32) (h : x &&& 1 = 0) : crcBit x = x >>> 1 := by
  rw [crcBit_eq]; unfold lowMask; rw [h]; simp

macro "low_bit_clear" : tactic =>
  `(tactic| (apply UInt32.toBitVec_inj.mp; simp; ext i hi; simp; intro _ h hi0; subst hi0; simp at h))

/-- eight shifts of a register whose low byte is zero just move it down by one byte -/
theorem crcBit8_high (x : UInt32) : crcBit8 (x &&& 0xffffff00) = x >>> 8 := by
  have e0 : (x &&& 0xffffff00) &&& 1 = 0 := by low_bit_clear
  have e1 : ((x &&& 0xffffff00) >>> 1) &&& 1 = 0 := by low_bit_clear
  have e2 : ((x &&& 0xffffff00) >>> 1 >>> 1) &&& 1 = 0 := by low_bit_clear
  have e3 : ((x &&& 0xffffff00) >>> 1 >>> 1 >>> 1) &&& 1 = 0 := by low_bit_clear
  have e4 : ((x &&& 0xffffff00) >>> 1 >>> 1 >>> 1 >>> 1) &&& 1 = 0 := by low_bit_clear
  have e5 : ((x &&& 0xffffff00) >>> 1 >>> 1 >>> 1 >>> 1 >>> 1) &&& 1 = 0 := by low_bit_clear
  have e6 : ((x &&& 0xffffff00) >>> 1 >>> 1 >>> 1 >>> 1 >>> 1 >>> 1) &&& 1 = 0 := by low_bit_clear
  have e7 : ((x &&& 0xffffff00) >>> 1 >>> 1 >>> 1 >>> 1 >>> 1 >>> 1 >>> 1) &&& 1 = 0 := by low_bit_clear
  unfold crcBit8
  rw [crcBit_of_even _ e0, crcBit_of_even _ e1, crcBit_of_even _ e2, crcBit_of_even _ e3,
    crcBit_of_even _ e4, crcBit_of_even _ e5, crcBit_of_even _ e6, crcBit_of_even _ e7]
  apply UInt32.toBitVec_inj.mp
  simp
  ext i hi
  simp
  intro h
  have h24 : i < 24 := by have := BitVec.lt_of_getLsbD h; omega
  have hm : ∀ j, j < 24 → (4294967040#32).getLsbD (8 + j) = true := by decide
  exact hm i h24

theorem mask_lo : ∀ j, j < 8 → (255#32).getLsbD j = true ∧ (4294967040#32).getLsbD j = false := by decide
theorem mask_hi : ∀ j, j < 24 → (255#32).getLsbD (8 + j) = false ∧ (4294967040#32).getLsbD (8 + j) = true := by decide

theorem byte_bit (b : UInt8) (i : Nat) (h : b.toBitVec.getLsbD i = true) : i < 8 := BitVec.lt_of_getLsbD h

theorem low_byte_xor (c : UInt32) (b : UInt8) :
    (c ^^^ b.toUInt32) &&& 0xff = (c &&& 0xff) ^^^ b.toUInt32 := by
  apply UInt32.toBitVec_inj.mp
  simp
  ext i hi
  simp only [BitVec.getElem_and, BitVec.getElem_xor, BitVec.getElem_setWidth]
  cases hb : b.toBitVec.getLsbD i
  · simp
  · have := mask_lo i (byte_bit b i hb)
    simp [← BitVec.getLsbD_eq_getElem, this.1]

theorem byte_shift (b : UInt8) : b.toUInt32 >>> 8 = 0 := by
  apply UInt32.toBitVec_inj.mp
  simp
  ext i hi
  simp

theorem split_hi_lo (x : UInt32) : x = (x &&& 0xffffff00) ^^^ (x &&& 0xff) := by
  apply UInt32.toBitVec_inj.mp
  simp
  ext i hi
  simp only [BitVec.getElem_and, BitVec.getElem_xor]
  by_cases h8 : i < 8
  · have := mask_lo i h8
    simp [← BitVec.getLsbD_eq_getElem, this.1, this.2]
  · have := mask_hi (i - 8) (by omega)
    have e : 8 + (i - 8) = i := by omega
    rw [e] at this
    simp [← BitVec.getLsbD_eq_getElem, this.1, this.2]

/-- the identity behind every table-driven CRC: eight shifts = shift by a byte xor the table entry of the low byte -/
theorem crcBit8_split (x : UInt32) : crcBit8 x = (x >>> 8) ^^^ crcBit8 (x &&& 0xff) := by
  conv => lhs; rw [split_hi_lo x]
  rw [crcBit8_xor, crcBit8_high]

theorem and_ff_lt (x : UInt32) : (x &&& 0xff).toNat < 256 := by
  rw [UInt32.toNat_and]
  exact Nat.lt_succ_of_le Nat.and_le_right

theorem table_lookup (y : UInt32) (hlt : y.toNat < 256) : crcTable.toArray.getD y.toNat 0 = crcBit8 y := by
  rw [crcTable_eq_std]
  have hg : (stdTableList.toArray)[y.toNat]? = some (crcTableEntry y.toNat) := by
    unfold stdTableList
    simp only [List.getElem?_toArray, List.getElem?_map, List.getElem?_range hlt, Option.map_some]
  have hy : UInt32.ofNat y.toNat = y := by simp
  simp only [Array.getD_eq_getD_getElem?, hg, Option.getD_some, crcTableEntry, hy]

/-- one byte through the extracted table = one byte bit by bit -/
theorem crcByte_eq (c : UInt32) (b : UInt8) :
    crcByteTable crcTable.toArray c b = crcByteBitwise c b := by
  have hlt := and_ff_lt (c ^^^ b.toUInt32)
  rw [low_byte_xor] at hlt
  unfold crcByteTable crcByteBitwise
  rw [crcBit8_split, UInt32.shiftRight_xor, byte_shift, UInt32.xor_zero, low_byte_xor, table_lookup _ hlt]

/-! ## HMAC -/

/-- the code's HMAC is RFC 2104 for every key, provided the digest is not longer than a block (true of every hash
function HMAC is defined for; 20 ≤ 64 for SHA-1) -/
theorem hmacCode_eq_rfc (H : Bytes → Bytes) (B : Nat) (k t : Bytes) (hH : ∀ x, (H x).length ≤ B) :
    hmacCode H B k t = hmacRfc H B k t := by
  have hk0 : (if k.length > B then H k else k).length ≤ B := by
    split
    · exact hH k
    · omega
  have e : ((if k.length > B then H k else k) ++ zeros (B - (if k.length > B then H k else k).length)).take B =
      (if k.length > B then H k else k) ++ zeros (B - (if k.length > B then H k else k).length) :=
    List.take_of_length_le (by simp only [List.length_append, zeros, List.length_replicate]; omega)
  simp only [hmacCode, hmacRfc, hmac, hmacKey0, hmacKeyed, hmacIpad, hmacOpad, e]

theorem hmacCode_eq_rfc_20 (H : Bytes → Bytes) (hH : ∀ x, (H x).length = 20) (k t : Bytes) :
    hmacCode H 64 k t = hmacRfc H 64 k t :=
  hmacCode_eq_rfc H 64 k t (fun x => by rw [hH x]; decide)

/-! ## QDataStream reads of what encodeRaw wrote -/

theorem u8n (n : Nat) : (UInt8.ofNat n).toNat = n % 256 := by simp [UInt8.toNat_ofNat']

theorem rdU16_put (x : Nat) (r : Bytes) (h : x < 65536) : rdU16 (putU16 x ++ r) = (x, r) := by
  simp only [putU16, rdU16, List.cons_append, List.nil_append, u8n]
  congr 1; omega

theorem rdU32_put (x : Nat) (r : Bytes) (h : x < 4294967296) : rdU32 (putU32 x ++ r) = (x, r) := by
  simp only [putU32, rdU32, List.cons_append, List.nil_append, u8n]
  congr 1; omega

theorem rdU8_cons (x : Nat) (r : Bytes) (h : x < 256) : rdU8 (UInt8.ofNat x :: r) = (x, r) := by
  simp only [rdU8, u8n]; congr 1; omega

theorem rdRaw_append (bs r : Bytes) : rdRaw bs.length (bs ++ r) = (bs, r) := by
  simp [rdRaw, zeros]

theorem rdResize_append (old bs r : Bytes) : rdResize old bs.length (bs ++ r) = (bs, r) := by
  simp [rdResize, zeros]

theorem putU16_len (n : Nat) : (putU16 n).length = 2 := rfl
theorem putU32_len (n : Nat) : (putU32 n).length = 4 := rfl
theorem zeros_len (n : Nat) : (zeros n).length = n := by simp [zeros]
theorem padded_len (bs : Bytes) : (padded bs).length = bs.length + pad4 bs.length := by simp [padded, zeros]

/-! ## one turn of the decode loop -/

theorem loop_done (H : Bytes → Bytes) (buf key : Bytes) (len done : Nat) (s : Bytes) (m : Msg) (mi : Option Nat)
    (h : ¬ done < len) : loop H buf key len done s m mi = some ⟨m, mi, none⟩ := by
  rw [loop]; simp [h]

/-- the loop in front of a complete attribute (`ty`, `aLen`, value and padding `val`) that `attrStep` accepts -/
theorem loop_tlv (H : Bytes → Bytes) (buf key : Bytes) (len done ty aLen : Nat) (val rest : Bytes) (m m' : Msg)
    (hty : ty < 65536) (hal : aLen < 65536) (hlt : done < len) (hb : done + 4 + aLen ≤ len)
    (hstep : attrStep H buf key done ty aLen (val ++ rest) m none = .next (val.drop aLen ++ rest) m' none)
    (hval : val.length = aLen + pad4 aLen) :
    loop H buf key len done (putU16 ty ++ (putU16 aLen ++ (val ++ rest))) m none
      = loop H buf key len (done + (4 + aLen + pad4 aLen)) rest m' none := by
  rw [loop]
  have hb' : ¬ (done + 4 + aLen > len) := by omega
  simp only [hlt, dite_true, rdU16_put _ _ hty, rdU16_put _ _ hal, hb', Option.isSome_none, Bool.false_eq_true, false_and,
    if_false, hstep]
  congr 1
  rw [← List.drop_append_of_le_length (by omega), List.drop_drop]
  have : aLen + pad4 aLen = val.length := by omega
  rw [this]; simp


/-- `seg`, standing at the front of the stream with `after_integrity` unset, is consumed by the loop (whatever the
packet, key, counter and rest are), turning message `x` into `y` -/
def StepsTo (seg : Bytes) (x y : Msg) : Prop :=
  ∀ (H : Bytes → Bytes) (buf key : Bytes) (len done : Nat) (rest : Bytes), len < 65536 →
    done + (seg ++ rest).length = len →
    loop H buf key len done (seg ++ rest) x none = loop H buf key len (done + seg.length) rest y none

theorem StepsTo.nil (x : Msg) : StepsTo [] x x := by
  intro H buf key len done rest _ _; simp

theorem StepsTo.append {s1 s2 : Bytes} {x y z : Msg} (h1 : StepsTo s1 x y) (h2 : StepsTo s2 y z) :
    StepsTo (s1 ++ s2) x z := by
  intro H buf key len done rest hl hinv
  rw [List.append_assoc, h1 H buf key len done (s2 ++ rest) hl (by simpa [List.append_assoc] using hinv),
    h2 H buf key len (done + s1.length) rest hl (by simp [List.length_append] at hinv ⊢; omega)]
  simp [List.length_append, Nat.add_assoc]

theorem drop4_putU32 (v : Nat) : (putU32 v).drop 4 = [] := rfl
theorem drop2_putU16 (v : Nat) : (putU16 v).drop 2 = [] := rfl
theorem pad4_lt (n : Nat) : pad4 n < 4 := by unfold pad4; omega


attribute [local simp] Stun.priority Stun.errorCode Stun.useCandidate Stun.channelNumber Stun.dataAttr Stun.lifetime
  Stun.nonce Stun.realm Stun.requestedTransport Stun.reservationToken Stun.software Stun.username Stun.mappedAddress
  Stun.changeRequest Stun.sourceAddress Stun.changedAddress Stun.otherAddress Stun.xorMappedAddress Stun.xorPeerAddress
  Stun.xorRelayedAddress Stun.messageIntegrity Stun.fingerprint Stun.iceControlling Stun.iceControlled
  Stun.familyIPv4 Stun.familyIPv6
  stepU32 stepError stepFlag stepChannel stepTransport stepBlob stepFixed8 stepStr stepAddr

theorem pad4_add4 (n : Nat) : pad4 (n + 4) = pad4 n := by unfold pad4; omega

/-- finishing step shared by the attribute lemmas: rewrite with `loop_tlv`, then compare the counters -/
theorem steps_of_tlv (ty aLen : Nat) (val : Bytes) (x y : Msg) (hty : ty < 65536)
    (hval : val.length = aLen + pad4 aLen)
    (hstep : ∀ (H : Bytes → Bytes) (buf key : Bytes) (done : Nat) (rest : Bytes), aLen < 65536 →
      attrStep H buf key done ty aLen (val ++ rest) x none = .next (val.drop aLen ++ rest) y none) :
    StepsTo (putU16 ty ++ putU16 aLen ++ val) x y := by
  intro H buf key len done rest hl hinv
  have hlen : aLen < 65536 := by
    simp only [List.length_append, putU16_len] at hinv; omega
  simp only [List.append_assoc] at hinv ⊢
  rw [loop_tlv H buf key len done ty aLen val rest x y hty hlen
    (by simp only [List.length_append, putU16_len] at hinv; omega)
    (by simp only [List.length_append, putU16_len] at hinv; omega) (hstep H buf key done rest hlen) hval]
  congr 1
  simp only [List.length_append, putU16_len]; omega

/-! ### 32-bit, 16-bit and 8-bit attributes, USE-CANDIDATE -/

theorem steps_priority (x : Msg) (o : Option Nat) (ho : optAll o (· < 4294967296)) (hx : x.priority = none) :
    StepsTo (encOpt o (fun v => putU16 Stun.priority ++ putU16 4 ++ putU32 v)) x { x with priority := o } := by
  cases o with
  | none => simp only [encOpt]; rw [← hx]; exact StepsTo.nil x
  | some v =>
    exact steps_of_tlv _ 4 (putU32 v) _ _ (by decide) rfl
      (by intro H buf key done rest _; simp [attrStep, rdU32_put _ _ ho, drop4_putU32])

theorem steps_lifetime (x : Msg) (o : Option Nat) (ho : optAll o (· < 4294967296)) (hx : x.lifetime = none) :
    StepsTo (encOpt o (fun v => putU16 Stun.lifetime ++ putU16 4 ++ putU32 v)) x { x with lifetime := o } := by
  cases o with
  | none => simp only [encOpt]; rw [← hx]; exact StepsTo.nil x
  | some v =>
    exact steps_of_tlv _ 4 (putU32 v) _ _ (by decide) rfl
      (by intro H buf key done rest _; simp [attrStep, rdU32_put _ _ ho, drop4_putU32])

theorem steps_changeRequest (x : Msg) (o : Option Nat) (ho : optAll o (· < 4294967296)) (hx : x.changeRequest = none) :
    StepsTo (encOpt o (fun v => putU16 Stun.changeRequest ++ putU16 4 ++ putU32 v)) x { x with changeRequest := o } := by
  cases o with
  | none => simp only [encOpt]; rw [← hx]; exact StepsTo.nil x
  | some v =>
    exact steps_of_tlv _ 4 (putU32 v) _ _ (by decide) rfl
      (by intro H buf key done rest _; simp [attrStep, rdU32_put _ _ ho, drop4_putU32])

theorem steps_channelNumber (x : Msg) (o : Option Nat) (ho : optAll o (· < 65536)) (hx : x.channelNumber = none) :
    StepsTo (encOpt o (fun v => putU16 Stun.channelNumber ++ putU16 4 ++ putU16 v ++ putU16 0)) x
      { x with channelNumber := o } := by
  cases o with
  | none => simp only [encOpt]; rw [← hx]; exact StepsTo.nil x
  | some v =>
    have h := steps_of_tlv Stun.channelNumber 4 (putU16 v ++ putU16 0) x { x with channelNumber := some v } (by decide) rfl
      (by intro H buf key done rest _
          simp only [List.append_assoc]
          simp [attrStep, rdU16_put _ _ ho]
          simp [putU16])
    simpa only [encOpt, List.append_assoc] using h

theorem steps_requestedTransport (x : Msg) (o : Option Nat) (ho : optAll o (· < 256)) (hx : x.requestedTransport = none) :
    StepsTo (encOpt o (fun v => putU16 Stun.requestedTransport ++ putU16 4 ++ [UInt8.ofNat v, 0, 0, 0])) x
      { x with requestedTransport := o } := by
  cases o with
  | none => simp only [encOpt]; rw [← hx]; exact StepsTo.nil x
  | some v =>
    exact steps_of_tlv _ 4 [UInt8.ofNat v, 0, 0, 0] _ _ (by decide) rfl
      (by intro H buf key done rest _; simp [attrStep, rdU8_cons _ _ ho])

theorem steps_useCandidate (x : Msg) (b : Bool) (hx : x.useCandidate = false) :
    StepsTo (if b then putU16 Stun.useCandidate ++ putU16 0 else []) x { x with useCandidate := b } := by
  cases b with
  | false => simp only [Bool.false_eq_true, if_false]; rw [← hx]; exact StepsTo.nil x
  | true =>
    have h := steps_of_tlv Stun.useCandidate 0 [] x { x with useCandidate := true } (by decide) rfl
      (by intro H buf key done rest _; simp [attrStep])
    simpa using h

/-! ### byte strings kept as they are: DATA, NONCE, RESERVATION-TOKEN -/

theorem steps_data (x : Msg) (o : Option Bytes) (hx : x.data = none) :
    StepsTo (encOpt o (encBlob Stun.dataAttr)) x { x with data := o } := by
  cases o with
  | none => simp only [encOpt]; rw [← hx]; exact StepsTo.nil x
  | some bs =>
    exact steps_of_tlv _ bs.length (padded bs) _ _ (by decide) (padded_len bs)
      (by intro H buf key done rest _; simp [attrStep, padded, hx, List.append_assoc, rdResize_append])

theorem steps_nonce (x : Msg) (o : Option Bytes) (hx : x.nonce = none) :
    StepsTo (encOpt o (encBlob Stun.nonce)) x { x with nonce := o } := by
  cases o with
  | none => simp only [encOpt]; rw [← hx]; exact StepsTo.nil x
  | some bs =>
    exact steps_of_tlv _ bs.length (padded bs) _ _ (by decide) (padded_len bs)
      (by intro H buf key done rest _; simp [attrStep, padded, hx, List.append_assoc, rdResize_append])

theorem steps_reservationToken (x : Msg) (o : Option Bytes) (ho : optAll o (·.length = 8)) (hx : x.reservationToken = none) :
    StepsTo (encOpt o (fun v => putU16 Stun.reservationToken ++ putU16 v.length ++ v)) x { x with reservationToken := o } := by
  cases o with
  | none => simp only [encOpt]; rw [← hx]; exact StepsTo.nil x
  | some bs =>
    have h8 : bs.length = 8 := ho
    exact steps_of_tlv _ bs.length bs _ _ (by decide) (by rw [h8]; rfl)
      (by intro H buf key done rest _
          have e := rdResize_append [] bs rest
          rw [h8] at e
          simp [attrStep, h8, hx, e])

/-! ### strings: REALM, SOFTWARE, USERNAME come back through `QString::fromUtf8` -/

theorem steps_realm (x : Msg) (o : Option Bytes) (hx : x.realm = none) :
    StepsTo (encOpt o (encBlob Stun.realm)) x { x with realm := o.map qtStr } := by
  cases o with
  | none => simp only [encOpt, Option.map_none]; rw [← hx]; exact StepsTo.nil x
  | some bs =>
    exact steps_of_tlv _ bs.length (padded bs) _ _ (by decide) (padded_len bs)
      (by intro H buf key done rest _; simp [attrStep, padded, List.append_assoc, rdRaw_append])

theorem steps_software (x : Msg) (o : Option Bytes) (hx : x.software = none) :
    StepsTo (encOpt o (encBlob Stun.software)) x { x with software := o.map qtStr } := by
  cases o with
  | none => simp only [encOpt, Option.map_none]; rw [← hx]; exact StepsTo.nil x
  | some bs =>
    exact steps_of_tlv _ bs.length (padded bs) _ _ (by decide) (padded_len bs)
      (by intro H buf key done rest _; simp [attrStep, padded, List.append_assoc, rdRaw_append])

theorem steps_username (x : Msg) (o : Option Bytes) (hx : x.username = none) :
    StepsTo (encOpt o (encBlob Stun.username)) x { x with username := o.map qtStr } := by
  cases o with
  | none => simp only [encOpt, Option.map_none]; rw [← hx]; exact StepsTo.nil x
  | some bs =>
    exact steps_of_tlv _ bs.length (padded bs) _ _ (by decide) (padded_len bs)
      (by intro H buf key done rest _; simp [attrStep, padded, List.append_assoc, rdRaw_append])


/-! ### ERROR-CODE -/

theorem qtStr_nil : qtStr [] = [] := by decide

theorem steps_error (x : Msg) (m : Msg) (h0 : 0 ≤ m.errorCode) (h1 : m.errorCode < 25600)
    (hn : m.errorCode = 0 → m.errorPhrase = []) (hx : x.errorCode = 0) (hxp : x.errorPhrase = []) :
    StepsTo (encError m) x { x with errorCode := m.errorCode, errorPhrase := qtStr m.errorPhrase } := by
  unfold encError
  split
  · rename_i hz
    have e : ({ x with errorCode := m.errorCode, errorPhrase := qtStr m.errorPhrase } : Msg) = x := by
      rw [hn hz, hz, qtStr_nil, ← hx, ← hxp]
    rw [e]; exact StepsTo.nil x
  · obtain ⟨n, hn'⟩ := Int.eq_ofNat_of_zero_le h0
    have hnlt : n < 25600 := by omega
    have ehi : errHigh m.errorCode = n / 100 := by
      rw [hn']; unfold errHigh
      rw [Int.natCast_tdiv_eq_ediv]; omega
    have elo : errLow m.errorCode = n % 100 := by
      rw [hn']; unfold errLow
      rw [Int.tmod_eq_emod_of_nonneg (by omega)]; omega
    have h := steps_of_tlv Stun.errorCode (m.errorPhrase.length + 4)
      ([0, 0, UInt8.ofNat (errHigh m.errorCode), UInt8.ofNat (errLow m.errorCode)] ++ padded m.errorPhrase) x
      { x with errorCode := m.errorCode, errorPhrase := qtStr m.errorPhrase } (by decide)
      (by simp only [List.length_append, padded_len, pad4_add4, List.length_cons, List.length_nil]; omega)
      (by intro H buf key done rest _
          have e8a := rdU8_cons (n / 100) (UInt8.ofNat (n % 100) :: (m.errorPhrase ++ (zeros (pad4 m.errorPhrase.length) ++ rest))) (by omega)
          have e8b := rdU8_cons (n % 100) (m.errorPhrase ++ (zeros (pad4 m.errorPhrase.length) ++ rest)) (by omega)
          have hdrop : List.drop (m.errorPhrase.length + 4)
              (0 :: 0 :: UInt8.ofNat (n / 100) :: UInt8.ofNat (n % 100) :: (m.errorPhrase ++ zeros (pad4 m.errorPhrase.length)))
              = zeros (pad4 m.errorPhrase.length) := by
            simp
          have hge : ¬ (m.errorPhrase.length + 4 < 4) := by omega
          have hcode2 : ((n : Int) / 100 * 100 + (n : Int) % 100) = m.errorCode := by rw [hn']; omega
          simp [attrStep, rdU16, ehi, elo, e8a, e8b, padded, List.append_assoc, rdRaw_append, hcode2, hdrop, hge])
    simpa only [List.append_assoc] using h

/-! ### ICE-CONTROLLING / ICE-CONTROLLED -/

theorem steps_ice (x : Msg) (m : Msg) (hc : m.iceControlling = [] ∨ m.iceControlling.length = 8)
    (hd : m.iceControlled = [] ∨ (m.iceControlled.length = 8 ∧ m.iceControlling = []))
    (hx : x.iceControlling = []) (hxd : x.iceControlled = []) :
    StepsTo (encIce m) x { x with iceControlling := m.iceControlling, iceControlled := m.iceControlled } := by
  unfold encIce
  split
  · rename_i hne
    have h8 : m.iceControlling.length = 8 := by
      rcases hc with h | h
      · exact absurd h hne
      · exact h
    have hd0 : m.iceControlled = [] := by
      rcases hd with h | h
      · exact h
      · exact absurd h.2 hne
    have e := rdResize_append x.iceControlling m.iceControlling
    rw [h8] at e
    have h := steps_of_tlv Stun.iceControlling m.iceControlling.length m.iceControlling x
      { x with iceControlling := m.iceControlling, iceControlled := m.iceControlled } (by decide) (by rw [h8]; rfl)
      (by intro H buf key done rest _
          simp [attrStep, h8, e, hd0, hxd])
    exact h
  · rename_i hc0
    have hc0 : m.iceControlling = [] := by simpa using hc0
    split
    · rename_i hne
      have h8 : m.iceControlled.length = 8 := by
        rcases hd with h | h
        · exact absurd h hne
        · exact h.1
      have e := rdResize_append x.iceControlled m.iceControlled
      rw [h8] at e
      have h := steps_of_tlv Stun.iceControlled m.iceControlled.length m.iceControlled x
        { x with iceControlling := m.iceControlling, iceControlled := m.iceControlled } (by decide) (by rw [h8]; rfl)
        (by intro H buf key done rest _
            simp [attrStep, h8, e, hc0, hx])
      exact h
    · rename_i hd0
      have hd0 : m.iceControlled = [] := by simpa using hd0
      have e : ({ x with iceControlling := m.iceControlling, iceControlled := m.iceControlled } : Msg) = x := by
        rw [hc0, hd0]; cases x; simp only at hx hxd; subst hx hxd; rfl
      rw [e]; exact StepsTo.nil x


/-! ### addresses -/

theorem portMask_val : portMask = 0x2112 := by decide

theorem xor_cancel_nat (a b : Nat) : (a ^^^ b) ^^^ b = a := by
  rw [Nat.xor_assoc, Nat.xor_self, Nat.xor_zero]

theorem xor_port_lt (p : Nat) (h : p < 65536) : p ^^^ portMask < 65536 := by
  rw [portMask_val]
  exact Nat.xor_lt_two_pow (n := 16) h (by decide)

theorem xor_ip_lt (p : Nat) (h : p < 4294967296) : p ^^^ Stun.magicCookie < 4294967296 :=
  Nat.xor_lt_two_pow (n := 32) h (by decide)

/-- value bytes of an address attribute -/
def addrVal (a : Addr) (xid : Option Bytes) : Bytes :=
  match a.host with
  | .null => []
  | .v4 ip =>
    [0, UInt8.ofNat Stun.familyIPv4] ++
      (match xid with
       | none => putU16 a.port ++ putU32 ip
       | some _ => putU16 (a.port ^^^ portMask) ++ putU32 (ip ^^^ Stun.magicCookie))
  | .v6 bs =>
    [0, UInt8.ofNat Stun.familyIPv6] ++
      (match xid with
       | none => putU16 a.port ++ bs
       | some id => putU16 (a.port ^^^ portMask) ++ xorBytes bs (xorPad id))

def addrLen (a : Addr) : Nat :=
  match a.host with
  | .null => 0
  | .v4 _ => 8
  | .v6 _ => 20

theorem xorPad_len (id : Bytes) (h : id.length = 12) : (xorPad id).length = 16 := by
  simp [xorPad, putU32_len, h]

theorem addrVal_len (a : Addr) (xid : Option Bytes) (hwf : a.WF) (hid : ∀ id, xid = some id → id.length = 12) :
    (addrVal a xid).length = addrLen a := by
  unfold addrVal addrLen
  unfold Addr.WF at hwf
  cases hh : a.host with
  | null => rfl
  | v4 ip => cases xid <;> simp [putU16_len, putU32_len]
  | v6 bs =>
    rw [hh] at hwf
    cases xid with
    | none => simp [putU16_len, hwf.2.2]
    | some id => simp [putU16_len, xorBytes_length, xorPad_len id (hid id rfl), hwf.2.2]

/-- `decodeAddress` reads back what `encodeAddress` wrote -/
theorem decAddr_addrVal (a : Addr) (xid : Option Bytes) (rest : Bytes) (hwf : a.WF) (hp : a.port ≠ 0)
    (hid : ∀ id, xid = some id → id.length = 12) :
    decAddr (addrLen a) (addrVal a xid ++ rest) xid = some (a, rest) := by
  unfold Addr.WF at hwf
  obtain ⟨host, port⟩ := a
  cases host with
  | null => exact absurd hwf hp
  | v4 ip =>
    simp only at hwf
    cases xid with
    | none =>
      simp [decAddr, addrVal, addrLen, rdU8, List.append_assoc, rdU16_put _ _ hwf.2.1, rdU32_put _ _ hwf.2.2]
    | some id =>
      simp [decAddr, addrVal, addrLen, rdU8, List.append_assoc, rdU16_put _ _ (xor_port_lt _ hwf.2.1),
        rdU32_put _ _ (xor_ip_lt _ hwf.2.2), xor_cancel_nat]
  | v6 bs =>
    simp only at hwf
    cases xid with
    | none =>
      have e := rdRaw_append bs rest
      rw [hwf.2.2] at e
      simp [decAddr, addrVal, addrLen, rdU8, List.append_assoc, rdU16_put _ _ hwf.2.1, e]
    | some id =>
      have hl : (xorBytes bs (xorPad id)).length = 16 := by
        simp [xorBytes_length, xorPad_len id (hid id rfl), hwf.2.2]
      have e := rdRaw_append (xorBytes bs (xorPad id)) rest
      rw [hl] at e
      have hc := xorBytes_self_cancel bs (xorPad id) (by rw [hwf.2.2, xorPad_len id (hid id rfl)])
      simp [decAddr, addrVal, addrLen, rdU8, List.append_assoc, rdU16_put _ _ (xor_port_lt _ hwf.2.1), e, hc,
        xor_cancel_nat]

theorem encAddr_eq (ty : Nat) (a : Addr) (xid : Option Bytes) (hwf : a.WF) :
    encAddr ty a xid = if a.port = 0 then [] else putU16 ty ++ putU16 (addrLen a) ++ addrVal a xid := by
  unfold Addr.WF at hwf
  unfold encAddr addrLen addrVal
  split
  · rfl
  · cases hh : a.host with
    | null => rw [hh] at hwf; contradiction
    | v4 ip => cases xid <;> simp
    | v6 bs => cases xid <;> simp

/-- generic address step: `hstep` says which branch of `attrStep` the type `ty` takes -/
theorem steps_addr (ty : Nat) (xid : Option Bytes) (x y : Msg) (a : Addr) (hwf : a.WF) (hty : ty < 65536)
    (hid : ∀ id, xid = some id → id.length = 12)
    (habsent : a = {} → y = x)
    (hstep : ∀ (H : Bytes → Bytes) (buf key : Bytes) (done aLen : Nat) (s r : Bytes), decAddr aLen s xid = some (a, r) →
      attrStep H buf key done ty aLen s x none = .next r y none) :
    StepsTo (encAddr ty a xid) x y := by
  rw [encAddr_eq ty a xid hwf]
  split
  · rename_i hp0
    have ha : a = {} := by
      unfold Addr.WF at hwf
      obtain ⟨host, port⟩ := a
      simp only at hp0; subst hp0
      cases host <;> simp_all
    rw [habsent ha]; exact StepsTo.nil x
  · rename_i hp
    have hal : (addrVal a xid).length = addrLen a + pad4 (addrLen a) := by
      rw [addrVal_len a xid hwf hid]
      unfold addrLen; cases a.host <;> simp [pad4]
    refine steps_of_tlv ty (addrLen a) (addrVal a xid) x y hty hal ?_
    intro H buf key done rest _
    have hd : (addrVal a xid).drop (addrLen a) = [] := by
      apply List.drop_of_length_le; rw [addrVal_len a xid hwf hid]; exact Nat.le_refl _
    rw [hd, List.nil_append]
    exact hstep H buf key done (addrLen a) _ rest (decAddr_addrVal a xid rest hwf hp hid)

theorem steps_mapped (x : Msg) (a : Addr) (hwf : a.WF) (hx : x.mapped = {}) :
    StepsTo (encAddr Stun.mappedAddress a none) x { x with mapped := a } :=
  steps_addr _ none x _ a hwf (by decide) (by simp) (by intro h; rw [h, ← hx])
    (by intro H buf key done aLen s r h; simp [attrStep, h])

theorem steps_source (x : Msg) (a : Addr) (hwf : a.WF) (hx : x.source = {}) :
    StepsTo (encAddr Stun.sourceAddress a none) x { x with source := a } :=
  steps_addr _ none x _ a hwf (by decide) (by simp) (by intro h; rw [h, ← hx])
    (by intro H buf key done aLen s r h; simp [attrStep, h])

theorem steps_changed (x : Msg) (a : Addr) (hwf : a.WF) (hx : x.changed = {}) :
    StepsTo (encAddr Stun.changedAddress a none) x { x with changed := a } :=
  steps_addr _ none x _ a hwf (by decide) (by simp) (by intro h; rw [h, ← hx])
    (by intro H buf key done aLen s r h; simp [attrStep, h])

theorem steps_other (x : Msg) (a : Addr) (hwf : a.WF) (hx : x.other = {}) :
    StepsTo (encAddr Stun.otherAddress a none) x { x with other := a } :=
  steps_addr _ none x _ a hwf (by decide) (by simp) (by intro h; rw [h, ← hx])
    (by intro H buf key done aLen s r h; simp [attrStep, h])

theorem steps_xorMapped (x : Msg) (a : Addr) (hwf : a.WF) (hx : x.xorMapped = {}) (hid : x.id.length = 12) :
    StepsTo (encAddr Stun.xorMappedAddress a (some x.id)) x { x with xorMapped := a } :=
  steps_addr _ (some x.id) x _ a hwf (by decide) (by intro id h; cases h; exact hid) (by intro h; rw [h, ← hx])
    (by intro H buf key done aLen s r h; simp [attrStep, h])

theorem steps_xorPeer (x : Msg) (a : Addr) (hwf : a.WF) (hx : x.xorPeer = {}) (hid : x.id.length = 12) :
    StepsTo (encAddr Stun.xorPeerAddress a (some x.id)) x { x with xorPeer := a } :=
  steps_addr _ (some x.id) x _ a hwf (by decide) (by intro id h; cases h; exact hid) (by intro h; rw [h, ← hx])
    (by intro H buf key done aLen s r h; simp [attrStep, h])

theorem steps_xorRelayed (x : Msg) (a : Addr) (hwf : a.WF) (hx : x.xorRelayed = {}) (hid : x.id.length = 12) :
    StepsTo (encAddr Stun.xorRelayedAddress a (some x.id)) x { x with xorRelayed := a } :=
  steps_addr _ (some x.id) x _ a hwf (by decide) (by intro id h; cases h; exact hid) (by intro h; rw [h, ← hx])
    (by intro H buf key done aLen s r h; simp [attrStep, h])

/-- the message object after the header has been read -/
def afterHeader (m : Msg) : Msg := { Msg.fresh with type := m.type, cookie := m.cookie, id := m.id }

/-- the whole attribute section written by `encodeRaw` is consumed by the loop and rebuilds `view m` -/
theorem steps_body (m : Msg) (h : WFFields m) : StepsTo (body m) (afterHeader m) (view m) := by
  have s := steps_mapped (afterHeader m) m.mapped h.mapped (by rfl)
  have s := s.append (steps_changeRequest _ m.changeRequest h.changeRequest (by rfl))
  have s := s.append (steps_source _ m.source h.source (by rfl))
  have s := s.append (steps_changed _ m.changed h.changed (by rfl))
  have s := s.append (steps_other _ m.other h.other (by rfl))
  have s := s.append (steps_xorMapped _ m.xorMapped h.xorMapped (by rfl) h.id)
  have s := s.append (steps_xorPeer _ m.xorPeer h.xorPeer (by rfl) h.id)
  have s := s.append (steps_xorRelayed _ m.xorRelayed h.xorRelayed (by rfl) h.id)
  have s := s.append (steps_error _ m h.errLo h.errHi h.errNone (by rfl) (by rfl))
  have s := s.append (steps_priority _ m.priority h.priority (by rfl))
  have s := s.append (steps_useCandidate _ m.useCandidate (by rfl))
  have s := s.append (steps_channelNumber _ m.channelNumber h.channelNumber (by rfl))
  have s := s.append (steps_data _ m.data (by rfl))
  have s := s.append (steps_lifetime _ m.lifetime h.lifetime (by rfl))
  have s := s.append (steps_nonce _ m.nonce (by rfl))
  have s := s.append (steps_realm _ m.realm (by rfl))
  have s := s.append (steps_requestedTransport _ m.requestedTransport h.requestedTransport (by rfl))
  have s := s.append (steps_reservationToken _ m.reservationToken h.reservationToken (by rfl))
  have s := s.append (steps_software _ m.software (by rfl))
  have s := s.append (steps_username _ m.username (by rfl))
  have s := s.append (steps_ice _ m h.iceControlling h.iceControlled (by rfl) (by rfl))
  have e : ∀ y, StepsTo (body m) (afterHeader m) y → y = view m → StepsTo (body m) (afterHeader m) (view m) :=
    fun y hy e => e ▸ hy
  exact e _ s (by cases m; rfl)


/-! ## the packet as a whole -/

/-- header with length field `L`, followed by the attribute section of `m` -/
def framed (m : Msg) (L : Nat) : Bytes := putU16 m.type ++ (putU16 L ++ (putU32 m.cookie ++ (m.id ++ body m)))

theorem framed_len (m : Msg) (L : Nat) (hid : m.id.length = 12) : (framed m L).length = 20 + (body m).length := by
  simp [framed, putU16_len, putU32_len, hid]; omega

theorem setLen_framed (m : Msg) (L L' : Nat) (r : Bytes) : setLen (framed m L ++ r) L' = framed m L' ++ r := by
  simp [setLen, framed, putU16]

theorem plain_eq (m : Msg) (hid : m.id.length = 12) : plain m = framed m (body m).length := by
  have e : header m ++ body m = framed m 0 := by simp [header, framed, List.append_assoc]
  have := setLen_framed m 0 ((framed m 0).length - Stun.headerSize) []
  simp only [List.append_nil] at this
  rw [plain, e, this, framed_len m 0 hid]
  simp [Stun.headerSize]

theorem take_framed (m : Msg) (L : Nat) (r : Bytes) (hid : m.id.length = 12) :
    (framed m L ++ r).take (Stun.headerSize + (body m).length) = framed m L := by
  rw [List.take_append_of_le_length (by rw [framed_len m L hid]; simp [Stun.headerSize])]
  apply List.take_of_length_le; rw [framed_len m L hid]; simp [Stun.headerSize]

/-- decoding a packet that consists of a 20-byte header with the right length and a section `S` -/
theorem decodeX_framed (H : Bytes → Bytes) (m : Msg) (L : Nat) (r key : Bytes) (ht : m.type < 65536)
    (hc : m.cookie < 4294967296) (hid : m.id.length = 12) (hL : L < 65536) (hLr : L = (body m).length + r.length) :
    decodeX H (framed m L ++ r) key = loop H (framed m L ++ r) key L 0 (body m ++ r) (afterHeader m) none := by
  have hlen : (framed m L ++ r).length = 20 + L := by
    rw [List.length_append, framed_len m L hid]; omega
  have e := rdResize_append (zeros 12) m.id (body m ++ r)
  rw [hid] at e
  unfold decodeX decodeFrom
  rw [hlen]
  simp only [framed, List.append_assoc, rdU16_put _ _ ht, rdU16_put _ _ hL, rdU32_put _ _ hc]
  simp [Stun.headerSize, Msg.fresh, Stun.idSize, zeros, afterHeader] at e ⊢
  simp [e]
  intro h; omega

theorem crcCode_lt (bs : Bytes) : crcCode bs < 4294967296 := by
  unfold crcCode; exact UInt32.toNat_lt _

theorem fingerprintOf_lt (bs : Bytes) : fingerprintOf bs < 4294967296 :=
  Nat.xor_lt_two_pow (n := 32) (crcCode_lt bs) (by decide)

theorem attrStep_fp (H : Bytes → Bytes) (buf key : Bytes) (done aLen : Nat) (s : Bytes) (m : Msg) (mi : Option Nat) :
    attrStep H buf key done Stun.fingerprint aLen s m mi = stepFP buf done aLen s m := by
  unfold attrStep
  simp only [Stun.fingerprint, Stun.priority, Stun.errorCode, Stun.useCandidate, Stun.channelNumber, Stun.dataAttr,
    Stun.lifetime, Stun.nonce, Stun.realm, Stun.requestedTransport, Stun.reservationToken, Stun.software, Stun.username,
    Stun.mappedAddress, Stun.changeRequest, Stun.sourceAddress, Stun.changedAddress, Stun.otherAddress,
    Stun.xorMappedAddress, Stun.xorPeerAddress, Stun.xorRelayedAddress, Stun.messageIntegrity, Nat.reduceEqDiff,
    if_false, if_true]

theorem attrStep_mi (H : Bytes → Bytes) (buf key : Bytes) (done aLen : Nat) (s : Bytes) (m : Msg) (mi : Option Nat) :
    attrStep H buf key done Stun.messageIntegrity aLen s m mi = stepMI H buf key done aLen s m := by
  unfold attrStep
  simp only [Stun.priority, Stun.errorCode, Stun.useCandidate, Stun.channelNumber, Stun.dataAttr,
    Stun.lifetime, Stun.nonce, Stun.realm, Stun.requestedTransport, Stun.reservationToken, Stun.software, Stun.username,
    Stun.mappedAddress, Stun.changeRequest, Stun.sourceAddress, Stun.changedAddress, Stun.otherAddress,
    Stun.xorMappedAddress, Stun.xorPeerAddress, Stun.xorRelayedAddress, Stun.messageIntegrity, Nat.reduceEqDiff,
    if_false, if_true]

/-- the loop in front of a MESSAGE-INTEGRITY attribute whose value is the code's HMAC of the adjusted prefix -/
theorem loop_mi (H : Bytes → Bytes) (buf key : Bytes) (len done : Nat) (mac rest : Bytes) (y : Msg) (hlt : done < len) (hb : done + 24 ≤ len)
    (hmac : mac = hmacCode H 64 key (setLen (buf.take (Stun.headerSize + done)) (done + Stun.miAdjust)))
    (hl : mac.length = 20) :
    loop H buf key len done (putU16 Stun.messageIntegrity ++ (putU16 20 ++ (mac ++ rest))) y none
      = loop H buf key len (done + 24) rest y (some done) := by
  rw [loop]
  have e := rdRaw_append mac rest
  rw [hl] at e
  have hp : pad4 20 = 0 := by decide
  have hb' : ¬ (done + 4 + 20 > len) := by omega
  simp only [hlt, dite_true, rdU16_put _ _ (show Stun.messageIntegrity < 65536 by decide),
    rdU16_put _ _ (show 20 < 65536 by decide), hb', Option.isSome_none, Bool.false_eq_true, false_and, if_false,
    attrStep_mi, stepMI, e, ← hmac, ne_eq, not_true_eq_false, and_false, hp, Nat.add_zero, List.drop_zero]


/-- the loop in front of a FINGERPRINT attribute whose value is the code's CRC of the adjusted prefix -/
theorem loop_fp (H : Bytes → Bytes) (buf key : Bytes) (len done v : Nat) (rest : Bytes) (y : Msg) (mi : Option Nat)
    (hlt : done < len) (hb : done + 8 ≤ len)
    (hv : v = fingerprintOf (setLen (buf.take (Stun.headerSize + done)) (done + Stun.fpAdjust))) :
    loop H buf key len done (putU16 Stun.fingerprint ++ (putU16 4 ++ (putU32 v ++ rest))) y mi
      = some ⟨y, mi, some done⟩ := by
  rw [loop]
  have hvl : v < 4294967296 := by rw [hv]; exact fingerprintOf_lt _
  have hb' : ¬ (done + 4 + 4 > len) := by omega
  simp only [hlt, dite_true, rdU16_put _ _ (show Stun.fingerprint < 65536 by decide),
    rdU16_put _ _ (show 4 < 65536 by decide), hb', if_false, attrStep_fp, stepFP, rdU32_put _ _ hvl, ← hv, ne_eq, not_true_eq_false,
    and_false, if_false]


/-- the MESSAGE-INTEGRITY attribute `encodeRaw` appends under key `k` -/
def miAttr (H : Bytes → Bytes) (m : Msg) (k : Bytes) : Bytes :=
  putU16 Stun.messageIntegrity ++ (putU16 20 ++ hmacCode H 64 k (framed m ((body m).length + 24)))

/-- the FINGERPRINT attribute `encodeRaw` appends to `pre` -/
def fpAttr (pre : Bytes) : Bytes := putU16 Stun.fingerprint ++ (putU16 4 ++ putU32 (fingerprintOf pre))

theorem hmacCode_len (H : Bytes → Bytes) (hH : ∀ x, (H x).length = 20) (B : Nat) (k t : Bytes) :
    (hmacCode H B k t).length = 20 := by unfold hmacCode; exact hH _

theorem miAttr_len (H : Bytes → Bytes) (hH : ∀ x, (H x).length = 20) (m : Msg) (k : Bytes) :
    (miAttr H m k).length = 24 := by
  simp [miAttr, putU16_len, hmacCode_len H hH]

theorem fpAttr_len (pre : Bytes) : (fpAttr pre).length = 8 := by simp [fpAttr, putU16_len, putU32_len]

/-- the four shapes of `encodeRaw`'s output -/
theorem encode_nokey_nofp (H : Bytes → Bytes) (m : Msg) (hid : m.id.length = 12) :
    encodeRaw H m [] false = framed m (body m).length := by
  simp [encodeRaw, withFP, withMI, plain_eq m hid]

theorem encode_nokey_fp (H : Bytes → Bytes) (m : Msg) (hid : m.id.length = 12) :
    encodeRaw H m [] true = framed m ((body m).length + 8) ++ fpAttr (framed m ((body m).length + 8)) := by
  have e := setLen_framed m (body m).length ((body m).length + 8) []
  simp only [List.append_nil] at e
  simp [encodeRaw, withFP, withMI, plain_eq m hid, fpInput, framed_len m _ hid, Stun.headerSize, Stun.fpAdjust, e, fpAttr]

theorem encode_key_nofp (H : Bytes → Bytes) (hH : ∀ x, (H x).length = 20) (m : Msg) (k : Bytes) (hk : k ≠ [])
    (hid : m.id.length = 12) :
    encodeRaw H m k false = framed m ((body m).length + 24) ++ miAttr H m k := by
  have e := setLen_framed m (body m).length ((body m).length + 24) []
  simp only [List.append_nil] at e
  simp [encodeRaw, withFP, withMI, hk, plain_eq m hid, miInput, framed_len m _ hid, Stun.headerSize, Stun.miAdjust, e, miAttr,
    hmacCode_len H hH]

theorem encode_key_fp (H : Bytes → Bytes) (hH : ∀ x, (H x).length = 20) (m : Msg) (k : Bytes) (hk : k ≠ [])
    (hid : m.id.length = 12) :
    encodeRaw H m k true = (framed m ((body m).length + 32) ++ miAttr H m k) ++
      fpAttr (framed m ((body m).length + 32) ++ miAttr H m k) := by
  have e1 := encode_key_nofp H hH m k hk hid
  unfold encodeRaw at e1 ⊢
  simp only [withFP, Bool.false_eq_true, if_false] at e1
  have e := setLen_framed m ((body m).length + 24) ((body m).length + 32) (miAttr H m k)
  have hl : (framed m ((body m).length + 24) ++ miAttr H m k).length - Stun.headerSize + Stun.fpAdjust = (body m).length + 32 := by
    simp [framed_len m _ hid, miAttr_len H hH, Stun.headerSize, Stun.fpAdjust]; omega
  simp only [withFP, if_true, e1, fpInput, hl, e, fpAttr, List.append_assoc]


theorem take_all_append (a b : Bytes) (n : Nat) (h : n = a.length) : (a ++ b).take n = a := by
  subst h; simp

/-- decode ∘ encodeRaw with the verification trace -/
theorem decodeX_encode_fields (H : Bytes → Bytes) (hH : ∀ x, (H x).length = 20) (m : Msg) (h : WFFields m) (k : Bytes)
    (fp : Bool) (hfit : (body m).length + (if k = [] then 0 else 24) + (if fp then 8 else 0) < 65536) :
    decodeX H (encodeRaw H m k fp) k =
      some ⟨view m, if k = [] then none else some (body m).length,
        if fp then some ((body m).length + (if k = [] then 0 else 24)) else none⟩ := by
  have hid := h.id
  by_cases hk : k = []
  · subst hk
    cases fp with
    | false =>
      simp at hfit
      rw [encode_nokey_nofp H m hid]
      have e := decodeX_framed H m (body m).length [] [] h.type h.cookie hid (by omega) (by simp)
      simp only [List.append_nil] at e
      rw [e]
      have s := steps_body m h H (framed m (body m).length) [] (body m).length 0 [] (by omega) (by simp)
      simp only [List.append_nil] at s
      rw [s, loop_done _ _ _ _ _ _ _ _ (by omega)]
      simp
    | true =>
      simp at hfit
      rw [encode_nokey_fp H m hid]
      generalize hb : framed m ((body m).length + 8) ++ fpAttr (framed m ((body m).length + 8)) = buf
      have e := decodeX_framed H m ((body m).length + 8) (fpAttr (framed m ((body m).length + 8))) [] h.type h.cookie hid
        (by omega) (by rw [fpAttr_len])
      rw [hb] at e
      rw [e]
      have s := steps_body m h H buf [] ((body m).length + 8) 0 (fpAttr (framed m ((body m).length + 8))) (by omega)
        (by simp [fpAttr_len])
      rw [s]
      have hv : fingerprintOf (framed m ((body m).length + 8)) =
          fingerprintOf (setLen (buf.take (Stun.headerSize + (0 + (body m).length))) (0 + (body m).length + Stun.fpAdjust)) := by
        rw [← hb, Nat.zero_add, take_framed m _ _ hid]
        have := setLen_framed m ((body m).length + 8) ((body m).length + Stun.fpAdjust) []
        simp only [List.append_nil] at this
        rw [this]; rfl
      have l := loop_fp H buf [] ((body m).length + 8) (0 + (body m).length) _ [] (view m) none (by omega) (by omega) hv
      simp only [List.append_nil] at l
      unfold fpAttr
      rw [l]
      simp
  · cases fp with
    | false =>
      simp [hk] at hfit
      rw [encode_key_nofp H hH m k hk hid]
      generalize hb : framed m ((body m).length + 24) ++ miAttr H m k = buf
      have e := decodeX_framed H m ((body m).length + 24) (miAttr H m k) k h.type h.cookie hid
        (by omega) (by rw [miAttr_len H hH])
      rw [hb] at e
      rw [e]
      have s := steps_body m h H buf k ((body m).length + 24) 0 (miAttr H m k) (by omega) (by simp [miAttr_len H hH])
      rw [s]
      have hm : hmacCode H 64 k (framed m ((body m).length + 24)) =
          hmacCode H 64 k (setLen (buf.take (Stun.headerSize + (0 + (body m).length))) (0 + (body m).length + Stun.miAdjust)) := by
        rw [← hb, Nat.zero_add, take_framed m _ _ hid]
        have := setLen_framed m ((body m).length + 24) ((body m).length + Stun.miAdjust) []
        simp only [List.append_nil] at this
        rw [this]; rfl
      have l := loop_mi H buf k ((body m).length + 24) (0 + (body m).length) _ [] (view m) (by omega) (by omega) hm
        (hmacCode_len H hH _ _ _)
      simp only [List.append_nil] at l
      unfold miAttr
      rw [l, loop_done _ _ _ _ _ _ _ _ (by omega)]
      simp [hk]
    | true =>
      simp [hk] at hfit
      rw [encode_key_fp H hH m k hk hid]
      generalize hb : (framed m ((body m).length + 32) ++ miAttr H m k) ++
        fpAttr (framed m ((body m).length + 32) ++ miAttr H m k) = buf
      have hb' : framed m ((body m).length + 32) ++ (miAttr H m k ++
        fpAttr (framed m ((body m).length + 32) ++ miAttr H m k)) = buf := by rw [← hb, List.append_assoc]
      have e := decodeX_framed H m ((body m).length + 32)
        (miAttr H m k ++ fpAttr (framed m ((body m).length + 32) ++ miAttr H m k)) k h.type h.cookie hid
        (by omega) (by simp [miAttr_len H hH, fpAttr_len])
      rw [hb'] at e
      rw [e]
      have s := steps_body m h H buf k ((body m).length + 32) 0
        (miAttr H m k ++ fpAttr (framed m ((body m).length + 32) ++ miAttr H m k)) (by omega)
        (by simp [miAttr_len H hH, fpAttr_len])
      rw [s]
      have hm : hmacCode H 64 k (framed m ((body m).length + 24)) =
          hmacCode H 64 k (setLen (buf.take (Stun.headerSize + (0 + (body m).length))) (0 + (body m).length + Stun.miAdjust)) := by
        rw [← hb', Nat.zero_add, take_framed m _ _ hid]
        have := setLen_framed m ((body m).length + 32) ((body m).length + Stun.miAdjust) []
        simp only [List.append_nil] at this
        rw [this]; rfl
      have l := loop_mi H buf k ((body m).length + 32) (0 + (body m).length) _
        (fpAttr (framed m ((body m).length + 32) ++ miAttr H m k)) (view m) (by omega) (by omega) hm (hmacCode_len H hH _ _ _)
      have hmi : miAttr H m k ++ fpAttr (framed m ((body m).length + 32) ++ miAttr H m k) =
          putU16 Stun.messageIntegrity ++ (putU16 20 ++ (hmacCode H 64 k (framed m ((body m).length + 24)) ++
            fpAttr (framed m ((body m).length + 32) ++ miAttr H m k))) := by
        simp [miAttr, List.append_assoc]
      rw [hmi, l]
      have hv : fingerprintOf (framed m ((body m).length + 32) ++ miAttr H m k) =
          fingerprintOf (setLen (buf.take (Stun.headerSize + (0 + (body m).length + 24)))
            (0 + (body m).length + 24 + Stun.fpAdjust)) := by
        rw [← hb, take_all_append _ _ _ (by simp [framed_len m _ hid, miAttr_len H hH, Stun.headerSize]; omega),
          setLen_framed]
        simp [Stun.fpAdjust]; 
      have l2 := loop_fp H buf k ((body m).length + 32) (0 + (body m).length + 24) _ [] (view m) (some (0 + (body m).length))
        (by omega) (by omega) hv
      simp only [List.append_nil] at l2
      unfold fpAttr
      rw [l2]
      simp [hk]

/-! ## what an accepting decode has verified -/

theorem rdU8_snd (s : Bytes) : (rdU8 s).2 = s.drop 1 := by
  cases s <;> rfl
theorem rdU16_snd (s : Bytes) : (rdU16 s).2 = s.drop 2 := by
  match s with
  | [] => rfl
  | [_] => rfl
  | _ :: _ :: _ => rfl
theorem rdU32_snd (s : Bytes) : (rdU32 s).2 = s.drop 4 := by
  match s with
  | [] => rfl
  | [_] => rfl
  | [_, _] => rfl
  | [_, _, _] => rfl
  | _ :: _ :: _ :: _ :: _ => rfl
theorem rdRaw_snd (n : Nat) (s : Bytes) : (rdRaw n s).2 = s.drop n := rfl
theorem rdResize_snd (o : Bytes) (n : Nat) (s : Bytes) : (rdResize o n s).2 = s.drop n := rfl

def AddrOK (s : Bytes) (aLen : Nat) : Option (Addr × Bytes) → Prop
  | some (_, r) => r = s.drop aLen
  | none => True

theorem decAddr_ok (aLen : Nat) (s : Bytes) (xid : Option Bytes) : AddrOK s aLen (decAddr aLen s xid) := by
  unfold decAddr
  cases xid <;>
  · simp only []
    repeat' split
    all_goals simp_all [AddrOK, rdU8_snd, rdU16_snd, rdU32_snd, rdRaw_snd, List.drop_drop]

/-- an ordinary attribute: fails, or goes on having consumed exactly `aLen` bytes (or whatever was left) and
leaving `after_integrity` alone; it never ends the parse -/
def Plain (s : Bytes) (aLen : Nat) (mi : Option Nat) : Step → Prop
  | .fail => True
  | .accept _ _ => False
  | .next s' _ mi' => s' = s.drop aLen ∧ mi' = mi

theorem stepU32_plain (set : Msg → Nat → Msg) (aLen : Nat) (s : Bytes) (m : Msg) (mi : Option Nat) :
    Plain s aLen mi (stepU32 set aLen s m mi) := by
  unfold stepU32; split <;> simp_all [Plain, rdU32_snd]
theorem stepError_plain (aLen : Nat) (s : Bytes) (m : Msg) (mi : Option Nat) :
    Plain s aLen mi (stepError aLen s m mi) := by
  unfold stepError; split
  · simp [Plain]
  · simp only [Plain, rdRaw_snd, rdU8_snd, rdU16_snd, List.drop_drop, and_true]
    congr 1; omega
theorem stepFlag_plain (aLen : Nat) (s : Bytes) (m : Msg) (mi : Option Nat) :
    Plain s aLen mi (stepFlag aLen s m mi) := by
  unfold stepFlag; split <;> simp_all [Plain]
theorem stepChannel_plain (aLen : Nat) (s : Bytes) (m : Msg) (mi : Option Nat) :
    Plain s aLen mi (stepChannel aLen s m mi) := by
  unfold stepChannel; split <;> simp_all [Plain, rdU16_snd, List.drop_drop]
theorem stepTransport_plain (aLen : Nat) (s : Bytes) (m : Msg) (mi : Option Nat) :
    Plain s aLen mi (stepTransport aLen s m mi) := by
  unfold stepTransport; split <;> simp_all [Plain, rdU8_snd]
theorem stepBlob_plain (old : Bytes) (set : Msg → Bytes → Msg) (aLen : Nat) (s : Bytes) (m : Msg) (mi : Option Nat) :
    Plain s aLen mi (stepBlob old set aLen s m mi) := by
  simp [stepBlob, Plain, rdResize_snd]
theorem stepFixed8_plain (old : Bytes) (set : Msg → Bytes → Msg) (aLen : Nat) (s : Bytes) (m : Msg) (mi : Option Nat) :
    Plain s aLen mi (stepFixed8 old set aLen s m mi) := by
  unfold stepFixed8; split <;> simp_all [Plain, rdResize_snd]
theorem stepStr_plain (set : Msg → Bytes → Msg) (aLen : Nat) (s : Bytes) (m : Msg) (mi : Option Nat) :
    Plain s aLen mi (stepStr set aLen s m mi) := by
  simp [stepStr, Plain, rdRaw_snd]
theorem stepAddr_plain (xid : Option Bytes) (set : Msg → Addr → Msg) (aLen : Nat) (s : Bytes) (m : Msg) (mi : Option Nat) :
    Plain s aLen mi (stepAddr xid set aLen s m mi) := by
  have h := decAddr_ok aLen s xid
  unfold stepAddr
  cases hd : decAddr aLen s xid with
  | none => simp [Plain]
  | some r =>
    rw [hd] at h
    obtain ⟨a, r⟩ := r
    simpa [Plain, AddrOK] using h

theorem pred_ite (P : Step → Prop) (c : Prop) [Decidable c] (a b : Step) (ha : c → P a) (hb : ¬ c → P b) :
    P (if c then a else b) := by
  split
  · exact ha ‹_›
  · exact hb ‹_›

/-- every attribute other than MESSAGE-INTEGRITY and FINGERPRINT is `Plain` -/
theorem attrStep_plain (H : Bytes → Bytes) (buf key : Bytes) (done ty aLen : Nat) (s : Bytes) (m : Msg)
    (mi : Option Nat) (hmi : ty ≠ Stun.messageIntegrity) (hfp : ty ≠ Stun.fingerprint) :
    Plain s aLen mi (attrStep H buf key done ty aLen s m mi) := by
  unfold attrStep
  refine pred_ite _ _ _ _ (fun _ => stepU32_plain _ _ _ _ _) (fun _ => ?_)
  refine pred_ite _ _ _ _ (fun _ => stepError_plain _ _ _ _) (fun _ => ?_)
  refine pred_ite _ _ _ _ (fun _ => stepFlag_plain _ _ _ _) (fun _ => ?_)
  refine pred_ite _ _ _ _ (fun _ => stepChannel_plain _ _ _ _) (fun _ => ?_)
  refine pred_ite _ _ _ _ (fun _ => stepBlob_plain _ _ _ _ _ _) (fun _ => ?_)
  refine pred_ite _ _ _ _ (fun _ => stepU32_plain _ _ _ _ _) (fun _ => ?_)
  refine pred_ite _ _ _ _ (fun _ => stepBlob_plain _ _ _ _ _ _) (fun _ => ?_)
  refine pred_ite _ _ _ _ (fun _ => stepStr_plain _ _ _ _ _) (fun _ => ?_)
  refine pred_ite _ _ _ _ (fun _ => stepTransport_plain _ _ _ _) (fun _ => ?_)
  refine pred_ite _ _ _ _ (fun _ => stepFixed8_plain _ _ _ _ _ _) (fun _ => ?_)
  refine pred_ite _ _ _ _ (fun _ => stepStr_plain _ _ _ _ _) (fun _ => ?_)
  refine pred_ite _ _ _ _ (fun _ => stepStr_plain _ _ _ _ _) (fun _ => ?_)
  refine pred_ite _ _ _ _ (fun _ => stepAddr_plain _ _ _ _ _ _) (fun _ => ?_)
  refine pred_ite _ _ _ _ (fun _ => stepU32_plain _ _ _ _ _) (fun _ => ?_)
  refine pred_ite _ _ _ _ (fun _ => stepAddr_plain _ _ _ _ _ _) (fun _ => ?_)
  refine pred_ite _ _ _ _ (fun _ => stepAddr_plain _ _ _ _ _ _) (fun _ => ?_)
  refine pred_ite _ _ _ _ (fun _ => stepAddr_plain _ _ _ _ _ _) (fun _ => ?_)
  refine pred_ite _ _ _ _ (fun _ => stepAddr_plain _ _ _ _ _ _) (fun _ => ?_)
  refine pred_ite _ _ _ _ (fun _ => stepAddr_plain _ _ _ _ _ _) (fun _ => ?_)
  refine pred_ite _ _ _ _ (fun _ => stepAddr_plain _ _ _ _ _ _) (fun _ => ?_)
  refine pred_ite _ _ _ _ (fun h => absurd h hmi) (fun _ => ?_)
  refine pred_ite _ _ _ _ (fun h => absurd h hfp) (fun _ => ?_)
  refine pred_ite _ _ _ _ (fun _ => stepFixed8_plain _ _ _ _ _ _) (fun _ => ?_)
  refine pred_ite _ _ _ _ (fun _ => stepFixed8_plain _ _ _ _ _ _) (fun _ => ?_)
  exact ⟨rfl, rfl⟩

/-- MESSAGE-INTEGRITY: goes on only with 20 bytes that equal the code's HMAC of the adjusted prefix (unless the key is empty) -/
theorem stepMI_next (H : Bytes → Bytes) (buf key : Bytes) (done aLen : Nat) (s : Bytes) (m : Msg)
    (s' : Bytes) (m' : Msg) (mi' : Option Nat) (h : stepMI H buf key done aLen s m = .next s' m' mi') :
    aLen = 20 ∧ s' = s.drop aLen ∧ mi' = some done ∧
      (key ≠ [] → (rdRaw 20 s).1 = hmacCode H 64 key (setLen (buf.take (Stun.headerSize + done)) (done + Stun.miAdjust))) := by
  simp only [stepMI] at h
  split at h
  · contradiction
  · rename_i h20
    have h20 : aLen = 20 := by simpa using h20
    split at h
    · contradiction
    · rename_i hc
      simp only [Step.next.injEq] at h
      refine ⟨h20, ?_, h.2.2.symm, ?_⟩
      · rw [← h.1, h20]; rfl
      · intro hk
        by_cases he : (rdRaw 20 s).1 = hmacCode H 64 key (setLen (buf.take (Stun.headerSize + done)) (done + Stun.miAdjust))
        · exact he
        · exact absurd ⟨hk, he⟩ hc

theorem stepMI_not_accept (H : Bytes → Bytes) (buf key : Bytes) (done aLen : Nat) (s : Bytes) (m m' : Msg) (d : Nat) :
    stepMI H buf key done aLen s m ≠ .accept m' d := by
  simp only [stepMI]
  split
  · simp
  · split <;> simp

/-- FINGERPRINT: never goes on; accepts only when the 32 bits equal the code's CRC of the adjusted prefix -/
theorem stepFP_accept (buf : Bytes) (done aLen : Nat) (s : Bytes) (m m' : Msg) (d : Nat)
    (h : stepFP buf done aLen s m = .accept m' d) :
    d = done ∧ m' = m ∧
      (rdU32 s).1 = fingerprintOf (setLen (buf.take (Stun.headerSize + done)) (done + Stun.fpAdjust)) := by
  simp only [stepFP] at h
  split at h
  · contradiction
  · split at h
    · contradiction
    · rename_i hc
      simp only [Step.accept.injEq] at h
      exact ⟨h.2.symm, h.1.symm, by simpa using hc⟩

theorem stepFP_not_next (buf : Bytes) (done aLen : Nat) (s : Bytes) (m : Msg) (s' : Bytes) (m' : Msg) (mi' : Option Nat) :
    stepFP buf done aLen s m ≠ .next s' m' mi' := by
  simp only [stepFP]
  split
  · simp
  · split <;> simp

/-- decode ∘ encode with the verification trace, for messages inside `WFMsg` -/
theorem decodeX_encode (H : Bytes → Bytes) (hH : ∀ x, (H x).length = 20) (m : Msg) (h : WFMsg m) (k : Bytes) (fp : Bool) :
    decodeX H (encodeRaw H m k fp) k =
      some ⟨view m, if k = [] then none else some (body m).length,
        if fp then some ((body m).length + (if k = [] then 0 else 24)) else none⟩ :=
  decodeX_encode_fields H hH m h.toWFFields k fp (by have := h.size; split <;> split <;> omega)

/-- what the loop guarantees about the trace it returns, given that the stream is the rest of the packet -/
theorem loop_verified (H : Bytes → Bytes) (buf key : Bytes) (len : Nat) :
    ∀ (n done : Nat) (s : Bytes) (m : Msg) (mi : Option Nat) (d : Decoded),
      len - done = n → s = buf.drop (Stun.headerSize + done) → loop H buf key len done s m mi = some d →
      (∀ off, d.miAt = some off → mi = some off ∨
          ((rdU16 (buf.drop (Stun.headerSize + off))).1 = Stun.messageIntegrity ∧
           (rdU16 (rdU16 (buf.drop (Stun.headerSize + off))).2).1 = 20 ∧
           (key ≠ [] → miValueAt buf off = hmacCode H 64 key (miInputAt buf off)))) ∧
      (∀ off, d.fpAt = some off → fpValueAt buf off = fingerprintOf (fpInputAt buf off)) := by
  intro n
  induction n using Nat.strongRecOn with
  | ind n ih =>
    intro done s m mi d hn hs h
    rw [loop] at h
    by_cases hlt : done < len
    · simp only [hlt, dite_true] at h
      have hs1 : (rdU16 (rdU16 s).2).2 = buf.drop (Stun.headerSize + done + 4) := by
        rw [rdU16_snd, rdU16_snd, hs, List.drop_drop, List.drop_drop]
      by_cases hbound : done + 4 + (rdU16 (rdU16 s).2).1 > len
      · rw [if_pos hbound] at h; contradiction
      rw [if_neg hbound] at h
      by_cases hskip : mi.isSome = true ∧ (rdU16 s).1 ≠ Stun.fingerprint
      · rw [if_pos hskip] at h
        have := ih (len - (done + (4 + (rdU16 (rdU16 s).2).1 + pad4 (rdU16 (rdU16 s).2).1))) (by omega) _ _ m mi d rfl
          (by rw [hs1, List.drop_drop]; congr 1; simp only [Stun.headerSize]; omega) h
        exact this
      · rw [if_neg hskip] at h
        cases hstep : attrStep H buf key done (rdU16 s).1 (rdU16 (rdU16 s).2).1 (rdU16 (rdU16 s).2).2 m mi with
        | fail => rw [hstep] at h; simp at h
        | accept m' d0 =>
          rw [hstep] at h
          simp only [Option.some.injEq] at h
          subst h
          refine ⟨fun off ho => Or.inl ho, fun off ho => ?_⟩
          simp only [Option.some.injEq] at ho
          by_cases hfp : (rdU16 s).1 = Stun.fingerprint
          · rw [hfp, attrStep_fp] at hstep
            obtain ⟨h1, _, h3⟩ := stepFP_accept _ _ _ _ _ _ _ hstep
            subst ho; subst h1
            rw [hs1] at h3
            exact h3
          · by_cases hmi : (rdU16 s).1 = Stun.messageIntegrity
            · rw [hmi, attrStep_mi] at hstep
              exact absurd hstep (stepMI_not_accept _ _ _ _ _ _ _ _ _)
            · have := attrStep_plain H buf key done _ (rdU16 (rdU16 s).2).1 (rdU16 (rdU16 s).2).2 m mi hmi hfp
              rw [hstep] at this
              exact absurd this (by simp [Plain])
        | next s' m' mi' =>
          rw [hstep] at h
          simp only at h
          have hdrop : s' = (rdU16 (rdU16 s).2).2.drop (rdU16 (rdU16 s).2).1 ∧
              (mi' = mi ∨ (mi' = some done ∧
                (rdU16 (buf.drop (Stun.headerSize + done))).1 = Stun.messageIntegrity ∧
                (rdU16 (rdU16 (buf.drop (Stun.headerSize + done))).2).1 = 20 ∧
                (key ≠ [] → miValueAt buf done = hmacCode H 64 key (miInputAt buf done)))) := by
            by_cases hfp : (rdU16 s).1 = Stun.fingerprint
            · rw [hfp, attrStep_fp] at hstep
              exact absurd hstep (stepFP_not_next _ _ _ _ _ _ _ _)
            · by_cases hmi : (rdU16 s).1 = Stun.messageIntegrity
              · rw [hmi, attrStep_mi] at hstep
                obtain ⟨h20, h2, h3, h4⟩ := stepMI_next _ _ _ _ _ _ _ _ _ _ hstep
                refine ⟨h2, Or.inr ⟨h3, ?_, ?_, ?_⟩⟩
                · rw [← hs]; exact hmi
                · rw [← hs]; exact h20
                · rw [hs1] at h4
                  exact h4
              · have := attrStep_plain H buf key done _ (rdU16 (rdU16 s).2).1 (rdU16 (rdU16 s).2).2 m mi hmi hfp
                rw [hstep] at this
                exact ⟨this.1, Or.inl this.2⟩
          have ih' := ih (len - (done + (4 + (rdU16 (rdU16 s).2).1 + pad4 (rdU16 (rdU16 s).2).1))) (by omega) _ _ m' mi' d rfl
            (by rw [hdrop.1, hs1, List.drop_drop, List.drop_drop]; congr 1; simp only [Stun.headerSize]; omega) h
          refine ⟨fun off ho => ?_, ih'.2⟩
          rcases ih'.1 off ho with h1 | h1
          · rcases hdrop.2 with h2 | ⟨h2, h3⟩
            · left; rw [← h2]; exact h1
            · right
              rw [h2] at h1
              simp only [Option.some.injEq] at h1
              subst h1
              exact h3
          · exact Or.inr h1
    · simp only [hlt, dite_false, Option.some.injEq] at h
      subst h
      exact ⟨fun off ho => Or.inl ho, fun off ho => by simp at ho⟩


/-- an accepted packet: wherever the decoder met MESSAGE-INTEGRITY (under a non-empty key) the 20 bytes are the code's
HMAC of the protected prefix; wherever it returned at FINGERPRINT the 32 bits are the code's CRC value -/
theorem decodeX_verified (H : Bytes → Bytes) (buf key : Bytes) (d : Decoded) (h : decodeX H buf key = some d) :
    (∀ off, d.miAt = some off → key ≠ [] → miValueAt buf off = hmacCode H 64 key (miInputAt buf off)) ∧
    (∀ off, d.fpAt = some off → fpValueAt buf off = fingerprintOf (fpInputAt buf off)) := by
  unfold decodeX decodeFrom at h
  split at h
  · contradiction
  · simp only at h
    split at h
    · contradiction
    · have hs : (rdResize Msg.fresh.id Msg.fresh.id.length (rdU32 (rdU16 (rdU16 buf).2).2).2).2
          = buf.drop (Stun.headerSize + 0) := by
        rw [rdResize_snd, rdU32_snd, rdU16_snd, rdU16_snd, List.drop_drop, List.drop_drop, List.drop_drop]
        rfl
      have := loop_verified H buf key _ _ 0 _ _ none d rfl hs h
      refine ⟨fun off ho hk => ?_, this.2⟩
      rcases this.1 off ho with h1 | h1
      · simp at h1
      · exact h1.2.2 hk

/-! ## sample message, HMAC characterisation, defect witnesses -/

theorem wf_example : WFMsg exampleMsg := by
  refine { toWFFields := ?_, size := by decide +kernel }
  constructor <;> decide +kernel
theorem strs_example : StrsOK exampleMsg := by decide

theorem sha1_length (x : Bytes) : (sha1 x).length = 20 := by
  simp [sha1, Sha1.hash, Sha1.digestOf, ofU32be]

theorem optAll_map_qtStr (o : Option Bytes) (h : optAll o StrOK) : o.map qtStr = o := by
  cases o with
  | none => rfl
  | some v => simp only [Option.map_some]; congr 1

theorem view_eq_self (m : Msg) (h : StrsOK m) : view m = m := by
  obtain ⟨h1, h2, h3, h4⟩ := h
  unfold view
  rw [optAll_map_qtStr _ h2, optAll_map_qtStr _ h3, optAll_map_qtStr _ h4]
  have : qtStr m.errorPhrase = m.errorPhrase := h1
  rw [this]

theorem encode_congr_key (H : Bytes → Bytes) (m : Msg) (k k' : Bytes) (fp : Bool) (hk : k ≠ []) (hk' : k' ≠ [])
    (h : ∀ t, hmacCode H 64 k t = hmacCode H 64 k' t) : encodeRaw H m k fp = encodeRaw H m k' fp := by
  simp only [encodeRaw, withMI, hk, hk', if_false, h]

/-- the last turn of the loop: an attribute that `attrStep` lets pass and whose value ends where the body ends (up to
padding) ends the parse successfully — whatever it swallowed -/
theorem loop_last (H : Bytes → Bytes) (buf key : Bytes) (len done : Nat) (s : Bytes) (m : Msg)
    (s' : Bytes) (m' : Msg) (mi' : Option Nat) (hlt : done < len) (hb : done + 4 + (rdU16 (rdU16 s).2).1 ≤ len)
    (hstep : attrStep H buf key done (rdU16 s).1 (rdU16 (rdU16 s).2).1 (rdU16 (rdU16 s).2).2 m none = .next s' m' mi')
    (hover : len ≤ done + (4 + (rdU16 (rdU16 s).2).1 + pad4 (rdU16 (rdU16 s).2).1)) :
    loop H buf key len done s m none = some ⟨m', mi', none⟩ := by
  rw [loop]
  have hb' : ¬ (done + 4 + (rdU16 (rdU16 s).2).1 > len) := by omega
  simp only [hlt, dite_true, hb', Option.isSome_none, Bool.false_eq_true, false_and, if_false, hstep]
  exact loop_done _ _ _ _ _ _ _ _ (by omega)

theorem attrStep_username (H : Bytes → Bytes) (buf key : Bytes) (done aLen : Nat) (s : Bytes) (m : Msg) (mi : Option Nat) :
    attrStep H buf key done Stun.username aLen s m mi =
      stepStr (fun m v => { m with username := some v }) aLen s m mi := by
  unfold attrStep
  simp only [Stun.priority, Stun.errorCode, Stun.useCandidate, Stun.channelNumber, Stun.dataAttr,
    Stun.lifetime, Stun.nonce, Stun.realm, Stun.requestedTransport, Stun.reservationToken, Stun.software, Stun.username,
    Nat.reduceEqDiff, if_false, if_true]

theorem flipBit_append (a r : Bytes) (i : Nat) (h : i / 8 < a.length) : flipBit (a ++ r) i = flipBit a i ++ r := by
  unfold flipBit
  rw [List.set_append_left _ _ h]
  congr 3
  simp [List.getD_eq_getElem?_getD, List.getElem?_append_left h]

/-- Flipping bit 5 of byte 23 (the low byte of USERNAME's length field: 0 becomes 32) of the Binding *indication* encoded
under key `[1]` with fingerprint gives a packet that decodes successfully under the same key: the announced length swallows
exactly MESSAGE-INTEGRITY (24 bytes) and FINGERPRINT (8 bytes), the value still ends inside the body, and for the class
Indication (as for Error) `decode` does not require MESSAGE-INTEGRITY to be present. -/
theorem bitflip_accepted (H : Bytes → Bytes) (hH : ∀ x, (H x).length = 20) :
    (decode H (flipBit (encodeRaw H bitflipMsg [1] true) 189) [1]).isSome = true := by
  have hid : bitflipMsg.id.length = 12 := by decide
  rw [encode_key_fp H hH bitflipMsg [1] (by decide) hid, List.append_assoc]
  have hlenR : (miAttr H bitflipMsg [1] ++ fpAttr (framed bitflipMsg ((body bitflipMsg).length + 32) ++ miAttr H bitflipMsg [1])).length = 32 := by
    rw [List.length_append, miAttr_len H hH, fpAttr_len]
  generalize miAttr H bitflipMsg [1] ++ fpAttr (framed bitflipMsg ((body bitflipMsg).length + 32) ++ miAttr H bitflipMsg [1]) = R at hlenR
  have hP : framed bitflipMsg ((body bitflipMsg).length + 32) =
      [0, 17, 0, 36, 0x21, 0x12, 0xa4, 0x42, 0, 0, 0, 0, 0, 0, 0, 0, 0, 0, 0, 0, 0, 6, 0, 0] := by
    decide
  rw [hP, flipBit_append _ _ _ (by decide)]
  have hF : flipBit [0, 17, 0, 36, 0x21, 0x12, 0xa4, 0x42, 0, 0, 0, 0, 0, 0, 0, 0, 0, 0, 0, 0, 0, 6, 0, 0] 189 =
      [0, 17, 0, 36, 0x21, 0x12, 0xa4, 0x42, 0, 0, 0, 0, 0, 0, 0, 0, 0, 0, 0, 0, 0, 6, 0, 32] := by
    decide
  rw [hF]
  have hx : (decodeX H ([0, 17, 0, 36, 0x21, 0x12, 0xa4, 0x42, 0, 0, 0, 0, 0, 0, 0, 0, 0, 0, 0, 0, 0, 6, 0, 32] ++ R) [1]).isSome = true := by
    unfold decodeX decodeFrom
    simp only [List.cons_append, List.nil_append, List.length_cons, hlenR, Stun.headerSize]
    simp only [rdU16, rdU32, rdResize]
    simp [Msg.fresh, Stun.idSize, zeros]
    rw [loop_last H _ [1] 36 0 _ _ _ _ _ (by decide) (by show 0 + 4 + 32 ≤ 36; decide)
      (by show attrStep H _ [1] 0 Stun.username 32 _ _ none = _
          rw [attrStep_username]; rfl) (by show 36 ≤ 0 + (4 + 32 + pad4 32); decide)]
    rfl
  have hc : exemptClass (rdU16 ([0, 17, 0, 36, 0x21, 0x12, 0xa4, 0x42, 0, 0, 0, 0, 0, 0, 0, 0, 0, 0, 0, 0, 0, 6, 0, 32] ++ R)).1 = true := by
    show exemptClass 17 = true
    decide
  unfold decode
  cases hd : decodeX H ([0, 17, 0, 36, 0x21, 0x12, 0xa4, 0x42, 0, 0, 0, 0, 0, 0, 0, 0, 0, 0, 0, 0, 0, 6, 0, 32] ++ R) [1] with
  | none => rw [hd] at hx; simp at hx
  | some d => simp only [hc, or_true, if_true, Option.isSome_some]

/-! ## where MESSAGE-INTEGRITY and FINGERPRINT sit in an encoded packet -/

theorem drop_framed (m : Msg) (L : Nat) (r : Bytes) (hid : m.id.length = 12) :
    (framed m L ++ r).drop (Stun.headerSize + (body m).length) = r := by
  have : Stun.headerSize + (body m).length = (framed m L).length := by rw [framed_len m L hid]; rfl
  rw [this, List.drop_left]

/-- with a key, the four bytes at body offset `|body m|` are the MESSAGE-INTEGRITY header `00 08 00 14` -/
theorem encode_mi_header (H : Bytes → Bytes) (hH : ∀ x, (H x).length = 20) (m : Msg) (hid : m.id.length = 12)
    (k : Bytes) (hk : k ≠ []) (fp : Bool) :
    ((encodeRaw H m k fp).drop (Stun.headerSize + (body m).length)).take 4 =
      putU16 Stun.messageIntegrity ++ putU16 20 := by
  cases fp with
  | false => rw [encode_key_nofp H hH m k hk hid, drop_framed m _ _ hid]; rfl
  | true => rw [encode_key_fp H hH m k hk hid, List.append_assoc, drop_framed m _ _ hid]; rfl

/-- total length of an encoded packet -/
theorem encode_length (H : Bytes → Bytes) (hH : ∀ x, (H x).length = 20) (m : Msg) (hid : m.id.length = 12)
    (k : Bytes) (fp : Bool) :
    (encodeRaw H m k fp).length =
      Stun.headerSize + (body m).length + (if k = [] then 0 else 24) + (if fp then 8 else 0) := by
  by_cases hk : k = []
  · subst hk
    cases fp with
    | false => rw [encode_nokey_nofp H m hid, framed_len m _ hid]; simp [Stun.headerSize]
    | true => rw [encode_nokey_fp H m hid, List.length_append, framed_len m _ hid, fpAttr_len]; simp [Stun.headerSize]
  · cases fp with
    | false =>
      rw [encode_key_nofp H hH m k hk hid, List.length_append, framed_len m _ hid, miAttr_len H hH]
      simp [Stun.headerSize, hk]
    | true =>
      rw [encode_key_fp H hH m k hk hid, List.length_append, List.length_append, framed_len m _ hid, miAttr_len H hH,
        fpAttr_len]
      simp [Stun.headerSize, hk]

/-- the eight bytes of the FINGERPRINT attribute start with `80 28 00 04` -/
theorem encode_fp_header (H : Bytes → Bytes) (hH : ∀ x, (H x).length = 20) (m : Msg) (hid : m.id.length = 12)
    (k : Bytes) :
    ((encodeRaw H m k true).drop (Stun.headerSize + (body m).length + (if k = [] then 0 else 24))).take 4 =
      putU16 Stun.fingerprint ++ putU16 4 := by
  by_cases hk : k = []
  · subst hk
    rw [encode_nokey_fp H m hid]
    simp only [if_true, Nat.add_zero]
    rw [drop_framed m _ _ hid]; rfl
  · rw [encode_key_fp H hH m k hk hid]
    simp only [hk, if_false]
    have : Stun.headerSize + (body m).length + 24 = (framed m ((body m).length + 32) ++ miAttr H m k).length := by
      rw [List.length_append, framed_len m _ hid, miAttr_len H hH]; rfl
    rw [this, List.drop_left]; rfl

/-! ## accepted ⇒ every attribute lies inside the packet (since /repo commit df53ac0) -/

theorem tlvFitsGo_nil (fuel : Nat) : tlvFitsGo fuel [] = true := by
  cases fuel <;> rfl

/-- the loop only succeeds on a stream whose TLV walk fits -/
theorem loop_fits (H : Bytes → Bytes) (buf key : Bytes) (len : Nat) (hlen : len = buf.length - Stun.headerSize) :
    ∀ (n done : Nat) (s : Bytes) (m : Msg) (mi : Option Nat) (d : Decoded) (fuel : Nat),
      len - done = n → s = buf.drop (Stun.headerSize + done) → s.length ≤ fuel →
      loop H buf key len done s m mi = some d → tlvFitsGo fuel s = true := by
  intro n
  induction n using Nat.strongRecOn with
  | ind n ih =>
    intro done s m mi d fuel hn hs hfuel h
    rw [loop] at h
    have hsl : s.length = buf.length - (Stun.headerSize + done) := by rw [hs, List.length_drop]
    by_cases hlt : done < len
    · simp only [hlt, dite_true] at h
      have hs1 : (rdU16 (rdU16 s).2).2 = buf.drop (Stun.headerSize + done + 4) := by
        rw [rdU16_snd, rdU16_snd, hs, List.drop_drop, List.drop_drop]
      by_cases hbound : done + 4 + (rdU16 (rdU16 s).2).1 > len
      · rw [if_pos hbound] at h; contradiction
      rw [if_neg hbound] at h
      have hs4 : 4 + (rdU16 (rdU16 s).2).1 ≤ s.length := by rw [hsl]; simp only [Stun.headerSize] at hlen ⊢; omega
      have hr1 : (rdU16 (rdU16 s).2).2.length = s.length - 4 := by
        rw [rdU16_snd, rdU16_snd, List.drop_drop, List.length_drop]
      obtain ⟨f, rfl⟩ : ∃ f, fuel = f + 1 := ⟨fuel - 1, by omega⟩
      have hne : s ≠ [] := by intro h0; rw [h0] at hs4; simp at hs4
      have hgo : tlvFitsGo (f + 1) s =
          (if (rdU16 s).1 = Stun.fingerprint then true
           else tlvFitsGo f ((rdU16 (rdU16 s).2).2.drop ((rdU16 (rdU16 s).2).1 + pad4 (rdU16 (rdU16 s).2).1))) := by
        cases s with
        | nil => exact absurd rfl hne
        | cons a t =>
          have h4 : ¬ (a :: t).length < 4 := by omega
          have hv : ¬ (rdU16 (rdU16 (a :: t)).2).2.length < (rdU16 (rdU16 (a :: t)).2).1 := by rw [hr1]; omega
          simp only [tlvFitsGo, h4, hv, if_false]
      rw [hgo]
      by_cases hfp : (rdU16 s).1 = Stun.fingerprint
      · rw [if_pos hfp]
      · rw [if_neg hfp]
        have hnext : ∀ (s' : Bytes) (m' : Msg) (mi' : Option Nat),
            s' = (rdU16 (rdU16 s).2).2.drop ((rdU16 (rdU16 s).2).1 + pad4 (rdU16 (rdU16 s).2).1) →
            loop H buf key len (done + (4 + (rdU16 (rdU16 s).2).1 + pad4 (rdU16 (rdU16 s).2).1)) s' m' mi' = some d →
            tlvFitsGo f s' = true := by
          intro s' m' mi' hs' hl
          refine ih (len - (done + (4 + (rdU16 (rdU16 s).2).1 + pad4 (rdU16 (rdU16 s).2).1))) (by omega) _ s' m' mi' d f rfl
            (by rw [hs', hs1, List.drop_drop]; congr 1; simp only [Stun.headerSize]; omega)
            (by rw [hs', List.length_drop, hr1]; omega) hl
        by_cases hskip : mi.isSome = true ∧ (rdU16 s).1 ≠ Stun.fingerprint
        · rw [if_pos hskip] at h
          exact hnext _ m mi rfl h
        · rw [if_neg hskip] at h
          cases hstep : attrStep H buf key done (rdU16 s).1 (rdU16 (rdU16 s).2).1 (rdU16 (rdU16 s).2).2 m mi with
          | fail => rw [hstep] at h; simp at h
          | accept m' d0 =>
            by_cases hmi : (rdU16 s).1 = Stun.messageIntegrity
            · rw [hmi, attrStep_mi] at hstep
              exact absurd hstep (stepMI_not_accept _ _ _ _ _ _ _ _ _)
            · have := attrStep_plain H buf key done _ (rdU16 (rdU16 s).2).1 (rdU16 (rdU16 s).2).2 m mi hmi hfp
              rw [hstep] at this
              exact absurd this (by simp [Plain])
          | next s' m' mi' =>
            rw [hstep] at h
            simp only at h
            have hdrop : s' = (rdU16 (rdU16 s).2).2.drop (rdU16 (rdU16 s).2).1 := by
              by_cases hmi : (rdU16 s).1 = Stun.messageIntegrity
              · rw [hmi, attrStep_mi] at hstep
                exact (stepMI_next _ _ _ _ _ _ _ _ _ _ hstep).2.1
              · have := attrStep_plain H buf key done _ (rdU16 (rdU16 s).2).1 (rdU16 (rdU16 s).2).2 m mi hmi hfp
                rw [hstep] at this
                exact this.1
            rw [hdrop, List.drop_drop] at h
            exact hnext _ m' mi' rfl h
    · have : s = [] := by
        apply List.eq_nil_of_length_eq_zero
        rw [hsl]; simp only [Stun.headerSize] at hlen ⊢; omega
      rw [this]; exact tlvFitsGo_nil fuel

/-- every accepted packet has all its attribute headers and values inside the packet -/
theorem decodeX_fits (H : Bytes → Bytes) (buf key : Bytes) (d : Decoded) (h : decodeX H buf key = some d) :
    tlvFits buf = true := by
  unfold decodeX decodeFrom at h
  split at h
  · contradiction
  · simp only at h
    split at h
    · contradiction
    · rename_i _ hl
      have hl : (rdU16 (rdU16 buf).2).1 = buf.length - Stun.headerSize := by simpa using hl
      have hs : (rdResize Msg.fresh.id Msg.fresh.id.length (rdU32 (rdU16 (rdU16 buf).2).2).2).2
          = buf.drop (Stun.headerSize + 0) := by
        rw [rdResize_snd, rdU32_snd, rdU16_snd, rdU16_snd, List.drop_drop, List.drop_drop, List.drop_drop]
        rfl
      unfold tlvFits
      have := loop_fits H buf key _ hl _ 0 _ _ none d buf.length rfl hs (by rw [hs, List.length_drop]; omega) h
      rw [hs] at this
      exact this

/-! ## single-bit flips -/

theorem one_shl_ne_zero : ∀ j, j < 8 → (1 : UInt8) <<< UInt8.ofNat j ≠ 0 := by decide

theorem xor_ne_self (x y : UInt8) (hy : y ≠ 0) : x ^^^ y ≠ x := by
  intro h
  apply hy
  have : x ^^^ (x ^^^ y) = x ^^^ x := by rw [h]
  rwa [← UInt8.xor_assoc, UInt8.xor_self, UInt8.zero_xor] at this

theorem flipBit_length (b : Bytes) (i : Nat) : (flipBit b i).length = b.length := by
  simp [flipBit]

theorem flipBit_other (b : Bytes) (i q : Nat) (h : q ≠ i / 8) : (flipBit b i)[q]? = b[q]? := by
  unfold flipBit
  rw [List.getElem?_set_ne (Ne.symm h)]

theorem flipBit_same (b : Bytes) (i : Nat) (h : i / 8 < b.length) : (flipBit b i)[i / 8]? ≠ b[i / 8]? := by
  unfold flipBit
  rw [List.getElem?_set_self h, List.getElem?_eq_getElem h]
  have hd : b.getD (i / 8) 0 = b[i / 8] := by simp [List.getD_eq_getElem?_getD, List.getElem?_eq_getElem h]
  rw [hd]
  intro he
  exact xor_ne_self _ _ (one_shl_ne_zero (i % 8) (Nat.mod_lt _ (by decide))) (Option.some.inj he)


/-! ## `setLen` touches bytes 2 and 3 only -/

theorem setLen_length (x : Bytes) (v : Nat) (h : 4 ≤ x.length) : (setLen x v).length = x.length := by
  simp only [setLen, List.length_append, List.length_take, List.length_drop, putU16_len]; omega

theorem setLen_getElem? (x : Bytes) (v q : Nat) (h : 4 ≤ x.length) (h2 : q ≠ 2) (h3 : q ≠ 3) :
    (setLen x v)[q]? = x[q]? := by
  unfold setLen
  by_cases hq : q < 2
  · rw [List.append_assoc, List.getElem?_append_left (by simp; omega), List.getElem?_take_of_lt hq]
  · have hq4 : 4 ≤ q := by omega
    rw [List.getElem?_append_right (by simp [putU16_len]; omega)]
    simp only [List.length_append, List.length_take, putU16_len, List.getElem?_drop]
    congr 1; omega

/-- two byte strings of the same length ≥ 4 whose 16-bit fields at bytes 2..3 read the same agree on these two bytes -/
theorem lenField_bytes (a b : Bytes) (ha : 4 ≤ a.length) (hb : 4 ≤ b.length)
    (h : (rdU16 (rdU16 a).2).1 = (rdU16 (rdU16 b).2).1) : a[2]? = b[2]? ∧ a[3]? = b[3]? := by
  match a, b, ha, hb with
  | a0 :: a1 :: a2 :: a3 :: ar, b0 :: b1 :: b2 :: b3 :: br, _, _ =>
    simp only [rdU16] at h
    have h2 := a2.toNat_lt; have h3 := a3.toNat_lt; have h2' := b2.toNat_lt; have h3' := b3.toNat_lt
    have e2 : a2 = b2 := UInt8.toNat_inj.mp (by omega)
    have e3 : a3 = b3 := UInt8.toNat_inj.mp (by omega)
    simp [e2, e3]

/-- the 16-bit value at the front determines the two bytes -/
theorem rdU16_bytes (a b : Bytes) (ha : 2 ≤ a.length) (hb : 2 ≤ b.length) (h : (rdU16 a).1 = (rdU16 b).1) :
    a[0]? = b[0]? ∧ a[1]? = b[1]? := by
  match a, b, ha, hb with
  | a0 :: a1 :: ar, b0 :: b1 :: br, _, _ =>
    simp only [rdU16] at h
    have h2 := a0.toNat_lt; have h3 := a1.toNat_lt; have h2' := b0.toNat_lt; have h3' := b1.toNat_lt
    have e2 : a0 = b0 := UInt8.toNat_inj.mp (by omega)
    have e3 : a1 = b1 := UInt8.toNat_inj.mp (by omega)
    simp [e2, e3]

/-- what a successful decode says about the header -/
theorem decodeX_header (H : Bytes → Bytes) (buf key : Bytes) (d : Decoded) (h : decodeX H buf key = some d) :
    Stun.headerSize ≤ buf.length ∧ (rdU16 (rdU16 buf).2).1 = buf.length - Stun.headerSize := by
  unfold decodeX decodeFrom at h
  split at h
  · contradiction
  · rename_i h20
    simp only at h
    split at h
    · contradiction
    · rename_i hl
      exact ⟨by omega, by simpa using hl⟩


/-- `decodeX_verified` with the two header fields of the attribute the decoder verified -/
theorem decodeX_verified_at (H : Bytes → Bytes) (buf key : Bytes) (d : Decoded) (off : Nat)
    (h : decodeX H buf key = some d) (hmi : d.miAt = some off) :
    (rdU16 (buf.drop (Stun.headerSize + off))).1 = Stun.messageIntegrity ∧
    (rdU16 (rdU16 (buf.drop (Stun.headerSize + off))).2).1 = 20 ∧
    (key ≠ [] → miValueAt buf off = hmacCode H 64 key (miInputAt buf off)) := by
  unfold decodeX decodeFrom at h
  split at h
  · contradiction
  · simp only at h
    split at h
    · contradiction
    · have hs : (rdResize Msg.fresh.id Msg.fresh.id.length (rdU32 (rdU16 (rdU16 buf).2).2).2).2
          = buf.drop (Stun.headerSize + 0) := by
        rw [rdResize_snd, rdU32_snd, rdU16_snd, rdU16_snd, List.drop_drop, List.drop_drop, List.drop_drop]
        rfl
      have := loop_verified H buf key _ _ 0 _ _ none d rfl hs h
      rcases this.1 off hmi with h1 | h1
      · simp at h1
      · exact h1

theorem miValueAt_getElem? (x : Bytes) (off j : Nat) (hj : j < 20)
    (hl : Stun.headerSize + off + 4 + 20 ≤ x.length) :
    (miValueAt x off)[j]? = x[Stun.headerSize + off + 4 + j]? := by
  unfold miValueAt rdRaw
  have hz : 20 - (x.drop (Stun.headerSize + off + 4)).length = 0 := by simp only [List.length_drop]; omega
  simp only [hz, zeros, List.replicate_zero, List.append_nil, List.getElem?_take_of_lt hj, List.getElem?_drop]

/-- **A tampered packet that is accepted with integrity verified carries a forgery.**  Let `b` be the encoding of a
well-formed message under a non-empty key.  Flip any one bit of the protected bytes — header and attributes before
MESSAGE-INTEGRITY — or of the MESSAGE-INTEGRITY attribute itself.  If `decode` accepts the result under the same key
and met (hence verified) a MESSAGE-INTEGRITY attribute anywhere, then the bytes it authenticated there are not the
bytes the sender authenticated, and yet the packet contains their valid MAC.  No hypothesis about the hash. -/
theorem tamper_verified_is_forgery_aux (H : Bytes → Bytes) (hH : ∀ x, (H x).length = 20) (m : Msg) (h : WFMsg m)
    (k : Bytes) (hk : k ≠ []) (fp : Bool) (i : Nat)
    (hi : i / 8 < Stun.headerSize + (body m).length + 24) (d : Decoded) (off : Nat)
    (hdec : decodeX H (flipBit (encodeRaw H m k fp) i) k = some d) (hmi : d.miAt = some off) :
    miInputAt (flipBit (encodeRaw H m k fp) i) off ≠ miInputAt (encodeRaw H m k fp) (body m).length ∧
    hmacCode H 64 k (miInputAt (flipBit (encodeRaw H m k fp) i) off) = miValueAt (flipBit (encodeRaw H m k fp) i) off := by
  have hv' := decodeX_verified_at H _ k d off hdec hmi
  refine ⟨?_, (hv'.2.2 hk).symm⟩
  intro heq
  -- the untouched packet
  have hL : (encodeRaw H m k fp).length = Stun.headerSize + (body m).length + 24 + (if fp then 8 else 0) := by
    rw [encode_length H hH m h.id k fp]; simp [hk]
  have hd0 := decodeX_encode H hH m h k fp
  have hv := decodeX_verified_at H _ k _ (body m).length hd0 (by simp [hk])
  have hh := decodeX_header H _ k _ hd0
  have hh' := decodeX_header H _ k _ hdec
  have e20 : Stun.headerSize = 20 := rfl
  have hlen' := flipBit_length (encodeRaw H m k fp) i
  have hsame := flipBit_same (encodeRaw H m k fp) i (by omega)
  clear hd0 hdec
  generalize encodeRaw H m k fp = b at *
  generalize flipBit b i = b' at *
  -- the two authenticated prefixes have the same length, so the decoder verified at the original offset
  have hoff : off = (body m).length := by
    have := congrArg List.length heq
    unfold miInputAt at this
    rw [setLen_length _ _ (by simp only [List.length_take]; omega),
      setLen_length _ _ (by simp only [List.length_take]; omega)] at this
    simp only [List.length_take] at this
    omega
  rw [hoff] at heq hv'
  by_cases hpre : i / 8 < Stun.headerSize + (body m).length
  · by_cases h23 : i / 8 = 2 ∨ i / 8 = 3
    · have := lenField_bytes b' b (by omega) (by omega)
        (by rw [hh'.2, hh.2, hlen'])
      rcases h23 with e | e
      · rw [e] at hsame; exact hsame this.1
      · rw [e] at hsame; exact hsame this.2
    · have := congrArg (·[i / 8]?) heq
      simp only [miInputAt] at this
      rw [setLen_getElem? _ _ _ (by simp only [List.length_take]; omega) (by omega) (by omega),
        setLen_getElem? _ _ _ (by simp only [List.length_take]; omega) (by omega) (by omega),
        List.getElem?_take_of_lt hpre, List.getElem?_take_of_lt hpre] at this
      exact hsame this
  · -- the flipped bit lies in the MESSAGE-INTEGRITY attribute itself
    have hge : Stun.headerSize + (body m).length ≤ i / 8 := by omega
    have e1 := rdU16_bytes (b'.drop (Stun.headerSize + (body m).length)) (b.drop (Stun.headerSize + (body m).length))
      (by simp only [List.length_drop]; omega) (by simp only [List.length_drop]; omega)
      (by rw [hv'.1, hv.1])
    have e2 := rdU16_bytes (rdU16 (b'.drop (Stun.headerSize + (body m).length))).2
      (rdU16 (b.drop (Stun.headerSize + (body m).length))).2
      (by rw [rdU16_snd]; simp only [List.length_drop]; omega)
      (by rw [rdU16_snd]; simp only [List.length_drop]; omega)
      (by rw [hv'.2.1, hv.2.1])
    simp only [rdU16_snd, List.getElem?_drop, List.drop_drop] at e1 e2
    have hval : miValueAt b' (body m).length = miValueAt b (body m).length := by
      rw [hv'.2.2 hk, hv.2.2 hk, heq]
    by_cases c0 : i / 8 = Stun.headerSize + (body m).length + 0
    · rw [c0] at hsame; exact hsame e1.1
    by_cases c1 : i / 8 = Stun.headerSize + (body m).length + 1
    · rw [c1] at hsame; exact hsame e1.2
    by_cases c2 : i / 8 = Stun.headerSize + (body m).length + 2 + 0
    · rw [c2] at hsame; exact hsame e2.1
    by_cases c3 : i / 8 = Stun.headerSize + (body m).length + 2 + 1
    · rw [c3] at hsame; exact hsame e2.2
    have hj : i / 8 - (Stun.headerSize + (body m).length + 4) < 20 := by omega
    have : (miValueAt b' (body m).length)[i / 8 - (Stun.headerSize + (body m).length + 4)]? =
        (miValueAt b (body m).length)[i / 8 - (Stun.headerSize + (body m).length + 4)]? := by rw [hval]
    rw [miValueAt_getElem? _ _ _ hj (by omega),
      miValueAt_getElem? _ _ _ hj (by omega)] at this
    have e : Stun.headerSize + (body m).length + 4 + (i / 8 - (Stun.headerSize + (body m).length + 4)) = i / 8 := by omega
    rw [e] at this
    exact hsame this


/-! ## authenticated decode -/

theorem decodeAuth_encode (H : Bytes → Bytes) (hH : ∀ x, (H x).length = 20) (m : Msg) (h : WFMsg m) (k : Bytes)
    (hk : k ≠ []) (fp : Bool) : decodeAuth H (encodeRaw H m k fp) k = some (view m) := by
  unfold decodeAuth
  rw [decodeX_encode H hH m h k fp]
  simp [hk]

theorem tamper_rejected_aux (H : Bytes → Bytes) (hH : ∀ x, (H x).length = 20) (m : Msg) (h : WFMsg m)
    (k : Bytes) (hk : k ≠ []) (fp : Bool) (i : Nat)
    (hi : i / 8 < Stun.headerSize + (body m).length + 24)
    (hNF : NotAForgery H k (miInputAt (encodeRaw H m k fp) (body m).length) (flipBit (encodeRaw H m k fp) i)) :
    decodeAuth H (flipBit (encodeRaw H m k fp) i) k = none := by
  unfold decodeAuth
  cases hd : decodeX H (flipBit (encodeRaw H m k fp) i) k with
  | none => rfl
  | some d =>
    cases hmi : d.miAt with
    | none => simp [hmi]
    | some off =>
      have := tamper_verified_is_forgery_aux H hH m h k hk fp i hi d off hd hmi
      exact absurd this.2 (hNF off this.1)

/-- once MESSAGE-INTEGRITY has been met, the loop changes neither the message nor that fact -/
theorem loop_after_integrity (H : Bytes → Bytes) (buf key : Bytes) (len : Nat) :
    ∀ (n done : Nat) (s : Bytes) (m : Msg) (x : Nat) (d : Decoded),
      len - done = n → loop H buf key len done s m (some x) = some d → d.msg = m ∧ d.miAt = some x := by
  intro n
  induction n using Nat.strongRecOn with
  | ind n ih =>
    intro done s m x d hn h
    rw [loop] at h
    by_cases hlt : done < len
    · simp only [hlt, dite_true] at h
      by_cases hbound : done + 4 + (rdU16 (rdU16 s).2).1 > len
      · rw [if_pos hbound] at h; contradiction
      rw [if_neg hbound] at h
      by_cases hfp : (rdU16 s).1 = Stun.fingerprint
      · have hns : ¬ ((some x).isSome = true ∧ (rdU16 s).1 ≠ Stun.fingerprint) := by simp [hfp]
        rw [if_neg hns, hfp, attrStep_fp] at h
        cases hstep : stepFP buf done (rdU16 (rdU16 s).2).1 (rdU16 (rdU16 s).2).2 m with
        | fail => rw [hstep] at h; simp at h
        | accept m' d0 =>
          rw [hstep] at h
          obtain ⟨_, hm, _⟩ := stepFP_accept _ _ _ _ _ _ _ hstep
          simp only [Option.some.injEq] at h
          subst h
          exact ⟨hm, rfl⟩
        | next s' m' mi' => exact absurd hstep (stepFP_not_next _ _ _ _ _ _ _ _)
      · have hs : (some x).isSome = true ∧ (rdU16 s).1 ≠ Stun.fingerprint := ⟨rfl, hfp⟩
        rw [if_pos hs] at h
        exact ih (len - (done + (4 + (rdU16 (rdU16 s).2).1 + pad4 (rdU16 (rdU16 s).2).1))) (by omega) _ _ m x d rfl h
    · simp only [hlt, dite_false, Option.some.injEq] at h
      subst h
      exact ⟨rfl, rfl⟩

theorem flipBit_append_right (a r : Bytes) (i : Nat) (h : a.length ≤ i / 8) :
    ∃ r', flipBit (a ++ r) i = a ++ r' ∧ r'.length = r.length := by
  refine ⟨(flipBit (a ++ r) i).drop a.length, ?_, ?_⟩
  · have : (flipBit (a ++ r) i).take a.length = a := by
      unfold flipBit
      rw [List.take_set_of_le h, List.take_left']
      rfl
    conv => lhs; rw [← List.take_append_drop a.length (flipBit (a ++ r) i)]
    rw [this]
  · rw [List.length_drop, flipBit_length, List.length_append]; omega

/-- flips behind MESSAGE-INTEGRITY (in the FINGERPRINT attribute): rejected, or the original message with integrity verified -/
theorem tamper_after_mi_decodeX (H : Bytes → Bytes) (hH : ∀ x, (H x).length = 20) (m : Msg) (h : WFMsg m)
    (k : Bytes) (hk : k ≠ []) (i : Nat) (hi : Stun.headerSize + (body m).length + 24 ≤ i / 8) :
    decodeX H (flipBit (encodeRaw H m k true) i) k = none ∨
    ∃ d, decodeX H (flipBit (encodeRaw H m k true) i) k = some d ∧ d.msg = view m ∧ d.miAt.isSome = true := by
  have hid := h.id
  have hsz := h.size
  rw [encode_key_fp H hH m k hk hid]
  obtain ⟨r', hr', hlr⟩ := flipBit_append_right (framed m ((body m).length + 32) ++ miAttr H m k)
    (fpAttr (framed m ((body m).length + 32) ++ miAttr H m k)) i
    (by rw [List.length_append, framed_len m _ hid, miAttr_len H hH]; simp only [Stun.headerSize] at hi; omega)
  rw [hr', List.append_assoc]
  rw [fpAttr_len] at hlr
  generalize hb : framed m ((body m).length + 32) ++ (miAttr H m k ++ r') = buf
  have e := decodeX_framed H m ((body m).length + 32) (miAttr H m k ++ r') k h.type h.cookie hid
    (by omega) (by simp [miAttr_len H hH, hlr])
  rw [hb] at e
  have s := steps_body m h.toWFFields H buf k ((body m).length + 32) 0 (miAttr H m k ++ r') (by omega)
    (by simp [miAttr_len H hH, hlr])
  have hm : hmacCode H 64 k (framed m ((body m).length + 24)) =
      hmacCode H 64 k (setLen (buf.take (Stun.headerSize + (0 + (body m).length))) (0 + (body m).length + Stun.miAdjust)) := by
    rw [← hb, Nat.zero_add, take_framed m _ _ hid]
    have := setLen_framed m ((body m).length + 32) ((body m).length + Stun.miAdjust) []
    simp only [List.append_nil] at this
    rw [this]; rfl
  have l := loop_mi H buf k ((body m).length + 32) (0 + (body m).length) _ r' (view m) (by omega) (by omega) hm
    (hmacCode_len H hH _ _ _)
  have hmi : miAttr H m k ++ r' =
      putU16 Stun.messageIntegrity ++ (putU16 20 ++ (hmacCode H 64 k (framed m ((body m).length + 24)) ++ r')) := by
    simp [miAttr, List.append_assoc]
  rw [e, s, hmi, l]
  cases hl : loop H buf k ((body m).length + 32) (0 + (body m).length + 24) r' (view m) (some (0 + (body m).length)) with
  | none => left; rfl
  | some d =>
    right
    have := loop_after_integrity H buf k _ _ _ _ _ _ d rfl hl
    exact ⟨d, rfl, this.1, by simp [this.2]⟩

/-- **Flips behind MESSAGE-INTEGRITY (in the FINGERPRINT attribute) cannot change the authenticated message**: the
result is a rejection or the original message; no hypothesis about the hash. -/
theorem tamper_after_mi_aux (H : Bytes → Bytes) (hH : ∀ x, (H x).length = 20) (m : Msg) (h : WFMsg m)
    (k : Bytes) (hk : k ≠ []) (i : Nat) (hi : Stun.headerSize + (body m).length + 24 ≤ i / 8) :
    decodeAuth H (flipBit (encodeRaw H m k true) i) k = none ∨
    decodeAuth H (flipBit (encodeRaw H m k true) i) k = some (view m) := by
  unfold decodeAuth
  rcases tamper_after_mi_decodeX H hH m h k hk i hi with h0 | ⟨d, hd, hm, hmi⟩
  · left; rw [h0]
  · right; rw [hd]; simp [hm, hmi]

/-! ## messages too large for the 16-bit length fields -/

theorem rdU16_put_mod (x : Nat) (r : Bytes) : rdU16 (putU16 x ++ r) = (x % 65536, r) := by
  simp only [putU16, rdU16, List.cons_append, List.nil_append, u8n]
  congr 1; omega

theorem dataOnly_body_eq (d : Bytes) : body (dataOnlyMsg d) = encBlob Stun.dataAttr d := by
  have e1 : ∀ ty x, encAddr ty ({} : Addr) x = [] := fun _ _ => rfl
  have e2 : encError (dataOnlyMsg d) = [] := rfl
  have e3 : encIce (dataOnlyMsg d) = [] := rfl
  unfold body
  rw [e2, e3]
  show encAddr _ {} none ++ encOpt none _ ++ encAddr _ {} none ++ encAddr _ {} none ++ encAddr _ {} none ++
    encAddr _ {} _ ++ encAddr _ {} _ ++ encAddr _ {} _ ++ [] ++ encOpt none _ ++ (if false then _ else []) ++
    encOpt none _ ++ encOpt (some d) _ ++ encOpt none _ ++ encOpt none _ ++ encOpt none _ ++ encOpt none _ ++
    encOpt none _ ++ encOpt none _ ++ encOpt none _ ++ [] = _
  simp only [e1, encOpt, List.append_nil, List.nil_append, Bool.false_eq_true, if_false]

/-! ## `encode` = the assembled bytes unless they do not fit (then it refuses) -/

theorem encode_eq_raw (H : Bytes → Bytes) (hH : ∀ x, (H x).length = 20) (m : Msg) (hid : m.id.length = 12) (k : Bytes)
    (fp : Bool) (hfit : (body m).length + (if k = [] then 0 else 24) + (if fp then 8 else 0) < 65536) :
    encode H m k fp = encodeRaw H m k fp := by
  unfold encode
  have hl := encode_length H hH m hid k fp
  have : ¬ ((encodeRaw H m k fp).length - Stun.headerSize > 0xffff) := by
    rw [hl]; simp only [Stun.headerSize]; omega
  simp only [this, if_false]

theorem encode_eq_raw_wf (H : Bytes → Bytes) (hH : ∀ x, (H x).length = 20) (m : Msg) (h : WFMsg m) (k : Bytes)
    (fp : Bool) : encode H m k fp = encodeRaw H m k fp :=
  encode_eq_raw H hH m h.id k fp (by have := h.size; split <;> split <;> omega)

theorem encode_eq_nil (H : Bytes → Bytes) (hH : ∀ x, (H x).length = 20) (m : Msg) (hid : m.id.length = 12) (k : Bytes)
    (fp : Bool) (hbig : 65536 ≤ (body m).length + (if k = [] then 0 else 24) + (if fp then 8 else 0)) :
    encode H m k fp = [] := by
  unfold encode
  have hl := encode_length H hH m hid k fp
  have : (encodeRaw H m k fp).length - Stun.headerSize > 0xffff := by
    rw [hl]; simp only [Stun.headerSize]; omega
  simp only [this, if_true]

/-- a message `encode` did not refuse fits the 16-bit length field -/
theorem fits_of_encode_ne_nil (H : Bytes → Bytes) (hH : ∀ x, (H x).length = 20) (m : Msg) (hid : m.id.length = 12)
    (k : Bytes) (fp : Bool) (hacc : encode H m k fp ≠ []) :
    (body m).length + (if k = [] then 0 else 24) + (if fp then 8 else 0) < 65536 := by
  apply Classical.byContradiction
  intro hn
  exact hacc (encode_eq_nil H hH m hid k fp (by omega))

theorem setReservationToken_len (tok : Bytes) : (setReservationToken tok).length = 8 := by
  simp only [setReservationToken, List.length_take, List.length_append, zeros_len]; omega

theorem dataOnly_body_len (d : Bytes) : (body (dataOnlyMsg d)).length = 4 + d.length + pad4 d.length := by
  rw [dataOnly_body_eq]
  simp only [encBlob, List.length_append, putU16_len, padded_len]
  omega

/-- the table-driven CRC over the extracted table is the bitwise CRC-32 -/
theorem crcTable_spec (bs : Bytes) : crc32TableList crcTable bs = crc32Bitwise bs := by
  unfold crc32TableList crc32Table crc32Bitwise
  congr 1
  generalize (0xFFFFFFFF : UInt32) = c
  induction bs generalizing c with
  | nil => rfl
  | cons b bs ih => simp only [List.foldl_cons, crcByte_eq, ih]

theorem fingerprintOf_spec (bs : Bytes) : fingerprintOf bs = (crc32Bitwise bs).toNat ^^^ 0x5354554e := by
  simp only [fingerprintOf, crcCode, crcTable_spec, Stun.fingerprintXor]

/-! ## the gate at the end of decode (/repo commit 80bab8b) -/

/-- with a key, the encoded packet is header+attributes, MESSAGE-INTEGRITY, and `rest` (nothing or FINGERPRINT) -/
theorem encodeRaw_key_shape (H : Bytes → Bytes) (hH : ∀ x, (H x).length = 20) (m : Msg) (k : Bytes) (hk : k ≠ [])
    (hid : m.id.length = 12) (fp : Bool) :
    ∃ rest, encodeRaw H m k fp = framed m ((body m).length + 24 + rest.length) ++ (miAttr H m k ++ rest) ∧
      rest.length = if fp then 8 else 0 := by
  cases fp with
  | false => exact ⟨[], by rw [encode_key_nofp H hH m k hk hid]; simp, rfl⟩
  | true =>
    refine ⟨fpAttr (framed m ((body m).length + 32) ++ miAttr H m k), ?_, by simp [fpAttr_len]⟩
    rw [encode_key_fp H hH m k hk hid, fpAttr_len, List.append_assoc]

/-- the loop in front of a MESSAGE-INTEGRITY attribute whose 20 bytes are NOT the code's HMAC of the adjusted prefix fails -/
theorem loop_mi_fail (H : Bytes → Bytes) (buf key : Bytes) (len done : Nat) (mac rest : Bytes) (y : Msg) (hlt : done < len)
    (hb : done + 24 ≤ len) (hk : key ≠ [])
    (hmac : mac ≠ hmacCode H 64 key (setLen (buf.take (Stun.headerSize + done)) (done + Stun.miAdjust)))
    (hl : mac.length = 20) :
    loop H buf key len done (putU16 Stun.messageIntegrity ++ (putU16 20 ++ (mac ++ rest))) y none = none := by
  rw [loop]
  have e := rdRaw_append mac rest
  rw [hl] at e
  have hb' : ¬ (done + 4 + 20 > len) := by omega
  simp only [hlt, dite_true, rdU16_put _ _ (show Stun.messageIntegrity < 65536 by decide),
    rdU16_put _ _ (show 20 < 65536 by decide), hb', Option.isSome_none, Bool.false_eq_true, false_and, if_false,
    attrStep_mi, stepMI, e, ne_eq, hk, not_false_eq_true, hmac, and_self, if_true, not_true_eq_false, ite_self]


theorem putU16_of_bytes (a b : UInt8) : putU16 (a.toNat * 256 + b.toNat) = [a, b] := by
  have ha := a.toNat_lt; have hb := b.toNat_lt
  simp only [putU16, List.cons.injEq, and_true]
  constructor
  · apply UInt8.toNat_inj.mp; rw [u8n]; omega
  · apply UInt8.toNat_inj.mp; rw [u8n]; omega

theorem miValueAt_framed (H : Bytes → Bytes) (hH : ∀ x, (H x).length = 20) (m m' : Msg) (k rest : Bytes) (L : Nat)
    (hid : m'.id.length = 12) (hb : body m' = body m) :
    miValueAt (framed m' L ++ (miAttr H m k ++ rest)) (body m).length = hmacCode H 64 k (framed m ((body m).length + 24)) := by
  unfold miValueAt
  have : Stun.headerSize + (body m).length + 4 = (framed m' L).length + 4 := by rw [framed_len m' L hid, hb]; rfl
  rw [this, ← List.drop_drop, List.drop_left]
  have e := rdRaw_append (hmacCode H 64 k (framed m ((body m).length + 24))) rest
  rw [hmacCode_len H hH] at e
  simp only [miAttr, List.append_assoc, putU16]
  simpa using congrArg Prod.fst e

/-- a flipped bit in the two type bytes: the walk is the same, MESSAGE-INTEGRITY is reached where it was, and its
check fails unless the packet is a forgery — so such a packet is rejected outright -/
theorem tamper_type_bytes_none (H : Bytes → Bytes) (hH : ∀ x, (H x).length = 20) (m : Msg) (h : WFMsg m)
    (k : Bytes) (hk : k ≠ []) (fp : Bool) (i : Nat) (hi : i / 8 < 2)
    (hNF : NotAForgery H k (miInputAt (encodeRaw H m k fp) (body m).length) (flipBit (encodeRaw H m k fp) i)) :
    decodeX H (flipBit (encodeRaw H m k fp) i) k = none := by
  have hid := h.id
  have hsz := h.size
  obtain ⟨rest, hshape, hrest⟩ := encodeRaw_key_shape H hH m k hk hid fp
  have hrl : rest.length ≤ 8 := by rw [hrest]; split <;> omega
  rw [hshape] at hNF ⊢
  generalize hL : (body m).length + 24 + rest.length = L at *
  -- the flipped type field
  have hfr : framed m L = putU16 m.type ++ (putU16 L ++ (putU32 m.cookie ++ (m.id ++ body m))) := rfl
  rw [hfr, List.append_assoc, flipBit_append _ _ _ (by rw [putU16_len]; exact hi)] at hNF ⊢
  have hfl := flipBit_length (putU16 m.type) i
  have hne : flipBit (putU16 m.type) i ≠ putU16 m.type := by
    intro he
    have := flipBit_same (putU16 m.type) i (by rw [putU16_len]; exact hi)
    rw [he] at this; exact this rfl
  match hft : flipBit (putU16 m.type) i, hfl with
  | [a, b], _ =>
    rw [hft] at hne hNF
    rw [← putU16_of_bytes a b] at hne hNF ⊢
    generalize ht' : a.toNat * 256 + b.toNat = t' at *
    have ht'lt : t' < 65536 := by have := a.toNat_lt; have := b.toNat_lt; omega
    -- the message with that type
    have hwf' : WFFields { m with type := t' } :=
      ⟨ht'lt, h.cookie, h.id, h.mapped, h.source, h.changed, h.other, h.xorMapped, h.xorPeer, h.xorRelayed,
        h.changeRequest, h.errLo, h.errHi, h.errNone, h.priority, h.channelNumber, h.lifetime, h.requestedTransport,
        h.reservationToken, h.iceControlling, h.iceControlled⟩
    have hbody : body { m with type := t' } = body m := rfl
    have hb'eq : putU16 t' ++ (putU16 L ++ (putU32 m.cookie ++ (m.id ++ body m)) ++ (miAttr H m k ++ rest)) =
        framed { m with type := t' } L ++ (miAttr H m k ++ rest) := by
      show _ = (putU16 t' ++ (putU16 L ++ (putU32 m.cookie ++ (m.id ++ body m)))) ++ (miAttr H m k ++ rest)
      simp only [List.append_assoc]
    rw [hb'eq] at hNF ⊢
    have hb0eq : putU16 m.type ++ (putU16 L ++ (putU32 m.cookie ++ (m.id ++ body m)) ++ (miAttr H m k ++ rest)) =
        framed m L ++ (miAttr H m k ++ rest) := by
      show _ = (putU16 m.type ++ (putU16 L ++ (putU32 m.cookie ++ (m.id ++ body m)))) ++ (miAttr H m k ++ rest)
      simp only [List.append_assoc]
    rw [hb0eq] at hNF
    generalize hbuf : framed { m with type := t' } L ++ (miAttr H m k ++ rest) = buf at *
    have e := decodeX_framed H { m with type := t' } L (miAttr H m k ++ rest) k ht'lt h.cookie hid (by omega)
      (by rw [hbody, List.length_append, miAttr_len H hH]; omega)
    rw [hbuf] at e
    have s := steps_body { m with type := t' } hwf' H buf k L 0 (miAttr H m k ++ rest) (by omega)
      (by rw [hbody, List.length_append, List.length_append, miAttr_len H hH]; omega)
    rw [e, s, hbody]
    -- MESSAGE-INTEGRITY is reached at the old place and does not verify
    have hin : miInputAt buf (body m).length = framed { m with type := t' } ((body m).length + 24) := by
      unfold miInputAt
      have := take_framed { m with type := t' } L (miAttr H m k ++ rest) hid
      rw [hbody, hbuf] at this
      rw [this]
      have := setLen_framed { m with type := t' } L ((body m).length + Stun.miAdjust) []
      simp only [List.append_nil] at this
      rw [this]; rfl
    have hx0 : miInputAt (framed m L ++ (miAttr H m k ++ rest)) (body m).length = framed m ((body m).length + 24) := by
      unfold miInputAt
      rw [take_framed m L _ hid]
      have := setLen_framed m L ((body m).length + Stun.miAdjust) []
      simp only [List.append_nil] at this
      rw [this]; rfl
    have hval : miValueAt buf (body m).length = hmacCode H 64 k (framed m ((body m).length + 24)) := by
      rw [← hbuf]; exact miValueAt_framed H hH m { m with type := t' } k rest L hid hbody
    have hdiff : framed { m with type := t' } ((body m).length + 24) ≠ framed m ((body m).length + 24) := by
      intro he
      apply hne
      have := congrArg (List.take 2) he
      simpa [framed, putU16] using this
    have hnf := hNF (body m).length (by rw [hin, hx0]; exact hdiff)
    rw [hin, hval] at hnf
    have hmi : miAttr H m k ++ rest =
        putU16 Stun.messageIntegrity ++ (putU16 20 ++ (hmacCode H 64 k (framed m ((body m).length + 24)) ++ rest)) := by
      simp [miAttr, List.append_assoc]
    rw [hmi]
    apply loop_mi_fail H buf k L (0 + (body m).length) _ rest _ (by omega) (by omega) hk ?_ (hmacCode_len H hH _ _ _)
    intro he
    have hin' : setLen (buf.take (Stun.headerSize + (0 + (body m).length))) (0 + (body m).length + Stun.miAdjust) =
        framed { m with type := t' } ((body m).length + 24) := by
      rw [Nat.zero_add]; exact hin
    rw [hin'] at he
    exact hnf he.symm


theorem rdU16_fst_of_bytes (a b : Bytes) (ha : 2 ≤ a.length) (hb : 2 ≤ b.length) (h0 : a[0]? = b[0]?) (h1 : a[1]? = b[1]?) :
    (rdU16 a).1 = (rdU16 b).1 := by
  match a, b, ha, hb with
  | a0 :: a1 :: ar, b0 :: b1 :: br, _, _ =>
    simp only [List.getElem?_cons_zero, List.getElem?_cons_succ, Option.some.injEq] at h0 h1
    simp only [rdU16, h0, h1]

theorem decodeStrict_encode (H : Bytes → Bytes) (hH : ∀ x, (H x).length = 20) (m : Msg) (h : WFMsg m) (k : Bytes)
    (fp : Bool) : decode H (encodeRaw H m k fp) k = some (view m) := by
  unfold decode
  rw [decodeX_encode H hH m h k fp]
  by_cases hk : k = [] <;> simp [hk]

/-- **Strict decode rejects every single-bit flip of the protected bytes and of MESSAGE-INTEGRITY** of a request or
success response; only hypothesis: the flipped packet is not a forgery. -/
theorem tamper_rejected_strict_aux (H : Bytes → Bytes) (hH : ∀ x, (H x).length = 20) (m : Msg) (h : WFMsg m)
    (k : Bytes) (hk : k ≠ []) (fp : Bool) (i : Nat)
    (hi : i / 8 < Stun.headerSize + (body m).length + 24) (hcls : exemptClass m.type = false)
    (hNF : NotAForgery H k (miInputAt (encodeRaw H m k fp) (body m).length) (flipBit (encodeRaw H m k fp) i)) :
    decode H (flipBit (encodeRaw H m k fp) i) k = none := by
  by_cases ht : i / 8 < 2
  · unfold decode
    rw [tamper_type_bytes_none H hH m h k hk fp i ht hNF]
  · unfold decode
    cases hd : decodeX H (flipBit (encodeRaw H m k fp) i) k with
    | none => rfl
    | some d =>
      cases hmi : d.miAt with
      | some off =>
        have := tamper_verified_is_forgery_aux H hH m h k hk fp i hi d off hd hmi
        exact absurd this.2 (hNF off this.1)
      | none =>
        have hL := encode_length H hH m h.id k fp
        have hty : (rdU16 (flipBit (encodeRaw H m k fp) i)).1 = m.type := by
          have e := rdU16_fst_of_bytes (flipBit (encodeRaw H m k fp) i) (encodeRaw H m k fp)
            (by rw [flipBit_length, hL]; simp only [Stun.headerSize]; omega)
            (by rw [hL]; simp only [Stun.headerSize]; omega)
            (flipBit_other _ _ 0 (by omega)) (flipBit_other _ _ 1 (by omega))
          rw [e]
          obtain ⟨rest, hshape, _⟩ := encodeRaw_key_shape H hH m k hk h.id fp
          rw [hshape]
          show (rdU16 (putU16 m.type ++ _ ++ _)).1 = m.type
          rw [List.append_assoc, rdU16_put _ _ h.type]
        simp [hk, hmi, hty, hcls]

theorem tamper_after_mi_strict_aux (H : Bytes → Bytes) (hH : ∀ x, (H x).length = 20) (m : Msg) (h : WFMsg m)
    (k : Bytes) (hk : k ≠ []) (i : Nat) (hi : Stun.headerSize + (body m).length + 24 ≤ i / 8) :
    decode H (flipBit (encodeRaw H m k true) i) k = none ∨
    decode H (flipBit (encodeRaw H m k true) i) k = some (view m) := by
  unfold decode
  rcases tamper_after_mi_decodeX H hH m h k hk i hi with h0 | ⟨d, hd, hm, hmi⟩
  · left; rw [h0]
  · right; rw [hd]; simp [hm, hmi]

end Qx.C14
