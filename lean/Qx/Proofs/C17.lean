import Qx.Model.C17Sce
/-!
# C17 — helper lemmas for the SCE split (model: `Qx/Model/C17Sce.lean`)
-/
namespace Qx.C17

/-! ## generic list facts -/

theorem perm_flatMap_split {α β : Type} [DecidableEq β] (l : List α) (a c p s : α → List β)
    (h : ∀ x ∈ l, a x ++ c x = p x ++ s x) :
    (l.flatMap a ++ l.flatMap c).Perm (l.flatMap p ++ l.flatMap s) := by
  rw [List.perm_iff_count]
  intro e
  induction l with
  | nil => simp
  | cons x xs ih =>
    have hx := congrArg (List.count e) (h x (by simp))
    have ih' := ih (fun y hy => h y (by simp [hy]))
    simp only [List.flatMap_cons, List.count_append] at hx ih' ⊢
    omega

theorem flatMap_congr' {α β : Type} (l : List α) (f g : α → List β) (h : ∀ x ∈ l, f x = g x) :
    l.flatMap f = l.flatMap g := by
  induction l with
  | nil => rfl
  | cons x xs ih =>
    simp only [List.flatMap_cons, h x (by simp)]
    rw [ih (fun y hy => h y (by simp [hy]))]

theorem flatMap_eq_nil_of {α β : Type} (l : List α) (g : α → List β) (h : ∀ x ∈ l, g x = []) :
    l.flatMap g = [] := by
  induction l with
  | nil => rfl
  | cons x xs ih =>
    simp only [List.flatMap_cons, h x (by simp), List.nil_append]
    exact ih (fun y hy => h y (by simp [hy]))

/-- in a list with pairwise different names, a `flatMap` that is empty off one name is that row's contribution -/
theorem flatMap_single (l : List Row) (hn : (l.map (·.name)).Nodup) (r0 : Row) (h0 : r0 ∈ l)
    {β : Type} (G : Row → List β) :
    l.flatMap (fun r => if r.name = r0.name then G r else []) = G r0 := by
  induction l with
  | nil => cases h0
  | cons x xs ih =>
    simp only [List.map_cons, List.nodup_cons, List.mem_map, not_exists, not_and] at hn
    simp only [List.flatMap_cons]
    rcases List.mem_cons.mp h0 with rfl | hx
    · have : xs.flatMap (fun r => if r.name = r0.name then G r else []) = [] := by
        apply flatMap_eq_nil_of
        intro y hy
        have := hn.1 y hy
        simp [this]
      simp [this]
    · have hne : ¬ x.name = r0.name := fun e => hn.1 r0 hx e.symm
      simp only [hne, if_false, List.nil_append]
      exact ih hn.2 hx

theorem eq_of_name_eq (T : Table) (hn : T.names.Nodup) {r1 r2 : Row} (h1 : r1 ∈ T.rows) (h2 : r2 ∈ T.rows)
    (h : r1.name = r2.name) : r1 = r2 := by
  unfold Table.names at hn
  generalize T.rows = l at hn h1 h2
  induction l with
  | nil => cases h1
  | cons x xs ih =>
    simp only [List.map_cons, List.nodup_cons, List.mem_map, not_exists, not_and] at hn
    rcases List.mem_cons.mp h1 with rfl | h1' <;> rcases List.mem_cons.mp h2 with rfl | h2'
    · rfl
    · exact absurd h.symm (hn.1 r2 h2')
    · exact absurd h (hn.1 r1 h1')
    · exact ih hn.2 h1' h2'

/-! ## write side -/

theorem wfWrite_of_mem {T : Table} (h : WFwrite T) {r : Row} (hr : r ∈ T.rows) : r.wfWrite = true :=
  List.all_eq_true.mp h r hr

theorem emits_sub (r : Row) (m : Msg) (mode : Mode) {e : Elem} (h : e ∈ r.emits m mode) :
    e ∈ m r.name ∧ r.writeGuard.on mode = true ∧ r.live m = true := by
  unfold Row.emits at h
  split at h
  · rename_i hc
    simp only [Bool.and_eq_true] at hc
    exact ⟨h, hc.1, hc.2⟩
  · cases h

theorem emits_eq_of_on (r : Row) (m : Msg) (mode : Mode) (hon : r.writeGuard.on mode = true)
    (hl : r.live m = true ∨ m r.name = []) : r.emits m mode = m r.name := by
  unfold Row.emits
  rcases hl with hl | hl
  · simp [hon, hl]
  · split <;> simp [hl]

theorem emits_eq_nil_of_off (r : Row) (m : Msg) (mode : Mode) (hoff : r.writeGuard.on mode = false) :
    r.emits m mode = [] := by
  unfold Row.emits; simp [hoff]

theorem wfSplit_of_mem {T : Table} (h : WFsplit T) {r : Row} (hr : r ∈ T.rows) :
    r.wfShared = true ∧ r.wfWrapper = true := by
  have := List.all_eq_true.mp h r hr
  simpa using this

theorem wfSplit_of_wfWrite {T : Table} (h : WFwrite T) : WFsplit T := by
  unfold WFsplit
  rw [List.all_eq_true]
  intro r hr
  have := List.all_eq_true.mp h r hr
  unfold Row.wfWrite at this
  simp only [Bool.and_eq_true] at this ⊢
  exact ⟨this.1.2, this.2⟩

/-- one row's share of the partition identity -/
theorem row_partition (r : Row) (m : Msg) (hw : r.wfWrapper = true) :
    r.emits m .all ++ (if !r.wrapper && (r.writeGuard == .both || r.writeGuard == .pubOnly) && r.live m then m r.name else [])
      = r.emits m .pub ++ (if r.wrapper then [] else r.emits m .sens) := by
  unfold Row.wfWrapper at hw
  unfold Row.emits
  cases hwr : r.wrapper <;> cases hg : r.writeGuard <;> cases hl : r.live m <;>
    simp_all [Guard.on]

/-! ## parse side -/

/-- does the element land in field `f` -/
def taken (T : Table) (mode : Mode) (full : Bool) (f : String) (e : Elem) : Bool :=
  match recognise T mode e with
  | some r => r.name == f && (full || !r.wrapper)
  | none => false

def unrecognised (T : Table) (mode : Mode) (e : Elem) : Bool := (recognise T mode e).isNone

theorem taken_some {T : Table} {mode : Mode} {full : Bool} {f : String} {e : Elem} {r : Row}
    (h : recognise T mode e = some r) : taken T mode full f e = (r.name == f && (full || !r.wrapper)) := by
  unfold taken; rw [h]

theorem taken_none {T : Table} {mode : Mode} {full : Bool} {f : String} {e : Elem}
    (h : recognise T mode e = none) : taken T mode full f e = false := by
  unfold taken; rw [h]

theorem foldl_msg (T : Table) (mode : Mode) (full : Bool) (f : String) (es : List Elem) (s : PSt) :
    (es.foldl (parseStep T mode full) s).msg f = s.msg f ++ es.filter (taken T mode full f) := by
  induction es generalizing s with
  | nil => simp
  | cons e es ih =>
    rw [List.foldl_cons, ih, List.filter_cons]
    unfold parseStep
    cases hrec : recognise T mode e with
    | none => simp [taken_none hrec]
    | some r =>
      rw [taken_some hrec]
      by_cases hw : (r.wrapper && !full) = true
      · have : (full || !r.wrapper) = false := by
          simp only [Bool.and_eq_true, Bool.not_eq_true'] at hw
          simp [hw.1, hw.2]
        simp [hw, this]
      · have hfw : (full || !r.wrapper) = true := by
          cases hf : full <;> cases hr : r.wrapper <;> simp_all
        simp only [hw, hfw, Bool.and_true]
        by_cases hname : r.name = f
        · subst hname
          simp [Msg.set]
        · have hne : ¬ f = r.name := fun h => hname h.symm
          simp [Msg.set, hname, hne]

theorem foldl_unknown (T : Table) (mode : Mode) (full : Bool) (es : List Elem) (s : PSt) :
    (es.foldl (parseStep T mode full) s).unknown = s.unknown ++ es.filter (unrecognised T mode) := by
  induction es generalizing s with
  | nil => simp
  | cons e es ih =>
    rw [List.foldl_cons, ih, List.filter_cons]
    unfold parseStep unrecognised
    cases hrec : recognise T mode e with
    | none => simp
    | some r =>
      by_cases hw : (r.wrapper && !full) = true <;> simp [hw]

theorem parseMode_msg (T : Table) (es : List Elem) (mode : Mode) (full : Bool) (m0 : Msg) (f : String) :
    (parseMode T es mode full m0).msg f = m0 f ++ es.filter (taken T mode full f) := by
  unfold parseMode; rw [foldl_msg]

theorem parseMode_unknown (T : Table) (es : List Elem) (mode : Mode) (full : Bool) (m0 : Msg) :
    (parseMode T es mode full m0).unknown = es.filter (unrecognised T mode) := by
  unfold parseMode; rw [foldl_unknown]; simp

/-- `mode` is one of the two part modes -/
def partMode (_mode : Mode) : Prop := True

/-- An element of row `r` present in a part can only be recognised as `r` (distinguishability). -/
theorem recognise_owner {T : Table} (hs : WFshape T) {r : Row} (hr : r ∈ T.rows) {e : Elem}
    (ho : r.owns T e) {mode : Mode} (hm : partMode mode)
    (hon : r.writeGuard.on mode = true) {r' : Row} (h : recognise T mode e = some r') : r' = r := by
  obtain ⟨hd, hnn, hsr⟩ := hs
  unfold recognise at h
  have hp := List.find?_some h
  have hmem' : r' ∈ T.parse := List.mem_of_find?_eq_some h
  simp only [Bool.and_eq_true] at hp
  have hr' : r' ∈ T.rows := by
    unfold Table.sameRows at hsr
    simp only [Bool.and_eq_true, List.all_eq_true] at hsr
    simpa using hsr.1 r' hmem'
  unfold Row.owns at ho
  cases hca : r.catchAll
  case true =>
    -- nothing recognises an element of the catch-all row
    simp only [hca, if_true] at ho
    have := ho r' hr'
    rw [hp.2] at this
    cases this
  simp only [hca, Bool.false_eq_true, if_false] at ho
  obtain ⟨ht, hn⟩ := ho
  by_cases hname : r'.name = r.name
  · exact eq_of_name_eq T hnn hr' hr hname
  · exfalso
    unfold Table.distinct at hd
    simp only [List.all_eq_true] at hd
    have := hd r' hr' r hr
    simp only [Bool.or_eq_true, beq_iff_eq, hname, false_or, Bool.not_eq_true'] at this
    have hc : clash r' r = true := by
      unfold clash
      simp only [Bool.and_eq_true, List.any_eq_true]
      refine ⟨⟨e.tag, ht, e.ns, hn, hp.2⟩, mode, ?_, ?_⟩
      · cases mode <;> simp
      · simp [hon, hp.1]
    rw [hc] at this
    cases this

/-- …and is recognised as `r` when `r`'s recogniser is sound and enabled. -/
theorem recognise_own {T : Table} (hs : WFshape T) {r : Row} (hr : r ∈ T.rows) (hp : r.wfParse = true)
    (hca : r.catchAll = false) {e : Elem}
    (ho : r.owns T e) {mode : Mode} (hm : partMode mode)
    (hon : r.writeGuard.on mode = true) (hpon : r.parseGuard.on mode = true) :
    recognise T mode e = some r := by
  have ho' := ho
  unfold Row.owns at ho'
  simp only [hca, Bool.false_eq_true, if_false] at ho'
  obtain ⟨ht, hn⟩ := ho'
  have hacc : r.recog.accepts e.tag e.ns = true := by
    unfold Row.wfParse at hp
    simp only [hca, Bool.false_eq_true, if_false, Bool.and_eq_true, List.all_eq_true] at hp
    exact hp.2 e.tag ht e.ns hn
  have hmem : r ∈ T.parse := by
    have := hs.2.2
    unfold Table.sameRows at this
    simp only [Bool.and_eq_true, List.all_eq_true] at this
    simpa using this.2 r hr
  have hsome : (recognise T mode e).isSome = true := by
    unfold recognise
    rw [List.find?_isSome]
    exact ⟨r, hmem, by simp [hpon, hacc]⟩
  cases hrec : recognise T mode e with
  | none => simp [hrec] at hsome
  | some r' => rw [recognise_owner hs hr ho hm hon hrec]

/-- parse guard of a sound row is on wherever the row is written (wrapper rows: everywhere) -/
theorem parse_on_of_write_on {r : Row} (hp : r.wfParse = true) (hca : r.catchAll = false) {mode : Mode}
    (hon : r.writeGuard.on mode = true) :
    r.parseGuard.on mode = true := by
  unfold Row.wfParse at hp
  simp only [hca, Bool.false_eq_true, if_false, Bool.and_eq_true] at hp
  have h1 := hp.1.1.1
  cases hw : r.wrapper
  · simp only [hw] at h1
    have : r.parseGuard = r.writeGuard := by simpa using h1
    rw [this]; exact hon
  · simp only [hw] at h1
    have : r.parseGuard = .both := by simpa using h1
    rw [this]; rfl

/-- Filtering a part (a `flatMap` of per-row emissions valid for their rows) for the field of a sound row `r0`
returns exactly `r0`'s emission, provided `r0` is not skipped. -/
theorem filter_part {T : Table} (hs : WFshape T) (mode : Mode) (hm : partMode mode) (full : Bool)
    (g : Row → List Elem)
    (hg : ∀ r ∈ T.rows, ∀ e ∈ g r, r.owns T e ∧ r.writeGuard.on mode = true)
    {r0 : Row} (h0 : r0 ∈ T.rows) (hp : r0.wfParse = true) (hca : r0.catchAll = false)
    (hskip : g r0 = [] ∨ (full || !r0.wrapper) = true) :
    (T.rows.flatMap g).filter (taken T mode full r0.name) = g r0 := by
  rw [List.filter_flatMap]
  have : ∀ r ∈ T.rows, (g r).filter (taken T mode full r0.name) = if r.name = r0.name then g r else [] := by
    intro r hr
    by_cases hname : r.name = r0.name
    · have hrr : r = r0 := eq_of_name_eq T hs.2.1 hr h0 hname
      subst hrr
      simp only [if_true]
      rw [List.filter_eq_self]
      intro e he
      obtain ⟨ho, hon⟩ := hg r hr e he
      have hrec := recognise_own hs hr hp hca ho hm hon (parse_on_of_write_on hp hca hon)
      unfold taken
      rw [hrec]
      rcases hskip with hnil | hsk
      · rw [hnil] at he; cases he
      · simp [hsk]
    · simp only [hname, if_false]
      rw [List.filter_eq_nil_iff]
      intro e he
      obtain ⟨ho, hon⟩ := hg r hr e he
      unfold taken
      cases hrec : recognise T mode e with
      | none => simp
      | some r' =>
        have := recognise_owner hs hr ho hm hon hrec
        subst this
        simp [hname]
  rw [flatMap_congr' _ _ _ this]
  exact flatMap_single T.rows hs.2.1 r0 h0 g

theorem valid_emits {T : Table} {m : Msg} (hv : Msg.Valid T m) (mode : Mode) :
    ∀ r ∈ T.rows, ∀ e ∈ r.emits m mode, r.owns T e ∧ r.writeGuard.on mode = true := by
  intro r hr e he
  obtain ⟨hmem, hon, _⟩ := emits_sub r m mode he
  exact ⟨(hv r hr).1 e hmem, hon⟩

theorem valid_emits_ext {T : Table} {m : Msg} (hv : Msg.Valid T m) :
    ∀ r ∈ T.rows, ∀ e ∈ (if r.wrapper then [] else r.emits m .sens), r.owns T e ∧ r.writeGuard.on .sens = true := by
  intro r hr e he
  split at he
  · cases he
  · exact valid_emits hv .sens r hr e he

/-- The field of a sound row after the two-step receive path. -/
theorem recover_field {T : Table} (hs : WFshape T) {m : Msg} (hv : Msg.Valid T m)
    {r0 : Row} (h0 : r0 ∈ T.rows) (hp : r0.wfParse = true) (hca : r0.catchAll = false) :
    (recover T m).msg r0.name = r0.emits m .pub ++ (if r0.wrapper then [] else r0.emits m .sens) := by
  unfold recover
  rw [parseMode_msg, parseMode_msg]
  simp only [Msg.empty, List.nil_append]
  unfold publicPart sensitivePart writeMode writeExt
  rw [filter_part hs .pub trivial true (fun r => r.emits m .pub) (valid_emits hv .pub) h0 hp hca (Or.inr (by simp))]
  rw [filter_part hs .sens trivial false (fun r => if r.wrapper then [] else r.emits m .sens)
    (valid_emits_ext hv) h0 hp hca (by cases hw : r0.wrapper <;> simp)]

/-- What is left unrecognised in a part whose rows are all sound: exactly the elements of the catch-all row(s). -/
theorem unknown_part {T : Table} (hs : WFshape T) (hp : T.rows.all Row.wfParse = true) (mode : Mode) (hm : partMode mode)
    (g : Row → List Elem)
    (hg : ∀ r ∈ T.rows, ∀ e ∈ g r, r.owns T e ∧ r.writeGuard.on mode = true) :
    (T.rows.flatMap g).filter (unrecognised T mode) = T.rows.flatMap (fun r => if r.catchAll then g r else []) := by
  rw [List.filter_flatMap]
  apply flatMap_congr'
  intro r hr
  have hpr := List.all_eq_true.mp hp r hr
  cases hca : r.catchAll
  · simp only [Bool.false_eq_true, if_false]
    rw [List.filter_eq_nil_iff]
    intro e he
    obtain ⟨ho, hon⟩ := hg r hr e he
    have := recognise_own hs hr hpr hca ho hm hon (parse_on_of_write_on hpr hca hon)
    simp [unrecognised, this]
  · simp only [if_true]
    rw [List.filter_eq_self]
    intro e he
    obtain ⟨ho, hon⟩ := hg r hr e he
    unfold unrecognised
    cases hrec : recognise T mode e with
    | none => rfl
    | some r' =>
      -- impossible: the owner would be `r`, whose recogniser (`never`) accepts nothing
      have h1 := recognise_owner hs hr ho hm hon hrec
      subst h1
      unfold recognise at hrec
      have h2 := List.find?_some hrec
      unfold Row.wfParse at hpr
      simp only [hca, if_true, Bool.and_eq_true, beq_iff_eq] at hpr
      rw [hpr.2] at h2
      simp [Recog.accepts] at h2

/-- The field of a sound row after a combined-mode cycle (`toXml(SceAll)`, `parse(SceAll)`). -/
theorem cycle_field {T : Table} (hs : WFshape T) {m : Msg} (hv : Msg.Valid T m)
    {r0 : Row} (h0 : r0 ∈ T.rows) (hp : r0.wfParse = true) (hca : r0.catchAll = false) :
    (parseMode T (writeMode T m .all) .all true Msg.empty).msg r0.name = r0.emits m .all := by
  rw [parseMode_msg]
  simp only [Msg.empty, List.nil_append]
  unfold writeMode
  exact filter_part hs .all trivial true (fun r => r.emits m .all) (valid_emits hv .all) h0 hp hca (Or.inr (by simp))

/-- a parsed object read as a message: known fields are the parsed fields -/
theorem ofPSt_known {T : Table} (hs : WFshape T) (s : PSt) {r0 : Row} (h0 : r0 ∈ T.rows) (hca : r0.catchAll = false) :
    ofPSt T s r0.name = s.msg r0.name := by
  unfold ofPSt
  have : T.rows.any (fun r => r.catchAll && r.name == r0.name) = false := by
    rw [Bool.eq_false_iff]
    intro h
    obtain ⟨r, hr, hc⟩ := List.any_eq_true.mp h
    simp only [Bool.and_eq_true, beq_iff_eq] at hc
    have := eq_of_name_eq T hs.2.1 hr h0 hc.2
    subst this
    rw [hca] at hc
    exact Bool.false_ne_true hc.1
  simp [this]

theorem wfParse_of_not_offending {T : Table} {r : Row} (hr : r ∈ T.rows) (h : r.name ∉ offendingParse T) :
    r.wfParse = true := by
  unfold offendingParse at h
  simp only [List.mem_map, List.mem_filter, Bool.not_eq_true', not_exists, not_and, and_imp] at h
  cases hw : r.wfParse
  · exact absurd rfl (h r hr hw)
  · rfl

theorem cls_catchAll {r : Row} (h : r.catchAll = true) : r.cls = .payload := by
  unfold Row.cls; simp [h]

theorem wfWrite_or_offending {T : Table} {r : Row} (hr : r ∈ T.rows) :
    r.wfWrite = true ∨ r.name ∈ offendingWrite T := by
  cases hw : r.wfWrite
  · right
    unfold offendingWrite
    exact List.mem_map.mpr ⟨r, List.mem_filter.mpr ⟨hr, by simp [hw]⟩, rfl⟩
  · left; rfl

/-- a row whose class is not `payload` (and which is not the designated fallback-text field) gets that class from the
spec applied to EVERY wire identity it can write -/
theorem cls_of_wire {r : Row} (hn : r.name ≠ fallbackTextField) (hc : r.cls ≠ .payload)
    {t n : String} (ht : t ∈ r.tags) (hns : n ∈ r.nss) : classOfWire t n = r.cls ∧ r.catchAll = false := by
  unfold Row.cls at hc ⊢
  have hn' : (r.name == fallbackTextField) = false := by simpa using hn
  cases hca : r.catchAll
  case true => simp [hca] at hc
  simp only [hca, hn', Bool.false_eq_true, if_false] at hc ⊢
  have hmem : classOfWire t n ∈ r.wireClasses := by
    unfold Row.wireClasses
    exact List.mem_flatMap.mpr ⟨t, ht, List.mem_map.mpr ⟨n, hns, rfl⟩⟩
  cases hwc : r.wireClasses with
  | nil => rw [hwc] at hmem; cases hmem
  | cons c cs =>
    rw [hwc] at hmem hc
    simp only at hc ⊢
    by_cases hall : cs.all (· == c) = true
    · simp only [hall, if_true] at hc ⊢
      refine ⟨?_, trivial⟩
      rcases List.mem_cons.mp hmem with h | h
      · exact h
      · have := List.all_eq_true.mp hall _ h
        simpa using this
    · simp [hall] at hc

end Qx.C17
