import Qx.Proofs.C04
/-!
# C10 — helper lemmas (connection loss at any point)

Uses the shared negotiation model (`Qx/Model/C04Negotiation.lean`).
-/
namespace Qx.C10
open Qx.C04

/-- the fields that describe the progress of ONE connection's negotiation and must not leak into the next attempt
(`bind2Bound` is listed separately: it is the one that leaks) -/
structure NegView where
  listener : Listener
  streamIdSet : Bool
  streamVersionSet : Bool
  encrypted : Bool
  headerSeen : Bool
  wedged : Bool
  authenticated : Bool
  sessionStarted : Bool
  smEnabled : Bool
  smResumed : Bool
  ackEnabled : Bool
  redirect : Bool
  deriving DecidableEq, Repr

def negView (s : St) : NegView :=
  { listener := s.listener, streamIdSet := s.streamIdSet, streamVersionSet := s.streamVersionSet,
    encrypted := s.encrypted, headerSeen := s.headerSeen, wedged := s.wedged, authenticated := s.authenticated,
    sessionStarted := s.sessionStarted, smEnabled := s.smEnabled, smResumed := s.smResumed,
    ackEnabled := s.ackEnabled, redirect := s.redirect }

/-- the connection is cut and the application connects again -/
def cutAndReconnect : List Ev := [.socketDisconnected, .connectToServer, .socketConnected]

/-- protocol-conforming continuation after a (re)connect: SASL PLAIN, stream restart, classic resource binding -/
def flowSaslBind : List Ev :=
  [.recv (.header true true), .recv (.features { mechs := some .plain }), .recv (.saslSuccess true),
   .recv (.header true true), .recv (.features { bind := true }), .recv (.iq (.bindResult .ok))]

/-- STARTTLS first, then the same -/
def flowTlsSaslBind : List Ev :=
  [.recv (.header true true), .recv (.features { tls := .optional }), .recv (.proceed true)] ++ flowSaslBind

/-- SASL2 with bind2 (inline stream management), then the post-authentication features -/
def flowSasl2Bind2 : List Ev :=
  [.recv (.header true true),
   .recv (.features { sasl2 := some { mech := .plain, bind2 := true, bind2Ext := true, fast := false, smInline := false } }),
   .recv (.s2Success .smEnabled .none false true), .recv (.features { sm := true })]

/-- legacy XEP-0078 login as a conforming pre-1.0 server runs it -/
def flowLegacy : List Ev :=
  [.recv (.header false true), .recv (.iq (.authFields true true)), .recv (.iq (.authResult true))]

theorem run_append (s : St) (a b : List Ev) :
    run s (a ++ b) = ((run (run s a).1 b).1, (run s a).2 ++ (run (run s a).1 b).2) := by
  induction a generalizing s with
  | nil => simp [run]
  | cons e es ih => simp [run, ih, List.append_assoc]

/-- time passing changes no state; it writes at most one element (`<r/>` or a ping) -/
theorem tick_cases (s : St) : step s .tick = (s, []) ∨ ∃ k, step s .tick = (s, [send s k]) := by
  simp only [step, sendPing]
  split
  · split
    · exact Or.inr ⟨_, rfl⟩
    · exact Or.inr ⟨_, rfl⟩
  · exact Or.inl rfl

/-- what `n` retry-requests produce when they are cancelled on a dead socket without stream management: each fails, its
continuation sends the retry (logged, nothing transmitted), which fails at once -/
def failedRetries (n : Nat) : List Out :=
  (List.replicate n [Out.sig (.iqDone true), .sent (.iqRequest false) .down, .sig (.iqDone true)]).flatten

theorem retryN_down (n : Nat) (t : St) (ha : t.ackEnabled = false) (hc : t.conn ≠ .connected) :
    retryN n t = (t, failedRetries n) := by
  induction n with
  | zero => rfl
  | succ n ih =>
    have e : sendIq t = (t, [.sent (.iqRequest false) .down, .sig (.iqDone true)]) := by
      simp [sendIq, sendStanza, ha, hc, send, link]
    simp only [retryN, e, ih, failedRetries, List.replicate_succ, List.flatten_cons]

/-- state right after cut + reconnect, from ANY state with a live connection and no pending redirect -/
theorem cut_reconnect_state (s : St) (hc : s.conn = .connected) (hr : s.redirect = false) :
    (run s cutAndReconnect).1 =
      { s with conn := .connected, encrypted := false, headerSeen := false, wedged := false, listener := .idle,
               streamIdSet := false, streamVersionSet := false, authenticated := false, sessionStarted := false,
               smEnabled := false, smResumed := false, ackEnabled := false, bind2Bound := false,
               pendingIq := s.pendingIq - (if s.canResume then 0 else s.pendingIq),
               pendingRetry := s.pendingRetry - (if s.canResume then 0 else s.pendingRetry),
               hasToken := s.cfg.token, target := connectTarget s, peerShutdown := false } := by
  have hdown : ∀ (n : Nat) (t : St), t.ackEnabled = false → t.conn ≠ .connected → (retryN n t).1 = t := by
    intro n
    induction n with
    | zero => intro t _ _; rfl
    | succ n ih =>
      intro t ha hcn
      have e : (sendIq t).1 = t := by simp [sendIq, sendStanza, ha, hcn]
      show (retryN n (sendIq t).1).1 = t
      rw [e]; exact ih t ha hcn
  simp [cutAndReconnect, run, step, connectTo, socketGone, hc, onSocketDisconnected, hr, closeSession, handleStart, connectTarget, hdown]

/-! ### frame facts about `openSession` -/

/-- the fields `openSession` (and what it calls) never touches -/
structure SameCore (a b : St) : Prop where
  cfg : b.cfg = a.cfg
  conn : b.conn = a.conn
  encrypted : b.encrypted = a.encrypted
  headerSeen : b.headerSeen = a.headerSeen
  wedged : b.wedged = a.wedged
  listener : b.listener = a.listener
  authenticated : b.authenticated = a.authenticated
  redirect : b.redirect = a.redirect
  smEnabled : b.smEnabled = a.smEnabled
  smResumed : b.smResumed = a.smResumed
  smAvail : b.smAvail = a.smAvail
  bindAvail : b.bindAvail = a.bindAvail
  ackEnabled : b.ackEnabled = a.ackEnabled

theorem SameCore.refl (a : St) : SameCore a a := ⟨rfl, rfl, rfl, rfl, rfl, rfl, rfl, rfl, rfl, rfl, rfl, rfl, rfl⟩

theorem SameCore.trans {a b c : St} (h1 : SameCore a b) (h2 : SameCore b c) : SameCore a c :=
  ⟨h2.cfg.trans h1.cfg, h2.conn.trans h1.conn, h2.encrypted.trans h1.encrypted, h2.headerSeen.trans h1.headerSeen,
   h2.wedged.trans h1.wedged, h2.listener.trans h1.listener, h2.authenticated.trans h1.authenticated,
   h2.redirect.trans h1.redirect, h2.smEnabled.trans h1.smEnabled,
   h2.smResumed.trans h1.smResumed, h2.smAvail.trans h1.smAvail, h2.bindAvail.trans h1.bindAvail,
   h2.ackEnabled.trans h1.ackEnabled⟩

theorem sendStanza_core (s : St) (k : Kind) :
    SameCore s (sendStanza s k).1 ∧ (sendStanza s k).1.sessionStarted = s.sessionStarted ∧
    (sendStanza s k).1.pendingIq = s.pendingIq := by
  unfold sendStanza
  split
  · exact ⟨⟨rfl, rfl, rfl, rfl, rfl, rfl, rfl, rfl, rfl, rfl, rfl, rfl, rfl⟩, rfl, rfl⟩
  · exact ⟨SameCore.refl s, rfl, rfl⟩

theorem sendIqRetry_core (s : St) : SameCore s (sendIqRetry s).1 ∧ (sendIqRetry s).1.sessionStarted = s.sessionStarted := by
  unfold sendIqRetry sendIq sendStanza
  dsimp only
  (repeat' split) <;> exact ⟨⟨rfl, rfl, rfl, rfl, rfl, rfl, rfl, rfl, rfl, rfl, rfl, rfl, rfl⟩, rfl⟩

theorem csiSendState_core (s : St) :
    SameCore s (csiSendState s).1 ∧ (csiSendState s).1.sessionStarted = s.sessionStarted ∧
    (csiSendState s).1.pendingIq = s.pendingIq := by
  unfold csiSendState
  split <;> exact ⟨⟨rfl, rfl, rfl, rfl, rfl, rfl, rfl, rfl, rfl, rfl, rfl, rfl, rfl⟩, rfl, rfl⟩

theorem csiOnSessionOpened_core (s : St) (b : Bool) :
    SameCore s (csiOnSessionOpened s b).1 ∧ (csiOnSessionOpened s b).1.sessionStarted = s.sessionStarted ∧
    (csiOnSessionOpened s b).1.pendingIq = s.pendingIq := by
  unfold csiOnSessionOpened
  split
  · split
    · exact ⟨SameCore.refl s, rfl, rfl⟩
    · exact csiSendState_core s
  · split
    · exact ⟨⟨rfl, rfl, rfl, rfl, rfl, rfl, rfl, rfl, rfl, rfl, rfl, rfl, rfl⟩, rfl, rfl⟩
    · exact csiSendState_core s

theorem retryN_core (n : Nat) (s : St) : SameCore s (retryN n s).1 ∧ (retryN n s).1.sessionStarted = s.sessionStarted :=
  ⟨⟨by simp, by simp, by simp, by simp, by simp, by simp, by simp, by simp, by simp, by simp, by simp, by simp, by simp⟩, by simp⟩

theorem cancelOld_core (s : St) :
    SameCore s (cancelOld s).1 ∧ (cancelOld s).1.sessionStarted = s.sessionStarted ∧
    (s.pendingRetry = 0 → (cancelOld s).1.pendingIq = (if s.smResumed then s.pendingIq else 0)) := by
  unfold cancelOld
  split
  · rename_i h
    exact ⟨SameCore.refl s, rfl, fun _ => by simp [h]⟩
  · rename_i h
    have c := retryN_core s.pendingRetry { s with pendingIq := 0, pendingRetry := 0 }
    have e0 : SameCore s { s with pendingIq := 0, pendingRetry := 0 } := ⟨rfl, rfl, rfl, rfl, rfl, rfl, rfl, rfl, rfl, rfl, rfl, rfl, rfl⟩
    refine ⟨e0.trans c.1, c.2, fun h0 => ?_⟩
    simp [h0, retryN, h]

/-- what `openSession` does to the fields the C10 theorems talk about -/
theorem openSession_spec (s : St) :
    .sig .connected ∈ (openSession s).2 ∧ (openSession s).1.sessionStarted = true ∧
    SameCore s (openSession s).1 ∧
    (s.pendingRetry = 0 → (openSession s).1.pendingIq = (if s.smResumed then s.pendingIq else 0)) := by
  unfold openSession
  dsimp only
  have h2 := cancelOld_core { s with sessionStarted := true, bind2Bound := false, canResume := s.smEnabled && s.canResume }
  generalize cancelOld { s with sessionStarted := true, bind2Bound := false, canResume := s.smEnabled && s.canResume } = r2 at h2
  have f3 := csiOnSessionOpened_core r2.1 s.bind2Bound
  generalize csiOnSessionOpened r2.1 s.bind2Bound = r3 at f3
  generalize hr4 : (if r3.1.authenticated = true then sendStanza r3.1 (.iqRequest true) else (r3.1, [])) = r4
  have f4 : SameCore r3.1 r4.1 ∧ r4.1.sessionStarted = r3.1.sessionStarted ∧ r4.1.pendingIq = r3.1.pendingIq := by
    subst hr4
    split
    · exact sendStanza_core _ _
    · exact ⟨SameCore.refl _, rfl, rfl⟩
  generalize hr5 : (if r4.1.authenticated = true ∧ ¬ r4.1.smResumed = true then sendStanza r4.1 .presence else (r4.1, [])) = r5
  have f5 : SameCore r4.1 r5.1 ∧ r5.1.sessionStarted = r4.1.sessionStarted ∧ r5.1.pendingIq = r4.1.pendingIq := by
    subst hr5
    split
    · exact sendStanza_core _ _
    · exact ⟨SameCore.refl _, rfl, rfl⟩
  refine ⟨by simp, ?_, ?_, ?_⟩
  · rw [f5.2.1, f4.2.1, f3.2.1]; exact h2.2.1
  · have e0 : SameCore s { s with sessionStarted := true, bind2Bound := false, canResume := s.smEnabled && s.canResume } :=
      ⟨rfl, rfl, rfl, rfl, rfl, rfl, rfl, rfl, rfl, rfl, rfl, rfl, rfl⟩
    exact (((e0.trans h2.1).trans f3.1).trans f4.1).trans f5.1
  · intro h0
    rw [f5.2.2, f4.2.2, f3.2.2]; exact h2.2.2 h0

/-! ### one negotiation step at a time

`Ph c enc l auth sess s`: the fields of `s` a negotiation step looks at. -/

structure Ph (c : Cfg) (enc : Bool) (l : Listener) (auth sess : Bool) (s : St) : Prop where
  /-- the configuration, which does not hand the stream features to a registration manager -/
  cfg : s.cfg = c ∧ c.registerOnConnect = false
  conn : s.conn = .connected
  wedged : s.wedged = false
  enc : s.encrypted = enc
  listener : s.listener = l
  auth : s.authenticated = auth
  sess : s.sessionStarted = sess
  red : s.redirect = false

theorem noStarttls {c enc l auth sess s} (h : Ph c enc l auth sess s) (f : Features) (hf : f.tls = .absent)
    (htls : enc = true ∨ c.tls ≠ .required) : handleStarttls s f = none := by
  unfold handleStarttls
  rcases htls with h' | h'
  · simp [h.enc, h']
  · simp [h.cfg, hf, h']

theorem ph_header {c enc l auth sess s} (h : Ph c enc l auth sess s) (i : Bool) :
    Ph c enc l auth sess (step s (.recv (.header true i))).1 ∧
    (step s (.recv (.header true i))).1.headerSeen = true ∧ (step s (.recv (.header true i))).2 = [] := by
  obtain ⟨h1, h2, h3, h4, h5, h6, h7, h8⟩ := h
  by_cases hv : s.streamVersionSet = true
  · have e : step s (.recv (.header true i)) =
        ({ s with headerSeen := true, streamIdSet := s.streamIdSet || i }, []) := by
      simp [step, recv, h2, h3, handleStream, hv]
    rw [e]
    exact ⟨⟨h1, h2, h3, h4, h5, h6, h7, h8⟩, rfl, rfl⟩
  · have e : step s (.recv (.header true i)) =
        ({ s with headerSeen := true, streamIdSet := s.streamIdSet || i, streamVersionSet := true }, []) := by
      simp [step, recv, h2, h3, handleStream, hv]
    rw [e]
    exact ⟨⟨h1, h2, h3, h4, h5, h6, h7, h8⟩, rfl, rfl⟩

theorem ph_features_saslPlain {c enc auth sess s} (h : Ph c enc .idle auth sess s) (hh : s.headerSeen = true)
    (htls : enc = true ∨ c.tls ≠ .required) (hsasl : c.useSasl = true) (hplain : c.plainOk = true) :
    Ph c enc (.sasl .plain true) auth sess (step s (.recv (.features { mechs := some .plain }))).1 ∧
    (step s (.recv (.features { mechs := some .plain }))).1.headerSeen = true := by
  have hst := noStarttls h { mechs := some .plain } rfl htls
  obtain ⟨h1, h2, h3, h4, h5, h6, h7, h8⟩ := h
  have e : step s (.recv (.features { mechs := some .plain })) =
      ({ s with listener := .sasl .plain true }, [send s (.saslAuth .plain)]) := by
    simp [step, recv, h2, h3, hh, dispatch, h5, idleHandle, idleGuarded, El.isStreamLevel, St.preTls, idleHandle', handleFeatures, handleFeaturesOwn, h1, hst, h1, hsasl, startSasl, mechUsable, hplain]
  rw [e]
  exact ⟨⟨h1, h2, h3, h4, rfl, h6, h7, h8⟩, hh⟩

theorem ph_saslSuccess {c enc fr auth sess s} (h : Ph c enc (.sasl .plain fr) auth sess s) (hh : s.headerSeen = true) :
    Ph c enc .idle true sess (step s (.recv (.saslSuccess true))).1 ∧ (step s (.recv (.saslSuccess true))).1.headerSeen = true := by
  obtain ⟨h1, h2, h3, h4, h5, h6, h7, h8⟩ := h
  have e : (step s (.recv (.saslSuccess true))).1 =
      { s with authenticated := true, streamIdSet := false, streamVersionSet := false, listener := .idle,
               bind2Bound := false, smEnabled := false, smResumed := false } := by
    simp [step, recv, h2, h3, hh, dispatch, h5, saslHandle, handleStart, successOk]
  rw [e]
  exact ⟨⟨h1, h2, h3, h4, rfl, rfl, h7, h8⟩, hh⟩

theorem ph_features_bind {c enc auth sess s} (h : Ph c enc .idle auth sess s) (hh : s.headerSeen = true)
    (htls : enc = true ∨ c.tls ≠ .required) :
    Ph c enc .bind auth sess (step s (.recv (.features { bind := true }))).1 ∧
    (step s (.recv (.features { bind := true }))).1.headerSeen = true ∧
    (step s (.recv (.features { bind := true }))).1.smAvail = false := by
  have hst := noStarttls h { bind := true } rfl htls
  obtain ⟨h1, h2, h3, h4, h5, h6, h7, h8⟩ := h
  have e : (step s (.recv (.features { bind := true }))).1 =
      { s with bindAvail := true, smAvail := false, csiAvail := false, listener := .bind } := by
    simp [step, recv, h2, h3, hh, dispatch, h5, idleHandle, idleGuarded, El.isStreamLevel, St.preTls, idleHandle', handleFeatures, handleFeaturesOwn, h1, hst, startBind]
  rw [e]
  exact ⟨⟨h1, h2, h3, h4, rfl, h6, h7, h8⟩, hh, rfl⟩

theorem ph_bindOk {c enc auth sess s} (h : Ph c enc .bind auth sess s) (hh : s.headerSeen = true)
    (hsm : s.smAvail = false) :
    .sig .connected ∈ (step s (.recv (.iq (.bindResult .ok)))).2 ∧
    Ph c enc .idle auth true (step s (.recv (.iq (.bindResult .ok)))).1 := by
  obtain ⟨h1, h2, h3, h4, h5, h6, h7, h8⟩ := h
  have sp := openSession_spec s
  have e : step s (.recv (.iq (.bindResult .ok))) = ({ (openSession s).1 with listener := .idle }, (openSession s).2) := by
    simp [step, recv, h2, h3, hh, dispatch, h5, bindHandle, hsm]
  rw [e]
  have co := sp.2.2.1
  exact ⟨sp.1, ⟨⟨co.cfg.trans h1.1, h1.2⟩, co.conn.trans h2, co.wedged.trans h3, co.encrypted.trans h4, rfl, co.authenticated.trans h6,
    sp.2.1, co.redirect.trans h8⟩⟩

/-- a connection on which the stream has just been opened and nothing was received yet -/
structure Fresh (s : St) : Prop where
  conn : s.conn = .connected
  wedged : s.wedged = false
  listener : s.listener = .idle
  version : s.streamVersionSet = false
  session : s.sessionStarted = false
  redirect : s.redirect = false

theorem fresh_after_cut (s : St) (hc : s.conn = .connected) (hr : s.redirect = false) :
    Fresh (run s cutAndReconnect).1 ∧ (run s cutAndReconnect).1.encrypted = false ∧
    (run s cutAndReconnect).1.cfg = s.cfg := by
  rw [cut_reconnect_state s hc hr]
  exact ⟨⟨rfl, rfl, rfl, rfl, rfl, hr⟩, rfl, rfl⟩

theorem run_cons (s : St) (e : Ev) (es : List Ev) :
    run s (e :: es) = ((run (step s e).1 es).1, (step s e).2 ++ (run (step s e).1 es).2) := rfl

/-- SASL PLAIN + bind on a stream that has just been opened ends in an established, authenticated session — provided the
configuration lets the client use SASL PLAIN and does not insist on TLS on an unencrypted link -/
theorem flowSaslBind_connects {c enc auth s} (h0 : Ph c enc .idle auth false s)
    (hsasl : c.useSasl = true) (hplain : c.plainOk = true) (htls : enc = true ∨ c.tls ≠ .required) :
    .sig .connected ∈ (run s flowSaslBind).2 ∧ Ph c enc .idle true true (run s flowSaslBind).1 := by
  have a1 := ph_header h0 true
  have a2 := ph_features_saslPlain a1.1 a1.2.1 htls hsasl hplain
  have a3 := ph_saslSuccess a2.1 a2.2
  have a4 := ph_header a3.1 true
  have a5 := ph_features_bind a4.1 a4.2.1 htls
  have a6 := ph_bindOk a5.1 a5.2.1 a5.2.2
  simp only [flowSaslBind, run_cons, run]
  refine ⟨?_, a6.2⟩
  simp only [List.mem_append]
  right; right; right; right; right; left
  exact a6.1

theorem ph_features_starttls {c auth sess s} (h : Ph c false .idle auth sess s) (hh : s.headerSeen = true)
    (hl : c.localTls = true) (ht : c.tls ≠ .disabled) :
    Ph c false .starttls auth sess (step s (.recv (.features { tls := .optional }))).1 ∧
    (step s (.recv (.features { tls := .optional }))).1.headerSeen = true := by
  obtain ⟨h1, h2, h3, h4, h5, h6, h7, h8⟩ := h
  have hst : handleStarttls s { tls := .optional } = some ({ s with listener := .starttls }, [send s .startTls]) := by
    unfold handleStarttls
    simp [h4, h1, hl, ht]
  have e : step s (.recv (.features { tls := .optional })) = ({ s with listener := .starttls }, [send s .startTls]) := by
    simp [step, recv, h2, h3, hh, dispatch, h5, idleHandle, idleGuarded, El.isStreamLevel, St.preTls, idleHandle', handleFeatures, handleFeaturesOwn, h1, hst]
  rw [e]
  exact ⟨⟨h1, h2, h3, h4, rfl, h6, h7, h8⟩, hh⟩

theorem ph_proceed {c auth sess s} (h : Ph c false .starttls auth sess s) (hh : s.headerSeen = true) :
    Ph c true .idle auth sess (step s (.recv (.proceed true))).1 := by
  obtain ⟨h1, h2, h3, h4, h5, h6, h7, h8⟩ := h
  have e : (step s (.recv (.proceed true))).1 =
      { s with encrypted := true, headerSeen := false, listener := .idle, streamIdSet := false, streamVersionSet := false,
               bind2Bound := false, smEnabled := false, smResumed := false } := by
    simp [step, recv, h2, h3, hh, dispatch, h5, starttlsHandle, handleStart]
  rw [e]
  exact ⟨h1, h2, h3, rfl, rfl, h6, h7, h8⟩

theorem flowTlsSaslBind_connects {c auth s} (h0 : Ph c false .idle auth false s)
    (hl : c.localTls = true) (ht : c.tls ≠ .disabled) (hsasl : c.useSasl = true) (hplain : c.plainOk = true) :
    .sig .connected ∈ (run s flowTlsSaslBind).2 ∧ Ph c true .idle true true (run s flowTlsSaslBind).1 := by
  have a1 := ph_header h0 true
  have a2 := ph_features_starttls a1.1 a1.2.1 hl ht
  have a3 := ph_proceed a2.1 a2.2
  have a4 := flowSaslBind_connects a3 hsasl hplain (Or.inl rfl)
  have e : flowTlsSaslBind = .recv (.header true true) :: .recv (.features { tls := .optional }) :: .recv (.proceed true) :: flowSaslBind := rfl
  rw [e]
  simp only [run_cons]
  refine ⟨?_, a4.2⟩
  simp only [List.mem_append]
  right; right; right
  exact a4.1

def s2z : S2Feat := { mech := .plain, bind2 := true, bind2Ext := true, fast := false, smInline := false }

theorem ph_features_sasl2 {c enc auth sess s} (h : Ph c enc .idle auth sess s) (hh : s.headerSeen = true)
    (htls : enc = true ∨ c.tls ≠ .required) (hs2 : c.useSasl2 = true) (hplain : c.plainOk = true) :
    Ph c enc (.sasl2 .plain true) auth sess (step s (.recv (.features { sasl2 := some s2z }))).1 ∧
    (step s (.recv (.features { sasl2 := some s2z }))).1.headerSeen = true := by
  have hst := noStarttls h { sasl2 := some s2z } rfl htls
  simp only [s2z] at hst
  obtain ⟨h1, h2, h3, h4, h5, h6, h7, h8⟩ := h
  have e : (step s (.recv (.features { sasl2 := some s2z }))).1 =
      { s with bind2InactiveSet := s.cfg.inactive, tokenRequested := false, listener := .sasl2 .plain true } := by
    simp [step, recv, h2, h3, hh, dispatch, h5, idleHandle, idleGuarded, El.isStreamLevel, St.preTls, idleHandle', handleFeatures, handleFeaturesOwn, h1, hst, h1, hs2, startSasl2, s2z, mechUsable, hplain]
  rw [e]
  exact ⟨⟨h1, h2, h3, h4, rfl, h6, h7, h8⟩, hh⟩

theorem enableAck_core (s : St) : SameCore { s with ackEnabled := true } (enableAck s).1 ∧
    (enableAck s).1.sessionStarted = s.sessionStarted := by
  unfold enableAck
  exact ⟨SameCore.refl _, rfl⟩

theorem ph_s2Success {c enc u fr auth s} (h : Ph c enc (.sasl2 u fr) auth false s) (hh : s.headerSeen = true)
    (hok : successOk u fr true = true) :
    Ph c enc .idle true false (step s (.recv (.s2Success .smEnabled .none false true))).1 ∧
    (step s (.recv (.s2Success .smEnabled .none false true))).1.headerSeen = true ∧
    (step s (.recv (.s2Success .smEnabled .none false true))).1.smEnabled = true := by
  obtain ⟨h1, h2, h3, h4, h5, h6, h7, h8⟩ := h
  have e : (step s (.recv (.s2Success .smEnabled .none false true))).1 =
      { s with authenticated := true, bind2Bound := true, hasToken := s.hasToken, canResume := true, smEnabled := true,
               ackEnabled := true, listener := .idle, resumeLoc := false } := by
    simp [step, recv, h2, h3, hh, dispatch, h5, sasl2Handle, onSmEnabled, enableAck, hok]
  rw [e]
  exact ⟨⟨h1, h2, h3, h4, rfl, rfl, h7, h8⟩, hh, rfl⟩

theorem ph_features_sm_done {c enc auth s} (h : Ph c enc .idle auth false s) (hh : s.headerSeen = true)
    (htls : enc = true ∨ c.tls ≠ .required) (hsm : s.smEnabled = true) :
    .sig .connected ∈ (step s (.recv (.features { sm := true }))).2 ∧
    Ph c enc .idle auth true (step s (.recv (.features { sm := true }))).1 := by
  have hst := noStarttls h { sm := true } rfl htls
  obtain ⟨h1, h2, h3, h4, h5, h6, h7, h8⟩ := h
  have e : step s (.recv (.features { sm := true })) =
      openSession { s with bindAvail := false, smAvail := true, csiAvail := false } := by
    simp [step, recv, h2, h3, hh, dispatch, h5, idleHandle, idleGuarded, El.isStreamLevel, St.preTls, idleHandle', handleFeatures, handleFeaturesOwn, h1, hst, hsm]
  rw [e]
  have sp := openSession_spec { s with bindAvail := false, smAvail := true, csiAvail := false }
  have co := sp.2.2.1
  exact ⟨sp.1, ⟨⟨co.cfg.trans h1.1, h1.2⟩, co.conn.trans h2, co.wedged.trans h3, co.encrypted.trans h4, co.listener.trans h5,
    co.authenticated.trans h6, sp.2.1, co.redirect.trans h8⟩⟩

theorem flowSasl2Bind2_connects {c enc auth s} (h0 : Ph c enc .idle auth false s)
    (hs2 : c.useSasl2 = true) (hplain : c.plainOk = true) (htls : enc = true ∨ c.tls ≠ .required) :
    .sig .connected ∈ (run s flowSasl2Bind2).2 ∧ Ph c enc .idle true true (run s flowSasl2Bind2).1 := by
  have a1 := ph_header h0 true
  have a2 := ph_features_sasl2 a1.1 a1.2.1 htls hs2 hplain
  have a3 := ph_s2Success a2.1 a2.2 rfl
  have a4 := ph_features_sm_done a3.1 a3.2.1 htls a3.2.2
  have e : flowSasl2Bind2 = [.recv (.header true true), .recv (.features { sasl2 := some s2z }),
      .recv (.s2Success .smEnabled .none false true), .recv (.features { sm := true })] := rfl
  rw [e]
  simp only [run_cons, run]
  refine ⟨?_, a4.2⟩
  simp only [List.mem_append]
  right; right; right; left
  exact a4.1

/-- cut + reconnect from any state with a live connection: a fresh, unencrypted, unauthenticated stream -/
theorem ph_after_cut (s : St) (hc : s.conn = .connected) (hr : s.redirect = false) (hreg : s.cfg.registerOnConnect = false) :
    Ph s.cfg false .idle false false (run s cutAndReconnect).1 := by
  rw [cut_reconnect_state s hc hr]
  exact ⟨⟨rfl, hreg⟩, rfl, rfl, rfl, rfl, rfl, rfl, hr⟩

theorem isConnected_of (s : St) (hc : s.conn = .connected) (hs : s.sessionStarted = true) : isConnected s = true := by
  simp [isConnected, hc, hs]

theorem not_isConnected_of (s : St) (hs : s.sessionStarted = false) : isConnected s = false := by
  simp [isConnected, hs]

/-! ### counting `connected` / `disconnected` signals -/

def nC (os : List Out) : Nat := os.count (.sig .connected)
def nD (os : List Out) : Nat := os.count (.sig .disconnected)

@[simp] theorem nC_nil : nC [] = 0 := rfl
@[simp] theorem nD_nil : nD [] = 0 := rfl
@[simp] theorem nC_append (a b : List Out) : nC (a ++ b) = nC a + nC b := by simp [nC, List.count_append]
@[simp] theorem nD_append (a b : List Out) : nD (a ++ b) = nD a + nD b := by simp [nD, List.count_append]
@[simp] theorem nC_cons_sent (k : Kind) (l : Link) (r : List Out) : nC (.sent k l :: r) = nC r := by
  simp [nC, List.count_cons]
@[simp] theorem nD_cons_sent (k : Kind) (l : Link) (r : List Out) : nD (.sent k l :: r) = nD r := by
  simp [nD, List.count_cons]
@[simp] theorem nC_cons_send (s : St) (k : Kind) (r : List Out) : nC (send s k :: r) = nC r := by simp [send]
@[simp] theorem nD_cons_send (s : St) (k : Kind) (r : List Out) : nD (send s k :: r) = nD r := by simp [send]
@[simp] theorem nC_cons_connected (r : List Out) : nC (.sig .connected :: r) = nC r + 1 := by simp [nC, List.count_cons]
@[simp] theorem nD_cons_connected (r : List Out) : nD (.sig .connected :: r) = nD r := by simp [nD, List.count_cons]
@[simp] theorem nC_cons_disconnected (r : List Out) : nC (.sig .disconnected :: r) = nC r := by simp [nC, List.count_cons]
@[simp] theorem nD_cons_disconnected (r : List Out) : nD (.sig .disconnected :: r) = nD r + 1 := by simp [nD, List.count_cons]
@[simp] theorem nC_cons_error (r : List Out) : nC (.sig .error :: r) = nC r := by simp [nC, List.count_cons]
@[simp] theorem nD_cons_error (r : List Out) : nD (.sig .error :: r) = nD r := by simp [nD, List.count_cons]
@[simp] theorem nC_cons_iqDone (b : Bool) (r : List Out) : nC (.sig (.iqDone b) :: r) = nC r := by simp [nC, List.count_cons]
@[simp] theorem nD_cons_iqDone (b : Bool) (r : List Out) : nD (.sig (.iqDone b) :: r) = nD r := by simp [nD, List.count_cons]
@[simp] theorem nC_iqDones (n : Nat) : nC (iqDones n) = 0 := by
  induction n with
  | zero => rfl
  | succ n ih => simp [iqDones, List.replicate_succ] at *; exact ih
@[simp] theorem nD_iqDones (n : Nat) : nD (iqDones n) = 0 := by
  induction n with
  | zero => rfl
  | succ n ih => simp [iqDones, List.replicate_succ] at *; exact ih
@[simp] theorem nC_map_send (s : St) (ks : List Kind) : nC (ks.map (send s)) = 0 := by
  induction ks with
  | nil => rfl
  | cons k ks ih => simp [ih]
@[simp] theorem nD_map_send (s : St) (ks : List Kind) : nD (ks.map (send s)) = 0 := by
  induction ks with
  | nil => rfl
  | cons k ks ih => simp [ih]

@[simp] theorem nC_sendStanza (s : St) (k : Kind) : nC (sendStanza s k).2 = 0 := by unfold sendStanza; split <;> simp
@[simp] theorem nD_sendStanza (s : St) (k : Kind) : nD (sendStanza s k).2 = 0 := by unfold sendStanza; split <;> simp
@[simp] theorem nC_sendIq' (s : St) : nC (sendIq s).2 = 0 := by unfold sendIq; dsimp only; split <;> simp
@[simp] theorem nD_sendIq' (s : St) : nD (sendIq s).2 = 0 := by unfold sendIq; dsimp only; split <;> simp
@[simp] theorem nC_sendIqRetry (s : St) : nC (sendIqRetry s).2 = 0 := by unfold sendIqRetry; dsimp only; split <;> simp
@[simp] theorem nD_sendIqRetry (s : St) : nD (sendIqRetry s).2 = 0 := by unfold sendIqRetry; dsimp only; split <;> simp
@[simp] theorem nC_retryN (n : Nat) (s : St) : nC (retryN n s).2 = 0 := by
  induction n generalizing s with
  | zero => rfl
  | succ n ih => simp [retryN, ih]
@[simp] theorem nD_retryN (n : Nat) (s : St) : nD (retryN n s).2 = 0 := by
  induction n generalizing s with
  | zero => rfl
  | succ n ih => simp [retryN, ih]
@[simp] theorem nC_cancelOld (s : St) : nC (cancelOld s).2 = 0 := by unfold cancelOld; split <;> simp
@[simp] theorem nD_cancelOld (s : St) : nD (cancelOld s).2 = 0 := by unfold cancelOld; split <;> simp
@[simp] theorem closeSession_conn (s : St) : (closeSession s).1.conn = s.conn := by unfold closeSession; simp
@[simp] theorem closeSession_sessionStarted (s : St) : (closeSession s).1.sessionStarted = false := by unfold closeSession; simp
@[simp] theorem closeSession_listener (s : St) : (closeSession s).1.listener = s.listener := by unfold closeSession; simp
@[simp] theorem closeSession_authenticated (s : St) : (closeSession s).1.authenticated = s.authenticated := by unfold closeSession; simp
@[simp] theorem closeSession_encrypted (s : St) : (closeSession s).1.encrypted = s.encrypted := by unfold closeSession; simp
@[simp] theorem nC_enableAck (s : St) : nC (enableAck s).2 = 0 := by unfold enableAck; dsimp only; split <;> simp
@[simp] theorem nD_enableAck (s : St) : nD (enableAck s).2 = 0 := by unfold enableAck; dsimp only; split <;> simp
@[simp] theorem nC_csiSendState (s : St) : nC (csiSendState s).2 = 0 := by unfold csiSendState; split <;> simp
@[simp] theorem nD_csiSendState (s : St) : nD (csiSendState s).2 = 0 := by unfold csiSendState; split <;> simp
@[simp] theorem nC_csiOnSessionOpened (s : St) (b : Bool) : nC (csiOnSessionOpened s b).2 = 0 := by
  unfold csiOnSessionOpened; split <;> split <;> simp
@[simp] theorem nD_csiOnSessionOpened (s : St) (b : Bool) : nD (csiOnSessionOpened s b).2 = 0 := by
  unfold csiOnSessionOpened; split <;> split <;> simp

@[simp] theorem nC_ite_sendStanza (c : Prop) [Decidable c] (x : St) (k : Kind) :
    nC (if c then sendStanza x k else (x, [])).2 = 0 := by split <;> simp
@[simp] theorem nD_ite_sendStanza (c : Prop) [Decidable c] (x : St) (k : Kind) :
    nD (if c then sendStanza x k else (x, [])).2 = 0 := by split <;> simp
@[simp] theorem nC_ite_iqDones (c : Prop) [Decidable c] (n : Nat) : nC (if c then [] else iqDones n) = 0 := by
  split <;> simp
@[simp] theorem nD_ite_iqDones (c : Prop) [Decidable c] (n : Nat) : nD (if c then [] else iqDones n) = 0 := by
  split <;> simp

/-- `openSession` reports `connected` exactly once and never `disconnected` -/
theorem openSession_counts (s : St) : nC (openSession s).2 = 1 ∧ nD (openSession s).2 = 0 := by
  unfold openSession
  dsimp only
  constructor <;> simp

/-! ### every cut point of a conforming flow -/

/-- every step of the run is silent about sessions and leaves no session reported -/
def QuietRun (s : St) : List Ev → Prop
  | [] => True
  | e :: es => nC (step s e).2 = 0 ∧ nD (step s e).2 = 0 ∧ (step s e).1.sessionStarted = false ∧ QuietRun (step s e).1 es

theorem quietRun_prefix (evs : List Ev) (s : St) (hs : s.sessionStarted = false) (hq : QuietRun s evs) (k : Nat) :
    nC (run s (evs.take k)).2 = 0 ∧ nD (run s (evs.take k)).2 = 0 ∧ (run s (evs.take k)).1.sessionStarted = false := by
  induction evs generalizing s k with
  | nil => simp [run, hs]
  | cons e es ih =>
    cases k with
    | zero => simp [run, hs]
    | succ k =>
      obtain ⟨h1, h2, h3, h4⟩ := hq
      have := ih (step s e).1 h3 h4 k
      simp only [List.take_succ_cons, run_cons, nC_append, nD_append, h1, h2, Nat.zero_add]
      exact this

theorem q_header {c enc l auth s} (h : Ph c enc l auth false s) (i : Bool) :
    nC (step s (.recv (.header true i))).2 = 0 ∧ nD (step s (.recv (.header true i))).2 = 0 ∧
    (step s (.recv (.header true i))).1.sessionStarted = false := by
  have a := ph_header h i
  rw [a.2.2]
  exact ⟨rfl, rfl, a.1.sess⟩

theorem q_of_ph {c enc l auth s e} (hph : Ph c enc l auth false (step s e).1)
    (hout : ∃ k, (step s e).2 = [send s k]) :
    nC (step s e).2 = 0 ∧ nD (step s e).2 = 0 ∧ (step s e).1.sessionStarted = false := by
  obtain ⟨k, hk⟩ := hout
  rw [hk]
  exact ⟨by simp, by simp, hph.sess⟩

theorem out_features_saslPlain {c enc auth sess s} (h : Ph c enc .idle auth sess s) (hh : s.headerSeen = true)
    (htls : enc = true ∨ c.tls ≠ .required) (hsasl : c.useSasl = true) (hplain : c.plainOk = true) :
    ∃ k, (step s (.recv (.features { mechs := some .plain }))).2 = [send s k] := by
  have hst := noStarttls h { mechs := some .plain } rfl htls
  obtain ⟨h1, h2, h3, h4, h5, h6, h7, h8⟩ := h
  exact ⟨.saslAuth .plain, by
    simp [step, recv, h2, h3, hh, dispatch, h5, idleHandle, idleGuarded, El.isStreamLevel, St.preTls, idleHandle', handleFeatures, handleFeaturesOwn, h1, hst, h1, hsasl, startSasl, mechUsable, hplain]⟩

theorem out_saslSuccess {c enc fr auth sess s} (h : Ph c enc (.sasl .plain fr) auth sess s) (hh : s.headerSeen = true) :
    nC (step s (.recv (.saslSuccess true))).2 = 0 ∧ nD (step s (.recv (.saslSuccess true))).2 = 0 := by
  obtain ⟨h1, h2, h3, h4, h5, h6, h7, h8⟩ := h
  have e : (step s (.recv (.saslSuccess true))).2 = (handleStart { s with authenticated := true }).2 := by
    simp [step, recv, h2, h3, hh, dispatch, h5, saslHandle, successOk]
  rw [e]
  simp [handleStart]

theorem out_features_bind {c enc auth sess s} (h : Ph c enc .idle auth sess s) (hh : s.headerSeen = true)
    (htls : enc = true ∨ c.tls ≠ .required) :
    nC (step s (.recv (.features { bind := true }))).2 = 0 ∧ nD (step s (.recv (.features { bind := true }))).2 = 0 := by
  have hst := noStarttls h { bind := true } rfl htls
  obtain ⟨h1, h2, h3, h4, h5, h6, h7, h8⟩ := h
  have e : (step s (.recv (.features { bind := true }))).2 =
      [send { s with bindAvail := true, smAvail := false, csiAvail := false } .bind] := by
    simp [step, recv, h2, h3, hh, dispatch, h5, idleHandle, idleGuarded, El.isStreamLevel, St.preTls, idleHandle', handleFeatures, handleFeaturesOwn, h1, hst, startBind]
  rw [e]
  simp

theorem out_bindOk {c enc auth sess s} (h : Ph c enc .bind auth sess s) (hh : s.headerSeen = true)
    (hsm : s.smAvail = false) :
    nC (step s (.recv (.iq (.bindResult .ok)))).2 = 1 ∧ nD (step s (.recv (.iq (.bindResult .ok)))).2 = 0 := by
  obtain ⟨h1, h2, h3, h4, h5, h6, h7, h8⟩ := h
  have e : (step s (.recv (.iq (.bindResult .ok)))).2 = (openSession s).2 := by
    simp [step, recv, h2, h3, hh, dispatch, h5, bindHandle, hsm]
  rw [e]
  exact openSession_counts s

/-- SASL + bind: nothing is reported before the last element; the last element reports `connected` exactly once -/
theorem flowSaslBind_cuts {c enc auth s} (h0 : Ph c enc .idle auth false s)
    (hsasl : c.useSasl = true) (hplain : c.plainOk = true) (htls : enc = true ∨ c.tls ≠ .required) :
    QuietRun s flowSaslBind.dropLast ∧
    nC (step (run s flowSaslBind.dropLast).1 (.recv (.iq (.bindResult .ok)))).2 = 1 ∧
    nD (step (run s flowSaslBind.dropLast).1 (.recv (.iq (.bindResult .ok)))).2 = 0 := by
  have a1 := ph_header h0 true
  have a2 := ph_features_saslPlain a1.1 a1.2.1 htls hsasl hplain
  have o2 := out_features_saslPlain a1.1 a1.2.1 htls hsasl hplain
  have a3 := ph_saslSuccess a2.1 a2.2
  have o3 := out_saslSuccess a2.1 a2.2
  have a4 := ph_header a3.1 true
  have a5 := ph_features_bind a4.1 a4.2.1 htls
  have o5 := out_features_bind a4.1 a4.2.1 htls
  have o6 := out_bindOk a5.1 a5.2.1 a5.2.2
  have e : flowSaslBind.dropLast = [.recv (.header true true), .recv (.features { mechs := some .plain }), .recv (.saslSuccess true),
      .recv (.header true true), .recv (.features { bind := true })] := rfl
  rw [e]
  refine ⟨⟨(q_header h0 true).1, (q_header h0 true).2.1, (q_header h0 true).2.2, ?_⟩, ?_⟩
  · refine ⟨(q_of_ph a2.1 o2).1, (q_of_ph a2.1 o2).2.1, a2.1.sess, ?_⟩
    refine ⟨o3.1, o3.2, a3.1.sess, ?_⟩
    refine ⟨(q_header a3.1 true).1, (q_header a3.1 true).2.1, a4.1.sess, ?_⟩
    exact ⟨o5.1, o5.2, a5.1.sess, trivial⟩
  · simp only [run_cons, run]
    exact o6

/-! ### `connected` is only reported by a step that finishes the negotiation (any state, any event) -/

macro "cnt_crush" : tactic => `(tactic| ((repeat' split) <;> simp))

@[simp] theorem nC_closeSession (s : St) : nC (closeSession s).2 = 0 := by unfold closeSession; simp
@[simp] theorem nC_onSocketDisconnected (s : St) : nC (onSocketDisconnected s).2 = 0 := by
  unfold onSocketDisconnected; dsimp only; cnt_crush
@[simp] theorem nC_socketGone (s : St) : nC (socketGone s).2 = 0 := by unfold socketGone; cnt_crush
@[simp] theorem nC_connectTo (s : St) : nC (connectTo s).2 = 0 := by unfold connectTo; simp
@[simp] theorem nC_socketClose (s : St) : nC (socketClose s).2 = 0 := by unfold socketClose; cnt_crush
@[simp] theorem nC_disconnectFromHost (s : St) : nC (disconnectFromHost s).2 = 0 := by unfold disconnectFromHost; simp
@[simp] theorem nC_reject (s : St) : nC (reject s).2 = 0 := by unfold reject; simp
@[simp] theorem nC_failAuth (s : St) : nC (failAuth s).2 = 0 := by unfold failAuth; simp
@[simp] theorem nC_handleStart (s : St) : nC (handleStart s).2 = 0 := by unfold handleStart; simp
@[simp] theorem nC_startNonSaslAuth (s : St) : nC (startNonSaslAuth s).2 = 0 := by unfold startNonSaslAuth; simp
@[simp] theorem nC_handleStream (s : St) (v i : Bool) : nC (handleStream s v i).2 = 0 := by
  unfold handleStream; dsimp only; cnt_crush
@[simp] theorem nC_startSasl (s : St) (m : Mech) : nC (startSasl s m).2 = 0 := by unfold startSasl; cnt_crush
@[simp] theorem nC_startSasl2 (s : St) (z : S2Feat) : nC (startSasl2 s z).2 = 0 := by
  unfold startSasl2; dsimp only; cnt_crush
@[simp] theorem nC_startBind (s : St) : nC (startBind s).2 = 0 := by unfold startBind; simp
@[simp] theorem nC_startSmEnable (s : St) : nC (startSmEnable s).2 = 0 := by unfold startSmEnable; simp
@[simp] theorem nC_startSmResume (s : St) : nC (startSmResume s).2 = 0 := by unfold startSmResume; simp
@[simp] theorem nC_onSmEnabled (s : St) (b l : Bool) : nC (onSmEnabled s b l).2 = 0 := by unfold onSmEnabled; simp
@[simp] theorem nC_onSmResumed (s : St) : nC (onSmResumed s).2 = 0 := by unfold onSmResumed; simp
theorem nC_handleStarttls (s : St) (f : Features) : ∀ r, handleStarttls s f = some r → nC r.2 = 0 := by
  intro r hr
  unfold handleStarttls at hr
  repeat' split at hr
  all_goals first | (cases hr; done) | (cases hr; simp)

/-- outcome of a negotiation handler with respect to the `connected` signal -/
def Done (s : St) (r : R) : Prop :=
  nC r.2 = 0 ∨ (nC r.2 = 1 ∧ r.1.listener = .idle ∧ r.1.sessionStarted = true ∧ r.1.conn = s.conn)

theorem done_of_zero {s : St} {r : R} (h : nC r.2 = 0) : Done s r := Or.inl h

/-- `openSession` on `t` (same listener/conn as `s`), listener forced idle afterwards or idle already -/
theorem done_open (s t : St) (pre : List Out) (hpre : nC pre = 0) (hc : t.conn = s.conn) :
    Done s ({ (openSession t).1 with listener := .idle }, pre ++ (openSession t).2) := by
  right
  have sp := openSession_spec t
  have ct := openSession_counts t
  refine ⟨by simp [hpre, ct.1], rfl, sp.2.1, ?_⟩
  exact sp.2.2.1.conn.trans hc

theorem done_open_idle (s t : St) (hl : t.listener = .idle) (hc : t.conn = s.conn) : Done s (openSession t) := by
  right
  have sp := openSession_spec t
  exact ⟨(openSession_counts t).1, sp.2.2.1.listener.trans hl, sp.2.1, sp.2.2.1.conn.trans hc⟩

theorem handleFeaturesOwn_done (s : St) (f : Features) (hl : s.listener = .idle) : Done s (handleFeaturesOwn s f) := by
  unfold handleFeaturesOwn
  split
  · rename_i r hr; exact done_of_zero (nC_handleStarttls s f r hr)
  · split
    · exact done_of_zero (by simp)
    · split
      · exact done_of_zero (by simp)
      · split
        · exact done_of_zero (by simp)
        · dsimp only
          split
          · exact done_of_zero (by simp)
          · split
            · exact done_of_zero (by simp)
            · split
              · exact done_of_zero (by simp)
              · exact done_open_idle s _ hl rfl


@[simp] theorem nC_disconnectFromServer (s : St) : nC (disconnectFromServer s).2 = 0 := by
  unfold disconnectFromServer; dsimp only; split <;> simp
@[simp] theorem nC_registerOnFeatures (s : St) (f : Features) : nC (registerOnFeatures s f).2 = 0 := by
  unfold registerOnFeatures
  split
  · rename_i r hr; exact nC_handleStarttls s f r hr
  · split <;> simp
theorem handleFeatures_done (s : St) (f : Features) (hl : s.listener = .idle) : Done s (handleFeatures s f) := by
  unfold handleFeatures
  split
  · exact done_of_zero (by simp)
  · exact handleFeaturesOwn_done s f hl

theorem idleGuarded_done (s : St) (e : El) (hl : s.listener = .idle) : Done s (idleGuarded s e) := by
  unfold idleGuarded
  split
  · exact done_of_zero (by simp)
  unfold idleHandle'
  split
  · exact handleFeatures_done s _ hl
  all_goals first | exact done_of_zero (by simp) | ((repeat' split) <;> exact done_of_zero (by simp))

theorem idleHandle_done (s : St) (e : El) (hl : s.listener = .idle) : Done s (idleHandle s e) := by
  unfold idleHandle
  split
  · split <;> exact done_of_zero (by simp)
  · split
    · exact done_of_zero (by simp)
    · split <;> exact done_of_zero (by simp)
  · split
    · exact done_of_zero (by simp)
    · split <;> exact done_of_zero (by simp)
  · split <;> exact done_of_zero (by simp)
  · exact idleGuarded_done s _ hl

theorem starttlsHandle_done (s : St) (e : El) : Done s (starttlsHandle s e) := by
  unfold starttlsHandle; split <;> exact done_of_zero (by simp)

theorem nonSaslHandle_done (s : St) (e : El) : Done s (nonSaslHandle s e) := by
  unfold nonSaslHandle
  split
  · split <;> exact done_of_zero (by simp)
  · exact done_of_zero (by simp)
  · exact done_of_zero (by simp)

theorem nonSaslResultHandle_done (s : St) (e : El) : Done s (nonSaslResultHandle s e) := by
  unfold nonSaslResultHandle
  split
  · have := done_open s { s with authenticated := true } [] rfl rfl
    simpa using this
  · have := done_open s { s with authenticated := true } [] rfl rfl
    simpa using this
  · exact done_of_zero (by simp)
  · exact done_of_zero (by simp)

theorem saslHandle_done (s : St) (m : Used) (fr : Bool) (e : El) : Done s (saslHandle s m fr e) := by
  unfold saslHandle
  split
  · split <;> exact done_of_zero (by simp)
  · split <;> exact done_of_zero (by simp)
  · exact done_of_zero (by simp)
  · exact done_of_zero (by simp)

theorem enableAck_conn (s : St) : (enableAck s).1.conn = s.conn := rfl

theorem sasl2Handle_done (s : St) (m : Used) (fr : Bool) (e : El) : Done s (sasl2Handle s m fr e) := by
  unfold sasl2Handle
  split
  · split <;> exact done_of_zero (by simp)
  · rename_i b r tok proof
    split
    case isFalse => exact done_of_zero (by simp)
    dsimp only
    have c1 : ({ s with authenticated := true, bind2Bound := decide (b ≠ S2Bound.none),
                          hasToken := s.hasToken || (tok && (s.tokenRequested || s.hasToken)) } : St).conn = s.conn := rfl
    generalize ({ s with authenticated := true, bind2Bound := decide (b ≠ S2Bound.none),
                          hasToken := s.hasToken || (tok && (s.tokenRequested || s.hasToken)) } : St) = s1 at c1
    have c2 : (if r = .resumed then onSmResumed s1 else (s1, [])).1.conn = s.conn ∧
        nC (if r = .resumed then onSmResumed s1 else (s1, [])).2 = 0 := by
      split
      · exact ⟨c1, by simp⟩
      · exact ⟨c1, by simp⟩
    generalize (if r = .resumed then onSmResumed s1 else (s1, [])) = r2 at c2
    have c3 : (if b = .smEnabled then onSmEnabled r2.1 true else (r2.1, [])).1.conn = s.conn ∧
        nC (if b = .smEnabled then onSmEnabled r2.1 true else (r2.1, [])).2 = 0 := by
      split
      · exact ⟨c2.1, by simp⟩
      · exact ⟨c2.1, by simp⟩
    generalize (if b = .smEnabled then onSmEnabled r2.1 true else (r2.1, [])) = r3 at c3
    split
    · have := done_open s r3.1 (r2.2 ++ r3.2) (by simp [c2.2, c3.2]) c3.1
      simpa [List.append_assoc] using this
    · exact done_of_zero (by simp [c2.2, c3.2])
  · exact done_of_zero (by simp)
  · exact done_of_zero (by simp)
  · exact done_of_zero (by simp)

theorem smResumeHandle_done (s : St) (e : El) : Done s (smResumeHandle s e) := by
  unfold smResumeHandle
  split
  · exact done_open s (onSmResumed s).1 (onSmResumed s).2 (by simp) rfl
  · split
    · exact done_of_zero (by simp)
    · have := done_open s s [] rfl rfl
      simpa using this
  · exact done_of_zero (by simp)

theorem smEnableHandle_done (s : St) (e : El) : Done s (smEnableHandle s e) := by
  unfold smEnableHandle
  split
  · rename_i resume loc
    exact done_open s (onSmEnabled s resume loc).1 (onSmEnabled s resume loc).2 (by simp) rfl
  · have := done_open s s [] rfl rfl
    simpa using this
  · exact done_of_zero (by simp)

theorem bindHandle_done (s : St) (e : El) : Done s (bindHandle s e) := by
  unfold bindHandle
  split
  · split
    · exact done_of_zero (by simp)
    · have := done_open s s [] rfl rfl
      simpa using this
  · exact done_of_zero (by simp)
  · exact done_of_zero (by simp)
  · exact done_of_zero (by simp)

theorem dispatch_done (s : St) (e : El) : Done s (dispatch s e) := by
  unfold dispatch
  split
  · rename_i hl; exact idleHandle_done s e hl
  · exact starttlsHandle_done s e
  · exact nonSaslHandle_done s _
  · exact nonSaslResultHandle_done s _
  · exact saslHandle_done s _ _ e
  · exact done_of_zero (by simp)
  · exact sasl2Handle_done s _ _ e
  · exact done_of_zero (by simp)
  · exact smResumeHandle_done s e
  · exact smEnableHandle_done s e
  · exact bindHandle_done s e

/-- one step: either no `connected`, or exactly one, and then the listener is idle, the session flag is set and the socket is
connected -/
theorem step_done (s : St) (e : Ev) :
    nC (step s e).2 = 0 ∨
    (nC (step s e).2 = 1 ∧ (step s e).1.listener = .idle ∧ (step s e).1.sessionStarted = true ∧
     (step s e).1.conn = .connected) := by
  cases e with
  | connectToServer => left; simp [step]
  | tlsCloseNotify => left; simp only [step]; split <;> simp
  | reconnectTick => left; simp only [step]; split <;> simp
  | socketConnected => left; simp only [step]; split <;> simp
  | socketError => left; simp [step]
  | socketDisconnected => left; simp [step]
  | sendIq => left; simp only [step, sendIq]; cnt_crush
  | sendIqRetry => left; simp [step]
  | recvWhitespace => left; simp [step]
  | recvPartial => left; simp only [step]; split <;> simp
  | tick => left; rcases tick_cases s with h | ⟨k, h⟩ <;> rw [h] <;> simp [send]
  | closeTail => left; simp [step]
  | recv el =>
    simp only [step]
    unfold recv
    split
    · left; simp
    · rename_i hcw
      have hc : s.conn = .connected := by
        by_cases hc : s.conn = .connected
        · exact hc
        · exact absurd (Or.inl hc) hcw
      split
      · left; simp
      · split
        · left; simp
        · split
          · left; simp
          · rcases dispatch_done s el with h | h
            · exact Or.inl h
            · exact Or.inr ⟨h.1, h.2.1, h.2.2.1, h.2.2.2.trans hc⟩

/-! ### session flag versus `connected` / `disconnected` signals -/

@[simp] theorem nD_closeSession (s : St) : nD (closeSession s).2 = 1 := by unfold closeSession; simp
@[simp] theorem nD_reject (s : St) : nD (reject s).2 = nD (disconnectFromHost s).2 := by unfold reject; simp
@[simp] theorem nD_failAuth (s : St) : nD (failAuth s).2 = nD (disconnectFromHost s).2 := by unfold failAuth; simp
@[simp] theorem nD_handleStart (s : St) : nD (handleStart s).2 = 0 := by unfold handleStart; simp
@[simp] theorem nD_startNonSaslAuth (s : St) : nD (startNonSaslAuth s).2 = 0 := by unfold startNonSaslAuth; simp
@[simp] theorem nD_startBind (s : St) : nD (startBind s).2 = 0 := by unfold startBind; simp
@[simp] theorem nD_startSmEnable (s : St) : nD (startSmEnable s).2 = 0 := by unfold startSmEnable; simp
@[simp] theorem nD_startSmResume (s : St) : nD (startSmResume s).2 = 0 := by unfold startSmResume; simp
@[simp] theorem nD_onSmEnabled (s : St) (b l : Bool) : nD (onSmEnabled s b l).2 = 0 := by unfold onSmEnabled; simp
@[simp] theorem nD_onSmResumed (s : St) : nD (onSmResumed s).2 = 0 := by unfold onSmResumed; simp
@[simp] theorem nD_openSession (s : St) : nD (openSession s).2 = 0 := (openSession_counts s).2
@[simp] theorem nC_openSession (s : St) : nC (openSession s).2 = 1 := (openSession_counts s).1

/-- `b` is the session flag before; afterwards: no `disconnected` and (unless `connected` was reported) the flag is unchanged,
or exactly one `disconnected`, no `connected`, and the flag is cleared -/
def EffD (b : Bool) (r : R) : Prop :=
  (nD r.2 = 0 ∧ (nC r.2 = 0 → r.1.sessionStarted = b)) ∨
  (nD r.2 = 1 ∧ nC r.2 = 0 ∧ r.1.sessionStarted = false ∧ r.1.conn ≠ .connected)

theorem effD_quiet {b : Bool} {r : R} (hD : nD r.2 = 0) (hs : r.1.sessionStarted = b) : EffD b r :=
  Or.inl ⟨hD, fun _ => hs⟩

theorem closeSession_effD (s : St) (hc : s.conn ≠ .connected) : EffD s.sessionStarted (closeSession s) :=
  Or.inr ⟨by simp [closeSession], by simp [closeSession], by simp, by simpa using hc⟩

theorem onSocketDisconnected_effD (s : St) (hc : s.conn = .disconnected) :
    EffD s.sessionStarted (onSocketDisconnected s) := by
  unfold onSocketDisconnected
  dsimp only
  split
  · split
    · exact Or.inr ⟨by simp [closeSession], by simp [closeSession], by simp, by simp⟩
    · rename_i hss
      exact effD_quiet (by simp) rfl
  · exact closeSession_effD { s with authenticated := false } (by simp [hc])

theorem socketClose_effD (s : St) : EffD s.sessionStarted (socketClose s) := by
  unfold socketClose
  split
  · rcases onSocketDisconnected_effD { s with conn := .disconnected } rfl with h | h
    · exact Or.inl ⟨by simpa using h.1, fun hc => h.2 (by simpa using hc)⟩
    · exact Or.inr ⟨by simpa using h.1, by simpa using h.2.1, h.2.2⟩
  · exact effD_quiet (by simp) rfl

theorem disconnectFromHost_effD (s : St) : EffD s.sessionStarted (disconnectFromHost s) := by
  unfold disconnectFromHost
  exact socketClose_effD { s with canResume := false }

theorem effD_prepend_error {b : Bool} {r : R} (h : EffD b r) : EffD b (r.1, .sig .error :: r.2) := by
  rcases h with h | h
  · exact Or.inl ⟨by simpa using h.1, fun hc => h.2 (by simpa using hc)⟩
  · exact Or.inr ⟨by simpa using h.1, by simpa using h.2.1, h.2.2⟩

theorem reject_effD (s : St) : EffD s.sessionStarted (reject s) := by
  unfold reject
  exact effD_prepend_error (disconnectFromHost_effD s)

theorem failAuth_effD (s : St) : EffD s.sessionStarted (failAuth s) := by
  unfold failAuth
  rcases disconnectFromHost_effD s with h | h
  · exact Or.inl ⟨by simpa using h.1, fun hc => h.2 (by simpa using hc)⟩
  · exact Or.inr ⟨by simpa using h.1, by simpa using h.2.1, h.2.2.1, h.2.2.2⟩

theorem openSession_effD (b : Bool) (s : St) : EffD b (openSession s) :=
  Or.inl ⟨by simp, fun hc => by simp at hc⟩

theorem sendStanza_effD (s : St) (k : Kind) : EffD s.sessionStarted (sendStanza s k) :=
  effD_quiet (by simp) (sendStanza_core s k).2.1

theorem startSasl_effD (s : St) (m : Mech) : EffD s.sessionStarted (startSasl s m) := by
  unfold startSasl
  split
  · exact effD_quiet (by simp) rfl
  · exact effD_prepend_error (disconnectFromHost_effD { s with listener := .saslDead })

theorem startSasl2_effD (s : St) (z : S2Feat) : EffD s.sessionStarted (startSasl2 s z) := by
  unfold startSasl2
  dsimp only
  have h1 : (if z.bind2 = true then { s with bind2InactiveSet := s.cfg.inactive && z.bind2Ext } else s).sessionStarted =
      s.sessionStarted := by split <;> rfl
  generalize (if z.bind2 = true then { s with bind2InactiveSet := s.cfg.inactive && z.bind2Ext } else s) = s1 at h1
  split
  · exact effD_quiet (by simp) h1
  · rw [← h1]
    exact effD_prepend_error (disconnectFromHost_effD
      { ({ s1 with tokenRequested := (z.fast && s1.cfg.fastUa) && !s1.hasToken } : St) with listener := .sasl2Dead })

theorem handleStarttls_effD (s : St) (f : Features) : ∀ r, handleStarttls s f = some r → EffD s.sessionStarted r := by
  intro r hr
  unfold handleStarttls at hr
  repeat' split at hr
  all_goals first
    | (cases hr; done)
    | (cases hr; exact disconnectFromHost_effD s)
    | (cases hr; exact effD_quiet (by simp) rfl)

theorem handleFeaturesOwn_effD (s : St) (f : Features) : EffD s.sessionStarted (handleFeaturesOwn s f) := by
  unfold handleFeaturesOwn
  split
  · rename_i r hr; exact handleStarttls_effD s f r hr
  · split
    · exact startSasl2_effD s _
    · split
      · exact startSasl_effD s _
      · split
        · exact effD_quiet (by simp) rfl
        · dsimp only
          split
          · exact effD_quiet (by simp) rfl
          · split
            · exact effD_quiet (by simp) rfl
            · split
              · exact effD_quiet (by simp) rfl
              · exact openSession_effD _ _


theorem disconnectFromServer_effD (s : St) : EffD s.sessionStarted (disconnectFromServer s) := by
  unfold disconnectFromServer
  dsimp only
  split
  · have c := sendStanza_core { s with reconnectArmed := false } .presence
    have h := disconnectFromHost_effD (sendStanza { s with reconnectArmed := false } .presence).1
    rw [c.2.1] at h
    rcases h with h | h
    · exact Or.inl ⟨by simpa using h.1, fun hc => h.2 (by simpa using hc)⟩
    · exact Or.inr ⟨by simpa using h.1, by simpa using h.2.1, h.2.2.1, h.2.2.2⟩
  · have h := disconnectFromHost_effD { s with reconnectArmed := false }
    rcases h with h | h
    · exact Or.inl ⟨by simpa using h.1, fun hc => h.2 (by simpa using hc)⟩
    · exact Or.inr ⟨by simpa using h.1, by simpa using h.2.1, h.2.2.1, h.2.2.2⟩
theorem registerOnFeatures_effD (s : St) (f : Features) : EffD s.sessionStarted (registerOnFeatures s f) := by
  unfold registerOnFeatures
  split
  · rename_i r hr; exact handleStarttls_effD s f r hr
  · split
    · exact effD_quiet (by simp) (sendStanza_core s _).2.1
    · exact disconnectFromServer_effD s
theorem handleFeatures_effD (s : St) (f : Features) : EffD s.sessionStarted (handleFeatures s f) := by
  unfold handleFeatures
  split
  · exact registerOnFeatures_effD s f
  · exact handleFeaturesOwn_effD s f

theorem handleStream_effD (s : St) (v i : Bool) : EffD s.sessionStarted (handleStream s v i) := by
  unfold handleStream
  dsimp only
  split
  · exact effD_quiet (by simp) rfl
  · split
    · split
      · exact disconnectFromHost_effD { s with streamIdSet := s.streamIdSet || i, streamVersionSet := v }
      · exact effD_quiet (by simp) rfl
    · exact effD_quiet (by simp) rfl

theorem idleGuarded_effD (s : St) (e : El) : EffD s.sessionStarted (idleGuarded s e) := by
  unfold idleGuarded
  split
  · exact reject_effD s
  unfold idleHandle'
  split
  · exact handleFeatures_effD s _
  · exact socketClose_effD { s with redirect := true }
  · exact effD_quiet (by simp) rfl
  · exact sendStanza_effD s _
  · exact sendStanza_effD s _
  · (repeat' split) <;> exact effD_quiet (by simp) rfl
  · exact effD_quiet (by simp) rfl
  · exact effD_quiet (by simp) rfl
  · exact effD_quiet (by simp) rfl
  · exact reject_effD s

theorem idleHandle_effD (s : St) (e : El) : EffD s.sessionStarted (idleHandle s e) := by
  unfold idleHandle
  split
  · split
    · exact reject_effD s
    · exact sendStanza_effD s _
  · split
    · exact reject_effD s
    · split
      · exact reject_effD s
      · exact effD_quiet (by simp) rfl
  · split
    · exact reject_effD s
    · split <;> exact effD_quiet (by simp) rfl
  · split
    · exact reject_effD s
    · exact effD_quiet (by simp) rfl
  · exact idleGuarded_effD s _

theorem starttlsHandle_effD (s : St) (e : El) : EffD s.sessionStarted (starttlsHandle s e) := by
  unfold starttlsHandle
  split
  · exact effD_quiet (by simp) rfl
  · exact effD_prepend_error (onSocketDisconnected_effD { armReconnect s with conn := .disconnected, listener := .idle } rfl)
  · exact reject_effD s

theorem socketGone_effD (s : St) : EffD s.sessionStarted (socketGone s) := by
  unfold socketGone
  split
  · exact onSocketDisconnected_effD { s with conn := .disconnected } rfl
  · split <;> exact effD_quiet (by simp) rfl

theorem connectTo_effD (s : St) : EffD s.sessionStarted (connectTo s) := by
  rcases socketGone_effD s with h | h
  · exact Or.inl h
  · exact Or.inr ⟨h.1, h.2.1, h.2.2.1, by simp [connectTo]⟩

theorem effD_relisten {b : Bool} {r : R} (l : Listener) (h : EffD b r) : EffD b ({ r.1 with listener := l }, r.2) := h

theorem nonSaslHandle_effD (s : St) (e : El) : EffD s.sessionStarted (nonSaslHandle s e) := by
  unfold nonSaslHandle
  split
  · split
    · exact effD_quiet (by simp) rfl
    · exact effD_relisten .idle (disconnectFromHost_effD s)
  · exact effD_relisten .idle (disconnectFromHost_effD s)
  · exact reject_effD s

theorem nonSaslResultHandle_effD (s : St) (e : El) : EffD s.sessionStarted (nonSaslResultHandle s e) := by
  unfold nonSaslResultHandle
  split
  · exact Or.inl ⟨by simp, fun hc => by simp at hc⟩
  · exact Or.inl ⟨by simp, fun hc => by simp at hc⟩
  · exact effD_relisten .idle (disconnectFromHost_effD s)
  · exact reject_effD s

theorem saslHandle_effD (s : St) (m : Used) (fr : Bool) (e : El) : EffD s.sessionStarted (saslHandle s m fr e) := by
  unfold saslHandle
  split
  · split
    · exact effD_quiet (by simp) rfl
    · exact failAuth_effD s
  · split
    · exact effD_quiet (by simp) rfl
    · exact failAuth_effD s
  · exact failAuth_effD s
  · exact reject_effD s

theorem sasl2Handle_effD (s : St) (m : Used) (fr : Bool) (e : El) : EffD s.sessionStarted (sasl2Handle s m fr e) := by
  unfold sasl2Handle
  split
  · split
    · exact effD_quiet (by simp) rfl
    · exact failAuth_effD s
  · rename_i b r tok proof
    split
    case isFalse => exact failAuth_effD s
    dsimp only
    have c1 : ({ s with authenticated := true, bind2Bound := decide (b ≠ S2Bound.none),
                          hasToken := s.hasToken || (tok && (s.tokenRequested || s.hasToken)) } : St).sessionStarted =
        s.sessionStarted := rfl
    generalize ({ s with authenticated := true, bind2Bound := decide (b ≠ S2Bound.none),
                          hasToken := s.hasToken || (tok && (s.tokenRequested || s.hasToken)) } : St) = s1 at c1
    have c2 : (if r = .resumed then onSmResumed s1 else (s1, [])).1.sessionStarted = s.sessionStarted ∧
        nC (if r = .resumed then onSmResumed s1 else (s1, [])).2 = 0 ∧
        nD (if r = .resumed then onSmResumed s1 else (s1, [])).2 = 0 := by
      split
      · exact ⟨c1, by simp, by simp⟩
      · exact ⟨c1, by simp, by simp⟩
    generalize (if r = .resumed then onSmResumed s1 else (s1, [])) = r2 at c2
    have c3 : (if b = .smEnabled then onSmEnabled r2.1 true else (r2.1, [])).1.sessionStarted = s.sessionStarted ∧
        nC (if b = .smEnabled then onSmEnabled r2.1 true else (r2.1, [])).2 = 0 ∧
        nD (if b = .smEnabled then onSmEnabled r2.1 true else (r2.1, [])).2 = 0 := by
      split
      · exact ⟨c2.1, by simp, by simp⟩
      · exact ⟨c2.1, by simp, by simp⟩
    generalize (if b = .smEnabled then onSmEnabled r2.1 true else (r2.1, [])) = r3 at c3
    split
    · exact Or.inl ⟨by simp [c2.2.2, c3.2.2], fun hc => by simp [c2.2.1, c3.2.1] at hc⟩
    · exact effD_quiet (by simp [c2.2.2, c3.2.2]) c3.1
  · exact failAuth_effD s
  · exact effD_quiet (by simp) rfl
  · exact reject_effD s

theorem smResumeHandle_effD (s : St) (e : El) : EffD s.sessionStarted (smResumeHandle s e) := by
  unfold smResumeHandle
  split
  · exact Or.inl ⟨by simp, fun hc => by simp at hc⟩
  · split
    · exact effD_quiet (by simp) rfl
    · exact Or.inl ⟨by simp, fun hc => by simp at hc⟩
  · exact reject_effD s

theorem smEnableHandle_effD (s : St) (e : El) : EffD s.sessionStarted (smEnableHandle s e) := by
  unfold smEnableHandle
  split
  · exact Or.inl ⟨by simp, fun hc => by simp at hc⟩
  · exact Or.inl ⟨by simp, fun hc => by simp at hc⟩
  · exact reject_effD s

theorem bindHandle_effD (s : St) (e : El) : EffD s.sessionStarted (bindHandle s e) := by
  unfold bindHandle
  split
  · split
    · exact effD_quiet (by simp) rfl
    · exact Or.inl ⟨by simp, fun hc => by simp at hc⟩
  · exact failAuth_effD s
  · exact failAuth_effD s
  · exact reject_effD s

theorem dispatch_effD (s : St) (e : El) : EffD s.sessionStarted (dispatch s e) := by
  unfold dispatch
  split
  · exact idleHandle_effD s e
  · exact starttlsHandle_effD s e
  · exact nonSaslHandle_effD s _
  · exact nonSaslResultHandle_effD s _
  · exact saslHandle_effD s _ _ e
  · exact reject_effD s
  · exact sasl2Handle_effD s _ _ e
  · exact reject_effD s
  · exact smResumeHandle_effD s e
  · exact smEnableHandle_effD s e
  · exact bindHandle_effD s e

theorem step_effD (s : St) (e : Ev) : EffD s.sessionStarted (step s e) := by
  cases e with
  | connectToServer => exact connectTo_effD s
  | tlsCloseNotify => simp only [step]; split <;> exact effD_quiet (by simp) rfl
  | reconnectTick =>
    simp only [step]
    split
    · exact connectTo_effD { s with reconnectArmed := false }
    · exact effD_quiet (by simp) rfl
  | socketConnected => simp only [step]; split <;> exact effD_quiet (by simp) rfl
  | socketError => exact effD_quiet (by simp [step]) rfl
  | socketDisconnected => exact socketGone_effD s
  | sendIq =>
    simp only [step, sendIq]
    have h := (sendStanza_core s (.iqRequest false)).2.1
    split
    · exact effD_quiet (by simp) h
    · exact effD_quiet (by simp) h
  | sendIqRetry => exact effD_quiet (by simp [step]) (sendIqRetry_core s).2
  | recvWhitespace => exact effD_quiet (by simp [step]) rfl
  | recvPartial => simp only [step]; split <;> exact effD_quiet (by simp) rfl
  | tick => rcases tick_cases s with h | ⟨k, h⟩ <;> rw [h] <;> exact effD_quiet (by simp [send]) rfl
  | closeTail => exact disconnectFromHost_effD s
  | recv el =>
    simp only [step]
    unfold recv
    split
    · exact effD_quiet (by simp) rfl
    · split
      · exact handleStream_effD { s with headerSeen := true } _ _
      · split
        · exact effD_quiet (by simp) rfl
        · split
          · exact disconnectFromHost_effD s
          · exact dispatch_effD s el

/-! ### at most one `connected` between two `disconnected` -/

/-- **Conformance hypothesis**: while a session is established the server sends neither a stream header nor stream
features (both restart negotiation).  A CONFORMING server can never violate it: RFC 6120 lets a server send a header and
features only in answer to a stream (re)start by the client, and the client restarts the stream only during negotiation (after
STARTTLS / SASL), never inside a session.  So `connected_at_most_once_per_connection` without this hypothesis fails only against
a misbehaving server (`openSession` is not guarded; the example in `Props/C10.lean` shows it) — a robustness gap, not a violation
of C10, whose reconnect clause is about conforming servers; no finding is registered for it. -/
def noNegotiationInSession (s : St) : Ev → Prop
  | .recv (.features _) => s.sessionStarted = false
  | .recv (.header v _) =>
    -- a header is harmless unless it restarts XEP-0078 authentication: version-less, on a stream whose version is not
    -- recorded (a pre-1.0 session), with legacy authentication enabled
    s.sessionStarted = false ∨ v = true ∨ s.streamVersionSet = true ∨ s.cfg.useNonSasl = false
  | _ => True

theorem handleStream_keeps_listener (s : St) (v i : Bool)
    (h : v = true ∨ s.streamVersionSet = true ∨ s.cfg.useNonSasl = false) :
    (handleStream s v i).1.listener = s.listener := by
  unfold handleStream
  dsimp only
  split
  · rfl
  · rename_i hv
    rcases h with h | h | h
    · subst h; simp
    · exact absurd h hv
    · simp [h]

/-- while a session is flagged, the listener is the idle one -/
def JP (s : St) : Prop := s.sessionStarted = true → s.listener = .idle

theorem onSocketDisconnected_listener (s : St) : (onSocketDisconnected s).1.listener = s.listener := by
  unfold onSocketDisconnected; dsimp only; (repeat' split) <;> simp
theorem socketGone_listener (s : St) : (socketGone s).1.listener = s.listener := by
  unfold socketGone; (repeat' split) <;> simp [onSocketDisconnected_listener]
theorem connectTo_listener (s : St) : (connectTo s).1.listener = s.listener := socketGone_listener s
theorem socketClose_listener (s : St) : (socketClose s).1.listener = s.listener := by
  unfold socketClose; split
  · simp [onSocketDisconnected_listener]
  · rfl
theorem disconnectFromHost_listener (s : St) : (disconnectFromHost s).1.listener = s.listener := by
  unfold disconnectFromHost; simp [socketClose_listener]
theorem reject_listener (s : St) : (reject s).1.listener = s.listener := by
  unfold reject; simp [disconnectFromHost_listener]

/-- the idle listener, anything but features: listener stays idle, nothing is opened -/
theorem idleGuarded_nf (s : St) (e : El) (hl : s.listener = .idle) (hnf : ∀ f, e ≠ .features f) :
    (idleGuarded s e).1.listener = .idle ∧ nC (idleGuarded s e).2 = 0 := by
  unfold idleGuarded
  split
  · exact ⟨by rw [reject_listener]; exact hl, by simp⟩
  unfold idleHandle'
  split
  · rename_i f _; exact absurd rfl (hnf f)
  · exact ⟨by simp [socketClose_listener, hl], by simp⟩
  · exact ⟨hl, by simp⟩
  · exact ⟨by rw [(sendStanza_core s _).1.listener]; exact hl, by simp⟩
  · exact ⟨by rw [(sendStanza_core s _).1.listener]; exact hl, by simp⟩
  · (repeat' split) <;> exact ⟨hl, by simp⟩
  · exact ⟨hl, by simp⟩
  · exact ⟨hl, by simp⟩
  · exact ⟨hl, by simp⟩
  · exact ⟨by rw [reject_listener]; exact hl, by simp⟩

theorem idleHandle_nf (s : St) (e : El) (hl : s.listener = .idle) (hnf : ∀ f, e ≠ .features f) :
    (idleHandle s e).1.listener = .idle ∧ nC (idleHandle s e).2 = 0 := by
  have hrej : (reject s).1.listener = .idle ∧ nC (reject s).2 = 0 := ⟨by rw [reject_listener]; exact hl, by simp⟩
  unfold idleHandle
  split
  · split
    · exact hrej
    · exact ⟨by rw [(sendStanza_core s _).1.listener]; exact hl, by simp⟩
  · split
    · exact hrej
    · split
      · exact hrej
      · exact ⟨hl, by simp⟩
  · split
    · exact hrej
    · split <;> exact ⟨hl, by simp⟩
  · split
    · exact hrej
    · exact ⟨hl, by simp⟩
  · exact idleGuarded_nf s _ hl hnf

theorem step_j (s : St) (e : Ev) (hj : JP s) (hconf : noNegotiationInSession s e) :
    JP (step s e).1 ∧ (nC (step s e).2 = 1 → s.sessionStarted = false) := by
  cases hs : s.sessionStarted with
  | false =>
    refine ⟨?_, fun _ => rfl⟩
    intro hpost
    rcases step_done s e with hd | hd
    · rcases step_effD s e with he | he
      · have := he.2 hd
        rw [hs] at this
        rw [this] at hpost; cases hpost
      · rw [he.2.2.1] at hpost; cases hpost
    · exact hd.2.1
  | true =>
    have hl := hj hs
    have key : ((step s e).1.sessionStarted = true → (step s e).1.listener = .idle) ∧ nC (step s e).2 = 0 := by
      cases e with
      | connectToServer => exact ⟨fun _ => by show (connectTo s).1.listener = _; rw [connectTo_listener]; exact hl, by simp [step]⟩
      | tlsCloseNotify => simp only [step]; split <;> exact ⟨fun _ => hl, by simp⟩
      | reconnectTick =>
        simp only [step]
        split
        · exact ⟨fun _ => by rw [connectTo_listener]; exact hl, by simp⟩
        · exact ⟨fun _ => hl, by simp⟩
      | socketConnected => simp only [step]; split
                           · exact ⟨fun _ => rfl, by simp⟩
                           · exact ⟨fun _ => hl, by simp⟩
      | socketError => exact ⟨fun _ => hl, by simp [step]⟩
      | socketDisconnected =>
        exact ⟨fun _ => by show (socketGone s).1.listener = _; rw [socketGone_listener]; exact hl, by simp [step]⟩
      | sendIq =>
        simp only [step, sendIq]
        have hc := (sendStanza_core s (.iqRequest false)).1.listener
        split
        · exact ⟨fun _ => by rw [hc]; exact hl, by simp⟩
        · exact ⟨fun _ => by show (sendStanza s (.iqRequest false)).1.listener = _; rw [hc]; exact hl, by simp⟩
      | sendIqRetry =>
        exact ⟨fun _ => by show (sendIqRetry s).1.listener = _; rw [(sendIqRetry_core s).1.listener]; exact hl, by simp [step]⟩
      | recvWhitespace => exact ⟨fun _ => hl, by simp [step]⟩
      | recvPartial => simp only [step]; split <;> exact ⟨fun _ => hl, by simp⟩
      | tick => rcases tick_cases s with h | ⟨k, h⟩ <;> rw [h] <;> exact ⟨fun _ => hl, by simp [send]⟩
      | closeTail => exact ⟨fun _ => by show (disconnectFromHost s).1.listener = _; rw [disconnectFromHost_listener]; exact hl, by simp [step]⟩
      | recv el =>
        simp only [step]
        unfold recv
        split
        · exact ⟨fun _ => hl, by simp⟩
        · split
          · rename_i v i
            have hc' : v = true ∨ s.streamVersionSet = true ∨ s.cfg.useNonSasl = false := by
              rcases hconf with h | h
              · rw [hs] at h; cases h
              · exact h
            exact ⟨fun _ => (handleStream_keeps_listener { s with headerSeen := true } v i hc').trans hl, by simp⟩
          · split
            · exact ⟨fun _ => hl, by simp⟩
            · split
              · exact ⟨fun _ => by rw [disconnectFromHost_listener]; exact hl, by simp⟩
              · unfold dispatch
                rw [hl]
                have hnf : ∀ f, el ≠ .features f := by
                  intro f hf
                  subst hf
                  have : s.sessionStarted = false := hconf
                  rw [hs] at this; cases this
                have := idleHandle_nf s el hl hnf
                exact ⟨fun _ => this.1, this.2⟩
    exact ⟨key.1, fun h1 => by rw [key.2] at h1; cases h1⟩

/-- scanning a trace: `open` tells whether a session is currently reported; `false` as soon as `connected` is reported while
a session is already open -/
def alt : Bool → List Out → Bool
  | _, [] => true
  | o, .sig .connected :: r => !o && alt true r
  | _, .sig .disconnected :: r => alt false r
  | o, _ :: r => alt o r

def altEnd : Bool → List Out → Bool
  | o, [] => o
  | _, .sig .connected :: r => altEnd true r
  | _, .sig .disconnected :: r => altEnd false r
  | o, _ :: r => altEnd o r

theorem alt_append (o : Bool) (a b : List Out) : alt o (a ++ b) = (alt o a && alt (altEnd o a) b) := by
  induction a generalizing o with
  | nil => simp [alt, altEnd]
  | cons x xs ih =>
    cases x with
    | sent k l => simp [alt, altEnd, ih]
    | sig g => cases g <;> simp [alt, altEnd, ih, Bool.and_assoc]

theorem altEnd_append (o : Bool) (a b : List Out) : altEnd o (a ++ b) = altEnd (altEnd o a) b := by
  induction a generalizing o with
  | nil => simp [altEnd]
  | cons x xs ih =>
    cases x with
    | sent k l => simp [altEnd, ih]
    | sig g => cases g <;> simp [altEnd, ih]

theorem alt_noC (o : Bool) (os : List Out) (hC : nC os = 0) :
    alt o os = true ∧ altEnd o os = (if nD os = 0 then o else false) := by
  induction os generalizing o with
  | nil => simp [alt, altEnd]
  | cons x xs ih =>
    cases x with
    | sent k l => simp at hC; simpa [alt, altEnd] using ih o hC
    | sig g =>
      cases g with
      | connected => simp at hC
      | disconnected =>
        simp at hC
        have := ih false hC
        simp only [alt, altEnd, nD_cons_disconnected]
        refine ⟨this.1, ?_⟩
        rw [this.2]
        split <;> simp
      | error => simp at hC; simpa [alt, altEnd] using ih o hC
      | iqDone b => simp at hC; simpa [alt, altEnd] using ih o hC

theorem alt_oneC (os : List Out) (hC : nC os = 1) (hD : nD os = 0) :
    alt false os = true ∧ altEnd false os = true := by
  induction os with
  | nil => simp at hC
  | cons x xs ih =>
    cases x with
    | sent k l => simp at hC hD; simpa [alt, altEnd] using ih hC hD
    | sig g =>
      cases g with
      | connected =>
        simp at hC hD
        have := alt_noC true xs hC
        simp only [alt, altEnd, Bool.not_false, Bool.true_and]
        rw [this.2, hD]
        exact ⟨this.1, rfl⟩
      | disconnected => simp at hD
      | error => simp at hC hD; simpa [alt, altEnd] using ih hC hD
      | iqDone b => simp at hC hD; simpa [alt, altEnd] using ih hC hD

/-- one step keeps the trace well-bracketed and the scan state equal to the session flag -/
theorem step_alt (s : St) (e : Ev) (hj : JP s) (hconf : noNegotiationInSession s e) :
    alt s.sessionStarted (step s e).2 = true ∧ altEnd s.sessionStarted (step s e).2 = (step s e).1.sessionStarted := by
  have hJ := step_j s e hj hconf
  rcases step_done s e with hd | hd
  · have a := alt_noC s.sessionStarted (step s e).2 hd
    refine ⟨a.1, ?_⟩
    rw [a.2]
    rcases step_effD s e with he | he
    · rw [he.1, he.2 hd]; rfl
    · rw [he.1, he.2.2.1]; rfl
  · have hs := hJ.2 hd.1
    rcases step_effD s e with he | he
    · have a := alt_oneC (step s e).2 hd.1 he.1
      rw [hs]
      exact ⟨a.1, by rw [a.2, hd.2.2.1]⟩
    · rw [he.2.1] at hd; cases hd.1

theorem run_alt (evs : List Ev) (s : St) (hj : JP s) (hconf : Along noNegotiationInSession s evs) :
    alt s.sessionStarted (run s evs).2 = true := by
  induction evs generalizing s with
  | nil => rfl
  | cons e es ih =>
    have h1 := step_alt s e hj hconf.1
    have hj' := (step_j s e hj hconf.1).1
    simp only [run, alt_append, h1.1, h1.2, Bool.true_and]
    exact ih _ hj' hconf.2

/-- `disconnected` is only ever reported by a step that leaves the socket not connected -/
theorem step_disconnected_means_socket_gone (s : St) (e : Ev) (h : nD (step s e).2 ≠ 0) :
    (step s e).1.conn ≠ .connected ∧ (step s e).1.sessionStarted = false := by
  rcases step_effD s e with he | he
  · exact absurd he.1 h
  · exact ⟨he.2.2.2, he.2.2.1⟩

/-- the scan state after a step is the session flag — for every state and every event, no hypothesis -/
theorem step_altEnd (s : St) (e : Ev) : altEnd s.sessionStarted (step s e).2 = (step s e).1.sessionStarted := by
  rcases step_done s e with hd | hd
  · have a := alt_noC s.sessionStarted (step s e).2 hd
    rw [a.2]
    rcases step_effD s e with he | he
    · rw [he.1, he.2 hd]; rfl
    · rw [he.1, he.2.2.1]; rfl
  · rcases step_effD s e with he | he
    · -- exactly one `connected`, no `disconnected`: the scan ends open whatever it started with
      have : ∀ (o : Bool) (os : List Out), nC os = 1 → nD os = 0 → altEnd o os = true := by
        intro o os
        induction os generalizing o with
        | nil => intro h; simp at h
        | cons x xs ih =>
          intro hC hD
          cases x with
          | sent k l => simp at hC hD; simpa [altEnd] using ih o hC hD
          | sig g =>
            cases g with
            | connected =>
              simp at hC hD
              have := alt_noC true xs hC
              simp only [altEnd]
              rw [this.2, hD]; rfl
            | disconnected => simp at hD
            | error => simp at hC hD; simpa [altEnd] using ih o hC hD
            | iqDone b => simp at hC hD; simpa [altEnd] using ih o hC hD
      rw [this _ _ hd.1 he.1, hd.2.2.1]
    · rw [he.2.1] at hd; cases hd.1

theorem run_altEnd (evs : List Ev) (s : St) : altEnd s.sessionStarted (run s evs).2 = (run s evs).1.sessionStarted := by
  induction evs generalizing s with
  | nil => rfl
  | cons e es ih => simp only [run, altEnd_append, step_altEnd]; exact ih _

/-! ### the session flag is only set while the socket is connected -/

/-- either the socket state is untouched or no session is flagged afterwards -/
def CK (s : St) (r : R) : Prop := r.1.conn = s.conn ∨ r.1.sessionStarted = false

theorem onSocketDisconnected_noSession (s : St) : (onSocketDisconnected s).1.sessionStarted = false := by
  unfold onSocketDisconnected
  dsimp only
  split
  · split
    · simp
    · rename_i h; simpa using h
  · simp

theorem socketClose_ck (s : St) : CK s (socketClose s) := by
  unfold socketClose
  split
  · exact Or.inr (by simp [onSocketDisconnected_noSession])
  · exact Or.inl rfl
theorem disconnectFromHost_ck (s : St) : CK s (disconnectFromHost s) := by
  unfold disconnectFromHost; exact socketClose_ck { s with canResume := false }
theorem reject_ck (s : St) : CK s (reject s) := by unfold reject; exact disconnectFromHost_ck s
theorem failAuth_ck (s : St) : CK s (failAuth s) := by unfold failAuth; exact disconnectFromHost_ck s
theorem openSession_ck (s t : St) (h : t.conn = s.conn) : CK s (openSession t) :=
  Or.inl ((openSession_spec t).2.2.1.conn.trans h)
theorem ck_same {s : St} {r : R} (h : r.1.conn = s.conn) : CK s r := Or.inl h

theorem startSasl_ck (s : St) (m : Mech) : CK s (startSasl s m) := by
  unfold startSasl
  split
  · exact ck_same rfl
  · exact disconnectFromHost_ck { s with listener := .saslDead }

theorem startSasl2_ck (s : St) (z : S2Feat) : CK s (startSasl2 s z) := by
  unfold startSasl2
  dsimp only
  have h1 : (if z.bind2 = true then { s with bind2InactiveSet := s.cfg.inactive && z.bind2Ext } else s).conn = s.conn := by
    split <;> rfl
  generalize (if z.bind2 = true then { s with bind2InactiveSet := s.cfg.inactive && z.bind2Ext } else s) = s1 at h1
  split
  · exact ck_same h1
  · rcases disconnectFromHost_ck
      { ({ s1 with tokenRequested := (z.fast && s1.cfg.fastUa) && !s1.hasToken } : St) with listener := .sasl2Dead } with h | h
    · exact Or.inl (h.trans h1)
    · exact Or.inr h

theorem handleStarttls_ck (s : St) (f : Features) : ∀ r, handleStarttls s f = some r → CK s r := by
  intro r hr
  unfold handleStarttls at hr
  repeat' split at hr
  all_goals first
    | (cases hr; done)
    | (cases hr; exact disconnectFromHost_ck s)
    | (cases hr; exact ck_same rfl)

theorem handleFeaturesOwn_ck (s : St) (f : Features) : CK s (handleFeaturesOwn s f) := by
  unfold handleFeaturesOwn
  split
  · rename_i r hr; exact handleStarttls_ck s f r hr
  · split
    · exact startSasl2_ck s _
    · split
      · exact startSasl_ck s _
      · split
        · exact ck_same rfl
        · dsimp only
          split
          · exact ck_same rfl
          · split
            · exact ck_same rfl
            · split
              · exact ck_same rfl
              · exact openSession_ck s _ rfl


theorem disconnectFromServer_ck (s : St) : CK s (disconnectFromServer s) := by
  unfold disconnectFromServer
  dsimp only
  split
  · have c := sendStanza_core { s with reconnectArmed := false } .presence
    rcases disconnectFromHost_ck (sendStanza { s with reconnectArmed := false } .presence).1 with h | h
    · exact Or.inl (h.trans c.1.conn)
    · exact Or.inr h
  · rcases disconnectFromHost_ck { s with reconnectArmed := false } with h | h
    · exact Or.inl h
    · exact Or.inr h
theorem registerOnFeatures_ck (s : St) (f : Features) : CK s (registerOnFeatures s f) := by
  unfold registerOnFeatures
  split
  · rename_i r hr; exact handleStarttls_ck s f r hr
  · split
    · exact ck_same (sendStanza_core s _).1.conn
    · exact disconnectFromServer_ck s
theorem handleFeatures_ck (s : St) (f : Features) : CK s (handleFeatures s f) := by
  unfold handleFeatures
  split
  · exact registerOnFeatures_ck s f
  · exact handleFeaturesOwn_ck s f

theorem handleStream_ck (s : St) (v i : Bool) : CK s (handleStream s v i) := by
  unfold handleStream
  dsimp only
  split
  · exact ck_same rfl
  · split
    · split
      · exact disconnectFromHost_ck { s with streamIdSet := s.streamIdSet || i, streamVersionSet := v }
      · exact ck_same rfl
    · exact ck_same rfl

theorem idleGuarded_ck (s : St) (e : El) : CK s (idleGuarded s e) := by
  unfold idleGuarded
  split
  · exact reject_ck s
  unfold idleHandle'
  split
  · exact handleFeatures_ck s _
  · exact socketClose_ck { s with redirect := true }
  · exact ck_same rfl
  · exact ck_same (sendStanza_core s _).1.conn
  · exact ck_same (sendStanza_core s _).1.conn
  · (repeat' split) <;> exact ck_same rfl
  · exact ck_same rfl
  · exact ck_same rfl
  · exact ck_same rfl
  · exact reject_ck s

theorem idleHandle_ck (s : St) (e : El) : CK s (idleHandle s e) := by
  unfold idleHandle
  split
  · split
    · exact reject_ck s
    · exact ck_same (sendStanza_core s _).1.conn
  · split
    · exact reject_ck s
    · split
      · exact reject_ck s
      · exact ck_same rfl
  · split
    · exact reject_ck s
    · split <;> exact ck_same rfl
  · split
    · exact reject_ck s
    · exact ck_same rfl
  · exact idleGuarded_ck s _

theorem starttlsHandle_ck (s : St) (e : El) : CK s (starttlsHandle s e) := by
  unfold starttlsHandle
  split
  · exact ck_same rfl
  · exact Or.inr (by simp [onSocketDisconnected_noSession])
  · exact reject_ck s

theorem nonSaslHandle_ck (s : St) (e : El) : CK s (nonSaslHandle s e) := by
  unfold nonSaslHandle
  split
  · split
    · exact ck_same rfl
    · exact disconnectFromHost_ck s
  · exact disconnectFromHost_ck s
  · exact reject_ck s

theorem nonSaslResultHandle_ck (s : St) (e : El) : CK s (nonSaslResultHandle s e) := by
  unfold nonSaslResultHandle
  split
  · exact openSession_ck s _ rfl
  · exact openSession_ck s _ rfl
  · exact disconnectFromHost_ck s
  · exact reject_ck s

theorem saslHandle_ck (s : St) (m : Used) (fr : Bool) (e : El) : CK s (saslHandle s m fr e) := by
  unfold saslHandle
  split
  · split
    · exact ck_same rfl
    · exact failAuth_ck s
  · split
    · exact ck_same rfl
    · exact failAuth_ck s
  · exact failAuth_ck s
  · exact reject_ck s

theorem sasl2Handle_ck (s : St) (m : Used) (fr : Bool) (e : El) : CK s (sasl2Handle s m fr e) := by
  unfold sasl2Handle
  split
  · split
    · exact ck_same rfl
    · exact failAuth_ck s
  · rename_i b r tok proof
    split
    case isFalse => exact failAuth_ck s
    dsimp only
    have c1 : ({ s with authenticated := true, bind2Bound := decide (b ≠ S2Bound.none),
                          hasToken := s.hasToken || (tok && (s.tokenRequested || s.hasToken)) } : St).conn = s.conn := rfl
    generalize ({ s with authenticated := true, bind2Bound := decide (b ≠ S2Bound.none),
                          hasToken := s.hasToken || (tok && (s.tokenRequested || s.hasToken)) } : St) = s1 at c1
    have c2 : (if r = .resumed then onSmResumed s1 else (s1, [])).1.conn = s.conn := by split <;> exact c1
    generalize (if r = .resumed then onSmResumed s1 else (s1, [])) = r2 at c2
    have c3 : (if b = .smEnabled then onSmEnabled r2.1 true else (r2.1, [])).1.conn = s.conn := by split <;> exact c2
    generalize (if b = .smEnabled then onSmEnabled r2.1 true else (r2.1, [])) = r3 at c3
    split
    · exact openSession_ck s _ c3
    · exact ck_same c3
  · exact failAuth_ck s
  · exact ck_same rfl
  · exact reject_ck s

theorem smResumeHandle_ck (s : St) (e : El) : CK s (smResumeHandle s e) := by
  unfold smResumeHandle
  split
  · exact openSession_ck s _ rfl
  · split
    · exact ck_same rfl
    · exact openSession_ck s _ rfl
  · exact reject_ck s

theorem smEnableHandle_ck (s : St) (e : El) : CK s (smEnableHandle s e) := by
  unfold smEnableHandle
  split
  · exact openSession_ck s _ rfl
  · exact openSession_ck s _ rfl
  · exact reject_ck s

theorem bindHandle_ck (s : St) (e : El) : CK s (bindHandle s e) := by
  unfold bindHandle
  split
  · split
    · exact ck_same rfl
    · exact openSession_ck s _ rfl
  · exact failAuth_ck s
  · exact failAuth_ck s
  · exact reject_ck s

theorem dispatch_ck (s : St) (e : El) : CK s (dispatch s e) := by
  unfold dispatch
  split
  · exact idleHandle_ck s e
  · exact starttlsHandle_ck s e
  · exact nonSaslHandle_ck s _
  · exact nonSaslResultHandle_ck s _
  · exact saslHandle_ck s _ _ e
  · exact reject_ck s
  · exact sasl2Handle_ck s _ _ e
  · exact reject_ck s
  · exact smResumeHandle_ck s e
  · exact smEnableHandle_ck s e
  · exact bindHandle_ck s e

/-- invariant: a session is only flagged while the socket is connected -/
def MInv (s : St) : Prop := s.sessionStarted = true → s.conn = .connected

/-- after the socket is gone (lost or aborted) no session is left -/
theorem socketGone_noSession (s : St) (hm : MInv s) : (socketGone s).1.sessionStarted = false := by
  unfold socketGone
  split
  · exact onSocketDisconnected_noSession _
  · rename_i hc
    have hss : s.sessionStarted = false := by
      cases h : s.sessionStarted
      · rfl
      · exact absurd (hm h) hc
    split <;> exact hss
theorem connectTo_noSession (s : St) (hm : MInv s) : (connectTo s).1.sessionStarted = false := socketGone_noSession s hm
theorem socketGone_notConnected (s : St) : (socketGone s).1.conn ≠ .connected := (socketGone_down s).2

theorem step_minv (s : St) (e : Ev) (hm : MInv s) : MInv (step s e).1 := by
  have useCk : ∀ r : R, s.conn = .connected → CK s r →
      (r.1.sessionStarted = true → r.1.conn = .connected) := by
    intro r hc hck hss
    rcases hck with h | h
    · exact h.trans hc
    · rw [h] at hss; cases hss
  cases e with
  | connectToServer =>
    intro hss
    have hss' : (connectTo s).1.sessionStarted = true := hss
    rw [connectTo_noSession s hm] at hss'; cases hss' 
  | tlsCloseNotify => simp only [step]; split <;> exact hm
  | reconnectTick =>
    simp only [step]
    split
    · intro hss
      have h0 := connectTo_noSession { s with reconnectArmed := false } hm
      rw [h0] at hss; cases hss
    · exact hm
  | socketConnected =>
    simp only [step]
    split
    · intro _; rfl
    · exact hm
  | socketError => exact hm
  | socketDisconnected =>
    intro hss
    have hss' : (socketGone s).1.sessionStarted = true := hss
    rw [socketGone_noSession s hm] at hss'; cases hss' 
  | sendIq =>
    simp only [step, sendIq]
    have hc := sendStanza_core s (.iqRequest false)
    split
    · intro hss; rw [hc.1.conn]; exact hm (by rw [← hc.2.1]; exact hss)
    · intro hss
      show (sendStanza s (.iqRequest false)).1.conn = _
      rw [hc.1.conn]
      exact hm (by rw [← hc.2.1]; exact hss)
  | sendIqRetry =>
    intro hss
    have c := sendIqRetry_core s
    show (sendIqRetry s).1.conn = _
    rw [c.1.conn]
    have hss' : (sendIqRetry s).1.sessionStarted = true := hss
    exact hm (by rw [← c.2]; exact hss')
  | recvWhitespace => exact hm
  | recvPartial => simp only [step]; split <;> exact hm
  | tick => rcases tick_cases s with h | ⟨k, h⟩ <;> rw [h] <;> exact hm
  | closeTail =>
    by_cases hc : s.conn = .connected
    · exact useCk _ hc (disconnectFromHost_ck s)
    · have e : step s .closeTail = ({ s with canResume := false }, []) := by
        simp [step, disconnectFromHost, socketClose, hc]
      rw [e]; exact hm
  | recv el =>
    simp only [step]
    unfold recv
    split
    · exact hm
    · rename_i hcw
      have hc : s.conn = .connected := by
        by_cases hc : s.conn = .connected
        · exact hc
        · exact absurd (Or.inl hc) hcw
      split
      · exact useCk _ hc (handleStream_ck { s with headerSeen := true } _ _)
      · split
        · exact hm
        · split
          · exact useCk _ hc (disconnectFromHost_ck s)
          · exact useCk _ hc (dispatch_ck s el)

theorem run_minv (evs : List Ev) (s : St) (hm : MInv s) : MInv (run s evs).1 := by
  induction evs generalizing s with
  | nil => exact hm
  | cons e es ih => simp only [run]; exact ih _ (step_minv s e hm)

/-! ### legacy (XEP-0078) login -/

theorem ph_header_versionless {c enc auth sess s} (h : Ph c enc .idle auth sess s) (hv : s.streamVersionSet = false)
    (hns : c.useNonSasl = true) (htls : enc = true ∨ c.tls ≠ .required) :
    Ph c enc .nonSaslFields auth sess (step s (.recv (.header false true))).1 ∧
    (step s (.recv (.header false true))).1.headerSeen = true ∧
    nC (step s (.recv (.header false true))).2 = 0 ∧ nD (step s (.recv (.header false true))).2 = 0 := by
  obtain ⟨h1, h2, h3, h4, h5, h6, h7, h8⟩ := h
  have e : step s (.recv (.header false true)) =
      ({ s with headerSeen := true, streamIdSet := s.streamIdSet || true, streamVersionSet := false, csiAvail := false,
                listener := .nonSaslFields },
       [send { s with headerSeen := true, streamIdSet := s.streamIdSet || true, streamVersionSet := false, csiAvail := false }
          .nonSaslQuery]) := by
    rcases htls with h | h
    · subst h
      simp [step, recv, h2, h3, handleStream, hv, h1, hns, startNonSaslAuth, h4]
    · simp [step, recv, h2, h3, handleStream, hv, h1, hns, startNonSaslAuth, h]
  rw [e]
  exact ⟨⟨h1, h2, h3, h4, rfl, h6, h7, h8⟩, rfl, by simp, by simp⟩

theorem ph_fields {c enc auth sess s} (h : Ph c enc .nonSaslFields auth sess s) (hh : s.headerSeen = true) :
    Ph c enc .nonSaslResult auth sess (step s (.recv (.iq (.authFields true true)))).1 ∧
    (step s (.recv (.iq (.authFields true true)))).1.headerSeen = true ∧
    nC (step s (.recv (.iq (.authFields true true)))).2 = 0 ∧ nD (step s (.recv (.iq (.authFields true true)))).2 = 0 := by
  obtain ⟨h1, h2, h3, h4, h5, h6, h7, h8⟩ := h
  have e : step s (.recv (.iq (.authFields true true))) =
      ({ s with listener := .nonSaslResult }, [send s (.nonSaslAuth s.cfg.nsPlain)]) := by
    simp [step, recv, h2, h3, hh, dispatch, h5, nonSaslHandle, El.asIq]
  rw [e]
  exact ⟨⟨h1, h2, h3, h4, rfl, h6, h7, h8⟩, hh, by simp, by simp⟩

theorem ph_authResult {c enc auth s} (h : Ph c enc .nonSaslResult auth false s) (hh : s.headerSeen = true) :
    .sig .connected ∈ (step s (.recv (.iq (.authResult true)))).2 ∧
    nC (step s (.recv (.iq (.authResult true)))).2 = 1 ∧ nD (step s (.recv (.iq (.authResult true)))).2 = 0 ∧
    Ph c enc .idle true true (step s (.recv (.iq (.authResult true)))).1 := by
  obtain ⟨h1, h2, h3, h4, h5, h6, h7, h8⟩ := h
  have e : step s (.recv (.iq (.authResult true))) =
      ({ (openSession { s with authenticated := true }).1 with listener := .idle }, (openSession { s with authenticated := true }).2) := by
    simp [step, recv, h2, h3, hh, dispatch, h5, nonSaslResultHandle, El.asIq]
  rw [e]
  have sp := openSession_spec { s with authenticated := true }
  have co := sp.2.2.1
  exact ⟨sp.1, by simp, by simp, ⟨⟨co.cfg.trans h1.1, h1.2⟩, co.conn.trans h2, co.wedged.trans h3, co.encrypted.trans h4, rfl,
    co.authenticated, sp.2.1, co.redirect.trans h8⟩⟩

/-- the legacy flow: nothing is reported before the last element, which reports `connected` exactly once -/
theorem flowLegacy_connects {c enc auth s} (h0 : Ph c enc .idle auth false s) (hv : s.streamVersionSet = false)
    (hns : c.useNonSasl = true) (htls : enc = true ∨ c.tls ≠ .required) :
    .sig .connected ∈ (run s flowLegacy).2 ∧ Ph c enc .idle true true (run s flowLegacy).1 ∧
    nC (run s flowLegacy).2 = 1 ∧ nD (run s flowLegacy).2 = 0 ∧ QuietRun s flowLegacy.dropLast := by
  have a1 := ph_header_versionless h0 hv hns htls
  have a2 := ph_fields a1.1 a1.2.1
  have a3 := ph_authResult a2.1 a2.2.1
  have e : flowLegacy = [.recv (.header false true), .recv (.iq (.authFields true true)), .recv (.iq (.authResult true))] := rfl
  have e' : flowLegacy.dropLast = [.recv (.header false true), .recv (.iq (.authFields true true))] := rfl
  rw [e']
  refine ⟨?_, ?_, ?_, ?_, ⟨a1.2.2.1, a1.2.2.2, a1.1.sess, a2.2.2.1, a2.2.2.2, a2.1.sess, trivial⟩⟩
  · rw [e]; simp only [run_cons, run, List.mem_append]; right; right; left; exact a3.1
  · rw [e]; simp only [run_cons, run]; exact a3.2.2.2
  · rw [e]; simp only [run_cons, run, nC_append, a1.2.2.1, a2.2.2.1, a3.2.1, nC_nil]
  · rw [e]; simp only [run_cons, run, nD_append, a1.2.2.2, a2.2.2.2, a3.2.2.1, nD_nil]

/-! ### more conforming flows: SCRAM, stream management (enable / resume accepted / resume refused), FAST, redirect -/

/-- the features element that offers one SASL mechanism -/
def featMech (m : Mech) : Features := { mechs := some m }
/-- post-authentication features: classic bind, optionally stream management -/
def featBind (sm : Bool) : Features := { bind := true, sm := sm }

theorem fr_header {c enc l auth sess s} (h : Ph c enc l auth sess s) (i : Bool) :
    (step s (.recv (.header true i))).1.canResume = s.canResume ∧ (step s (.recv (.header true i))).1.smEnabled = s.smEnabled ∧
    (step s (.recv (.header true i))).1.hasToken = s.hasToken ∧ (step s (.recv (.header true i))).1.smAvail = s.smAvail ∧
    (step s (.recv (.header true i))).1.bindAvail = s.bindAvail := by
  obtain ⟨h1, h2, h3, h4, h5, h6, h7, h8⟩ := h
  by_cases hv : s.streamVersionSet = true <;> simp [step, recv, h2, h3, handleStream, hv]

theorem ph_features_sasl {c enc auth sess s} (m : Mech) (u : Used) (h : Ph c enc .idle auth sess s) (hh : s.headerSeen = true)
    (htls : enc = true ∨ c.tls ≠ .required) (hsasl : c.useSasl = true) (hu : mechUsable s m = some u) :
    Ph c enc (.sasl u true) auth sess (step s (.recv (.features (featMech m)))).1 ∧
    (step s (.recv (.features (featMech m)))).1.headerSeen = true ∧
    nC (step s (.recv (.features (featMech m)))).2 = 0 ∧ nD (step s (.recv (.features (featMech m)))).2 = 0 ∧
    (step s (.recv (.features (featMech m)))).1.canResume = s.canResume := by
  have hst := noStarttls h (featMech m) rfl htls
  obtain ⟨h1, h2, h3, h4, h5, h6, h7, h8⟩ := h
  have e : step s (.recv (.features (featMech m))) = ({ s with listener := .sasl u true }, [send s (.saslAuth u)]) := by
    simp only [featMech] at hst
    simp [step, recv, h2, h3, hh, dispatch, h5, idleHandle, idleGuarded, El.isStreamLevel, St.preTls, idleHandle', handleFeatures, handleFeaturesOwn, h1, hst, h1, hsasl, startSasl, hu, featMech]
  rw [e]
  exact ⟨⟨h1, h2, h3, h4, rfl, h6, h7, h8⟩, hh, by simp, by simp, rfl⟩

theorem ph_saslChallenge {c enc auth sess s} (h : Ph c enc (.sasl .scram true) auth sess s) (hh : s.headerSeen = true) :
    Ph c enc (.sasl .scram false) auth sess (step s (.recv (.saslChallenge true))).1 ∧
    (step s (.recv (.saslChallenge true))).1.headerSeen = true ∧
    nC (step s (.recv (.saslChallenge true))).2 = 0 ∧ nD (step s (.recv (.saslChallenge true))).2 = 0 ∧
    (step s (.recv (.saslChallenge true))).1.canResume = s.canResume := by
  obtain ⟨h1, h2, h3, h4, h5, h6, h7, h8⟩ := h
  have e : step s (.recv (.saslChallenge true)) = ({ s with listener := .sasl .scram false }, [send s .saslResponse]) := by
    simp [step, recv, h2, h3, hh, dispatch, h5, saslHandle, respondable]
  rw [e]
  exact ⟨⟨h1, h2, h3, h4, rfl, h6, h7, h8⟩, hh, by simp, by simp, rfl⟩

/-- `<success/>` accepted (PLAIN, HT: always; SCRAM: after the client-final message, with the server signature) -/
theorem ph_saslSuccessAny {c enc u fr auth sess s} (h : Ph c enc (.sasl u fr) auth sess s) (hh : s.headerSeen = true)
    (hok : successOk u fr true = true) :
    Ph c enc .idle true sess (step s (.recv (.saslSuccess true))).1 ∧ (step s (.recv (.saslSuccess true))).1.headerSeen = true ∧
    nC (step s (.recv (.saslSuccess true))).2 = 0 ∧ nD (step s (.recv (.saslSuccess true))).2 = 0 ∧
    (step s (.recv (.saslSuccess true))).1.canResume = s.canResume ∧ (step s (.recv (.saslSuccess true))).1.smEnabled = false := by
  obtain ⟨h1, h2, h3, h4, h5, h6, h7, h8⟩ := h
  have e : step s (.recv (.saslSuccess true)) = handleStart { s with authenticated := true } := by
    simp [step, recv, h2, h3, hh, dispatch, h5, saslHandle, hok]
  rw [e]
  unfold handleStart
  exact ⟨⟨h1, h2, h3, h4, rfl, rfl, h7, h8⟩, hh, by simp, by simp, rfl, rfl⟩

/-- post-authentication features with classic bind (and stream management or not): the client resumes if it can, else binds -/
theorem ph_features_bindSm {c enc auth sess s} (sm : Bool) (h : Ph c enc .idle auth sess s) (hh : s.headerSeen = true)
    (htls : enc = true ∨ c.tls ≠ .required) (hsme : s.smEnabled = false) :
    Ph c enc (if sm && s.canResume then .smResume else .bind) auth sess (step s (.recv (.features (featBind sm)))).1 ∧
    (step s (.recv (.features (featBind sm)))).1.headerSeen = true ∧
    nC (step s (.recv (.features (featBind sm)))).2 = 0 ∧ nD (step s (.recv (.features (featBind sm)))).2 = 0 ∧
    (step s (.recv (.features (featBind sm)))).1.smAvail = sm ∧ (step s (.recv (.features (featBind sm)))).1.bindAvail = true ∧
    (step s (.recv (.features (featBind sm)))).1.smEnabled = false := by
  have hst := noStarttls h (featBind sm) rfl htls
  obtain ⟨h1, h2, h3, h4, h5, h6, h7, h8⟩ := h
  simp only [featBind] at hst
  by_cases hr : (sm && s.canResume) = true
  · have hr' : sm = true ∧ s.canResume = true := by simpa using hr
    obtain ⟨hsm1, hcr1⟩ := hr'
    subst hsm1
    have hr' : true = true ∧ s.canResume = true := ⟨rfl, hcr1⟩
    have e : step s (.recv (.features (featBind true))) =
        ({ s with bindAvail := true, smAvail := true, csiAvail := false, listener := .smResume },
         [send { s with bindAvail := true, smAvail := true, csiAvail := false } .smResume]) := by
      simp [step, recv, h2, h3, hh, dispatch, h5, idleHandle, idleGuarded, El.isStreamLevel, St.preTls, idleHandle', handleFeatures, handleFeaturesOwn, h1, hst, featBind, hsme, hr'.1, hr'.2,
        startSmResume]
    rw [e, if_pos hr]
    exact ⟨⟨h1, h2, h3, h4, rfl, h6, h7, h8⟩, hh, by simp, by simp, rfl, rfl, hsme⟩
  · have hr' : ¬ (sm = true ∧ s.canResume = true) := by simpa using hr
    have e : step s (.recv (.features (featBind sm))) =
        ({ s with bindAvail := true, smAvail := sm, csiAvail := false, listener := .bind },
         [send { s with bindAvail := true, smAvail := sm, csiAvail := false } .bind]) := by
      have : ¬ (sm = true ∧ s.smEnabled = false ∧ s.canResume = true) := fun h => hr' ⟨h.1, h.2.2⟩
      simp [step, recv, h2, h3, hh, dispatch, h5, idleHandle, idleGuarded, El.isStreamLevel, St.preTls, idleHandle', handleFeatures, handleFeaturesOwn, h1, hst, featBind, this, startBind]
    rw [e, if_neg hr]
    exact ⟨⟨h1, h2, h3, h4, rfl, h6, h7, h8⟩, hh, by simp, by simp, rfl, rfl, hsme⟩

/-- shape of a step that opens the session through `openSession t` and makes the listener idle -/
theorem opened_facts {c enc auth} (t : St) (pre : List Out) (hpre : nC pre = 0 ∧ nD pre = 0)
    (hc : t.cfg = c ∧ c.registerOnConnect = false) (hconn : t.conn = .connected) (hw : t.wedged = false) (he : t.encrypted = enc)
    (ha : t.authenticated = auth) (hr : t.redirect = false) (r : R)
    (hrr : r = ({ (openSession t).1 with listener := .idle }, pre ++ (openSession t).2)) :
    .sig .connected ∈ r.2 ∧ nC r.2 = 1 ∧ nD r.2 = 0 ∧ Ph c enc .idle auth true r.1 := by
  subst hrr
  have sp := openSession_spec t
  have co := sp.2.2.1
  refine ⟨List.mem_append_right _ sp.1, by simp [hpre.1], by simp [hpre.2], ?_⟩
  exact ⟨⟨co.cfg.trans hc.1, hc.2⟩, co.conn.trans hconn, co.wedged.trans hw, co.encrypted.trans he, rfl, co.authenticated.trans ha,
    sp.2.1, co.redirect.trans hr⟩

theorem ph_smResumed {c enc auth s} (h : Ph c enc .smResume auth false s) (hh : s.headerSeen = true) :
    .sig .connected ∈ (step s (.recv .smResumed)).2 ∧ nC (step s (.recv .smResumed)).2 = 1 ∧
    nD (step s (.recv .smResumed)).2 = 0 ∧ Ph c enc .idle auth true (step s (.recv .smResumed)).1 := by
  obtain ⟨h1, h2, h3, h4, h5, h6, h7, h8⟩ := h
  have e : step s (.recv .smResumed) =
      ({ (openSession (onSmResumed s).1).1 with listener := .idle }, (onSmResumed s).2 ++ (openSession (onSmResumed s).1).2) := by
    simp [step, recv, h2, h3, hh, dispatch, h5, smResumeHandle]
  exact opened_facts (onSmResumed s).1 (onSmResumed s).2 ⟨by simp, by simp⟩ h1 h2 h3 h4 h6 h8 _ e

theorem ph_smFailed_bind {c enc auth sess s} (h : Ph c enc .smResume auth sess s) (hh : s.headerSeen = true)
    (hb : s.bindAvail = true) :
    Ph c enc .bind auth sess (step s (.recv .smFailed)).1 ∧ (step s (.recv .smFailed)).1.headerSeen = true ∧
    nC (step s (.recv .smFailed)).2 = 0 ∧ nD (step s (.recv .smFailed)).2 = 0 ∧
    (step s (.recv .smFailed)).1.smAvail = s.smAvail ∧ (step s (.recv .smFailed)).1.smEnabled = s.smEnabled := by
  obtain ⟨h1, h2, h3, h4, h5, h6, h7, h8⟩ := h
  have e : step s (.recv .smFailed) = ({ s with listener := .bind }, [send s .bind]) := by
    simp [step, recv, h2, h3, hh, dispatch, h5, smResumeHandle, hb, startBind]
  rw [e]
  exact ⟨⟨h1, h2, h3, h4, rfl, h6, h7, h8⟩, hh, by simp, by simp, rfl, rfl⟩

theorem ph_bindOk_thenEnable {c enc auth sess s} (h : Ph c enc .bind auth sess s) (hh : s.headerSeen = true)
    (hsm : s.smAvail = true) (hsme : s.smEnabled = false) :
    Ph c enc .smEnable auth sess (step s (.recv (.iq (.bindResult .ok)))).1 ∧
    (step s (.recv (.iq (.bindResult .ok)))).1.headerSeen = true ∧
    nC (step s (.recv (.iq (.bindResult .ok)))).2 = 0 ∧ nD (step s (.recv (.iq (.bindResult .ok)))).2 = 0 := by
  obtain ⟨h1, h2, h3, h4, h5, h6, h7, h8⟩ := h
  have e : step s (.recv (.iq (.bindResult .ok))) = ({ s with listener := .smEnable }, [send s .smEnable]) := by
    simp [step, recv, h2, h3, hh, dispatch, h5, bindHandle, hsm, hsme, startSmEnable]
  rw [e]
  exact ⟨⟨h1, h2, h3, h4, rfl, h6, h7, h8⟩, hh, by simp, by simp⟩

theorem ph_smEnabled {c enc auth s} (resume : Bool) (h : Ph c enc .smEnable auth false s) (hh : s.headerSeen = true) :
    .sig .connected ∈ (step s (.recv (.smEnabled resume))).2 ∧ nC (step s (.recv (.smEnabled resume))).2 = 1 ∧
    nD (step s (.recv (.smEnabled resume))).2 = 0 ∧ Ph c enc .idle auth true (step s (.recv (.smEnabled resume))).1 := by
  obtain ⟨h1, h2, h3, h4, h5, h6, h7, h8⟩ := h
  have e : step s (.recv (.smEnabled resume)) =
      ({ (openSession (onSmEnabled s resume).1).1 with listener := .idle },
       (onSmEnabled s resume).2 ++ (openSession (onSmEnabled s resume).1).2) := by
    simp [step, recv, h2, h3, hh, dispatch, h5, smEnableHandle]
  exact opened_facts (onSmEnabled s resume).1 (onSmEnabled s resume).2 ⟨by simp, by simp⟩ h1 h2 h3 h4 h6 h8 _ e

/-! ### each of the named conforming flows (`Flow`), every cut point of it: `connected` exactly once, by the last element -/

/-- no session is reported before the last event of the list; the last event reports `connected` exactly once, nothing reports
`disconnected`, and it leaves an authenticated session on a connected socket -/
def OpensAtEnd (s : St) : List Ev → Prop
  | [] => False
  | [e] => nC (step s e).2 = 1 ∧ nD (step s e).2 = 0 ∧ (step s e).1.sessionStarted = true ∧
      (step s e).1.conn = .connected ∧ (step s e).1.authenticated = true
  | e :: e' :: es => nC (step s e).2 = 0 ∧ nD (step s e).2 = 0 ∧ (step s e).1.sessionStarted = false ∧
      OpensAtEnd (step s e).1 (e' :: es)

theorem opensAtEnd_spec (evs : List Ev) (s : St) (hs : s.sessionStarted = false) (h : OpensAtEnd s evs) :
    nC (run s evs).2 = 1 ∧ nD (run s evs).2 = 0 ∧ isConnected (run s evs).1 = true ∧ (run s evs).1.authenticated = true ∧
    (∀ k, k < evs.length → nC (run s (evs.take k)).2 = 0 ∧ nD (run s (evs.take k)).2 = 0 ∧
      isConnected (run s (evs.take k)).1 = false) := by
  induction evs generalizing s with
  | nil => exact absurd h (by simp [OpensAtEnd])
  | cons e es ih =>
    cases es with
    | nil =>
      obtain ⟨h1, h2, h3, h4, h5⟩ := h
      refine ⟨by simp [run, h1], by simp [run, h2], by simp [run, isConnected, h3, h4], by simp [run, h5], ?_⟩
      intro k hk
      have : k = 0 := by simp at hk; omega
      subst this
      simp [run, isConnected, hs]
    | cons e' es' =>
      obtain ⟨h1, h2, h3, h4⟩ := h
      have r := ih (step s e).1 h3 h4
      have rc : run s (e :: e' :: es') =
          ((run (step s e).1 (e' :: es')).1, (step s e).2 ++ (run (step s e).1 (e' :: es')).2) := rfl
      rw [rc]
      dsimp only
      refine ⟨by rw [nC_append, h1, r.1], by rw [nD_append, h2, r.2.1], r.2.2.1, r.2.2.2.1, ?_⟩
      intro k hk
      cases k with
      | zero => simp [run, isConnected, hs]
      | succ k =>
        have := r.2.2.2.2 k (by simp at hk ⊢; omega)
        simp only [List.take_succ_cons, run_cons, nC_append, nD_append, h1, h2, Nat.zero_add]
        exact this

/-- a step whose result still has no session on a connected socket reported nothing -/
theorem quiet_of_ph {c enc l auth s e} (h : Ph c enc l auth false (step s e).1) :
    nC (step s e).2 = 0 ∧ nD (step s e).2 = 0 ∧ (step s e).1.sessionStarted = false := by
  refine ⟨?_, ?_, h.sess⟩
  · rcases step_done s e with hd | hd
    · exact hd
    · rw [h.sess] at hd; cases hd.2.2.1
  · rcases step_effD s e with he | he
    · exact he.1
    · exact absurd h.conn he.2.2.2

/-- a step that takes the session flag from false to true on a connected socket reported `connected` exactly once -/
theorem opened_of_ph {c enc l s e} (hs : s.sessionStarted = false) (h : Ph c enc l true true (step s e).1) :
    nC (step s e).2 = 1 ∧ nD (step s e).2 = 0 ∧ (step s e).1.sessionStarted = true ∧
    (step s e).1.conn = .connected ∧ (step s e).1.authenticated = true := by
  have hc1 : nC (step s e).2 = 1 := by
    rcases step_done s e with hd | hd
    · rcases step_effD s e with he | he
      · have := he.2 hd; rw [hs, h.sess] at this; cases this
      · rw [h.sess] at he; cases he.2.2.1
    · exact hd.1
  refine ⟨hc1, ?_, h.sess, h.conn, h.auth⟩
  rcases step_effD s e with he | he
  · exact he.1
  · rw [he.2.1] at hc1; cases hc1

/-- the state right after (re)connecting: stream opened, nothing received -/
structure Start (c : Cfg) (cr : Bool) (s : St) : Prop where
  ph : Ph c false .idle false false s
  ver : s.streamVersionSet = false
  sme : s.smEnabled = false
  cr : s.canResume = cr
  tok : s.hasToken = c.token

theorem start_after_cut (s : St) (hc : s.conn = .connected) (hr : s.redirect = false) (hreg : s.cfg.registerOnConnect = false) :
    Start s.cfg s.canResume (run s cutAndReconnect).1 := by
  refine ⟨ph_after_cut s hc hr hreg, ?_, ?_, ?_, ?_⟩ <;> rw [cut_reconnect_state s hc hr]

/-- SASL2 with bind2 (inline stream management) and FAST -/
def s2zFast : S2Feat := { mech := .plain, bind2 := true, bind2Ext := true, fast := true, smInline := false }

theorem ph_features_sasl2fast {c enc auth sess s} (h : Ph c enc .idle auth sess s) (hh : s.headerSeen = true)
    (htls : enc = true ∨ c.tls ≠ .required) (hs2 : c.useSasl2 = true) (hua : c.fastUa = true) (htok : s.hasToken = true) :
    Ph c enc (.sasl2 .ht true) auth sess (step s (.recv (.features { sasl2 := some s2zFast }))).1 ∧
    (step s (.recv (.features { sasl2 := some s2zFast }))).1.headerSeen = true := by
  have hst := noStarttls h { sasl2 := some s2zFast } rfl htls
  simp only [s2zFast] at hst
  obtain ⟨h1, h2, h3, h4, h5, h6, h7, h8⟩ := h
  have e : (step s (.recv (.features { sasl2 := some s2zFast }))).1 =
      { s with bind2InactiveSet := s.cfg.inactive, tokenRequested := false, listener := .sasl2 .ht true } := by
    simp [step, recv, h2, h3, hh, dispatch, h5, idleHandle, idleGuarded, El.isStreamLevel, St.preTls, idleHandle', handleFeatures, handleFeaturesOwn, h1, hst, h1, hs2, startSasl2, s2zFast, hua, htok]
  rw [e]
  exact ⟨⟨h1, h2, h3, h4, rfl, h6, h7, h8⟩, hh⟩

/-- see-other-host before any session, then the new TCP connection: a fresh start again -/
theorem start_after_redirect {c cr s} (h : Ph c false .idle false false s) (hcr : s.canResume = cr)
    (htok : s.hasToken = c.token) (hh : s.headerSeen = true) :
    nC (step s (.recv (.streamError true))).2 = 0 ∧ nD (step s (.recv (.streamError true))).2 = 0 ∧
    (step s (.recv (.streamError true))).1.sessionStarted = false ∧
    nC (step (step s (.recv (.streamError true))).1 .socketConnected).2 = 0 ∧
    nD (step (step s (.recv (.streamError true))).1 .socketConnected).2 = 0 ∧
    Start c cr (step (step s (.recv (.streamError true))).1 .socketConnected).1 := by
  obtain ⟨h1, h2, h3, h4, h5, h6, h7, h8⟩ := h
  have e : step s (.recv (.streamError true)) =
      ({ s with redirect := false, conn := .connecting, encrypted := false, authenticated := false, target := .redirect,
                peerShutdown := false },
       [send { s with redirect := true } .streamClose]) := by
    simp [step, recv, h2, h3, hh, dispatch, h5, idleHandle, idleGuarded, El.isStreamLevel, St.preTls, idleHandle', socketClose, onSocketDisconnected, h7, h6]
  rw [e]
  refine ⟨by simp, by simp, h7, ?_, ?_, ?_⟩
  · simp [step, handleStart]
  · simp [step, handleStart]
  · simp only [step, if_true, handleStart]
    exact ⟨⟨h1, rfl, rfl, rfl, rfl, rfl, h7, rfl⟩, rfl, rfl, hcr, htok⟩

/-- the conforming flows (what a correct server says after the client's stream open, in order) -/
inductive Flow
  | saslBind | tlsSaslBind | scramBind | sasl2Bind2 | tlsSasl2Bind2 | sasl2Fast | legacy
  | saslBindSm (resumable : Bool)   -- classic bind, then `<enable/>` answered with `<enabled/>`
  | resumeAccepted                  -- `<resume/>` answered with `<resumed/>`
  | resumeRefused                   -- `<resume/>` answered with `<failed/>`, then bind and `<enable/>`
  | redirectThenSaslBind            -- see-other-host right after the header, then SASL + bind on the new connection
  deriving DecidableEq, Repr

def preSasl : List Ev :=
  [.recv (.header true true), .recv (.features (featMech .plain)), .recv (.saslSuccess true), .recv (.header true true)]
def preTls : List Ev :=
  [.recv (.header true true), .recv (.features { tls := .optional }), .recv (.proceed true)]

def Flow.script : Flow → List Ev
  | .saslBind => preSasl ++ [.recv (.features (featBind false)), .recv (.iq (.bindResult .ok))]
  | .tlsSaslBind => preTls ++ preSasl ++ [.recv (.features (featBind false)), .recv (.iq (.bindResult .ok))]
  | .scramBind => [.recv (.header true true), .recv (.features (featMech .scram)), .recv (.saslChallenge true),
      .recv (.saslSuccess true), .recv (.header true true), .recv (.features (featBind false)), .recv (.iq (.bindResult .ok))]
  | .sasl2Bind2 => flowSasl2Bind2
  | .tlsSasl2Bind2 => preTls ++ flowSasl2Bind2
  | .sasl2Fast => [.recv (.header true true), .recv (.features { sasl2 := some s2zFast }),
      .recv (.s2Success .smEnabled .none false true), .recv (.features { sm := true })]
  | .legacy => flowLegacy
  | .saslBindSm r => preSasl ++ [.recv (.features (featBind true)), .recv (.iq (.bindResult .ok)), .recv (.smEnabled r)]
  | .resumeAccepted => preSasl ++ [.recv (.features (featBind true)), .recv .smResumed]
  | .resumeRefused => preSasl ++ [.recv (.features (featBind true)), .recv .smFailed, .recv (.iq (.bindResult .ok)),
      .recv (.smEnabled true)]
  | .redirectThenSaslBind => [.recv (.header true true), .recv (.streamError true), .socketConnected] ++ preSasl ++
      [.recv (.features (featBind false)), .recv (.iq (.bindResult .ok))]

/-- what the configuration (and, for the resumption flows, the client's resumption state) must allow for the flow to be the
conforming one -/
def Flow.applicable (c : Cfg) (cr : Bool) : Flow → Prop
  | .saslBind => c.useSasl = true ∧ c.plainOk = true ∧ c.tls ≠ .required
  | .tlsSaslBind => c.useSasl = true ∧ c.plainOk = true ∧ c.tls ≠ .disabled ∧ c.localTls = true
  | .scramBind => c.useSasl = true ∧ c.tls ≠ .required
  | .sasl2Bind2 => c.useSasl2 = true ∧ c.plainOk = true ∧ c.tls ≠ .required
  | .tlsSasl2Bind2 => c.useSasl2 = true ∧ c.plainOk = true ∧ c.tls ≠ .disabled ∧ c.localTls = true
  | .sasl2Fast => c.useSasl2 = true ∧ c.fastUa = true ∧ c.token = true ∧ c.tls ≠ .required
  | .legacy => c.useNonSasl = true ∧ c.tls ≠ .required
  | .saslBindSm _ => c.useSasl = true ∧ c.plainOk = true ∧ c.tls ≠ .required ∧ cr = false
  | .resumeAccepted => c.useSasl = true ∧ c.plainOk = true ∧ c.tls ≠ .required ∧ cr = true
  | .resumeRefused => c.useSasl = true ∧ c.plainOk = true ∧ c.tls ≠ .required ∧ cr = true
  | .redirectThenSaslBind => c.useSasl = true ∧ c.plainOk = true ∧ c.tls ≠ .required

/-- facts after the common prefix header, PLAIN offered, `<success/>`, header -/
theorem preSasl_chain {c enc cr s} (h0 : Ph c enc .idle false false s) (hcr : s.canResume = cr)
    (hsasl : c.useSasl = true) (hplain : c.plainOk = true) (htls : enc = true ∨ c.tls ≠ .required)
    (rest : List Ev) (hrest : rest ≠ [])
    (k : ∀ t, Ph c enc .idle true false t → t.headerSeen = true → t.canResume = cr → t.smEnabled = false →
      OpensAtEnd t rest) :
    OpensAtEnd s (preSasl ++ rest) := by
  have a1 := ph_header h0 true
  have f1 := fr_header h0 true
  have hu : mechUsable (step s (.recv (.header true true))).1 .plain = some .plain := by
    simp only [mechUsable]; rw [a1.1.cfg.1, hplain]; rfl
  have a2 := ph_features_sasl .plain .plain a1.1 a1.2.1 htls hsasl hu
  have a3 := ph_saslSuccessAny a2.1 a2.2.1 rfl
  have a4 := ph_header a3.1 true
  have f4 := fr_header a3.1 true
  have hk := k _ a4.1 a4.2.1 (by rw [f4.1, a3.2.2.2.2.1, a2.2.2.2.2, f1.1, hcr]) (by rw [f4.2.1, a3.2.2.2.2.2])
  cases rest with
  | nil => exact absurd rfl hrest
  | cons r0 rs =>
    have q1 := quiet_of_ph a1.1
    have q4 := quiet_of_ph a4.1
    exact ⟨q1.1, q1.2.1, q1.2.2, a2.2.2.1, a2.2.2.2.1, a2.1.sess, a3.2.2.1, a3.2.2.2.1, a3.1.sess, q4.1, q4.2.1, q4.2.2, hk⟩

/-- classic bind without stream management -/
theorem bind_chain {c enc t} (h : Ph c enc .idle true false t) (hh : t.headerSeen = true) (hsme : t.smEnabled = false)
    (htls : enc = true ∨ c.tls ≠ .required) :
    OpensAtEnd t [.recv (.features (featBind false)), .recv (.iq (.bindResult .ok))] := by
  have b1 := ph_features_bindSm false h hh htls hsme
  simp only [Bool.false_and, Bool.false_eq_true, if_false] at b1
  have b2 := ph_bindOk b1.1 b1.2.1 b1.2.2.2.2.1
  exact ⟨b1.2.2.1, b1.2.2.2.1, b1.1.sess, opened_of_ph b1.1.sess b2.2⟩

theorem sasl2_chain {c enc s} (h0 : Ph c enc .idle false false s) (hs2 : c.useSasl2 = true) (hplain : c.plainOk = true)
    (htls : enc = true ∨ c.tls ≠ .required) : OpensAtEnd s flowSasl2Bind2 := by
  have a1 := ph_header h0 true
  have a2 := ph_features_sasl2 a1.1 a1.2.1 htls hs2 hplain
  have a3 := ph_s2Success a2.1 a2.2 rfl
  have a4 := ph_features_sm_done a3.1 a3.2.1 htls a3.2.2
  have q1 := quiet_of_ph a1.1
  have q2 := quiet_of_ph a2.1
  have q3 := quiet_of_ph a3.1
  exact ⟨q1.1, q1.2.1, q1.2.2, q2.1, q2.2.1, q2.2.2, q3.1, q3.2.1, q3.2.2, opened_of_ph a3.1.sess a4.2⟩

theorem tls_chain {c s} (h0 : Ph c false .idle false false s) (hl : c.localTls = true) (ht : c.tls ≠ .disabled)
    (rest : List Ev) (hrest : rest ≠ [])
    (k : ∀ t, Ph c true .idle false false t → OpensAtEnd t rest) : OpensAtEnd s (preTls ++ rest) := by
  have a1 := ph_header h0 true
  have a2 := ph_features_starttls a1.1 a1.2.1 hl ht
  have a3 := ph_proceed a2.1 a2.2
  have q1 := quiet_of_ph a1.1
  have q2 := quiet_of_ph a2.1
  have q3 := quiet_of_ph a3
  cases rest with
  | nil => exact absurd rfl hrest
  | cons r0 rs => exact ⟨q1.1, q1.2.1, q1.2.2, q2.1, q2.2.1, q2.2.2, q3.1, q3.2.1, q3.2.2, k _ a3⟩

/-- **Every conforming flow opens the session exactly at its last element**, from any freshly (re)connected client whose
configuration makes the flow the applicable one. -/
theorem flow_opens (fl : Flow) {c cr s} (h : Start c cr s) (happ : fl.applicable c cr) : OpensAtEnd s fl.script := by
  obtain ⟨h0, hv, hsme, hcr, htok⟩ := h
  cases fl with
  | saslBind =>
    obtain ⟨h1, h2, h3⟩ := happ
    exact preSasl_chain h0 hcr h1 h2 (Or.inr h3) _ (by simp) (fun t ht hh _ hs => bind_chain ht hh hs (Or.inr h3))
  | tlsSaslBind =>
    obtain ⟨h1, h2, h3, h4⟩ := happ
    have : Flow.tlsSaslBind.script = preTls ++ (preSasl ++ [.recv (.features (featBind false)), .recv (.iq (.bindResult .ok))]) := by
      simp [Flow.script, List.append_assoc]
    rw [this]
    exact tls_chain h0 h4 h3 _ (by simp [preSasl]) (fun t ht =>
      preSasl_chain ht rfl h1 h2 (Or.inl rfl) _ (by simp) (fun t' ht' hh _ hs => bind_chain ht' hh hs (Or.inl rfl)))
  | scramBind =>
    obtain ⟨h1, h3⟩ := happ
    have a1 := ph_header h0 true
    have a2 := ph_features_sasl .scram .scram a1.1 a1.2.1 (Or.inr h3) h1 rfl
    have a3 := ph_saslChallenge a2.1 a2.2.1
    have a4 := ph_saslSuccessAny a3.1 a3.2.1 rfl
    have a5 := ph_header a4.1 true
    have f5 := fr_header a4.1 true
    have b := bind_chain a5.1 a5.2.1 (by rw [f5.2.1, a4.2.2.2.2.2]) (Or.inr h3)
    have q1 := quiet_of_ph a1.1
    have q5 := quiet_of_ph a5.1
    exact ⟨q1.1, q1.2.1, q1.2.2, a2.2.2.1, a2.2.2.2.1, a2.1.sess, a3.2.2.1, a3.2.2.2.1, a3.1.sess,
      a4.2.2.1, a4.2.2.2.1, a4.1.sess, q5.1, q5.2.1, q5.2.2, b⟩
  | sasl2Bind2 =>
    obtain ⟨h1, h2, h3⟩ := happ
    exact sasl2_chain h0 h1 h2 (Or.inr h3)
  | tlsSasl2Bind2 =>
    obtain ⟨h1, h2, h3, h4⟩ := happ
    exact tls_chain h0 h4 h3 _ (by simp [flowSasl2Bind2]) (fun t ht => sasl2_chain ht h1 h2 (Or.inl rfl))
  | sasl2Fast =>
    obtain ⟨h1, h2, h3, h4⟩ := happ
    have a1 := ph_header h0 true
    have f1 := fr_header h0 true
    have a2 := ph_features_sasl2fast a1.1 a1.2.1 (Or.inr h4) h1 h2 (by rw [f1.2.2.1, htok, h3])
    have a3 := ph_s2Success a2.1 a2.2 rfl
    have a4 := ph_features_sm_done a3.1 a3.2.1 (Or.inr h4) a3.2.2
    have q1 := quiet_of_ph a1.1
    have q2 := quiet_of_ph a2.1
    have q3 := quiet_of_ph a3.1
    exact ⟨q1.1, q1.2.1, q1.2.2, q2.1, q2.2.1, q2.2.2, q3.1, q3.2.1, q3.2.2, opened_of_ph a3.1.sess a4.2⟩
  | legacy =>
    obtain ⟨h1, h2⟩ := happ
    have a1 := ph_header_versionless h0 hv h1 (Or.inr h2)
    have a2 := ph_fields a1.1 a1.2.1
    have a3 := ph_authResult a2.1 a2.2.1
    exact ⟨a1.2.2.1, a1.2.2.2, a1.1.sess, a2.2.2.1, a2.2.2.2, a2.1.sess, opened_of_ph a2.1.sess a3.2.2.2⟩
  | saslBindSm r =>
    obtain ⟨h1, h2, h3, h4⟩ := happ
    refine preSasl_chain h0 hcr h1 h2 (Or.inr h3) _ (by simp) (fun t ht hh hc hs => ?_)
    have b1 := ph_features_bindSm true ht hh (Or.inr h3) hs
    rw [hc, h4] at b1
    simp only [Bool.and_false, Bool.false_eq_true, if_false] at b1
    have b2 := ph_bindOk_thenEnable b1.1 b1.2.1 b1.2.2.2.2.1 b1.2.2.2.2.2.2
    have b3 := ph_smEnabled r b2.1 b2.2.1
    exact ⟨b1.2.2.1, b1.2.2.2.1, b1.1.sess, b2.2.2.1, b2.2.2.2, b2.1.sess, opened_of_ph b2.1.sess b3.2.2.2⟩
  | resumeAccepted =>
    obtain ⟨h1, h2, h3, h4⟩ := happ
    refine preSasl_chain h0 hcr h1 h2 (Or.inr h3) _ (by simp) (fun t ht hh hc hs => ?_)
    have b1 := ph_features_bindSm true ht hh (Or.inr h3) hs
    rw [hc, h4] at b1
    simp only [Bool.and_self, if_true] at b1
    have b2 := ph_smResumed b1.1 b1.2.1
    exact ⟨b1.2.2.1, b1.2.2.2.1, b1.1.sess, opened_of_ph b1.1.sess b2.2.2.2⟩
  | resumeRefused =>
    obtain ⟨h1, h2, h3, h4⟩ := happ
    refine preSasl_chain h0 hcr h1 h2 (Or.inr h3) _ (by simp) (fun t ht hh hc hs => ?_)
    have b1 := ph_features_bindSm true ht hh (Or.inr h3) hs
    rw [hc, h4] at b1
    simp only [Bool.and_self, if_true] at b1
    have b2 := ph_smFailed_bind b1.1 b1.2.1 b1.2.2.2.2.2.1
    have b3 := ph_bindOk_thenEnable b2.1 b2.2.1 (by rw [b2.2.2.2.2.1, b1.2.2.2.2.1]) (by rw [b2.2.2.2.2.2, b1.2.2.2.2.2.2])
    have b4 := ph_smEnabled true b3.1 b3.2.1
    exact ⟨b1.2.2.1, b1.2.2.2.1, b1.1.sess, b2.2.2.1, b2.2.2.2.1, b2.1.sess, b3.2.2.1, b3.2.2.2, b3.1.sess,
      opened_of_ph b3.1.sess b4.2.2.2⟩
  | redirectThenSaslBind =>
    obtain ⟨h1, h2, h3⟩ := happ
    have a1 := ph_header h0 true
    have f1 := fr_header h0 true
    have a2 := start_after_redirect a1.1 (by rw [f1.1, hcr]) (by rw [f1.2.2.1, htok]) a1.2.1
    have q1 := quiet_of_ph a1.1
    have rest := preSasl_chain a2.2.2.2.2.2.ph a2.2.2.2.2.2.cr h1 h2 (Or.inr h3) _ (by simp)
      (fun t ht hh _ hs => bind_chain ht hh hs (Or.inr h3))
    exact ⟨q1.1, q1.2.1, q1.2.2, a2.1, a2.2.1, a2.2.2.1, a2.2.2.2.1, a2.2.2.2.2.1, a2.2.2.2.2.2.ph.sess, rest⟩

/-! ### a reported session is an authenticated one, if the server demands authentication -/

/-- **Hypothesis "the server demands authentication"**: a features element received while the client is not yet authenticated
always leads it into STARTTLS or into an authentication exchange it is configured to use (SASL2, SASL or XEP-0078) — the
server never offers binding / a session to an unauthenticated client -/
def demandsAuth (s : St) : Ev → Prop
  | .recv (.features f) =>
    s.authenticated = true ∨ handleStarttls s f ≠ none ∨ (s.cfg.useSasl2 = true ∧ f.sasl2 ≠ none) ∨
    (s.cfg.useSasl = true ∧ f.mechs ≠ none) ∨ (f.legacyAuth = true ∧ s.cfg.useNonSasl = true)
  | _ => True

def L3 (l : Listener) : Prop := l = .bind ∨ l = .smEnable ∨ l = .smResume
def Closed (t : St) : Prop := t.sessionStarted = false ∧ t.conn ≠ .connected

/-- invariant: a flagged session is authenticated, and so is a client that is binding / enabling / resuming -/
def AInv (s : St) : Prop :=
  (s.sessionStarted = true → s.authenticated = true) ∧ (s.conn = .connected → L3 s.listener → s.authenticated = true)

def AOk (s : St) (r : R) : Prop :=
  Closed r.1 ∨ r.1.authenticated = true ∨
  (r.1.authenticated = s.authenticated ∧ r.1.sessionStarted = s.sessionStarted ∧ ¬ L3 r.1.listener)

theorem ainv_of_aok {s : St} {r : R} (h : AOk s r) (hi : AInv s) : AInv r.1 := by
  rcases h with h | h | h
  · exact ⟨fun hs => (by rw [h.1] at hs; cases hs), fun hc => absurd hc h.2⟩
  · exact ⟨fun _ => h, fun _ _ => h⟩
  · exact ⟨fun hs => by rw [h.1]; exact hi.1 (by rw [← h.2.1]; exact hs), fun _ hl => absurd hl h.2.2⟩

theorem closed_socketClose (s : St) (hc : s.conn = .connected) : Closed (socketClose s).1 := by
  unfold socketClose
  rw [if_pos hc]
  exact ⟨onSocketDisconnected_noSession _, (onSocketDisconnected_down { s with conn := .disconnected } rfl).2⟩
theorem closed_disconnect (s : St) (hc : s.conn = .connected) : Closed (disconnectFromHost s).1 := by
  unfold disconnectFromHost; exact closed_socketClose _ hc
theorem closed_reject (s : St) (hc : s.conn = .connected) : Closed (reject s).1 := by
  unfold reject; exact closed_disconnect s hc
theorem closed_failAuth (s : St) (hc : s.conn = .connected) : Closed (failAuth s).1 := by
  unfold failAuth; exact closed_disconnect s hc

theorem notL3_idle : ¬ L3 .idle := by simp [L3]
theorem openSession_auth (t : St) : (openSession t).1.authenticated = t.authenticated :=
  (openSession_spec t).2.2.1.authenticated

theorem handleFeaturesOwn_aok (s : St) (f : Features) (hc : s.conn = .connected) (hd : demandsAuth s (.recv (.features f))) :
    AOk s (handleFeaturesOwn s f) := by
  unfold handleFeaturesOwn
  split
  · rename_i r hr
    unfold handleStarttls at hr
    repeat' split at hr
    all_goals first
      | (cases hr; done)
      | (cases hr; exact Or.inl (closed_disconnect s hc))
      | (cases hr; exact Or.inr (Or.inr ⟨rfl, rfl, by simp [L3]⟩))
  · rename_i hnone
    split
    · rename_i z _
      unfold startSasl2
      dsimp only
      have h1 : (if z.bind2 = true then { s with bind2InactiveSet := s.cfg.inactive && z.bind2Ext } else s).conn = s.conn ∧
          (if z.bind2 = true then { s with bind2InactiveSet := s.cfg.inactive && z.bind2Ext } else s).authenticated = s.authenticated ∧
          (if z.bind2 = true then { s with bind2InactiveSet := s.cfg.inactive && z.bind2Ext } else s).sessionStarted = s.sessionStarted := by
        split <;> exact ⟨rfl, rfl, rfl⟩
      generalize (if z.bind2 = true then { s with bind2InactiveSet := s.cfg.inactive && z.bind2Ext } else s) = s1 at h1
      split
      · exact Or.inr (Or.inr ⟨h1.2.1, h1.2.2, by simp [L3]⟩)
      · exact Or.inl (closed_disconnect _ (h1.1.trans hc))
    · rename_i hs2
      split
      · unfold startSasl
        split
        · exact Or.inr (Or.inr ⟨rfl, rfl, by simp [L3]⟩)
        · exact Or.inl (closed_disconnect _ hc)
      · rename_i hs1
        split
        · exact Or.inr (Or.inr ⟨rfl, rfl, by simp [L3, startNonSaslAuth]⟩)
        · rename_i hleg
          -- nothing to authenticate with: by hypothesis the client is authenticated already
          have ha : s.authenticated = true := by
            rcases hd with h | h | h | h | h
            · exact h
            · exact absurd hnone h
            · exfalso
              rw [if_pos h.1] at hs2
              exact h.2 hs2
            · exfalso
              rw [if_pos h.1] at hs1
              exact h.2 hs1
            · exact absurd h hleg
          right; left
          dsimp only
          split
          · exact ha
          · split
            · exact ha
            · split
              · exact ha
              · rw [openSession_auth]; exact ha


theorem closed_disconnectFromServer (s : St) (hc : s.conn = .connected) : Closed (disconnectFromServer s).1 := by
  unfold disconnectFromServer
  dsimp only
  split
  · have c := sendStanza_core { s with reconnectArmed := false } .presence
    exact closed_disconnect _ (c.1.conn.trans hc)
  · exact closed_disconnect _ hc
theorem registerOnFeatures_aok (s : St) (f : Features) (hc : s.conn = .connected) (hl : s.listener = .idle) :
    AOk s (registerOnFeatures s f) := by
  unfold registerOnFeatures
  split
  · rename_i r hr
    unfold handleStarttls at hr
    repeat' split at hr
    all_goals first
      | (cases hr; done)
      | (cases hr; exact Or.inl (closed_disconnect s hc))
      | (cases hr; exact Or.inr (Or.inr ⟨rfl, rfl, by simp [L3]⟩))
  · split
    · have c := sendStanza_core s (.register s.regForm)
      exact Or.inr (Or.inr ⟨c.1.authenticated, c.2.1, by show ¬ L3 (sendStanza s _).1.listener; rw [c.1.listener, hl]; exact notL3_idle⟩)
    · exact Or.inl (closed_disconnectFromServer s hc)

theorem handleFeatures_aok (s : St) (f : Features) (hc : s.conn = .connected) (hl : s.listener = .idle)
    (hd : demandsAuth s (.recv (.features f))) : AOk s (handleFeatures s f) := by
  unfold handleFeatures
  split
  · exact registerOnFeatures_aok s f hc hl
  · exact handleFeaturesOwn_aok s f hc hd

theorem idleGuarded_aok (s : St) (e : El) (hc : s.conn = .connected) (hl : s.listener = .idle)
    (hd : demandsAuth s (.recv e)) : AOk s (idleGuarded s e) := by
  unfold idleGuarded
  split
  · exact Or.inl (closed_reject s hc)
  unfold idleHandle'
  split
  · exact handleFeatures_aok s _ hc hl hd
  · exact Or.inl (closed_socketClose _ hc)
  · exact Or.inr (Or.inr ⟨rfl, rfl, by rw [hl]; exact notL3_idle⟩)
  · have c := sendStanza_core s (.iqReply (!(by assumption : Bool)))
    exact Or.inr (Or.inr ⟨c.1.authenticated, c.2.1, by rw [c.1.listener, hl]; exact notL3_idle⟩)
  · have c := sendStanza_core s (.iqReply true)
    exact Or.inr (Or.inr ⟨c.1.authenticated, c.2.1, by rw [c.1.listener, hl]; exact notL3_idle⟩)
  · (repeat' split) <;> exact Or.inr (Or.inr ⟨rfl, rfl, by rw [hl]; exact notL3_idle⟩)
  · exact Or.inr (Or.inr ⟨rfl, rfl, by rw [hl]; exact notL3_idle⟩)
  · exact Or.inr (Or.inr ⟨rfl, rfl, by rw [hl]; exact notL3_idle⟩)
  · exact Or.inr (Or.inr ⟨rfl, rfl, by rw [hl]; exact notL3_idle⟩)
  · exact Or.inl (closed_reject s hc)

theorem idleHandle_aok (s : St) (e : El) (hc : s.conn = .connected) (hl : s.listener = .idle)
    (hd : demandsAuth s (.recv e)) : AOk s (idleHandle s e) := by
  have same : AOk s (s, ([] : List Out)) := Or.inr (Or.inr ⟨rfl, rfl, by rw [hl]; exact notL3_idle⟩)
  unfold idleHandle
  split
  · split
    · exact Or.inl (closed_reject s hc)
    · have c := sendStanza_core s (.iqReply false)
      exact Or.inr (Or.inr ⟨c.1.authenticated, c.2.1, by rw [c.1.listener, hl]; exact notL3_idle⟩)
  · split
    · exact Or.inl (closed_reject s hc)
    · split
      · exact Or.inl (closed_reject s hc)
      · exact Or.inr (Or.inr ⟨rfl, rfl, by rw [hl]; exact notL3_idle⟩)
  · split
    · exact Or.inl (closed_reject s hc)
    · split
      · exact Or.inr (Or.inr ⟨rfl, rfl, by rw [hl]; exact notL3_idle⟩)
      · exact same
  · split
    · exact Or.inl (closed_reject s hc)
    · exact same
  · rename_i h1 h2 h3 h4
    refine idleGuarded_aok s _ hc hl ?_
    cases e <;> first | exact hd | trivial

theorem starttlsHandle_aok (s : St) (e : El) (hc : s.conn = .connected) : AOk s (starttlsHandle s e) := by
  unfold starttlsHandle
  split
  · exact Or.inr (Or.inr ⟨rfl, rfl, by simp [handleStart, L3]⟩)
  · exact Or.inl ⟨onSocketDisconnected_noSession _, (onSocketDisconnected_down _ rfl).2⟩
  · exact Or.inl (closed_reject s hc)

theorem nonSaslHandle_aok (s : St) (e : El) (hc : s.conn = .connected) : AOk s (nonSaslHandle s e) := by
  unfold nonSaslHandle
  split
  · split
    · exact Or.inr (Or.inr ⟨rfl, rfl, by simp [L3]⟩)
    · exact Or.inl (closed_disconnect s hc)
  · exact Or.inl (closed_disconnect s hc)
  · exact Or.inl (closed_reject s hc)

theorem nonSaslResultHandle_aok (s : St) (e : El) (hc : s.conn = .connected) : AOk s (nonSaslResultHandle s e) := by
  unfold nonSaslResultHandle
  split
  · exact Or.inr (Or.inl (openSession_auth _))
  · exact Or.inr (Or.inl (openSession_auth _))
  · exact Or.inl (closed_disconnect s hc)
  · exact Or.inl (closed_reject s hc)

theorem saslHandle_aok (s : St) (m : Used) (fr : Bool) (e : El) (hc : s.conn = .connected) : AOk s (saslHandle s m fr e) := by
  unfold saslHandle
  split
  · split
    · exact Or.inr (Or.inl rfl)
    · exact Or.inl (closed_failAuth s hc)
  · split
    · exact Or.inr (Or.inr ⟨rfl, rfl, by simp [L3]⟩)
    · exact Or.inl (closed_failAuth s hc)
  · exact Or.inl (closed_failAuth s hc)
  · exact Or.inl (closed_reject s hc)

theorem sasl2Handle_aok (s : St) (m : Used) (fr : Bool) (e : El) (hc : s.conn = .connected) (hnl : ¬ L3 s.listener) :
    AOk s (sasl2Handle s m fr e) := by
  unfold sasl2Handle
  split
  · split
    · exact Or.inr (Or.inr ⟨rfl, rfl, by simp [L3]⟩)
    · exact Or.inl (closed_failAuth s hc)
  · rename_i b r tok proof
    split
    case isFalse => exact Or.inl (closed_failAuth s hc)
    dsimp only
    have c1 : ({ s with authenticated := true, bind2Bound := decide (b ≠ S2Bound.none),
                          hasToken := s.hasToken || (tok && (s.tokenRequested || s.hasToken)) } : St).authenticated = true := rfl
    generalize ({ s with authenticated := true, bind2Bound := decide (b ≠ S2Bound.none),
                          hasToken := s.hasToken || (tok && (s.tokenRequested || s.hasToken)) } : St) = s1 at c1
    have c2 : (if r = .resumed then onSmResumed s1 else (s1, [])).1.authenticated = true := by split <;> exact c1
    generalize (if r = .resumed then onSmResumed s1 else (s1, [])) = r2 at c2
    have c3 : (if b = .smEnabled then onSmEnabled r2.1 true else (r2.1, [])).1.authenticated = true := by split <;> exact c2
    generalize (if b = .smEnabled then onSmEnabled r2.1 true else (r2.1, [])) = r3 at c3
    right; left
    split
    · show (openSession r3.1).1.authenticated = true
      rw [openSession_auth]; exact c3
    · exact c3
  · exact Or.inl (closed_failAuth s hc)
  · exact Or.inr (Or.inr ⟨rfl, rfl, hnl⟩)
  · exact Or.inl (closed_reject s hc)

theorem smResumeHandle_aok (s : St) (e : El) (hc : s.conn = .connected) (ha : s.authenticated = true) :
    AOk s (smResumeHandle s e) := by
  unfold smResumeHandle
  split
  · exact Or.inr (Or.inl (by show (openSession (onSmResumed s).1).1.authenticated = true; rw [openSession_auth]; exact ha))
  · split
    · exact Or.inr (Or.inl ha)
    · exact Or.inr (Or.inl (by show (openSession s).1.authenticated = true; rw [openSession_auth]; exact ha))
  · exact Or.inl (closed_reject s hc)

theorem smEnableHandle_aok (s : St) (e : El) (hc : s.conn = .connected) (ha : s.authenticated = true) :
    AOk s (smEnableHandle s e) := by
  unfold smEnableHandle
  split
  · rename_i resume loc
    exact Or.inr (Or.inl (by show (openSession (onSmEnabled s resume loc).1).1.authenticated = true; rw [openSession_auth]; exact ha))
  · exact Or.inr (Or.inl (by show (openSession s).1.authenticated = true; rw [openSession_auth]; exact ha))
  · exact Or.inl (closed_reject s hc)

theorem bindHandle_aok (s : St) (e : El) (hc : s.conn = .connected) (ha : s.authenticated = true) :
    AOk s (bindHandle s e) := by
  unfold bindHandle
  split
  · split
    · exact Or.inr (Or.inl ha)
    · exact Or.inr (Or.inl (by show (openSession s).1.authenticated = true; rw [openSession_auth]; exact ha))
  · exact Or.inl (closed_failAuth s hc)
  · exact Or.inl (closed_failAuth s hc)
  · exact Or.inl (closed_reject s hc)

theorem dispatch_aok (s : St) (e : El) (hc : s.conn = .connected) (hi : AInv s) (hd : demandsAuth s (.recv e)) :
    AOk s (dispatch s e) := by
  unfold dispatch
  split
  · rename_i hl; exact idleHandle_aok s e hc hl hd
  · exact starttlsHandle_aok s e hc
  · exact nonSaslHandle_aok s _ hc
  · exact nonSaslResultHandle_aok s _ hc
  · exact saslHandle_aok s _ _ e hc
  · exact Or.inl (closed_reject s hc)
  · rename_i hl; exact sasl2Handle_aok s _ _ e hc (by rw [hl]; simp [L3])
  · exact Or.inl (closed_reject s hc)
  · rename_i hl; exact smResumeHandle_aok s e hc (hi.2 hc (by rw [hl]; exact Or.inr (Or.inr rfl)))
  · rename_i hl; exact smEnableHandle_aok s e hc (hi.2 hc (by rw [hl]; exact Or.inr (Or.inl rfl)))
  · rename_i hl; exact bindHandle_aok s e hc (hi.2 hc (by rw [hl]; exact Or.inl rfl))

theorem step_ainv (s : St) (e : Ev) (hi : AInv s) (hm : MInv s) (hd : demandsAuth s e) : AInv (step s e).1 := by
  cases e with
  | connectToServer =>
    refine ⟨fun hs => ?_, fun hc => ?_⟩
    · have hs' : (connectTo s).1.sessionStarted = true := hs
      rw [connectTo_noSession s hm] at hs'; cases hs'
    · have hc' : (connectTo s).1.conn = .connected := hc
      simp [connectTo] at hc' 
  | tlsCloseNotify => simp only [step]; split <;> exact ⟨hi.1, hi.2⟩
  | reconnectTick =>
    simp only [step]
    split
    · refine ⟨fun hs => ?_, fun hc => ?_⟩
      · have h0 := connectTo_noSession { s with reconnectArmed := false } hm
        rw [h0] at hs; cases hs
      · simp [connectTo] at hc
    · exact hi
  | socketConnected =>
    simp only [step]
    split
    · rename_i hcg
      refine ⟨fun hs => ?_, fun _ hl => absurd hl (by simp [handleStart, L3])⟩
      have : s.sessionStarted = true := hs
      have := hm this
      rw [hcg] at this; cases this
    · exact hi
  | socketError => exact hi
  | socketDisconnected =>
    refine ⟨fun hs => ?_, fun hc => absurd hc (socketGone_notConnected s)⟩
    have hs' : (socketGone s).1.sessionStarted = true := hs
    rw [socketGone_noSession s hm] at hs'; cases hs' 
  | sendIq =>
    simp only [step, sendIq]
    have c := sendStanza_core s (.iqRequest false)
    have key : AInv (sendStanza s (.iqRequest false)).1 :=
      ⟨fun hs => by rw [c.1.authenticated]; exact hi.1 (by rw [← c.2.1]; exact hs),
       fun hc hl => by rw [c.1.authenticated]; exact hi.2 (by rw [← c.1.conn]; exact hc) (by rw [← c.1.listener]; exact hl)⟩
    split
    · exact key
    · exact key
  | sendIqRetry =>
    have c := sendIqRetry_core s
    refine ⟨fun hs => ?_, fun hc hl => ?_⟩
    · have hs' : (sendIqRetry s).1.sessionStarted = true := hs
      show (sendIqRetry s).1.authenticated = true
      rw [c.1.authenticated]; exact hi.1 (by rw [← c.2]; exact hs')
    · have hc' : (sendIqRetry s).1.conn = .connected := hc
      have hl' : L3 (sendIqRetry s).1.listener := hl
      show (sendIqRetry s).1.authenticated = true
      rw [c.1.authenticated]; exact hi.2 (by rw [← c.1.conn]; exact hc') (by rw [← c.1.listener]; exact hl')
  | recvWhitespace => exact hi
  | recvPartial => simp only [step]; split <;> exact ⟨hi.1, hi.2⟩
  | tick => rcases tick_cases s with h | ⟨k, h⟩ <;> rw [h] <;> exact hi
  | closeTail =>
    by_cases hc : s.conn = .connected
    · exact ainv_of_aok (s := s) (Or.inl (closed_disconnect s hc)) hi
    · have e : step s .closeTail = ({ s with canResume := false }, []) := by
        simp [step, disconnectFromHost, socketClose, hc]
      rw [e]; exact ⟨hi.1, hi.2⟩
  | recv el =>
    simp only [step]
    unfold recv
    split
    · exact hi
    · rename_i hcw
      have hc : s.conn = .connected := by
        by_cases hc : s.conn = .connected
        · exact hc
        · exact absurd (Or.inl hc) hcw
      split
      · -- header
        rename_i v i
        unfold handleStream
        dsimp only
        split
        · exact ⟨hi.1, hi.2⟩
        · split
          · split
            · exact ainv_of_aok (s := s) (Or.inl (closed_disconnect _ hc)) hi
            · exact ⟨hi.1, fun _ hl => absurd hl (by simp [startNonSaslAuth, L3])⟩
          · exact ⟨hi.1, hi.2⟩
      · split
        · exact ⟨hi.1, hi.2⟩
        · split
          · exact ainv_of_aok (s := s) (Or.inl (closed_disconnect s hc)) hi
          · exact ainv_of_aok (dispatch_aok s el hc hi hd) hi

theorem run_ainv (evs : List Ev) (s : St) (hi : AInv s) (hm : MInv s) (hd : Along demandsAuth s evs) : AInv (run s evs).1 := by
  induction evs generalizing s with
  | nil => exact hi
  | cons e es ih => simp only [run]; exact ih _ (step_ainv s e hi hm hd.1) (step_minv s e hm) hd.2

/-! ### C04, application side: an application that sends only while `isConnected()` -/

/-- the application sends requests only while `isConnected()` and calls `connectToServer` only while disconnected -/
def appUsesSession (s : St) : Ev → Prop
  | .sendIq => isConnected s = true
  | .sendIqRetry => isConnected s = true
  | _ => True

/-- with TLS required: the pre-TLS invariant, "session flag only on a connected socket", and "no session on a clear link" -/
def GInv (s : St) : Prop := Inv s ∧ MInv s ∧ (¬ NC s → s.sessionStarted = false)

theorem nc_step (s : St) (e : Ev) (hnc : NC s) (h3 : appWaits s e) :
    NC (step s e).1 ∨ (e = .socketConnected ∧ s.conn = .connecting) := by
  cases e with
  | connectToServer => exact Or.inl (connectTo_nc s).2
  | tlsCloseNotify =>
    left; simp only [step]; split
    · exact armReconnect_nc hnc
    · exact hnc
  | reconnectTick =>
    left; simp only [step]; split
    · exact (connectTo_nc _).2
    · exact hnc
  | socketConnected =>
    by_cases hc : s.conn = .connecting
    · exact Or.inr ⟨rfl, hc⟩
    · left; simp only [step, hc, if_false]; exact hnc
  | socketError => exact Or.inl (armReconnect_nc hnc)
  | socketDisconnected => exact Or.inl (nc_of_not_connected (socketGone_down s).2)
  | recvWhitespace => left; exact hnc
  | recvPartial => left; simp only [step]; split
                   · exact hnc
                   · exact nc_upd hnc rfl rfl
  | tick => left; rcases tick_cases s with h | ⟨k, h⟩ <;> rw [h] <;> exact hnc
  | closeTail => exact Or.inl (disconnectFromHost_nc s hnc).2
  | recv el => exact Or.inl (recv_nc el s hnc).2
  | sendIq => exact Or.inl (sendIq_nc s hnc).2
  | sendIqRetry => exact Or.inl (sendIqRetry_nc s hnc).2

theorem nC_starttlsHandle (s : St) (e : El) : nC (starttlsHandle s e).2 = 0 := by
  unfold starttlsHandle; split <;> simp

/-- on an unencrypted link with TLS required no step can open a session -/
theorem clear_step_nC0 (s : St) (e : Ev) (hreq : s.cfg.tls = .required) (hclear : ¬ NC s) (hpre : PreTls s)
    (h3 : appWaits s e) : nC (step s e).2 = 0 := by
  have hc : s.conn = .connected := by
    by_cases hc : s.conn = .connected
    · exact hc
    · exact absurd (nc_of_not_connected hc) hclear
  have he : s.encrypted = false := by
    cases hb : s.encrypted
    · rfl
    · exact absurd (fun _ => hb) hclear
  cases e with
  | connectToServer => simp [step]
  | tlsCloseNotify => simp only [step]; split <;> simp
  | reconnectTick => simp only [step]; split <;> simp
  | socketConnected => simp only [step]; split <;> simp
  | socketError => simp [step]
  | socketDisconnected => simp [step]
  | sendIq => exact absurd h3 hclear
  | sendIqRetry => exact absurd h3 hclear
  | recvWhitespace => simp [step]
  | recvPartial => simp only [step]; split <;> simp
  | tick => rcases tick_cases s with h | ⟨k, h⟩ <;> rw [h] <;> simp [send]
  | closeTail => simp [step]
  | recv el =>
    simp only [step]
    unfold recv
    split
    · simp
    · split
      · simp
      · split
        · simp
        · split
          · simp
          · unfold dispatch
            rcases hpre with hl | hl
            · rw [hl]
              by_cases hf : ∃ f, el = .features f
              · obtain ⟨f, rfl⟩ := hf
                simp only [idleHandle, idleGuarded, El.isStreamLevel, St.preTls, Bool.false_eq_true, false_and, if_false, idleHandle']
                rcases features_preTls s f hreq he with h | h <;> rw [h] <;> simp
              · exact (idleHandle_nf s el hl (fun f hf' => hf ⟨f, hf'⟩)).2
            · rw [hl]
              exact nC_starttlsHandle s el

theorem step_ginv_w (s : St) (e : Ev) (hreq : s.cfg.tls = .required) (hg : GInv s)
    (h3 : appWaits s e) :
    (∀ o ∈ (step s e).2, o.clearOk) ∧ GInv (step s e).1 := by
  obtain ⟨hinv, hm, hs3⟩ := hg
  have hsafe := step_safe s e hreq hinv hs3 h3
  refine ⟨hsafe.1, hsafe.2, step_minv s e hm, ?_⟩
  intro hpost
  by_cases hnc : NC s
  · rcases nc_step s e hnc h3 with h | h
    · exact absurd h hpost
    · obtain ⟨rfl, hcg⟩ := h
      simp only [step, hcg, if_true, handleStart]
      cases hss : s.sessionStarted
      · rfl
      · have := hm hss
        rw [hcg] at this; cases this
  · have hpre : PreTls s := by
      rcases hinv with h | h
      · exact absurd h hnc
      · exact h
    have h0 := clear_step_nC0 s e hreq hnc hpre h3
    rcases step_effD s e with he | he
    · rw [he.2 h0]; exact hs3 hnc
    · exact he.2.2.1


/-- an application that sends only while `isConnected()` satisfies `appWaits` in every state of the invariant -/
theorem appWaits_of_appUsesSession (s : St) (e : Ev) (hg : GInv s) (ha : appUsesSession s e) : appWaits s e := by
  obtain ⟨hinv, hm, hs3⟩ := hg
  cases e with
  | sendIq =>
    have hi : isConnected s = true := ha
    simp [isConnected] at hi
    show NC s
    by_cases hnc : NC s
    · exact hnc
    · have := hs3 hnc
      rw [this] at hi; cases hi.2
  | sendIqRetry =>
    have hi : isConnected s = true := ha
    simp [isConnected] at hi
    show NC s
    by_cases hnc : NC s
    · exact hnc
    · have := hs3 hnc
      rw [this] at hi; cases hi.2
  | connectToServer => exact ha
  | reconnectTick => exact ha
  | tlsCloseNotify => trivial
  | socketConnected => trivial
  | socketError => trivial
  | socketDisconnected => trivial
  | recv el => trivial
  | recvWhitespace => trivial
  | recvPartial => trivial
  | tick => trivial
  | closeTail => trivial

theorem step_ginv (s : St) (e : Ev) (hreq : s.cfg.tls = .required) (hg : GInv s)
    (ha : appUsesSession s e) :
    (∀ o ∈ (step s e).2, o.clearOk) ∧ GInv (step s e).1 := by
  exact step_ginv_w s e hreq hg (appWaits_of_appUsesSession s e hg ha)

theorem run_ginv_w (evs : List Ev) (s : St) (hreq : s.cfg.tls = .required) (hg : GInv s)
    (ha : Along appWaits s evs) : (∀ o ∈ (run s evs).2, o.clearOk) ∧ GInv (run s evs).1 := by
  induction evs generalizing s with
  | nil => exact ⟨fun o ho => (by cases ho), hg⟩
  | cons e es ih =>
    have h1 := step_ginv_w s e hreq hg ha.1
    have h2' := ih (step s e).1 (by simpa using hreq) h1.2 ha.2
    refine ⟨?_, h2'.2⟩
    intro o ho
    simp only [run] at ho
    rcases List.mem_append.mp ho with ho | ho
    · exact h1.1 o ho
    · exact h2'.1 o ho

theorem run_ginv (evs : List Ev) (s : St) (hreq : s.cfg.tls = .required) (hg : GInv s)
    (ha : Along appUsesSession s evs) : (∀ o ∈ (run s evs).2, o.clearOk) ∧ GInv (run s evs).1 := by
  induction evs generalizing s with
  | nil => exact ⟨fun o ho => (by cases ho), hg⟩
  | cons e es ih =>
    have h1 := step_ginv s e hreq hg ha.1
    have h2' := ih (step s e).1 (by simpa using hreq) h1.2 ha.2
    refine ⟨?_, h2'.2⟩
    intro o ho
    simp only [run] at ho
    rcases List.mem_append.mp ho with ho | ho
    · exact h1.1 o ho
    · exact h2'.1 o ho

/-! ### `bindAvail` / `smAvail` / `csiAvail` are written on the connection that uses them

They are not reset by `handleStart`.  They are read by the bind / resume listeners (`bindAvail`, `smAvail`) and by
`openSession` (`csiAvail`).  Apart from a SASL2 success carrying `<resumed/>` (an inline-resumed session keeps the features
of the session it resumes), `openSession` is reached from the idle listener in the step that stores the features, or from one
of the listeners in `EL`; and `EL` is only entered by a step that writes the fields. -/

/-- listeners from which a session can be opened without a further features element -/
def EL (l : Listener) : Prop := L3 l ∨ l = .nonSaslFields ∨ l = .nonSaslResult

theorem failAuth_listener (s : St) : (failAuth s).1.listener = .idle := rfl

theorem starttlsHandle_el (s : St) (e : El) (h : ¬ EL s.listener) : ¬ EL (starttlsHandle s e).1.listener := by
  unfold starttlsHandle
  split
  · simp [handleStart, EL, L3]
  · rw [onSocketDisconnected_listener]; simp [EL, L3]
  · rw [reject_listener]; exact h

theorem saslHandle_el (s : St) (m : Used) (fr : Bool) (e : El) (h : ¬ EL s.listener) : ¬ EL (saslHandle s m fr e).1.listener := by
  unfold saslHandle
  split
  · split
    · simp [handleStart, EL, L3]
    · simp [failAuth_listener, EL, L3]
  · split
    · simp [EL, L3]
    · simp [failAuth_listener, EL, L3]
  · simp [failAuth_listener, EL, L3]
  · rw [reject_listener]; exact h

theorem sasl2Handle_el (s : St) (m : Used) (fr : Bool) (e : El) (h : ¬ EL s.listener) : ¬ EL (sasl2Handle s m fr e).1.listener := by
  unfold sasl2Handle
  split
  · split
    · simp [EL, L3]
    · simp [failAuth_listener, EL, L3]
  · split
    · simp [EL, L3]
    · simp [failAuth_listener, EL, L3]
  · simp [failAuth_listener, EL, L3]
  · exact h
  · rw [reject_listener]; exact h

/-- what a features element has written when it leaves the client in one of the `EL` listeners -/
def Wrote (f : Features) (t : St) : Prop :=
  t.csiAvail = f.csi ∧ (L3 t.listener → t.bindAvail = f.bind ∧ t.smAvail = f.sm)

theorem handleFeaturesOwn_el (s : St) (f : Features) (hl : s.listener = .idle) (h : EL (handleFeaturesOwn s f).1.listener) :
    Wrote f (handleFeaturesOwn s f).1 := by
  revert h
  unfold handleFeaturesOwn
  split
  · rename_i r hr
    unfold handleStarttls at hr
    repeat' split at hr
    all_goals first
      | (cases hr; done)
      | (cases hr; intro h; rw [disconnectFromHost_listener, hl] at h; simp [EL, L3] at h)
      | (cases hr; intro h; simp [EL, L3] at h)
  · split
    · rename_i z _
      intro h
      exfalso
      revert h
      unfold startSasl2
      dsimp only
      split
      · simp [EL, L3]
      · rw [disconnectFromHost_listener]; simp [EL, L3]
    · split
      · intro h
        exfalso
        revert h
        unfold startSasl
        split
        · simp [EL, L3]
        · rw [disconnectFromHost_listener]; simp [EL, L3]
      · split
        · intro _
          exact ⟨rfl, fun h => by simp [startNonSaslAuth, L3] at h⟩
        · dsimp only
          split
          · intro _; exact ⟨rfl, fun _ => ⟨rfl, rfl⟩⟩
          · split
            · intro _; exact ⟨rfl, fun _ => ⟨rfl, rfl⟩⟩
            · split
              · intro _; exact ⟨rfl, fun _ => ⟨rfl, rfl⟩⟩
              · intro h
                rw [(openSession_spec _).2.2.1.listener] at h
                simp [hl, EL, L3] at h


theorem disconnectFromServer_listener (s : St) : (disconnectFromServer s).1.listener = s.listener := by
  unfold disconnectFromServer
  dsimp only
  split
  · rw [disconnectFromHost_listener]; exact (sendStanza_core _ _).1.listener
  · rw [disconnectFromHost_listener]
theorem handleFeatures_el (s : St) (f : Features) (hl : s.listener = .idle) (h : EL (handleFeatures s f).1.listener) :
    Wrote f (handleFeatures s f).1 := by
  revert h
  unfold handleFeatures
  split
  · unfold registerOnFeatures
    split
    · rename_i r hr
      unfold handleStarttls at hr
      repeat' split at hr
      all_goals first
        | (cases hr; done)
        | (cases hr; intro h; rw [disconnectFromHost_listener, hl] at h; simp [EL, L3] at h)
        | (cases hr; intro h; simp [EL, L3] at h)
    · split
      · intro h
        have c := sendStanza_core s (.register s.regForm)
        have : (sendStanza s (.register s.regForm)).1.listener = .idle := c.1.listener.trans hl
        exfalso; revert h; show ¬ EL (sendStanza s _).1.listener; rw [this]; simp [EL, L3]
      · intro h
        rw [disconnectFromServer_listener, hl] at h; simp [EL, L3] at h
  · exact handleFeaturesOwn_el s f hl

/-- **Entering a listener that can open a session writes the availability fields in the same step** — from any state: either
a features element was received and `csiAvail`, and for the bind / enable / resume listeners also `bindAvail` and `smAvail`,
hold exactly what it advertised; or a version-less header was received and `csiAvail` is false (XEP-0078 listener). -/
theorem el_entered_only_by_a_write (s : St) (e : Ev) (hpre : ¬ EL s.listener) (hpost : EL (step s e).1.listener) :
    (∃ f, e = .recv (.features f) ∧ Wrote f (step s e).1) ∨
    (∃ i, e = .recv (.header false i) ∧ (step s e).1.listener = .nonSaslFields ∧ (step s e).1.csiAvail = false) := by
  cases e with
  | connectToServer => exfalso; revert hpost; show ¬ EL (connectTo s).1.listener; rw [connectTo_listener]; exact hpre
  | tlsCloseNotify => exfalso; revert hpost; simp only [step]; split <;> exact hpre
  | reconnectTick =>
    exfalso; revert hpost; simp only [step]
    split
    · rw [connectTo_listener]; exact hpre
    · exact hpre
  | socketConnected =>
    exfalso; revert hpost; simp only [step]
    split
    · simp [handleStart, EL, L3]
    · exact hpre
  | socketError => exact absurd hpost hpre
  | socketDisconnected =>
    exfalso; revert hpost; show ¬ EL (socketGone s).1.listener; rw [socketGone_listener]; exact hpre
  | sendIq =>
    exfalso; revert hpost
    simp only [step, sendIq]
    have hc := (sendStanza_core s (.iqRequest false)).1.listener
    split
    · rw [hc]; exact hpre
    · show ¬ EL (sendStanza s (.iqRequest false)).1.listener; rw [hc]; exact hpre
  | sendIqRetry =>
    exfalso; revert hpost; show ¬ EL (sendIqRetry s).1.listener; rw [(sendIqRetry_core s).1.listener]; exact hpre
  | recvWhitespace => exact absurd hpost hpre
  | recvPartial => exfalso; revert hpost; simp only [step]; split <;> exact hpre
  | tick => exfalso; revert hpost; rcases tick_cases s with h | ⟨k, h⟩ <;> rw [h] <;> exact hpre
  | closeTail => exfalso; revert hpost; show ¬ EL (disconnectFromHost s).1.listener; rw [disconnectFromHost_listener]; exact hpre
  | recv el =>
    revert hpost
    simp only [step]
    unfold recv
    split
    · intro h; exact absurd h hpre
    · split
      · rename_i v i
        unfold handleStream
        dsimp only
        split
        · intro h; exact absurd h hpre
        · split
          · rename_i hv
            split
            · intro h; rw [disconnectFromHost_listener] at h; exact absurd h hpre
            · intro _
              have : v = false := by
                cases v
                · rfl
                · simp at hv
              subst this
              exact Or.inr ⟨i, rfl, rfl, rfl⟩
          · intro h; exact absurd h hpre
      · split
        · intro h; exact absurd h hpre
        · split
          · intro h; rw [disconnectFromHost_listener] at h; exact absurd h hpre
          · unfold dispatch
            split
            · rename_i hl
              by_cases hf : ∃ f, el = .features f
              · obtain ⟨f, rfl⟩ := hf
                intro h
                left
                refine ⟨f, rfl, ?_⟩
                unfold idleHandle at h ⊢
                simp only [El.isStanza, Bool.false_eq_true, false_and, if_false, idleHandle'] at h ⊢
                exact handleFeatures_el s f hl h
              · intro h
                rw [(idleHandle_nf s el hl (fun f hf' => hf ⟨f, hf'⟩)).1] at h
                simp [EL, L3] at h
            · intro h; exact absurd h (starttlsHandle_el s el hpre)
            · rename_i hl; exact absurd (by rw [hl]; exact Or.inr (Or.inl rfl)) hpre
            · rename_i hl; exact absurd (by rw [hl]; exact Or.inr (Or.inr rfl)) hpre
            · intro h; exact absurd h (saslHandle_el s _ _ el hpre)
            · intro h; rw [reject_listener] at h; exact absurd h hpre
            · intro h; exact absurd h (sasl2Handle_el s _ _ el hpre)
            · intro h; rw [reject_listener] at h; exact absurd h hpre
            · rename_i hl; exact absurd (by rw [hl]; exact Or.inl (Or.inr (Or.inr rfl))) hpre
            · rename_i hl; exact absurd (by rw [hl]; exact Or.inl (Or.inr (Or.inl rfl))) hpre
            · rename_i hl; exact absurd (by rw [hl]; exact Or.inl (Or.inl rfl)) hpre

theorem nC_saslHandle (s : St) (m : Used) (fr : Bool) (e : El) : nC (saslHandle s m fr e).2 = 0 := by
  unfold saslHandle; cnt_crush
theorem nC_nonSaslHandle (s : St) (e : El) : nC (nonSaslHandle s e).2 = 0 := by
  unfold nonSaslHandle; cnt_crush

/-- a SASL2 success opens the session only when it carries `<resumed/>` -/
theorem sasl2Handle_opens_only_resumed (s : St) (m : Used) (fr : Bool) (e : El) (h : nC (sasl2Handle s m fr e).2 ≠ 0) :
    ∃ b tok p, e = .s2Success b .resumed tok p := by
  revert h
  unfold sasl2Handle
  split
  · split <;> simp
  · rename_i b r tok proof
    split
    case isFalse => simp
    by_cases hr : r = .resumed
    · subst hr; intro _; exact ⟨b, tok, proof, rfl⟩
    · dsimp only
      simp [hr]
      split <;> simp
  · simp
  · simp
  · simp

/-- **Where a session can be opened from** (any state, any event): by the idle listener on a features element, by one of
the `EL` listeners, or by a SASL2 success that carries `<resumed/>` (the stated exception: an inline-resumed session keeps the
features of the session it resumes). -/
theorem session_opened_from (s : St) (e : Ev) (h : nC (step s e).2 ≠ 0) :
    (∃ f, e = .recv (.features f) ∧ s.listener = .idle) ∨ EL s.listener ∨
    (∃ b tok p, e = .recv (.s2Success b .resumed tok p)) := by
  cases e with
  | connectToServer => exfalso; apply h; simp [step]
  | tlsCloseNotify => exfalso; apply h; simp only [step]; split <;> simp
  | reconnectTick => exfalso; apply h; simp only [step]; split <;> simp
  | socketConnected => exfalso; apply h; simp only [step]; split <;> simp
  | socketError => exfalso; apply h; simp [step]
  | socketDisconnected => exfalso; apply h; simp [step]
  | sendIq => exfalso; apply h; simp only [step, sendIq]; cnt_crush
  | sendIqRetry => exfalso; apply h; simp [step]
  | recvWhitespace => exfalso; apply h; simp [step]
  | recvPartial => exfalso; apply h; simp only [step]; split <;> simp
  | tick => exfalso; apply h; rcases tick_cases s with h' | ⟨k, h'⟩ <;> rw [h'] <;> simp [send]
  | closeTail => exfalso; apply h; simp [step]
  | recv el =>
    revert h
    simp only [step]
    unfold recv
    split
    · simp
    · split
      · simp
      · split
        · simp
        · split
          · simp
          · unfold dispatch
            split
            · rename_i hl
              by_cases hf : ∃ f, el = .features f
              · obtain ⟨f, rfl⟩ := hf
                intro _; exact Or.inl ⟨f, rfl, hl⟩
              · intro h
                exact absurd (idleHandle_nf s el hl (fun f hf' => hf ⟨f, hf'⟩)).2 h
            · intro h; exact absurd (nC_starttlsHandle s el) h
            · rename_i hl; intro _; exact Or.inr (Or.inl (by rw [hl]; exact Or.inr (Or.inl rfl)))
            · rename_i hl; intro _; exact Or.inr (Or.inl (by rw [hl]; exact Or.inr (Or.inr rfl)))
            · intro h; exact absurd (nC_saslHandle s _ _ el) h
            · simp
            · intro h
              obtain ⟨b, tok, p, rfl⟩ := sasl2Handle_opens_only_resumed s _ _ el h
              exact Or.inr (Or.inr ⟨b, tok, p, rfl⟩)
            · simp
            · rename_i hl; intro _; exact Or.inr (Or.inl (by rw [hl]; exact Or.inl (Or.inr (Or.inr rfl))))
            · rename_i hl; intro _; exact Or.inr (Or.inl (by rw [hl]; exact Or.inl (Or.inr (Or.inl rfl))))
            · rename_i hl; intro _; exact Or.inr (Or.inl (by rw [hl]; exact Or.inl (Or.inl rfl)))

end Qx.C10
