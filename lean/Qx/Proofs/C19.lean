import Qx.Model.C19Ibb
/-!
Helper lemmas for C19 (property theorems: `Qx/Props/C19.lean`).
-/
namespace Qx.C19

/-! ### field bookkeeping -/

@[simp] theorem Recv.terminate_accRev (r : Recv) (c : JError) : (r.terminate c).accRev = r.accRev := by
  unfold Recv.terminate; split <;> rfl
@[simp] theorem Recv.terminate_expected (r : Recv) (c : JError) : (r.terminate c).expected = r.expected := by
  unfold Recv.terminate; split <;> rfl
@[simp] theorem Recv.terminate_size (r : Recv) (c : JError) : (r.terminate c).size = r.size := by
  unfold Recv.terminate; split <;> rfl
@[simp] theorem Recv.terminate_hash (r : Recv) (c : JError) : (r.terminate c).hash = r.hash := by
  unfold Recv.terminate; split <;> rfl
@[simp] theorem Recv.terminate_fedRev (r : Recv) (c : JError) : (r.terminate c).fedRev = r.fedRev := by
  unfold Recv.terminate; split <;> rfl
@[simp] theorem Recv.terminate_dev (r : Recv) (c : JError) : (r.terminate c).dev = r.dev := by
  unfold Recv.terminate; split <;> rfl
@[simp] theorem Recv.terminate_acc (r : Recv) (c : JError) : (r.terminate c).acc = r.acc := by
  simp [Recv.acc]
@[simp] theorem Recv.terminate_fed (r : Recv) (c : JError) : (r.terminate c).fed = r.fed := by
  simp [Recv.fed]
@[simp] theorem Recv.terminate_checkFails (H : List UInt8 → List UInt8) (r : Recv) (c : JError) :
    (r.terminate c).checkFails H = r.checkFails H := by
  simp [Recv.checkFails]

@[simp] theorem Recv.checkData_accRev (H : List UInt8 → List UInt8) (r : Recv) : (r.checkData H).accRev = r.accRev := by
  unfold Recv.checkData; split <;> simp
@[simp] theorem Recv.checkData_expected (H : List UInt8 → List UInt8) (r : Recv) : (r.checkData H).expected = r.expected := by
  unfold Recv.checkData; split <;> simp
@[simp] theorem Recv.checkData_size (H : List UInt8 → List UInt8) (r : Recv) : (r.checkData H).size = r.size := by
  unfold Recv.checkData; split <;> simp
@[simp] theorem Recv.checkData_hash (H : List UInt8 → List UInt8) (r : Recv) : (r.checkData H).hash = r.hash := by
  unfold Recv.checkData; split <;> simp
@[simp] theorem Recv.checkData_fedRev (H : List UInt8 → List UInt8) (r : Recv) : (r.checkData H).fedRev = r.fedRev := by
  unfold Recv.checkData; split <;> simp
@[simp] theorem Recv.checkData_dev (H : List UInt8 → List UInt8) (r : Recv) : (r.checkData H).dev = r.dev := by
  unfold Recv.checkData; split <;> simp
@[simp] theorem Recv.checkData_acc (H : List UInt8 → List UInt8) (r : Recv) : (r.checkData H).acc = r.acc := by
  simp [Recv.acc]
@[simp] theorem Recv.checkData_fed (H : List UInt8 → List UInt8) (r : Recv) : (r.checkData H).fed = r.fed := by
  simp [Recv.fed]

/-- a device never takes more than offered -/
theorem Dev.accept_le (d : Dev) (held : Unit → Nat) (n w : Nat) (h : d.accept held n = some w) : w ≤ n := by
  cases d <;> simp only [Dev.accept] at h
  · simp at h; omega
  · simp at h; omega
  · simp at h; omega
  · split at h <;> simp at h; omega

/-! `Recv.write` touches the device content, the hash input and — on a short or failed write — ends the job -/
@[simp] theorem Recv.write_size (r : Recv) (pl : List UInt8) : (r.write pl).size = r.size := by
  unfold Recv.write; split <;> (try split) <;> simp
@[simp] theorem Recv.write_hash (r : Recv) (pl : List UInt8) : (r.write pl).hash = r.hash := by
  unfold Recv.write; split <;> (try split) <;> simp
@[simp] theorem Recv.write_expected (r : Recv) (pl : List UInt8) : (r.write pl).expected = r.expected := by
  unfold Recv.write; split <;> (try split) <;> simp
@[simp] theorem Recv.write_dev (r : Recv) (pl : List UInt8) : (r.write pl).dev = r.dev := by
  unfold Recv.write; split <;> (try split) <;> simp

/-- the two things one `write()` can do: the device took the whole block (nothing else changes), or it did not —
then a proper prefix of the block (possibly nothing) stays in the device, counter and hash do not move, and the job
is ended with `FileAccessError` -/
theorem Recv.write_cases (r : Recv) (pl : List UInt8) :
    ((r.write pl).acc = r.acc ++ pl ∧ (r.write pl).fed = r.fed ++ pl ∧ (r.write pl).state = r.state ∧
      (r.write pl).error = r.error) ∨
    (∃ w, (w < pl.length ∨ w = 0) ∧ (r.write pl).acc = r.acc ++ pl.take w ∧ (r.write pl).fed = r.fed ∧
      ∃ r0 : Recv, r0.state = r.state ∧ r0.error = r.error ∧ r.write pl = r0.terminate .access) := by
  unfold Recv.write
  split
  · exact Or.inr ⟨0, Or.inr rfl, by simp, by simp, r, rfl, rfl, rfl⟩
  · rename_i w hw
    have hle := Dev.accept_le _ _ _ _ hw
    split
    · rename_i hfull
      exact Or.inl ⟨by simp [Recv.acc], by simp [Recv.fed], rfl, rfl⟩
    · rename_i hshort
      exact Or.inr ⟨w, Or.inl (by omega), by simp [Recv.acc], by simp [Recv.fed],
        { r with accRev := (pl.take w).reverse ++ r.accRev }, rfl, rfl, rfl⟩

/-- what one `write()` does to the device content: a prefix of the block is appended -/
theorem Recv.write_acc (r : Recv) (pl : List UInt8) : ∃ w, w ≤ pl.length ∧ (r.write pl).acc = r.acc ++ pl.take w := by
  rcases Recv.write_cases r pl with ⟨h, _⟩ | ⟨w, hw, h, _⟩
  · exact ⟨pl.length, Nat.le_refl _, by rw [h, List.take_length]⟩
  · exact ⟨w, by omega, h⟩

/-- after a write the job is where it was, or it has just ended with `FileAccessError` -/
theorem Recv.write_state_cases (r : Recv) (pl : List UInt8) (ht : r.state = .transfer) :
    ((r.write pl).state = .transfer ∧ (r.write pl).error = r.error) ∨
    ((r.write pl).state = .finished ∧ (r.write pl).error = .access) := by
  rcases Recv.write_cases r pl with ⟨_, _, h1, h2⟩ | ⟨w, _, _, _, r0, e1, e2, e3⟩
  · exact Or.inl ⟨by rw [h1, ht], h2⟩
  · right
    rw [e3]
    unfold Recv.terminate
    simp [e1, ht]

theorem Recv.write_unlimited_eq (r : Recv) (pl : List UInt8) (h : r.dev = .unlimited) :
    r.write pl = { r with accRev := pl.reverse ++ r.accRev, fedRev := pl.reverse ++ r.fedRev } := by
  unfold Recv.write
  simp only [h, Dev.accept, if_true]

/-- a device that takes everything -/
theorem Recv.write_unlimited (r : Recv) (pl : List UInt8) (h : r.dev = .unlimited) :
    (r.write pl).acc = r.acc ++ pl ∧ (r.write pl).fed = r.fed ++ pl := by
  rw [Recv.write_unlimited_eq r pl h]
  simp [Recv.acc, Recv.fed]

@[simp] theorem Recv.write_unlimited_state (r : Recv) (pl : List UInt8) (h : r.dev = .unlimited) :
    (r.write pl).state = r.state ∧ (r.write pl).error = r.error := by
  rw [Recv.write_unlimited_eq r pl h]; exact ⟨rfl, rfl⟩

/-- a job that failed the final check never reports success -/
theorem Recv.checkData_fails_not_success (H : List UInt8 → List UInt8) (r : Recv)
    (hf : r.checkFails H = true) (hn : ¬ r.success) : ¬ (r.checkData H).success := by
  unfold Recv.checkData Recv.terminate
  rw [if_pos hf]
  split
  · exact hn
  · simp [Recv.success]

@[simp] theorem feed_r (st : St) (rep : Reply) : (feed st rep).r = st.r := rfl
@[simp] theorem toR_r (H : List UInt8 → List UInt8) (st : St) (p : Stanza) : (toR H st p).1.r = (recv H st.r p).1 := rfl
@[simp] theorem toR_s (H : List UInt8 → List UInt8) (st : St) (p : Stanza) : (toR H st p).1.s = st.s := rfl
@[simp] theorem toR_pending (H : List UInt8 → List UInt8) (st : St) (p : Stanza) : (toR H st p).1.pending = st.pending := rfl
@[simp] theorem toR_reply (H : List UInt8 → List UInt8) (st : St) (p : Stanza) : (toR H st p).2 = (recv H st.r p).2 := rfl
@[simp] theorem feed_s (st : St) (rep : Reply) : (feed st rep).s = (sender st.s rep).1 := rfl

theorem run_append (H : List UInt8 → List UInt8) (st : St) (a b : List Op) :
    (run H st (a ++ b)).1 = (run H (run H st a).1 b).1 := by
  induction a generalizing st with
  | nil => rfl
  | cons op a ih => simp [run, ih]

theorem honest_add (a b : Nat) : honest (a + b) = honest a ++ honest b := by
  simp [honest]

/-! ### an invariant of the receiving job alone survives every channel operation -/

theorem step_r_inv (H : List UInt8 → List UInt8) (P : Recv → Prop)
    (hP : ∀ r p, P r → P (recv H r p).1) (hT : ∀ r, P r → P (r.terminate .protocol))
    (st : St) (op : Op) (h : P st.r) : P (step H st op).1.r := by
  cases op <;> simp only [step, deliverStanza]
  case deliver => split <;> simp_all
  case drop => split <;> simp_all
  case dup => split <;> simp_all
  case swap =>
    split
    · exact h
    · split <;> simp_all
  case flip => split <;> simp_all
  case earlyClose => simp_all
  case wrongSid => split <;> simp_all
  case wrongSender => split <;> simp_all
  case inject => simp_all
  case lose => exact h
  case injectReply => simp_all
  case peerClose => exact h
  case timeout =>
    split
    · exact hT _ h
    · exact h

theorem run_r_inv (H : List UInt8 → List UInt8) (P : Recv → Prop)
    (hP : ∀ r p, P r → P (recv H r p).1) (hT : ∀ r, P r → P (r.terminate .protocol))
    (ops : List Op) (st : St) (h : P st.r) : P (run H st ops).1.r := by
  induction ops generalizing st with
  | nil => exact h
  | cons op ops ih => exact ih _ (step_r_inv H P hP hT st op h)

/-- whenever the job is finished without error, the final check passed on what it holds now -/
def Checked (H : List UInt8 → List UInt8) (r : Recv) : Prop :=
  r.state = .finished → r.error = .none → r.checkFails H = false

theorem recv_checked (H : List UInt8 → List UInt8) (r : Recv) (p : Stanza) (h : Checked H r) :
    Checked H (recv H r p).1 := by
  unfold recv
  split
  · exact h
  · split
    · -- close
      unfold Recv.checkData Recv.terminate
      split
      · split
        · exact h
        · intro _ he; simp at he
      · split
        · exact h
        · rename_i hck _
          intro _ _
          simpa [Recv.checkFails, Recv.acc, Recv.fed] using hck
    · -- data
      split
      · exact h
      · split
        · exact h
        · rename_i hst _
          simp only [ne_eq, Decidable.not_not] at hst
          rcases Recv.write_state_cases { r with expected := r.expected + 1 } _ hst with ⟨h1, _⟩ | ⟨_, h2⟩
          · intro hfin; rw [h1] at hfin; cases hfin
          · intro _ he; rw [h2] at he; cases he
    · -- open
      split
      · exact h
      · split
        · exact h
        · intro hfin; simp at hfin

@[simp] theorem Recv.terminate_acc' (r : Recv) (c : JError) : (r.terminate c).acc = r.acc := Recv.terminate_acc r c

theorem terminate_checked (H : List UInt8 → List UInt8) (r : Recv) (c : JError) (hc : c ≠ .none) (h : Checked H r) :
    Checked H (r.terminate c) := by
  unfold Recv.terminate
  split
  · exact h
  · intro _ he; exact absurd he hc

theorem run_checked (H : List UInt8 → List UInt8) (ops : List Op) (st : St) (h : Checked H st.r) :
    Checked H (run H st ops).1.r :=
  run_r_inv H (Checked H) (recv_checked H) (fun r h => terminate_checked H r _ (by decide) h) ops st h

theorem checkFails_false_iff (H : List UInt8 → List UInt8) (r : Recv) :
    r.checkFails H = false ↔ (r.size ≠ 0 → r.fed.length = r.size) ∧ (∀ h, r.hash = some h → H r.fed = h) := by
  unfold Recv.checkFails
  cases hh : r.hash <;> simp <;> omega

end Qx.C19

namespace Qx.C19

/-! ### channels that do not alter or forge: a generic three-part invariant -/

/-- the operations of a channel that loses, duplicates, reorders, mislabels and cuts short, lets third
parties / other sessions interfere, but neither alters payloads nor forges requests in the sender's name -/
def Op.benign : Op → Prop
  | .flip _ => False
  | .inject sender sid _ => sender ≠ 0 ∨ sid ≠ 0
  | _ => True

/-- not for this job: another sender or another session -/
def Foreign (p : Stanza) : Prop := p.sender ≠ 0 ∨ p.sid ≠ 0

structure Tri (SP : Send → Prop) (RP : Recv → Prop) (G : Stanza → Prop) (st : St) : Prop where
  s : SP st.s
  r : RP st.r
  p : ∀ q, st.pending = some q → G q

section generic
set_option linter.unusedSectionVars false
variable (H : List UInt8 → List UInt8) {SP : Send → Prop} {RP : Recv → Prop} {G : Stanza → Prop}
  (hR : ∀ r p, RP r → (G p ∨ Foreign p) → RP (recv H r p).1)
  (hS : ∀ s rep, SP s → SP (sender s rep).1 ∧ ∀ p, (sender s rep).2 = some p → G p)
  (hC : G { id := 0, sender := 0, sid := 0, kind := .close })
  (hRT : ∀ r, RP r → RP (r.terminate .protocol)) (hST : ∀ s, SP s → SP (s.terminate .protocol))
include hR hS hC hRT hST

theorem tri_toR (st : St) (p : Stanza) (h : Tri SP RP G st) (hp : G p ∨ Foreign p) : Tri SP RP G (toR H st p).1 :=
  ⟨h.s, hR _ _ h.r hp, h.p⟩

theorem tri_feed (st : St) (rep : Reply) (h : Tri SP RP G st) : Tri SP RP G (feed st rep) := by
  refine ⟨(hS _ rep h.s).1, h.r, ?_⟩
  intro q hq
  simp only [feed] at hq
  split at hq
  · rename_i p hp
    injection hq with hq
    subst hq
    exact (hS _ rep h.s).2 _ hp
  · exact h.p _ hq

theorem tri_clear (st : St) (h : Tri SP RP G st) : Tri SP RP G { st with pending := none } :=
  ⟨h.s, h.r, by intro q hq; simp at hq⟩

theorem tri_deliverStanza (st : St) (p : Stanza) (h : Tri SP RP G st) (hp : G p ∨ Foreign p) :
    Tri SP RP G (deliverStanza H st p).1 :=
  tri_feed H hR hS hC hRT hST _ _ (tri_toR H hR hS hC hRT hST _ _ h hp)

theorem tri_step (st : St) (op : Op) (hb : op.benign) (h : Tri SP RP G st) : Tri SP RP G (step H st op).1 := by
  have clr := tri_clear H hR hS hC hRT hST st h
  cases op <;> simp only [step]
  case deliver =>
    split
    · exact h
    · rename_i p hp
      exact tri_deliverStanza H hR hS hC hRT hST _ _ clr (Or.inl (h.p _ hp))
  case drop =>
    split
    · exact h
    · exact tri_feed H hR hS hC hRT hST _ _ clr
  case dup =>
    split
    · exact h
    · rename_i p hp
      have g := h.p _ hp
      exact tri_feed H hR hS hC hRT hST _ _ (tri_feed H hR hS hC hRT hST _ _
        (tri_toR H hR hS hC hRT hST _ _ (tri_toR H hR hS hC hRT hST _ _ clr (Or.inl g)) (Or.inl g)))
  case swap =>
    split
    · exact h
    · rename_i p hp
      have g := h.p _ hp
      have h1 := tri_feed H hR hS hC hRT hST _ (ack p) clr
      split
      · exact tri_deliverStanza H hR hS hC hRT hST _ _ h1 (Or.inl g)
      · rename_i q hq
        have gq := h1.p _ hq
        have h2 := tri_clear H hR hS hC hRT hST _ h1
        exact tri_feed H hR hS hC hRT hST _ _ (tri_feed H hR hS hC hRT hST _ _
          (tri_toR H hR hS hC hRT hST _ _ (tri_toR H hR hS hC hRT hST _ _ h2 (Or.inl gq)) (Or.inl g)))
  case flip => exact absurd hb (by simp [Op.benign])
  case earlyClose => exact tri_deliverStanza H hR hS hC hRT hST _ _ h (Or.inl hC)
  case wrongSid =>
    split
    · exact h
    · exact tri_deliverStanza H hR hS hC hRT hST _ _ clr (Or.inr (Or.inr (by simp)))
  case wrongSender =>
    split
    · exact h
    · exact tri_deliverStanza H hR hS hC hRT hST _ _ clr (Or.inr (Or.inl (by simp)))
  case inject a b k => exact tri_deliverStanza H hR hS hC hRT hST _ _ h (Or.inr hb)
  case lose => exact clr
  case injectReply => exact tri_feed H hR hS hC hRT hST _ _ h
  case peerClose => exact h
  case timeout =>
    refine ⟨?_, ?_, h.p⟩
    · show SP (if st.s.state = .transfer then st.s.terminate .protocol else st.s)
      split
      · exact hST _ h.s
      · exact h.s
    · show RP (if st.r.state = .transfer then st.r.terminate .protocol else st.r)
      split
      · exact hRT _ h.r
      · exact h.r

theorem tri_run (ops : List Op) (st : St) (hb : ∀ op ∈ ops, op.benign) (h : Tri SP RP G st) :
    Tri SP RP G (run H st ops).1 := by
  induction ops generalizing st with
  | nil => exact h
  | cons op ops ih =>
    exact ih _ (fun o ho => hb o (List.mem_cons_of_mem _ ho))
      (tri_step H hR hS hC hRT hST st op (hb op List.mem_cons_self) h)

end generic

theorem recv_foreign (H : List UInt8 → List UInt8) (r : Recv) (p : Stanza) (h : Foreign p) : (recv H r p).1 = r := by
  unfold Foreign at h; unfold recv; rw [if_pos h]

end Qx.C19
namespace Qx.C19

/-! ### device content versus hash input -/

/-- what the device holds is exactly what counter and hash have seen — or strictly more (the part of a block a short
write left behind) -/
def AF (r : Recv) : Prop := r.acc = r.fed ∨ r.fed.length < r.acc.length

theorem write_AF (r : Recv) (pl : List UInt8) (h : AF r) : AF (r.write pl) := by
  rcases Recv.write_cases r pl with ⟨h1, h2, _⟩ | ⟨w, hw, h1, h2, _⟩
  · unfold AF; rw [h1, h2]
    rcases h with h | h
    · left; rw [h]
    · right; simp only [List.length_append]; omega
  · unfold AF; rw [h1, h2]
    rcases h with h | h
    · by_cases hz : (pl.take w).length = 0
      · left; rw [List.eq_nil_of_length_eq_zero hz, List.append_nil]; exact h
      · right; rw [h, List.length_append]; omega
    · right; rw [List.length_append]; omega

theorem recv_AF (H : List UInt8 → List UInt8) (r : Recv) (p : Stanza) (h : AF r) : AF (recv H r p).1 := by
  unfold recv
  split
  · exact h
  · split
    · simpa [AF] using h
    · split
      · exact h
      · split
        · exact h
        · apply write_AF
          simpa [AF, Recv.acc, Recv.fed] using h
    · split
      · exact h
      · split
        · exact h
        · simpa [AF, Recv.acc, Recv.fed] using h

theorem terminate_AF (r : Recv) (c : JError) (h : AF r) : AF (r.terminate c) := by
  simpa [AF] using h

/-- with a device that takes everything the two are always equal -/
def AFU (r : Recv) : Prop := r.dev = .unlimited ∧ r.acc = r.fed

theorem recv_AFU (H : List UInt8 → List UInt8) (r : Recv) (p : Stanza) (h : AFU r) : AFU (recv H r p).1 := by
  unfold recv
  split
  · exact h
  · split
    · simpa [AFU] using h
    · split
      · exact h
      · split
        · exact h
        · rename_i seq pl _ _ _
          have hw := Recv.write_unlimited { r with expected := r.expected + 1 } pl h.1
          refine ⟨by simpa using h.1, ?_⟩
          rw [hw.1, hw.2]
          show r.acc ++ pl = r.fed ++ pl
          rw [h.2]
    · split
      · exact h
      · split
        · exact h
        · simpa [AFU, Recv.acc, Recv.fed] using h

end Qx.C19
namespace Qx.C19

/-! ### what the sender emits, what the receiver then holds -/

/-- a request really produced by the sending job for file `data` with block size `bs`: block number `n`,
carrying the wrapped 16-bit sequence number `n mod 65536` -/
def Genuine (data : List UInt8) (bs : Nat) (p : Stanza) : Prop :=
  p.sender = 0 ∧ p.sid = 0 ∧
    match p.kind with
    | .data seq pl => ∃ n, seq = UInt16.ofNat n ∧ pl = (data.drop (n * bs)).take bs ∧ pl ≠ []
    | _ => True

/-- the sending job has read `n` whole blocks, its 16-bit counter shows `n mod 65536` -/
def SInv (data : List UInt8) (bs : Nat) (s : Send) : Prop :=
  s.blockSize = bs ∧ ∃ n, s.seq = UInt16.ofNat n ∧ s.rest = data.drop (n * bs)

/-- `B` = bound on the number of blocks of the file (`data.length ≤ B * bs`, `B ≤ 65536`).
The receiving job waits for sequence number `e mod 65536`, `e ≤ B`, and its device holds the first `e` blocks —
or, with a device that may take less than offered (only allowed for `B < 65536`), strictly fewer bytes than those;
or, once the counter has wrapped after a complete file of exactly 65536 blocks (`B = 65536`, device takes everything),
it has accepted a replayed block and holds MORE bytes than the file has (the size check can never pass again). -/
def RInv (data : List UInt8) (bs B : Nat) (r : Recv) : Prop :=
  (B = 65536 → r.dev = .unlimited) ∧
  ((∃ e, e ≤ B ∧ r.expected = UInt16.ofNat e ∧
      (r.acc = data.take (e * bs) ∨ (B < 65536 ∧ r.acc.length < (data.take (e * bs)).length))) ∨
   (r.dev = .unlimited ∧ data ≠ [] ∧ data.length < r.acc.length))

@[simp] theorem Send.terminate_rest (s : Send) (c : JError) : (s.terminate c).rest = s.rest := by
  unfold Send.terminate; split <;> rfl
@[simp] theorem Send.terminate_seq (s : Send) (c : JError) : (s.terminate c).seq = s.seq := by
  unfold Send.terminate; split <;> rfl
@[simp] theorem Send.terminate_blockSize (s : Send) (c : JError) : (s.terminate c).blockSize = s.blockSize := by
  unfold Send.terminate; split <;> rfl
@[simp] theorem Send.terminate_state (s : Send) (c : JError) : (s.terminate c).state = .finished := by
  unfold Send.terminate; split <;> simp_all

theorem ofNat_succ (n : Nat) : UInt16.ofNat (n + 1) = UInt16.ofNat n + 1 := by
  rw [UInt16.ofNat_add]; rfl

theorem sender_SInv (data : List UInt8) (bs : Nat) (s : Send) (rep : Reply) (h : SInv data bs s) :
    SInv data bs (sender s rep).1 ∧ ∀ p, (sender s rep).2 = some p → Genuine data bs p := by
  obtain ⟨hb, n, hn, hr⟩ := h
  unfold sender
  split
  · exact ⟨⟨hb, n, hn, hr⟩, by simp⟩
  · split
    · exact ⟨⟨hb, n, hn, hr⟩, by simp⟩
    · split
      · exact ⟨⟨hb, n, hn, hr⟩, by simp⟩
      · split
        · split
          · rename_i hne
            refine ⟨⟨hb, n + 1, ?_, ?_⟩, ?_⟩
            · show s.seq + 1 = UInt16.ofNat (n + 1)
              rw [ofNat_succ, hn]
            · simp only [hr, hb, List.drop_drop, Nat.succ_mul]
            · intro p hp
              simp only [Option.some.injEq] at hp
              subst hp
              refine ⟨rfl, rfl, n, hn, ?_, ?_⟩
              · simp only [hr, hb]
              · exact hne
          · refine ⟨⟨by simpa using hb, n, by simpa using hn, by simpa using hr⟩, ?_⟩
            intro p hp
            simp only [Option.some.injEq] at hp
            subst hp
            exact ⟨rfl, rfl, trivial⟩
        · refine ⟨⟨by simpa using hb, n, by simpa using hn, by simpa using hr⟩, ?_⟩
          intro p hp
          simp only [Option.some.injEq] at hp
          subst hp
          exact ⟨rfl, rfl, trivial⟩

theorem block_exists (data : List UInt8) (bs n : Nat) (hne : (data.drop (n * bs)).take bs ≠ []) :
    n * bs < data.length := by
  apply Classical.byContradiction
  intro hc
  apply hne
  rw [List.drop_of_length_le (by omega)]
  simp

theorem block_index_lt (data : List UInt8) (bs n B : Nat) (hlen : data.length ≤ B * bs)
    (hne : (data.drop (n * bs)).take bs ≠ []) : n < B := by
  have h1 : n * bs < data.length := block_exists data bs n hne
  apply Classical.byContradiction
  intro hc
  have : B * bs ≤ n * bs := Nat.mul_le_mul_right bs (by omega)
  omega

theorem ofNat_inj_of_lt (a b : Nat) (ha : a < 65536) (hb : b < 65536) (h : UInt16.ofNat a = UInt16.ofNat b) : a = b := by
  have := congrArg UInt16.toNat h
  rwa [UInt16.toNat_ofNat_of_lt' ha, UInt16.toNat_ofNat_of_lt' hb] at this

theorem ofNat_65536 : UInt16.ofNat 65536 = UInt16.ofNat 0 := by decide

/-- needs the file to have at most 65536 blocks: otherwise block `n + 65536` is indistinguishable from block `n` -/
theorem recv_RInv (H : List UInt8 → List UInt8) (data : List UInt8) (bs B : Nat) (hB : B ≤ 65536)
    (hlen : data.length ≤ B * bs) (r : Recv) (p : Stanza)
    (h : RInv data bs B r) (hp : Genuine data bs p ∨ Foreign p) : RInv data bs B (recv H r p).1 := by
  by_cases hf : Foreign p
  · rw [recv_foreign H r p hf]; exact h
  have hg : Genuine data bs p := hp.resolve_right hf
  obtain ⟨g1, g2, g3⟩ := hg
  unfold recv
  split
  · exact h
  · split
    · simpa [RInv] using h
    · rename_i seq pl hk
      rw [hk] at g3
      obtain ⟨n, hn, hpl, hne⟩ := g3
      split
      · exact h
      · split
        · exact h
        · rename_i hseq
          simp only [ne_eq, Decidable.not_not] at hseq
          have hn' : n < B := block_index_lt data bs n B hlen (hpl ▸ hne)
          have hdne : data ≠ [] := by
            intro hd; apply hne; rw [hpl, hd]; simp
          have hpos : 0 < pl.length := List.length_pos_iff.mpr hne
          obtain ⟨hdev, h⟩ := h
          refine ⟨by simpa using hdev, ?_⟩
          -- what the single write() does to the device content
          obtain ⟨w, hw, hacc'⟩ := Recv.write_acc { r with expected := r.expected + 1 } pl
          have hacc'' : (({ r with expected := r.expected + 1 } : Recv).write pl).acc = r.acc ++ pl.take w := hacc'
          have hfullw : B = 65536 → w = pl.length := by
            intro hb
            have hu := (Recv.write_unlimited { r with expected := r.expected + 1 } pl (hdev hb)).1
            have : r.acc ++ pl.take w = r.acc ++ pl := by rw [← hacc'']; exact hu
            have := congrArg List.length (List.append_cancel_left this)
            rw [List.length_take] at this
            omega
          rcases h with ⟨e, he, hexp, hJ⟩ | ⟨hu2, hd, hover⟩
          · by_cases he' : e < B
            · -- the expected block arrives
              have hne' : n = e := ofNat_inj_of_lt n e (by omega) (by omega) (by rw [← hn, hseq, hexp])
              left
              refine ⟨e + 1, by omega, ?_, ?_⟩
              · simp only [Recv.write_expected]
                rw [ofNat_succ, hexp]
              · have hoff : data.take ((e + 1) * bs) = data.take (e * bs) ++ pl := by
                  rw [hpl, hne', Nat.succ_mul, List.take_add]
                rw [hacc'', hoff]
                by_cases hfull : w = pl.length
                · rcases hJ with hJ | ⟨hb, hJ⟩
                  · left; rw [hJ, hfull, List.take_length]
                  · right; refine ⟨hb, ?_⟩
                    simp only [List.length_append, List.length_take] at hJ ⊢; omega
                · right
                  have hb : B < 65536 := by
                    apply Classical.byContradiction
                    intro hc
                    exact hfull (hfullw (by omega))
                  refine ⟨hb, ?_⟩
                  rcases hJ with hJ | ⟨_, hJ⟩
                  · rw [hJ]; simp only [List.length_append, List.length_take]; omega
                  · simp only [List.length_append, List.length_take] at hJ ⊢; omega
            · -- e = B: every block of the file has been taken
              have heB : e = B := by omega
              by_cases hb : B = 65536
              · -- … and the counter has wrapped: a replayed block is taken, the device now holds more than the file
                right
                refine ⟨by simpa using hdev hb, hdne, ?_⟩
                rcases hJ with hJ | ⟨hlt, _⟩
                · rw [hacc'', hJ, heB, List.take_of_length_le hlen, hfullw hb, List.take_length, List.length_append]
                  omega
                · omega
              · -- B < 65536: no block of the file carries sequence number B
                have := ofNat_inj_of_lt n B (by omega) (by omega) (by rw [← hn, hseq, hexp, heB])
                omega
          · right
            refine ⟨by simpa using hu2, hd, ?_⟩
            rw [hacc'', List.length_append]; omega
    · split
      · exact h
      · split
        · exact h
        · simpa [RInv, Recv.acc] using h

theorem genuine_close (data : List UInt8) (bs : Nat) :
    Genuine data bs { id := 0, sender := 0, sid := 0, kind := .close } := ⟨rfl, rfl, trivial⟩

/-- the invariant of a transfer over a channel that neither alters nor forges -/
abbrev Inv (data : List UInt8) (bs B : Nat) : St → Prop := Tri (SInv data bs) (RInv data bs B) (Genuine data bs)

theorem inv_init (dev : Dev) (bsS bsR size B : Nat) (hash : Option (List UInt8)) (data : List UInt8)
    (hdev : B = 65536 → dev = .unlimited) :
    Inv data bsS B (initDev dev bsS bsR size hash data) := by
  refine ⟨⟨rfl, 0, rfl, by simp [initDev]⟩, ⟨hdev, Or.inl ⟨0, by omega, rfl, Or.inl (by simp [initDev, Recv.acc])⟩⟩, ?_⟩
  intro q hq
  simp only [initDev, Option.some.injEq] at hq
  subst hq
  exact ⟨rfl, rfl, trivial⟩

theorem terminate_RInv (data : List UInt8) (bs B : Nat) (r : Recv) (c : JError) (h : RInv data bs B r) :
    RInv data bs B (r.terminate c) := by
  simpa [RInv] using h

theorem terminate_SInv (data : List UInt8) (bs : Nat) (s : Send) (c : JError) (h : SInv data bs s) :
    SInv data bs (s.terminate c) := by
  simpa [SInv] using h

theorem inv_run (H : List UInt8 → List UInt8) (data : List UInt8) (bs B : Nat) (hB : B ≤ 65536) (hlen : data.length ≤ B * bs)
    (ops : List Op) (st : St)
    (hb : ∀ op ∈ ops, op.benign) (h : Inv data bs B st) : Inv data bs B (run H st ops).1 :=
  tri_run H (recv_RInv H data bs B hB hlen) (sender_SInv data bs) (genuine_close data bs)
    (fun r h => terminate_RInv data bs B r _ h) (fun s h => terminate_SInv data bs s _ h) ops st hb h

theorem checked_init (H : List UInt8 → List UInt8) (dev : Dev) (bsS bsR size : Nat) (hash : Option (List UInt8)) (data : List UInt8) :
    Checked H (initDev dev bsS bsR size hash data).r := by
  intro h; simp [initDev] at h

/-- receiver-side conclusion shared by the "identical bytes" theorems -/
theorem rinv_success_identical (H : List UInt8 → List UInt8) (data : List UInt8) (bs B : Nat) (r : Recv)
    (hsize : r.size = data.length) (hi : RInv data bs B r) (haf : AF r) (hu : r.dev = .unlimited → r.acc = r.fed)
    (hc : Checked H r) (hs : r.success) : r.acc = data := by
  have hck := (checkFails_false_iff H r).1 (hc hs.1 hs.2)
  rcases hi.2 with ⟨e, _, _, hJ⟩ | ⟨hu2, hd, hover⟩
  · by_cases hd : data.length = 0
    · have : data = [] := List.eq_nil_of_length_eq_zero hd
      subst this
      rcases hJ with hJ | ⟨_, hJ⟩
      · simpa using hJ
      · simp at hJ
    · have hl : r.fed.length = data.length := by rw [← hsize]; exact hck.1 (by omega)
      have hge : data.length ≤ r.acc.length := by
        rcases haf with h | h
        · rw [h]; omega
        · omega
      rcases hJ with hJ | ⟨_, hJ⟩
      · rw [hJ] at hge ⊢
        rw [List.length_take] at hge
        exact List.take_of_length_le (by omega)
      · rw [List.length_take] at hJ; omega
  · have hpos : 0 < data.length := List.length_pos_iff.mpr hd
    have hl : r.fed.length = data.length := by rw [← hsize]; exact hck.1 (by omega)
    rw [hu hu2] at hover
    omega

end Qx.C19
namespace Qx.C19

theorem take_succ_block (data : List UInt8) (j bs : Nat) :
    data.take (j * bs) ++ (data.drop (j * bs)).take bs = data.take ((j + 1) * bs) := by
  rw [Nat.succ_mul, List.take_add]

theorem drop_succ_block (data : List UInt8) (j bs : Nat) :
    (data.drop (j * bs)).drop bs = data.drop ((j + 1) * bs) := by
  rw [Nat.succ_mul, List.drop_drop]

theorem take_drop_ne_nil (data : List UInt8) (n bs : Nat) (hn : n < data.length) (hb : 0 < bs) :
    (data.drop n).take bs ≠ [] := by
  intro h
  have := congrArg List.length h
  simp [List.length_take, List.length_drop] at this
  omega

/-- the channel holds data block `j`; blocks `0 … j-1` were delivered honestly -/
def atBlock (bsS bsR size : Nat) (hash : Option (List UInt8)) (data : List UInt8) (j : Nat) : St :=
  { s := { blockSize := bsS, rest := data.drop ((j + 1) * bsS), seq := UInt16.ofNat (j + 1), requestId := j + 2, nextId := j + 3,
           state := .transfer },
    r := { maxBlock := bsR, size := size, hash := hash, state := .transfer, expected := UInt16.ofNat j,
           accRev := (data.take (j * bsS)).reverse, fedRev := (data.take (j * bsS)).reverse, blockSize := bsS },
    pending := some { id := j + 2, sender := 0, sid := 0,
                      kind := .data (UInt16.ofNat j) ((data.drop (j * bsS)).take bsS) } }

theorem init_deliver (H : List UInt8 → List UInt8) (bsS bsR size : Nat) (hash : Option (List UInt8)) (data : List UInt8)
    (hd : data ≠ []) (hb : 0 < bsS) (hle : bsS ≤ bsR) :
    (step H (init bsS bsR size hash data) .deliver).1 = atBlock bsS bsR size hash data 0 := by
  have h1 : ¬ (bsS = 0 ∨ data = []) := by simp [hd]; omega
  have h2 : ¬ (bsR < bsS) := by omega
  simp [step, deliverStanza, init, initDev, toR, feed, recv, Recv.write_unlimited_eq, sender, atBlock, h1, h2]


theorem atBlock_next (H : List UInt8 → List UInt8) (bsS bsR size : Nat) (hash : Option (List UInt8)) (data : List UInt8)
    (j : Nat) (hb : 0 < bsS) (hmore : (j + 1) * bsS < data.length) :
    (step H (atBlock bsS bsR size hash data j) .deliver).1 = atBlock bsS bsR size hash data (j + 1) := by
  have h2 := take_drop_ne_nil data ((j + 1) * bsS) bsS hmore hb
  simp [step, deliverStanza, atBlock, toR, feed, recv, Recv.write_unlimited_eq, sender, h2]
  refine ⟨?_, ?_⟩
  · rw [Nat.succ_mul (j + 1) bsS]
  · rw [← List.reverse_append, take_succ_block]


theorem run_honest_succ (H : List UInt8 → List UInt8) (st : St) (n : Nat) :
    (run H st (honest (n + 1))).1 = (step H (run H st (honest n)).1 .deliver).1 := by
  rw [honest_add, run_append]
  simp [honest, run]

theorem honest_prefix (H : List UInt8 → List UInt8) (bsS bsR size : Nat) (hash : Option (List UInt8)) (data : List UInt8)
    (hb : 0 < bsS) (hle : bsS ≤ bsR) (j : Nat) (hblk : j * bsS < data.length) :
    (run H (init bsS bsR size hash data) (honest (j + 1))).1 = atBlock bsS bsR size hash data j := by
  induction j with
  | zero =>
    have hd : data ≠ [] := by intro h; simp [h] at hblk
    simpa [honest, run] using init_deliver H bsS bsR size hash data hd hb hle
  | succ j ih =>
    have h0 : j * bsS < data.length := by
      have : j * bsS ≤ (j + 1) * bsS := Nat.mul_le_mul_right bsS (by omega)
      omega
    rw [run_honest_succ, ih h0]
    exact atBlock_next H bsS bsR size hash data j hb hblk

theorem step_deliver_idle (H : List UInt8 → List UInt8) (st : St) (h : st.pending = none) :
    (step H st .deliver).1 = st := by
  simp [step, h]

theorem run_honest_idle (H : List UInt8 → List UInt8) (st : St) (h : st.pending = none) (n : Nat) :
    (run H st (honest n)).1 = st := by
  induction n with
  | zero => rfl
  | succ n ih => rw [run_honest_succ, ih, step_deliver_idle H st h]

/-- last block: two more deliveries finish the transfer -/
theorem atBlock_last (H : List UInt8 → List UInt8) (bsS bsR size : Nat) (hash : Option (List UInt8)) (data : List UInt8)
    (j : Nat) (hlast : data.length ≤ (j + 1) * bsS)
    (hck : (size ≠ 0 → data.length = size) ∧ (∀ h, hash = some h → H data = h)) :
    let st := (run H (atBlock bsS bsR size hash data j) (honest 2)).1
    st.r.success ∧ st.s.success ∧ st.r.acc = data ∧ st.pending = none := by
  have h2 : List.drop ((j + 1) * bsS) data = [] := List.drop_of_length_le hlast
  have h3 : data.take (j * bsS) ++ (data.drop (j * bsS)).take bsS = data := by
    rw [take_succ_block]; exact List.take_of_length_le hlast
  have h4 : ((data.drop (j * bsS)).take bsS).reverse ++ (data.take (j * bsS)).reverse = data.reverse := by
    rw [← List.reverse_append, h3]
  have hcf : ∀ r : Recv, r.size = size → r.hash = hash → r.accRev = data.reverse → r.fedRev = data.reverse →
      r.checkFails H = false := by
    intro r e1 e2 e3 e4
    rw [checkFails_false_iff]
    simpa [Recv.acc, Recv.fed, e1, e2, e3, e4] using hck
  simp [honest, run, step, deliverStanza, atBlock, toR, feed, recv, Recv.write_unlimited_eq, sender, h2, h4, Send.terminate,
    Recv.checkData, hcf, Recv.terminate, Recv.success, Send.success, Recv.acc]


theorem idx_lt (data : List UInt8) (bs j : Nat) (hlen : data.length ≤ 65536 * bs) (hblk : j * bs < data.length) :
    j < 65536 := by
  apply Classical.byContradiction
  intro hc
  have : 65536 * bs ≤ j * bs := Nat.mul_le_mul_right bs (by omega)
  omega

theorem honest_from_block (H : List UInt8 → List UInt8) (bsS bsR size : Nat) (hash : Option (List UInt8)) (data : List UInt8)
    (hb : 0 < bsS)
    (hck : (size ≠ 0 → data.length = size) ∧ (∀ h, hash = some h → H data = h))
    (m : Nat) : ∀ (j n : Nat), j * bsS < data.length → data.length ≤ (j + 1 + m) * bsS → m + 2 ≤ n →
    let st := (run H (atBlock bsS bsR size hash data j) (honest n)).1
    st.r.success ∧ st.s.success ∧ st.r.acc = data ∧ st.pending = none := by
  induction m with
  | zero =>
    intro j n hblk hlen hn
    obtain ⟨k, rfl⟩ : ∃ k, n = 2 + k := ⟨n - 2, by omega⟩
    have h := atBlock_last H bsS bsR size hash data j (by simpa using hlen) hck
    intro st
    have : st = (run H (atBlock bsS bsR size hash data j) (honest 2)).1 := by
      show (run H _ (honest (2 + k))).1 = _
      rw [honest_add, run_append, run_honest_idle H _ h.2.2.2]
    rw [this]; exact h
  | succ m ih =>
    intro j n hblk hlen hn
    by_cases hlast : data.length ≤ (j + 1) * bsS
    · obtain ⟨k, rfl⟩ : ∃ k, n = 2 + k := ⟨n - 2, by omega⟩
      have h := atBlock_last H bsS bsR size hash data j hlast hck
      intro st
      have : st = (run H (atBlock bsS bsR size hash data j) (honest 2)).1 := by
        show (run H _ (honest (2 + k))).1 = _
        rw [honest_add, run_append, run_honest_idle H _ h.2.2.2]
      rw [this]; exact h
    · obtain ⟨k, rfl⟩ : ∃ k, n = 1 + k := ⟨n - 1, by omega⟩
      intro st
      have : st = (run H (atBlock bsS bsR size hash data (j + 1)) (honest k)).1 := by
        show (run H _ (honest (1 + k))).1 = _
        rw [honest_add, run_append]
        congr 2
        simpa [honest, run] using atBlock_next H bsS bsR size hash data j hb (by omega)
      rw [this]
      exact ih (j + 1) k (by omega) (by rw [show j + 1 + 1 + m = j + 1 + (m + 1) by omega]; exact hlen) (by omega)

/-- fault-free run: everything arrives, both sides report success -/
theorem honest_run (H : List UInt8 → List UInt8) (bsS bsR size : Nat) (hash : Option (List UInt8)) (data : List UInt8)
    (hb : 0 < bsS) (hle : bsS ≤ bsR)
    (hck : (size ≠ 0 → data.length = size) ∧ (∀ h, hash = some h → H data = h)) :
    let st := (run H (init bsS bsR size hash data) (honest (data.length + 2))).1
    st.r.success ∧ st.s.success ∧ st.r.acc = data ∧ st.pending = none := by
  by_cases hd : data = []
  · subst hd
    have hcf : ∀ r : Recv, r.size = size → r.hash = hash → r.accRev = [] → r.fedRev = [] → r.checkFails H = false := by
      intro r e1 e2 e3 e4
      rw [checkFails_false_iff]
      simpa [Recv.acc, Recv.fed, e1, e2, e3, e4] using hck
    have h2 : ¬ (bsR < bsS) := by omega
    simp [honest, run, step, deliverStanza, init, initDev, toR, feed, recv, Recv.write_unlimited_eq, sender, h2, Send.terminate,
      Recv.checkData, hcf, Recv.terminate, Recv.success, Send.success, Recv.acc]
  · have hpos : 0 < data.length := List.length_pos_iff.mpr hd
    intro st
    have : st = (run H (atBlock bsS bsR size hash data 0) (honest (data.length + 1))).1 := by
      show (run H _ (honest (data.length + 2))).1 = _
      rw [show data.length + 2 = 1 + (data.length + 1) by omega, honest_add, run_append]
      congr 2
      simpa [honest, run] using init_deliver H bsS bsR size hash data hd hb hle
    rw [this]
    have hmul : data.length ≤ data.length * bsS := Nat.le_mul_of_pos_right _ hb
    exact honest_from_block H bsS bsR size hash data hb hck (data.length - 1) 0 (data.length + 1) (by omega)
      (by rw [show 0 + 1 + (data.length - 1) = data.length by omega]; exact hmul) (by omega)

end Qx.C19
namespace Qx.C19

/-! ### after a lost / reordered / mislabelled block the receiver can never complete -/

/-- a request of the sending job whose block index lies beyond `e` -/
def Late (e : Nat) (p : Stanza) : Prop :=
  p.sender = 0 ∧ p.sid = 0 ∧
    match p.kind with
    | .data seq _ => ∃ n, seq = UInt16.ofNat n ∧ e < n ∧ n < 65536
    | _ => True

/-- the sending job has read `n > e` whole blocks -/
def SD (data : List UInt8) (bs e : Nat) (s : Send) : Prop :=
  s.blockSize = bs ∧ ∃ n, s.seq = UInt16.ofNat n ∧ s.rest = data.drop (n * bs) ∧ e < n

/-- the receiver waits for block `e`, holds fewer bytes than announced and has not reported success -/
def RD (len e : Nat) (r : Recv) : Prop :=
  r.expected = UInt16.ofNat e ∧ r.size = len ∧ r.fed.length < len ∧ ¬ r.success

theorem sender_SD (data : List UInt8) (bs e : Nat) (hlen : data.length ≤ 65536 * bs) (s : Send) (rep : Reply)
    (h : SD data bs e s) : SD data bs e (sender s rep).1 ∧ ∀ p, (sender s rep).2 = some p → Late e p := by
  obtain ⟨hb, n, hn, hr, he⟩ := h
  unfold sender
  split
  · exact ⟨⟨hb, n, hn, hr, he⟩, by simp⟩
  · split
    · exact ⟨⟨hb, n, hn, hr, he⟩, by simp⟩
    · split
      · exact ⟨⟨hb, n, hn, hr, he⟩, by simp⟩
      · split
        · split
          · rename_i hne
            refine ⟨⟨hb, n + 1, ?_, ?_, by omega⟩, ?_⟩
            · show s.seq + 1 = UInt16.ofNat (n + 1)
              rw [ofNat_succ, hn]
            · simp only [hr, hb, List.drop_drop, Nat.succ_mul]
            · intro p hp
              simp only [Option.some.injEq] at hp
              subst hp
              refine ⟨rfl, rfl, n, hn, he, ?_⟩
              rw [hr, hb] at hne
              exact block_index_lt data bs n 65536 hlen hne
          · refine ⟨⟨by simpa using hb, n, by simpa using hn, by simpa using hr, he⟩, ?_⟩
            intro p hp; simp only [Option.some.injEq] at hp; subst hp; exact ⟨rfl, rfl, trivial⟩
        · refine ⟨⟨by simpa using hb, n, by simpa using hn, by simpa using hr, he⟩, ?_⟩
          intro p hp; simp only [Option.some.injEq] at hp; subst hp; exact ⟨rfl, rfl, trivial⟩

theorem recv_RD (H : List UInt8 → List UInt8) (len e : Nat) (r : Recv) (p : Stanza)
    (h : RD len e r) (hp : Late e p ∨ Foreign p) : RD len e (recv H r p).1 := by
  by_cases hf : Foreign p
  · rw [recv_foreign H r p hf]; exact h
  have hg : Late e p := hp.resolve_right hf
  obtain ⟨h1, h2, h3, h4⟩ := h
  obtain ⟨g1, g2, g3⟩ := hg
  unfold recv
  split
  · exact ⟨h1, h2, h3, h4⟩
  · split
    · refine ⟨by simpa using h1, by simpa using h2, by simpa using h3, ?_⟩
      apply Recv.checkData_fails_not_success H r _ h4
      simp [Recv.checkFails]
      left
      omega
    · rename_i seq pl hk
      rw [hk] at g3
      obtain ⟨n, hn, hlt, hn'⟩ := g3
      split
      · exact ⟨h1, h2, h3, h4⟩
      · split
        · exact ⟨h1, h2, h3, h4⟩
        · rename_i hseq
          simp only [ne_eq, Decidable.not_not] at hseq
          have := ofNat_inj_of_lt n e hn' (by omega) (by rw [← hn, hseq, h1])
          omega
    · split
      · exact ⟨h1, h2, h3, h4⟩
      · split
        · exact ⟨h1, h2, h3, h4⟩
        · exact ⟨h1, h2, h3, by simp [Recv.success]⟩

theorem terminate_RD (len e : Nat) (r : Recv) (h : RD len e r) : RD len e (r.terminate .protocol) := by
  obtain ⟨h1, h2, h3, h4⟩ := h
  refine ⟨by simpa using h1, by simpa using h2, by simpa using h3, ?_⟩
  unfold Recv.terminate
  split
  · exact h4
  · simp [Recv.success]

theorem terminate_SD (data : List UInt8) (bs e : Nat) (s : Send) (c : JError) (h : SD data bs e s) :
    SD data bs e (s.terminate c) := by
  simpa [SD] using h

theorem late_close (e : Nat) : Late e { id := 0, sender := 0, sid := 0, kind := .close } := ⟨rfl, rfl, trivial⟩

abbrev Doomed (data : List UInt8) (bs e : Nat) : St → Prop := Tri (SD data bs e) (RD data.length e) (Late e)

theorem doomed_never_success (H : List UInt8 → List UInt8) (data : List UInt8) (bs e : Nat)
    (hlen : data.length ≤ 65536 * bs) (st : St) (h : Doomed data bs e st)
    (cont : List Op) (hb : ∀ op ∈ cont, op.benign) : ¬ (run H st cont).1.r.success :=
  (tri_run H (recv_RD H data.length e) (sender_SD data bs e hlen) (late_close e) (terminate_RD data.length e)
    (fun s h => terminate_SD data bs e s _ h) cont st hb h).r.2.2.2

/-! ### after the stream was cut short the job stays finished with an error -/

def NotOpen (p : Stanza) : Prop := p.sender = 0 ∧ p.sid = 0 ∧ ∀ bs, p.kind ≠ .open bs

def RF (r : Recv) : Prop := r.state = .finished ∧ ¬ r.success

theorem recv_RF (H : List UInt8 → List UInt8) (r : Recv) (p : Stanza)
    (h : RF r) (hp : NotOpen p ∨ Foreign p) : RF (recv H r p).1 := by
  by_cases hf : Foreign p
  · rw [recv_foreign H r p hf]; exact h
  have hg : NotOpen p := hp.resolve_right hf
  obtain ⟨h1, h2⟩ := h
  unfold recv
  split
  · exact ⟨h1, h2⟩
  · split
    · have : r.checkData H = r := by
        unfold Recv.checkData Recv.terminate; simp [h1]
      rw [this]; exact ⟨h1, h2⟩
    · split
      · exact ⟨h1, h2⟩
      · rename_i hst; simp [h1] at hst
    · rename_i bs hk
      exact absurd hk (hg.2.2 bs)

theorem sender_notOpen (s : Send) (rep : Reply) : True ∧ ∀ p, (sender s rep).2 = some p → NotOpen p := by
  refine ⟨trivial, ?_⟩
  unfold sender
  intro p
  split
  · simp
  · split
    · simp
    · split
      · simp
      · split
        · split <;> (intro hp; simp only [Option.some.injEq] at hp; subst hp; exact ⟨rfl, rfl, by simp⟩)
        · intro hp; simp only [Option.some.injEq] at hp; subst hp; exact ⟨rfl, rfl, by simp⟩

theorem closed_never_success (H : List UInt8 → List UInt8) (st : St)
    (h : Tri (fun _ => True) RF NotOpen st) (cont : List Op) (hb : ∀ op ∈ cont, op.benign) :
    ¬ (run H st cont).1.r.success :=
  (tri_run H (recv_RF H) (fun s rep _ => sender_notOpen s rep) ⟨rfl, rfl, by simp⟩
    (fun r h => by unfold Recv.terminate; simp [h.1]; exact h) (fun _ _ => trivial) cont st hb h).r.2

end Qx.C19
namespace Qx.C19

/-! ### the state reached by each single fault on data block `j` -/

section faults
set_option linter.unusedSimpArgs false
variable (H : List UInt8 → List UInt8) (bsS bsR : Nat) (hash : Option (List UInt8)) (data : List UInt8) (j : Nat)

theorem atBlock_acc_length (size : Nat) (hblk : j * bsS < data.length) :
    (atBlock bsS bsR size hash data j).r.fed.length = j * bsS := by
  simp [atBlock, Recv.fed]; omega

/-- with the pending block taken out, the receiver waits for block `j` and the sender is already past it -/
theorem atBlock_cleared_doomed (hblk : j * bsS < data.length) :
    Doomed data bsS j { atBlock bsS bsR data.length hash data j with pending := none } := by
  refine ⟨⟨rfl, j + 1, rfl, rfl, by omega⟩, ⟨rfl, rfl, ?_, by simp [atBlock, Recv.success]⟩, by simp⟩
  show (atBlock bsS bsR data.length hash data j).r.fed.length < data.length
  rw [atBlock_acc_length bsS bsR hash data j _ hblk]; exact hblk

theorem tri_of_eq {SP : Send → Prop} {RP : Recv → Prop} {G : Stanza → Prop} {a b : St} (h : Tri SP RP G a) (e : b = a) :
    Tri SP RP G b := e ▸ h

theorem drop_doomed (hlen : data.length ≤ 65536 * bsS) (hblk : j * bsS < data.length) :
    Doomed data bsS j (step H (atBlock bsS bsR data.length hash data j) .drop).1 := by
  have h := tri_feed H (recv_RD H data.length j) (sender_SD data bsS j hlen) (late_close j) (terminate_RD data.length j)
    (fun s h => terminate_SD data bsS j s _ h) _
    (ack { id := j + 2, sender := 0, sid := 0, kind := .data (UInt16.ofNat j) ((data.drop (j * bsS)).take bsS) })
    (atBlock_cleared_doomed bsS bsR hash data j hblk)
  exact tri_of_eq h (by simp [step, atBlock])

theorem wrongSid_doomed (hlen : data.length ≤ 65536 * bsS) (hblk : j * bsS < data.length) :
    Doomed data bsS j (step H (atBlock bsS bsR data.length hash data j) .wrongSid).1 := by
  have h := tri_deliverStanza H (recv_RD H data.length j) (sender_SD data bsS j hlen) (late_close j) (terminate_RD data.length j)
    (fun s h => terminate_SD data bsS j s _ h) _
    { id := j + 2, sender := 0, sid := 1, kind := .data (UInt16.ofNat j) ((data.drop (j * bsS)).take bsS) }
    (atBlock_cleared_doomed bsS bsR hash data j hblk) (Or.inr (Or.inr (by simp)))
  exact tri_of_eq h (by simp [step, atBlock])

theorem wrongSender_doomed (hlen : data.length ≤ 65536 * bsS) (hblk : j * bsS < data.length) :
    Doomed data bsS j (step H (atBlock bsS bsR data.length hash data j) .wrongSender).1 := by
  have h := tri_deliverStanza H (recv_RD H data.length j) (sender_SD data bsS j hlen) (late_close j) (terminate_RD data.length j)
    (fun s h => terminate_SD data bsS j s _ h) _
    { id := j + 2, sender := 1, sid := 0, kind := .data (UInt16.ofNat j) ((data.drop (j * bsS)).take bsS) }
    (atBlock_cleared_doomed bsS bsR hash data j hblk) (Or.inr (Or.inl (by simp)))
  exact tri_of_eq h (by simp [step, atBlock])


theorem earlyClose_closed (hblk : j * bsS < data.length) :
    Tri (fun _ => True) RF NotOpen (step H (atBlock bsS bsR data.length hash data j) .earlyClose).1 := by
  have hcf : ∀ r : Recv, r.size = data.length → r.fedRev = (data.take (j * bsS)).reverse → r.checkFails H = true := by
    intro r e1 e3
    simp [Recv.checkFails, Recv.fed, e1, e3]
    left
    refine ⟨?_, by omega⟩
    intro hd; simp [hd] at hblk
  refine ⟨trivial, ?_, ?_⟩
  · simp [step, deliverStanza, atBlock, toR, feed, recv, Recv.write_unlimited_eq, Recv.checkData, hcf, Recv.terminate, RF, Recv.success]
  · intro q hq
    simp [step, deliverStanza, atBlock, toR, feed, recv, Recv.write_unlimited_eq, sender] at hq
    subst hq
    exact ⟨rfl, rfl, by simp⟩

theorem swap_doomed (hb : 0 < bsS) (hlen : data.length ≤ 65536 * bsS) (hblk : j * bsS < data.length) :
    ∃ e, Doomed data bsS e (step H (atBlock bsS bsR data.length hash data j) .swap).1 := by
  by_cases hmore : (j + 1) * bsS < data.length
  · -- the next block exists: it is refused, the held block is then accepted, the sender gives up
    have h2 := take_drop_ne_nil data ((j + 1) * bsS) bsS hmore hb
    refine ⟨j + 1, ?_, ?_, ?_⟩
    · refine ⟨?_, j + 2, ?_, ?_, by omega⟩
      · simp [step, deliverStanza, atBlock, toR, feed, recv, Recv.write_unlimited_eq, sender, ack, h2]
      · simp [step, deliverStanza, atBlock, toR, feed, recv, Recv.write_unlimited_eq, sender, ack, h2]
        rw [UInt16.add_assoc]; rfl
      · simp [step, deliverStanza, atBlock, toR, feed, recv, Recv.write_unlimited_eq, sender, ack, h2]
        rw [show j + 2 = j + 1 + 1 by rfl, Nat.succ_mul (j + 1) bsS]
    · refine ⟨?_, ?_, ?_, ?_⟩
      · simp [step, deliverStanza, atBlock, toR, feed, recv, Recv.write_unlimited_eq, sender, ack, h2]
      · simp [step, deliverStanza, atBlock, toR, feed, recv, Recv.write_unlimited_eq, sender, ack, h2]
      · simp [step, deliverStanza, atBlock, toR, feed, recv, Recv.write_unlimited_eq, sender, ack, h2, Recv.fed]
        have key : ∀ x len bs : Nat, x + bs < len → min x len + min bs (len - x) < len := by
          intro x len bs h; omega
        exact key (j * bsS) data.length bsS (by rw [← Nat.succ_mul]; exact hmore)
      · simp [step, deliverStanza, atBlock, toR, feed, recv, Recv.write_unlimited_eq, sender, ack, h2, Recv.success]
    · intro q hq
      simp [step, deliverStanza, atBlock, toR, feed, recv, Recv.write_unlimited_eq, sender, ack, h2] at hq
      subst hq
      exact ⟨rfl, rfl, trivial⟩
  · -- the held block was the last one: the sender closes, the receiver's check fails, the held block comes too late
    have h2 : List.drop ((j + 1) * bsS) data = [] := List.drop_of_length_le (by omega)
    have hcf : ∀ r : Recv, r.size = data.length → r.fedRev = (data.take (j * bsS)).reverse → r.checkFails H = true := by
      intro r e1 e3
      simp [Recv.checkFails, Recv.fed, e1, e3]
      left
      refine ⟨?_, by omega⟩
      intro hd; simp [hd] at hblk
    refine ⟨j, ?_, ?_, ?_⟩
    · refine ⟨?_, j + 1, ?_, ?_, by omega⟩
      · simp [step, deliverStanza, atBlock, toR, feed, recv, Recv.write_unlimited_eq, sender, ack, h2, Send.terminate]
      · simp [step, deliverStanza, atBlock, toR, feed, recv, Recv.write_unlimited_eq, sender, ack, h2, Send.terminate]
      · simp [step, deliverStanza, atBlock, toR, feed, recv, Recv.write_unlimited_eq, sender, ack, h2, Send.terminate]
    · refine ⟨?_, ?_, ?_, ?_⟩
      · simp [step, deliverStanza, atBlock, toR, feed, recv, Recv.write_unlimited_eq, sender, ack, h2, Send.terminate, Recv.checkData, hcf, Recv.terminate]
      · simp [step, deliverStanza, atBlock, toR, feed, recv, Recv.write_unlimited_eq, sender, ack, h2, Send.terminate, Recv.checkData, hcf, Recv.terminate]
      · simp [step, deliverStanza, atBlock, toR, feed, recv, Recv.write_unlimited_eq, sender, ack, h2, Send.terminate, Recv.checkData, hcf, Recv.terminate, Recv.fed]
        omega
      · simp [step, deliverStanza, atBlock, toR, feed, recv, Recv.write_unlimited_eq, sender, ack, h2, Send.terminate, Recv.checkData, hcf, Recv.terminate, Recv.success]
    · intro q hq
      simp [step, deliverStanza, atBlock, toR, feed, recv, Recv.write_unlimited_eq, sender, ack, h2, Send.terminate, Recv.checkData, hcf, Recv.terminate] at hq

end faults
end Qx.C19
namespace Qx.C19

theorem bitMask_ne_zero (k : Nat) : bitMask k ≠ 0 := by
  unfold bitMask; split <;> decide

@[simp] theorem length_flipBit (l : List UInt8) (bit : Nat) : (flipBit l bit).length = l.length := by
  simp [flipBit]

theorem flipBit_ne (l : List UInt8) (bit : Nat) (h : l ≠ []) : flipBit l bit ≠ l := by
  have hpos : 0 < l.length := List.length_pos_iff.mpr h
  have hi : bit % (8 * l.length) / 8 < l.length := by
    have : bit % (8 * l.length) < 8 * l.length := Nat.mod_lt _ (by omega)
    omega
  intro he
  unfold flipBit at he
  have h1 := congrArg (fun x => x[bit % (8 * l.length) / 8]?) he
  simp only [List.getElem?_set_self hi, List.getElem?_eq_getElem hi, Option.some.injEq] at h1
  have h2 : l.getD (bit % (8 * l.length) / 8) 0 = l[bit % (8 * l.length) / 8] := by
    simp [List.getD, List.getElem?_eq_getElem hi]
  rw [h2] at h1
  have h3 : l[bit % (8 * l.length) / 8] ^^^ bitMask (bit % (8 * l.length)) = l[bit % (8 * l.length) / 8] ^^^ 0 := by
    rw [h1]; simp
  exact bitMask_ne_zero _ ((UInt8.xor_right_inj _).1 h3)


theorem recv_acc_prefix (H : List UInt8 → List UInt8) (X : List UInt8) (r : Recv) (p : Stanza)
    (h : ∃ t, r.acc = X ++ t) : ∃ t, (recv H r p).1.acc = X ++ t := by
  unfold recv
  split
  · exact h
  · split
    · simpa using h
    · split
      · exact h
      · split
        · exact h
        · rename_i seq pl _ _ _
          obtain ⟨t, ht⟩ := h
          obtain ⟨w, _, hw⟩ := Recv.write_acc { r with expected := r.expected + 1 } pl
          refine ⟨t ++ pl.take w, ?_⟩
          rw [hw]
          show r.acc ++ pl.take w = X ++ (t ++ pl.take w)
          rw [ht, List.append_assoc]
    · split
      · exact h
      · split
        · exact h
        · exact h

theorem run_acc_prefix (H : List UInt8 → List UInt8) (X : List UInt8) (ops : List Op) (st : St)
    (h : ∃ t, st.r.acc = X ++ t) : ∃ t, (run H st ops).1.r.acc = X ++ t :=
  run_r_inv H (fun r => ∃ t, r.acc = X ++ t) (recv_acc_prefix H X) (fun r h => by simpa using h) ops st h

theorem altered_prefix_ne (data : List UInt8) (n bs : Nat) (pl' t : List UInt8)
    (hlen : pl'.length = ((data.drop n).take bs).length) (hne : pl' ≠ (data.drop n).take bs) :
    data.take n ++ pl' ++ t ≠ data := by
  intro he
  have h1 : data.take n ++ (pl' ++ t) = data.take n ++ data.drop n := by
    rw [← List.append_assoc, he, List.take_append_drop]
  have h2 : pl' ++ t = data.drop n := List.append_cancel_left h1
  have h3 : pl' = (data.drop n).take pl'.length := by
    rw [← h2]; simp
  apply hne
  rw [h3, List.take_eq_take_iff, hlen, List.length_take]
  omega

section flip
set_option linter.unusedSimpArgs false
variable (H : List UInt8 → List UInt8) (bsS bsR size : Nat) (hash : Option (List UInt8)) (data : List UInt8) (j : Nat)

theorem flip_acc (bit : Nat) :
    (step H (atBlock bsS bsR size hash data j) (.flip bit)).1.r.acc =
      data.take (j * bsS) ++ flipBit ((data.drop (j * bsS)).take bsS) bit := by
  simp [step, deliverStanza, atBlock, toR, feed, recv, Recv.write_unlimited_eq, sender, flipStanza, Recv.acc]

theorem dup_eq_deliver :
    (step H (atBlock bsS bsR size hash data j) .dup).1 = (step H (atBlock bsS bsR size hash data j) .deliver).1 ∧
    (step H (atBlock bsS bsR size hash data j) .dup).2 =
      [{ id := j + 2, to := 0, err := none }, { id := j + 2, to := 0, err := some .unexpectedRequest }] ∧
    (step H (atBlock bsS bsR size hash data j) .dup).1.r.acc = data.take ((j + 1) * bsS) := by
  have h3 : data.take (j * bsS) ++ (data.drop (j * bsS)).take bsS = data.take ((j + 1) * bsS) := take_succ_block data j bsS
  refine ⟨?_, ?_, ?_⟩
  · by_cases h2 : List.take bsS (List.drop ((j + 1) * bsS) data) = []
    · simp [step, deliverStanza, atBlock, toR, feed, recv, Recv.write_unlimited_eq, sender, h2, Send.terminate]
    · simp [step, deliverStanza, atBlock, toR, feed, recv, Recv.write_unlimited_eq, sender, h2]
  · simp [step, atBlock, toR, recv, Recv.write_unlimited_eq]
  · simp [step, atBlock, toR, feed, recv, Recv.write_unlimited_eq, Recv.acc, h3]

end flip
end Qx.C19
namespace Qx.C19

/-! ### SOCKS5 receive path -/

theorem checked_checkData (H : List UInt8 → List UInt8) (r : Recv) (h : Checked H r) : Checked H (r.checkData H) := by
  unfold Recv.checkData Recv.terminate
  split
  · split
    · exact h
    · intro _ he; simp at he
  · split
    · exact h
    · rename_i hck _
      intro _ _
      simpa [Recv.checkFails, Recv.acc, Recv.fed] using hck

theorem write_checked (H : List UInt8 → List UInt8) (r : Recv) (pl : List UInt8) (ht : r.state = .transfer) :
    Checked H (r.write pl) := by
  rcases Recv.write_state_cases r pl ht with ⟨h1, _⟩ | ⟨_, h2⟩
  · intro hf; rw [h1] at hf; cases hf
  · intro _ he; rw [h2] at he; cases he

theorem sstep_checked (H : List UInt8 → List UInt8) (r : Recv) (op : SOp) (h : Checked H r) : Checked H (sstep H r op) := by
  cases op with
  | chunk bytes =>
    simp only [sstep]
    split
    · exact h
    · rename_i hst
      simp only [ne_eq, Decidable.not_not] at hst
      split
      · exact checked_checkData H _ (write_checked H r bytes hst)
      · exact write_checked H r bytes hst
  | disconnect =>
    simp only [sstep]
    split
    · exact h
    · exact checked_checkData H r h

theorem srun_checked (H : List UInt8 → List UInt8) (ops : List SOp) (r : Recv) (h : Checked H r) : Checked H (srun H r ops) := by
  induction ops generalizing r with
  | nil => exact h
  | cons op ops ih => exact ih _ (sstep_checked H r op h)

/-- on the byte-stream path (no `<open/>` that could revive a job): the device holds exactly what counter and hash have
seen, or the job has ended with `FileAccessError` -/
def AS (r : Recv) : Prop := r.acc = r.fed ∨ (r.state = .finished ∧ r.error = .access)

theorem checkData_AS (H : List UInt8 → List UInt8) (r : Recv) (h : AS r) : AS (r.checkData H) := by
  by_cases hf : r.state = .finished
  · have : r.checkData H = r := by unfold Recv.checkData Recv.terminate; simp [hf]
    rw [this]; exact h
  · rcases h with h | ⟨h1, _⟩
    · left; simpa using h
    · exact absurd h1 hf

theorem write_AS (r : Recv) (pl : List UInt8) (ht : r.state = .transfer) (h : AS r) : AS (r.write pl) := by
  have h : r.acc = r.fed := by
    rcases h with h | ⟨h1, _⟩
    · exact h
    · rw [ht] at h1; cases h1
  rcases Recv.write_cases r pl with ⟨e1, e2, _⟩ | ⟨w, _, _, _, r0, s1, _, e3⟩
  · left; rw [e1, e2, h]
  · right
    rw [e3]
    unfold Recv.terminate
    simp [s1, ht]

theorem sstep_AS (H : List UInt8 → List UInt8) (r : Recv) (op : SOp) (h : AS r) : AS (sstep H r op) := by
  cases op with
  | chunk bytes =>
    simp only [sstep]
    split
    · exact h
    · rename_i hst
      simp only [ne_eq, Decidable.not_not] at hst
      split
      · exact checkData_AS H _ (write_AS r bytes hst h)
      · exact write_AS r bytes hst h
  | disconnect =>
    simp only [sstep]
    split
    · exact h
    · exact checkData_AS H r h

theorem srun_AS (H : List UInt8 → List UInt8) (ops : List SOp) (r : Recv) (h : AS r) : AS (srun H r ops) := by
  induction ops generalizing r with
  | nil => exact h
  | cons op ops ih => exact ih _ (sstep_AS H r op h)

theorem sstep_AFU (H : List UInt8 → List UInt8) (r : Recv) (op : SOp) (h : AFU r) : AFU (sstep H r op) := by
  have hw : ∀ b, AFU (r.write b) := by
    intro b
    have := Recv.write_unlimited r b h.1
    exact ⟨by simpa using h.1, by rw [this.1, this.2, h.2]⟩
  cases op with
  | chunk bytes =>
    simp only [sstep]
    split
    · exact h
    · split
      · simpa [AFU] using hw bytes
      · exact hw bytes
  | disconnect =>
    simp only [sstep]
    split
    · exact h
    · simpa [AFU] using h

theorem srun_AFU (H : List UInt8 → List UInt8) (ops : List SOp) (r : Recv) (h : AFU r) : AFU (srun H r ops) := by
  induction ops generalizing r with
  | nil => exact h
  | cons op ops ih => exact ih _ (sstep_AFU H r op h)

@[simp] theorem sstep_size (H : List UInt8 → List UInt8) (r : Recv) (op : SOp) : (sstep H r op).size = r.size := by
  cases op <;> simp only [sstep] <;> repeat (first | rfl | split | simp)

@[simp] theorem sstep_hash (H : List UInt8 → List UInt8) (r : Recv) (op : SOp) : (sstep H r op).hash = r.hash := by
  cases op <;> simp only [sstep] <;> repeat (first | rfl | split | simp)

@[simp] theorem srun_size (H : List UInt8 → List UInt8) (ops : List SOp) (r : Recv) : (srun H r ops).size = r.size := by
  induction ops generalizing r with
  | nil => rfl
  | cons op ops ih => simp [srun, ih]

@[simp] theorem srun_hash (H : List UInt8 → List UInt8) (ops : List SOp) (r : Recv) : (srun H r ops).hash = r.hash := by
  induction ops generalizing r with
  | nil => rfl
  | cons op ops ih => simp [srun, ih]

/-- number of payload bytes in a list of socket events -/
def sbytes : List SOp → Nat
  | [] => 0
  | .chunk b :: ops => b.length + sbytes ops
  | .disconnect :: ops => sbytes ops

theorem write_fed_le (r : Recv) (pl : List UInt8) : (r.write pl).fed.length ≤ r.fed.length + pl.length := by
  rcases Recv.write_cases r pl with ⟨_, e2, _⟩ | ⟨w, _, _, e2, _⟩
  · rw [e2, List.length_append]; omega
  · rw [e2]; omega

theorem write_not_success (r : Recv) (pl : List UInt8) (ht : r.state = .transfer) : ¬ (r.write pl).success := by
  rcases Recv.write_state_cases r pl ht with ⟨h1, _⟩ | ⟨_, h2⟩
  · intro hs; have := hs.1; rw [h1] at this; cases this
  · intro hs; have := hs.2; rw [h2] at this; cases this

theorem srun_short (H : List UInt8 → List UInt8) (ops : List SOp) (r : Recv)
    (hn : ¬ r.success) (hlt : r.fed.length + sbytes ops < r.size) : ¬ (srun H r ops).success := by
  induction ops generalizing r with
  | nil => exact hn
  | cons op ops ih =>
    cases op with
    | chunk b =>
      simp only [srun, sstep]
      simp only [sbytes] at hlt
      split
      · exact ih r hn (by omega)
      · rename_i hst
        simp only [ne_eq, Decidable.not_not] at hst
        have hlen := write_fed_le r b
        have hsz : (r.write b).size = r.size := Recv.write_size r b
        split
        · rename_i hge
          have hge2 := hge.2
          omega
        · exact ih _ (write_not_success r b hst) (by omega)
    | disconnect =>
      simp only [srun, sstep]
      simp only [sbytes] at hlt
      split
      · exact ih r hn hlt
      · apply ih
        · apply Recv.checkData_fails_not_success H r _ hn
          simp [Recv.checkFails]
          left; omega
        · simpa using hlt

theorem sstep_chunk_transfer (H : List UInt8 → List UInt8) (r : Recv) (c : List UInt8) (hst : r.state = .transfer) :
    sstep H r (.chunk c) =
      if r.size ≠ 0 ∧ (r.write c).fed.length ≥ r.size then (r.write c).checkData H else r.write c := by
  simp [sstep, hst]

theorem check_pass (H : List UInt8 → List UInt8) (data : List UInt8) (r' : Recv)
    (e1 : r'.size = data.length) (e2 : ∀ h, r'.hash = some h → H data = h) (e3 : r'.acc = data) (e5 : r'.fed = data)
    (e4 : r'.state = .transfer) :
    (r'.checkData H).success ∧ (r'.checkData H).acc = data := by
  have hcf : r'.checkFails H = false := by
    rw [checkFails_false_iff]
    exact ⟨fun _ => by rw [e5, e1], fun h hh => by rw [e5]; exact e2 h hh⟩
  refine ⟨?_, by simpa using e3⟩
  unfold Recv.checkData Recv.terminate
  simp [hcf, e4, Recv.success]

theorem srun_honest (H : List UInt8 → List UInt8) (data : List UInt8) (cs : List (List UInt8)) (r : Recv)
    (hsize : r.size = data.length) (hhash : ∀ h, r.hash = some h → H data = h) (hu : AFU r)
    (h : (r.state = .transfer ∧ r.acc ++ cs.flatten = data) ∨ (r.success ∧ r.acc = data)) :
    (srun H r (cs.map .chunk ++ [.disconnect])).success ∧ (srun H r (cs.map .chunk ++ [.disconnect])).acc = data := by
  induction cs generalizing r with
  | nil =>
    simp only [List.map_nil, List.nil_append, srun, sstep]
    rcases h with ⟨hst, hacc⟩ | ⟨hs, hacc⟩
    · rw [if_neg (by rw [hst]; decide)]
      have ha : r.acc = data := by simpa using hacc
      exact check_pass H data r hsize hhash ha (by rw [← hu.2]; exact ha) hst
    · rw [if_pos hs.1]
      exact ⟨hs, hacc⟩
  | cons c cs ih =>
    simp only [List.map_cons, List.cons_append, srun]
    rcases h with ⟨hst, hacc⟩ | ⟨hs, hacc⟩
    · rw [sstep_chunk_transfer H r c hst]
      simp only [List.flatten_cons] at hacc
      have hw := Recv.write_unlimited r c hu.1
      have hws := Recv.write_unlimited_state r c hu.1
      have hu' : AFU (r.write c) := ⟨by simpa using hu.1, by rw [hw.1, hw.2, hu.2]⟩
      split
      · rename_i hge
        have hlen := congrArg List.length hacc
        simp only [List.length_append] at hlen
        have hge2 : r.size ≤ (r.write c).fed.length := hge.2
        rw [hw.2, ← hu.2] at hge2
        simp only [List.length_append] at hge2
        have hfl : cs.flatten = [] := by
          apply List.eq_nil_of_length_eq_zero
          omega
        have hfull : r.acc ++ c = data := by simpa [hfl, List.append_assoc] using hacc
        have hp := check_pass H data (r.write c) (by simpa using hsize) (by simpa using hhash) (by rw [hw.1, hfull])
          (by rw [hw.2, ← hu.2, hfull]) (by rw [hws.1]; exact hst)
        exact ih _ (by simpa using hsize) (by simpa using hhash) (by simpa [AFU] using hu') (Or.inr hp)
      · exact ih _ (by simpa using hsize) (by simpa using hhash) hu'
          (Or.inl ⟨by rw [hws.1]; exact hst, by rw [hw.1, List.append_assoc]; exact hacc⟩)
    · have : sstep H r (.chunk c) = r := by
        simp [sstep, hs.1]
      rw [this]
      exact ih r hsize hhash hu (Or.inr ⟨hs, hacc⟩)

end Qx.C19

namespace Qx.C19

/-! ### the positive half: after a fault the receiving job FINISHES with an error -/

theorem run_honest_settled (H : List UInt8 → List UInt8) (st : St) (k : Nat)
    (h : (run H st (honest k)).1.pending = none) (n : Nat) (hn : k ≤ n) :
    (run H st (honest n)).1 = (run H st (honest k)).1 := by
  obtain ⟨m, rfl⟩ : ∃ m, n = k + m := ⟨n - k, by omega⟩
  rw [honest_add, run_append, run_honest_idle H _ h]

/-- with a device that takes everything and no timer firing, the receiving job only ever ends with `NoError` or
`FileCorruptError` -/
def REok (r : Recv) : Prop := r.dev = .unlimited ∧ (r.error = .none ∨ r.error = .corrupt)

theorem recv_REok (H : List UInt8 → List UInt8) (r : Recv) (p : Stanza) (h : REok r) : REok (recv H r p).1 := by
  unfold recv
  split
  · exact h
  · split
    · refine ⟨by simpa using h.1, ?_⟩
      unfold Recv.checkData Recv.terminate
      split <;> split <;> first | exact h.2 | (right; rfl) | (left; rfl)
    · split
      · exact h
      · split
        · exact h
        · refine ⟨by simpa using h.1, ?_⟩
          rw [(Recv.write_unlimited_state _ _ (by simpa using h.1)).2]
          exact h.2
    · split
      · exact h
      · split
        · exact h
        · exact h

/-- the same as `run_r_inv` for histories in which no timer fires -/
theorem run_r_inv_nt (H : List UInt8 → List UInt8) (P : Recv → Prop)
    (hP : ∀ r p, P r → P (recv H r p).1) (ops : List Op) (hnt : ∀ op ∈ ops, op ≠ .timeout)
    (st : St) (h : P st.r) : P (run H st ops).1.r := by
  induction ops generalizing st with
  | nil => exact h
  | cons op ops ih =>
    apply ih (fun o ho => hnt o (List.mem_cons_of_mem _ ho))
    have hne := hnt op List.mem_cons_self
    cases op <;> simp only [step, deliverStanza]
    case deliver => split <;> simp_all
    case drop => split <;> simp_all
    case dup => split <;> simp_all
    case swap =>
      split
      · exact h
      · split <;> simp_all
    case flip => split <;> simp_all
    case earlyClose => simp_all
    case wrongSid => split <;> simp_all
    case wrongSender => split <;> simp_all
    case inject => simp_all
    case lose => exact h
    case injectReply => simp_all
    case peerClose => exact h
    case timeout => exact absurd rfl hne

/-- sender and receiver are in step: the channel holds exactly the block the receiver waits for -/
def Sync (st : St) : Prop :=
  st.r.dev = .unlimited ∧ st.r.state = .transfer ∧ st.s.state = .transfer ∧ st.s.seq = st.r.expected + 1 ∧
  ∃ pl, st.pending = some { id := st.s.requestId, sender := 0, sid := 0, kind := .data st.r.expected pl }

/-- the sender is done (for whatever reason), its `<close/>` is in the channel, the receiver still waits -/
def Closing (st : St) : Prop :=
  st.r.state = .transfer ∧ st.s.state = .finished ∧
  st.pending = some { id := st.s.requestId, sender := 0, sid := 0, kind := .close }

theorem closing_step (H : List UInt8 → List UInt8) (st : St) (h : Closing st) :
    (step H st .deliver).1.r.state = .finished ∧ (step H st .deliver).1.pending = none ∧
    (step H st .deliver).1.s.state = .finished := by
  obtain ⟨h1, h2, h3⟩ := h
  simp only [step, h3, deliverStanza, toR, feed, recv]
  have hs : ∀ rep, sender st.s rep = (st.s, none) := by
    intro rep; unfold sender; simp [h2]
  simp [hs, h2, Recv.checkData, Recv.terminate, h1]
  split <;> simp

theorem sync_step (H : List UInt8 → List UInt8) (st : St) (hb : 0 < st.s.blockSize) (h : Sync st) :
    (Sync (step H st .deliver).1 ∧ (step H st .deliver).1.s.rest.length < st.s.rest.length ∧
      (step H st .deliver).1.s.blockSize = st.s.blockSize) ∨ Closing (step H st .deliver).1 := by
  obtain ⟨hu, h1, h2, h3, pl, h4⟩ := h
  have hwu : ∀ r : Recv, r.dev = st.r.dev → r.write pl = { r with accRev := pl.reverse ++ r.accRev, fedRev := pl.reverse ++ r.fedRev } :=
    fun r hr => Recv.write_unlimited_eq r pl (by rw [hr]; exact hu)
  by_cases hmore : st.s.rest.take st.s.blockSize = []
  · right
    simp [step, h4, deliverStanza, toR, feed, recv, h1, sender, h2, hmore, Closing, Send.terminate, hwu]
  · left
    have hlen : (st.s.rest.drop st.s.blockSize).length < st.s.rest.length := by
      have : st.s.rest ≠ [] := by intro he; simp [he] at hmore
      have := List.length_pos_iff.mpr this
      rw [List.length_drop]; omega
    refine ⟨?_, ?_, ?_⟩
    · simp [step, h4, deliverStanza, toR, feed, recv, h1, sender, h2, hmore, Sync, h3, hwu, hu]
    · simpa [step, h4, deliverStanza, toR, feed, recv, h1, sender, h2, hmore, hwu] using hlen
    · simp [step, h4, deliverStanza, toR, feed, recv, h1, sender, h2, hmore, hwu]

theorem closing_finishes (H : List UInt8 → List UInt8) (st : St) (h : Closing st) (n : Nat) (hn : 1 ≤ n) :
    (run H st (honest n)).1.r.state = .finished ∧ (run H st (honest n)).1.pending = none ∧
    (run H st (honest n)).1.s.state = .finished := by
  have h1 := closing_step H st h
  have e1 : (run H st (honest 1)).1 = (step H st .deliver).1 := by simp [honest, run]
  rw [run_honest_settled H st 1 (by rw [e1]; exact h1.2.1) n hn, e1]
  exact h1

theorem sync_finishes (H : List UInt8 → List UInt8) (k : Nat) : ∀ (st : St), 0 < st.s.blockSize → Sync st →
    st.s.rest.length ≤ k → ∀ n, k + 2 ≤ n →
    (run H st (honest n)).1.r.state = .finished ∧ (run H st (honest n)).1.pending = none ∧
    (run H st (honest n)).1.s.state = .finished := by
  induction k with
  | zero =>
    intro st hb hs hk n hn
    obtain ⟨m, rfl⟩ : ∃ m, n = 1 + m := ⟨n - 1, by omega⟩
    rw [honest_add, run_append]
    have e1 : (run H st (honest 1)).1 = (step H st .deliver).1 := by simp [honest, run]
    rw [e1]
    rcases sync_step H st hb hs with ⟨_, hlt, _⟩ | hc
    · omega
    · exact closing_finishes H _ hc m (by omega)
  | succ k ih =>
    intro st hb hs hk n hn
    obtain ⟨m, rfl⟩ : ∃ m, n = 1 + m := ⟨n - 1, by omega⟩
    rw [honest_add, run_append]
    have e1 : (run H st (honest 1)).1 = (step H st .deliver).1 := by simp [honest, run]
    rw [e1]
    rcases sync_step H st hb hs with ⟨hs', hlt, hbs⟩ | hc
    · exact ih _ (by rw [hbs]; exact hb) hs' (by omega) m (by omega)
    · exact closing_finishes H _ hc m (by omega)

end Qx.C19

namespace Qx.C19

section reports
set_option linter.unusedSimpArgs false
variable (H : List UInt8 → List UInt8) (bsS bsR : Nat) (hash : Option (List UInt8)) (data : List UInt8) (j : Nat)

/-- what "the receiving job has reported a corruption" means for a state -/
def Reported (st : St) : Prop :=
  st.r.state = .finished ∧ st.r.error = .corrupt ∧ st.pending = none ∧ st.s.state = .finished

theorem short_checkFails (hblk : j * bsS < data.length) (r : Recv) (e1 : r.size = data.length)
    (e3 : r.fedRev = (data.take (j * bsS)).reverse) : r.checkFails H = true := by
  simp [Recv.checkFails, Recv.fed, e1, e3]
  left
  refine ⟨?_, by omega⟩
  intro hd; simp [hd] at hblk

theorem drop_reports (hb : 0 < bsS) (hblk : j * bsS < data.length) :
    Reported (run H (step H (atBlock bsS bsR data.length hash data j) .drop).1 (honest 2)).1 := by
  have hcf := short_checkFails H bsS data j hblk
  by_cases hmore : (j + 1) * bsS < data.length
  · have h2 := take_drop_ne_nil data ((j + 1) * bsS) bsS hmore hb
    simp [Reported, honest, run, step, deliverStanza, atBlock, toR, feed, recv, Recv.write_unlimited_eq, sender, ack, h2,
      Send.terminate, Recv.checkData, hcf, Recv.terminate]
  · have h2 : List.drop ((j + 1) * bsS) data = [] := List.drop_of_length_le (by omega)
    simp [Reported, honest, run, step, deliverStanza, atBlock, toR, feed, recv, Recv.write_unlimited_eq, sender, ack, h2,
      Send.terminate, Recv.checkData, hcf, Recv.terminate]

theorem wrongSid_reports (hblk : j * bsS < data.length) :
    Reported (run H (step H (atBlock bsS bsR data.length hash data j) .wrongSid).1 (honest 2)).1 := by
  have hcf := short_checkFails H bsS data j hblk
  simp [Reported, honest, run, step, deliverStanza, atBlock, toR, feed, recv, Recv.write_unlimited_eq, sender, ack,
    Send.terminate, Recv.checkData, hcf, Recv.terminate]

theorem earlyClose_reports (hblk : j * bsS < data.length) :
    Reported (run H (step H (atBlock bsS bsR data.length hash data j) .earlyClose).1 (honest 2)).1 := by
  have hcf := short_checkFails H bsS data j hblk
  simp [Reported, honest, run, step, deliverStanza, atBlock, toR, feed, recv, Recv.write_unlimited_eq, sender, ack,
    Send.terminate, Recv.checkData, hcf, Recv.terminate]

theorem swap_reports (hb : 0 < bsS) (hblk : j * bsS < data.length) :
    Reported (run H (step H (atBlock bsS bsR data.length hash data j) .swap).1 (honest 2)).1 := by
  by_cases hmore : (j + 1) * bsS < data.length
  · have h2 := take_drop_ne_nil data ((j + 1) * bsS) bsS hmore hb
    have hcf : ∀ r : Recv, r.size = data.length →
        r.fedRev = ((data.drop (j * bsS)).take bsS).reverse ++ (data.take (j * bsS)).reverse → r.checkFails H = true := by
      intro r e1 e3
      simp [Recv.checkFails, Recv.fed, e1, e3]
      left
      refine ⟨?_, ?_⟩
      · intro hd; simp [hd] at hblk
      · have key : ∀ x len bs : Nat, x + bs < len → ¬ (min x len + min bs (len - x) = len) := by
          intro x len bs h; omega
        exact key (j * bsS) data.length bsS (by rw [← Nat.succ_mul]; exact hmore)
    simp [Reported, honest, run, step, deliverStanza, atBlock, toR, feed, recv, Recv.write_unlimited_eq, sender, ack, h2,
      Send.terminate, Recv.checkData, hcf, Recv.terminate]
  · have h2 : List.drop ((j + 1) * bsS) data = [] := List.drop_of_length_le (by omega)
    have hcf := short_checkFails H bsS data j hblk
    simp [Reported, honest, run, step, deliverStanza, atBlock, toR, feed, recv, Recv.write_unlimited_eq, sender, ack, h2,
      Send.terminate, Recv.checkData, hcf, Recv.terminate]

/-- after an altered block was taken, sender and receiver are still in step (or the sender is already closing) -/
theorem flip_sync (size : Nat) (hb : 0 < bsS) (bit : Nat) :
    let st := (step H (atBlock bsS bsR size hash data j) (.flip bit)).1
    (Sync st ∨ Closing st) ∧ st.s.blockSize = bsS ∧ st.s.rest.length ≤ data.length := by
  by_cases hmore : (j + 1) * bsS < data.length
  · have h2 := take_drop_ne_nil data ((j + 1) * bsS) bsS hmore hb
    refine ⟨Or.inl ?_, ?_, ?_⟩
    · simp [Sync, step, deliverStanza, atBlock, toR, feed, recv, Recv.write_unlimited_eq, sender, flipStanza, h2]
    · simp [step, deliverStanza, atBlock, toR, feed, recv, Recv.write_unlimited_eq, sender, flipStanza, h2]
    · simp [step, deliverStanza, atBlock, toR, feed, recv, Recv.write_unlimited_eq, sender, flipStanza, h2]
  · have h2 : List.drop ((j + 1) * bsS) data = [] := List.drop_of_length_le (by omega)
    refine ⟨Or.inr ?_, ?_, ?_⟩
    · simp [Closing, step, deliverStanza, atBlock, toR, feed, recv, Recv.write_unlimited_eq, sender, flipStanza, h2, Send.terminate]
    · simp [step, deliverStanza, atBlock, toR, feed, recv, Recv.write_unlimited_eq, sender, flipStanza, h2, Send.terminate]
    · simp [step, deliverStanza, atBlock, toR, feed, recv, Recv.write_unlimited_eq, sender, flipStanza, h2, Send.terminate]

/-- a block (or the answer to it) vanishes and nothing follows: nothing ever happens again -/
theorem lose_idle : (step H (atBlock bsS bsR data.length hash data j) .lose).1.pending = none ∧
    (step H (atBlock bsS bsR data.length hash data j) .lose).1.r.state = .transfer ∧
    (step H (atBlock bsS bsR data.length hash data j) .lose).1.s.state = .transfer := by
  simp [step, atBlock]

theorem wrongSender_idle : (step H (atBlock bsS bsR data.length hash data j) .wrongSender).1.pending = none ∧
    (step H (atBlock bsS bsR data.length hash data j) .wrongSender).1.r.state = .transfer ∧
    (step H (atBlock bsS bsR data.length hash data j) .wrongSender).1.s.state = .transfer := by
  simp [step, deliverStanza, atBlock, toR, feed, recv, sender]

end reports
end Qx.C19

namespace Qx.C19

theorem lose_close_reports (H : List UInt8 → List UInt8) (bsS bsR : Nat) (hash : Option (List UInt8)) (data : List UInt8)
    (j : Nat) (hblk : j * bsS < data.length) :
    let st := (step H (step H (atBlock bsS bsR data.length hash data j) .lose).1 .earlyClose).1
    st.r.state = .finished ∧ st.r.error = .corrupt ∧ st.pending = none := by
  have hcf := short_checkFails H bsS data j hblk
  simp [step, deliverStanza, atBlock, toR, feed, recv, sender, Recv.checkData, hcf, Recv.terminate]

/-! ### the sending job alone -/

theorem step_s_inv (H : List UInt8 → List UInt8) (P : Send → Prop)
    (hP : ∀ s rep, P s → P (sender s rep).1) (hT : ∀ s, P s → P (s.terminate .protocol))
    (st : St) (op : Op) (h : P st.s) : P (step H st op).1.s := by
  cases op <;> simp only [step, deliverStanza]
  case deliver => split <;> simp_all
  case drop => split <;> simp_all
  case dup => split <;> simp_all
  case swap =>
    split
    · exact h
    · split
      · simp_all
      · exact hP _ _ (hP _ _ (hP _ _ h))
  case flip => split <;> simp_all
  case earlyClose => simp_all
  case wrongSid => split <;> simp_all
  case wrongSender => split <;> simp_all
  case inject => simp_all
  case lose => exact h
  case injectReply => simp_all
  case peerClose => exact h
  case timeout =>
    split
    · exact hT _ h
    · exact h

theorem run_s_inv (H : List UInt8 → List UInt8) (P : Send → Prop)
    (hP : ∀ s rep, P s → P (sender s rep).1) (hT : ∀ s, P s → P (s.terminate .protocol))
    (ops : List Op) (st : St) (h : P st.s) : P (run H st ops).1.s := by
  induction ops generalizing st with
  | nil => exact h
  | cons op ops ih => exact ih _ (step_s_inv H P hP hT st op h)

/-- the sending job reports success only after it has read its device to the end -/
def SDone (bs : Nat) (s : Send) : Prop :=
  s.blockSize = bs ∧ (s.state = .finished → s.error = .none → s.rest.take bs = [])

theorem sender_SDone (bs : Nat) (s : Send) (rep : Reply) (h : SDone bs s) : SDone bs (sender s rep).1 := by
  obtain ⟨hb, hd⟩ := h
  unfold sender
  split
  · exact ⟨hb, hd⟩
  · split
    · exact ⟨hb, hd⟩
    · split
      · exact ⟨hb, hd⟩
      · rename_i hnf
        split
        · split
          · exact ⟨hb, by intro hf; simp at hf⟩
          · rename_i heof
            refine ⟨by simpa using hb, ?_⟩
            intro _ _
            simp only [ne_eq, Decidable.not_not] at heof
            simpa [hb] using heof
        · refine ⟨by simpa using hb, ?_⟩
          intro _ he
          unfold Send.terminate at he
          simp [hnf] at he

theorem terminate_SDone (bs : Nat) (s : Send) (h : SDone bs s) : SDone bs (s.terminate .protocol) := by
  obtain ⟨hb, hd⟩ := h
  refine ⟨by simpa using hb, ?_⟩
  unfold Send.terminate
  split
  · simpa using hd
  · intro _ he; simp at he

end Qx.C19

namespace Qx.C19

/-! ### the inactivity timer -/

theorem timeout_of_reported (H : List UInt8 → List UInt8) (st : St) (h : Reported st) : Reported (step H st .timeout).1 := by
  obtain ⟨h1, h2, h3, h4⟩ := h
  simp [step, Reported, h1, h2, h3, h4]

theorem timeout_of_waiting (H : List UInt8 → List UInt8) (st : St) (hr : st.r.state = .transfer) (hs : st.s.state = .transfer)
    (hp : st.pending = none) :
    (step H st .timeout).1.r.state = .finished ∧ (step H st .timeout).1.r.error = .protocol ∧
    (step H st .timeout).1.s.state = .finished ∧ (step H st .timeout).1.s.error = .protocol ∧
    (step H st .timeout).1.pending = none := by
  simp [step, hr, hs, hp, Recv.terminate, Send.terminate]

end Qx.C19

namespace Qx.C19

/-! ### accept(filePath): what is left of the previous file content never changes after the open -/

@[simp] theorem Recv.terminate_old (r : Recv) (c : JError) : (r.terminate c).old = r.old := by
  unfold Recv.terminate; split <;> rfl
@[simp] theorem Recv.checkData_old (H : List UInt8 → List UInt8) (r : Recv) : (r.checkData H).old = r.old := by
  unfold Recv.checkData; split <;> simp
@[simp] theorem Recv.write_old (r : Recv) (pl : List UInt8) : (r.write pl).old = r.old := by
  unfold Recv.write; split <;> (try split) <;> simp

theorem recv_old (H : List UInt8 → List UInt8) (r : Recv) (p : Stanza) : (recv H r p).1.old = r.old := by
  unfold recv
  split
  · rfl
  · split
    · simp
    · split
      · rfl
      · split
        · rfl
        · simp
    · split <;> (try split) <;> rfl

end Qx.C19

namespace Qx.C19

/-! ### since `<open/>` needs `StartState` (repo commit 31a1bb4) nothing revives a finished in-band job either -/

theorem terminate_AS (r : Recv) (c : JError) (h : AS r) : AS (r.terminate c) := by
  by_cases hf : r.state = .finished
  · have : r.terminate c = r := by unfold Recv.terminate; simp [hf]
    rw [this]; exact h
  · rcases h with h | ⟨h1, _⟩
    · left; simpa using h
    · exact absurd h1 hf

theorem recv_AS (H : List UInt8 → List UInt8) (r : Recv) (p : Stanza) (h : AS r) : AS (recv H r p).1 := by
  unfold recv
  split
  · exact h
  · split
    · exact checkData_AS H r h
    · split
      · exact h
      · split
        · exact h
        · rename_i hst _
          simp only [ne_eq, Decidable.not_not] at hst
          refine write_AS { r with expected := r.expected + 1 } _ hst ?_
          rcases h with h | ⟨h1, _⟩
          · exact Or.inl h
          · rw [hst] at h1; cases h1
    · split
      · exact h
      · split
        · exact h
        · rename_i hst _
          simp only [ne_eq, Decidable.not_not] at hst
          rcases h with h | ⟨h1, _⟩
          · exact Or.inl h
          · rw [hst] at h1; cases h1

end Qx.C19
