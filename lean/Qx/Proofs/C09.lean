import Qx.Model.C09Sm
/-! Helper lemmas for C09 (property theorems live in Qx/Props/C09.lean). -/
namespace Qx.C09

/-! ### projections -/

theorem reportedIds_append (a b : List Out) : reportedIds (a ++ b) = reportedIds a ++ reportedIds b := by
  simp [reportedIds, List.filterMap_append]
theorem pktsOf_append (a b : List Out) : pktsOf (a ++ b) = pktsOf a ++ pktsOf b := by
  simp [pktsOf, List.filterMap_append]
theorem wireOf_append (a b : List Out) : wireOf (a ++ b) = wireOf a ++ wireOf b := by
  simp [wireOf, List.filterMap_append]

@[simp] theorem reportedIds_nil : reportedIds [] = [] := rfl
@[simp] theorem pktsOf_nil : pktsOf [] = [] := rfl
@[simp] theorem wireOf_nil : wireOf [] = [] := rfl
@[simp] theorem reportedIds_emit (up w) : reportedIds (emit up w) = [] := by
  unfold emit; split <;> simp [reportedIds]
@[simp] theorem reportedIds_reqOut (e up) : reportedIds (reqOut e up) = [] := by
  unfold reqOut; split <;> simp
@[simp] theorem reportedIds_written (b) : reportedIds [Out.written b] = [] := rfl
@[simp] theorem reportedIds_report (i r) (l : List Out) : reportedIds (.report i r :: l) = i :: reportedIds l := by
  simp [reportedIds]
@[simp] theorem reportedIds_resendOut (up l) : reportedIds (resendOut up l) = [] := by
  induction l with
  | nil => rfl
  | cons e t ih =>
    simp only [resendOut, List.flatMap_cons] at ih ⊢
    rw [reportedIds_append, ih]; simp
@[simp] theorem reportedIds_ackReports (l) : reportedIds (ackReports l) = ids l := by
  induction l with
  | nil => rfl
  | cons e t ih => simp only [ackReports, List.map_cons] at ih ⊢; simp [ih, ids]
theorem reportedIds_discReports (l : List (Nat × Nat)) :
    reportedIds (l.map fun e => Out.report e.2 Report.disconnected) = ids l := by
  induction l with
  | nil => rfl
  | cons e t ih => simp [ih, ids]

@[simp] theorem pktsOf_written (b) : pktsOf [Out.written b] = [] := rfl
@[simp] theorem pktsOf_report (i r) (l : List Out) : pktsOf (.report i r :: l) = pktsOf l := by
  simp [pktsOf]
@[simp] theorem pktsOf_written_cons (b) (l : List Out) : pktsOf (.written b :: l) = pktsOf l := by
  simp [pktsOf]
theorem pktsOf_emit_pkt (up i) : pktsOf (emit up (.pkt i)) = if up then [i] else [] := by
  unfold emit; split <;> simp [pktsOf]
@[simp] theorem pktsOf_emit_r (up) : pktsOf (emit up .r) = [] := by
  unfold emit; split <;> simp [pktsOf]
@[simp] theorem pktsOf_emit_a (up h) : pktsOf (emit up (.a h)) = [] := by
  unfold emit; split <;> simp [pktsOf]
@[simp] theorem pktsOf_emit_resume (up h) : pktsOf (emit up (.resume h)) = [] := by
  unfold emit; split <;> simp [pktsOf]
@[simp] theorem pktsOf_reqOut (e up) : pktsOf (reqOut e up) = [] := by
  unfold reqOut; split <;> simp
@[simp] theorem pktsOf_ackReports (l) : pktsOf (ackReports l) = [] := by
  induction l with
  | nil => rfl
  | cons e t ih => simp only [ackReports, List.map_cons] at ih ⊢; simp [ih]
theorem pktsOf_discReports (l : List (Nat × Nat)) :
    pktsOf (l.map fun e => Out.report e.2 Report.disconnected) = [] := by
  induction l with
  | nil => rfl
  | cons e t ih => simp [ih]
theorem pktsOf_resendOut (up l) : pktsOf (resendOut up l) = if up then ids l else [] := by
  induction l with
  | nil => simp [resendOut, ids]
  | cons e t ih =>
    simp only [resendOut, List.flatMap_cons] at ih ⊢
    rw [pktsOf_append, ih, pktsOf_emit_pkt]
    cases up <;> simp [ids]

/-! ### `run` -/

theorem run_append (s : St) (a b : List Op) :
    run s (a ++ b) = ((run (run s a).1 b).1, (run s a).2 ++ (run (run s a).1 b).2) := by
  induction a generalizing s with
  | nil => simp [run]
  | cons op a ih => simp [run, ih, List.append_assoc]

theorem run_cons (s : St) (op : Op) (ops : List Op) :
    run s (op :: ops) = ((run (step s op).1 ops).1, (step s op).2 ++ (run (step s op).1 ops).2) := rfl

/-- every output of a run is the output of one step, taken in the state the prefix leads to -/
theorem mem_run (s : St) (ops : List Op) (o : Out) :
    o ∈ (run s ops).2 ↔
      ∃ pre op post, ops = pre ++ op :: post ∧ o ∈ (step (run s pre).1 op).2 := by
  induction ops generalizing s with
  | nil => simp [run]
  | cons op ops ih =>
    rw [run_cons]
    simp only [List.mem_append]
    constructor
    · rintro (h | h)
      · exact ⟨[], op, ops, rfl, by simpa [run] using h⟩
      · obtain ⟨pre, op', post, he, hm⟩ := (ih _).mp h
        exact ⟨op :: pre, op', post, by simp [he], by simpa [run_cons] using hm⟩
    · rintro ⟨pre, op', post, he, hm⟩
      cases pre with
      | nil =>
        simp only [List.nil_append, List.cons.injEq] at he
        obtain ⟨h1, _⟩ := he
        subst h1
        left; simpa [run] using hm
      | cons p pre =>
        simp only [List.cons_append, List.cons.injEq] at he
        obtain ⟨h1, h2⟩ := he
        subst h1
        right
        exact (ih _).mpr ⟨pre, op', post, h2, by simpa [run_cons] using hm⟩

/-! ### sequence numbers -/

/-- the keys of `l` are `a, a+1, a+2, …` -/
def KeysFrom : Nat → List (Nat × Nat) → Prop
  | _, [] => True
  | a, e :: t => e.1 = a ∧ KeysFrom (a + 1) t

theorem KeysFrom.append {a : Nat} {l : List (Nat × Nat)} (h : KeysFrom a l) (x : Nat) :
    KeysFrom a (l ++ [(a + l.length, x)]) := by
  induction l generalizing a with
  | nil => simp [KeysFrom]
  | cons e t ih =>
    obtain ⟨h1, h2⟩ := h
    refine ⟨h1, ?_⟩
    have := ih h2
    simpa [Nat.add_assoc, Nat.add_comm 1] using this

theorem KeysFrom.keys_eq {a : Nat} {l : List (Nat × Nat)} (h : KeysFrom a l) :
    keys l = List.range' a l.length := by
  induction l generalizing a with
  | nil => rfl
  | cons e t ih =>
    obtain ⟨h1, h2⟩ := h
    simp only [keys, List.map_cons, List.length_cons, List.range'_succ, h1] at ih ⊢
    rw [ih h2]

theorem renumber_keysFrom (k : Nat) (l : List (Nat × Nat)) : KeysFrom (k + 1) (renumber k l) := by
  induction l generalizing k with
  | nil => trivial
  | cons e t ih => exact ⟨rfl, ih (k + 1)⟩

@[simp] theorem renumber_length (k : Nat) (l : List (Nat × Nat)) : (renumber k l).length = l.length := by
  induction l generalizing k with
  | nil => rfl
  | cons e t ih => simp [renumber, ih]

@[simp] theorem renumber_ids (k : Nat) (l : List (Nat × Nat)) : ids (renumber k l) = ids l := by
  induction l generalizing k with
  | nil => rfl
  | cons e t ih => simp only [ids, renumber, List.map_cons] at ih ⊢; rw [ih]

theorem acked_append_kept (h : Nat) (l : List (Nat × Nat)) : ackedPart h l ++ keptPart h l = l := by
  simp [ackedPart, keptPart]

theorem ids_acked_kept (h : Nat) (l : List (Nat × Nat)) :
    ids (ackedPart h l) ++ ids (keptPart h l) = ids l := by
  rw [ids, ids, ← List.map_append, acked_append_kept]; rfl

theorem mem_ackedPart {h : Nat} {l : List (Nat × Nat)} {e : Nat × Nat} (hm : e ∈ ackedPart h l) :
    e ∈ l ∧ e.1 ≤ h := by
  induction l with
  | nil => simp [ackedPart] at hm
  | cons x t ih =>
    simp only [ackedPart, List.takeWhile_cons] at hm ih
    split at hm
    · rename_i hx
      rcases List.mem_cons.mp hm with h1 | h1
      · subst h1; exact ⟨by simp, by simpa using hx⟩
      · have := ih h1; exact ⟨by simp [this.1], this.2⟩
    · simp at hm

theorem mem_keptPart {h : Nat} {l : List (Nat × Nat)} {e : Nat × Nat} (hm : e ∈ keptPart h l) : e ∈ l :=
  (List.dropWhile_sublist _).subset hm

theorem KeysFrom.all_gt {a h : Nat} {l : List (Nat × Nat)} (hk : KeysFrom a l) (hlt : h < a) :
    ∀ e ∈ l, h < e.1 := by
  induction l generalizing a with
  | nil => simp
  | cons x t ih =>
    obtain ⟨h1, h2⟩ := hk
    intro e he
    rcases List.mem_cons.mp he with h3 | h3
    · subst h3; omega
    · exact ih h2 (by omega) e h3

theorem filter_gt_self {h : Nat} {l : List (Nat × Nat)} (hall : ∀ e ∈ l, h < e.1) :
    l.filter (fun e => decide (h < e.1)) = l := by
  apply List.filter_eq_self.mpr
  intro e he; simpa using hall e he

theorem filter_le_nil {h : Nat} {l : List (Nat × Nat)} (hall : ∀ e ∈ l, h < e.1) :
    l.filter (fun e => decide (e.1 ≤ h)) = [] := by
  apply List.filter_eq_nil_iff.mpr
  intro e he
  have := hall e he
  simp; omega

/-- on a map with increasing keys, "erase from the front while key ≤ h" keeps exactly the entries with key > h -/
theorem KeysFrom.keptPart_eq_filter {a h : Nat} {l : List (Nat × Nat)} (hk : KeysFrom a l) :
    keptPart h l = l.filter (fun e => decide (h < e.1)) := by
  induction l generalizing a with
  | nil => rfl
  | cons x t ih =>
    obtain ⟨h1, h2⟩ := hk
    simp only [keptPart, List.dropWhile_cons, List.filter_cons] at ih ⊢
    by_cases hx : x.1 ≤ h
    · have : ¬ h < x.1 := by omega
      simp only [hx, decide_true, if_true, this, decide_false]
      exact ih h2
    · have hlt : h < x.1 := by omega
      simp only [hx, decide_false, hlt, decide_true, if_true]
      have := filter_gt_self (h2.all_gt (h := h) (by omega))
      simp [this]

/-- … and reports exactly the entries with key ≤ h -/
theorem KeysFrom.ackedPart_eq_filter {a h : Nat} {l : List (Nat × Nat)} (hk : KeysFrom a l) :
    ackedPart h l = l.filter (fun e => decide (e.1 ≤ h)) := by
  induction l generalizing a with
  | nil => rfl
  | cons x t ih =>
    obtain ⟨h1, h2⟩ := hk
    simp only [ackedPart, List.takeWhile_cons, List.filter_cons] at ih ⊢
    by_cases hx : x.1 ≤ h
    · simp only [hx, decide_true, if_true]
      rw [ih h2]
    · simp only [hx, decide_false]
      have := filter_le_nil (h2.all_gt (h := h) (by omega))
      simp [this]

theorem KeysFrom.keptPart {a : Nat} {l : List (Nat × Nat)} (hk : KeysFrom a l) (h : Nat) :
    ∃ a', a ≤ a' ∧ KeysFrom a' (keptPart h l) ∧ a' + (keptPart h l).length = a + l.length := by
  induction l generalizing a with
  | nil => exact ⟨a, Nat.le_refl _, trivial, rfl⟩
  | cons x t ih =>
    obtain ⟨h1, h2⟩ := hk
    by_cases hx : x.1 ≤ h
    · obtain ⟨a', ha, hk', hl⟩ := ih h2
      have e : Qx.C09.keptPart h (x :: t) = Qx.C09.keptPart h t := by
        simp [Qx.C09.keptPart, hx]
      rw [e]
      exact ⟨a', by omega, hk', by simp only [List.length_cons]; omega⟩
    · have e : Qx.C09.keptPart h (x :: t) = x :: t := by
        simp [Qx.C09.keptPart, hx]
      rw [e]
      exact ⟨a, Nat.le_refl _, ⟨h1, h2⟩, rfl⟩

/-! ### the bookkeeping invariant -/

/-- every packet id allocated so far is in exactly one of: the unacknowledged map, the report log -/
def pool (s : St) (log : List Out) : List Nat := ids s.unacked ++ reportedIds log

/-- 1 if `p` is an id allocated between `s` and `s'` -/
def fresh (s s' : St) (p : Nat) : Nat := if s.nextId ≤ p ∧ p < s'.nextId then 1 else 0

theorem fresh_self (s s' : St) (p : Nat) (h : s'.nextId = s.nextId) : fresh s s' p = 0 := by
  unfold fresh; split
  · omega
  · rfl

theorem fresh_trans (a b c : St) (p : Nat) (h1 : a.nextId ≤ b.nextId) (h2 : b.nextId ≤ c.nextId) :
    fresh a c p = fresh a b p + fresh b c p := by
  unfold fresh; split <;> split <;> split <;> omega

theorem fresh_congr (a a' b b' : St) (p : Nat) (h1 : a.nextId = a'.nextId) (h2 : b.nextId = b'.nextId) :
    fresh a b p = fresh a' b' p := by
  unfold fresh; rw [h1, h2]

/-- counting form of one (possibly composite) transition: the ids it allocates occur exactly once
more among "stored or reported", the ids in `pending` (entries already taken out of the map, to be
reported by this transition) move into the report log, nothing else changes -/
structure Eff (s s' : St) (pending : List Nat) (out : List Out) : Prop where
  mono : s.nextId ≤ s'.nextId
  cnt : ∀ p, (ids s'.unacked).count p + (reportedIds out).count p
          = (ids s.unacked).count p + pending.count p + fresh s s' p

abbrev KeysInv (s : St) : Prop :=
  ∃ a, 1 ≤ a ∧ KeysFrom a s.unacked ∧ a + s.unacked.length = s.lastOut + 1

theorem Eff.same {s s' : St} {out : List Out} (hn : s'.nextId = s.nextId)
    (hu : ids s'.unacked = ids s.unacked) (hr : reportedIds out = []) : Eff s s' [] out :=
  ⟨by omega, by intro p; simp [hu, hr, fresh_self s s' p hn]⟩

theorem split_cnt (h : Nat) (l : List (Nat × Nat)) (p : Nat) :
    (ids (ackedPart h l)).count p + (ids (keptPart h l)).count p = (ids l).count p := by
  have h2 := congrArg (List.count p) (ids_acked_kept h l)
  simpa [List.count_append] using h2

/-! #### `send` -/

theorem sendStep_nextId (s : St) (st up : Bool) : (sendStep s st up).1.nextId = s.nextId + 1 := by
  unfold sendStep; split <;> rfl

theorem sendStep_eff (s : St) (st up : Bool) : Eff s (sendStep s st up).1 [] (sendStep s st up).2 := by
  refine ⟨by rw [sendStep_nextId]; omega, ?_⟩
  intro p
  have hf : fresh s (sendStep s st up).1 p = if p = s.nextId then 1 else 0 := by
    unfold fresh; rw [sendStep_nextId]; split <;> split <;> omega
  rw [hf]
  unfold sendStep
  split
  · simp only [reportedIds_append, reportedIds_emit, reportedIds_written, List.append_nil, ids,
      List.map_append, List.map_cons, List.map_nil, List.count_append, List.count_nil,
      List.count_singleton]
    split <;> simp_all <;> omega
  · simp only [reportedIds_append, reportedIds_emit, reportedIds_report, reportedIds_written,
      List.nil_append, List.count_cons, List.count_nil]
    split <;> simp_all <;> omega

theorem sendStep_keys (s : St) (st up : Bool) (h : KeysInv s) : KeysInv (sendStep s st up).1 := by
  obtain ⟨a, ha, hk, hl⟩ := h
  unfold sendStep
  split
  · refine ⟨a, ha, ?_, by simp only [List.length_append, List.length_singleton]; omega⟩
    have e : s.lastOut + 1 = a + s.unacked.length := by omega
    simp only [e]
    exact hk.append _
  · exact ⟨a, ha, hk, hl⟩

theorem sendStep_enabled (s : St) (st up : Bool) : (sendStep s st up).1.enabled = s.enabled := by
  unfold sendStep; split <;> rfl
theorem sendStep_lastIn (s : St) (st up : Bool) : (sendStep s st up).1.lastIn = s.lastIn := by
  unfold sendStep; split <;> rfl
theorem sendStep_handled (s : St) (st up : Bool) : (sendStep s st up).1.handled = s.handled := by
  unfold sendStep; split <;> rfl
theorem sendStep_lastOut_le (s : St) (st up : Bool) : s.lastOut ≤ (sendStep s st up).1.lastOut := by
  unfold sendStep; split <;> simp

/-- what `send` does to the map: nothing, or one entry appended under the next number with the new id -/
theorem sendStep_unacked (s : St) (st up : Bool) :
    (sendStep s st up).1.unacked = s.unacked ∨
    ((sendStep s st up).1.unacked = s.unacked ++ [(s.lastOut + 1, s.nextId)] ∧
      (sendStep s st up).1.lastOut = s.lastOut + 1) := by
  unfold sendStep; split
  · exact Or.inr ⟨rfl, rfl⟩
  · exact Or.inl rfl

theorem sendStep_pkts (s : St) (st up : Bool) : ∀ p ∈ pktsOf (sendStep s st up).2, p = s.nextId := by
  intro p hp
  unfold sendStep at hp
  split at hp
  · simp only [pktsOf_append, pktsOf_emit_pkt, pktsOf_emit_r, pktsOf_written, List.append_nil] at hp
    split at hp <;> simp at hp
    exact hp
  · simp only [pktsOf_append, pktsOf_emit_pkt, pktsOf_report, pktsOf_written, List.append_nil] at hp
    split at hp <;> simp at hp
    exact hp

theorem sendStep_not_acked (s : St) (st up : Bool) (p : Nat) : Out.report p .acked ∉ (sendStep s st up).2 := by
  unfold sendStep emit
  split <;> cases up <;> simp

/-- the only things `send` puts on the wire are a packet and `<r/>` -/
theorem sendStep_wire (s : St) (st up : Bool) (w : Wire) (h : Out.wire w ∈ (sendStep s st up).2) :
    (∃ i, w = .pkt i) ∨ w = .r := by
  unfold sendStep emit at h
  split at h <;> cases up <;> simp at h
  · rcases h with h | h
    · exact Or.inl ⟨_, h⟩
    · exact Or.inr h
  · exact Or.inl ⟨_, h⟩

/-! #### firing reports whose continuations may send -/

theorem fire_mono (rk : Report) (re : List Nat) (up : Bool) (l : List (Nat × Nat)) : ∀ s : St,
    s.nextId ≤ (fire rk re up s l).1.nextId ∧ s.lastOut ≤ (fire rk re up s l).1.lastOut ∧
    (fire rk re up s l).1.enabled = s.enabled ∧ (fire rk re up s l).1.lastIn = s.lastIn ∧
    (fire rk re up s l).1.handled = s.handled := by
  induction l with
  | nil => intro s; exact ⟨Nat.le_refl _, Nat.le_refl _, rfl, rfl, rfl⟩
  | cons e t ih =>
    intro s
    simp only [fire]
    split
    · obtain ⟨h1, h2, h3, h4, h5⟩ := ih (sendStep s true up).1
      have := sendStep_nextId s true up
      have := sendStep_lastOut_le s true up
      exact ⟨by omega, by omega, by rw [h3, sendStep_enabled], by rw [h4, sendStep_lastIn],
        by rw [h5, sendStep_handled]⟩
    · exact ih s

theorem fire_eff (rk : Report) (re : List Nat) (up : Bool) (l : List (Nat × Nat)) : ∀ s : St,
    Eff s (fire rk re up s l).1 (ids l) (fire rk re up s l).2 := by
  induction l with
  | nil => intro s; exact ⟨Nat.le_refl _, by intro p; simp [fire, ids, fresh_self]⟩
  | cons e t ih =>
    intro s
    refine ⟨(fire_mono rk re up (e :: t) s).1, ?_⟩
    intro p
    simp only [fire]
    split
    · have h1 := (sendStep_eff s true up).cnt p
      have h2 := (ih (sendStep s true up).1).cnt p
      have m1 := (sendStep_eff s true up).mono
      have m2 := (ih (sendStep s true up).1).mono
      rw [fresh_trans s (sendStep s true up).1 _ p m1 m2]
      simp only [reportedIds_report, reportedIds_append, List.count_append, List.count_cons, ids,
        List.map_cons, List.count_nil, Nat.zero_add] at h1 h2 ⊢
      split <;> omega
    · have h2 := (ih s).cnt p
      simp only [reportedIds_report, List.nil_append, List.count_cons, ids, List.map_cons] at h2 ⊢
      split <;> omega

theorem fire_keys (rk : Report) (re : List Nat) (up : Bool) (l : List (Nat × Nat)) : ∀ s : St,
    KeysInv s → KeysInv (fire rk re up s l).1 := by
  induction l with
  | nil => intro s h; exact h
  | cons e t ih =>
    intro s h
    simp only [fire]
    split
    · exact ih _ (sendStep_keys s true up h)
    · exact ih _ h

/-- the continuations only append: entries with numbers beyond `lastOut` and fresh ids -/
theorem fire_unacked (rk : Report) (re : List Nat) (up : Bool) (l : List (Nat × Nat)) : ∀ s : St,
    ∃ extra, (fire rk re up s l).1.unacked = s.unacked ++ extra ∧
      ∀ e ∈ extra, s.lastOut < e.1 ∧ s.nextId ≤ e.2 ∧ e.2 < (fire rk re up s l).1.nextId := by
  induction l with
  | nil => intro s; exact ⟨[], by simp [fire], by simp⟩
  | cons e t ih =>
    intro s
    simp only [fire]
    split
    · obtain ⟨extra, h1, h2⟩ := ih (sendStep s true up).1
      have hn := sendStep_nextId s true up
      have hm := (fire_mono rk re up t (sendStep s true up).1).1
      rcases sendStep_unacked s true up with hu | ⟨hu, hl⟩
      · refine ⟨extra, by rw [h1, hu], ?_⟩
        intro x hx
        have := h2 x hx
        have := sendStep_lastOut_le s true up
        omega
      · refine ⟨(s.lastOut + 1, s.nextId) :: extra, by rw [h1, hu]; simp, ?_⟩
        intro x hx
        rcases List.mem_cons.mp hx with hx | hx
        · subst hx; simp only; omega
        · have := h2 x hx; omega
    · exact ih s

theorem fire_pkts (rk : Report) (re : List Nat) (up : Bool) (l : List (Nat × Nat)) : ∀ s : St,
    ∀ p ∈ pktsOf (fire rk re up s l).2, s.nextId ≤ p ∧ p < (fire rk re up s l).1.nextId := by
  induction l with
  | nil => intro s p hp; simp [fire] at hp
  | cons e t ih =>
    intro s p hp
    simp only [fire] at hp ⊢
    split at hp
    · rename_i hc
      simp only [hc, if_true]
      have hn := sendStep_nextId s true up
      have hm := (fire_mono rk re up t (sendStep s true up).1).1
      simp only [pktsOf_report, pktsOf_append, List.mem_append] at hp
      rcases hp with hp | hp
      · have := sendStep_pkts s true up p hp; omega
      · have := ih _ p hp; omega
    · rename_i hc
      simp only [hc]
      simp only [pktsOf_report, List.nil_append] at hp
      exact ih s p hp

/-- a report in the output of `fire` that is not of a packet being fired comes from a `send`, so it is
not "acknowledged" -/
theorem fire_acked (rk : Report) (re : List Nat) (up : Bool) (l : List (Nat × Nat)) : ∀ (s : St) (p : Nat),
    Out.report p .acked ∈ (fire rk re up s l).2 → rk = .acked ∧ ∃ e ∈ l, e.2 = p := by
  induction l with
  | nil => intro s p hp; simp [fire] at hp
  | cons e t ih =>
    intro s p hp
    simp only [fire] at hp
    rcases List.mem_cons.mp hp with h | h
    · injection h with h1 h2; exact ⟨h2.symm, e, by simp, h1.symm⟩
    · rcases List.mem_append.mp h with h | h
      · exfalso
        split at h
        · exact sendStep_not_acked _ _ _ _ h
        · simp at h
      · obtain ⟨hr, x, hx, hp⟩ := ih _ p h
        exact ⟨hr, x, by simp [hx], hp⟩

/-- every packet handed to `fire` gets its report -/
theorem fire_reports (rk : Report) (re : List Nat) (up : Bool) (l : List (Nat × Nat)) : ∀ (s : St),
    ∀ e ∈ l, Out.report e.2 rk ∈ (fire rk re up s l).2 := by
  induction l with
  | nil => intro s e he; cases he
  | cons x t ih =>
    intro s e he
    simp only [fire]
    rcases List.mem_cons.mp he with h | h
    · subst h; simp
    · apply List.mem_cons_of_mem
      apply List.mem_append.mpr; right
      exact ih _ e h

theorem fire_wire (rk : Report) (re : List Nat) (up : Bool) (l : List (Nat × Nat)) : ∀ (s : St) (w : Wire),
    Out.wire w ∈ (fire rk re up s l).2 → (∃ i, w = .pkt i) ∨ w = .r := by
  induction l with
  | nil => intro s w h; simp [fire] at h
  | cons e t ih =>
    intro s w h
    simp only [fire] at h
    rcases List.mem_cons.mp h with h | h
    · cases h
    · rcases List.mem_append.mp h with h | h
      · split at h
        · exact sendStep_wire _ _ _ _ h
        · simp at h
      · exact ih _ w h

theorem fire_none (rk : Report) (re : List Nat) (up : Bool) (l : List (Nat × Nat)) (s : St)
    (hn : ∀ e ∈ l, re.contains e.2 = false) :
    fire rk re up s l = (s, l.map fun e => .report e.2 rk) := by
  induction l generalizing s with
  | nil => rfl
  | cons e t ih =>
    have h1 := hn e (by simp)
    simp only [fire, h1, Bool.false_eq_true, if_false, List.nil_append]
    rw [ih s (fun x hx => hn x (by simp [hx]))]
    simp

theorem fire_nil (rk : Report) (up : Bool) (l : List (Nat × Nat)) (s : St) :
    fire rk [] up s l = (s, l.map fun e => .report e.2 rk) :=
  fire_none rk [] up l s (by simp)

/-- with stream management on, whatever the continuations write is stored when they are done -/
theorem fire_stored (rk : Report) (re : List Nat) (up : Bool) (l : List (Nat × Nat)) : ∀ s : St,
    s.enabled = true → ∀ p ∈ pktsOf (fire rk re up s l).2, p ∈ ids (fire rk re up s l).1.unacked := by
  induction l with
  | nil => intro s _ p hp; simp [fire] at hp
  | cons e t ih =>
    intro s hen p hp
    simp only [fire] at hp ⊢
    split at hp
    · rename_i hc
      simp only [hc, if_true]
      simp only [pktsOf_report, pktsOf_append, List.mem_append] at hp
      rcases hp with hp | hp
      · have hp' := sendStep_pkts s true up p hp
        obtain ⟨extra, h1, _⟩ := fire_unacked rk re up t (sendStep s true up).1
        rw [h1]
        have : (sendStep s true up).1.unacked = s.unacked ++ [(s.lastOut + 1, s.nextId)] := by
          simp [sendStep, hen]
        rw [this, hp']
        simp [ids]
      · exact ih _ (by rw [sendStep_enabled]; exact hen) p hp
    · rename_i hc
      simp only [hc]
      simp only [pktsOf_report, List.nil_append] at hp
      exact ih s hen p hp

/-- the wire part of `fire`: only what the continuations send -/
theorem wireOf_fire_nil (rk : Report) (up : Bool) (l : List (Nat × Nat)) (s : St) :
    wireOf (fire rk [] up s l).2 = [] := by
  rw [fire_nil]
  induction l with
  | nil => rfl
  | cons e t ih => simpa [wireOf] using ih

/-! #### the handled count of `<failed h/>` -/

theorem keysInv_kept (s : St) (h : Nat) (hk : KeysInv s) :
    KeysInv { s with unacked := keptPart h s.unacked } := by
  obtain ⟨a, ha, hk, hl⟩ := hk
  obtain ⟨a', h1, h2, h3⟩ := hk.keptPart h
  exact ⟨a', by omega, h2, by simp only; omega⟩

theorem takeHandled_fields (s : St) :
    (takeHandled s).1.nextId = s.nextId ∧ (takeHandled s).1.lastOut = s.lastOut ∧
    (takeHandled s).1.lastIn = s.lastIn ∧ (takeHandled s).1.enabled = s.enabled ∧
    (takeHandled s).1.handled = none := by
  unfold takeHandled; split
  · exact ⟨rfl, rfl, rfl, rfl, rfl⟩
  · rename_i h; exact ⟨rfl, rfl, rfl, rfl, h⟩

theorem takeHandled_cnt (s : St) (p : Nat) :
    (ids (takeHandled s).2).count p + (ids (takeHandled s).1.unacked).count p = (ids s.unacked).count p := by
  unfold takeHandled; split
  · exact split_cnt _ _ p
  · simp [ids]

theorem takeHandled_keys (s : St) (h : KeysInv s) : KeysInv (takeHandled s).1 := by
  unfold takeHandled; split
  · rename_i hf _
    have := keysInv_kept s hf h
    obtain ⟨a, h1, h2, h3⟩ := this
    exact ⟨a, h1, h2, h3⟩
  · exact h

theorem takeHandled_taken (s : St) : ∀ e ∈ (takeHandled s).2,
    e ∈ s.unacked ∧ ∃ hf, s.handled = some hf ∧ e.1 ≤ hf := by
  intro e he
  unfold takeHandled at he; split at he
  · rename_i hf hh
    have := mem_ackedPart he
    exact ⟨this.1, hf, hh, this.2⟩
  · cases he

theorem takeHandled_left (s : St) : ∀ e ∈ (takeHandled s).1.unacked, e ∈ s.unacked := by
  intro e he
  unfold takeHandled at he; split at he
  · exact mem_keptPart he
  · exact he

theorem takeHandled_eq_beyond (s : St) {a : Nat} (hk : KeysFrom a s.unacked) :
    (takeHandled s).1.unacked = beyond s.handled s.unacked := by
  unfold takeHandled beyond; split
  · rename_i hf hh; simp only [hh]; exact hk.keptPart_eq_filter
  · rename_i hh; simp only [hh]

/-! #### switching stream management on and writing the stored packets again -/

theorem enableCore_fields (s : St) (reset up : Bool) :
    (enableCore s reset up).1.nextId = s.nextId ∧ (enableCore s reset up).1.enabled = true ∧
    (enableCore s reset up).1.handled = s.handled ∧ ids (enableCore s reset up).1.unacked = ids s.unacked ∧
    reportedIds (enableCore s reset up).2 = [] := by
  unfold enableCore
  refine ⟨by split <;> rfl, by split <;> rfl, by split <;> rfl, by split <;> simp, ?_⟩
  simp only
  split <;> simp [reportedIds_append]

theorem enableCore_keys (s : St) (reset up : Bool) (h : KeysInv s) : KeysInv (enableCore s reset up).1 := by
  unfold enableCore
  split
  · exact ⟨1, Nat.le_refl _, renumber_keysFrom 0 _, by simp; omega⟩
  · exact h

theorem enableCore_pkts (s : St) (reset up : Bool) :
    ∀ p ∈ pktsOf (enableCore s reset up).2, p ∈ ids s.unacked := by
  intro p hp
  unfold enableCore at hp
  simp only at hp
  split at hp
  · simp at hp
  · simp only [pktsOf_append, pktsOf_resendOut, pktsOf_reqOut, List.append_nil] at hp
    split at hp
    · exact hp
    · simp at hp

theorem enableCore_wire (s : St) (reset up : Bool) (w : Wire)
    (hm : Out.wire w ∈ (enableCore s reset up).2) : (∃ i, w = .pkt i) ∨ w = .r := by
  unfold enableCore at hm
  simp only at hm
  split at hm
  · simp at hm
  · simp only [resendOut, reqOut, emit, List.mem_append, List.mem_flatMap] at hm
    rcases hm with ⟨e, _, hm⟩ | hm
    · cases up <;> simp at hm
      exact Or.inl ⟨_, hm⟩
    · cases up <;> simp at hm
      exact Or.inr hm

theorem enableCore_not_acked (s : St) (reset up : Bool) (p : Nat) :
    Out.report p .acked ∉ (enableCore s reset up).2 := by
  intro hm
  have : p ∈ reportedIds (enableCore s reset up).2 := by
    simp only [reportedIds, List.mem_filterMap]; exact ⟨_, hm, rfl⟩
  rw [(enableCore_fields s reset up).2.2.2.2] at this
  cases this

theorem Eff.trans {s s1 s2 : St} {o1 o2 : List Out} (h1 : Eff s s1 [] o1) (h2 : Eff s1 s2 [] o2) :
    Eff s s2 [] (o1 ++ o2) := by
  refine ⟨Nat.le_trans h1.mono h2.mono, ?_⟩
  intro p
  have a := h1.cnt p
  have b := h2.cnt p
  have c := fresh_trans s s1 s2 p h1.mono h2.mono
  simp only [reportedIds_append, List.count_append, List.count_nil] at a b ⊢
  omega

/-- `takeAcknowledged(handled)` followed by the reports -/
theorem takeFire_eff (s : St) (re : List Nat) (up : Bool) :
    Eff s (fire .acked re up (takeHandled s).1 (takeHandled s).2).1 []
      (fire .acked re up (takeHandled s).1 (takeHandled s).2).2 := by
  have tf := takeHandled_fields s
  have e := fire_eff .acked re up (takeHandled s).2 (takeHandled s).1
  refine ⟨by have := e.mono; omega, ?_⟩
  intro p
  have h1 := e.cnt p
  have h2 := takeHandled_cnt s p
  have h3 := fresh_congr (takeHandled s).1 s (fire .acked re up (takeHandled s).1 (takeHandled s).2).1
    (fire .acked re up (takeHandled s).1 (takeHandled s).2).1 p tf.1 rfl
  simp only [List.count_nil] at h1 ⊢
  omega

theorem discAll_eff (s : St) (re : List Nat) (up : Bool) : Eff s (discAll re up s).1 [] (discAll re up s).2 := by
  have e := fire_eff .disconnected re up s.unacked { s with unacked := [] }
  have m := e.mono
  refine ⟨m, ?_⟩
  intro p
  have h1 := e.cnt p
  have h3 := fresh_congr { s with unacked := [] } s (fire .disconnected re up { s with unacked := [] } s.unacked).1
    (fire .disconnected re up { s with unacked := [] } s.unacked).1 p rfl rfl
  simp only [discAll, reportedIds_append, reportedIds_discReports, List.count_append, List.count_nil, ids,
    List.map_nil] at h1 h3 ⊢
  have h4 : fresh s { (fire .disconnected re up { s with unacked := [] } s.unacked).1 with unacked := [] } p
      = fresh s (fire .disconnected re up { s with unacked := [] } s.unacked).1 p := rfl
  rw [h4]
  omega

theorem discAll_fields (s : St) (re : List Nat) (up : Bool) :
    (discAll re up s).1.unacked = [] ∧ s.lastOut ≤ (discAll re up s).1.lastOut ∧
    (discAll re up s).1.enabled = s.enabled ∧ (discAll re up s).1.lastIn = s.lastIn ∧
    (discAll re up s).1.handled = s.handled ∧ s.nextId ≤ (discAll re up s).1.nextId := by
  have m := fire_mono .disconnected re up s.unacked { s with unacked := [] }
  exact ⟨rfl, m.2.1, m.2.2.1, m.2.2.2.1, m.2.2.2.2, m.1⟩

/-! #### one step -/

theorem step_eff (s : St) (op : Op) : Eff s (step s op).1 [] (step s op).2 := by
  cases op with
  | send stanza up => exact sendStep_eff s stanza up
  | ack h re up =>
    simp only [step]
    split
    · have e := fire_eff .acked re up (ackedPart h s.unacked) { s with unacked := keptPart h s.unacked }
      refine ⟨e.mono, ?_⟩
      intro p
      have h1 := e.cnt p
      have h2 := split_cnt h s.unacked p
      have h3 := fresh_congr { s with unacked := keptPart h s.unacked } s
        (fire .acked re up { s with unacked := keptPart h s.unacked } (ackedPart h s.unacked)).1
        (fire .acked re up { s with unacked := keptPart h s.unacked } (ackedPart h s.unacked)).1 p rfl rfl
      simp only [List.count_nil] at h1 ⊢
      omega
    · exact Eff.same rfl rfl rfl
  | ackReq up =>
    simp only [step]
    exact Eff.same rfl rfl (by split <;> simp)
  | recv k =>
    simp only [step]
    split <;> exact Eff.same rfl rfl rfl
  | sessionClosed => exact Eff.same rfl rfl rfl
  | enabledNew re up =>
    simp only [step]
    have tf := takeHandled_fields s
    have ef := enableCore_fields (takeHandled s).1 true up
    have e := fire_eff .acked re up (takeHandled s).2 (enableCore (takeHandled s).1 true up).1
    refine ⟨by have := e.mono; omega, ?_⟩
    intro p
    have h1 := e.cnt p
    have h2 := takeHandled_cnt s p
    have h3 := fresh_congr (enableCore (takeHandled s).1 true up).1 s
      (fire .acked re up (enableCore (takeHandled s).1 true up).1 (takeHandled s).2).1
      (fire .acked re up (enableCore (takeHandled s).1 true up).1 (takeHandled s).2).1 p (by omega) rfl
    simp only [reportedIds_append, ef.2.2.2.2, ef.2.2.2.1, List.nil_append, List.count_nil] at h1 ⊢
    omega
  | resumeReq up => exact Eff.same rfl rfl (by simp [step])
  | resumed h re up =>
    simp only [step]
    have tf := takeHandled_fields { s with unacked := keptPart h s.unacked }
    have ef := enableCore_fields (takeHandled { s with unacked := keptPart h s.unacked }).1 false up
    have e1 := fire_eff .acked re up (takeHandled { s with unacked := keptPart h s.unacked }).2
      (enableCore (takeHandled { s with unacked := keptPart h s.unacked }).1 false up).1
    have e2 := fire_eff .acked re up (ackedPart h s.unacked)
      (fire .acked re up (enableCore (takeHandled { s with unacked := keptPart h s.unacked }).1 false up).1
        (takeHandled { s with unacked := keptPart h s.unacked }).2).1
    have m1 := e1.mono
    have m2 := e2.mono
    refine ⟨by simp only at tf; omega, ?_⟩
    intro p
    have h1 := e1.cnt p
    have h2 := e2.cnt p
    have h3 := takeHandled_cnt { s with unacked := keptPart h s.unacked } p
    have h4 := split_cnt h s.unacked p
    have h5 := fresh_trans (enableCore (takeHandled { s with unacked := keptPart h s.unacked }).1 false up).1 _ _ p m1 m2
    have h6 := fresh_congr (enableCore (takeHandled { s with unacked := keptPart h s.unacked }).1 false up).1 s
      (fire .acked re up (fire .acked re up (enableCore (takeHandled { s with unacked := keptPart h s.unacked }).1 false up).1
        (takeHandled { s with unacked := keptPart h s.unacked }).2).1 (ackedPart h s.unacked)).1
      (fire .acked re up (fire .acked re up (enableCore (takeHandled { s with unacked := keptPart h s.unacked }).1 false up).1
        (takeHandled { s with unacked := keptPart h s.unacked }).2).1 (ackedPart h s.unacked)).1 p
      (by simp only at tf; omega) rfl
    simp only [reportedIds_append, ef.2.2.2.2, ef.2.2.2.1, List.nil_append, List.count_append,
      List.count_nil] at h1 h2 h3 ⊢
    omega
  | resumeFailed h =>
    simp only [step]
    split <;> exact Eff.same rfl rfl rfl
  | resetCache re up =>
    simp only [step]
    exact (takeFire_eff s re up).trans (discAll_eff _ re up)

theorem step_keys (s : St) (op : Op) (h : KeysInv s) : KeysInv (step s op).1 := by
  cases op with
  | send stanza up => exact sendStep_keys s stanza up h
  | ack h' re up =>
    simp only [step]
    split
    · exact fire_keys _ re up _ _ (keysInv_kept s h' h)
    · exact h
  | ackReq up => exact h
  | recv k => simp only [step]; split <;> exact h
  | sessionClosed => exact h
  | enabledNew re up =>
    exact fire_keys _ re up _ _ (enableCore_keys _ true up (takeHandled_keys s h))
  | resumeReq up => exact h
  | resumed h' re up =>
    exact fire_keys _ re up _ _ (fire_keys _ re up _ _
      (enableCore_keys _ false up (takeHandled_keys _ (keysInv_kept s h' h))))
  | resumeFailed h' => simp only [step]; split <;> exact h
  | resetCache re up =>
    simp only [step]
    have f := discAll_fields (fire .acked re up (takeHandled s).1 (takeHandled s).2).1 re up
    exact ⟨(discAll re up (fire .acked re up (takeHandled s).1 (takeHandled s).2).1).1.lastOut + 1,
      by omega, by rw [f.1]; trivial, by rw [f.1]; simp⟩

structure Inv (s : St) (log : List Out) : Prop where
  keys : KeysInv s
  cnt : ∀ p, (pool s log).count p = if p < s.nextId then 1 else 0

theorem Inv.nodup {s : St} {log : List Out} (h : Inv s log) : (pool s log).Nodup := by
  apply List.nodup_iff_count.mpr
  intro p; rw [h.cnt]; split <;> omega

theorem Inv.lt {s : St} {log : List Out} (h : Inv s log) : ∀ p ∈ pool s log, p < s.nextId := by
  intro p hm
  have h1 := List.count_pos_iff.mpr hm
  rw [h.cnt] at h1
  split at h1
  · assumption
  · omega

theorem Inv.all {s : St} {log : List Out} (h : Inv s log) : ∀ p, p < s.nextId → p ∈ pool s log := by
  intro p hp
  apply List.count_pos_iff.mp
  rw [h.cnt]; simp [hp]

theorem Inv.init : Inv init [] :=
  ⟨⟨1, Nat.le_refl _, trivial, rfl⟩, by intro p; simp [pool, Qx.C09.init, ids]⟩

theorem Inv.step {s : St} {log : List Out} (h : Inv s log) (op : Op) :
    Inv (step s op).1 (log ++ (step s op).2) := by
  refine ⟨step_keys s op h.keys, ?_⟩
  intro p
  have e := step_eff s op
  have h1 := e.cnt p
  have h2 := h.cnt p
  have h3 := e.mono
  simp only [pool, reportedIds_append, List.count_append, List.count_nil] at h1 h2 ⊢
  unfold fresh at h1
  split at h1 <;> split at h2 <;> split <;> omega

theorem Inv.run {s : St} {log : List Out} (h : Inv s log) (ops : List Op) :
    Inv (run s ops).1 (log ++ (run s ops).2) := by
  induction ops generalizing s log with
  | nil => simpa [Qx.C09.run] using h
  | cons op ops ih =>
    simp only [Qx.C09.run]
    have := ih (h.step op)
    rwa [List.append_assoc] at this

theorem Inv.reachable (ops : List Op) :
    Inv (Qx.C09.run Qx.C09.init ops).1 (Qx.C09.run Qx.C09.init ops).2 := by
  simpa using Inv.init.run ops


/-! ### what may appear on the wire -/

theorem discAll_pkts (s : St) (re : List Nat) (up : Bool) :
    ∀ p ∈ pktsOf (discAll re up s).2, s.nextId ≤ p ∧ p < (discAll re up s).1.nextId := by
  intro p hp
  simp only [discAll, pktsOf_append, pktsOf_discReports, List.append_nil] at hp
  exact fire_pkts .disconnected re up s.unacked { s with unacked := [] } p hp

/-- what a step writes is either a stored packet or one it has just created -/
theorem step_pkts (s : St) (op : Op) :
    ∀ p ∈ pktsOf (step s op).2, p ∈ ids s.unacked ∨ (s.nextId ≤ p ∧ p < (step s op).1.nextId) := by
  intro p hp
  cases op with
  | send stanza up =>
    have := sendStep_pkts s stanza up p hp
    have hn := sendStep_nextId s stanza up
    right; simp only [step]; omega
  | ack h re up =>
    simp only [step] at hp ⊢
    split at hp
    · rename_i he
      rw [if_pos he]
      exact Or.inr (fire_pkts .acked re up _ { s with unacked := keptPart h s.unacked } p hp)
    · simp at hp
  | ackReq up =>
    simp only [step] at hp
    split at hp <;> simp at hp
  | recv k => simp [step] at hp
  | sessionClosed => simp [step] at hp
  | enabledNew re up =>
    simp only [step, pktsOf_append] at hp ⊢
    have tf := takeHandled_fields s
    have ef := enableCore_fields (takeHandled s).1 true up
    rcases List.mem_append.mp hp with hp | hp
    · left
      have := enableCore_pkts _ true up p hp
      simp only [ids, List.mem_map] at this ⊢
      obtain ⟨e, he, hpe⟩ := this
      exact ⟨e, takeHandled_left s e he, hpe⟩
    · right
      have := fire_pkts .acked re up _ _ p hp
      omega
  | resumeReq up => simp [step] at hp
  | resumed h re up =>
    simp only [step, pktsOf_append] at hp ⊢
    have tf := takeHandled_fields { s with unacked := keptPart h s.unacked }
    have ef := enableCore_fields (takeHandled { s with unacked := keptPart h s.unacked }).1 false up
    have m1 := (fire_mono .acked re up (takeHandled { s with unacked := keptPart h s.unacked }).2
      (enableCore (takeHandled { s with unacked := keptPart h s.unacked }).1 false up).1).1
    have m2 := (fire_mono .acked re up (ackedPart h s.unacked)
      (fire .acked re up (enableCore (takeHandled { s with unacked := keptPart h s.unacked }).1 false up).1
        (takeHandled { s with unacked := keptPart h s.unacked }).2).1).1
    simp only at tf
    rcases List.mem_append.mp hp with hp | hp
    · rcases List.mem_append.mp hp with hp | hp
      · left
        have := enableCore_pkts _ false up p hp
        simp only [ids, List.mem_map] at this ⊢
        obtain ⟨e, he, hpe⟩ := this
        exact ⟨e, mem_keptPart (takeHandled_left _ e he), hpe⟩
      · right
        have := fire_pkts .acked re up _ _ p hp
        omega
    · right
      have := fire_pkts .acked re up _ _ p hp
      omega
  | resumeFailed h => simp only [step] at hp; simp at hp
  | resetCache re up =>
    simp only [step, pktsOf_append] at hp ⊢
    have tf := takeHandled_fields s
    have m1 := (fire_mono .acked re up (takeHandled s).2 (takeHandled s).1).1
    have m2 := (discAll_fields (fire .acked re up (takeHandled s).1 (takeHandled s).2).1 re up).2.2.2.2.2
    right
    rcases List.mem_append.mp hp with hp | hp
    · have := fire_pkts .acked re up _ _ p hp
      omega
    · have := discAll_pkts _ re up p hp
      omega

/-- a packet that has a report is never put on the wire again, whatever happens next -/
theorem run_pkts_not_reported (ops : List Op) : ∀ (s : St) (log : List Out), Inv s log →
    ∀ p ∈ reportedIds log, p ∉ pktsOf (run s ops).2 := by
  induction ops with
  | nil => intro s log _ p _; simp [run]
  | cons op ops ih =>
    intro s log hinv p hp
    rw [run_cons, pktsOf_append, List.mem_append]
    have hpool : p ∈ pool s log := List.mem_append.mpr (Or.inr hp)
    rintro (h | h)
    · rcases step_pkts s op p h with h1 | h1
      · have hnd := hinv.nodup
        simp only [pool, List.nodup_append] at hnd
        exact hnd.2.2 p h1 p hp rfl
      · have := hinv.lt p hpool; omega
    · refine ih _ _ (hinv.step op) p ?_ h
      rw [reportedIds_append]; exact List.mem_append.mpr (Or.inl hp)

/-! ### acknowledged reports -/

theorem not_acked_mem_emit (p up w) : Out.report p .acked ∉ emit up w := by
  unfold emit; split <;> simp

theorem discAll_not_acked (s : St) (re : List Nat) (up : Bool) (p : Nat) :
    Out.report p .acked ∉ (discAll re up s).2 := by
  intro hm
  simp only [discAll] at hm
  rcases List.mem_append.mp hm with hm | hm
  · have := (fire_acked .disconnected re up _ _ p hm).1
    cases this
  · simp at hm

/-- one step reports "acknowledged" only for a packet stored under a number `k ≤ h`, where `h` is the
handled count of the element being processed (`<a h/>` with stream management on, `<resumed h/>`) or
the count a `<failed h/>` has left behind -/
theorem step_acked (s : St) (op : Op) (p : Nat) (hm : Out.report p .acked ∈ (step s op).2) :
    ∃ h k, k ≤ h ∧ (k, p) ∈ s.unacked ∧
      ((op.ackH = some h ∧ (op.isA = true → s.enabled = true)) ∨ s.handled = some h) := by
  cases op with
  | send stanza up => exact absurd hm (sendStep_not_acked s stanza up p)
  | ack h re up =>
    simp only [step] at hm
    split at hm
    · rename_i hen
      obtain ⟨_, e, he, hp⟩ := fire_acked .acked re up _ _ p hm
      have := mem_ackedPart he
      exact ⟨h, e.1, this.2, by rw [← hp]; exact this.1, Or.inl ⟨rfl, fun _ => hen⟩⟩
    · simp at hm
  | ackReq up =>
    exfalso
    simp only [step] at hm
    split at hm
    · exact not_acked_mem_emit _ _ _ hm
    · simp at hm
  | recv k => simp [step] at hm
  | sessionClosed => simp [step] at hm
  | enabledNew re up =>
    simp only [step] at hm
    rcases List.mem_append.mp hm with hm | hm
    · exact absurd hm (enableCore_not_acked _ _ _ _)
    · obtain ⟨_, e, he, hp⟩ := fire_acked .acked re up _ _ p hm
      obtain ⟨h1, hf, h2, h3⟩ := takeHandled_taken s e he
      exact ⟨hf, e.1, h3, by rw [← hp]; exact h1, Or.inr h2⟩
  | resumeReq up =>
    exfalso
    simp only [step] at hm
    exact not_acked_mem_emit _ _ _ hm
  | resumed h re up =>
    simp only [step] at hm
    rcases List.mem_append.mp hm with hm | hm
    · rcases List.mem_append.mp hm with hm | hm
      · exact absurd hm (enableCore_not_acked _ _ _ _)
      · obtain ⟨_, e, he, hp⟩ := fire_acked .acked re up _ _ p hm
        obtain ⟨h1, hf, h2, h3⟩ := takeHandled_taken _ e he
        exact ⟨hf, e.1, h3, by rw [← hp]; exact mem_keptPart h1, Or.inr h2⟩
    · obtain ⟨_, e, he, hp⟩ := fire_acked .acked re up _ _ p hm
      have := mem_ackedPart he
      exact ⟨h, e.1, this.2, by rw [← hp]; exact this.1, Or.inl ⟨rfl, by simp [Op.isA]⟩⟩
  | resumeFailed h => simp only [step] at hm; simp at hm
  | resetCache re up =>
    simp only [step] at hm
    rcases List.mem_append.mp hm with hm | hm
    · obtain ⟨_, e, he, hp⟩ := fire_acked .acked re up _ _ p hm
      obtain ⟨h1, hf, h2, h3⟩ := takeHandled_taken s e he
      exact ⟨hf, e.1, h3, by rw [← hp]; exact h1, Or.inr h2⟩
    · exact absurd hm (discAll_not_acked _ _ _ _)

/-! ### the inbound counter -/

theorem enableCore_lastIn (s : St) (reset up : Bool) :
    (enableCore s reset up).1.lastIn = if reset then 0 else s.lastIn := by
  unfold enableCore; split <;> simp_all

theorem step_sessionCount (s : St) (c : Bool × Nat) (op : Op)
    (h1 : c.1 = s.enabled) (h2 : s.lastIn = c.2) :
    (sessionCountStep c op).1 = (step s op).1.enabled ∧
      (step s op).1.lastIn = (sessionCountStep c op).2 := by
  cases op with
  | send stanza up =>
    simp only [step, sessionCountStep, sendStep_enabled, sendStep_lastIn]; exact ⟨h1, h2⟩
  | ack h re up =>
    simp only [step, sessionCountStep]
    split
    · have m := fire_mono .acked re up (ackedPart h s.unacked) { s with unacked := keptPart h s.unacked }
      exact ⟨by rw [m.2.2.1]; exact h1, by rw [m.2.2.2.1]; exact h2⟩
    · exact ⟨h1, h2⟩
  | ackReq up => exact ⟨h1, h2⟩
  | recv k =>
    simp only [step, sessionCountStep]
    rw [h1]
    split
    · exact ⟨rfl, by simp only; omega⟩
    · exact ⟨h1, h2⟩
  | sessionClosed => exact ⟨rfl, h2⟩
  | enabledNew re up =>
    simp only [step, sessionCountStep]
    have m := fire_mono .acked re up (takeHandled s).2 (enableCore (takeHandled s).1 true up).1
    have ef := enableCore_fields (takeHandled s).1 true up
    have el := enableCore_lastIn (takeHandled s).1 true up
    exact ⟨by rw [m.2.2.1, ef.2.1], by rw [m.2.2.2.1, el]; rfl⟩
  | resumeReq up => exact ⟨h1, h2⟩
  | resumed h re up =>
    simp only [step, sessionCountStep]
    have tf := takeHandled_fields { s with unacked := keptPart h s.unacked }
    have ef := enableCore_fields (takeHandled { s with unacked := keptPart h s.unacked }).1 false up
    have el := enableCore_lastIn (takeHandled { s with unacked := keptPart h s.unacked }).1 false up
    have m1 := fire_mono .acked re up (takeHandled { s with unacked := keptPart h s.unacked }).2
      (enableCore (takeHandled { s with unacked := keptPart h s.unacked }).1 false up).1
    have m2 := fire_mono .acked re up (ackedPart h s.unacked)
      (fire .acked re up (enableCore (takeHandled { s with unacked := keptPart h s.unacked }).1 false up).1
        (takeHandled { s with unacked := keptPart h s.unacked }).2).1
    exact ⟨by rw [m2.2.2.1, m1.2.2.1, ef.2.1], by rw [m2.2.2.2.1, m1.2.2.2.1, el]; simp only [Bool.false_eq_true, if_false]; rw [tf.2.2.1]; exact h2⟩
  | resumeFailed h => simp only [step, sessionCountStep]; split <;> exact ⟨h1, h2⟩
  | resetCache re up =>
    simp only [step, sessionCountStep]
    have tf := takeHandled_fields s
    have m1 := fire_mono .acked re up (takeHandled s).2 (takeHandled s).1
    have d := discAll_fields (fire .acked re up (takeHandled s).1 (takeHandled s).2).1 re up
    exact ⟨by rw [d.2.2.1, m1.2.2.1, tf.2.2.2.1]; exact h1, by rw [d.2.2.2.1, m1.2.2.2.1, tf.2.2.1]; exact h2⟩

theorem run_sessionCount (ops : List Op) : ∀ (s : St) (c : Bool × Nat),
    c.1 = s.enabled → s.lastIn = c.2 →
    (ops.foldl sessionCountStep c).1 = (run s ops).1.enabled ∧
      (run s ops).1.lastIn = (ops.foldl sessionCountStep c).2 := by
  induction ops with
  | nil => intro s c h1 h2; exact ⟨h1, h2⟩
  | cons op ops ih =>
    intro s c h1 h2
    obtain ⟨h3, h4⟩ := step_sessionCount s c op h1 h2
    exact ih _ _ h3 h4

/-! ### what a step puts on the wire that carries a counter -/

theorem discAll_wire (s : St) (re : List Nat) (up : Bool) (w : Wire)
    (hm : Out.wire w ∈ (discAll re up s).2) : (∃ i, w = .pkt i) ∨ w = .r := by
  simp only [discAll] at hm
  rcases List.mem_append.mp hm with hm | hm
  · exact fire_wire _ re up _ _ w hm
  · simp at hm

/-- every wire element of the composite operations is a packet or `<r/>` -/
theorem step_wire_composite (s : St) (op : Op) (w : Wire) (hm : Out.wire w ∈ (step s op).2)
    (hop : (∃ h re up, op = .ack h re up) ∨ (∃ re up, op = .enabledNew re up) ∨
           (∃ h re up, op = .resumed h re up) ∨ (∃ re up, op = .resetCache re up)) :
    (∃ i, w = .pkt i) ∨ w = .r := by
  rcases hop with ⟨h, re, up, rfl⟩ | ⟨re, up, rfl⟩ | ⟨h, re, up, rfl⟩ | ⟨re, up, rfl⟩
  · simp only [step] at hm
    split at hm
    · exact fire_wire _ re up _ _ w hm
    · simp at hm
  · simp only [step] at hm
    rcases List.mem_append.mp hm with hm | hm
    · exact enableCore_wire _ _ _ w hm
    · exact fire_wire _ re up _ _ w hm
  · simp only [step] at hm
    rcases List.mem_append.mp hm with hm | hm
    · rcases List.mem_append.mp hm with hm | hm
      · exact enableCore_wire _ _ _ w hm
      · exact fire_wire _ re up _ _ w hm
    · exact fire_wire _ re up _ _ w hm
  · simp only [step] at hm
    rcases List.mem_append.mp hm with hm | hm
    · exact fire_wire _ re up _ _ w hm
    · exact discAll_wire _ re up w hm

theorem step_wire_a (s : St) (op : Op) (k : Nat) (hm : Out.wire (.a k) ∈ (step s op).2) :
    k = s.lastIn ∧ s.enabled = true ∧ op = .ackReq true := by
  cases op with
  | send stanza up => rcases sendStep_wire s stanza up _ hm with ⟨i, h⟩ | h <;> cases h
  | ack h re up =>
    rcases step_wire_composite s _ _ hm (Or.inl ⟨h, re, up, rfl⟩) with ⟨i, h⟩ | h <;> cases h
  | ackReq up =>
    simp only [step, emit] at hm
    split at hm
    · rename_i he
      cases up <;> simp at hm
      exact ⟨hm, he, rfl⟩
    · simp at hm
  | recv kd => simp [step] at hm
  | sessionClosed => simp [step] at hm
  | enabledNew re up =>
    rcases step_wire_composite s _ _ hm (Or.inr (Or.inl ⟨re, up, rfl⟩)) with ⟨i, h⟩ | h <;> cases h
  | resumeReq up => simp only [step, emit] at hm; cases up <;> simp at hm
  | resumed h re up =>
    rcases step_wire_composite s _ _ hm (Or.inr (Or.inr (Or.inl ⟨h, re, up, rfl⟩))) with ⟨i, h⟩ | h <;> cases h
  | resumeFailed h => simp only [step] at hm; simp at hm
  | resetCache re up =>
    rcases step_wire_composite s _ _ hm (Or.inr (Or.inr (Or.inr ⟨re, up, rfl⟩))) with ⟨i, h⟩ | h <;> cases h

theorem step_wire_resume (s : St) (op : Op) (k : Nat) (hm : Out.wire (.resume k) ∈ (step s op).2) :
    k = s.lastIn ∧ op = .resumeReq true := by
  cases op with
  | send stanza up => rcases sendStep_wire s stanza up _ hm with ⟨i, h⟩ | h <;> cases h
  | ack h re up =>
    rcases step_wire_composite s _ _ hm (Or.inl ⟨h, re, up, rfl⟩) with ⟨i, h⟩ | h <;> cases h
  | ackReq up =>
    simp only [step, emit] at hm
    split at hm <;> cases up <;> simp at hm
  | recv kd => simp [step] at hm
  | sessionClosed => simp [step] at hm
  | enabledNew re up =>
    rcases step_wire_composite s _ _ hm (Or.inr (Or.inl ⟨re, up, rfl⟩)) with ⟨i, h⟩ | h <;> cases h
  | resumeReq up =>
    simp only [step, emit] at hm
    cases up <;> simp at hm
    exact ⟨hm, rfl⟩
  | resumed h re up =>
    rcases step_wire_composite s _ _ hm (Or.inr (Or.inr (Or.inl ⟨h, re, up, rfl⟩))) with ⟨i, h⟩ | h <;> cases h
  | resumeFailed h => simp only [step] at hm; simp at hm
  | resetCache re up =>
    rcases step_wire_composite s _ _ hm (Or.inr (Or.inr (Or.inr ⟨re, up, rfl⟩))) with ⟨i, h⟩ | h <;> cases h

/-! ### where a stored handled count comes from -/

theorem step_handled (s : St) (op : Op) (h : Nat) (hh : (step s op).1.handled = some h) :
    s.handled = some h ∨ op = .resumeFailed (some h) := by
  cases op with
  | send stanza up => left; simpa [step, sendStep_handled] using hh
  | ack h' re up =>
    simp only [step] at hh
    split at hh
    · left
      have m := fire_mono .acked re up (ackedPart h' s.unacked) { s with unacked := keptPart h' s.unacked }
      rw [m.2.2.2.2] at hh; exact hh
    · exact Or.inl hh
  | ackReq up => exact Or.inl hh
  | recv k => simp only [step] at hh; split at hh <;> exact Or.inl hh
  | sessionClosed => exact Or.inl hh
  | enabledNew re up =>
    exfalso
    simp only [step] at hh
    have m := fire_mono .acked re up (takeHandled s).2 (enableCore (takeHandled s).1 true up).1
    rw [m.2.2.2.2, (enableCore_fields _ true up).2.2.1, (takeHandled_fields s).2.2.2.2] at hh
    cases hh
  | resumeReq up => exact Or.inl hh
  | resumed h' re up =>
    exfalso
    simp only [step] at hh
    have m1 := fire_mono .acked re up (takeHandled { s with unacked := keptPart h' s.unacked }).2
      (enableCore (takeHandled { s with unacked := keptPart h' s.unacked }).1 false up).1
    have m2 := fire_mono .acked re up (ackedPart h' s.unacked)
      (fire .acked re up (enableCore (takeHandled { s with unacked := keptPart h' s.unacked }).1 false up).1
        (takeHandled { s with unacked := keptPart h' s.unacked }).2).1
    rw [m2.2.2.2.2, m1.2.2.2.2, (enableCore_fields _ false up).2.2.1, (takeHandled_fields _).2.2.2.2] at hh
    cases hh
  | resumeFailed h' =>
    cases h' with
    | none => exact Or.inl hh
    | some n =>
      simp only [step, Option.some.injEq] at hh
      right; rw [hh]
  | resetCache re up =>
    exfalso
    simp only [step] at hh
    have d := discAll_fields (fire .acked re up (takeHandled s).1 (takeHandled s).2).1 re up
    have m1 := fire_mono .acked re up (takeHandled s).2 (takeHandled s).1
    rw [d.2.2.2.2.1, m1.2.2.2.2, (takeHandled_fields s).2.2.2.2] at hh
    cases hh

theorem run_handled (ops : List Op) : ∀ (s : St) (h : Nat), (run s ops).1.handled = some h →
    s.handled = some h ∨ Op.resumeFailed (some h) ∈ ops := by
  induction ops with
  | nil => intro s h hh; exact Or.inl hh
  | cons op ops ih =>
    intro s h hh
    rcases ih _ h hh with h1 | h1
    · rcases step_handled s op h h1 with h2 | h2
      · exact Or.inl h2
      · right; rw [h2]; simp
    · right; simp [h1]

/-! ### renumbering -/

theorem renumber_eq_zip (k : Nat) (l : List (Nat × Nat)) :
    renumber k l = (List.range' (k + 1) l.length).zip (ids l) := by
  induction l generalizing k with
  | nil => rfl
  | cons e t ih => simp [renumber, ih, ids, List.range'_succ]


/-! ### wire projection of the resend block -/

theorem wireOf_resendOut_up (l : List (Nat × Nat)) :
    wireOf (resendOut true l) = l.map fun e => Wire.pkt e.2 := by
  induction l with
  | nil => rfl
  | cons e t ih =>
    simp only [resendOut, List.flatMap_cons] at ih ⊢
    rw [wireOf_append, ih]; simp [emit, wireOf]

theorem wireOf_resendOut_down (l : List (Nat × Nat)) : wireOf (resendOut false l) = [] := by
  induction l with
  | nil => rfl
  | cons e t ih =>
    simp only [resendOut, List.flatMap_cons] at ih ⊢
    rw [wireOf_append, ih]; simp [emit]


theorem wireOf_enableCore_up (s : St) (reset : Bool) :
    wireOf (enableCore s reset true).2 = resendBlock s.unacked := by
  simp only [enableCore, resendBlock]
  split
  · rfl
  · rw [wireOf_append, wireOf_resendOut_up]; simp [reqOut, emit, wireOf]

theorem wireOf_enableCore_down (s : St) (reset : Bool) : wireOf (enableCore s reset false).2 = [] := by
  simp only [enableCore]
  split
  · rfl
  · rw [wireOf_append, wireOf_resendOut_down]; simp [reqOut, emit]

theorem wireOf_sendStep_down (s : St) (st : Bool) : wireOf (sendStep s st false).2 = [] := by
  unfold sendStep; split <;> simp [emit, wireOf]

theorem wireOf_fire_down (rk : Report) (re : List Nat) (l : List (Nat × Nat)) : ∀ s : St,
    wireOf (fire rk re false s l).2 = [] := by
  induction l with
  | nil => intro s; rfl
  | cons e t ih =>
    intro s
    simp only [fire]
    split
    · have h1 : wireOf (Out.report e.2 rk :: ((sendStep s true false).2 ++ (fire rk re false (sendStep s true false).1 t).2))
          = wireOf (sendStep s true false).2 ++ wireOf (fire rk re false (sendStep s true false).1 t).2 := by
        rw [← wireOf_append]; simp [wireOf]
      rw [h1, wireOf_sendStep_down, ih]; rfl
    · have h1 : wireOf (Out.report e.2 rk :: ([] ++ (fire rk re false s t).2)) = wireOf (fire rk re false s t).2 := by
        simp [wireOf]
      rw [h1, ih]

/-! ### consequences of the key invariant, for an arbitrary state -/

theorem keys_facts (s : St)
    (h : ∃ a, 1 ≤ a ∧ KeysFrom a s.unacked ∧ a + s.unacked.length = s.lastOut + 1) :
    s.unacked.length ≤ s.lastOut ∧
    keys s.unacked = List.range' (s.lastOut + 1 - s.unacked.length) s.unacked.length ∧
    (keys s.unacked).Pairwise (· < ·) ∧
    ∀ k ∈ keys s.unacked, 1 ≤ k ∧ k ≤ s.lastOut := by
  obtain ⟨a, ha, hk, hl⟩ := h
  have e : s.lastOut + 1 - s.unacked.length = a := by omega
  have hkeys : keys s.unacked = List.range' a s.unacked.length := hk.keys_eq
  refine ⟨by omega, by rw [e]; exact hkeys, ?_, ?_⟩
  · rw [hkeys]; exact List.pairwise_lt_range'
  · intro k hm
    rw [hkeys, List.mem_range'_1] at hm
    omega

theorem ids_nodup_unique {l : List (Nat × Nat)} (hnd : (ids l).Nodup) {k₁ k₂ p : Nat}
    (h1 : (k₁, p) ∈ l) (h2 : (k₂, p) ∈ l) : k₁ = k₂ := by
  induction l with
  | nil => cases h1
  | cons e t ih =>
    simp only [ids, List.map_cons, List.nodup_cons, List.mem_map, not_exists, not_and] at hnd
    rcases List.mem_cons.mp h1 with a1 | a1 <;> rcases List.mem_cons.mp h2 with a2 | a2
    · rw [← a1] at a2; exact (Prod.mk.inj a2).1.symm ▸ rfl
    · exact absurd (by rw [← a1]) (hnd.1 _ a2)
    · exact absurd (by rw [← a2]) (hnd.1 _ a1)
    · exact ih hnd.2 a1 a2


/-! ### coverage announced by `<failed h/>` -/

/-- the stored entries an operation writes again -/
def resentOf (s : St) : Op → List (Nat × Nat)
  | .enabledNew _ _ => (takeHandled s).1.unacked
  | .resumed h _ _ => (takeHandled { s with unacked := keptPart h s.unacked }).1.unacked
  | _ => []

/-- an *old* packet (allocated before the step) on the wire is one of the entries written again -/
theorem step_pkts_old (s : St) (op : Op) (p : Nat) (hp : p ∈ pktsOf (step s op).2) (hlt : p < s.nextId) :
    p ∈ ids (resentOf s op) := by
  cases op with
  | send stanza up => have := sendStep_pkts s stanza up p hp; omega
  | ack h re up =>
    simp only [step] at hp
    split at hp
    · have := fire_pkts .acked re up _ { s with unacked := keptPart h s.unacked } p hp
      simp only at this; omega
    · simp at hp
  | ackReq up => simp only [step] at hp; split at hp <;> simp at hp
  | recv k => simp [step] at hp
  | sessionClosed => simp [step] at hp
  | enabledNew re up =>
    simp only [step, pktsOf_append] at hp
    have tf := takeHandled_fields s
    have ef := enableCore_fields (takeHandled s).1 true up
    rcases List.mem_append.mp hp with hp | hp
    · exact enableCore_pkts _ true up p hp
    · have := fire_pkts .acked re up _ _ p hp; omega
  | resumeReq up => simp [step] at hp
  | resumed h re up =>
    simp only [step, pktsOf_append] at hp
    have tf := takeHandled_fields { s with unacked := keptPart h s.unacked }
    have ef := enableCore_fields (takeHandled { s with unacked := keptPart h s.unacked }).1 false up
    have m1 := (fire_mono .acked re up (takeHandled { s with unacked := keptPart h s.unacked }).2
      (enableCore (takeHandled { s with unacked := keptPart h s.unacked }).1 false up).1).1
    simp only at tf
    rcases List.mem_append.mp hp with hp | hp
    · rcases List.mem_append.mp hp with hp | hp
      · exact enableCore_pkts _ false up p hp
      · have := fire_pkts .acked re up _ _ p hp; omega
    · have := fire_pkts .acked re up _ _ p hp; omega
  | resumeFailed h => simp only [step] at hp; simp at hp
  | resetCache re up =>
    simp only [step, pktsOf_append] at hp
    have tf := takeHandled_fields s
    have m1 := (fire_mono .acked re up (takeHandled s).2 (takeHandled s).1).1
    rcases List.mem_append.mp hp with hp | hp
    · have := fire_pkts .acked re up _ _ p hp; omega
    · have := discAll_pkts _ re up p hp; omega

/-- a stored packet whose number is covered by the pending handled count is among those
`takeAcknowledged` removes, and not among those it leaves -/
theorem taken_of_covered (s : St) (hk : KeysInv s) (hnd : (ids s.unacked).Nodup) {k p hf : Nat}
    (hm : (k, p) ∈ s.unacked) (hh : s.handled = some hf) (hle : k ≤ hf) :
    (k, p) ∈ (takeHandled s).2 ∧ p ∉ ids (takeHandled s).1.unacked := by
  obtain ⟨a, _, hkf, _⟩ := hk
  unfold takeHandled
  simp only [hh]
  rw [hkf.ackedPart_eq_filter, hkf.keptPart_eq_filter]
  refine ⟨by simp [hm, hle], ?_⟩
  intro hc
  simp only [ids, List.mem_map, List.mem_filter, decide_eq_true_eq] at hc
  obtain ⟨e, ⟨he, hlt⟩, hpe⟩ := hc
  have he' : (e.1, p) ∈ s.unacked := by rw [← hpe]; exact he
  have : e.1 = k := ids_nodup_unique hnd he' hm
  omega

theorem kept_or_acked (s : St) (hk : KeysInv s) (hnd : (ids s.unacked).Nodup) (h : Nat) {k p : Nat}
    (hm : (k, p) ∈ s.unacked) :
    (k ≤ h ∧ (k, p) ∈ ackedPart h s.unacked ∧ p ∉ ids (keptPart h s.unacked)) ∨
    (h < k ∧ (k, p) ∈ keptPart h s.unacked) := by
  obtain ⟨a, _, hkf, _⟩ := hk
  rw [hkf.ackedPart_eq_filter, hkf.keptPart_eq_filter]
  by_cases hle : k ≤ h
  · left
    refine ⟨hle, by simp [hm, hle], ?_⟩
    intro hc
    simp only [ids, List.mem_map, List.mem_filter, decide_eq_true_eq] at hc
    obtain ⟨e, ⟨he, hlt⟩, hpe⟩ := hc
    have he' : (e.1, p) ∈ s.unacked := by rw [← hpe]; exact he
    have : e.1 = k := ids_nodup_unique hnd he' hm
    omega
  · right; exact ⟨by omega, by simp [hm]; omega⟩

/-- `p` is stored under a number `k ≤ h0`, and a handled count `≥ h0` is pending -/
def Cov (s : St) (p h0 : Nat) : Prop :=
  ∃ k hf, (k, p) ∈ s.unacked ∧ s.handled = some hf ∧ k ≤ h0 ∧ h0 ≤ hf

theorem reported_of_fire {rk : Report} {re : List Nat} {up : Bool} {s : St} {l : List (Nat × Nat)} {k p : Nat}
    (h : (k, p) ∈ l) : p ∈ reportedIds (fire rk re up s l).2 := by
  have := fire_reports rk re up l s (k, p) h
  simp only [reportedIds, List.mem_filterMap]
  exact ⟨_, this, rfl⟩

/-- one step keeps a covered packet off the wire, and either keeps it covered or reports it -/
theorem step_cov (s : St) (log : List Out) (hinv : Inv s log) (op : Op) (p h0 : Nat) (hc : Cov s p h0)
    (hop : ∀ h', op = .resumeFailed (some h') → h0 ≤ h') :
    p ∉ pktsOf (step s op).2 ∧ (Cov (step s op).1 p h0 ∨ p ∈ reportedIds (step s op).2) := by
  obtain ⟨k, hf, hm, hh, hk0, h0f⟩ := hc
  have hnd : (ids s.unacked).Nodup := by
    have := hinv.nodup; simp only [pool, List.nodup_append] at this; exact this.1
  have hpid : p ∈ ids s.unacked := by simp only [ids, List.mem_map]; exact ⟨(k, p), hm, rfl⟩
  have hlt : p < s.nextId := hinv.lt p (List.mem_append.mpr (Or.inl hpid))
  have hkf : k ≤ hf := by omega
  refine ⟨?_, ?_⟩
  · intro hp
    have hr := step_pkts_old s op p hp hlt
    cases op with
    | enabledNew re up =>
      exact (taken_of_covered s hinv.keys hnd hm hh hkf).2 hr
    | resumed h re up =>
      simp only [resentOf] at hr
      rcases kept_or_acked s hinv.keys hnd h hm with ⟨_, _, h3⟩ | ⟨_, h3⟩
      · apply h3
        simp only [ids, List.mem_map] at hr ⊢
        obtain ⟨e, he, hpe⟩ := hr
        exact ⟨e, takeHandled_left _ e he, hpe⟩
      · have hk' := keysInv_kept s h hinv.keys
        have hnd' : (ids (keptPart h s.unacked)).Nodup := by
          have := (List.dropWhile_sublist (fun e : Nat × Nat => decide (e.1 ≤ h)) (l := s.unacked)).map Prod.snd
          exact this.nodup hnd
        exact (taken_of_covered { s with unacked := keptPart h s.unacked } hk' hnd' h3 hh hkf).2 hr
    | _ => simp [resentOf, ids] at hr
  · cases op with
    | send stanza up =>
      left
      simp only [step]
      refine ⟨k, hf, ?_, by rw [sendStep_handled]; exact hh, hk0, h0f⟩
      rcases sendStep_unacked s stanza up with hu | ⟨hu, _⟩
      · rw [hu]; exact hm
      · rw [hu]; exact List.mem_append.mpr (Or.inl hm)
    | ack h re up =>
      simp only [step]
      split
      · rcases kept_or_acked s hinv.keys hnd h hm with ⟨_, h2, _⟩ | ⟨_, h3⟩
        · right; exact reported_of_fire h2
        · left
          obtain ⟨extra, h1, _⟩ := fire_unacked .acked re up (ackedPart h s.unacked) { s with unacked := keptPart h s.unacked }
          have m := fire_mono .acked re up (ackedPart h s.unacked) { s with unacked := keptPart h s.unacked }
          exact ⟨k, hf, by rw [h1]; exact List.mem_append.mpr (Or.inl h3), by rw [m.2.2.2.2]; exact hh, hk0, h0f⟩
      · left; exact ⟨k, hf, hm, hh, hk0, h0f⟩
    | ackReq up => left; exact ⟨k, hf, hm, hh, hk0, h0f⟩
    | recv kd => left; simp only [step]; split <;> exact ⟨k, hf, hm, hh, hk0, h0f⟩
    | sessionClosed => left; exact ⟨k, hf, hm, hh, hk0, h0f⟩
    | enabledNew re up =>
      right
      simp only [step, reportedIds_append]
      exact List.mem_append.mpr (Or.inr (reported_of_fire (taken_of_covered s hinv.keys hnd hm hh hkf).1))
    | resumeReq up => left; exact ⟨k, hf, hm, hh, hk0, h0f⟩
    | resumed h re up =>
      right
      simp only [step, reportedIds_append]
      rcases kept_or_acked s hinv.keys hnd h hm with ⟨_, h2, _⟩ | ⟨_, h3⟩
      · exact List.mem_append.mpr (Or.inr (reported_of_fire h2))
      · have hk' := keysInv_kept s h hinv.keys
        have hnd' : (ids (keptPart h s.unacked)).Nodup := by
          have := (List.dropWhile_sublist (fun e : Nat × Nat => decide (e.1 ≤ h)) (l := s.unacked)).map Prod.snd
          exact this.nodup hnd
        have := (taken_of_covered { s with unacked := keptPart h s.unacked } hk' hnd' h3 hh hkf).1
        exact List.mem_append.mpr (Or.inl (List.mem_append.mpr (Or.inr (reported_of_fire this))))
    | resumeFailed h' =>
      left
      cases h' with
      | none => exact ⟨k, hf, hm, hh, hk0, h0f⟩
      | some n => exact ⟨k, n, hm, rfl, hk0, hop n rfl⟩
    | resetCache re up =>
      right
      simp only [step, reportedIds_append]
      exact List.mem_append.mpr (Or.inl (reported_of_fire (taken_of_covered s hinv.keys hnd hm hh hkf).1))

/-- … and so does every continuation of the history in which the server does not lower its count -/
theorem run_cov (post : List Op) : ∀ (s : St) (log : List Out), Inv s log → ∀ (p h0 : Nat), Cov s p h0 →
    (∀ h', Op.resumeFailed (some h') ∈ post → h0 ≤ h') → p ∉ pktsOf (run s post).2 := by
  induction post with
  | nil => intro s log _ p h0 _ _; simp [run]
  | cons op post ih =>
    intro s log hinv p h0 hc hpost
    rw [run_cons, pktsOf_append, List.mem_append]
    obtain ⟨h1, h2⟩ := step_cov s log hinv op p h0 hc (fun h' he => hpost h' (by rw [he]; simp))
    rintro (h | h)
    · exact h1 h
    · rcases h2 with h2 | h2
      · exact ih _ _ (hinv.step op) p h0 h2 (fun h' hm => hpost h' (by simp [hm])) h
      · exact run_pkts_not_reported post _ _ (hinv.step op) p
          (by rw [reportedIds_append]; exact List.mem_append.mpr (Or.inr h2)) h

end Qx.C09
