import Qx.Model.C09Sm
/-! Helper lemmas for C09 (property theorems live in Qx/Props/C09.lean). -/
namespace Qx.C09

/-! ### projections -/

theorem reportedIds_append (a b : List Out) : reportedIds (a ++ b) = reportedIds a ++ reportedIds b := by
  simp [reportedIds, List.filterMap_append]
theorem pktsOf_append (a b : List Out) : pktsOf (a ++ b) = pktsOf a ++ pktsOf b := by
  simp [pktsOf, List.filterMap_append]
theorem wireOf_append (a b : List Out) : wireOf (a ++ b) = wireOf a ++ wireOf b := by
  simp [wireOf, List.filterMap_append]

@[simp] theorem reportedIds_nil : reportedIds [] = [] := rfl
@[simp] theorem pktsOf_nil : pktsOf [] = [] := rfl
@[simp] theorem wireOf_nil : wireOf [] = [] := rfl
@[simp] theorem reportedIds_emit (up w) : reportedIds (emit up w) = [] := by
  unfold emit; split <;> simp [reportedIds]
@[simp] theorem reportedIds_reqOut (e up) : reportedIds (reqOut e up) = [] := by
  unfold reqOut; split <;> simp
@[simp] theorem reportedIds_written (b) : reportedIds [Out.written b] = [] := rfl
@[simp] theorem reportedIds_report (i r) (l : List Out) : reportedIds (.report i r :: l) = i :: reportedIds l := by
  simp [reportedIds]
@[simp] theorem reportedIds_resendOut (up l) : reportedIds (resendOut up l) = [] := by
  induction l with
  | nil => rfl
  | cons e t ih =>
    simp only [resendOut, List.flatMap_cons] at ih ⊢
    rw [reportedIds_append, ih]; simp
@[simp] theorem reportedIds_ackReports (l) : reportedIds (ackReports l) = ids l := by
  induction l with
  | nil => rfl
  | cons e t ih => simp only [ackReports, List.map_cons] at ih ⊢; simp [ih, ids]
theorem reportedIds_discReports (l : List (Nat × Nat)) :
    reportedIds (l.map fun e => Out.report e.2 Report.disconnected) = ids l := by
  induction l with
  | nil => rfl
  | cons e t ih => simp [ih, ids]

@[simp] theorem pktsOf_written (b) : pktsOf [Out.written b] = [] := rfl
@[simp] theorem pktsOf_report (i r) (l : List Out) : pktsOf (.report i r :: l) = pktsOf l := by
  simp [pktsOf]
@[simp] theorem pktsOf_written_cons (b) (l : List Out) : pktsOf (.written b :: l) = pktsOf l := by
  simp [pktsOf]
theorem pktsOf_emit_pkt (up i) : pktsOf (emit up (.pkt i)) = if up then [i] else [] := by
  unfold emit; split <;> simp [pktsOf]
@[simp] theorem pktsOf_emit_r (up) : pktsOf (emit up .r) = [] := by
  unfold emit; split <;> simp [pktsOf]
@[simp] theorem pktsOf_emit_a (up h) : pktsOf (emit up (.a h)) = [] := by
  unfold emit; split <;> simp [pktsOf]
@[simp] theorem pktsOf_emit_resume (up h) : pktsOf (emit up (.resume h)) = [] := by
  unfold emit; split <;> simp [pktsOf]
@[simp] theorem pktsOf_reqOut (e up) : pktsOf (reqOut e up) = [] := by
  unfold reqOut; split <;> simp
@[simp] theorem pktsOf_ackReports (l) : pktsOf (ackReports l) = [] := by
  induction l with
  | nil => rfl
  | cons e t ih => simp only [ackReports, List.map_cons] at ih ⊢; simp [ih]
theorem pktsOf_discReports (l : List (Nat × Nat)) :
    pktsOf (l.map fun e => Out.report e.2 Report.disconnected) = [] := by
  induction l with
  | nil => rfl
  | cons e t ih => simp [ih]
theorem pktsOf_resendOut (up l) : pktsOf (resendOut up l) = if up then ids l else [] := by
  induction l with
  | nil => simp [resendOut, ids]
  | cons e t ih =>
    simp only [resendOut, List.flatMap_cons] at ih ⊢
    rw [pktsOf_append, ih, pktsOf_emit_pkt]
    cases up <;> simp [ids]

/-! ### `run` -/

theorem run_append (s : St) (a b : List Op) :
    run s (a ++ b) = ((run (run s a).1 b).1, (run s a).2 ++ (run (run s a).1 b).2) := by
  induction a generalizing s with
  | nil => simp [run]
  | cons op a ih => simp [run, ih, List.append_assoc]

theorem run_cons (s : St) (op : Op) (ops : List Op) :
    run s (op :: ops) = ((run (step s op).1 ops).1, (step s op).2 ++ (run (step s op).1 ops).2) := rfl

/-- every output of a run is the output of one step, taken in the state the prefix leads to -/
theorem mem_run (s : St) (ops : List Op) (o : Out) :
    o ∈ (run s ops).2 ↔
      ∃ pre op post, ops = pre ++ op :: post ∧ o ∈ (step (run s pre).1 op).2 := by
  induction ops generalizing s with
  | nil => simp [run]
  | cons op ops ih =>
    rw [run_cons]
    simp only [List.mem_append]
    constructor
    · rintro (h | h)
      · exact ⟨[], op, ops, rfl, by simpa [run] using h⟩
      · obtain ⟨pre, op', post, he, hm⟩ := (ih _).mp h
        exact ⟨op :: pre, op', post, by simp [he], by simpa [run_cons] using hm⟩
    · rintro ⟨pre, op', post, he, hm⟩
      cases pre with
      | nil =>
        simp only [List.nil_append, List.cons.injEq] at he
        obtain ⟨h1, _⟩ := he
        subst h1
        left; simpa [run] using hm
      | cons p pre =>
        simp only [List.cons_append, List.cons.injEq] at he
        obtain ⟨h1, h2⟩ := he
        subst h1
        right
        exact (ih _).mpr ⟨pre, op', post, h2, by simpa [run_cons] using hm⟩

/-! ### sequence numbers -/

/-- the keys of `l` are `a, a+1, a+2, …` -/
def KeysFrom : Nat → List (Nat × Nat) → Prop
  | _, [] => True
  | a, e :: t => e.1 = a ∧ KeysFrom (a + 1) t

theorem KeysFrom.append {a : Nat} {l : List (Nat × Nat)} (h : KeysFrom a l) (x : Nat) :
    KeysFrom a (l ++ [(a + l.length, x)]) := by
  induction l generalizing a with
  | nil => simp [KeysFrom]
  | cons e t ih =>
    obtain ⟨h1, h2⟩ := h
    refine ⟨h1, ?_⟩
    have := ih h2
    simpa [Nat.add_assoc, Nat.add_comm 1] using this

theorem KeysFrom.keys_eq {a : Nat} {l : List (Nat × Nat)} (h : KeysFrom a l) :
    keys l = List.range' a l.length := by
  induction l generalizing a with
  | nil => rfl
  | cons e t ih =>
    obtain ⟨h1, h2⟩ := h
    simp only [keys, List.map_cons, List.length_cons, List.range'_succ, h1] at ih ⊢
    rw [ih h2]

theorem renumber_keysFrom (k : Nat) (l : List (Nat × Nat)) : KeysFrom (k + 1) (renumber k l) := by
  induction l generalizing k with
  | nil => trivial
  | cons e t ih => exact ⟨rfl, ih (k + 1)⟩

@[simp] theorem renumber_length (k : Nat) (l : List (Nat × Nat)) : (renumber k l).length = l.length := by
  induction l generalizing k with
  | nil => rfl
  | cons e t ih => simp [renumber, ih]

@[simp] theorem renumber_ids (k : Nat) (l : List (Nat × Nat)) : ids (renumber k l) = ids l := by
  induction l generalizing k with
  | nil => rfl
  | cons e t ih => simp only [ids, renumber, List.map_cons] at ih ⊢; rw [ih]

theorem acked_append_kept (h : Nat) (l : List (Nat × Nat)) : ackedPart h l ++ keptPart h l = l := by
  simp [ackedPart, keptPart]

theorem ids_acked_kept (h : Nat) (l : List (Nat × Nat)) :
    ids (ackedPart h l) ++ ids (keptPart h l) = ids l := by
  rw [ids, ids, ← List.map_append, acked_append_kept]; rfl

theorem mem_ackedPart {h : Nat} {l : List (Nat × Nat)} {e : Nat × Nat} (hm : e ∈ ackedPart h l) :
    e ∈ l ∧ e.1 ≤ h := by
  induction l with
  | nil => simp [ackedPart] at hm
  | cons x t ih =>
    simp only [ackedPart, List.takeWhile_cons] at hm ih
    split at hm
    · rename_i hx
      rcases List.mem_cons.mp hm with h1 | h1
      · subst h1; exact ⟨by simp, by simpa using hx⟩
      · have := ih h1; exact ⟨by simp [this.1], this.2⟩
    · simp at hm

theorem mem_keptPart {h : Nat} {l : List (Nat × Nat)} {e : Nat × Nat} (hm : e ∈ keptPart h l) : e ∈ l :=
  (List.dropWhile_sublist _).subset hm

theorem KeysFrom.all_gt {a h : Nat} {l : List (Nat × Nat)} (hk : KeysFrom a l) (hlt : h < a) :
    ∀ e ∈ l, h < e.1 := by
  induction l generalizing a with
  | nil => simp
  | cons x t ih =>
    obtain ⟨h1, h2⟩ := hk
    intro e he
    rcases List.mem_cons.mp he with h3 | h3
    · subst h3; omega
    · exact ih h2 (by omega) e h3

theorem filter_gt_self {h : Nat} {l : List (Nat × Nat)} (hall : ∀ e ∈ l, h < e.1) :
    l.filter (fun e => decide (h < e.1)) = l := by
  apply List.filter_eq_self.mpr
  intro e he; simpa using hall e he

theorem filter_le_nil {h : Nat} {l : List (Nat × Nat)} (hall : ∀ e ∈ l, h < e.1) :
    l.filter (fun e => decide (e.1 ≤ h)) = [] := by
  apply List.filter_eq_nil_iff.mpr
  intro e he
  have := hall e he
  simp; omega

/-- on a map with increasing keys, "erase from the front while key ≤ h" keeps exactly the entries with key > h -/
theorem KeysFrom.keptPart_eq_filter {a h : Nat} {l : List (Nat × Nat)} (hk : KeysFrom a l) :
    keptPart h l = l.filter (fun e => decide (h < e.1)) := by
  induction l generalizing a with
  | nil => rfl
  | cons x t ih =>
    obtain ⟨h1, h2⟩ := hk
    simp only [keptPart, List.dropWhile_cons, List.filter_cons] at ih ⊢
    by_cases hx : x.1 ≤ h
    · have : ¬ h < x.1 := by omega
      simp only [hx, decide_true, if_true, this, decide_false]
      exact ih h2
    · have hlt : h < x.1 := by omega
      simp only [hx, decide_false, hlt, decide_true, if_true]
      have := filter_gt_self (h2.all_gt (h := h) (by omega))
      simp [this]

/-- … and reports exactly the entries with key ≤ h -/
theorem KeysFrom.ackedPart_eq_filter {a h : Nat} {l : List (Nat × Nat)} (hk : KeysFrom a l) :
    ackedPart h l = l.filter (fun e => decide (e.1 ≤ h)) := by
  induction l generalizing a with
  | nil => rfl
  | cons x t ih =>
    obtain ⟨h1, h2⟩ := hk
    simp only [ackedPart, List.takeWhile_cons, List.filter_cons] at ih ⊢
    by_cases hx : x.1 ≤ h
    · simp only [hx, decide_true, if_true]
      rw [ih h2]
    · simp only [hx, decide_false]
      have := filter_le_nil (h2.all_gt (h := h) (by omega))
      simp [this]

theorem KeysFrom.keptPart {a : Nat} {l : List (Nat × Nat)} (hk : KeysFrom a l) (h : Nat) :
    ∃ a', a ≤ a' ∧ KeysFrom a' (keptPart h l) ∧ a' + (keptPart h l).length = a + l.length := by
  induction l generalizing a with
  | nil => exact ⟨a, Nat.le_refl _, trivial, rfl⟩
  | cons x t ih =>
    obtain ⟨h1, h2⟩ := hk
    by_cases hx : x.1 ≤ h
    · obtain ⟨a', ha, hk', hl⟩ := ih h2
      have e : Qx.C09.keptPart h (x :: t) = Qx.C09.keptPart h t := by
        simp [Qx.C09.keptPart, hx]
      rw [e]
      exact ⟨a', by omega, hk', by simp only [List.length_cons]; omega⟩
    · have e : Qx.C09.keptPart h (x :: t) = x :: t := by
        simp [Qx.C09.keptPart, hx]
      rw [e]
      exact ⟨a, Nat.le_refl _, ⟨h1, h2⟩, rfl⟩

/-! ### the bookkeeping invariant -/

/-- every packet id allocated so far is in exactly one of: the unacknowledged map, the report log -/
def pool (s : St) (log : List Out) : List Nat := ids s.unacked ++ reportedIds log

/-- 1 if `p` is an id allocated between `s` and `s'` -/
def fresh (s s' : St) (p : Nat) : Nat := if s.nextId ≤ p ∧ p < s'.nextId then 1 else 0

/-- counting form of one (possibly composite) transition: the ids it allocates occur exactly once
more among "stored or reported", the ids in `pending` (entries already taken out of the map, to be
reported by this transition) move into the report log, nothing else changes -/
structure Eff (s s' : St) (pending : List Nat) (out : List Out) : Prop where
  mono : s.nextId ≤ s'.nextId
  cnt : ∀ p, (ids s'.unacked).count p + (reportedIds out).count p
          = (ids s.unacked).count p + pending.count p + fresh s s' p

abbrev KeysInv (s : St) : Prop :=
  ∃ a, 1 ≤ a ∧ KeysFrom a s.unacked ∧ a + s.unacked.length = s.lastOut + 1

theorem fresh_self (s s' : St) (p : Nat) (h : s'.nextId = s.nextId) : fresh s s' p = 0 := by
  unfold fresh; split
  · omega
  · rfl

theorem Eff.same {s s' : St} {out : List Out} (hn : s'.nextId = s.nextId)
    (hu : ids s'.unacked = ids s.unacked) (hr : reportedIds out = []) : Eff s s' [] out :=
  ⟨by omega, by intro p; simp [hu, hr, fresh_self s s' p hn]⟩

theorem sendStep_nextId (s : St) (st up : Bool) : (sendStep s st up).1.nextId = s.nextId + 1 := by
  unfold sendStep; split <;> rfl

theorem sendStep_eff (s : St) (st up : Bool) : Eff s (sendStep s st up).1 [] (sendStep s st up).2 := by
  refine ⟨by rw [sendStep_nextId]; omega, ?_⟩
  intro p
  have hf : fresh s (sendStep s st up).1 p = if p = s.nextId then 1 else 0 := by
    unfold fresh; rw [sendStep_nextId]; split <;> split <;> omega
  rw [hf]
  unfold sendStep
  split
  · simp only [reportedIds_append, reportedIds_emit, reportedIds_written, List.append_nil, ids,
      List.map_append, List.map_cons, List.map_nil, List.count_append, List.count_nil,
      List.count_singleton]
    split <;> simp_all <;> omega
  · simp only [reportedIds_append, reportedIds_emit, reportedIds_report, reportedIds_written,
      List.nil_append, List.count_cons, List.count_nil]
    split <;> simp_all <;> omega

theorem sendStep_keys (s : St) (st up : Bool) (h : KeysInv s) : KeysInv (sendStep s st up).1 := by
  obtain ⟨a, ha, hk, hl⟩ := h
  unfold sendStep
  split
  · refine ⟨a, ha, ?_, by simp only [List.length_append, List.length_singleton]; omega⟩
    have e : s.lastOut + 1 = a + s.unacked.length := by omega
    simp only [e]
    exact hk.append _
  · exact ⟨a, ha, hk, hl⟩

theorem sendStep_enabled (s : St) (st up : Bool) : (sendStep s st up).1.enabled = s.enabled := by
  unfold sendStep; split <;> rfl
theorem sendStep_lastIn (s : St) (st up : Bool) : (sendStep s st up).1.lastIn = s.lastIn := by
  unfold sendStep; split <;> rfl
theorem sendStep_lastOut_le (s : St) (st up : Bool) : s.lastOut ≤ (sendStep s st up).1.lastOut := by
  unfold sendStep; split <;> simp

/-- what `send` does to the map: nothing, or one entry appended under the next number with the new id -/
theorem sendStep_unacked (s : St) (st up : Bool) :
    (sendStep s st up).1.unacked = s.unacked ∨
    ((sendStep s st up).1.unacked = s.unacked ++ [(s.lastOut + 1, s.nextId)] ∧
      (sendStep s st up).1.lastOut = s.lastOut + 1) := by
  unfold sendStep; split
  · exact Or.inr ⟨rfl, rfl⟩
  · exact Or.inl rfl

/-! #### firing reports with re-entrant continuations -/

theorem fireAcked_mono (re : List Nat) (up : Bool) (l : List (Nat × Nat)) : ∀ s : St,
    s.nextId ≤ (fireAcked re up s l).1.nextId ∧ s.lastOut ≤ (fireAcked re up s l).1.lastOut ∧
    (fireAcked re up s l).1.enabled = s.enabled ∧ (fireAcked re up s l).1.lastIn = s.lastIn := by
  induction l with
  | nil => intro s; exact ⟨Nat.le_refl _, Nat.le_refl _, rfl, rfl⟩
  | cons e t ih =>
    intro s
    simp only [fireAcked]
    split
    · obtain ⟨h1, h2, h3, h4⟩ := ih (sendStep s true up).1
      have := sendStep_nextId s true up
      have := sendStep_lastOut_le s true up
      exact ⟨by omega, by omega, by rw [h3, sendStep_enabled], by rw [h4, sendStep_lastIn]⟩
    · exact ih s

theorem fireAcked_eff (re : List Nat) (up : Bool) (l : List (Nat × Nat)) : ∀ s : St,
    Eff s (fireAcked re up s l).1 (ids l) (fireAcked re up s l).2 := by
  induction l with
  | nil => intro s; exact ⟨Nat.le_refl _, by intro p; simp [fireAcked, ids, fresh_self]⟩
  | cons e t ih =>
    intro s
    refine ⟨(fireAcked_mono re up (e :: t) s).1, ?_⟩
    intro p
    simp only [fireAcked]
    split
    · have h1 := (sendStep_eff s true up).cnt p
      have h2 := (ih (sendStep s true up).1).cnt p
      have m1 := (sendStep_eff s true up).mono
      have m2 := (ih (sendStep s true up).1).mono
      simp only [reportedIds_report, reportedIds_append, List.count_append, List.count_cons, ids,
        List.map_cons, List.count_nil, Nat.zero_add] at h1 h2 ⊢
      unfold fresh at h1 h2 ⊢
      split at h1 <;> split at h2 <;> split <;> split <;> omega
    · have h2 := (ih s).cnt p
      simp only [reportedIds_report, List.nil_append, List.count_cons, ids, List.map_cons] at h2 ⊢
      split <;> omega

theorem fireAcked_keys (re : List Nat) (up : Bool) (l : List (Nat × Nat)) : ∀ s : St,
    KeysInv s → KeysInv (fireAcked re up s l).1 := by
  induction l with
  | nil => intro s h; exact h
  | cons e t ih =>
    intro s h
    simp only [fireAcked]
    split
    · exact ih _ (sendStep_keys s true up h)
    · exact ih _ h

/-- the continuations only append: entries with numbers beyond `lastOut` and fresh ids -/
theorem fireAcked_unacked (re : List Nat) (up : Bool) (l : List (Nat × Nat)) : ∀ s : St,
    ∃ extra, (fireAcked re up s l).1.unacked = s.unacked ++ extra ∧
      ∀ e ∈ extra, s.lastOut < e.1 ∧ s.nextId ≤ e.2 ∧ e.2 < (fireAcked re up s l).1.nextId := by
  induction l with
  | nil => intro s; exact ⟨[], by simp [fireAcked], by simp⟩
  | cons e t ih =>
    intro s
    simp only [fireAcked]
    split
    · obtain ⟨extra, h1, h2⟩ := ih (sendStep s true up).1
      have hn := sendStep_nextId s true up
      have hm := (fireAcked_mono re up t (sendStep s true up).1).1
      rcases sendStep_unacked s true up with hu | ⟨hu, hl⟩
      · refine ⟨extra, by rw [h1, hu], ?_⟩
        intro x hx
        have := h2 x hx
        have := sendStep_lastOut_le s true up
        omega
      · refine ⟨(s.lastOut + 1, s.nextId) :: extra, by rw [h1, hu]; simp, ?_⟩
        intro x hx
        rcases List.mem_cons.mp hx with hx | hx
        · subst hx; simp only; omega
        · have := h2 x hx; omega
    · exact ih s

theorem fireAcked_pkts (re : List Nat) (up : Bool) (l : List (Nat × Nat)) : ∀ s : St,
    ∀ p ∈ pktsOf (fireAcked re up s l).2, s.nextId ≤ p ∧ p < (fireAcked re up s l).1.nextId := by
  induction l with
  | nil => intro s p hp; simp [fireAcked] at hp
  | cons e t ih =>
    intro s p hp
    simp only [fireAcked] at hp ⊢
    split at hp
    · rename_i hc
      simp only [hc, if_true]
      have hn := sendStep_nextId s true up
      have hm := (fireAcked_mono re up t (sendStep s true up).1).1
      simp only [pktsOf_report, pktsOf_append, List.mem_append] at hp
      rcases hp with hp | hp
      · have : p = s.nextId := by
          unfold sendStep at hp
          split at hp
          · simp only [pktsOf_append, pktsOf_emit_pkt, pktsOf_emit_r, pktsOf_written, List.append_nil] at hp
            split at hp <;> simp at hp
            exact hp
          · simp only [pktsOf_append, pktsOf_emit_pkt, pktsOf_report, pktsOf_written, List.append_nil] at hp
            split at hp <;> simp at hp
            exact hp
        omega
      · have := ih _ p hp; omega
    · rename_i hc
      simp only [hc]
      simp only [pktsOf_report, List.nil_append] at hp
      exact ih s p hp

theorem sendStep_not_acked (s : St) (st up : Bool) (p : Nat) : Out.report p .acked ∉ (sendStep s st up).2 := by
  unfold sendStep emit
  split <;> cases up <;> simp

theorem fireAcked_acked (re : List Nat) (up : Bool) (l : List (Nat × Nat)) : ∀ (s : St) (p : Nat),
    Out.report p .acked ∈ (fireAcked re up s l).2 → ∃ e ∈ l, e.2 = p := by
  induction l with
  | nil => intro s p hp; simp [fireAcked] at hp
  | cons e t ih =>
    intro s p hp
    simp only [fireAcked] at hp
    rcases List.mem_cons.mp hp with h | h
    · injection h with h1 _; exact ⟨e, by simp, h1.symm⟩
    · rcases List.mem_append.mp h with h | h
      · exfalso
        split at h
        · exact sendStep_not_acked _ _ _ _ h
        · simp at h
      · obtain ⟨x, hx, hp⟩ := ih _ p h
        exact ⟨x, by simp [hx], hp⟩

/-- the only things a continuation puts on the wire are a packet and `<r/>` -/
theorem sendStep_wire (s : St) (st up : Bool) (w : Wire) (h : Out.wire w ∈ (sendStep s st up).2) :
    (∃ i, w = .pkt i) ∨ w = .r := by
  unfold sendStep emit at h
  split at h <;> cases up <;> simp at h
  · rcases h with h | h
    · exact Or.inl ⟨_, h⟩
    · exact Or.inr h
  · exact Or.inl ⟨_, h⟩

theorem fireAcked_wire (re : List Nat) (up : Bool) (l : List (Nat × Nat)) : ∀ (s : St) (w : Wire),
    Out.wire w ∈ (fireAcked re up s l).2 → (∃ i, w = .pkt i) ∨ w = .r := by
  induction l with
  | nil => intro s w h; simp [fireAcked] at h
  | cons e t ih =>
    intro s w h
    simp only [fireAcked] at h
    rcases List.mem_cons.mp h with h | h
    · cases h
    · rcases List.mem_append.mp h with h | h
      · split at h
        · exact sendStep_wire _ _ _ _ h
        · simp at h
      · exact ih _ w h

theorem fireAcked_nil (up : Bool) (l : List (Nat × Nat)) (s : St) :
    fireAcked [] up s l = (s, ackReports l) := by
  induction l generalizing s with
  | nil => rfl
  | cons e t ih => simp [fireAcked, ih, ackReports]

theorem keptPart_idem (h : Nat) (l : List (Nat × Nat)) : keptPart h (keptPart h l) = keptPart h l := by
  induction l with
  | nil => rfl
  | cons x t ih =>
    by_cases hx : x.1 ≤ h
    · have e : keptPart h (x :: t) = keptPart h t := by simp [keptPart, hx]
      rw [e, ih]
    · have e : keptPart h (x :: t) = x :: t := by simp [keptPart, hx]
      rw [e, e]

theorem ackedPart_kept (h : Nat) (l : List (Nat × Nat)) : ackedPart h (keptPart h l) = [] := by
  induction l with
  | nil => rfl
  | cons x t ih =>
    by_cases hx : x.1 ≤ h
    · have e : keptPart h (x :: t) = keptPart h t := by simp [keptPart, hx]
      rw [e, ih]
    · have e : keptPart h (x :: t) = x :: t := by simp [keptPart, hx]
      rw [e]; simp [ackedPart, hx]

theorem ackPhase_nil (s : St) (h : Nat) (up : Bool) :
    ackPhase s h [] up =
      ({ s with unacked := keptPart h s.unacked }, ackReports (ackedPart h s.unacked)) := by
  simp [ackPhase, fireAcked_nil, keptPart_idem, ackedPart_kept, ackReports]

theorem keysInv_kept (s : St) (h : Nat) (hk : KeysInv s) :
    KeysInv { s with unacked := keptPart h s.unacked } := by
  obtain ⟨a, ha, hk, hl⟩ := hk
  obtain ⟨a', h1, h2, h3⟩ := hk.keptPart h
  exact ⟨a', by omega, h2, by simp only; omega⟩

theorem ackPhase_keys (s : St) (h : Nat) (re : List Nat) (up : Bool) (hk : KeysInv s) :
    KeysInv (ackPhase s h re up).1 := by
  unfold ackPhase
  exact keysInv_kept _ h (fireAcked_keys re up _ _ (keysInv_kept s h hk))

theorem ackPhase_mono (s : St) (h : Nat) (re : List Nat) (up : Bool) :
    s.nextId ≤ (ackPhase s h re up).1.nextId ∧ (ackPhase s h re up).1.enabled = s.enabled ∧
    (ackPhase s h re up).1.lastIn = s.lastIn := by
  unfold ackPhase
  obtain ⟨h1, _, h3, h4⟩ := fireAcked_mono re up (ackedPart h s.unacked) { s with unacked := keptPart h s.unacked }
  exact ⟨h1, h3, h4⟩

theorem ackPhase_eff (s : St) (h : Nat) (re : List Nat) (up : Bool) :
    Eff s (ackPhase s h re up).1 [] (ackPhase s h re up).2 := by
  refine ⟨(ackPhase_mono s h re up).1, ?_⟩
  intro p
  unfold ackPhase
  have h1 := (fireAcked_eff re up (ackedPart h s.unacked) { s with unacked := keptPart h s.unacked }).cnt p
  have h2 := congrArg (List.count p) (ids_acked_kept h s.unacked)
  have h3 := congrArg (List.count p) (ids_acked_kept h
    (fireAcked re up { s with unacked := keptPart h s.unacked } (ackedPart h s.unacked)).1.unacked)
  simp only [List.count_append] at h2 h3
  simp only [reportedIds_append, reportedIds_ackReports, List.count_append, List.count_nil] at h1 ⊢
  unfold fresh at h1 ⊢
  simp only at h1 ⊢
  split at h1 <;> split <;> omega

/-- entries of the map after the acknowledgement phase: old ones, or appended by a continuation -/
theorem ackPhase_unacked (s : St) (h : Nat) (re : List Nat) (up : Bool) :
    ∀ e ∈ (ackPhase s h re up).1.unacked,
      e ∈ s.unacked ∨ (s.lastOut < e.1 ∧ s.nextId ≤ e.2 ∧ e.2 < (ackPhase s h re up).1.nextId) := by
  intro e he
  unfold ackPhase at he ⊢
  obtain ⟨extra, h1, h2⟩ := fireAcked_unacked re up (ackedPart h s.unacked) { s with unacked := keptPart h s.unacked }
  have he' := mem_keptPart he
  rw [h1] at he'
  rcases List.mem_append.mp he' with h3 | h3
  · exact Or.inl (mem_keptPart h3)
  · exact Or.inr (h2 e h3)

theorem ackPhase_pkts (s : St) (h : Nat) (re : List Nat) (up : Bool) :
    ∀ p ∈ pktsOf (ackPhase s h re up).2, s.nextId ≤ p ∧ p < (ackPhase s h re up).1.nextId := by
  intro p hp
  unfold ackPhase at hp ⊢
  simp only [pktsOf_append, pktsOf_ackReports, List.append_nil] at hp
  exact fireAcked_pkts re up _ _ p hp

/-- "acknowledged" during the acknowledgement phase: a stored packet with number `≤ h`, or one a
continuation has just appended (number beyond `lastOut`, still `≤ h`) -/
theorem ackPhase_acked (s : St) (h : Nat) (re : List Nat) (up : Bool) (p : Nat)
    (hm : Out.report p .acked ∈ (ackPhase s h re up).2) :
    ∃ k, k ≤ h ∧ ((k, p) ∈ s.unacked ∨ (s.lastOut < k ∧ s.nextId ≤ p)) := by
  unfold ackPhase at hm
  rcases List.mem_append.mp hm with hm | hm
  · obtain ⟨e, he, hp⟩ := fireAcked_acked re up _ _ p hm
    have := mem_ackedPart he
    exact ⟨e.1, this.2, Or.inl (by rw [← hp]; exact this.1)⟩
  · simp only [ackReports, List.mem_map, Out.report.injEq] at hm
    obtain ⟨e, he, hp, _⟩ := hm
    have h1 := mem_ackedPart he
    obtain ⟨extra, h2, h3⟩ := fireAcked_unacked re up (ackedPart h s.unacked) { s with unacked := keptPart h s.unacked }
    have h4 := h1.1
    rw [h2] at h4
    rcases List.mem_append.mp h4 with h5 | h5
    · exact ⟨e.1, h1.2, Or.inl (by rw [← hp]; exact mem_keptPart h5)⟩
    · have := h3 e h5
      exact ⟨e.1, h1.2, Or.inr ⟨this.1, by rw [← hp]; exact this.2.1⟩⟩

theorem ackPhase_wire (s : St) (h : Nat) (re : List Nat) (up : Bool) (w : Wire)
    (hm : Out.wire w ∈ (ackPhase s h re up).2) : (∃ i, w = .pkt i) ∨ w = .r := by
  unfold ackPhase at hm
  rcases List.mem_append.mp hm with hm | hm
  · exact fireAcked_wire re up _ _ w hm
  · simp [ackReports] at hm

/-! #### one step -/

theorem reportedIds_resendBlockOut (up : Bool) (l : List (Nat × Nat)) :
    reportedIds (if l.isEmpty = true then [] else resendOut up l ++ reqOut true up) = [] := by
  split <;> simp [reportedIds_append]

theorem step_eff (s : St) (op : Op) : Eff s (step s op).1 [] (step s op).2 := by
  cases op with
  | send stanza up => exact sendStep_eff s stanza up
  | ack h =>
    simp only [step]
    split
    · refine ⟨Nat.le_refl _, ?_⟩
      intro p
      have h2 := congrArg (List.count p) (ids_acked_kept h s.unacked)
      simp only [List.count_append] at h2
      simp only [reportedIds_ackReports, List.count_nil]
      unfold fresh; simp only
      split <;> omega
    · exact Eff.same rfl rfl rfl
  | ackReq up =>
    simp only [step]
    exact Eff.same rfl rfl (by split <;> simp)
  | recv k =>
    simp only [step]
    split <;> exact Eff.same rfl rfl rfl
  | sessionClosed => exact Eff.same rfl rfl rfl
  | enabledNew up =>
    simp only [step]
    exact Eff.same rfl (by simp) (by split <;> simp [reportedIds_append])
  | resumeReq up => exact Eff.same rfl rfl (by simp [step])
  | resumed h up =>
    simp only [step]
    refine ⟨Nat.le_refl _, ?_⟩
    intro p
    have h2 := congrArg (List.count p) (ids_acked_kept h s.unacked)
    simp only [List.count_append] at h2
    simp only [reportedIds_append, reportedIds_ackReports, reportedIds_resendBlockOut, List.append_nil,
      List.count_nil]
    unfold fresh; simp only
    split <;> omega
  | resetCache =>
    simp only [step]
    refine ⟨Nat.le_refl _, ?_⟩
    intro p
    unfold fresh
    simp [reportedIds_discReports, ids]
  | ackRe h re up =>
    simp only [step]
    split
    · exact ackPhase_eff s h re up
    · exact Eff.same rfl rfl rfl
  | resumedRe h re up =>
    simp only [step]
    have e := ackPhase_eff s h re up
    refine ⟨e.mono, ?_⟩
    intro p
    have := e.cnt p
    simp only [reportedIds_append, reportedIds_resendBlockOut, List.append_nil] at this ⊢
    unfold fresh at this ⊢
    exact this
  | resumeFailed h => exact Eff.same rfl rfl rfl

theorem step_keys (s : St) (op : Op) (h : KeysInv s) : KeysInv (step s op).1 := by
  cases op with
  | send stanza up => exact sendStep_keys s stanza up h
  | ack h' =>
    simp only [step]
    split
    · exact keysInv_kept s h' h
    · exact h
  | ackReq up => exact h
  | recv k => simp only [step]; split <;> exact h
  | sessionClosed => exact h
  | enabledNew up =>
    exact ⟨1, Nat.le_refl _, renumber_keysFrom 0 _, by simp [step]; omega⟩
  | resumeReq up => exact h
  | resumed h' up => exact keysInv_kept s h' h
  | resetCache =>
    exact ⟨s.lastOut + 1, by omega, trivial, by simp [step]⟩
  | ackRe h' re up =>
    simp only [step]
    split
    · exact ackPhase_keys s h' re up h
    · exact h
  | resumedRe h' re up => exact ackPhase_keys s h' re up h
  | resumeFailed h' => exact h

structure Inv (s : St) (log : List Out) : Prop where
  keys : KeysInv s
  cnt : ∀ p, (pool s log).count p = if p < s.nextId then 1 else 0

theorem Inv.nodup {s : St} {log : List Out} (h : Inv s log) : (pool s log).Nodup := by
  apply List.nodup_iff_count.mpr
  intro p; rw [h.cnt]; split <;> omega

theorem Inv.lt {s : St} {log : List Out} (h : Inv s log) : ∀ p ∈ pool s log, p < s.nextId := by
  intro p hm
  have h1 := List.count_pos_iff.mpr hm
  rw [h.cnt] at h1
  split at h1
  · assumption
  · omega

theorem Inv.all {s : St} {log : List Out} (h : Inv s log) : ∀ p, p < s.nextId → p ∈ pool s log := by
  intro p hp
  apply List.count_pos_iff.mp
  rw [h.cnt]; simp [hp]

theorem Inv.init : Inv init [] :=
  ⟨⟨1, Nat.le_refl _, trivial, rfl⟩, by intro p; simp [pool, Qx.C09.init, ids]⟩

theorem Inv.step {s : St} {log : List Out} (h : Inv s log) (op : Op) :
    Inv (step s op).1 (log ++ (step s op).2) := by
  refine ⟨step_keys s op h.keys, ?_⟩
  intro p
  have e := step_eff s op
  have h1 := e.cnt p
  have h2 := h.cnt p
  have h3 := e.mono
  simp only [pool, reportedIds_append, List.count_append, List.count_nil] at h1 h2 ⊢
  unfold fresh at h1
  split at h1 <;> split at h2 <;> split <;> omega

theorem Inv.run {s : St} {log : List Out} (h : Inv s log) (ops : List Op) :
    Inv (run s ops).1 (log ++ (run s ops).2) := by
  induction ops generalizing s log with
  | nil => simpa [Qx.C09.run] using h
  | cons op ops ih =>
    simp only [Qx.C09.run]
    have := ih (h.step op)
    rwa [List.append_assoc] at this

theorem Inv.reachable (ops : List Op) :
    Inv (Qx.C09.run Qx.C09.init ops).1 (Qx.C09.run Qx.C09.init ops).2 := by
  simpa using Inv.init.run ops


/-! ### what may appear on the wire -/

theorem sendStep_pkts (s : St) (st up : Bool) : ∀ p ∈ pktsOf (sendStep s st up).2, p = s.nextId := by
  intro p hp
  unfold sendStep at hp
  split at hp
  · simp only [pktsOf_append, pktsOf_emit_pkt, pktsOf_emit_r, pktsOf_written, List.append_nil] at hp
    split at hp <;> simp at hp
    exact hp
  · simp only [pktsOf_append, pktsOf_emit_pkt, pktsOf_report, pktsOf_written, List.append_nil] at hp
    split at hp <;> simp at hp
    exact hp

/-- what a step writes is either a stored packet or one it has just created -/
theorem step_pkts (s : St) (op : Op) :
    ∀ p ∈ pktsOf (step s op).2, p ∈ ids s.unacked ∨ (s.nextId ≤ p ∧ p < (step s op).1.nextId) := by
  intro p hp
  cases op with
  | send stanza up =>
    have := sendStep_pkts s stanza up p hp
    have hn := sendStep_nextId s stanza up
    right; simp only [step]; omega
  | ack h =>
    simp only [step] at hp
    split at hp <;> simp at hp
  | ackReq up =>
    simp only [step] at hp
    split at hp <;> simp at hp
  | recv k => simp [step] at hp
  | sessionClosed => simp [step] at hp
  | enabledNew up =>
    simp only [step] at hp
    split at hp
    · simp at hp
    · simp only [pktsOf_append, pktsOf_resendOut, pktsOf_reqOut, List.append_nil] at hp
      split at hp
      · exact Or.inl hp
      · simp at hp
  | resumeReq up => simp [step] at hp
  | resumed h up =>
    simp only [step, pktsOf_append, pktsOf_ackReports, List.nil_append] at hp
    split at hp
    · simp at hp
    · simp only [pktsOf_append, pktsOf_resendOut, pktsOf_reqOut, List.append_nil] at hp
      split at hp
      · left
        simp only [ids, List.mem_map] at hp ⊢
        obtain ⟨e, he, hpe⟩ := hp
        exact ⟨e, mem_keptPart he, hpe⟩
      · simp at hp
  | resetCache =>
    simp only [step, pktsOf_discReports] at hp
    simp at hp
  | ackRe h re up =>
    simp only [step] at hp ⊢
    split at hp
    · rename_i he
      simp only [he, if_true]
      exact Or.inr (ackPhase_pkts s h re up p hp)
    · simp at hp
  | resumedRe h re up =>
    simp only [step, pktsOf_append] at hp ⊢
    rcases List.mem_append.mp hp with hp | hp
    · exact Or.inr (ackPhase_pkts s h re up p hp)
    · split at hp
      · simp at hp
      · simp only [pktsOf_append, pktsOf_resendOut, pktsOf_reqOut, List.append_nil] at hp
        split at hp
        · simp only [ids, List.mem_map] at hp
          obtain ⟨e, he, hpe⟩ := hp
          rcases ackPhase_unacked s h re up e he with h1 | h1
          · left; simp only [ids, List.mem_map]; exact ⟨e, h1, hpe⟩
          · right; rw [← hpe]; exact ⟨h1.2.1, h1.2.2⟩
        · simp at hp
  | resumeFailed h => simp [step] at hp

/-- a packet that has a report is never put on the wire again, whatever happens next -/
theorem run_pkts_not_reported (ops : List Op) : ∀ (s : St) (log : List Out), Inv s log →
    ∀ p ∈ reportedIds log, p ∉ pktsOf (run s ops).2 := by
  induction ops with
  | nil => intro s log _ p _; simp [run]
  | cons op ops ih =>
    intro s log hinv p hp
    rw [run_cons, pktsOf_append, List.mem_append]
    have hpool : p ∈ pool s log := List.mem_append.mpr (Or.inr hp)
    rintro (h | h)
    · rcases step_pkts s op p h with h1 | h1
      · have hnd := hinv.nodup
        simp only [pool, List.nodup_append] at hnd
        exact hnd.2.2 p h1 p hp rfl
      · have := hinv.lt p hpool; omega
    · refine ih _ _ (hinv.step op) p ?_ h
      rw [reportedIds_append]; exact List.mem_append.mpr (Or.inl hp)

/-! ### acknowledged reports -/

theorem not_acked_mem_emit (p up w) : Out.report p .acked ∉ emit up w := by
  unfold emit; split <;> simp

theorem mem_ackReports {p : Nat} {r : Report} {l : List (Nat × Nat)} (h : Out.report p r ∈ ackReports l) :
    r = .acked ∧ ∃ k, (k, p) ∈ l := by
  simp only [ackReports, List.mem_map, Out.report.injEq] at h
  obtain ⟨e, he, h1, h2⟩ := h
  exact ⟨h2.symm, e.1, by rw [← h1]; exact he⟩

theorem not_acked_mem_resend (p up l) : Out.report p .acked ∉ resendOut up l := by
  simp only [resendOut, List.mem_flatMap, not_exists, not_and]
  intro e _; exact not_acked_mem_emit p up _

theorem not_acked_mem_reqOut (p e up) : Out.report p .acked ∉ reqOut e up := by
  unfold reqOut; split
  · exact not_acked_mem_emit p up _
  · simp

/-- one step reports "acknowledged" only while processing `<a h/>` (stream management on) or
`<resumed h/>`, and only for a packet whose number is `≤ h`: one that was stored, or — with re-entrant
continuations and `h` beyond the last number used — one a continuation has just sent -/
theorem step_acked (s : St) (op : Op) (p : Nat) (hm : Out.report p .acked ∈ (step s op).2) :
    ∃ h k, op.ackH = some h ∧ (op.isA = true → s.enabled = true) ∧ k ≤ h ∧
      ((k, p) ∈ s.unacked ∨ (s.lastOut < k ∧ s.nextId ≤ p)) := by
  cases op with
  | send stanza up => exact absurd hm (sendStep_not_acked s stanza up p)
  | ack h =>
    simp only [step] at hm
    split at hm
    · rename_i hen
      simp only [ackReports, List.mem_map, Out.report.injEq] at hm
      obtain ⟨e, he, h1, _⟩ := hm
      have := mem_ackedPart he
      exact ⟨h, e.1, rfl, fun _ => hen, this.2, Or.inl (by rw [← h1]; exact this.1)⟩
    · simp at hm
  | ackReq up =>
    exfalso
    simp only [step] at hm
    split at hm
    · exact not_acked_mem_emit _ _ _ hm
    · simp at hm
  | recv k => simp [step] at hm
  | sessionClosed => simp [step] at hm
  | enabledNew up =>
    exfalso
    simp only [step] at hm
    split at hm
    · simp at hm
    · rcases List.mem_append.mp hm with h | h
      · exact not_acked_mem_resend _ _ _ h
      · exact not_acked_mem_reqOut _ _ _ h
  | resumeReq up =>
    exfalso
    simp only [step] at hm
    exact not_acked_mem_emit _ _ _ hm
  | resumed h up =>
    simp only [step] at hm
    rcases List.mem_append.mp hm with hm | hm
    · simp only [ackReports, List.mem_map, Out.report.injEq] at hm
      obtain ⟨e, he, h1, _⟩ := hm
      have := mem_ackedPart he
      exact ⟨h, e.1, rfl, by simp [Op.isA], this.2, Or.inl (by rw [← h1]; exact this.1)⟩
    · exfalso
      split at hm
      · simp at hm
      · rcases List.mem_append.mp hm with h | h
        · exact not_acked_mem_resend _ _ _ h
        · exact not_acked_mem_reqOut _ _ _ h
  | resetCache =>
    exfalso
    simp [step] at hm
  | ackRe h re up =>
    simp only [step] at hm
    split at hm
    · rename_i hen
      obtain ⟨k, h1, h2⟩ := ackPhase_acked s h re up p hm
      exact ⟨h, k, rfl, fun _ => hen, h1, h2⟩
    · simp at hm
  | resumedRe h re up =>
    simp only [step] at hm
    rcases List.mem_append.mp hm with hm | hm
    · obtain ⟨k, h1, h2⟩ := ackPhase_acked s h re up p hm
      exact ⟨h, k, rfl, by simp [Op.isA], h1, h2⟩
    · exfalso
      split at hm
      · simp at hm
      · rcases List.mem_append.mp hm with h | h
        · exact not_acked_mem_resend _ _ _ h
        · exact not_acked_mem_reqOut _ _ _ h
  | resumeFailed h => simp [step] at hm

/-! ### the inbound counter -/

theorem step_sessionCount (s : St) (c : Bool × Nat) (op : Op)
    (h1 : c.1 = s.enabled) (h2 : s.lastIn = c.2) :
    (sessionCountStep c op).1 = (step s op).1.enabled ∧
      (step s op).1.lastIn = (sessionCountStep c op).2 := by
  cases op with
  | send stanza up =>
    simp only [step, sessionCountStep, sendStep_enabled, sendStep_lastIn]; exact ⟨h1, h2⟩
  | ack h => simp only [step, sessionCountStep]; split <;> exact ⟨h1, h2⟩
  | ackReq up => exact ⟨h1, h2⟩
  | recv k =>
    simp only [step, sessionCountStep]
    rw [h1]
    split
    · exact ⟨rfl, by simp only; omega⟩
    · exact ⟨h1, h2⟩
  | sessionClosed => exact ⟨rfl, h2⟩
  | enabledNew up => exact ⟨rfl, rfl⟩
  | resumeReq up => exact ⟨h1, h2⟩
  | resumed h up => exact ⟨rfl, h2⟩
  | resetCache => exact ⟨h1, h2⟩
  | ackRe h re up =>
    simp only [step, sessionCountStep]
    split
    · have := ackPhase_mono s h re up
      exact ⟨by rw [this.2.1]; exact h1, by rw [this.2.2]; exact h2⟩
    · exact ⟨h1, h2⟩
  | resumedRe h re up =>
    simp only [step, sessionCountStep]
    have := ackPhase_mono s h re up
    exact ⟨trivial, by rw [this.2.2]; exact h2⟩
  | resumeFailed h => exact ⟨h1, h2⟩

theorem run_sessionCount (ops : List Op) : ∀ (s : St) (c : Bool × Nat),
    c.1 = s.enabled → s.lastIn = c.2 →
    (ops.foldl sessionCountStep c).1 = (run s ops).1.enabled ∧
      (run s ops).1.lastIn = (ops.foldl sessionCountStep c).2 := by
  induction ops with
  | nil => intro s c h1 h2; exact ⟨h1, h2⟩
  | cons op ops ih =>
    intro s c h1 h2
    obtain ⟨h3, h4⟩ := step_sessionCount s c op h1 h2
    exact ih _ _ h3 h4

/-! ### what a step puts on the wire that carries a counter -/

theorem resendBlockOut_wire (up : Bool) (l : List (Nat × Nat)) (w : Wire)
    (hm : Out.wire w ∈ (if l.isEmpty = true then [] else resendOut up l ++ reqOut true up)) :
    (∃ i, w = .pkt i) ∨ w = .r := by
  split at hm
  · simp at hm
  · simp only [resendOut, reqOut, emit, List.mem_append, List.mem_flatMap] at hm
    rcases hm with ⟨e, _, hm⟩ | hm
    · cases up <;> simp at hm
      exact Or.inl ⟨_, hm⟩
    · cases up <;> simp at hm
      exact Or.inr hm

theorem step_wire_a (s : St) (op : Op) (k : Nat) (hm : Out.wire (.a k) ∈ (step s op).2) :
    k = s.lastIn ∧ s.enabled = true ∧ op = .ackReq true := by
  cases op with
  | send stanza up =>
    rcases sendStep_wire s stanza up _ hm with ⟨i, h⟩ | h <;> cases h
  | ack h => simp only [step, ackReports] at hm; split at hm <;> simp at hm
  | ackReq up =>
    simp only [step, emit] at hm
    split at hm
    · rename_i he
      cases up <;> simp at hm
      exact ⟨hm, he, rfl⟩
    · simp at hm
  | recv kd => simp [step] at hm
  | sessionClosed => simp [step] at hm
  | enabledNew up =>
    simp only [step, resendOut, reqOut, emit] at hm
    split at hm <;> cases up <;> simp at hm
  | resumeReq up => simp only [step, emit] at hm; cases up <;> simp at hm
  | resumed h up =>
    simp only [step, resendOut, reqOut, emit, ackReports] at hm
    rcases List.mem_append.mp hm with hm | hm
    · simp at hm
    · split at hm <;> cases up <;> simp at hm
  | resetCache => simp [step] at hm
  | ackRe h re up =>
    simp only [step] at hm
    split at hm
    · rcases ackPhase_wire s h re up _ hm with ⟨i, h⟩ | h <;> cases h
    · simp at hm
  | resumedRe h re up =>
    simp only [step] at hm
    rcases List.mem_append.mp hm with hm | hm
    · rcases ackPhase_wire s h re up _ hm with ⟨i, h⟩ | h <;> cases h
    · rcases resendBlockOut_wire up _ _ hm with ⟨i, h⟩ | h <;> cases h
  | resumeFailed h => simp [step] at hm

theorem step_wire_resume (s : St) (op : Op) (k : Nat) (hm : Out.wire (.resume k) ∈ (step s op).2) :
    k = s.lastIn ∧ op = .resumeReq true := by
  cases op with
  | send stanza up =>
    rcases sendStep_wire s stanza up _ hm with ⟨i, h⟩ | h <;> cases h
  | ack h => simp only [step, ackReports] at hm; split at hm <;> simp at hm
  | ackReq up =>
    simp only [step, emit] at hm
    split at hm <;> cases up <;> simp at hm
  | recv kd => simp [step] at hm
  | sessionClosed => simp [step] at hm
  | enabledNew up =>
    simp only [step, resendOut, reqOut, emit] at hm
    split at hm <;> cases up <;> simp at hm
  | resumeReq up =>
    simp only [step, emit] at hm
    cases up <;> simp at hm
    exact ⟨hm, rfl⟩
  | resumed h up =>
    simp only [step, resendOut, reqOut, emit, ackReports] at hm
    rcases List.mem_append.mp hm with hm | hm
    · simp at hm
    · split at hm <;> cases up <;> simp at hm
  | resetCache => simp [step] at hm
  | ackRe h re up =>
    simp only [step] at hm
    split at hm
    · rcases ackPhase_wire s h re up _ hm with ⟨i, h⟩ | h <;> cases h
    · simp at hm
  | resumedRe h re up =>
    simp only [step] at hm
    rcases List.mem_append.mp hm with hm | hm
    · rcases ackPhase_wire s h re up _ hm with ⟨i, h⟩ | h <;> cases h
    · rcases resendBlockOut_wire up _ _ hm with ⟨i, h⟩ | h <;> cases h
  | resumeFailed h => simp [step] at hm

/-- without re-entrant continuations the new operations are the old ones -/
theorem step_ackRe_nil (s : St) (h : Nat) (up : Bool) : step s (.ackRe h [] up) = step s (.ack h) := by
  simp only [step, ackPhase_nil]

theorem step_resumedRe_nil (s : St) (h : Nat) (up : Bool) :
    step s (.resumedRe h [] up) = step s (.resumed h up) := by
  simp only [step, ackPhase_nil]

/-! ### renumbering -/

theorem renumber_eq_zip (k : Nat) (l : List (Nat × Nat)) :
    renumber k l = (List.range' (k + 1) l.length).zip (ids l) := by
  induction l generalizing k with
  | nil => rfl
  | cons e t ih => simp [renumber, ih, ids, List.range'_succ]


/-! ### wire projection of the resend block -/

@[simp] theorem wireOf_ackReports (l) : wireOf (ackReports l) = [] := by
  induction l with
  | nil => rfl
  | cons e t ih => simp only [ackReports, List.map_cons] at ih ⊢; simp [wireOf] at ih ⊢

theorem wireOf_resendOut_up (l : List (Nat × Nat)) :
    wireOf (resendOut true l) = l.map fun e => Wire.pkt e.2 := by
  induction l with
  | nil => rfl
  | cons e t ih =>
    simp only [resendOut, List.flatMap_cons] at ih ⊢
    rw [wireOf_append, ih]; simp [emit, wireOf]

theorem wireOf_resendOut_down (l : List (Nat × Nat)) : wireOf (resendOut false l) = [] := by
  induction l with
  | nil => rfl
  | cons e t ih =>
    simp only [resendOut, List.flatMap_cons] at ih ⊢
    rw [wireOf_append, ih]; simp [emit]

theorem wireOf_step_resumed_up (s : St) (h : Nat) :
    wireOf (step s (.resumed h true)).2 = resendBlock (keptPart h s.unacked) := by
  simp only [step, wireOf_append, wireOf_ackReports, List.nil_append, resendBlock]
  split
  · rfl
  · rw [wireOf_append, wireOf_resendOut_up]; simp [reqOut, emit, wireOf]

theorem wireOf_step_enabledNew_up (s : St) :
    wireOf (step s (.enabledNew true)).2 = resendBlock s.unacked := by
  simp only [step, resendBlock]
  split
  · rfl
  · rw [wireOf_append, wireOf_resendOut_up]; simp [reqOut, emit, wireOf]

theorem wireOf_step_resumed_down (s : St) (h : Nat) : wireOf (step s (.resumed h false)).2 = [] := by
  simp only [step, wireOf_append, wireOf_ackReports, List.nil_append]
  split
  · rfl
  · rw [wireOf_append, wireOf_resendOut_down]; simp [reqOut, emit]

theorem wireOf_step_enabledNew_down (s : St) : wireOf (step s (.enabledNew false)).2 = [] := by
  simp only [step]
  split
  · rfl
  · rw [wireOf_append, wireOf_resendOut_down]; simp [reqOut, emit]


/-! ### consequences of the key invariant, for an arbitrary state -/

theorem keys_facts (s : St)
    (h : ∃ a, 1 ≤ a ∧ KeysFrom a s.unacked ∧ a + s.unacked.length = s.lastOut + 1) :
    s.unacked.length ≤ s.lastOut ∧
    keys s.unacked = List.range' (s.lastOut + 1 - s.unacked.length) s.unacked.length ∧
    (keys s.unacked).Pairwise (· < ·) ∧
    ∀ k ∈ keys s.unacked, 1 ≤ k ∧ k ≤ s.lastOut := by
  obtain ⟨a, ha, hk, hl⟩ := h
  have e : s.lastOut + 1 - s.unacked.length = a := by omega
  have hkeys : keys s.unacked = List.range' a s.unacked.length := hk.keys_eq
  refine ⟨by omega, by rw [e]; exact hkeys, ?_, ?_⟩
  · rw [hkeys]; exact List.pairwise_lt_range'
  · intro k hm
    rw [hkeys, List.mem_range'_1] at hm
    omega

theorem ids_nodup_unique {l : List (Nat × Nat)} (hnd : (ids l).Nodup) {k₁ k₂ p : Nat}
    (h1 : (k₁, p) ∈ l) (h2 : (k₂, p) ∈ l) : k₁ = k₂ := by
  induction l with
  | nil => cases h1
  | cons e t ih =>
    simp only [ids, List.map_cons, List.nodup_cons, List.mem_map, not_exists, not_and] at hnd
    rcases List.mem_cons.mp h1 with a1 | a1 <;> rcases List.mem_cons.mp h2 with a2 | a2
    · rw [← a1] at a2; exact (Prod.mk.inj a2).1.symm ▸ rfl
    · exact absurd (by rw [← a1]) (hnd.1 _ a2)
    · exact absurd (by rw [← a2]) (hnd.1 _ a1)
    · exact ih hnd.2 a1 a2


/-! ### re-entrant continuations: when they change nothing, and what they do at the `<a/>` site -/

theorem fireAcked_none (re : List Nat) (up : Bool) (l : List (Nat × Nat)) (s : St)
    (hn : ∀ e ∈ l, re.contains e.2 = false) : fireAcked re up s l = (s, ackReports l) := by
  induction l generalizing s with
  | nil => rfl
  | cons e t ih =>
    have h1 := hn e (by simp)
    simp only [fireAcked, h1, Bool.false_eq_true, if_false, List.nil_append]
    rw [ih s (fun x hx => hn x (by simp [hx]))]
    simp [ackReports]

theorem ackPhase_none (s : St) (h : Nat) (re : List Nat) (up : Bool)
    (hn : ∀ e ∈ s.unacked, e.1 ≤ h → re.contains e.2 = false) :
    ackPhase s h re up =
      ({ s with unacked := keptPart h s.unacked }, ackReports (ackedPart h s.unacked)) := by
  have h1 : ∀ e ∈ ackedPart h s.unacked, re.contains e.2 = false := by
    intro e he; have := mem_ackedPart he; exact hn e this.1 this.2
  simp [ackPhase, fireAcked_none re up _ _ h1, keptPart_idem, ackedPart_kept, ackReports]

theorem step_resumedRe_none (s : St) (h : Nat) (re : List Nat) (up : Bool)
    (hn : ∀ e ∈ s.unacked, e.1 ≤ h → re.contains e.2 = false) :
    step s (.resumedRe h re up) = step s (.resumed h up) := by
  simp only [step, ackPhase_none s h re up hn]

/-- with stream management on, whatever the continuations write is stored when they are done -/
theorem fireAcked_stored (re : List Nat) (up : Bool) (l : List (Nat × Nat)) : ∀ s : St,
    s.enabled = true → ∀ p ∈ pktsOf (fireAcked re up s l).2, p ∈ ids (fireAcked re up s l).1.unacked := by
  induction l with
  | nil => intro s _ p hp; simp [fireAcked] at hp
  | cons e t ih =>
    intro s hen p hp
    simp only [fireAcked] at hp ⊢
    split at hp
    · rename_i hc
      simp only [hc, if_true]
      simp only [pktsOf_report, pktsOf_append, List.mem_append] at hp
      rcases hp with hp | hp
      · have hp' := sendStep_pkts s true up p hp
        obtain ⟨extra, h1, _⟩ := fireAcked_unacked re up t (sendStep s true up).1
        rw [h1]
        have : (sendStep s true up).1.unacked = s.unacked ++ [(s.lastOut + 1, s.nextId)] := by
          simp [sendStep, hen]
        rw [this, hp']
        simp [ids]
      · exact ih _ (by rw [sendStep_enabled]; exact hen) p hp
    · rename_i hc
      simp only [hc]
      simp only [pktsOf_report, List.nil_append] at hp
      exact ih s hen p hp

theorem ackPhase_stored (s : St) (h : Nat) (re : List Nat) (up : Bool) (hen : s.enabled = true) :
    ∀ p ∈ pktsOf (ackPhase s h re up).2,
      p ∈ ids (ackPhase s h re up).1.unacked ∨ Out.report p .acked ∈ (ackPhase s h re up).2 := by
  intro p hp
  unfold ackPhase at hp ⊢
  simp only [pktsOf_append, pktsOf_ackReports, List.append_nil] at hp
  have h1 := fireAcked_stored re up (ackedPart h s.unacked) { s with unacked := keptPart h s.unacked } hen p hp
  simp only [ids, List.mem_map] at h1
  obtain ⟨e, he, hpe⟩ := h1
  have hsplit := acked_append_kept h
    (fireAcked re up { s with unacked := keptPart h s.unacked } (ackedPart h s.unacked)).1.unacked
  rw [← hsplit] at he
  rcases List.mem_append.mp he with he | he
  · right
    apply List.mem_append.mpr; right
    simp only [ackReports, List.mem_map]
    exact ⟨e, he, by rw [hpe]⟩
  · left
    simp only [ids, List.mem_map]
    exact ⟨e, he, hpe⟩

end Qx.C09
