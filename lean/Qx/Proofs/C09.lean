import Qx.Model.C09Sm
/-! Helper lemmas for C09 (property theorems live in Qx/Props/C09.lean). -/
namespace Qx.C09

/-! ### projections -/

theorem reportedIds_append (a b : List Out) : reportedIds (a ++ b) = reportedIds a ++ reportedIds b := by
  simp [reportedIds, List.filterMap_append]
theorem pktsOf_append (a b : List Out) : pktsOf (a ++ b) = pktsOf a ++ pktsOf b := by
  simp [pktsOf, List.filterMap_append]
theorem wireOf_append (a b : List Out) : wireOf (a ++ b) = wireOf a ++ wireOf b := by
  simp [wireOf, List.filterMap_append]

@[simp] theorem reportedIds_nil : reportedIds [] = [] := rfl
@[simp] theorem pktsOf_nil : pktsOf [] = [] := rfl
@[simp] theorem wireOf_nil : wireOf [] = [] := rfl
@[simp] theorem reportedIds_emit (up w) : reportedIds (emit up w) = [] := by
  unfold emit; split <;> simp [reportedIds]
@[simp] theorem reportedIds_reqOut (e up) : reportedIds (reqOut e up) = [] := by
  unfold reqOut; split <;> simp
@[simp] theorem reportedIds_written (b) : reportedIds [Out.written b] = [] := rfl
@[simp] theorem reportedIds_report (i r) (l : List Out) : reportedIds (.report i r :: l) = i :: reportedIds l := by
  simp [reportedIds]
@[simp] theorem reportedIds_resendOut (up l) : reportedIds (resendOut up l) = [] := by
  induction l with
  | nil => rfl
  | cons e t ih =>
    simp only [resendOut, List.flatMap_cons] at ih ⊢
    rw [reportedIds_append, ih]; simp
@[simp] theorem reportedIds_ackReports (l) : reportedIds (ackReports l) = ids l := by
  induction l with
  | nil => rfl
  | cons e t ih => simp only [ackReports, List.map_cons] at ih ⊢; simp [ih, ids]
theorem reportedIds_discReports (l : List (Nat × Nat)) :
    reportedIds (l.map fun e => Out.report e.2 Report.disconnected) = ids l := by
  induction l with
  | nil => rfl
  | cons e t ih => simp [ih, ids]

@[simp] theorem pktsOf_written (b) : pktsOf [Out.written b] = [] := rfl
@[simp] theorem pktsOf_report (i r) (l : List Out) : pktsOf (.report i r :: l) = pktsOf l := by
  simp [pktsOf]
@[simp] theorem pktsOf_written_cons (b) (l : List Out) : pktsOf (.written b :: l) = pktsOf l := by
  simp [pktsOf]
theorem pktsOf_emit_pkt (up i) : pktsOf (emit up (.pkt i)) = if up then [i] else [] := by
  unfold emit; split <;> simp [pktsOf]
@[simp] theorem pktsOf_emit_r (up) : pktsOf (emit up .r) = [] := by
  unfold emit; split <;> simp [pktsOf]
@[simp] theorem pktsOf_emit_a (up h) : pktsOf (emit up (.a h)) = [] := by
  unfold emit; split <;> simp [pktsOf]
@[simp] theorem pktsOf_emit_resume (up h) : pktsOf (emit up (.resume h)) = [] := by
  unfold emit; split <;> simp [pktsOf]
@[simp] theorem pktsOf_reqOut (e up) : pktsOf (reqOut e up) = [] := by
  unfold reqOut; split <;> simp
@[simp] theorem pktsOf_ackReports (l) : pktsOf (ackReports l) = [] := by
  induction l with
  | nil => rfl
  | cons e t ih => simp only [ackReports, List.map_cons] at ih ⊢; simp [ih]
theorem pktsOf_discReports (l : List (Nat × Nat)) :
    pktsOf (l.map fun e => Out.report e.2 Report.disconnected) = [] := by
  induction l with
  | nil => rfl
  | cons e t ih => simp [ih]
theorem pktsOf_resendOut (up l) : pktsOf (resendOut up l) = if up then ids l else [] := by
  induction l with
  | nil => simp [resendOut, ids]
  | cons e t ih =>
    simp only [resendOut, List.flatMap_cons] at ih ⊢
    rw [pktsOf_append, ih, pktsOf_emit_pkt]
    cases up <;> simp [ids]

/-! ### `run` -/

theorem run_append (s : St) (a b : List Op) :
    run s (a ++ b) = ((run (run s a).1 b).1, (run s a).2 ++ (run (run s a).1 b).2) := by
  induction a generalizing s with
  | nil => simp [run]
  | cons op a ih => simp [run, ih, List.append_assoc]

theorem run_cons (s : St) (op : Op) (ops : List Op) :
    run s (op :: ops) = ((run (step s op).1 ops).1, (step s op).2 ++ (run (step s op).1 ops).2) := rfl

/-- every output of a run is the output of one step, taken in the state the prefix leads to -/
theorem mem_run (s : St) (ops : List Op) (o : Out) :
    o ∈ (run s ops).2 ↔
      ∃ pre op post, ops = pre ++ op :: post ∧ o ∈ (step (run s pre).1 op).2 := by
  induction ops generalizing s with
  | nil => simp [run]
  | cons op ops ih =>
    rw [run_cons]
    simp only [List.mem_append]
    constructor
    · rintro (h | h)
      · exact ⟨[], op, ops, rfl, by simpa [run] using h⟩
      · obtain ⟨pre, op', post, he, hm⟩ := (ih _).mp h
        exact ⟨op :: pre, op', post, by simp [he], by simpa [run_cons] using hm⟩
    · rintro ⟨pre, op', post, he, hm⟩
      cases pre with
      | nil =>
        simp only [List.nil_append, List.cons.injEq] at he
        obtain ⟨h1, _⟩ := he
        subst h1
        left; simpa [run] using hm
      | cons p pre =>
        simp only [List.cons_append, List.cons.injEq] at he
        obtain ⟨h1, h2⟩ := he
        subst h1
        right
        exact (ih _).mpr ⟨pre, op', post, h2, by simpa [run_cons] using hm⟩

/-! ### sequence numbers -/

/-- the keys of `l` are `a, a+1, a+2, …` -/
def KeysFrom : Nat → List (Nat × Nat) → Prop
  | _, [] => True
  | a, e :: t => e.1 = a ∧ KeysFrom (a + 1) t

theorem KeysFrom.append {a : Nat} {l : List (Nat × Nat)} (h : KeysFrom a l) (x : Nat) :
    KeysFrom a (l ++ [(a + l.length, x)]) := by
  induction l generalizing a with
  | nil => simp [KeysFrom]
  | cons e t ih =>
    obtain ⟨h1, h2⟩ := h
    refine ⟨h1, ?_⟩
    have := ih h2
    simpa [Nat.add_assoc, Nat.add_comm 1] using this

theorem KeysFrom.keys_eq {a : Nat} {l : List (Nat × Nat)} (h : KeysFrom a l) :
    keys l = List.range' a l.length := by
  induction l generalizing a with
  | nil => rfl
  | cons e t ih =>
    obtain ⟨h1, h2⟩ := h
    simp only [keys, List.map_cons, List.length_cons, List.range'_succ, h1] at ih ⊢
    rw [ih h2]

theorem renumber_keysFrom (k : Nat) (l : List (Nat × Nat)) : KeysFrom (k + 1) (renumber k l) := by
  induction l generalizing k with
  | nil => trivial
  | cons e t ih => exact ⟨rfl, ih (k + 1)⟩

@[simp] theorem renumber_length (k : Nat) (l : List (Nat × Nat)) : (renumber k l).length = l.length := by
  induction l generalizing k with
  | nil => rfl
  | cons e t ih => simp [renumber, ih]

@[simp] theorem renumber_ids (k : Nat) (l : List (Nat × Nat)) : ids (renumber k l) = ids l := by
  induction l generalizing k with
  | nil => rfl
  | cons e t ih => simp only [ids, renumber, List.map_cons] at ih ⊢; rw [ih]

theorem acked_append_kept (h : Nat) (l : List (Nat × Nat)) : ackedPart h l ++ keptPart h l = l := by
  simp [ackedPart, keptPart]

theorem ids_acked_kept (h : Nat) (l : List (Nat × Nat)) :
    ids (ackedPart h l) ++ ids (keptPart h l) = ids l := by
  rw [ids, ids, ← List.map_append, acked_append_kept]; rfl

theorem mem_ackedPart {h : Nat} {l : List (Nat × Nat)} {e : Nat × Nat} (hm : e ∈ ackedPart h l) :
    e ∈ l ∧ e.1 ≤ h := by
  induction l with
  | nil => simp [ackedPart] at hm
  | cons x t ih =>
    simp only [ackedPart, List.takeWhile_cons] at hm ih
    split at hm
    · rename_i hx
      rcases List.mem_cons.mp hm with h1 | h1
      · subst h1; exact ⟨by simp, by simpa using hx⟩
      · have := ih h1; exact ⟨by simp [this.1], this.2⟩
    · simp at hm

theorem mem_keptPart {h : Nat} {l : List (Nat × Nat)} {e : Nat × Nat} (hm : e ∈ keptPart h l) : e ∈ l :=
  (List.dropWhile_sublist _).subset hm

theorem KeysFrom.all_gt {a h : Nat} {l : List (Nat × Nat)} (hk : KeysFrom a l) (hlt : h < a) :
    ∀ e ∈ l, h < e.1 := by
  induction l generalizing a with
  | nil => simp
  | cons x t ih =>
    obtain ⟨h1, h2⟩ := hk
    intro e he
    rcases List.mem_cons.mp he with h3 | h3
    · subst h3; omega
    · exact ih h2 (by omega) e h3

theorem filter_gt_self {h : Nat} {l : List (Nat × Nat)} (hall : ∀ e ∈ l, h < e.1) :
    l.filter (fun e => decide (h < e.1)) = l := by
  apply List.filter_eq_self.mpr
  intro e he; simpa using hall e he

theorem filter_le_nil {h : Nat} {l : List (Nat × Nat)} (hall : ∀ e ∈ l, h < e.1) :
    l.filter (fun e => decide (e.1 ≤ h)) = [] := by
  apply List.filter_eq_nil_iff.mpr
  intro e he
  have := hall e he
  simp; omega

/-- on a map with increasing keys, "erase from the front while key ≤ h" keeps exactly the entries with key > h -/
theorem KeysFrom.keptPart_eq_filter {a h : Nat} {l : List (Nat × Nat)} (hk : KeysFrom a l) :
    keptPart h l = l.filter (fun e => decide (h < e.1)) := by
  induction l generalizing a with
  | nil => rfl
  | cons x t ih =>
    obtain ⟨h1, h2⟩ := hk
    simp only [keptPart, List.dropWhile_cons, List.filter_cons] at ih ⊢
    by_cases hx : x.1 ≤ h
    · have : ¬ h < x.1 := by omega
      simp only [hx, decide_true, if_true, this, decide_false]
      exact ih h2
    · have hlt : h < x.1 := by omega
      simp only [hx, decide_false, hlt, decide_true, if_true]
      have := filter_gt_self (h2.all_gt (h := h) (by omega))
      simp [this]

/-- … and reports exactly the entries with key ≤ h -/
theorem KeysFrom.ackedPart_eq_filter {a h : Nat} {l : List (Nat × Nat)} (hk : KeysFrom a l) :
    ackedPart h l = l.filter (fun e => decide (e.1 ≤ h)) := by
  induction l generalizing a with
  | nil => rfl
  | cons x t ih =>
    obtain ⟨h1, h2⟩ := hk
    simp only [ackedPart, List.takeWhile_cons, List.filter_cons] at ih ⊢
    by_cases hx : x.1 ≤ h
    · simp only [hx, decide_true, if_true]
      rw [ih h2]
    · simp only [hx, decide_false]
      have := filter_le_nil (h2.all_gt (h := h) (by omega))
      simp [this]

theorem KeysFrom.keptPart {a : Nat} {l : List (Nat × Nat)} (hk : KeysFrom a l) (h : Nat) :
    ∃ a', a ≤ a' ∧ KeysFrom a' (keptPart h l) ∧ a' + (keptPart h l).length = a + l.length := by
  induction l generalizing a with
  | nil => exact ⟨a, Nat.le_refl _, trivial, rfl⟩
  | cons x t ih =>
    obtain ⟨h1, h2⟩ := hk
    by_cases hx : x.1 ≤ h
    · obtain ⟨a', ha, hk', hl⟩ := ih h2
      have e : Qx.C09.keptPart h (x :: t) = Qx.C09.keptPart h t := by
        simp [Qx.C09.keptPart, hx]
      rw [e]
      exact ⟨a', by omega, hk', by simp only [List.length_cons]; omega⟩
    · have e : Qx.C09.keptPart h (x :: t) = x :: t := by
        simp [Qx.C09.keptPart, hx]
      rw [e]
      exact ⟨a, Nat.le_refl _, ⟨h1, h2⟩, rfl⟩

/-! ### the bookkeeping invariant -/

/-- every packet id allocated so far is in exactly one of: the unacknowledged map, the report log -/
def pool (s : St) (log : List Out) : List Nat := ids s.unacked ++ reportedIds log

/-- ids allocated by one step -/
def newIds (s : St) : Op → List Nat
  | .send _ _ => [s.nextId]
  | _ => []

theorem step_nextId (s : St) (op : Op) : (step s op).1.nextId = s.nextId + (newIds s op).length := by
  cases op <;> simp only [step, newIds] <;> (try split) <;> simp

theorem step_pool (s : St) (log : List Out) (op : Op) :
    (pool (step s op).1 (log ++ (step s op).2)).Perm (newIds s op ++ pool s log) := by
  cases op with
  | send stanza up =>
    simp only [step, newIds]
    split
    · simp only [pool, reportedIds_append, reportedIds_emit, reportedIds_written, List.append_nil, ids,
        List.map_append, List.map_cons, List.map_nil, List.singleton_append, List.append_assoc]
      exact List.perm_middle
    · simp only [pool, reportedIds_append, reportedIds_emit, reportedIds_report, reportedIds_written,
        List.nil_append, List.singleton_append]
      rw [← List.append_assoc]
      exact List.perm_middle.trans (by simp)
  | ack h =>
    simp only [step, newIds, List.nil_append]
    split
    · simp only [pool, reportedIds_append, reportedIds_ackReports]
      rw [← ids_acked_kept h s.unacked]
      have := (List.perm_append_comm (l₁ := ids (ackedPart h s.unacked))
        (l₂ := ids (keptPart h s.unacked) ++ reportedIds log)).symm
      simpa [List.append_assoc] using this
    · simp [pool]
  | ackReq up =>
    simp only [step, newIds, List.nil_append]
    split <;> simp [pool, reportedIds_append]
  | recv k =>
    simp only [step, newIds, List.nil_append]
    split <;> simp [pool]
  | sessionClosed => simp [step, newIds, pool]
  | enabledNew up =>
    simp only [step, newIds, List.nil_append]
    split <;> simp [pool, reportedIds_append]
  | resumeReq up => simp [step, newIds, pool, reportedIds_append]
  | resumed h up =>
    simp only [step, newIds, List.nil_append]
    have e : reportedIds (if (keptPart h s.unacked).isEmpty = true then []
        else resendOut up (keptPart h s.unacked) ++ reqOut true up) = [] := by
      split <;> simp [reportedIds_append]
    simp only [pool, reportedIds_append, reportedIds_ackReports, e, List.append_nil]
    rw [← ids_acked_kept h s.unacked]
    have := (List.perm_append_comm (l₁ := ids (ackedPart h s.unacked))
      (l₂ := ids (keptPart h s.unacked) ++ reportedIds log)).symm
    simpa [List.append_assoc] using this
  | resetCache =>
    simp only [step, newIds, List.nil_append, pool, reportedIds_append, reportedIds_discReports, ids,
      List.map_nil]
    exact List.perm_append_comm

structure Inv (s : St) (log : List Out) : Prop where
  keys : ∃ a, 1 ≤ a ∧ KeysFrom a s.unacked ∧ a + s.unacked.length = s.lastOut + 1
  nodup : (pool s log).Nodup
  lt : ∀ p ∈ pool s log, p < s.nextId
  all : ∀ p, p < s.nextId → p ∈ pool s log

theorem Inv.init : Inv init [] :=
  ⟨⟨1, Nat.le_refl _, trivial, rfl⟩, by simp [pool, Qx.C09.init, ids], by simp [pool, Qx.C09.init, ids],
    by simp [Qx.C09.init]⟩

theorem step_keys (s : St) (op : Op)
    (h : ∃ a, 1 ≤ a ∧ KeysFrom a s.unacked ∧ a + s.unacked.length = s.lastOut + 1) :
    ∃ a, 1 ≤ a ∧ KeysFrom a (step s op).1.unacked ∧
      a + (step s op).1.unacked.length = (step s op).1.lastOut + 1 := by
  obtain ⟨a, ha, hk, hl⟩ := h
  cases op with
  | send stanza up =>
    simp only [step]
    split
    · refine ⟨a, ha, ?_, by simp only [List.length_append, List.length_singleton]; omega⟩
      have e : s.lastOut + 1 = a + s.unacked.length := by omega
      simp only [e]
      exact hk.append _
    · exact ⟨a, ha, hk, hl⟩
  | ack h =>
    simp only [step]
    split
    · obtain ⟨a', h1, h2, h3⟩ := hk.keptPart h
      exact ⟨a', by omega, h2, by simp only; omega⟩
    · exact ⟨a, ha, hk, hl⟩
  | ackReq up => exact ⟨a, ha, hk, hl⟩
  | recv k => simp only [step]; split <;> exact ⟨a, ha, hk, hl⟩
  | sessionClosed => exact ⟨a, ha, hk, hl⟩
  | enabledNew up =>
    exact ⟨1, Nat.le_refl _, renumber_keysFrom 0 _, by simp [step]; omega⟩
  | resumeReq up => exact ⟨a, ha, hk, hl⟩
  | resumed h up =>
    obtain ⟨a', h1, h2, h3⟩ := hk.keptPart h
    exact ⟨a', by omega, h2, by simp only [step]; omega⟩
  | resetCache =>
    exact ⟨s.lastOut + 1, by omega, trivial, by simp [step]⟩

theorem Inv.step {s : St} {log : List Out} (h : Inv s log) (op : Op) :
    Inv (step s op).1 (log ++ (step s op).2) := by
  have hp := step_pool s log op
  have hn := step_nextId s op
  refine ⟨step_keys s op h.keys, ?_, ?_, ?_⟩
  · refine hp.symm.nodup ?_
    cases op <;> simp only [newIds, List.nil_append] <;> try exact h.nodup
    simp only [List.singleton_append, List.nodup_cons]
    exact ⟨fun hm => Nat.lt_irrefl _ (h.lt _ hm), h.nodup⟩
  · intro p hm
    have hm' := hp.mem_iff.mp hm
    rw [hn]
    rcases List.mem_append.mp hm' with h1 | h1
    · cases op <;> simp only [newIds, List.mem_singleton, List.not_mem_nil] at h1
      subst h1; simp [newIds]
    · have := h.lt p h1; omega
  · intro p hlt
    rw [hn] at hlt
    apply hp.mem_iff.mpr
    apply List.mem_append.mpr
    by_cases hp' : p < s.nextId
    · exact Or.inr (h.all p hp')
    · left
      cases op <;> simp only [newIds, List.length_nil, List.length_singleton, List.mem_singleton] at hlt ⊢ <;> omega

theorem Inv.run {s : St} {log : List Out} (h : Inv s log) (ops : List Op) :
    Inv (run s ops).1 (log ++ (run s ops).2) := by
  induction ops generalizing s log with
  | nil => simpa [Qx.C09.run] using h
  | cons op ops ih =>
    simp only [Qx.C09.run]
    have := ih (h.step op)
    rwa [List.append_assoc] at this

theorem Inv.reachable (ops : List Op) :
    Inv (Qx.C09.run Qx.C09.init ops).1 (Qx.C09.run Qx.C09.init ops).2 := by
  simpa using Inv.init.run ops


/-! ### what may appear on the wire -/

theorem step_pkts (s : St) (op : Op) :
    ∀ p ∈ pktsOf (step s op).2, p ∈ ids s.unacked ∨ p = s.nextId := by
  intro p hp
  cases op with
  | send stanza up =>
    simp only [step] at hp
    split at hp
    · simp only [pktsOf_append, pktsOf_emit_pkt, pktsOf_emit_r, pktsOf_written, List.append_nil] at hp
      split at hp <;> simp at hp
      exact Or.inr hp
    · simp only [pktsOf_append, pktsOf_emit_pkt, pktsOf_report, pktsOf_written, List.append_nil] at hp
      split at hp <;> simp at hp
      exact Or.inr hp
  | ack h =>
    simp only [step] at hp
    split at hp <;> simp at hp
  | ackReq up =>
    simp only [step] at hp
    split at hp <;> simp at hp
  | recv k => simp [step] at hp
  | sessionClosed => simp [step] at hp
  | enabledNew up =>
    simp only [step] at hp
    split at hp
    · simp at hp
    · simp only [pktsOf_append, pktsOf_resendOut, pktsOf_reqOut, List.append_nil] at hp
      split at hp
      · exact Or.inl hp
      · simp at hp
  | resumeReq up => simp [step] at hp
  | resumed h up =>
    simp only [step, pktsOf_append, pktsOf_ackReports, List.nil_append] at hp
    split at hp
    · simp at hp
    · simp only [pktsOf_append, pktsOf_resendOut, pktsOf_reqOut, List.append_nil] at hp
      split at hp
      · left
        simp only [ids, List.mem_map] at hp ⊢
        obtain ⟨e, he, hpe⟩ := hp
        exact ⟨e, mem_keptPart he, hpe⟩
      · simp at hp
  | resetCache =>
    simp only [step, pktsOf_discReports] at hp
    simp at hp

/-- a packet that has a report is never put on the wire again, whatever happens next -/
theorem run_pkts_not_reported (ops : List Op) : ∀ (s : St) (log : List Out), Inv s log →
    ∀ p ∈ reportedIds log, p ∉ pktsOf (run s ops).2 := by
  induction ops with
  | nil => intro s log _ p _; simp [run]
  | cons op ops ih =>
    intro s log hinv p hp
    rw [run_cons, pktsOf_append, List.mem_append]
    have hpool : p ∈ pool s log := List.mem_append.mpr (Or.inr hp)
    rintro (h | h)
    · rcases step_pkts s op p h with h1 | h1
      · have hnd := hinv.nodup
        simp only [pool, List.nodup_append] at hnd
        exact hnd.2.2 p h1 p hp rfl
      · have := hinv.lt p hpool; omega
    · refine ih _ _ (hinv.step op) p ?_ h
      rw [reportedIds_append]; exact List.mem_append.mpr (Or.inl hp)

/-! ### acknowledged reports -/

theorem not_acked_mem_emit (p up w) : Out.report p .acked ∉ emit up w := by
  unfold emit; split <;> simp

theorem mem_ackReports {p : Nat} {r : Report} {l : List (Nat × Nat)} (h : Out.report p r ∈ ackReports l) :
    r = .acked ∧ ∃ k, (k, p) ∈ l := by
  simp only [ackReports, List.mem_map, Out.report.injEq] at h
  obtain ⟨e, he, h1, h2⟩ := h
  exact ⟨h2.symm, e.1, by rw [← h1]; exact he⟩

theorem not_acked_mem_resend (p up l) : Out.report p .acked ∉ resendOut up l := by
  simp only [resendOut, List.mem_flatMap, not_exists, not_and]
  intro e _; exact not_acked_mem_emit p up _

theorem not_acked_mem_reqOut (p e up) : Out.report p .acked ∉ reqOut e up := by
  unfold reqOut; split
  · exact not_acked_mem_emit p up _
  · simp

/-- one step reports "acknowledged" only while processing `<a h/>` (stream management on) or
`<resumed h/>`, and only for a stored packet whose number is `≤ h` -/
theorem step_acked (s : St) (op : Op) (p : Nat) (hm : Out.report p .acked ∈ (step s op).2) :
    ∃ h k, ((op = .ack h ∧ s.enabled = true) ∨ ∃ up, op = .resumed h up) ∧
      (k, p) ∈ s.unacked ∧ k ≤ h := by
  cases op with
  | send stanza up =>
    exfalso
    simp only [step] at hm
    split at hm
    · simp only [List.mem_append, List.mem_singleton] at hm
      rcases hm with (h | h) | h
      · exact not_acked_mem_emit _ _ _ h
      · exact not_acked_mem_emit _ _ _ h
      · cases h
    · simp only [List.mem_append, List.mem_cons, List.not_mem_nil, or_false] at hm
      rcases hm with h | h | h
      · exact not_acked_mem_emit _ _ _ h
      · injection h with h1 h2; split at h2 <;> cases h2
      · cases h
  | ack h =>
    simp only [step] at hm
    split at hm
    · rename_i hen
      simp only [ackReports, List.mem_map, Out.report.injEq] at hm
      obtain ⟨e, he, h1, _⟩ := hm
      have := mem_ackedPart he
      exact ⟨h, e.1, Or.inl ⟨rfl, hen⟩, by rw [← h1]; exact this.1, this.2⟩
    · simp at hm
  | ackReq up =>
    exfalso
    simp only [step] at hm
    split at hm
    · exact not_acked_mem_emit _ _ _ hm
    · simp at hm
  | recv k => simp [step] at hm
  | sessionClosed => simp [step] at hm
  | enabledNew up =>
    exfalso
    simp only [step] at hm
    split at hm
    · simp at hm
    · rcases List.mem_append.mp hm with h | h
      · exact not_acked_mem_resend _ _ _ h
      · exact not_acked_mem_reqOut _ _ _ h
  | resumeReq up =>
    exfalso
    simp only [step] at hm
    exact not_acked_mem_emit _ _ _ hm
  | resumed h up =>
    simp only [step] at hm
    rcases List.mem_append.mp hm with hm | hm
    · simp only [ackReports, List.mem_map, Out.report.injEq] at hm
      obtain ⟨e, he, h1, _⟩ := hm
      have := mem_ackedPart he
      exact ⟨h, e.1, Or.inr ⟨up, rfl⟩, by rw [← h1]; exact this.1, this.2⟩
    · exfalso
      split at hm
      · simp at hm
      · rcases List.mem_append.mp hm with h | h
        · exact not_acked_mem_resend _ _ _ h
        · exact not_acked_mem_reqOut _ _ _ h
  | resetCache =>
    exfalso
    simp [step] at hm

/-! ### the inbound counter -/

theorem step_sessionCount (s : St) (c : Bool × Nat) (op : Op)
    (h1 : c.1 = s.enabled) (h2 : s.lastIn = c.2) :
    (sessionCountStep c op).1 = (step s op).1.enabled ∧
      (step s op).1.lastIn = (sessionCountStep c op).2 := by
  cases op with
  | send stanza up => simp only [step, sessionCountStep]; split <;> exact ⟨h1, h2⟩
  | ack h => simp only [step, sessionCountStep]; split <;> exact ⟨h1, h2⟩
  | ackReq up => exact ⟨h1, h2⟩
  | recv k =>
    simp only [step, sessionCountStep]
    rw [h1]
    split
    · exact ⟨rfl, by simp only; omega⟩
    · exact ⟨h1, h2⟩
  | sessionClosed => exact ⟨rfl, h2⟩
  | enabledNew up => exact ⟨rfl, rfl⟩
  | resumeReq up => exact ⟨h1, h2⟩
  | resumed h up => exact ⟨rfl, h2⟩
  | resetCache => exact ⟨h1, h2⟩

theorem run_sessionCount (ops : List Op) : ∀ (s : St) (c : Bool × Nat),
    c.1 = s.enabled → s.lastIn = c.2 →
    (ops.foldl sessionCountStep c).1 = (run s ops).1.enabled ∧
      (run s ops).1.lastIn = (ops.foldl sessionCountStep c).2 := by
  induction ops with
  | nil => intro s c h1 h2; exact ⟨h1, h2⟩
  | cons op ops ih =>
    intro s c h1 h2
    obtain ⟨h3, h4⟩ := step_sessionCount s c op h1 h2
    exact ih _ _ h3 h4

/-! ### what a step puts on the wire that carries a counter -/

theorem step_wire_a (s : St) (op : Op) (k : Nat) (hm : Out.wire (.a k) ∈ (step s op).2) :
    k = s.lastIn ∧ s.enabled = true ∧ op = .ackReq true := by
  cases op with
  | send stanza up =>
    simp only [step, emit] at hm
    split at hm <;> cases up <;> simp at hm
  | ack h => simp only [step, ackReports] at hm; split at hm <;> simp at hm
  | ackReq up =>
    simp only [step, emit] at hm
    split at hm
    · rename_i he
      cases up <;> simp at hm
      exact ⟨hm, he, rfl⟩
    · simp at hm
  | recv kd => simp [step] at hm
  | sessionClosed => simp [step] at hm
  | enabledNew up =>
    simp only [step, resendOut, reqOut, emit] at hm
    split at hm <;> cases up <;> simp at hm
  | resumeReq up => simp only [step, emit] at hm; cases up <;> simp at hm
  | resumed h up =>
    simp only [step, resendOut, reqOut, emit, ackReports] at hm
    rcases List.mem_append.mp hm with hm | hm
    · simp at hm
    · split at hm <;> cases up <;> simp at hm
  | resetCache => simp [step] at hm

theorem step_wire_resume (s : St) (op : Op) (k : Nat) (hm : Out.wire (.resume k) ∈ (step s op).2) :
    k = s.lastIn ∧ op = .resumeReq true := by
  cases op with
  | send stanza up =>
    simp only [step, emit] at hm
    split at hm <;> cases up <;> simp at hm
  | ack h => simp only [step, ackReports] at hm; split at hm <;> simp at hm
  | ackReq up =>
    simp only [step, emit] at hm
    split at hm <;> cases up <;> simp at hm
  | recv kd => simp [step] at hm
  | sessionClosed => simp [step] at hm
  | enabledNew up =>
    simp only [step, resendOut, reqOut, emit] at hm
    split at hm <;> cases up <;> simp at hm
  | resumeReq up =>
    simp only [step, emit] at hm
    cases up <;> simp at hm
    exact ⟨hm, rfl⟩
  | resumed h up =>
    simp only [step, resendOut, reqOut, emit, ackReports] at hm
    rcases List.mem_append.mp hm with hm | hm
    · simp at hm
    · split at hm <;> cases up <;> simp at hm
  | resetCache => simp [step] at hm

/-! ### renumbering -/

theorem renumber_eq_zip (k : Nat) (l : List (Nat × Nat)) :
    renumber k l = (List.range' (k + 1) l.length).zip (ids l) := by
  induction l generalizing k with
  | nil => rfl
  | cons e t ih => simp [renumber, ih, ids, List.range'_succ]


/-! ### wire projection of the resend block -/

@[simp] theorem wireOf_ackReports (l) : wireOf (ackReports l) = [] := by
  induction l with
  | nil => rfl
  | cons e t ih => simp only [ackReports, List.map_cons] at ih ⊢; simp [wireOf] at ih ⊢

theorem wireOf_resendOut_up (l : List (Nat × Nat)) :
    wireOf (resendOut true l) = l.map fun e => Wire.pkt e.2 := by
  induction l with
  | nil => rfl
  | cons e t ih =>
    simp only [resendOut, List.flatMap_cons] at ih ⊢
    rw [wireOf_append, ih]; simp [emit, wireOf]

theorem wireOf_resendOut_down (l : List (Nat × Nat)) : wireOf (resendOut false l) = [] := by
  induction l with
  | nil => rfl
  | cons e t ih =>
    simp only [resendOut, List.flatMap_cons] at ih ⊢
    rw [wireOf_append, ih]; simp [emit]

theorem wireOf_step_resumed_up (s : St) (h : Nat) :
    wireOf (step s (.resumed h true)).2 = resendBlock (keptPart h s.unacked) := by
  simp only [step, wireOf_append, wireOf_ackReports, List.nil_append, resendBlock]
  split
  · rfl
  · rw [wireOf_append, wireOf_resendOut_up]; simp [reqOut, emit, wireOf]

theorem wireOf_step_enabledNew_up (s : St) :
    wireOf (step s (.enabledNew true)).2 = resendBlock s.unacked := by
  simp only [step, resendBlock]
  split
  · rfl
  · rw [wireOf_append, wireOf_resendOut_up]; simp [reqOut, emit, wireOf]

theorem wireOf_step_resumed_down (s : St) (h : Nat) : wireOf (step s (.resumed h false)).2 = [] := by
  simp only [step, wireOf_append, wireOf_ackReports, List.nil_append]
  split
  · rfl
  · rw [wireOf_append, wireOf_resendOut_down]; simp [reqOut, emit]

theorem wireOf_step_enabledNew_down (s : St) : wireOf (step s (.enabledNew false)).2 = [] := by
  simp only [step]
  split
  · rfl
  · rw [wireOf_append, wireOf_resendOut_down]; simp [reqOut, emit]


/-! ### consequences of the key invariant, for an arbitrary state -/

theorem keys_facts (s : St)
    (h : ∃ a, 1 ≤ a ∧ KeysFrom a s.unacked ∧ a + s.unacked.length = s.lastOut + 1) :
    s.unacked.length ≤ s.lastOut ∧
    keys s.unacked = List.range' (s.lastOut + 1 - s.unacked.length) s.unacked.length ∧
    (keys s.unacked).Pairwise (· < ·) ∧
    ∀ k ∈ keys s.unacked, 1 ≤ k ∧ k ≤ s.lastOut := by
  obtain ⟨a, ha, hk, hl⟩ := h
  have e : s.lastOut + 1 - s.unacked.length = a := by omega
  have hkeys : keys s.unacked = List.range' a s.unacked.length := hk.keys_eq
  refine ⟨by omega, by rw [e]; exact hkeys, ?_, ?_⟩
  · rw [hkeys]; exact List.pairwise_lt_range'
  · intro k hm
    rw [hkeys, List.mem_range'_1] at hm
    omega

theorem ids_nodup_unique {l : List (Nat × Nat)} (hnd : (ids l).Nodup) {k₁ k₂ p : Nat}
    (h1 : (k₁, p) ∈ l) (h2 : (k₂, p) ∈ l) : k₁ = k₂ := by
  induction l with
  | nil => cases h1
  | cons e t ih =>
    simp only [ids, List.map_cons, List.nodup_cons, List.mem_map, not_exists, not_and] at hnd
    rcases List.mem_cons.mp h1 with a1 | a1 <;> rcases List.mem_cons.mp h2 with a2 | a2
    · rw [← a1] at a2; exact (Prod.mk.inj a2).1.symm ▸ rfl
    · exact absurd (by rw [← a1]) (hnd.1 _ a2)
    · exact absurd (by rw [← a2]) (hnd.1 _ a1)
    · exact ih hnd.2 a1 a2

end Qx.C09
