import Qx.Model.C16Server
/-! Vocabulary and helper lemmas for C16 (property theorems: Qx/Props/C16.lean). -/
namespace Qx.C16

/-! ### vocabulary used by the theorem statements -/

/-- the SASL payload an element carries, if any -/
def Ev.payload : Ev → Option Payload
  | .auth _ _ p _ => some p
  | .response _ p => some p
  | .sameRead e => e.payload
  | _ => none

/-- the element presents, for user `u`, a credential that the configured checker approves: a PLAIN
user/password pair with `check u p = ok`, or a DIGEST-MD5 response naming `u` and computed from exactly the
digest the checker holds for `u` -/
def Approves (cfg : Cfg) (ev : Ev) (u : List Char) : Prop :=
  match ev.payload with
  | some (.creds u' p) => u' = u ∧ cfg.check u p = .ok
  | some (.dresp u' sec _) => u' = u ∧ cfg.digestOf u = .digest sec
  | _ => False

/-- the same for a checker that implements only `getPassword` (`gp`): the element carries the PLAIN pair
(`u`, exactly the password `getPassword` returns for `u` with NoError), or a DIGEST-MD5 response naming `u` and
computed from MD5(u:domain:that password) (`md5 u s`).  A user for whom `getPassword` reports an error — unknown,
rejected, temporarily unavailable — is approved by nothing, whatever password (including the empty one) is used. -/
def GpApproves (gp : List Char → PwRes) (md5 : List Char → List Char → List Char) (ev : Ev) (u : List Char) : Prop :=
  match ev.payload with
  | some (.creds u' p) => u' = u ∧ gp u = .ok p
  | some (.dresp u' sec _) => u' = u ∧ ∃ s, gp u = .ok s ∧ sec = md5 u s
  | _ => False

/-- connection `c` has, somewhere in the history, sent an element that `Approves` user `u` -/
def Approved (cfg : Cfg) (hist : List (Nat × Ev)) (c : Nat) (u : List Char) : Prop :=
  ∃ ev, (c, ev) ∈ hist ∧ Approves cfg ev u

/-- `j` is `u@domain`, or `u@domain` cut at its first '/' (what `jidToBareJid` does) followed by "/resource" -/
def JidOf (cfg : Cfg) (u j : List Char) : Prop :=
  j = mkBare u cfg.domain ∨ ∃ r, j = withRes (mkBare u cfg.domain) r

/-- outputs that presuppose an authenticated sender `c`: a stanza handed to routing, delivered or answered,
a bound resource, a bind or session result -/
def NeedsAuth (c : Nat) : Out → Prop
  | .routed c' _ => c' = c
  | .deliver src _ _ => src = c
  | .reply src _ _ => src = c
  | .connected c' _ => c' = c
  | .send c' (.bindResult _) => c' = c
  | .send c' (.sessionResult _) => c' = c
  | _ => False

/-! ### JID strings -/

theorem takeWhile_takeWhile_append (p : Char → Bool) (c : Char) (hc : p c = false) (r : List Char) :
    ∀ l : List Char, (l.takeWhile p ++ c :: r).takeWhile p = l.takeWhile p := by
  intro l
  induction l with
  | nil => simp [List.takeWhile, hc]
  | cons a t ih =>
    by_cases ha : p a = true
    · simp [List.takeWhile, ha, ih]
    · have ha' : p a = false := by simpa using ha
      simp [List.takeWhile, ha', hc]

theorem bareOf_withRes (j r : List Char) : bareOf (withRes j r) = bareOf j := by
  unfold withRes bareOf
  exact takeWhile_takeWhile_append _ '/' (by decide) r j

theorem withRes_withRes (j r r' : List Char) : withRes (withRes j r) r' = withRes j r' := by
  show bareOf (withRes j r) ++ '/' :: r' = bareOf j ++ '/' :: r'
  rw [bareOf_withRes]

theorem JidOf.bind {cfg : Cfg} {u j : List Char} (h : JidOf cfg u j) (r : List Char) : JidOf cfg u (withRes j r) := by
  rcases h with h | ⟨r', h⟩
  · exact Or.inr ⟨r, by rw [h]⟩
  · exact Or.inr ⟨r, by rw [h, withRes_withRes]⟩

/-- a user name / domain without '/' is not cut by `jidToBareJid` -/
theorem bareOf_eq_self (j : List Char) (h : '/' ∉ j) : bareOf j = j := by
  unfold bareOf
  induction j with
  | nil => rfl
  | cons a t ih =>
    have ha : a ≠ '/' := fun e => h (by simp [e])
    have ht : '/' ∉ t := fun e => h (by simp [e])
    have hb : (a != '/') = true := by simpa using ha
    simp only [List.takeWhile, hb]
    rw [ih ht]

theorem Approved.mono {cfg : Cfg} {h1 h2 : List (Nat × Ev)} {c : Nat} {u : List Char}
    (hsub : ∀ x, x ∈ h1 → x ∈ h2) (h : Approved cfg h1 c u) : Approved cfg h2 c u := by
  obtain ⟨ev, hm, ha⟩ := h
  exact ⟨ev, hsub _ hm, ha⟩

/-! ### shape of one connection step: quiet, or starting with an authentication record -/

/-- connection-level outputs that presuppose an authenticated sender -/
def GuardedC : COut → Prop
  | .emit _ => True
  | .bound => True
  | .send (.bindResult _) => True
  | .send (.sessionResult _) => True
  | _ => False

/-- harmless outputs: SASL / stream-level elements, close, ub -/
def Benign : COut → Prop
  | .send (.bindResult _) => False
  | .send (.sessionResult _) => False
  | .send _ => True
  | .closed => True
  | .ub => True
  | _ => False

/-- the step neither changes the jid nor emits anything but harmless outputs -/
def Quiet (x : Conn) (r : CRes) : Prop := r.conn.jid = x.jid ∧ ∀ o ∈ r.outs, Benign o

/-- the step starts by recording a successful authentication -/
def AuthHead (r : CRes) : Prop := ∃ j tl, r.outs = .authed j :: tl ∧ ∀ o ∈ tl, Benign o ∨ o = .bound

theorem quiet_idle (x : Conn) : Quiet x (idle x) := by simp [Quiet, idle]

theorem quiet_disconnect (x c : Conn) (pre : List COut) (hj : c.jid = x.jid) (hpre : ∀ o ∈ pre, Benign o) :
    Quiet x (disconnect c pre) := by
  refine ⟨by simp [disconnect, hj], ?_⟩
  intro o ho
  simp only [disconnect, List.mem_append, List.mem_cons, List.not_mem_nil, or_false] at ho
  rcases ho with h | rfl | rfl
  · exact hpre o h
  · trivial
  · trivial

theorem quiet_failClose (x c : Conn) (v2 : Bool) (cond : Cond) (hj : c.jid = x.jid) : Quiet x (failClose c v2 cond) := by
  unfold failClose
  apply quiet_disconnect
  · cases v2 <;> simp [hj]
  · intro o ho; simp at ho; subst ho; trivial

theorem quiet_ubRes (x c : Conn) (hj : c.jid = x.jid) : Quiet x (ubRes c) := by
  simp [Quiet, ubRes, hj, Benign]

theorem dropPending_jid (c : Conn) : (dropPending c).jid = c.jid := rfl

theorem checkCredentials_jid (cfg : Cfg) (c : Conn) (s : Sasl) (p : Payload) : (checkCredentials cfg c s p).jid = c.jid := by
  unfold checkCredentials
  split
  · rfl
  · split <;> rfl
  · rfl

theorem quiet_openStream (cfg : Cfg) (x : Conn) (to : List Char) : Quiet x (openStream cfg x to) := by
  unfold openStream
  simp only []
  split
  · apply quiet_disconnect
    · simp [dropPending_jid]
    · intro o ho; simp at ho; rcases ho with rfl | rfl <;> trivial
  · refine ⟨by simp [dropPending_jid], ?_⟩
    intro o ho
    simp only [List.mem_cons, List.not_mem_nil, or_false] at ho
    rcases ho with rfl | rfl
    · trivial
    · unfold featuresOf; split <;> trivial

theorem quiet_credStep (cfg : Cfg) (x c : Conn) (s : Sasl) (p : Payload) (hj : c.jid = x.jid) :
    Quiet x (credStep cfg c s p) := by
  unfold credStep
  split
  · exact quiet_failClose _ _ _ _ hj
  · exact ⟨by simp [checkCredentials_jid, hj], by simp⟩

theorem quiet_authStep (cfg : Cfg) (x : Conn) (v2 : Bool) (m : List Char) (p : Payload) (b : Bool) :
    Quiet x (authStep cfg x v2 m p b) := by
  unfold authStep
  simp only []
  split
  · apply quiet_disconnect
    · simp [dropPending_jid]
    · intro o ho; simp at ho; subst ho; trivial
  · split
    · apply quiet_credStep; simp [dropPending_jid]
    · refine ⟨by simp [dropPending_jid], ?_⟩
      intro o ho; simp at ho; subst ho; trivial
    · apply quiet_failClose; simp [dropPending_jid]


theorem authHead_authSuccess (fresh : List Char) (c : Conn) (j : List Char) (v2 : Bool) :
    AuthHead (authSuccess fresh c j v2) := by
  unfold authSuccess
  simp only []
  split
  · unfold sasl2Authenticated
    split
    · refine ⟨j, [_, _], rfl, ?_⟩
      intro o ho
      simp only [List.mem_cons, List.not_mem_nil, or_false] at ho
      rcases ho with rfl | rfl <;> exact Or.inl trivial
    · refine ⟨j, [_, _, _], rfl, ?_⟩
      intro o ho
      simp only [List.mem_cons, List.not_mem_nil, or_false] at ho
      rcases ho with rfl | rfl | rfl
      · exact Or.inl trivial
      · exact Or.inr rfl
      · left; unfold featuresOf; split <;> trivial
    · refine ⟨j, [_, _], rfl, ?_⟩
      intro o ho
      simp only [List.mem_cons, List.not_mem_nil, or_false] at ho
      rcases ho with rfl | rfl
      · exact Or.inl trivial
      · left; unfold featuresOf; split <;> trivial
  · exact ⟨j, _, rfl, by intro o ho; simp at ho; subst ho; exact Or.inl trivial⟩

theorem shape_responseStep (cfg : Cfg) (fresh : List Char) (x : Conn) (v2 : Bool) (p : Payload) :
    Quiet x (responseStep cfg fresh x v2 p) ∨ AuthHead (responseStep cfg fresh x v2 p) := by
  unfold responseStep
  split
  · left; apply quiet_disconnect _ _ _ rfl
    intro o ho; simp at ho; subst ho; trivial
  · split
    · left; apply quiet_disconnect _ _ _ rfl
      intro o ho; simp at ho; subst ho; trivial
    · simp only []
      split
      · left; exact quiet_credStep _ _ _ _ _ rfl
      · right; exact authHead_authSuccess _ _ _ _
      · left; apply quiet_failClose; rfl

theorem shape_pwReply (cfg : Cfg) (fresh : List Char) (x c0 : Conn) (s : Sasl) (res : CheckRes) (hj : c0.jid = x.jid) :
    Quiet x (pwReply cfg fresh c0 s res) ∨ AuthHead (pwReply cfg fresh c0 s res) := by
  cases res
  · right; exact authHead_authSuccess _ _ _ _
  · left; exact quiet_failClose _ _ _ _ hj
  · left; exact quiet_failClose _ _ _ _ hj

theorem quiet_dgVerify (x c0 : Conn) (s : Sasl) (d : Option (List Char)) (u sec : List Char) (hj : c0.jid = x.jid) :
    Quiet x (dgVerify c0 s d u sec) := by
  unfold dgVerify
  simp only []
  split
  · refine ⟨by simp [hj], ?_⟩
    intro o ho; simp at ho; subst ho; trivial
  · apply quiet_failClose; simp [hj]

theorem quiet_dgReply (x c0 : Conn) (s : Sasl) (u sec : List Char) (res : DigRes) (hj : c0.jid = x.jid) :
    Quiet x (dgReply c0 s u sec res) := by
  cases res
  · exact quiet_dgVerify _ _ _ _ _ _ hj
  · exact quiet_dgVerify _ _ _ _ _ _ hj
  · exact quiet_failClose _ _ _ _ hj

theorem shape_deliverReply (cfg : Cfg) (fresh : List Char) (x : Conn) (i : Nat) :
    Quiet x (deliverReply cfg fresh x i) ∨ AuthHead (deliverReply cfg fresh x i) := by
  unfold deliverReply
  split
  · left; exact quiet_idle x
  · simp only []
    split
    · left; exact quiet_ubRes _ _ rfl
    · split
      · exact shape_pwReply _ _ _ _ _ _ rfl
      · left; exact quiet_dgReply _ _ _ _ _ _ rfl



theorem benign_not_guarded {o : COut} (h : Benign o) : ¬ GuardedC o := by
  cases o with
  | send e => cases e <;> simp_all [Benign, GuardedC]
  | _ => simp_all [Benign, GuardedC]

theorem quiet_gate (x : Conn) (r : CRes) (h : Quiet x r) : Quiet x (gate x r) := by
  unfold gate
  split
  · exact quiet_idle x
  · split
    · exact h
    · exact ⟨rfl, by simp [idle]⟩

theorem shape_gate (x : Conn) (r : CRes) (h : Quiet x r ∨ AuthHead r) : Quiet x (gate x r) ∨ AuthHead (gate x r) := by
  unfold gate
  split
  · exact Or.inl (quiet_idle x)
  · split
    · exact h
    · exact Or.inl ⟨rfl, by simp [idle]⟩

theorem quiet_clientGate_preauth (x : Conn) (r : CRes) (hj : x.jid = []) :
    Quiet x (clientGate x r) := by
  simp only [clientGate, hj, if_true]
  apply quiet_disconnect _ _ _ rfl
  intro o ho; simp at ho; subst ho; trivial

/-- one step of a connection: quiet, or it starts with an authentication record, or the jid was already set -/
theorem shape_connStep (cfg : Cfg) (fresh : List Char) (x : Conn) (ev : Ev) :
    Quiet x (connStep cfg fresh x ev) ∨ AuthHead (connStep cfg fresh x ev) ∨ x.jid ≠ [] := by
  by_cases hj : x.jid = []
  case neg => exact Or.inr (Or.inr hj)
  have stanzaCase : ∀ r, Quiet x (gate x (clientGate x r)) :=
    fun r => quiet_gate _ _ (quiet_clientGate_preauth x r hj)
  unfold connStep
  split
  · exact Or.inl (quiet_idle x)
  · cases ev with
    | deliver i =>
      rcases shape_deliverReply cfg fresh x i with h | h
      · exact Or.inl h
      · exact Or.inr (Or.inl h)
    | openStream to =>
      simp only []
      split
      · exact Or.inl (quiet_idle x)
      · exact Or.inl (quiet_openStream cfg x _)
    | auth v2 m p b => exact Or.inl (quiet_gate _ _ (quiet_authStep cfg x v2 m p b))
    | response v2 p =>
      rcases shape_gate x _ (shape_responseStep cfg fresh x v2 p) with h | h
      · exact Or.inl h
      · exact Or.inr (Or.inl h)
    | abort v2 =>
      refine Or.inl (quiet_gate _ _ ?_)
      split
      · exact ⟨rfl, by intro o ho; simp at ho; subst ho; trivial⟩
      · exact quiet_idle x
    | closeStream => exact Or.inl (quiet_gate _ _ (quiet_disconnect _ _ _ rfl (by simp)))
    | bind res => exact Or.inl (stanzaCase _)
    | session => exact Or.inl (stanzaCase _)
    | stanza st => exact Or.inl (stanzaCase _)
    | sameRead e => exact Or.inl (quiet_idle x)



theorem not_emit_of_quiet {x : Conn} {r : CRes} (h : Quiet x r) (st : Stanza) : COut.emit st ∉ r.outs :=
  fun hm => (h.2 _ hm)

theorem not_emit_of_authHead {r : CRes} (h : AuthHead r) (st : Stanza) : COut.emit st ∉ r.outs := by
  obtain ⟨j, tl, ho, htl⟩ := h
  intro hm
  rw [ho] at hm
  simp only [List.mem_cons] at hm
  rcases hm with hm | hm
  · cases hm
  · rcases htl _ hm with hb | hb
    · exact hb
    · cases hb

theorem not_emit_of_shape {x : Conn} {r : CRes} (h : Quiet x r ∨ AuthHead r) (st : Stanza) : COut.emit st ∉ r.outs := by
  rcases h with h | h
  · exact not_emit_of_quiet h st
  · exact not_emit_of_authHead h st

theorem gate_outs (x : Conn) (r : CRes) (o : COut) (h : o ∈ (gate x r).outs) : o ∈ r.outs ∧ gate x r = r := by
  cases hs : x.stuck <;> cases ho : x.opened <;> simp [gate, hs, ho, idle] at h ⊢
  exact h

theorem clientGate_outs_emit (x : Conn) (r : CRes) (st : Stanza) (h : COut.emit st ∈ (clientGate x r).outs) :
    COut.emit st ∈ r.outs ∧ clientGate x r = r := by
  unfold clientGate at h ⊢
  by_cases hc : x.jid = []
  · simp [hc, disconnect] at h
  · simp only [hc, if_false] at h ⊢
    exact ⟨h, trivial⟩

/-- **from stamping, locally**: whatever a connection hands to the server for routing carries its own jid
(full or bare) as `from`, and that step does not change the connection -/
theorem connStep_emit (cfg : Cfg) (fresh : List Char) (x : Conn) (ev : Ev) (st : Stanza)
    (h : COut.emit st ∈ (connStep cfg fresh x ev).outs) :
    (st.sender = x.jid ∨ st.sender = bareOf x.jid) ∧ (connStep cfg fresh x ev).conn = x := by
  unfold connStep at h ⊢
  split at h
  · simp [idle] at h
  · rename_i hc
    have hc' : x.closed = false := by simpa using hc
    simp only [hc', Bool.false_eq_true, if_false]
    cases ev with
    | deliver i => exact absurd h (not_emit_of_shape (shape_deliverReply cfg fresh x i) st)
    | openStream to =>
      simp only [] at h
      split at h
      · simp [idle] at h
      · exact absurd h (not_emit_of_quiet (quiet_openStream cfg x to) st)
    | auth v2 m p b => exact absurd (gate_outs _ _ _ h).1 (not_emit_of_quiet (quiet_authStep cfg x v2 m p b) st)
    | response v2 p => exact absurd (gate_outs _ _ _ h).1 (not_emit_of_shape (shape_responseStep cfg fresh x v2 p) st)
    | abort v2 =>
      have h1 := (gate_outs _ _ _ h).1
      split at h1
      · simp at h1
      · simp [idle] at h1
    | closeStream =>
      have h1 := (gate_outs _ _ _ h).1
      simp [disconnect] at h1
    | bind res =>
      have h1 := (clientGate_outs_emit _ _ _ (gate_outs _ _ _ h).1).1
      simp [bindStep] at h1
    | session =>
      have h1 := (clientGate_outs_emit _ _ _ (gate_outs _ _ _ h).1).1
      simp at h1
    | sameRead e => simp [idle] at h
    | stanza stIn =>
      have hg := gate_outs _ _ _ h
      have hcg := clientGate_outs_emit _ _ _ hg.1
      show (st.sender = x.jid ∨ st.sender = bareOf x.jid) ∧ (gate x (clientGate x (clientStanza cfg x stIn.attrs))).conn = x
      generalize stIn.attrs = st0 at *
      rw [hg.2, hcg.2]
      have h1 := hcg.1
      unfold clientStanza at h1 ⊢
      split at h1
      · simp [idle] at h1
      · rename_i hcond
        simp only [hcond, if_false]
        simp only [List.mem_cons, List.not_mem_nil, or_false] at h1
        injection h1 with h1
        subst h1
        refine ⟨?_, trivial⟩
        simp only [stampFrom]
        by_cases hs : st0.sender = []
        · simp only [hs, ne_eq, not_true_eq_false, if_false]
          split
          · split
            · exact Or.inr rfl
            · exact Or.inl rfl
          · exact Or.inl rfl
        · simp only [ne_eq, hs, not_false_eq_true, if_true]
          simp only [ne_eq, hs, not_false_eq_true, true_and] at hcond
          by_cases h1 : st0.sender = x.jid
          · exact Or.inl h1
          · by_cases h2 : st0.sender = bareOf x.jid
            · exact Or.inr h2
            · exact absurd ⟨h1, h2⟩ hcond



/-! ### elements that arrive in the same read as the previous one (`Ev.sameRead`) are elements like any other -/

theorem payload_strip : ∀ ev : Ev, ev.strip.payload = ev.payload
  | .sameRead e => by rw [Ev.strip, Ev.payload]; exact payload_strip e
  | .openStream _ => rfl
  | .auth _ _ _ _ => rfl
  | .response _ _ => rfl
  | .abort _ => rfl
  | .bind _ => rfl
  | .session => rfl
  | .stanza _ => rfl
  | .closeStream => rfl
  | .deliver _ => rfl

theorem shape_connStepAny (cfg : Cfg) (fresh : List Char) (x : Conn) (ev : Ev) :
    Quiet x (connStepAny cfg fresh x ev) ∨ AuthHead (connStepAny cfg fresh x ev) ∨ x.jid ≠ [] :=
  shape_connStep cfg fresh x ev.strip

/-- **from stamping, locally** -/
theorem connStepAny_emit (cfg : Cfg) (fresh : List Char) (x : Conn) (ev : Ev) (st : Stanza)
    (h : COut.emit st ∈ (connStepAny cfg fresh x ev).outs) :
    (st.sender = x.jid ∨ st.sender = bareOf x.jid) ∧ (connStepAny cfg fresh x ev).conn.jid = x.jid := by
  have hem := connStep_emit cfg fresh x ev.strip st h
  exact ⟨hem.1, by rw [connStepAny, hem.2]⟩

theorem connStepAny_emit_jid_ne (cfg : Cfg) (fresh : List Char) (x : Conn) (ev : Ev) (st : Stanza)
    (h : COut.emit st ∈ (connStepAny cfg fresh x ev).outs) : x.jid ≠ [] := by
  rcases shape_connStepAny cfg fresh x ev with hq | ha | hj
  · exact absurd h (not_emit_of_quiet hq st)
  · exact absurd h (not_emit_of_authHead ha st)
  · exact hj

/-! ### from connection outputs to server outputs -/

theorem writeTo_mem (s : Server) (found : List Nat) (mk : Nat → Out) (o : Out)
    (h : o ∈ writeTo s found mk) : ∃ d, o = mk d := by
  unfold writeTo at h
  simp only [List.mem_map] at h
  obtain ⟨d, _, rfl⟩ := h
  exact ⟨d, rfl⟩

theorem handleStanza_mem (cfg : Cfg) (s : Server) (src : Nat) (st : Stanza) (o : Out)
    (h : o ∈ handleStanza cfg s src st) :
    (∃ d, o = .deliver src d st) ∨ (∃ d f cond, o = .reply src d (.iqError st.id f st.sender cond)) ∨ o = .ub src := by
  unfold handleStanza at h
  split at h
  · split at h
    · split at h
      · split at h
        · obtain ⟨d, rfl⟩ := writeTo_mem _ _ _ _ h
          exact Or.inr (Or.inl ⟨d, _, _, rfl⟩)
        · simp at h
      · simp at h
    · simp at h
  · split at h
    · obtain ⟨d, rfl⟩ := writeTo_mem _ _ _ _ h
      exact Or.inl ⟨d, rfl⟩
    · split at h
      · split at h
        · obtain ⟨d, rfl⟩ := writeTo_mem _ _ _ _ h
          exact Or.inr (Or.inl ⟨d, _, _, rfl⟩)
        · simp at h
      · simp at h

theorem unregister_mem (s : Server) (c : Nat) (o : Out) (h : o ∈ (unregister s c).2) :
    o = .closed c ∨ o = .disconnected c (s.conns c).jid := by
  unfold unregister at h
  simp only [] at h
  split at h
  · simp at h; exact Or.inl h
  · simp at h; exact h

theorem kickOld_mem (s0 : Server) (c : Nat) (jid : List Char) (o : Out) (h : o ∈ (kickOld s0 c jid).2) :
    o = .ub c ∨ ∃ k, k ≠ c ∧ (o = .send k (.streamError .conflict) ∨ o = .send k .streamEnd ∨ o = .closed k ∨ ∃ j, o = .disconnected k j) := by
  unfold kickOld at h
  split at h
  · rename_i o' _
    split at h
    · rename_i hk
      simp only [List.mem_append, List.mem_cons, List.not_mem_nil, or_false] at h
      refine Or.inr ⟨o', hk.1, ?_⟩
      rcases h with (h | h) | h
      · exact Or.inl h
      · exact Or.inr (Or.inl h)
      · rcases unregister_mem _ _ _ h with h | h
        · exact Or.inr (Or.inr (Or.inl h))
        · exact Or.inr (Or.inr (Or.inr ⟨_, h⟩))
    · simp at h
  · simp at h

theorem register_mem (s : Server) (c : Nat) (o : Out) (h : o ∈ (register s c).2) :
    o = .connected c (s.conns c).jid ∨ o = .ub c ∨ (∃ k, k ≠ c ∧ (o = .send k (.streamError .conflict) ∨ o = .send k .streamEnd ∨ o = .closed k ∨ ∃ j, o = .disconnected k j)) := by
  unfold register at h
  simp only [List.mem_append, List.mem_cons, List.not_mem_nil, or_false] at h
  rcases h with h | h
  · exact Or.inr (kickOld_mem _ _ _ _ h)
  · exact Or.inl h

theorem applyOut_needsAuth (cfg : Cfg) (s : Server) (c0 : Nat) (co : COut) (o : Out) (c : Nat)
    (h : o ∈ (applyOut cfg s c0 co).2) (hn : NeedsAuth c o) : c = c0 ∧ GuardedC co := by
  cases co with
  | send e =>
    simp only [applyOut, List.mem_cons, List.not_mem_nil, or_false] at h
    subst h
    cases e <;> simp_all [NeedsAuth, GuardedC]
  | emit st =>
    simp only [applyOut, List.mem_cons] at h
    rcases h with rfl | h
    · exact ⟨hn.symm, trivial⟩
    · rcases handleStanza_mem _ _ _ _ _ h with ⟨d, rfl⟩ | ⟨d, f, cond, rfl⟩ | rfl
      · exact ⟨hn.symm, trivial⟩
      · exact ⟨hn.symm, trivial⟩
      · simp [NeedsAuth] at hn
  | bound =>
    simp only [applyOut] at h
    rcases register_mem _ _ _ h with rfl | rfl | ⟨k, _, rfl | rfl | rfl | ⟨j, rfl⟩⟩
    · exact ⟨hn.symm, trivial⟩
    all_goals simp [NeedsAuth] at hn
  | closed =>
    simp only [applyOut] at h
    rcases unregister_mem _ _ _ h with rfl | rfl <;> simp [NeedsAuth] at hn
  | authed j =>
    simp only [applyOut, List.mem_cons, List.not_mem_nil, or_false] at h
    subst h; simp [NeedsAuth] at hn
  | ub =>
    simp only [applyOut, List.mem_cons, List.not_mem_nil, or_false] at h
    subst h; simp [NeedsAuth] at hn

theorem applyOuts_needsAuth (cfg : Cfg) (c0 : Nat) (o : Out) (c : Nat) (hn : NeedsAuth c o) :
    ∀ (couts : List COut) (s : Server), o ∈ (applyOuts cfg s c0 couts).2 → c = c0 ∧ ∃ g ∈ couts, GuardedC g := by
  intro couts
  induction couts with
  | nil => intro s h; simp [applyOuts] at h
  | cons co rest ih =>
    intro s h
    simp only [applyOuts, List.mem_append] at h
    rcases h with h | h
    · have := applyOut_needsAuth cfg s c0 co o c h hn
      exact ⟨this.1, co, by simp, this.2⟩
    · obtain ⟨h1, g, hg, hgg⟩ := ih _ h
      exact ⟨h1, g, by simp [hg], hgg⟩

/-- an authentication record at the head of a connection's outputs is the head of the server's outputs -/
theorem applyOuts_authed_head (cfg : Cfg) (s : Server) (c0 : Nat) (j : List Char) (tl : List COut) :
    ∃ rest, (applyOuts cfg s c0 (.authed j :: tl)).2 = .authed c0 j :: rest := by
  simp [applyOuts, applyOut]



/-- the only thing the server does to a connection other than the acting one: close it (conflict) -/
def Closes (a b : Conn) : Prop := b = a ∨ b = { a with closed := true, pending := [] }

theorem Closes.refl (a : Conn) : Closes a a := Or.inl rfl

theorem Closes.trans {a b c : Conn} (h1 : Closes a b) (h2 : Closes b c) : Closes a c := by
  rcases h1 with rfl | rfl
  · exact h2
  · rcases h2 with rfl | rfl
    · exact Or.inr rfl
    · exact Or.inr rfl

theorem Closes.jid {a b : Conn} (h : Closes a b) : b.jid = a.jid := by
  rcases h with rfl | rfl <;> rfl

theorem unregister_conns (s : Server) (c : Nat) : (unregister s c).1.conns = s.conns := rfl

theorem kickOld_conns (s0 : Server) (c : Nat) (jid : List Char) (i : Nat) :
    Closes (s0.conns i) ((kickOld s0 c jid).1.conns i) ∧ (i = c → (kickOld s0 c jid).1.conns i = s0.conns i) := by
  unfold kickOld
  split
  · rename_i o _
    split
    · rename_i hk
      simp only [unregister_conns, setConn]
      by_cases hi : i = o
      · subst hi
        simp only [if_true]
        exact ⟨Or.inr rfl, fun h => absurd h hk.1⟩
      · simp only [hi, if_false]
        exact ⟨Or.inl rfl, fun _ => trivial⟩
    · exact ⟨Or.inl rfl, fun _ => rfl⟩
  · exact ⟨Or.inl rfl, fun _ => rfl⟩

theorem register_conns (s : Server) (c i : Nat) :
    Closes (s.conns i) ((register s c).1.conns i) ∧ (i = c → (register s c).1.conns i = s.conns i) :=
  kickOld_conns (dropEntries s c) c (s.conns c).jid i

theorem applyOut_conns (cfg : Cfg) (s : Server) (c0 : Nat) (co : COut) (i : Nat) :
    Closes (s.conns i) ((applyOut cfg s c0 co).1.conns i) ∧ (i = c0 → (applyOut cfg s c0 co).1.conns i = s.conns i) := by
  cases co with
  | bound => exact register_conns s c0 i
  | closed => simp only [applyOut, unregister_conns]; exact ⟨Or.inl rfl, fun _ => trivial⟩
  | _ => exact ⟨Or.inl rfl, fun _ => rfl⟩

theorem applyOuts_conns (cfg : Cfg) (c0 : Nat) (i : Nat) : ∀ (couts : List COut) (s : Server),
    Closes (s.conns i) ((applyOuts cfg s c0 couts).1.conns i) ∧ (i = c0 → (applyOuts cfg s c0 couts).1.conns i = s.conns i) := by
  intro couts
  induction couts with
  | nil => intro s; exact ⟨Or.inl rfl, fun _ => rfl⟩
  | cons co rest ih =>
    intro s
    simp only [applyOuts]
    have h1 := applyOut_conns cfg s c0 co i
    have h2 := ih (applyOut cfg s c0 co).1
    exact ⟨h1.1.trans h2.1, fun h => by rw [h2.2 h, h1.2 h]⟩

/-- after a step, the acting connection is exactly what `connStep` made of it; any other one is unchanged or
has been closed -/
theorem step_conns (cfg : Cfg) (s : Server) (op : Nat × Ev) (i : Nat) :
    (i = op.1 → (step cfg s op).1.conns i = (connStepAny cfg (freshRes s.gen) (s.conns op.1) op.2).conn) ∧
    (i ≠ op.1 → Closes (s.conns i) ((step cfg s op).1.conns i)) := by
  unfold step
  simp only []
  constructor
  · intro h
    rw [(applyOuts_conns cfg op.1 i _ _).2 h]
    simp [setConn, h]
  · intro h
    have := (applyOuts_conns cfg op.1 i (connStepAny cfg (freshRes s.gen) (s.conns op.1) op.2).outs
      { setConn s op.1 (connStepAny cfg (freshRes s.gen) (s.conns op.1) op.2).conn with
        gen := if (connStepAny cfg (freshRes s.gen) (s.conns op.1) op.2).used then s.gen + 1 else s.gen }).1
    simpa [setConn, h] using this



/-! ### "authenticated before": every connection with a jid has an authentication record in the log -/

def AuthLog (s : Server) (L : List Out) : Prop := ∀ c, (s.conns c).jid ≠ [] → ∃ j, Out.authed c j ∈ L

theorem authLog_init : AuthLog init [] := by
  intro c h; simp [init] at h

theorem step_outs_authHead (cfg : Cfg) (s : Server) (op : Nat × Ev)
    (h : AuthHead (connStepAny cfg (freshRes s.gen) (s.conns op.1) op.2)) :
    ∃ j rest, (step cfg s op).2 = .authed op.1 j :: rest := by
  obtain ⟨j, tl, ho, _⟩ := h
  unfold step
  simp only [ho]
  obtain ⟨rest, hr⟩ := applyOuts_authed_head cfg
    { setConn s op.1 (connStepAny cfg (freshRes s.gen) (s.conns op.1) op.2).conn with
      gen := if (connStepAny cfg (freshRes s.gen) (s.conns op.1) op.2).used then s.gen + 1 else s.gen } op.1 j tl
  exact ⟨j, rest, hr⟩

theorem authLog_step (cfg : Cfg) (s : Server) (L : List Out) (op : Nat × Ev)
    (hinv : AuthLog s L) : AuthLog (step cfg s op).1 (L ++ (step cfg s op).2) := by
  intro c hj
  have hc := step_conns cfg s op c
  by_cases hcop : c = op.1
  · rw [hc.1 hcop] at hj
    rcases shape_connStepAny cfg (freshRes s.gen) (s.conns op.1) op.2 with hq | ha | hx
    · rw [hq.1] at hj
      obtain ⟨j, hm⟩ := hinv op.1 hj
      exact ⟨j, by rw [hcop]; simp [hm]⟩
    · obtain ⟨j, rest, hr⟩ := step_outs_authHead cfg s op ha
      exact ⟨j, by rw [hcop, hr]; simp⟩
    · obtain ⟨j, hm⟩ := hinv op.1 hx
      exact ⟨j, by rw [hcop]; simp [hm]⟩
  · rw [(hc.2 hcop).jid] at hj
    obtain ⟨j, hm⟩ := hinv c hj
    exact ⟨j, by simp [hm]⟩

/-- within one step: an output that presupposes authentication is preceded, in the log so far plus the
earlier outputs of this very step, by an authentication record of that connection -/
theorem step_needsAuth (cfg : Cfg) (s : Server) (L : List Out) (op : Nat × Ev)
    (hinv : AuthLog s L)
    (pre : List Out) (x : Out) (post : List Out) (c : Nat)
    (hsplit : (step cfg s op).2 = pre ++ x :: post) (hn : NeedsAuth c x) : ∃ j, Out.authed c j ∈ L ++ pre := by
  have hx : x ∈ (step cfg s op).2 := by rw [hsplit]; simp
  have hx' := hx
  unfold step at hx'
  obtain ⟨hc, g, hg, hgg⟩ := applyOuts_needsAuth cfg op.1 x c hn _ _ hx'
  rcases shape_connStepAny cfg (freshRes s.gen) (s.conns op.1) op.2 with hq | ha | hj
  · exact absurd hgg (benign_not_guarded (hq.2 g hg))
  · obtain ⟨j, rest, hr⟩ := step_outs_authHead cfg s op ha
    rw [hr] at hsplit
    cases pre with
    | nil =>
      simp only [List.nil_append, List.cons.injEq] at hsplit
      rw [← hsplit.1] at hn
      simp [NeedsAuth] at hn
    | cons p pre' =>
      simp only [List.cons_append, List.cons.injEq] at hsplit
      exact ⟨j, by rw [hc, ← hsplit.1]; simp⟩
  · obtain ⟨j, hm⟩ := hinv op.1 hj
    exact ⟨j, by rw [hc]; simp [hm]⟩

theorem run_needsAuth (cfg : Cfg) : ∀ (ops : List (Nat × Ev)) (s : Server) (L : List Out),
    AuthLog s L →
    ∀ (pre : List Out) (x : Out) (post : List Out) (c : Nat),
      (run cfg s ops).2 = pre ++ x :: post → NeedsAuth c x → ∃ j, Out.authed c j ∈ L ++ pre := by
  intro ops
  induction ops with
  | nil => intro s L _ pre x post c h; simp [run] at h
  | cons op ops ih =>
    intro s L hinv pre x post c hsplit hn
    simp only [run] at hsplit
    have hinv' := authLog_step cfg s L op hinv
    rcases List.append_eq_append_iff.mp hsplit with ⟨as, hpre, hrest⟩ | ⟨bs, hstep, hrest⟩
    · obtain ⟨j, hm⟩ := ih _ _ hinv' as x post c hrest hn
      exact ⟨j, by rw [hpre]; simpa [List.append_assoc] using hm⟩
    · cases bs with
      | nil =>
        simp only [List.nil_append] at hrest
        simp only [List.append_nil] at hstep
        obtain ⟨j, hm⟩ := ih _ _ hinv' [] x post c hrest.symm hn
        exact ⟨j, by rw [← hstep]; simpa using hm⟩
      | cons b bs' =>
        simp only [List.cons_append, List.cons.injEq] at hrest
        rw [← hrest.1] at hstep
        exact step_needsAuth cfg s L op hinv pre x bs' c hstep hn



/-! ### who a connection is taken for: the invariant behind `auth_only_if_checker_approved`

`A u`  = "this connection has presented a credential for `u` that the checker approves" (so far),
`H p`  = "this connection has sent the SASL payload `p`" (so far). -/

structure SaslOk (A : List Char → Prop) (s : Sasl) : Prop where
  /-- a DIGEST-MD5 object waiting for the final empty response has verified its user -/
  step2 : s.mech = .digest → s.step = 2 → A s.user
  /-- before that it holds no digest (every failed verification closes the connection) -/
  step1 : s.mech = .digest → s.step ≤ 1 → s.digest = none
  /-- DIGEST-MD5 / ANONYMOUS objects have answered their `<auth/>` -/
  pos : s.mech ≠ .plain → 1 ≤ s.step

structure Live (cfg : Cfg) (A : List Char → Prop) (H : Payload → Prop) (x : Conn) : Prop where
  /-- an outstanding password reply belongs to the current PLAIN object and is the checker's verdict on
  exactly the user and password that object holds -/
  pw_ok : ∀ res, Pending.pw res ∈ x.pending →
    ∃ s, x.sasl = some s ∧ s.mech = .plain ∧ s.step = 1 ∧ res = cfg.check s.user s.pass ∧ H (.creds s.user s.pass) ∧
      ¬ badName s.user
  /-- an outstanding digest reply is the checker's digest for the user named in the raw response it carries -/
  dg_ok : ∀ res u sec, Pending.dg res u sec ∈ x.pending → res = cfg.digestOf u ∧ ¬ badName u ∧ ∃ q, H (.dresp u sec q)
  sasl_ok : ∀ s, x.sasl = some s → SaslOk A s

structure ConnInv (cfg : Cfg) (A : List Char → Prop) (H : Payload → Prop) (x : Conn) : Prop where
  jid_ok : x.jid ≠ [] → ∃ u, A u ∧ JidOf cfg u x.jid
  live : x.closed = false → Live cfg A H x

theorem ConnInv.mono {cfg : Cfg} {A A' : List Char → Prop} {H H' : Payload → Prop} {x : Conn}
    (hA : ∀ u, A u → A' u) (hH : ∀ p, H p → H' p) (h : ConnInv cfg A H x) : ConnInv cfg A' H' x where
  jid_ok := fun hj => let ⟨u, hu, hjid⟩ := h.jid_ok hj; ⟨u, hA u hu, hjid⟩
  live := fun hc =>
    let l := h.live hc
    { pw_ok := fun res hm => let ⟨s, h1, h2, h3, h4, h5, h6⟩ := l.pw_ok res hm; ⟨s, h1, h2, h3, h4, hH _ h5, h6⟩
      dg_ok := fun res u sec hm => let ⟨h1, hb, q, h2⟩ := l.dg_ok res u sec hm; ⟨h1, hb, q, hH _ h2⟩
      sasl_ok := fun s hs =>
        let k := l.sasl_ok s hs
        { step2 := fun a b => hA _ (k.step2 a b), step1 := k.step1, pos := k.pos } }

/-- a closed connection only has to keep an approved jid -/
theorem ConnInv.of_closed {cfg : Cfg} {A : List Char → Prop} {H : Payload → Prop} {y : Conn}
    (hc : y.closed = true) (hj : y.jid ≠ [] → ∃ u, A u ∧ JidOf cfg u y.jid) : ConnInv cfg A H y where
  jid_ok := hj
  live := fun h => by rw [hc] at h; cases h

/-- fields the invariant does not look at may change freely -/
theorem ConnInv.congr {cfg : Cfg} {A : List Char → Prop} {H : Payload → Prop} {x y : Conn}
    (h : ConnInv cfg A H x) (hj : y.jid = x.jid) (hp : ∀ e, e ∈ y.pending → e ∈ x.pending) (hs : y.sasl = x.sasl)
    (hc : y.closed = x.closed) : ConnInv cfg A H y where
  jid_ok := by rw [hj]; exact h.jid_ok
  live := fun hcl =>
    let l := h.live (by rw [← hc]; exact hcl)
    { pw_ok := fun res hm => by rw [hs]; exact l.pw_ok res (hp _ hm)
      dg_ok := fun res u sec hm => l.dg_ok res u sec (hp _ hm)
      sasl_ok := fun s hsm => l.sasl_ok s (by rw [← hs]; exact hsm) }

theorem inv_disconnect {cfg : Cfg} {A : List Char → Prop} {H : Payload → Prop} (c : Conn) (pre : List COut)
    (hj : c.jid ≠ [] → ∃ u, A u ∧ JidOf cfg u c.jid) : ConnInv cfg A H (disconnect c pre).conn :=
  ConnInv.of_closed rfl hj

theorem inv_failClose {cfg : Cfg} {A : List Char → Prop} {H : Payload → Prop} (c : Conn) (v2 : Bool) (cond : Cond)
    (hj : c.jid ≠ [] → ∃ u, A u ∧ JidOf cfg u c.jid) : ConnInv cfg A H (failClose c v2 cond).conn := by
  unfold failClose
  apply inv_disconnect
  cases v2 <;> exact hj

theorem inv_ubRes {cfg : Cfg} {A : List Char → Prop} {H : Payload → Prop} (c : Conn)
    (hj : c.jid ≠ [] → ∃ u, A u ∧ JidOf cfg u c.jid) : ConnInv cfg A H (ubRes c).conn :=
  ConnInv.of_closed rfl hj

theorem saslOk_plain {A : List Char → Prop} (s : Sasl) (h : s.mech = .plain) : SaslOk A s where
  step2 := fun hd => by rw [h] at hd; cases hd
  step1 := fun hd => by rw [h] at hd; cases hd
  pos := fun hn => absurd h hn

theorem dropPending_pending (y : Conn) : (dropPending y).pending = [] := rfl

theorem dropPending_fields (y : Conn) :
    (dropPending y).jid = y.jid ∧ (dropPending y).sasl = y.sasl ∧ (dropPending y).closed = y.closed :=
  ⟨rfl, rfl, rfl⟩

section handlers
variable {cfg : Cfg} {A : List Char → Prop} {H : Payload → Prop}

/-- a connection with nothing outstanding only needs an approved jid and a sound SASL object -/
theorem ConnInv.of_no_pending {y : Conn} (hp : y.pending = [])
    (hj : y.jid ≠ [] → ∃ u, A u ∧ JidOf cfg u y.jid) (hs : ∀ s, y.sasl = some s → SaslOk A s) : ConnInv cfg A H y where
  jid_ok := hj
  live := fun _ =>
    { pw_ok := fun res hm => by rw [hp] at hm; cases hm
      dg_ok := fun res u sec hm => by rw [hp] at hm; cases hm
      sasl_ok := hs }

theorem inv_openStream (x : Conn) (to : List Char) (h : ConnInv cfg A H x) : ConnInv cfg A H (openStream cfg x to).conn := by
  unfold openStream
  simp only []
  have hf := dropPending_fields { x with opened := true, sasl := none }
  have hp := dropPending_pending { x with opened := true, sasl := none }
  split
  · apply inv_disconnect; rw [hf.1]; exact h.jid_ok
  · apply ConnInv.of_no_pending hp
    · rw [hf.1]; exact h.jid_ok
    · intro s hs; rw [hf.2.1] at hs; cases hs

/-- `<auth/>`: a fresh SASL object answers its first input -/
theorem fresh_respond (m : Mech) (p : Payload) :
    (((Sasl.respond { mech := m } p).2 = .inputNeeded →
        m = .plain ∧ ∃ u pw, p = .creds u pw ∧ (Sasl.respond { mech := m } p).1 = { mech := .plain, user := u, pass := pw, step := 1 }) ∧
     (∀ ch, (Sasl.respond { mech := m } p).2 = .challenge ch → SaslOk A (Sasl.respond { mech := m } p).1)) := by
  cases m
  · cases p <;> simp [Sasl.respond, respondPlain, saslOk_plain]
  · refine ⟨by simp [Sasl.respond, respondDigest], ?_⟩
    intro ch _
    simp only [Sasl.respond, respondDigest, if_true]
    exact { step2 := by simp, step1 := by simp, pos := by simp }
  · simp [Sasl.respond, respondAnon]

theorem checkCredentials_plain (c : Conn) (s : Sasl) (p : Payload) (hm : s.mech = .plain) :
    checkCredentials cfg c s p = { c with pending := c.pending ++ [.pw (cfg.check s.user s.pass)] } := by
  simp [checkCredentials, hm]

theorem checkCredentials_digest (c : Conn) (s : Sasl) (u sec : List Char) (q : Bool) (hm : s.mech = .digest) :
    checkCredentials cfg c s (.dresp u sec q) = { c with pending := c.pending ++ [.dg (cfg.digestOf s.user) u sec] } := by
  simp [checkCredentials, hm]

/-- the name guard, then the request to the checker: the new outstanding reply is for the current object's user,
whose name is well-formed -/
theorem inv_credStep (c : Conn) (s : Sasl) (p : Payload)
    (hj : c.jid ≠ [] → ∃ u, A u ∧ JidOf cfg u c.jid) (hsasl : c.sasl = some s)
    (hdg : ∀ res u sec, Pending.dg res u sec ∈ c.pending → res = cfg.digestOf u ∧ ¬ badName u ∧ ∃ q, H (.dresp u sec q))
    (hnopw : ∀ res, Pending.pw res ∉ c.pending)
    (hnew : (s.mech = .plain ∧ s.step = 1 ∧ H (.creds s.user s.pass)) ∨
            (s.mech = .digest ∧ s.step = 1 ∧ s.digest = none ∧ ∃ sec, p = .dresp s.user sec true ∧ H p)) :
    ConnInv cfg A H (credStep cfg c s p).conn := by
  unfold credStep
  split
  · exact inv_failClose _ _ _ hj
  · rename_i hgood
    rcases hnew with ⟨hm, hstep, hH⟩ | ⟨hm, hstep, hd, sec, hp, hH⟩
    · rw [checkCredentials_plain _ _ _ hm]
      refine ⟨hj, fun _ => ⟨?_, ?_, ?_⟩⟩
      · intro res hmem
        simp only [List.mem_append, List.mem_cons, List.not_mem_nil, or_false] at hmem
        rcases hmem with hmem | hmem
        · exact absurd hmem (hnopw res)
        · injection hmem with hmem
          exact ⟨s, hsasl, hm, hstep, hmem, hH, hgood⟩
      · intro res u' sec' hmem
        simp only [List.mem_append, List.mem_cons, List.not_mem_nil, or_false] at hmem
        rcases hmem with hmem | hmem
        · exact hdg res u' sec' hmem
        · cases hmem
      · intro s' hs'
        rw [show ({ c with pending := c.pending ++ [Pending.pw (cfg.check s.user s.pass)] } : Conn).sasl = c.sasl from rfl, hsasl] at hs'
        injection hs' with hs'; subst hs'
        exact saslOk_plain _ hm
    · rw [hp, checkCredentials_digest _ _ _ _ _ hm]
      refine ⟨hj, fun _ => ⟨?_, ?_, ?_⟩⟩
      · intro res hmem
        simp only [List.mem_append, List.mem_cons, List.not_mem_nil, or_false] at hmem
        rcases hmem with hmem | hmem
        · exact absurd hmem (hnopw res)
        · cases hmem
      · intro res u' sec' hmem
        simp only [List.mem_append, List.mem_cons, List.not_mem_nil, or_false] at hmem
        rcases hmem with hmem | hmem
        · exact hdg res u' sec' hmem
        · injection hmem with h1' h2' h3'
          subst h1' h2' h3'
          exact ⟨rfl, hgood, true, by rw [← hp]; exact hH⟩
      · intro s' hs'
        rw [show ({ c with pending := c.pending ++ [Pending.dg (cfg.digestOf s.user) s.user sec] } : Conn).sasl = c.sasl from rfl, hsasl] at hs'
        injection hs' with hs'; subst hs'
        exact { step2 := fun _ h2 => by omega
                step1 := fun _ _ => hd
                pos := fun _ => by omega }

theorem inv_authStep (x : Conn) (v2 : Bool) (m : List Char) (p : Payload) (b : Bool) (h : ConnInv cfg A H x)
    (hev : H p) : ConnInv cfg A H (authStep cfg x v2 m p b).conn := by
  unfold authStep
  simp only []
  have hf := dropPending_fields { x with v2 := v2, s2req := if v2 then some b else none }
  have hp := dropPending_pending { x with v2 := v2, s2req := if v2 then some b else none }
  generalize dropPending { x with v2 := v2, s2req := if v2 then some b else none } = c0 at *
  have hjid : c0.jid ≠ [] → ∃ u, A u ∧ JidOf cfg u c0.jid := by rw [hf.1]; exact h.jid_ok
  split
  · exact inv_disconnect _ _ hjid
  · rename_i mm _
    have hfr := fresh_respond (A := A) mm p
    split
    · rename_i hr
      obtain ⟨hm, u, pw, hpp, hs1⟩ := hfr.1 hr
      rw [hs1]
      refine inv_credStep { c0 with sasl := some { mech := .plain, user := u, pass := pw, step := 1 } }
        { mech := .plain, user := u, pass := pw, step := 1 } p hjid rfl ?_ ?_ (Or.inl ⟨rfl, rfl, by rw [← hpp]; exact hev⟩)
      · intro res u' sec hmem
        have hmem' : Pending.dg res u' sec ∈ c0.pending := hmem
        rw [hp] at hmem'; cases hmem'
      · intro res hmem
        have hmem' : Pending.pw res ∈ c0.pending := hmem
        rw [hp] at hmem'; cases hmem'
    · rename_i ch hr
      refine ConnInv.of_no_pending (y := { c0 with sasl := _ }) hp hjid ?_
      intro s hs; injection hs with hs; subst hs
      exact hfr.2 ch hr
    · exact inv_failClose _ _ _ hjid

end handlers


/-! ### what `respond` can answer -/

theorem respond_inputNeeded {s : Sasl} {p : Payload} (h : (s.respond p).2 = .inputNeeded) :
    (s.mech = .plain ∧ s.step = 0 ∧ ∃ u pw, p = .creds u pw ∧ (s.respond p).1 = { s with user := u, pass := pw, step := 1 }) ∨
    (s.mech = .digest ∧ s.step = 1 ∧ s.digest = none ∧ ∃ u sec, p = .dresp u sec true ∧ (s.respond p).1 = { s with user := u }) := by
  obtain ⟨mech, step, user, pass, digest⟩ := s
  cases mech
  · rcases step with _ | n
    · cases p <;> simp_all [Sasl.respond, respondPlain]
    · simp [Sasl.respond, respondPlain] at h
  · rcases step with _ | _ | _ | n
    · simp [Sasl.respond, respondDigest] at h
    · cases p with
      | dresp u sec q =>
        cases q
        · simp [Sasl.respond, respondDigest] at h
        · cases digest with
          | none => simp [Sasl.respond, respondDigest]
          | some d =>
            simp only [Sasl.respond, respondDigest] at h
            by_cases hs : sec = d <;> simp [hs] at h
      | _ => simp [Sasl.respond, respondDigest] at h
    · simp [Sasl.respond, respondDigest] at h
    · simp [Sasl.respond, respondDigest] at h
  · rcases step with _ | n <;> simp [Sasl.respond, respondAnon] at h

theorem respond_succeeded {A : List Char → Prop} {s : Sasl} {p : Payload} (hok : SaslOk A s)
    (h : (s.respond p).2 = .succeeded) : s.mech = .digest ∧ s.step = 2 ∧ (s.respond p).1 = { s with step := 3 } := by
  have hpos := hok.pos
  obtain ⟨mech, step, user, pass, digest⟩ := s
  cases mech
  · rcases step with _ | n
    · cases p <;> simp [Sasl.respond, respondPlain] at h
    · simp [Sasl.respond, respondPlain] at h
  · rcases step with _ | _ | _ | n
    · simp [Sasl.respond, respondDigest] at h
    · cases p with
      | dresp u sec q =>
        cases q
        · simp [Sasl.respond, respondDigest] at h
        · cases digest with
          | none => simp [Sasl.respond, respondDigest] at h
          | some d =>
            simp only [Sasl.respond, respondDigest] at h
            by_cases hs : sec = d <;> simp [hs] at h
      | _ => simp [Sasl.respond, respondDigest] at h
    · simp [Sasl.respond, respondDigest]
    · simp [Sasl.respond, respondDigest] at h
  · rcases step with _ | n
    · simp at hpos
    · simp [Sasl.respond, respondAnon] at h

/-- `onDigestReply`: the current object gets the checker's digest and sees the raw response again; it can only
answer with a challenge if it is a DIGEST-MD5 object at step 1 and the response was computed from that digest -/
theorem respond_challenge_withDigest {A : List Char → Prop} {s : Sasl} {d : Option (List Char)} {u sec : List Char} {ch : Chal}
    (hok : SaslOk A s)
    (h : (Sasl.respond { s with digest := d } (.dresp u sec true)).2 = .challenge ch) :
    s.mech = .digest ∧ d = some sec ∧
      (Sasl.respond { s with digest := d } (.dresp u sec true)).1 = { s with digest := d, user := u, step := 2 } := by
  have hpos := hok.pos
  obtain ⟨mech, step, user, pass, digest⟩ := s
  cases mech
  · rcases step with _ | n <;> simp [Sasl.respond, respondPlain] at h
  · rcases step with _ | _ | _ | n
    · simp at hpos
    · cases d with
      | none => simp [Sasl.respond, respondDigest] at h
      | some d' =>
        simp only [Sasl.respond, respondDigest] at h ⊢
        by_cases hs : sec = d'
        · simp [hs]
        · simp [hs] at h
    · simp [Sasl.respond, respondDigest] at h
    · simp [Sasl.respond, respondDigest] at h
  · rcases step with _ | n <;> simp [Sasl.respond, respondAnon] at h



section handlers2
variable {cfg : Cfg} {A : List Char → Prop} {H : Payload → Prop}

theorem Live.congr {x y : Conn} (h : Live cfg A H x) (hp : ∀ e, e ∈ y.pending → e ∈ x.pending) (hs : y.sasl = x.sasl) :
    Live cfg A H y where
  pw_ok := fun res hm => by rw [hs]; exact h.pw_ok res (hp _ hm)
  dg_ok := fun res u sec hm => h.dg_ok res u sec (hp _ hm)
  sasl_ok := fun s hsm => h.sasl_ok s (by rw [← hs]; exact hsm)

theorem inv_authSuccess (fresh : List Char) (c : Conn) (u : List Char) (v2 : Bool) (hu : A u)
    (hl : c.closed = false → Live cfg A H c) :
    ConnInv cfg A H (authSuccess fresh c (mkBare u cfg.domain) v2).conn := by
  unfold authSuccess
  simp only []
  split
  · unfold sasl2Authenticated
    split
    · exact ConnInv.of_closed rfl (fun _ => ⟨u, hu, Or.inl rfl⟩)
    · exact ⟨fun _ => ⟨u, hu, Or.inr ⟨fresh, rfl⟩⟩, fun hc => (hl hc).congr (fun _ h => h) rfl⟩
    · exact ⟨fun _ => ⟨u, hu, Or.inl rfl⟩, fun hc => (hl hc).congr (fun _ h => h) rfl⟩
  · exact ⟨fun _ => ⟨u, hu, Or.inl rfl⟩, fun hc => (hl hc).congr (fun _ h => h) rfl⟩

theorem inv_responseStep (fresh : List Char) (x : Conn) (v2 : Bool) (p : Payload) (h : ConnInv cfg A H x)
    (hx : x.closed = false) (hev : H p) : ConnInv cfg A H (responseStep cfg fresh x v2 p).conn := by
  have hl := h.live hx
  unfold responseStep
  split
  · exact inv_disconnect _ _ h.jid_ok
  · rename_i s hs
    have hok := hl.sasl_ok s hs
    split
    · exact inv_disconnect _ _ h.jid_ok
    · simp only []
      split
      · rename_i hr
        rcases respond_inputNeeded hr with ⟨hm, h0, u, pw, hp, hs1⟩ | ⟨hm, h1, hd, u, sec, hp, hs1⟩
        · -- PLAIN object at step 0: no password reply can be outstanding for it
          have hnopw : ∀ res, Pending.pw res ∉ x.pending := by
            intro res hmem
            obtain ⟨s', hs', _, hstep, _⟩ := hl.pw_ok res hmem
            rw [hs] at hs'; injection hs' with hs'; subst hs'
            omega
          rw [hs1]
          exact inv_credStep _ _ _ h.jid_ok rfl hl.dg_ok hnopw (Or.inl ⟨hm, rfl, by rw [← hp]; exact hev⟩)
        · have hnopw : ∀ res, Pending.pw res ∉ x.pending := by
            intro res hmem
            obtain ⟨s', hs', hpl, _⟩ := hl.pw_ok res hmem
            rw [hs] at hs'; injection hs' with hs'; subst hs'
            rw [hm] at hpl; cases hpl
          rw [hs1]
          exact inv_credStep _ _ _ h.jid_ok rfl hl.dg_ok hnopw (Or.inr ⟨hm, h1, hd, sec, hp, hev⟩)
      · rename_i hr
        obtain ⟨hm, h2, hs1⟩ := respond_succeeded hok hr
        rw [hs1]
        apply inv_authSuccess fresh _ s.user v2 (hok.step2 hm h2)
        intro _
        refine ⟨?_, hl.dg_ok, ?_⟩
        · intro res hmem
          obtain ⟨s', hs', hpl, _⟩ := hl.pw_ok res hmem
          rw [hs] at hs'; injection hs' with hs'; subst hs'
          rw [hm] at hpl; cases hpl
        · intro s' hs'
          injection hs' with hs'; subst hs'
          exact { step2 := fun _ h => by simp at h, step1 := fun _ h => by simp at h, pos := fun _ => by simp }
      · exact inv_failClose _ _ _ h.jid_ok

end handlers2


section handlers3
variable {cfg : Cfg} {A : List Char → Prop} {H : Payload → Prop}

theorem inv_dgVerify (c0 : Conn) (s : Sasl) (d : Option (List Char)) (u sec : List Char)
    (hj : c0.jid ≠ [] → ∃ u, A u ∧ JidOf cfg u c0.jid)
    (hl : Live cfg A H c0) (hs : c0.sasl = some s)
    (hu : d = some sec → A u) : ConnInv cfg A H (dgVerify c0 s d u sec).conn := by
  have hok := hl.sasl_ok s hs
  unfold dgVerify
  simp only []
  split
  · rename_i ch hr
    obtain ⟨hm, hd, hs1⟩ := respond_challenge_withDigest hok hr
    rw [hs1]
    refine ⟨hj, fun _ => ⟨?_, hl.dg_ok, ?_⟩⟩
    · intro res hmem
      obtain ⟨s', hs', hpl, _⟩ := hl.pw_ok res hmem
      rw [hs] at hs'; injection hs' with hs'; subst hs'
      rw [hm] at hpl; cases hpl
    · intro s' hs'
      injection hs' with hs'; subst hs'
      exact { step2 := fun _ _ => hu hd, step1 := fun _ h => by simp at h, pos := fun _ => by simp }
  · exact inv_failClose _ _ _ hj

theorem inv_deliverReply (fresh : List Char) (x : Conn) (i : Nat) (h : ConnInv cfg A H x) (hx : x.closed = false)
    (hA1 : ∀ u p, H (.creds u p) → cfg.check u p = .ok → ¬ badName u → A u)
    (hA2 : ∀ u sec q, H (.dresp u sec q) → cfg.digestOf u = .digest sec → ¬ badName u → A u) :
    ConnInv cfg A H (deliverReply cfg fresh x i).conn := by
  have hl := h.live hx
  unfold deliverReply
  split
  · exact h
  · rename_i pd hpd
    have hmem : pd ∈ x.pending := List.mem_of_getElem? hpd
    simp only []
    have hl0 : Live cfg A H { x with pending := x.pending.eraseIdx i } :=
      hl.congr (fun e he => List.mem_of_mem_eraseIdx he) rfl
    split
    · exact inv_ubRes _ h.jid_ok
    · rename_i s hs
      split
      · rename_i res
        obtain ⟨s', hs', hpl, hstep, hres, hH, hgood⟩ := hl.pw_ok res hmem
        rw [hs] at hs'; injection hs' with hs'; subst hs'
        cases res with
        | ok => exact inv_authSuccess fresh _ s.user _ (hA1 _ _ hH hres.symm hgood) (fun _ => hl0)
        | bad => exact inv_failClose _ _ _ h.jid_ok
        | temp => exact inv_failClose _ _ _ h.jid_ok
      · rename_i res u sec
        obtain ⟨hres, hgood, q, hH⟩ := hl.dg_ok res u sec hmem
        cases res with
        | temp => exact inv_failClose _ _ _ h.jid_ok
        | digest d =>
          refine inv_dgVerify _ s (some d) u sec h.jid_ok hl0 hs ?_
          intro hd; injection hd with hd
          exact hA2 u sec q hH (by rw [← hres, hd]) hgood
        | nouser =>
          refine inv_dgVerify _ s none u sec h.jid_ok hl0 hs ?_
          intro hd; cases hd

end handlers3


section handlers4
variable {cfg : Cfg} {A : List Char → Prop} {H : Payload → Prop}

theorem inv_gate (x : Conn) (r : CRes) (h : ConnInv cfg A H x) (hr : ConnInv cfg A H r.conn) :
    ConnInv cfg A H (gate x r).conn := by
  unfold gate
  split
  · exact h
  · split
    · exact hr
    · exact h.congr rfl (fun _ he => he) rfl rfl

theorem inv_clientGate (x : Conn) (r : CRes) (h : ConnInv cfg A H x)
    (hr : x.jid ≠ [] → ConnInv cfg A H r.conn) : ConnInv cfg A H (clientGate x r).conn := by
  unfold clientGate
  split
  · exact inv_disconnect _ _ h.jid_ok
  · rename_i hc
    exact hr hc

/-- **one connection step preserves the invariant** -/
theorem inv_connStep (fresh : List Char) (x : Conn) (ev : Ev) (h : ConnInv cfg A H x)
    (hev : ∀ p, ev.payload = some p → H p)
    (hA1 : ∀ u p, H (.creds u p) → cfg.check u p = .ok → ¬ badName u → A u)
    (hA2 : ∀ u sec q, H (.dresp u sec q) → cfg.digestOf u = .digest sec → ¬ badName u → A u) :
    ConnInv cfg A H (connStep cfg fresh x ev).conn := by
  unfold connStep
  split
  · exact h
  · rename_i hc
    have hx : x.closed = false := by simpa using hc
    cases ev with
    | deliver i => exact inv_deliverReply fresh x i h hx hA1 hA2
    | openStream to =>
      simp only []
      split
      · exact h
      · exact inv_openStream x to h
    | auth v2 m p b => exact inv_gate x _ h (inv_authStep x v2 m p b h (hev p rfl))
    | response v2 p => exact inv_gate x _ h (inv_responseStep fresh x v2 p h hx (hev p rfl))
    | abort v2 =>
      apply inv_gate x _ h
      split
      · exact ConnInv.of_no_pending (y := dropPending { x with s2req := none, sasl := none }) rfl h.jid_ok
          (fun s hs => by cases hs)
      · exact h
    | closeStream => exact inv_gate x _ h (inv_disconnect _ _ h.jid_ok)
    | bind res =>
      apply inv_gate x _ h
      apply inv_clientGate x _ h
      intro hj
      obtain ⟨u, hu, hjid⟩ := h.jid_ok hj
      exact ⟨fun _ => ⟨u, hu, hjid.bind _⟩, fun hcl => (h.live hx).congr (fun _ he => he) rfl⟩
    | session =>
      apply inv_gate x _ h
      exact inv_clientGate x _ h (fun _ => h)
    | stanza st =>
      apply inv_gate x _ h
      apply inv_clientGate x _ h
      intro _
      unfold clientStanza
      split <;> exact h
    | sameRead e => exact h

end handlers4


/-! ### the invariant over whole runs -/

/-- connection `c` has sent the SASL payload `p` -/
def Sent (hist : List (Nat × Ev)) (c : Nat) (p : Payload) : Prop := ∃ ev, (c, ev) ∈ hist ∧ ev.payload = some p

/-- approved by the checker AND a well-formed name (the server's own guard) -/
def GoodApproved (cfg : Cfg) (hist : List (Nat × Ev)) (c : Nat) (u : List Char) : Prop :=
  Approved cfg hist c u ∧ ¬ badName u

def ServInv (cfg : Cfg) (hist : List (Nat × Ev)) (s : Server) : Prop :=
  ∀ c, ConnInv cfg (GoodApproved cfg hist c) (Sent hist c) (s.conns c)

theorem approved_of_creds {cfg : Cfg} {hist : List (Nat × Ev)} {c : Nat} (u p : List Char)
    (h : Sent hist c (.creds u p)) (hok : cfg.check u p = .ok) : Approved cfg hist c u := by
  obtain ⟨ev, hm, hp⟩ := h
  exact ⟨ev, hm, by simp [Approves, hp, hok]⟩

theorem approved_of_dresp {cfg : Cfg} {hist : List (Nat × Ev)} {c : Nat} (u sec : List Char) (q : Bool)
    (h : Sent hist c (.dresp u sec q)) (hok : cfg.digestOf u = .digest sec) : Approved cfg hist c u := by
  obtain ⟨ev, hm, hp⟩ := h
  exact ⟨ev, hm, by simp [Approves, hp, hok]⟩

theorem servInv_init (cfg : Cfg) : ServInv cfg [] init := by
  intro c
  exact ConnInv.of_no_pending rfl (fun h => absurd rfl h) (fun s hs => by cases hs)

theorem servInv_step (cfg : Cfg) (hist : List (Nat × Ev)) (s : Server) (op : Nat × Ev)
    (hinv : ServInv cfg hist s) :
    ServInv cfg (hist ++ [op]) (step cfg s op).1 := by
  intro c
  have hmono : ConnInv cfg (GoodApproved cfg (hist ++ [op]) c) (Sent (hist ++ [op]) c) (s.conns c) :=
    (hinv c).mono (fun u hu => ⟨hu.1.mono (fun x hx => by simp [hx]), hu.2⟩)
      (fun p ⟨ev, hm, hp⟩ => ⟨ev, by simp [hm], hp⟩)
  have hc := step_conns cfg s op c
  by_cases hcop : c = op.1
  · rw [hc.1 hcop]
    subst hcop
    apply inv_connStep _ _ _ hmono
    · intro p hp
      exact ⟨op.2, by simp, by rw [← payload_strip]; exact hp⟩
    · exact fun u p h1 h2 h3 => ⟨approved_of_creds u p h1 h2, h3⟩
    · exact fun u sec q h1 h2 h3 => ⟨approved_of_dresp u sec q h1 h2, h3⟩
  · rcases hc.2 hcop with h | h
    · rw [h]; exact hmono
    · rw [h]; exact ConnInv.of_closed rfl hmono.jid_ok

theorem servInv_run (cfg : Cfg) : ∀ (ops : List (Nat × Ev)) (hist : List (Nat × Ev)) (s : Server),
    ServInv cfg hist s →
    ServInv cfg (hist ++ ops) (run cfg s ops).1 := by
  intro ops
  induction ops with
  | nil => intro hist s h; simpa [run] using h
  | cons op ops ih =>
    intro hist s h
    have h1 := servInv_step cfg hist s op h
    have h2 := ih (hist ++ [op]) _ h1
    simpa [run, List.append_assoc] using h2

/-! ### where routed / delivered / answered stanzas come from -/

theorem applyOuts_mem (cfg : Cfg) (c0 : Nat) (o : Out) : ∀ (couts : List COut) (s : Server),
    o ∈ (applyOuts cfg s c0 couts).2 → ∃ co ∈ couts, ∃ s', o ∈ (applyOut cfg s' c0 co).2 := by
  intro couts
  induction couts with
  | nil => intro s h; simp [applyOuts] at h
  | cons co rest ih =>
    intro s h
    simp only [applyOuts, List.mem_append] at h
    rcases h with h | h
    · exact ⟨co, by simp, s, h⟩
    · obtain ⟨co', hm, s', hs'⟩ := ih _ h
      exact ⟨co', by simp [hm], s', hs'⟩

/-- a stanza-related server output of a step stems from a stanza the acting connection emitted in that step -/
theorem applyOut_stanza_origin (cfg : Cfg) (s : Server) (c0 : Nat) (co : COut) (o : Out)
    (h : o ∈ (applyOut cfg s c0 co).2) :
    (∀ c st, o = .routed c st → c = c0 ∧ co = .emit st) ∧
    (∀ src dst st, o = .deliver src dst st → src = c0 ∧ co = .emit st) ∧
    (∀ src dst e, o = .reply src dst e → src = c0 ∧ ∃ st f cond, co = .emit st ∧ e = .iqError st.id f st.sender cond) := by
  have none_of : ∀ o' : Out, (∀ c st, o' ≠ .routed c st) → (∀ a b st, o' ≠ .deliver a b st) → (∀ a b e, o' ≠ .reply a b e) →
      o = o' → _ := fun o' h1 h2 h3 ho =>
    (⟨fun c st h => absurd (ho ▸ h) (h1 c st), fun a b st h => absurd (ho ▸ h) (h2 a b st),
      fun a b e h => absurd (ho ▸ h) (h3 a b e)⟩ :
      (∀ c st, o = .routed c st → c = c0 ∧ co = .emit st) ∧
      (∀ src dst st, o = .deliver src dst st → src = c0 ∧ co = .emit st) ∧
      (∀ src dst e, o = .reply src dst e → src = c0 ∧ ∃ st f cond, co = .emit st ∧ e = .iqError st.id f st.sender cond))
  cases co with
  | send e =>
    simp only [applyOut, List.mem_cons, List.not_mem_nil, or_false] at h
    exact none_of _ (by intros; simp) (by intros; simp) (by intros; simp) h
  | emit st =>
    simp only [applyOut, List.mem_cons] at h
    rcases h with rfl | h
    · refine ⟨?_, ?_, ?_⟩
      · intro c st' h; injection h with h1 h2; exact ⟨h1.symm, by rw [h2]⟩
      · intro _ _ _ h; cases h
      · intro _ _ _ h; cases h
    · rcases handleStanza_mem _ _ _ _ _ h with ⟨d, rfl⟩ | ⟨d, f, cond, rfl⟩ | rfl
      · refine ⟨?_, ?_, ?_⟩
        · intro _ _ h; cases h
        · intro a b st' h; injection h with h1 h2 h3; exact ⟨h1.symm, by rw [h3]⟩
        · intro _ _ _ h; cases h
      · refine ⟨?_, ?_, ?_⟩
        · intro _ _ h; cases h
        · intro _ _ _ h; cases h
        · intro a b e h; injection h with h1 h2 h3; exact ⟨h1.symm, st, f, cond, rfl, h3.symm⟩
      · refine ⟨?_, ?_, ?_⟩
        · intro _ _ h; cases h
        · intro _ _ _ h; cases h
        · intro _ _ _ h; cases h
  | bound =>
    simp only [applyOut] at h
    rcases register_mem _ _ _ h with h | h | ⟨k, _, h | h | h | ⟨j, h⟩⟩ <;>
      exact none_of _ (by intros; simp) (by intros; simp) (by intros; simp) h
  | closed =>
    simp only [applyOut] at h
    rcases unregister_mem _ _ _ h with h | h <;>
      exact none_of _ (by intros; simp) (by intros; simp) (by intros; simp) h
  | authed j =>
    simp only [applyOut, List.mem_cons, List.not_mem_nil, or_false] at h
    exact none_of _ (by intros; simp) (by intros; simp) (by intros; simp) h
  | ub =>
    simp only [applyOut, List.mem_cons, List.not_mem_nil, or_false] at h
    exact none_of _ (by intros; simp) (by intros; simp) (by intros; simp) h

/-- the stanza behind a routed / delivered / answered output: emitted by the acting connection in this step,
hence stamped with that connection's own jid, which the step leaves unchanged -/
theorem step_stanza_origin (cfg : Cfg) (s : Server) (op : Nat × Ev) (o : Out) (h : o ∈ (step cfg s op).2)
    (src : Nat) (st : Stanza)
    (ho : (∃ c', o = .routed src st ∧ c' = src) ∨ (∃ dst, o = .deliver src dst st) ∨
          (∃ dst f cond, o = .reply src dst (.iqError st.id f st.sender cond))) :
    src = op.1 ∧ ∃ st' : Stanza, st'.sender = st.sender ∧
      (st'.sender = (s.conns src).jid ∨ st'.sender = bareOf (s.conns src).jid) ∧
      ((step cfg s op).1.conns src).jid = (s.conns src).jid := by
  unfold step at h
  obtain ⟨co, hco, s', hs'⟩ := applyOuts_mem cfg op.1 o _ _ h
  have horig := applyOut_stanza_origin cfg s' op.1 co o hs'
  have key : ∀ st0, co = .emit st0 → src = op.1 → st0.sender = st.sender →
      src = op.1 ∧ ∃ st' : Stanza, st'.sender = st.sender ∧
      (st'.sender = (s.conns src).jid ∨ st'.sender = bareOf (s.conns src).jid) ∧
      ((step cfg s op).1.conns src).jid = (s.conns src).jid := by
    intro st0 hce hsrc hsend
    rw [hce] at hco
    have hem := connStepAny_emit cfg (freshRes s.gen) (s.conns op.1) op.2 st0 hco
    refine ⟨hsrc, st0, hsend, by rw [hsrc]; exact hem.1, ?_⟩
    rw [hsrc, (step_conns cfg s op op.1).1 rfl, hem.2]
  rcases ho with ⟨_, rfl, _⟩ | ⟨dst, rfl⟩ | ⟨dst, f, cond, rfl⟩
  · obtain ⟨h1, h2⟩ := horig.1 _ _ rfl
    exact key st h2 h1 rfl
  · obtain ⟨h1, h2⟩ := horig.2.1 _ _ _ rfl
    exact key st h2 h1 rfl
  · obtain ⟨h1, st0, f0, cond0, h2, h3⟩ := horig.2.2 _ _ _ rfl
    injection h3 with _ _ hto _
    exact key st0 h2 h1 hto.symm


/-- a connection only emits stanzas once it has a jid -/
theorem connStep_emit_jid_ne (cfg : Cfg) (fresh : List Char) (x : Conn) (ev : Ev) (st : Stanza)
    (h : COut.emit st ∈ (connStep cfg fresh x ev).outs) : x.jid ≠ [] := by
  rcases shape_connStep cfg fresh x ev with hq | ha | hj
  · exact absurd h (not_emit_of_quiet hq st)
  · exact absurd h (not_emit_of_authHead ha st)
  · exact hj

/-- what the library's default `checkPassword` / `getDigest` approve is exactly what `getPassword` approves -/
theorem gpApproves_of_approves (domain : List Char) (gp : List Char → PwRes) (md5 : List Char → List Char → List Char)
    (ev : Ev) (u : List Char) (h : Approves (Cfg.ofGetPassword domain gp md5) ev u) : GpApproves gp md5 ev u := by
  unfold Approves at h
  unfold GpApproves
  cases hp : ev.payload with
  | none => simp [hp] at h
  | some p =>
    cases p with
    | creds u' pw =>
      simp only [hp, Cfg.ofGetPassword, checkDefault] at h ⊢
      refine ⟨h.1, ?_⟩
      have h2 := h.2
      cases hg : gp u with
      | ok s =>
        simp only [hg] at h2
        by_cases hs : pw = s
        · rw [hs]
        · simp [hs] at h2
      | nouser => simp [hg] at h2
      | temp => simp [hg] at h2
    | dresp u' sec q =>
      simp only [hp, Cfg.ofGetPassword, digestDefault] at h ⊢
      refine ⟨h.1, ?_⟩
      have h2 := h.2
      cases hg : gp u with
      | ok s =>
        simp only [hg, DigRes.digest.injEq] at h2
        exact ⟨s, rfl, h2.symm⟩
      | nouser => simp [hg] at h2
      | temp => simp [hg] at h2
    | empty => simp [hp] at h
    | junk => simp [hp] at h


/-! ### the routing tables only reference open connections (repo commit c3084c3) -/

/-- a step either leaves the connection's `closed` flag alone, or reports the close (and binds nothing) -/
def CloseOk (x : Conn) (r : CRes) : Prop :=
  r.conn.closed = x.closed ∨ (COut.closed ∈ r.outs ∧ COut.bound ∉ r.outs)

theorem closeOk_disconnect (x c : Conn) (pre : List COut) (hpre : COut.bound ∉ pre) : CloseOk x (disconnect c pre) := by
  right
  simp [disconnect, hpre]

theorem closeOk_failClose (x c : Conn) (v2 : Bool) (cond : Cond) : CloseOk x (failClose c v2 cond) := by
  unfold failClose
  apply closeOk_disconnect
  simp

theorem closeOk_ubRes (x c : Conn) : CloseOk x (ubRes c) := by
  right; simp [ubRes]

theorem closeOk_credStep (cfg : Cfg) (x c : Conn) (s : Sasl) (p : Payload) (hc : c.closed = x.closed) :
    CloseOk x (credStep cfg c s p) := by
  unfold credStep
  split
  · exact closeOk_failClose _ _ _ _
  · left
    show (checkCredentials cfg c s p).closed = x.closed
    unfold checkCredentials
    split
    · exact hc
    · split <;> exact hc
    · exact hc

theorem closeOk_authSuccess (fresh : List Char) (x c : Conn) (j : List Char) (v2 : Bool) (hc : c.closed = x.closed) :
    CloseOk x (authSuccess fresh c j v2) := by
  unfold authSuccess
  simp only []
  split
  · unfold sasl2Authenticated
    split
    · right; simp
    · left; exact hc
    · left; exact hc
  · left; exact hc

theorem closeOk_openStream (cfg : Cfg) (x : Conn) (to : List Char) : CloseOk x (openStream cfg x to) := by
  unfold openStream
  simp only []
  split
  · apply closeOk_disconnect; simp
  · left; rfl

theorem closeOk_authStep (cfg : Cfg) (x : Conn) (v2 : Bool) (m : List Char) (p : Payload) (b : Bool) :
    CloseOk x (authStep cfg x v2 m p b) := by
  unfold authStep
  simp only []
  split
  · apply closeOk_disconnect; simp
  · split
    · exact closeOk_credStep _ _ _ _ _ rfl
    · left; rfl
    · exact closeOk_failClose _ _ _ _

theorem closeOk_responseStep (cfg : Cfg) (fresh : List Char) (x : Conn) (v2 : Bool) (p : Payload) :
    CloseOk x (responseStep cfg fresh x v2 p) := by
  unfold responseStep
  split
  · apply closeOk_disconnect; simp
  · split
    · apply closeOk_disconnect; simp
    · simp only []
      split
      · exact closeOk_credStep _ _ _ _ _ rfl
      · exact closeOk_authSuccess _ _ _ _ _ rfl
      · exact closeOk_failClose _ _ _ _

theorem closeOk_pwReply (cfg : Cfg) (fresh : List Char) (x c0 : Conn) (s : Sasl) (res : CheckRes) (hc : c0.closed = x.closed) :
    CloseOk x (pwReply cfg fresh c0 s res) := by
  cases res
  · exact closeOk_authSuccess _ _ _ _ _ hc
  · exact closeOk_failClose _ _ _ _
  · exact closeOk_failClose _ _ _ _

theorem closeOk_dgVerify (x c0 : Conn) (s : Sasl) (d : Option (List Char)) (u sec : List Char) (hc : c0.closed = x.closed) :
    CloseOk x (dgVerify c0 s d u sec) := by
  unfold dgVerify
  simp only []
  split
  · left; exact hc
  · exact closeOk_failClose _ _ _ _

theorem closeOk_dgReply (x c0 : Conn) (s : Sasl) (u sec : List Char) (res : DigRes) (hc : c0.closed = x.closed) :
    CloseOk x (dgReply c0 s u sec res) := by
  cases res
  · exact closeOk_dgVerify _ _ _ _ _ _ hc
  · exact closeOk_dgVerify _ _ _ _ _ _ hc
  · exact closeOk_failClose _ _ _ _

theorem closeOk_deliverReply (cfg : Cfg) (fresh : List Char) (x : Conn) (i : Nat) :
    CloseOk x (deliverReply cfg fresh x i) := by
  unfold deliverReply
  split
  · left; rfl
  · simp only []
    split
    · exact closeOk_ubRes _ _
    · split
      · exact closeOk_pwReply _ _ _ _ _ _ rfl
      · exact closeOk_dgReply _ _ _ _ _ _ rfl

theorem closeOk_gate (x : Conn) (r : CRes) (h : CloseOk x r) : CloseOk x (gate x r) := by
  unfold gate
  split
  · left; rfl
  · split
    · exact h
    · left; rfl

theorem closeOk_clientGate (x : Conn) (r : CRes) (h : CloseOk x r) : CloseOk x (clientGate x r) := by
  unfold clientGate
  split
  · apply closeOk_disconnect; simp
  · exact h

theorem closeOk_connStep (cfg : Cfg) (fresh : List Char) (x : Conn) (ev : Ev) : CloseOk x (connStep cfg fresh x ev) := by
  unfold connStep
  split
  · left; rfl
  · cases ev with
    | deliver i => exact closeOk_deliverReply cfg fresh x i
    | openStream to =>
      simp only []
      split
      · left; rfl
      · exact closeOk_openStream cfg x to
    | auth v2 m p b => exact closeOk_gate _ _ (closeOk_authStep cfg x v2 m p b)
    | response v2 p => exact closeOk_gate _ _ (closeOk_responseStep cfg fresh x v2 p)
    | abort v2 =>
      apply closeOk_gate
      split
      · left; rfl
      · left; rfl
    | closeStream => exact closeOk_gate _ _ (closeOk_disconnect _ _ _ (by simp))
    | bind res => exact closeOk_gate _ _ (closeOk_clientGate _ _ (Or.inl rfl))
    | session => exact closeOk_gate _ _ (closeOk_clientGate _ _ (Or.inl rfl))
    | stanza st =>
      apply closeOk_gate; apply closeOk_clientGate
      unfold clientStanza
      split <;> exact Or.inl rfl
    | sameRead e => exact Or.inl rfl



/-- every routing-table entry, except possibly those of connection `c0`, points to an open connection -/
def OthersOpen (c0 : Nat) (s : Server) : Prop :=
  ∀ e, (e ∈ s.byJid ∨ e ∈ s.byBare) → e.2 ≠ c0 → (s.conns e.2).closed = false

/-- no routing-table entry points to connection `c0` -/
def NoRef (c0 : Nat) (s : Server) : Prop := ∀ e, (e ∈ s.byJid ∨ e ∈ s.byBare) → e.2 ≠ c0

/-- every routing-table entry points to an open connection -/
def TablesOpen (s : Server) : Prop := ∀ e, (e ∈ s.byJid ∨ e ∈ s.byBare) → (s.conns e.2).closed = false

theorem dropEntries_mem (s : Server) (c : Nat) (e : List Char × Nat)
    (h : e ∈ (dropEntries s c).byJid ∨ e ∈ (dropEntries s c).byBare) :
    (e ∈ s.byJid ∨ e ∈ s.byBare) ∧ e.2 ≠ c := by
  unfold dropEntries at h
  simp only [List.mem_filter, decide_eq_true_eq] at h
  rcases h with h | h
  · exact ⟨Or.inl h.1, h.2⟩
  · exact ⟨Or.inr h.1, h.2⟩

theorem insertEntry_mem (s2 : Server) (c : Nat) (jid : List Char) (e : List Char × Nat)
    (h : e ∈ (insertEntry s2 c jid).byJid ∨ e ∈ (insertEntry s2 c jid).byBare) :
    e.2 = c ∨ (e ∈ s2.byJid ∨ e ∈ s2.byBare) := by
  unfold insertEntry at h
  simp only [] at h
  rcases h with h | h
  · simp only [List.mem_cons, List.mem_filter] at h
    rcases h with rfl | h
    · exact Or.inl rfl
    · exact Or.inr (Or.inl h.1)
  · split at h
    · exact Or.inr (Or.inr h)
    · simp only [List.mem_cons] at h
      rcases h with rfl | h
      · exact Or.inl rfl
      · exact Or.inr (Or.inr h)

/-- the conflict kick keeps "everybody else's entries point to open connections" -/
theorem kickOld_othersOpen (s0 : Server) (c : Nat) (jid : List Char) (h : OthersOpen c s0) :
    OthersOpen c (kickOld s0 c jid).1 ∧ (NoRef c s0 → NoRef c (kickOld s0 c jid).1) := by
  unfold kickOld
  split
  · rename_i o _
    split
    · rename_i hk
      constructor
      · intro e he hne
        obtain ⟨hin, hno⟩ := dropEntries_mem _ o e he
        show ((setConn s0 o _).conns e.2).closed = false
        simp only [setConn, hno, if_false]
        exact h e hin hne
      · intro hn e he
        exact hn e (dropEntries_mem _ o e he).1
    · exact ⟨h, fun x => x⟩
  · exact ⟨h, fun x => x⟩

theorem register_othersOpen (s : Server) (c : Nat) (h : OthersOpen c s) : OthersOpen c (register s c).1 := by
  intro e he hne
  unfold register at he ⊢
  simp only [] at he ⊢
  rcases insertEntry_mem _ c _ e he with h1 | h1
  · exact absurd h1 hne
  · have h0 : OthersOpen c (dropEntries s c) := fun e' he' hne' => h e' (dropEntries_mem s c e' he').1 hne'
    exact (kickOld_othersOpen (dropEntries s c) c (s.conns c).jid h0).1 e h1 hne

theorem applyOut_othersOpen (cfg : Cfg) (s : Server) (c0 : Nat) (co : COut) (h : OthersOpen c0 s) :
    OthersOpen c0 (applyOut cfg s c0 co).1 := by
  cases co with
  | bound => exact register_othersOpen s c0 h
  | closed =>
    intro e he hne
    exact h e (dropEntries_mem s c0 e he).1 hne
  | _ => exact h

theorem applyOut_noRef (cfg : Cfg) (s : Server) (c0 : Nat) (co : COut) (hb : co ≠ .bound) :
    (NoRef c0 s → NoRef c0 (applyOut cfg s c0 co).1) ∧ (co = .closed → NoRef c0 (applyOut cfg s c0 co).1) := by
  cases co with
  | bound => exact absurd rfl hb
  | closed =>
    refine ⟨fun _ e he => (dropEntries_mem s c0 e he).2, fun _ e he => (dropEntries_mem s c0 e he).2⟩
  | send e => exact ⟨fun x => x, fun h => by cases h⟩
  | emit st => exact ⟨fun x => x, fun h => by cases h⟩
  | authed j => exact ⟨fun x => x, fun h => by cases h⟩
  | ub => exact ⟨fun x => x, fun h => by cases h⟩

theorem applyOuts_othersOpen (cfg : Cfg) (c0 : Nat) : ∀ (couts : List COut) (s : Server),
    OthersOpen c0 s → OthersOpen c0 (applyOuts cfg s c0 couts).1 := by
  intro couts
  induction couts with
  | nil => intro s h; exact h
  | cons co rest ih => intro s h; exact ih _ (applyOut_othersOpen cfg s c0 co h)

theorem applyOuts_noRef (cfg : Cfg) (c0 : Nat) : ∀ (couts : List COut) (s : Server), COut.bound ∉ couts →
    (NoRef c0 s → NoRef c0 (applyOuts cfg s c0 couts).1) ∧ (COut.closed ∈ couts → NoRef c0 (applyOuts cfg s c0 couts).1) := by
  intro couts
  induction couts with
  | nil => intro s _; exact ⟨fun x => x, fun h => by cases h⟩
  | cons co rest ih =>
    intro s hb
    have hco : co ≠ .bound := fun e => hb (by simp [e])
    have hrest : COut.bound ∉ rest := fun e => hb (by simp [e])
    have h1 := applyOut_noRef cfg s c0 co hco
    have h2 := ih (applyOut cfg s c0 co).1 hrest
    refine ⟨fun hn => h2.1 (h1.1 hn), fun hm => ?_⟩
    simp only [List.mem_cons] at hm
    rcases hm with hm | hm
    · exact h2.1 (h1.2 hm.symm)
    · exact h2.2 hm

theorem tablesOpen_step (cfg : Cfg) (s : Server) (op : Nat × Ev) (h : TablesOpen s) :
    TablesOpen (step cfg s op).1 := by
  have hconn := (step_conns cfg s op op.1).1 rfl
  have hclose : CloseOk (s.conns op.1) (connStepAny cfg (freshRes s.gen) (s.conns op.1) op.2) :=
    closeOk_connStep cfg (freshRes s.gen) (s.conns op.1) op.2.strip
  unfold step at hconn ⊢
  simp only [] at hconn ⊢
  -- the state handed to `applyOuts`
  have hs1 : OthersOpen op.1 { setConn s op.1 (connStepAny cfg (freshRes s.gen) (s.conns op.1) op.2).conn with
      gen := if (connStepAny cfg (freshRes s.gen) (s.conns op.1) op.2).used then s.gen + 1 else s.gen } := by
    intro e he hne
    simp only [setConn, hne, if_false]
    exact h e he
  have hoo := applyOuts_othersOpen cfg op.1 (connStepAny cfg (freshRes s.gen) (s.conns op.1) op.2).outs _ hs1
  intro e he
  by_cases hne : e.2 = op.1
  case neg => exact hoo e he hne
  · rw [hne, hconn]
    rcases hclose with hsame | ⟨hcl, hnb⟩
    · rw [hsame]
      -- closed before: impossible, the tables did not reference it and an idle step adds nothing
      cases hx : (s.conns op.1).closed with
      | false => rfl
      | true =>
        exfalso
        have hidle : (connStepAny cfg (freshRes s.gen) (s.conns op.1) op.2).outs = [] := by
          unfold connStepAny connStep; simp [hx, idle]
        rw [hidle] at he
        simp only [applyOuts] at he
        have := h e he
        rw [hne, hx] at this
        cases this
    · exfalso
      have hnr := (applyOuts_noRef cfg op.1 (connStepAny cfg (freshRes s.gen) (s.conns op.1) op.2).outs
        { setConn s op.1 (connStepAny cfg (freshRes s.gen) (s.conns op.1) op.2).conn with
          gen := if (connStepAny cfg (freshRes s.gen) (s.conns op.1) op.2).used then s.gen + 1 else s.gen } hnb).2 hcl
      exact hnr e he hne

theorem tablesOpen_run (cfg : Cfg) : ∀ (ops : List (Nat × Ev)) (s : Server), TablesOpen s →
    TablesOpen (run cfg s ops).1 := by
  intro ops
  induction ops with
  | nil => intro s h; exact h
  | cons op ops ih => intro s h; exact ih _ (tablesOpen_step cfg s op h)

theorem tablesOpen_init : TablesOpen init := by
  intro e he; simp [init] at he

/-- whoever `routeData` finds is registered in a table -/
theorem route_found_in_tables (cfg : Cfg) (s : Server) (to : List Char) (found : List Nat) (h : route cfg s to = some found)
    (d : Nat) (hd : d ∈ found) : ∃ e, (e ∈ s.byJid ∨ e ∈ s.byBare) ∧ e.2 = d := by
  unfold route at h
  simp only [] at h
  split at h
  · cases h
  · split at h
    · by_cases hr : resourceOf to = []
      · simp only [hr, if_true] at h
        split at h
        · cases h
        · injection h with h
          subst h
          simp only [List.mem_map, List.mem_filter] at hd
          obtain ⟨e, he, rfl⟩ := hd
          exact ⟨e, Or.inr he.1, rfl⟩
      · simp only [hr, if_false] at h
        split at h
        · cases h
        · injection h with h
          subst h
          have hd' := List.mem_of_mem_take hd
          simp only [List.mem_map, List.mem_filter] at hd'
          obtain ⟨e, he, rfl⟩ := hd'
          exact ⟨e, Or.inl he.1, rfl⟩
    · cases h


theorem not_slash_mkBare (u d : List Char) (hu : ¬ badName u) (hd : '/' ∉ d) : '/' ∉ mkBare u d := by
  unfold badName at hu
  unfold mkBare
  intro h
  simp only [List.mem_append, List.mem_cons] at h
  rcases h with h | h | h
  · exact hu (Or.inr (Or.inl h))
  · cases h
  · exact hd h

end Qx.C16
