import Qx.Model.C16Server
/-! Vocabulary and helper lemmas for C16 (property theorems: Qx/Props/C16.lean). -/
namespace Qx.C16

/-! ### vocabulary used by the theorem statements -/

/-- the SASL payload an element carries, if any -/
def Ev.payload : Ev → Option Payload
  | .auth _ _ p _ => some p
  | .response _ p => some p
  | _ => none

/-- the element presents, for user `u`, a credential that the configured checker approves: a PLAIN
user/password pair with `check u p = ok`, or a DIGEST-MD5 response naming `u` and computed from exactly the
digest the checker holds for `u` -/
def Approves (cfg : Cfg) (ev : Ev) (u : List Char) : Prop :=
  match ev.payload with
  | some (.creds u' p) => u' = u ∧ cfg.check u p = .ok
  | some (.dresp u' sec _) => u' = u ∧ cfg.digestOf u = .digest sec
  | _ => False

/-- connection `c` has, somewhere in the history, sent an element that `Approves` user `u` -/
def Approved (cfg : Cfg) (hist : List (Nat × Ev)) (c : Nat) (u : List Char) : Prop :=
  ∃ ev, (c, ev) ∈ hist ∧ Approves cfg ev u

/-- `j` is `u@domain`, or `u@domain` cut at its first '/' (what `jidToBareJid` does) followed by "/resource" -/
def JidOf (cfg : Cfg) (u j : List Char) : Prop :=
  j = mkBare u cfg.domain ∨ ∃ r, j = withRes (mkBare u cfg.domain) r

/-- bind, session and message/presence/iq: the `jabber:client` elements -/
def isClientStanza : Ev → Bool
  | .bind _ | .session | .stanza _ => true
  | _ => false

/-- everything the client sends (as opposed to the checker finishing a reply) -/
def isElement : Ev → Bool
  | .deliver _ => false
  | _ => true

/-- either fixes/C16-preauth.diff is applied, or the client does not send bind/session/stanzas while the
server-side jid of its connection is still empty -/
def PreauthSafe (cfg : Cfg) (s : Server) (op : Nat × Ev) : Prop :=
  cfg.fixPreauth = true ∨ (isClientStanza op.2 = true → (s.conns op.1).jid ≠ [])

/-- either fixes/C16-reply-binding.diff is applied, or no element of the client is processed while a checker
reply for its connection is still outstanding (what happens when every reply finishes before the next
element is read) -/
def ReplySafe (cfg : Cfg) (s : Server) (op : Nat × Ev) : Prop :=
  cfg.fixReply = true ∨ (isElement op.2 = true → (s.conns op.1).pending = [])

/-- `P` holds of every (state, operation) pair met while running `ops` from `s` -/
def Along (cfg : Cfg) (P : Server → Nat × Ev → Prop) : Server → List (Nat × Ev) → Prop
  | _, [] => True
  | s, op :: ops => P s op ∧ Along cfg P (step cfg s op).1 ops

/-- outputs that presuppose an authenticated sender `c`: a stanza handed to routing, delivered or answered,
a bound resource, a bind or session result -/
def NeedsAuth (c : Nat) : Out → Prop
  | .routed c' _ => c' = c
  | .deliver src _ _ => src = c
  | .reply src _ _ => src = c
  | .connected c' _ => c' = c
  | .send c' (.bindResult _) => c' = c
  | .send c' (.sessionResult _) => c' = c
  | _ => False

/-! ### JID strings -/

theorem takeWhile_takeWhile_append (p : Char → Bool) (c : Char) (hc : p c = false) (r : List Char) :
    ∀ l : List Char, (l.takeWhile p ++ c :: r).takeWhile p = l.takeWhile p := by
  intro l
  induction l with
  | nil => simp [List.takeWhile, hc]
  | cons a t ih =>
    by_cases ha : p a = true
    · simp [List.takeWhile, ha, ih]
    · have ha' : p a = false := by simpa using ha
      simp [List.takeWhile, ha', hc]

theorem bareOf_withRes (j r : List Char) : bareOf (withRes j r) = bareOf j := by
  unfold withRes bareOf
  exact takeWhile_takeWhile_append _ '/' (by decide) r j

theorem withRes_withRes (j r r' : List Char) : withRes (withRes j r) r' = withRes j r' := by
  show bareOf (withRes j r) ++ '/' :: r' = bareOf j ++ '/' :: r'
  rw [bareOf_withRes]

theorem JidOf.bind {cfg : Cfg} {u j : List Char} (h : JidOf cfg u j) (r : List Char) : JidOf cfg u (withRes j r) := by
  rcases h with h | ⟨r', h⟩
  · exact Or.inr ⟨r, by rw [h]⟩
  · exact Or.inr ⟨r, by rw [h, withRes_withRes]⟩

/-- a user name / domain without '/' is not cut by `jidToBareJid` -/
theorem bareOf_eq_self (j : List Char) (h : '/' ∉ j) : bareOf j = j := by
  unfold bareOf
  rw [List.takeWhile_eq_self_iff]
  intro a ha
  have : a ≠ '/' := fun e => h (e ▸ ha)
  simpa using this

theorem Approved.mono {cfg : Cfg} {h1 h2 : List (Nat × Ev)} {c : Nat} {u : List Char}
    (hsub : ∀ x, x ∈ h1 → x ∈ h2) (h : Approved cfg h1 c u) : Approved cfg h2 c u := by
  obtain ⟨ev, hm, ha⟩ := h
  exact ⟨ev, hsub _ hm, ha⟩

end Qx.C16
