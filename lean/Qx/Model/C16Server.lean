/-
C16 — model of the bundled XMPP server's client-facing side:
  src/server/QXmppIncomingClient.cpp (handleStream, handleStanza, onPasswordReply, onDigestReply,
  onSasl2Authenticated), src/server/QXmppServer.cpp (routeData, handleStanza, _q_clientConnected,
  _q_clientDisconnected), src/base/QXmppSasl.cpp (QXmppSaslServer{Plain,DigestMd5,Anonymous}::respond),
  src/base/Stream.cpp (XmppSocket::processData: nothing parses before a stream header).

Any number of connections (numbered), each fed client elements in any order.  The password checker is a
parameter (`Cfg.check`, `Cfg.digestOf`); its answer is computed when the request is made and *delivered later*
(`Ev.deliver i`), exactly like `QXmppPasswordReply::finished` (the stock checker finishes on the next event
loop turn, any other checker whenever it likes).  JIDs, user names and resources are `List Char` (the C++
compares and cuts plain strings: `jidToBareJid` = up to the first '/').

Since repo commits 73b9a89 (jabber:client elements before authentication end the stream with `not-authorized`)
and e590a14 (a checker reply is a child of the SASL object that asked for it and dies with it) the model has no
"unfixed" mode any more; likewise f6325af (user names that are empty or contain '/' or '@' are refused), c3084c3
(a connection's routing entries are all removed on rebind and disconnect) and e17a168 (SASL2 response needs a SASL2
request in progress; SASL2 abort drops the mechanism).  Server-to-server (QXmppIncomingServer, dialback) is not modelled.  No proofs here.
-/
namespace Qx.C16

/-! ### JID strings (QXmppUtils::jidTo*) -/

/-- `jidToBareJid`: everything before the first '/' -/
def bareOf (j : List Char) : List Char := j.takeWhile (· != '/')
/-- `jidToResource`: everything after the first '/' -/
def resourceOf (j : List Char) : List Char := (j.dropWhile (· != '/')).drop 1
/-- text after the last '@' (whole string when there is none) -/
def lastSeg (l : List Char) : List Char := (l.reverse.takeWhile (· != '@')).reverse
/-- `jidToDomain` = `jidToBareJid(jid).split("@").last()` -/
def domainOf (j : List Char) : List Char := lastSeg (bareOf j)
/-- `"%1@%2".arg(user, domain)` -/
def mkBare (u d : List Char) : List Char := u ++ '@' :: d
/-- `"%1/%2".arg(jidToBareJid(jid), resource)` -/
def withRes (j r : List Char) : List Char := bareOf j ++ '/' :: r

/-! ### configuration: the password checker is a parameter -/

inductive CheckRes | ok | bad | temp
  deriving DecidableEq, Repr

inductive DigRes
  | digest (d : List Char)   -- NoError: MD5(user:domain:password), abstracted to a token
  | nouser                   -- AuthorizationError: empty digest
  | temp                     -- TemporaryError
  deriving DecidableEq, Repr

structure Cfg where
  domain : List Char
  check : List Char → List Char → CheckRes
  digestOf : List Char → DigRes

/-! ### the documented way to write a checker: implement only `getPassword()`; `checkPassword()` and
`getDigest()` are then the library's defaults (src/server/QXmppPasswordChecker.cpp) -/

/-- result of `getPassword(request, password)` -/
inductive PwRes
  | ok (secret : List Char)   -- NoError, the account's password
  | nouser                    -- AuthorizationError
  | temp                      -- TemporaryError
  deriving DecidableEq, Repr

/-- `QXmppPasswordChecker::checkPassword` (default): compare with the stored password; any error is passed on
(an authorization error both for "no such user" and for "wrong password") -/
def checkDefault (gp : List Char → PwRes) (u p : List Char) : CheckRes :=
  match gp u with
  | .ok s => if p = s then .ok else .bad
  | .nouser => .bad
  | .temp => .temp

/-- `QXmppPasswordChecker::getDigest` (default): MD5(user:domain:password) — `md5 u s` here — ONLY when
`getPassword` reported no error; otherwise the error and an empty digest -/
def digestDefault (gp : List Char → PwRes) (md5 : List Char → List Char → List Char) (u : List Char) : DigRes :=
  match gp u with
  | .ok s => .digest (md5 u s)
  | .nouser => .nouser
  | .temp => .temp

/-- the configuration a `getPassword`-only checker gives -/
def Cfg.ofGetPassword (domain : List Char) (gp : List Char → PwRes) (md5 : List Char → List Char → List Char) : Cfg :=
  { domain := domain, check := checkDefault gp, digestOf := digestDefault gp md5 }

/-! ### SASL server objects (QXmppSaslServer*) -/

inductive Mech | plain | digest | anon
  deriving DecidableEq, Repr

/-- decoded SASL payload of `<auth/>`, `<response/>`, `<initial-response/>` -/
inductive Payload
  | empty
  /-- `\0user\0pass` -/
  | creds (user pass : List Char)
  /-- bytes that are neither: no NUL, no `qop=auth` -/
  | junk
  /-- DIGEST-MD5 response naming `user`, whose `response=` value was computed from the secret token `secret`
      (= MD5(u:realm:p) of whatever account/password the client used); `qopOk` = it says `qop=auth` -/
  | dresp (user secret : List Char) (qopOk : Bool)
  deriving DecidableEq, Repr

inductive Chal | empty | nonce | rspauth
  deriving DecidableEq, Repr

inductive Resp
  | challenge (c : Chal)
  | inputNeeded
  | succeeded
  | failed
  deriving DecidableEq, Repr

structure Sasl where
  mech : Mech
  step : Nat := 0
  user : List Char := []
  pass : List Char := []
  /-- `passwordDigest()`, `none` = empty -/
  digest : Option (List Char) := none
  deriving DecidableEq, Repr

/-- `QXmppSaslServer::create`: "PLAIN", "DIGEST-MD5", "ANONYMOUS" (spelled as character lists so that the
kernel can evaluate concrete runs) -/
def mechOf (name : List Char) : Option Mech :=
  if name = ['P', 'L', 'A', 'I', 'N'] then some .plain
  else if name = ['D', 'I', 'G', 'E', 'S', 'T', '-', 'M', 'D', '5'] then some .digest
  else if name = ['A', 'N', 'O', 'N', 'Y', 'M', 'O', 'U', 'S'] then some .anon
  else none

/-- `QXmppSaslServerPlain::respond` -/
def respondPlain (s : Sasl) (p : Payload) : Sasl × Resp :=
  if s.step = 0 then
    match p with
    | .empty => (s, .challenge .empty)
    | .creds u pw => ({ s with user := u, pass := pw, step := 1 }, .inputNeeded)
    | _ => (s, .failed)
  else (s, .failed)

/-- `QXmppSaslServerDigestMd5::respond` (the server never has a clear-text password) -/
def respondDigest (s : Sasl) (p : Payload) : Sasl × Resp :=
  if s.step = 0 then ({ s with step := 1 }, .challenge .nonce)
  else if s.step = 1 then
    match p with
    | .dresp u sec true =>
      match s.digest with
      | none => ({ s with user := u }, .inputNeeded)
      | some d =>
        if sec = d then ({ s with user := u, step := 2 }, .challenge .rspauth)
        else ({ s with user := u }, .failed)
    | _ => (s, .failed)
  else if s.step = 2 then ({ s with step := 3 }, .succeeded)
  else (s, .failed)

/-- `QXmppSaslServerAnonymous::respond` -/
def respondAnon (s : Sasl) : Sasl × Resp :=
  if s.step = 0 then ({ s with step := 1 }, .succeeded) else (s, .failed)

def Sasl.respond (s : Sasl) (p : Payload) : Sasl × Resp :=
  match s.mech with
  | .plain => respondPlain s p
  | .digest => respondDigest s p
  | .anon => respondAnon s

/-! ### stanzas, elements on the wire -/

inductive IqType | get | set | result | error
  deriving DecidableEq, Repr

inductive Kind
  | message
  | presence (type : List Char)
  | iq (type : IqType)
  deriving DecidableEq, Repr

/-- a stanza as the server handles it internally: `from`/`to` as `QDomElement::attribute()` returns them -/
structure Stanza where
  kind : Kind
  sender : List Char      -- the `from` attribute
  to : List Char
  id : List Char := []
  deriving DecidableEq, Repr

/-- `QDomElement::attribute(name)`: the empty string both for an absent attribute and for a present, empty one -/
def attrValue : Option (List Char) → List Char
  | some v => v
  | none => []

/-- a stanza as the client writes it: `from` / `to` may be absent (`none`), present and empty (`some []`), or anything -/
structure StanzaIn where
  kind : Kind
  sender : Option (List Char) := none
  to : Option (List Char) := none
  id : List Char := []
  deriving DecidableEq, Repr

/-- what the code reads off the element (it never asks `hasAttribute`) -/
def StanzaIn.attrs (st : StanzaIn) : Stanza :=
  { kind := st.kind, sender := attrValue st.sender, to := attrValue st.to, id := st.id }

inductive Cond
  | none | invalidMechanism | notAuthorized | temporaryAuthFailure | aborted
  | hostUnknown | conflict | streamNotAuthorized
  | featureNotImplemented | serviceUnavailable
  deriving DecidableEq, Repr

/-- what the server writes to a socket -/
inductive Elem
  | hdr
  /-- `<stream:features/>`: bind, session, mechanisms, sasl2 (`some true` = with inline bind2) -/
  | features (bind session mechs : Bool) (sasl2 : Option Bool)
  | chal (v2 : Bool) (c : Chal)
  | success1
  | success2 (jid : List Char) (bound : Bool)
  | failure (v2 : Bool) (cond : Cond)
  | streamError (cond : Cond)
  | streamEnd
  | bindResult (jid : List Char)
  | sessionResult (to : List Char)
  | stanza (st : Stanza)
  | iqError (id sender to : List Char) (cond : Cond)
  deriving DecidableEq, Repr

/-! ### one connection (QXmppIncomingClient + its XmppSocket) -/

/-- a checker reply that has not finished yet -/
inductive Pending
  /-- `checkPassword`: the answer for the (user, password) the PLAIN object held when it asked -/
  | pw (res : CheckRes)
  /-- `getDigest`: the answer for `user`, plus the raw response (`__sasl_raw`) to verify again -/
  | dg (res : DigRes) (user secret : List Char)
  deriving DecidableEq, Repr

structure Conn where
  /-- a stream header has been accepted (`m_streamOpenElement` non-empty) -/
  opened : Bool := false
  /-- data arrived before any stream header: the buffer never parses again -/
  stuck : Bool := false
  closed : Bool := false
  /-- `d->jid`; [] until SASL succeeds (or, today, until an unauthenticated bind) -/
  jid : List Char := []
  resource : List Char := []
  sasl : Option Sasl := none
  /-- `d->saslVersion == Sasl2` -/
  v2 : Bool := false
  /-- `d->sasl2AuthRequest`: engaged? with a bind2 request? -/
  s2req : Option Bool := none
  pending : List Pending := []
  deriving DecidableEq, Repr

/-- client → server alphabet, plus the checker finishing its `i`-th outstanding reply -/
inductive Ev
  | openStream (to : List Char)
  /-- `<auth/>` (v2 = false) or `<authenticate/>` (v2 = true, `bind` = carries a bind2 request) -/
  | auth (v2 : Bool) (mech : List Char) (p : Payload) (bind : Bool)
  | response (v2 : Bool) (p : Payload)
  | abort (v2 : Bool)
  /-- `<iq type='set'><bind/></iq>`; [] = no resource requested -/
  | bind (res : List Char)
  | session
  | stanza (st : StanzaIn)
  | closeStream
  | deliver (i : Nat)
  /-- the element `e`, arriving in the same TCP read as the previous element of this connection (several elements in one
  write).  `XmppSocket::processData` hands every element of a read to `handleStanza`. -/
  | sameRead (e : Ev)
  deriving DecidableEq, Repr

def Ev.strip : Ev → Ev
  | .sameRead e => e.strip
  | e => e

/-- what one connection does in one step -/
inductive COut
  | send (e : Elem)
  /-- `elementReceived(nodeFull)`: handed to the server for routing -/
  | emit (st : Stanza)
  /-- `connected()`: a resource was bound -/
  | bound
  /-- socket closed by the server, `disconnected()` -/
  | closed
  /-- `d->jid` was set by a successful SASL exchange -/
  | authed (jid : List Char)
  /-- the C++ dereferences a null `saslServer` / disengaged `sasl2AuthRequest` here -/
  | ub
  deriving DecidableEq, Repr

structure CRes where
  conn : Conn
  outs : List COut := []
  /-- consumed the fresh (generated) resource -/
  used : Bool := false
  deriving DecidableEq, Repr

def idle (c : Conn) : CRes := { conn := c }

/-- `sendStreamFeatures` -/
def featuresOf (c : Conn) : Elem :=
  if c.jid ≠ [] then .features (c.resource = []) true false none
  else .features false false true (some (c.resource = []))

/-- `disconnectFromHost()` after writing `pre`; the object is deleted, outstanding replies die with it -/
def disconnect (c : Conn) (pre : List COut) : CRes :=
  { conn := { c with closed := true, pending := [] }, outs := pre ++ [.send .streamEnd, .closed] }

/-- undefined behaviour in the C++: the model stops the connection here -/
def ubRes (c : Conn) : CRes :=
  { conn := { c with closed := true, pending := [] }, outs := [.ub, .closed] }

/-- SASL failure + disconnect; the SASL2 paths also reset `sasl2AuthRequest` -/
def failClose (c : Conn) (v2 : Bool) (cond : Cond) : CRes :=
  disconnect (if v2 then { c with s2req := none } else c) [.send (.failure v2 cond)]

/-- `checkCredentials(raw)`: ask the checker; the answer is fixed now, delivered later -/
def checkCredentials (cfg : Cfg) (c : Conn) (s : Sasl) (p : Payload) : Conn :=
  match s.mech with
  | .plain => { c with pending := c.pending ++ [.pw (cfg.check s.user s.pass)] }
  | .digest =>
    match p with
    | .dresp u sec _ => { c with pending := c.pending ++ [.dg (cfg.digestOf s.user) u sec] }
    | _ => c
  | .anon => c

/-- a user name the server refuses to make a JID of (repo commit f6325af): empty, or containing a JID separator -/
def badName (u : List Char) : Prop := u = [] ∨ '/' ∈ u ∨ '@' ∈ u

instance (u : List Char) : Decidable (badName u) := by unfold badName; exact inferInstance

/-- `checkCredentials`, first the name guard: a malformed user name is refused without asking the checker
(failure in the format of the SASL version in use, then disconnect) -/
def credStep (cfg : Cfg) (c : Conn) (s : Sasl) (p : Payload) : CRes :=
  if badName s.user then failClose c c.v2 .notAuthorized
  else { conn := checkCredentials cfg c s p }

/-- `onSasl2Authenticated` -/
def sasl2Authenticated (fresh : List Char) (c : Conn) (pre : List COut) : CRes :=
  match c.s2req with
  | none => { conn := (ubRes c).conn, outs := pre ++ [.ub, .closed] }
  | some true =>
    let c1 := { c with resource := fresh, jid := withRes c.jid fresh, s2req := none }
    { conn := c1, outs := pre ++ [.send (.success2 c1.jid true), .bound, .send (featuresOf c1)], used := true }
  | some false =>
    let c1 := { c with s2req := none }
    { conn := c1, outs := pre ++ [.send (.success2 c.jid false), .send (featuresOf c1)] }

/-- the SASL object is replaced or reset: the checker replies it asked for are its children and die with it
(repo commit e590a14) -/
def dropPending (c : Conn) : Conn := { c with pending := [] }

/-- `handleStream` -/
def openStream (cfg : Cfg) (c : Conn) (to : List Char) : CRes :=
  let c1 := dropPending { c with opened := true, sasl := none }
  if to ≠ cfg.domain then disconnect c1 [.send .hdr, .send (.streamError .hostUnknown)]
  else { conn := c1, outs := [.send .hdr, .send (featuresOf c1)] }

/-- `<auth/>` / `<authenticate/>` -/
def authStep (cfg : Cfg) (c : Conn) (v2 : Bool) (mech : List Char) (p : Payload) (bind : Bool) : CRes :=
  let c0 := dropPending { c with v2 := v2, s2req := if v2 then some bind else none }
  match mechOf mech with
  | none => disconnect { c0 with sasl := none } [.send (.failure v2 .invalidMechanism)]
  | some m =>
    let r := Sasl.respond { mech := m } p
    let c1 := { c0 with sasl := some r.1 }
    match r.2 with
    | .inputNeeded => credStep cfg c1 r.1 p
    | .challenge ch => { conn := c1, outs := [.send (.chal v2 ch)] }
    | _ => failClose c1 v2 (if v2 then .notAuthorized else .none)

/-- `d->jid = user@domain` after a successful exchange, then `<success/>` (SASL) or `onSasl2Authenticated` -/
def authSuccess (fresh : List Char) (c : Conn) (j : List Char) (v2 : Bool) : CRes :=
  let c2 := { c with jid := j }
  if v2 then sasl2Authenticated fresh c2 [.authed j]
  else { conn := c2, outs := [.authed j, .send .success1] }

/-- `<response/>` (either namespace) -/
def responseStep (cfg : Cfg) (fresh : List Char) (c : Conn) (v2 : Bool) (p : Payload) : CRes :=
  match c.sasl with
  | none => disconnect c [.send (.failure v2 (if v2 then .aborted else .none))]
  | some s =>
    -- a SASL2 response needs a SASL2 <authenticate/> still in progress (repo commit e17a168)
    if v2 ∧ c.s2req = none then disconnect c [.send (.failure true .aborted)] else
    let r := s.respond p
    let c1 := { c with sasl := some r.1 }
    match r.2 with
    | .inputNeeded => credStep cfg c1 r.1 p
    | .succeeded => authSuccess fresh c1 (mkBare r.1.user cfg.domain) v2
    | _ => failClose c1 v2 (if v2 then .notAuthorized else .none)

/-- `onPasswordReply`.  NB: the user name is read from the *current* SASL object `s`, not from the request. -/
def pwReply (cfg : Cfg) (fresh : List Char) (c0 : Conn) (s : Sasl) : CheckRes → CRes
  | .ok => authSuccess fresh c0 (mkBare s.user cfg.domain) c0.v2
  | .bad => failClose c0 c0.v2 .notAuthorized
  | .temp => failClose c0 c0.v2 .temporaryAuthFailure

/-- second half of `onDigestReply`: `setPasswordDigest`, then `respond(__sasl_raw)` on the current object -/
def dgVerify (c0 : Conn) (s : Sasl) (d : Option (List Char)) (u sec : List Char) : CRes :=
  let r := Sasl.respond { s with digest := d } (.dresp u sec true)
  let c1 := { c0 with sasl := some r.1 }
  match r.2 with
  | .challenge ch => { conn := c1, outs := [.send (.chal c0.v2 ch)] }
  | _ => failClose c1 c0.v2 .notAuthorized

/-- `onDigestReply` (an authorization error is not looked at: the digest is simply empty) -/
def dgReply (c0 : Conn) (s : Sasl) (u sec : List Char) : DigRes → CRes
  | .temp => failClose c0 c0.v2 .temporaryAuthFailure
  | .digest d => dgVerify c0 s (some d) u sec
  | .nouser => dgVerify c0 s none u sec

/-- the checker finishes the `i`-th outstanding reply -/
def deliverReply (cfg : Cfg) (fresh : List Char) (c : Conn) (i : Nat) : CRes :=
  match c.pending[i]? with
  | none => idle c
  | some pd =>
    let c0 := { c with pending := c.pending.eraseIdx i }
    match c.sasl with
    | none => ubRes c0
    | some s =>
      match pd with
      | .pw res => pwReply cfg fresh c0 s res
      | .dg res u sec => dgReply c0 s u sec res

/-- the `from` the server stamps on a stanza that carries none -/
def stampFrom (c : Conn) (st : Stanza) : List Char :=
  if st.sender ≠ [] then st.sender
  else match st.kind with
    | .presence t =>
      if t = ['s', 'u', 'b', 's', 'c', 'r', 'i', 'b', 'e'] ∨ t = ['s', 'u', 'b', 's', 'c', 'r', 'i', 'b', 'e', 'd'] then bareOf c.jid
      else c.jid
    | _ => c.jid

/-- `handleStanza`, `ns == ns_client` part -/
def clientStanza (cfg : Cfg) (c : Conn) (st : Stanza) : CRes :=
  if st.sender ≠ [] ∧ st.sender ≠ c.jid ∧ st.sender ≠ bareOf c.jid then idle c
  else
    { conn := c,
      outs := [.emit { st with sender := stampFrom c st, to := if st.to = [] then cfg.domain else st.to }] }

/-- `<iq type='set'><bind/></iq>` -/
def bindStep (fresh : List Char) (c : Conn) (res : List Char) : CRes :=
  let r := if res = [] then fresh else res
  let c1 := { c with resource := r, jid := withRes c.jid r }
  { conn := c1, outs := [.send (.bindResult c1.jid), .bound], used := res = [] }

/-- `jabber:client` elements (bind, session, stanzas): an unauthenticated connection gets a `not-authorized`
stream error and is closed (repo commit 73b9a89) -/
def clientGate (c : Conn) (r : CRes) : CRes :=
  if c.jid = [] then disconnect c [.send (.streamError .streamNotAuthorized)] else r

/-- XmppSocket: nothing parses before a stream header, and once garbage is buffered nothing ever does -/
def gate (c : Conn) (r : CRes) : CRes :=
  if c.stuck then idle c
  else if c.opened then r
  else idle { c with stuck := true }

def connStep (cfg : Cfg) (fresh : List Char) (c : Conn) (ev : Ev) : CRes :=
  if c.closed then idle c else
  match ev with
  | .deliver i => deliverReply cfg fresh c i
  | .openStream to => if c.stuck then idle c else openStream cfg c to
  | .auth v2 mech p bind => gate c (authStep cfg c v2 mech p bind)
  | .response v2 p => gate c (responseStep cfg fresh c v2 p)
  | .abort v2 =>
    -- SASL2 abort drops the mechanism state and, with it, outstanding checker replies (repo commit e17a168)
    gate c (if v2 then { conn := dropPending { c with s2req := none, sasl := none }, outs := [.send (.failure true .aborted)] } else idle c)
  | .closeStream => gate c (disconnect c [])
  | .bind res => gate c (clientGate c (bindStep fresh c res))
  | .session => gate c (clientGate c { conn := c, outs := [.send (.sessionResult c.jid)] })
  | .stanza st => gate c (clientGate c (clientStanza cfg c st.attrs))
  | .sameRead _ => idle c

/-- one element of a connection.  An element that arrives in the same read as the previous one is an element like any
other: since repo commit 1c23dbf `handleStanza` ignores whatever follows, in the same read, an element on which the server
closed the stream (`connStep` does nothing on a closed connection). -/
def connStepAny (cfg : Cfg) (fresh : List Char) (c : Conn) (ev : Ev) : CRes :=
  connStep cfg fresh c ev.strip

/-! ### the server: routing tables and the default stanza handler (no extensions, no S2S) -/

inductive Out
  /-- written to `c`'s own socket in answer to its own element -/
  | send (c : Nat) (e : Elem)
  /-- `c`'s connection handed this (stamped) stanza to the server for routing -/
  | routed (c : Nat) (st : Stanza)
  /-- the stanza that `src` sent was written to `dst`'s socket -/
  | deliver (src dst : Nat) (st : Stanza)
  /-- a server-generated answer to `src`'s stanza was written to `dst`'s socket -/
  | reply (src dst : Nat) (e : Elem)
  /-- `QXmppServer::clientConnected(jid)` -/
  | connected (c : Nat) (jid : List Char)
  /-- `QXmppServer::clientDisconnected(jid)` -/
  | disconnected (c : Nat) (jid : List Char)
  | authed (c : Nat) (jid : List Char)
  | closed (c : Nat)
  | ub (c : Nat)
  deriving DecidableEq, Repr

structure Server where
  conns : Nat → Conn
  /-- `incomingClientsByJid` -/
  byJid : List (List Char × Nat) := []
  /-- `incomingClientsByBareJid`, flattened to pairs -/
  byBare : List (List Char × Nat) := []
  /-- generated resources so far -/
  gen : Nat := 0

def init : Server := { conns := fun _ => {} }

def setConn (s : Server) (c : Nat) (x : Conn) : Server :=
  { s with conns := fun i => if i = c then x else s.conns i }

def freshRes (n : Nat) : List Char := 'G' :: (toString (n + 1)).toList

/-- connections `routeData(to, …)` writes to; `none` = returned false -/
def route (cfg : Cfg) (s : Server) (to : List Char) : Option (List Nat) :=
  let dom := domainOf to
  if to = [] ∨ to = cfg.domain ∨ ('.' :: cfg.domain).isSuffixOf dom then none
  else if dom = cfg.domain then
    let found :=
      if resourceOf to = [] then (s.byBare.filter (·.1 = to)).map (·.2)
      else (s.byJid.filter (·.1 = to)).map (·.2) |>.take 1
    if found = [] then none else some found
  else none

/-- sockets that are still open among `found` -/
def alive (s : Server) (found : List Nat) : List Nat := found.filter fun d => !(s.conns d).closed

/-- `sendData` to every connection found (on a closed socket it writes nothing; `tables_reference_open_connections`
shows that no closed connection is ever found) -/
def writeTo (s : Server) (found : List Nat) (mk : Nat → Out) : List Out := (alive s found).map mk

/-- `handleStanza(server, element)` with no extension claiming it -/
def handleStanza (cfg : Cfg) (s : Server) (src : Nat) (st : Stanza) : List Out :=
  if st.to = cfg.domain then
    match st.kind with
    | .iq t =>
      if t = .get ∨ t = .set then
        match route cfg s st.sender with
        | some found => writeTo s found fun d => .reply src d (.iqError st.id cfg.domain st.sender .featureNotImplemented)
        | none => []
      else []
    | _ => []
  else
    match route cfg s st.to with
    | some found => writeTo s found fun d => .deliver src d st
    | none =>
      match st.kind with
      | .iq _ =>
        match route cfg s st.sender with
        | some found => writeTo s found fun d => .reply src d (.iqError st.id st.to st.sender .serviceUnavailable)
        | none => []
      | _ => []

/-- `removeFromRoutingTables(client)`: every entry that points to `c`, under whatever jid (repo commit c3084c3) -/
def dropEntries (s : Server) (c : Nat) : Server :=
  { s with byJid := s.byJid.filter (fun e => e.2 ≠ c), byBare := s.byBare.filter (fun e => e.2 ≠ c) }

/-- `_q_clientDisconnected` for connection `c` (already marked closed) -/
def unregister (s : Server) (c : Nat) : Server × List Out :=
  let jid := (s.conns c).jid
  (dropEntries s c, if jid = [] then [.closed c] else [.closed c, .disconnected c jid])

/-- conflict: a *different* connection holds the full jid `jid`: it gets a `conflict` stream error and is closed -/
def kickOld (s0 : Server) (c : Nat) (jid : List Char) : Server × List Out :=
  match (s0.byJid.filter (·.1 = jid)).map (·.2) |>.head? with
  | some o =>
    if o ≠ c ∧ !(s0.conns o).closed then
      let s1 := setConn s0 o { s0.conns o with closed := true, pending := [] }
      let r := unregister s1 o
      (r.1, [.send o (.streamError .conflict), .send o .streamEnd] ++ r.2)
    else (s0, [])
  | none => (s0, [])

/-- `incomingClientsByJid.insert(jid, client)`, `incomingClientsByBareJid[bare].insert(client)` -/
def insertEntry (s2 : Server) (c : Nat) (jid : List Char) : Server :=
  { s2 with byJid := (jid, c) :: s2.byJid.filter (·.1 ≠ jid),
            byBare := if s2.byBare.contains (bareOf jid, c) then s2.byBare else (bareOf jid, c) :: s2.byBare }

/-- `_q_clientConnected` for connection `c`: forget what it was registered as before, replace a connection that
holds the same full jid (conflict), register -/
def register (s : Server) (c : Nat) : Server × List Out :=
  let jid := (s.conns c).jid
  let k := kickOld (dropEntries s c) c jid
  (insertEntry k.1 c jid, k.2 ++ [.connected c jid])

/-- turn one connection-level output into server-level effects -/
def applyOut (cfg : Cfg) (s : Server) (c : Nat) : COut → Server × List Out
  | .send e => (s, [.send c e])
  | .emit st => (s, .routed c st :: handleStanza cfg s c st)
  | .bound => register s c
  | .closed => unregister s c
  | .authed j => (s, [.authed c j])
  | .ub => (s, [.ub c])

def applyOuts (cfg : Cfg) (s : Server) (c : Nat) : List COut → Server × List Out
  | [] => (s, [])
  | o :: os =>
    let r1 := applyOut cfg s c o
    let r2 := applyOuts cfg r1.1 c os
    (r2.1, r1.2 ++ r2.2)

def step (cfg : Cfg) (s : Server) (op : Nat × Ev) : Server × List Out :=
  let r := connStepAny cfg (freshRes s.gen) (s.conns op.1) op.2
  let s1 := { setConn s op.1 r.conn with gen := if r.used then s.gen + 1 else s.gen }
  applyOuts cfg s1 op.1 r.outs

def run (cfg : Cfg) (s : Server) : List (Nat × Ev) → Server × List Out
  | [] => (s, [])
  | op :: ops =>
    let r1 := step cfg s op
    let r2 := run cfg r1.1 ops
    (r2.1, r1.2 ++ r2.2)

end Qx.C16
