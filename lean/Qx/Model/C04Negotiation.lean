/-
C04 / C10 — model of the client negotiation state machine of `QXmppOutgoingClient`
(src/client/QXmppOutgoingClient.cpp, QXmppSaslManager.cpp, base/Stream.cpp `XmppSocket`,
base/QXmppStreamManagement.cpp `StreamAckManager`, and the parts of `QXmppClient` /
`QXmppRosterManager` that react to `connected`).

The model follows the code that exists (tree after the fixes e0bbad9, fa0779c, 7771c2d, 7a677f2, e363fe9, c590ae4, 7c60ff5, a739aa9, e3d3c0f, 8d68c05, dcf656f, 6235115):
* `handleStream` starts XEP-0078 authentication on a header without `version` — unless TLS is required and the link is
  not encrypted: then it warns and disconnects;
* the idle listener rejects EVERY element but stream features and stream errors - whatever its namespace - received on an
  unencrypted link when TLS is required (`Rejected`: error "Unexpected element received.", stream close, disconnect);
* a white space keep-alive is ignored;
* after the XEP-0078 field offer the `NonSaslAuthManager` stays the listener (`Accepted`) and waits for the result;
* `handleStart` clears `bind2Bound`;
* see-other-host closes the session (if any) and reconnects through a queued call.
Still true: `handlePacketReceived` replaces a listener that returned `Finished` by the idle one when the variant index
did not change; `openSession` is not guarded against being entered twice (the Q_ASSERT is compiled out).

`<success/>` of a SCRAM exchange is accepted only with a valid server signature in its data (tree state after the
"server never proved knowledge of the password" fix); PLAIN and HT accept any `<success/>`.

One element per step (the harness sends one element per read).  Sockets: `disconnectFromHost()` on a
connected socket delivers `disconnected` synchronously (observed), so closing is atomic here.
Not modelled: DNS/SRV address lists (`TryNext`), direct TLS, SM counters and acks (C09), mechanism ranking beyond
{PLAIN, SCRAM-SHA-1, HT-SHA-256-NONE} (C05), the keep-alive TIMEOUT and the reconnection timer.  Time is the event `tick`
(one expiry of the keep-alive interval); the resume `location` of `<enabled/>` is `resumeLoc` / `connectTarget`.
No proofs in this file.
-/
namespace Qx.C04

inductive Tls | disabled | enabled | required
  deriving DecidableEq, Repr

/-- `<starttls/>` in a features element -/
inductive Offer | absent | optional | required
  deriving DecidableEq, Repr

/-- the single mechanism a features element offers (the scripted server offers one) -/
inductive Mech | plain | scram | unsupported
  deriving DecidableEq, Repr

/-- mechanism the client runs -/
inductive Used | plain | scram | ht
  deriving DecidableEq, Repr

structure Cfg where
  tls : Tls := .enabled
  useSasl2 : Bool := true
  useSasl : Bool := true
  useNonSasl : Bool := true
  /-- PLAIN removed from `disabledSaslMechanisms` (default: PLAIN disabled) -/
  plainOk : Bool := false
  /-- a SASL2 user agent is configured (FAST enabled) -/
  fastUa : Bool := false
  /-- an HT token is part of the credentials -/
  token : Bool := false
  /-- XEP-0078 preference: plain instead of digest -/
  nsPlain : Bool := false
  /-- the application set the client state to inactive (XEP-0352) before connecting -/
  inactive : Bool := false
  /-- `QSslSocket::supportsSsl()` -/
  localTls : Bool := true
  /-- `keepAliveInterval() > 0` (the keep-alive timeout is not modelled: the harness sets it to 0 = off) -/
  keepAlive : Bool := false
  /-- `autoReconnectionEnabled()` (QXmppClient: every socket error starts the single-shot reconnect timer) -/
  autoReconnect : Bool := false
  /-- a `QXmppRegistrationManager` with `registerOnConnectEnabled` is installed: the extension consumes every stream features
  element (through `elementReceived`), the client's own `handleStreamFeatures` never sees it -/
  registerOnConnect : Bool := false
  /-- … and holds a filled-in registration form (user name + password) to send -/
  regForm : Bool := false
  deriving DecidableEq, Repr

structure S2Feat where
  mech : Mech
  bind2 : Bool
  /-- bind2 advertises the inline features sm and csi -/
  bind2Ext : Bool
  fast : Bool
  smInline : Bool
  deriving DecidableEq, Repr

structure Features where
  tls : Offer := .absent
  mechs : Option Mech := none
  sasl2 : Option S2Feat := none
  legacyAuth : Bool := false
  bind : Bool := false
  sm : Bool := false
  csi : Bool := false
  /-- `<register xmlns='http://jabber.org/features/iq-register'/>` -/
  register : Bool := false
  deriving DecidableEq, Repr

inductive BindRes | ok | noJid | error | wrongId
  deriving DecidableEq, Repr

inductive IqKind
  | authFields (plain digest : Bool)   -- result carrying the XEP-0078 field offer
  | authResult (ok : Bool)             -- result / error with the id of the XEP-0078 set
  | bindResult (r : BindRes)
  | get (known : Bool)                 -- request some extension answers (version, disco) / nobody answers
  | set
  | resultPending                      -- result for the application's outstanding request
  | resultStray                        -- result nobody waits for
  deriving DecidableEq, Repr

/-- iq-shaped elements that are NOT in jabber:client (foreign, empty or jabber:server namespace) -/
inductive XKind | getKnown | getUnknown | set | resultPending
  deriving DecidableEq, Repr

inductive S2Bound | none | plain | smEnabled | smFailed
  deriving DecidableEq, Repr

inductive S2Sm | none | resumed | failed
  deriving DecidableEq, Repr

/-- what the server can send -/
inductive El
  | header (version id : Bool)
  | features (f : Features)
  | proceed (handshakeOk : Bool)       -- `<proceed/>`; the flag is the outcome of the TLS handshake if the client starts one
  | tlsFailure
  | saslSuccess (proof : Bool)         -- proof: the success carries a valid SCRAM server signature (RFC 6120 6.4.6)
  | saslFailure
  | saslChallenge (ok : Bool)          -- ok: a well-formed SCRAM server-first message for the client's nonce
  | s2Success (b : S2Bound) (r : S2Sm) (token : Bool) (proof : Bool)   -- proof: valid SCRAM server signature as additional data
  | s2Failure
  | s2Challenge (ok : Bool)
  | s2Continue
  | iq (k : IqKind)
  | message | presence
  /-- `loc`: `<enabled resume='true' location='host:port'/>`, a preferred address for the reconnect (XEP-0198) -/
  | smEnabled (resume : Bool) (loc : Bool := false) | smFailed | smResumed
  | streamError (seeOtherHost : Bool)
  | streamClose
  | xiq (k : XKind)                    -- `<iq/>` outside jabber:client
  | xstanza                            -- `<message/>` / `<presence/>` outside jabber:client
  | smR | smA                          -- XEP-0198 `<r/>` and `<a h='0'/>`
  deriving DecidableEq, Repr

inductive Ev
  | connectToServer     -- application: QXmppClient::connectToServer(config)
  | socketConnected     -- environment: TCP connection established
  | socketError         -- environment: the socket reports an error
  | socketDisconnected  -- environment: the connection is gone (cut)
  | recv (e : El)       -- server
  | sendIq              -- application: QXmppOutgoingClient::sendIq
  | sendIqRetry         -- application: sendIq whose FAILURE continuation sends one more request ("retry once", depth 1)
  | recvWhitespace      -- server: a whitespace keep-alive (XmppSocket hands a null element to the listener)
  | recvPartial         -- server: the beginning of an element (stays in the read buffer)
  | tlsCloseNotify      -- server: TLS close_notify WITHOUT closing the TCP connection
  | reconnectTick       -- time: the reconnect timer of QXmppClient fires (if it is running)
  | tick                -- time: the keep-alive interval elapses (the ping timer fires if it is running)
  | closeTail           -- server: the `</stream:stream>` that ends a read whose elements have just been dispatched
                        -- (`<stream:error>…</stream:error></stream:stream>` in ONE segment = recv streamError, then closeTail)
  deriving DecidableEq, Repr

inductive Kind
  | streamOpen | streamClose | startTls
  | nonSaslQuery | nonSaslAuth (plain : Bool)
  | saslAuth (m : Used) | saslResponse
  | sasl2Auth (m : Used) (bind2 sm resume inactive reqToken fast : Bool) | sasl2Response | sasl2Abort
  | bind | smEnable | smResume | smReq | smAck
  | iqReply (error : Bool) | iqRequest (roster : Bool) | presence
  | register (form : Bool)   -- jabber:iq:register: the filled-in form (user name, password) / the request for the form
  | ping   -- the keep-alive `<iq type='get'><ping xmlns='urn:xmpp:ping'/></iq>`
  | csiActive | csiInactive
  deriving DecidableEq, Repr

/-- state of the link at the instant of a send: `clear` = on the wire unencrypted, `enc` = through TLS,
`down` = socket not connected (logged by `sendData`, nothing transmitted) -/
inductive Link | clear | enc | down
  deriving DecidableEq, Repr

inductive Signal | connected | disconnected | error | iqDone (error : Bool)
  deriving DecidableEq, Repr

inductive Out
  | sent (k : Kind) (l : Link)
  | sig (s : Signal)
  deriving DecidableEq, Repr

/-- the element carries the password, a digest of it or the token (what the harness greps for) -/
def Kind.carriesSecret : Kind → Bool
  | .nonSaslAuth _ => true
  | .saslAuth .plain => true
  | .saslAuth .ht => true
  | .sasl2Auth .plain .. => true
  | .sasl2Auth .ht .. => true
  | .register true => true
  | _ => false

inductive Listener
  | idle | starttls | nonSaslFields | nonSaslResult
  | sasl (m : Used) (fresh : Bool) | saslDead
  | sasl2 (m : Used) (fresh : Bool) | sasl2Dead
  | smResume | smEnable | bind
  deriving DecidableEq, Repr

inductive Conn | disconnected | connecting | connected
  deriving DecidableEq, Repr

/-- where a TCP connection goes: the configured host/port, the address of a see-other-host error, or the `location` of an
`<enabled/>` (XEP-0198 preferred reconnect address) -/
inductive Addr | configured | redirect | location
  deriving DecidableEq, Repr

structure St where
  cfg : Cfg
  conn : Conn := .disconnected
  encrypted : Bool := false
  /-- XmppSocket: a stream header is cached (`m_streamOpenElement`) -/
  headerSeen : Bool := false
  /-- XmppSocket: the buffer holds data that will never parse (element before any header) -/
  wedged : Bool := false
  listener : Listener := .idle
  streamIdSet : Bool := false
  streamVersionSet : Bool := false
  authenticated : Bool := false
  sessionStarted : Bool := false
  bindAvail : Bool := false
  smAvail : Bool := false
  csiAvail : Bool := false
  /-- C2sStreamManager -/
  smEnabled : Bool := false
  smResumed : Bool := false
  canResume : Bool := false
  /-- C2sStreamManager::m_resumeHost/m_resumePort hold the `location` of the last `<enabled/>` -/
  resumeLoc : Bool := false
  /-- the address of the current / last TCP connection attempt -/
  target : Addr := .configured
  /-- QXmppClient: the reconnect timer is running (started by a socket error when automatic reconnection is on; single shot;
  the back-off delays are not modelled) -/
  reconnectArmed : Bool := false
  /-- the peer has shut down its half of the TLS session (close_notify) on this connection: a later loss of the TCP connection is
  reported as ONE socket error, not two (only read by the harness op `drop`) -/
  peerShutdown : Bool := false
  /-- QXmppRegistrationManager: the cached registration form has not been sent yet -/
  regForm : Bool := false
  /-- StreamAckManager::m_enabled -/
  ackEnabled : Bool := false
  /-- stanzas kept for re-sending (kinds only) -/
  unacked : List Kind := []
  bind2Bound : Bool := false
  redirect : Bool := false
  /-- the application's outstanding IQ requests (whose continuations do nothing that the model sees) -/
  pendingIq : Nat := 0
  /-- … and those whose failure continuation sends one more (plain) request.  The request table is a hash map, so the order in
  which a mixed set is cancelled is not defined; the model cancels the plain ones first (the harness never mixes the two kinds) -/
  pendingRetry : Nat := 0
  hasToken : Bool := false
  tokenRequested : Bool := false
  csiSynced : Bool := true
  bind2InactiveSet : Bool := false
  deriving DecidableEq, Repr

def init (cfg : Cfg) : St :=
  { cfg := cfg, hasToken := cfg.token, csiSynced := !cfg.inactive, regForm := cfg.regForm }

abbrev R := St × List Out

def link (s : St) : Link :=
  if s.conn = .connected then (if s.encrypted then .enc else .clear) else .down

/-- `XmppSocket::sendData` -/
def send (s : St) (k : Kind) : Out := .sent k (link s)

def iqDones (n : Nat) : List Out := List.replicate n (.sig (.iqDone true))

/-- `StreamAckManager::internalSend` for a stanza -/
def sendStanza (s : St) (k : Kind) : R :=
  if s.ackEnabled then ({ s with unacked := s.unacked ++ [k] }, [send s k, send s .smReq])
  else (s, [send s k])

/-- `StreamAckManager::enableStreamManagement`: stored stanzas are sent again, then `<r/>` -/
def enableAck (s : St) : R :=
  ({ s with ackEnabled := true },
   if s.unacked.isEmpty then [] else s.unacked.map (send s) ++ [send s .smReq])

/-- QXmppClientPrivate::onErrorOccurred for a SOCKET error: schedule a reconnect -/
def armReconnect (s : St) : St := { s with reconnectArmed := s.reconnectArmed || s.cfg.autoReconnect }

/-- `QXmppOutgoingClient::sendIq`: without stream management a request on a socket that is not connected fails at once (write
error); with it the stanza is queued and the request stays outstanding -/
def sendIq (s : St) : R :=
  let r := sendStanza s (.iqRequest false)
  if ¬ s.ackEnabled ∧ s.conn ≠ .connected then (r.1, r.2 ++ [.sig (.iqDone true)])
  else ({ r.1 with pendingIq := r.1.pendingIq + 1 }, r.2)

/-- `n` retry-requests are finished with an error, one after the other: each continuation runs synchronously inside
`OutgoingIqManager::cancelAll` and sends one more request, in the state the client is in at that moment -/
def retryN : Nat → St → R
  | 0, s => (s, [])
  | n + 1, s =>
    let r1 := sendIq s
    let r2 := retryN n r1.1
    (r2.1, .sig (.iqDone true) :: r1.2 ++ r2.2)

/-- `closeSession`: the ack manager is switched off FIRST, then (unless the stream can be resumed) every outstanding request is
cancelled — so a request sent by a failure continuation meets a dead socket without stream management and fails at once -/
def closeSession (s : St) : R :=
  let n := if s.canResume then 0 else s.pendingIq
  let m := if s.canResume then 0 else s.pendingRetry
  let r := retryN m { s with sessionStarted := false, ackEnabled := false, pendingIq := s.pendingIq - n,
                             pendingRetry := s.pendingRetry - m }
  (r.1, iqDones n ++ r.2 ++ [.sig .disconnected])

/-- `_q_socketDisconnected` (the socket is already gone).  see-other-host: the session (if any) is closed, then the client
reconnects through a queued call (`connecting`; the TCP connect is the environment event `socketConnected`) -/
def onSocketDisconnected (s : St) : R :=
  let s1 := { s with authenticated := false }
  if s1.redirect then
    let r := if s1.sessionStarted then closeSession s1 else (s1, [])
    ({ r.1 with redirect := false, conn := .connecting, encrypted := false, target := .redirect, peerShutdown := false }, r.2)
  else closeSession s1

/-- `XmppSocket::disconnectFromHost` -/
def socketClose (s : St) : R :=
  if s.conn = .connected then
    let r := onSocketDisconnected { s with conn := .disconnected }
    (r.1, send s .streamClose :: r.2)
  else (s, [])

/-- `QXmppOutgoingClient::disconnectFromHost` -/
def disconnectFromHost (s : St) : R := socketClose { s with canResume := false }

/-- `Rejected`: "Unexpected element received." -/
def reject (s : St) : R :=
  let r := disconnectFromHost s
  (r.1, .sig .error :: r.2)

/-- an authentication / binding step failed: `setError`, `disconnectFromHost`, listener back to idle (`Finished`) -/
def failAuth (s : St) : R :=
  let r := disconnectFromHost s
  ({ r.1 with listener := .idle }, .sig .error :: r.2)

/-- `OutgoingIqManager::onSessionOpened`: a session that was not resumed cannot answer old requests - they are cancelled; what
their continuations send belongs to the new session and stays outstanding -/
def cancelOld (s : St) : R :=
  if s.smResumed then (s, []) else
    let r := retryN s.pendingRetry { s with pendingIq := 0, pendingRetry := 0 }
    (r.1, iqDones s.pendingIq ++ r.2)

def csiSendState (s : St) : R :=
  if s.authenticated ∧ s.csiAvail then
    ({ s with csiSynced := decide (s.conn = .connected) }, [send s (if s.cfg.inactive then .csiInactive else .csiActive)])
  else ({ s with csiSynced := false }, [])

def csiOnSessionOpened (s : St) (bind2Used : Bool) : R :=
  if s.smResumed then (if s.csiSynced then (s, []) else csiSendState s)
  else if s.cfg.inactive = (bind2Used && s.bind2InactiveSet) then ({ s with csiSynced := true }, [])
  else csiSendState s

/-- `openSession`, then the slots of `connected`: roster request, `QXmppClient::connected`, initial presence -/
def openSession (s : St) : R :=
  let bind2Used := s.bind2Bound
  -- a session without stream management cannot be resumed and replaces any older resumable one (c590ae4)
  let s1 := { s with sessionStarted := true, bind2Bound := false, canResume := s.smEnabled && s.canResume }
  let r2 := cancelOld s1
  let o1 := r2.2
  let s2 := r2.1
  let r3 := csiOnSessionOpened s2 bind2Used
  let r4 := if r3.1.authenticated then sendStanza r3.1 (.iqRequest true) else (r3.1, [])
  let r5 := if r4.1.authenticated ∧ ¬ r4.1.smResumed then sendStanza r4.1 .presence else (r4.1, [])
  (r5.1, o1 ++ r3.2 ++ r4.2 ++ [.sig .connected] ++ r5.2)

/-- `handleStart` -/
def handleStart (s : St) : R :=
  let s1 := { s with streamIdSet := false, streamVersionSet := false, listener := .idle, bind2Bound := false,
                     smEnabled := false, smResumed := false }
  (s1, [send s1 .streamOpen])

def startNonSaslAuth (s : St) : R :=
  ({ s with listener := .nonSaslFields }, [send s .nonSaslQuery])

/-- `handleStream` -/
def handleStream (s : St) (version id : Bool) : R :=
  let s1 := { s with streamIdSet := s.streamIdSet || id }
  if s1.streamVersionSet then (s1, [])
  else
    let s2 := { s1 with streamVersionSet := version }
    if ¬ version ∧ s2.cfg.useNonSasl then
      -- a pre-1.0 stream has no STARTTLS: never authenticate in clear if TLS is required
      (if s2.cfg.tls = .required ∧ ¬ s2.encrypted then disconnectFromHost s2
       -- a pre-1.0 stream advertises no features: the CSI availability of an earlier connection is forgotten (7c60ff5)
       else startNonSaslAuth { s2 with csiAvail := false })
    else (s2, [])

def mechUsable (s : St) : Mech → Option Used
  | .plain => if s.cfg.plainOk then some .plain else none
  | .scram => some .scram
  | .unsupported => none

def startSasl (s : St) (m : Mech) : R :=
  match mechUsable s m with
  | some u => ({ s with listener := .sasl u true }, [send s (.saslAuth u)])
  | none =>
    let r := disconnectFromHost { s with listener := .saslDead }
    (r.1, .sig .error :: r.2)

def startSasl2 (s : St) (z : S2Feat) : R :=
  let inact := z.bind2 && s.cfg.inactive && z.bind2Ext
  let s1 := if z.bind2 then { s with bind2InactiveSet := s.cfg.inactive && z.bind2Ext } else s
  let fastAvail := z.fast && s1.cfg.fastUa
  let reqTok := fastAvail && !s1.hasToken
  let s2 := { s1 with tokenRequested := reqTok }
  let resume := z.smInline && !s2.smEnabled && s2.canResume
  let chosen : Option Used := if fastAvail && s2.hasToken then some .ht else mechUsable s2 z.mech
  match chosen with
  | some u =>
    ({ s2 with listener := .sasl2 u true },
     [send s2 (.sasl2Auth u z.bind2 (z.bind2 && z.bind2Ext) resume inact reqTok (fastAvail && decide (u = .ht)))])
  | none =>
    let r := disconnectFromHost { s2 with listener := .sasl2Dead }
    (r.1, .sig .error :: r.2)

def startBind (s : St) : R := ({ s with listener := .bind }, [send s .bind])
def startSmEnable (s : St) : R := ({ s with listener := .smEnable }, [send s .smEnable])
def startSmResume (s : St) : R := ({ s with listener := .smResume }, [send s .smResume])

/-- `handleStarttls`: `none` = not acted, go on with authentication -/
def handleStarttls (s : St) (f : Features) : Option R :=
  if s.encrypted then none
  else if s.cfg.tls = .required ∧ f.tls = .absent then some (disconnectFromHost s)
  else if ¬ s.cfg.localTls ∧ (s.cfg.tls = .required ∨ f.tls = .required) then some (disconnectFromHost s)
  else if s.cfg.localTls ∧ s.cfg.tls ≠ .disabled ∧ f.tls ≠ .absent then
    some ({ s with listener := .starttls }, [send s .startTls])
  else none

/-- `handleStreamFeatures` (the client's own handling) -/
def handleFeaturesOwn (s : St) (f : Features) : R :=
  match handleStarttls s f with
  | some r => r
  | none =>
    match (if s.cfg.useSasl2 then f.sasl2 else none) with
    | some z => startSasl2 s z
    | none =>
      match (if s.cfg.useSasl then f.mechs else none) with
      | some m => startSasl s m
      | none =>
        -- a legacy login is not followed by another features element: the CSI feature of this one is stored (a739aa9)
        if f.legacyAuth ∧ s.cfg.useNonSasl then startNonSaslAuth { s with csiAvail := f.csi }
        else
          let s1 := { s with bindAvail := f.bind, smAvail := f.sm, csiAvail := f.csi }
          if s1.smAvail ∧ ¬ s1.smEnabled ∧ s1.canResume then startSmResume s1
          else if s1.bindAvail then startBind s1
          else if s1.smAvail ∧ ¬ s1.smEnabled then startSmEnable s1
          else openSession s1

/-- `QXmppClient::disconnectFromServer`: the reconnect timer is stopped, an established session says good-bye with an
unavailable presence, the stream is closed -/
def disconnectFromServer (s : St) : R :=
  let s0 := { s with reconnectArmed := false }
  let r1 := if s0.conn = .connected ∧ s0.sessionStarted then sendStanza s0 .presence else (s0, [])
  let r2 := disconnectFromHost r1.1
  (r2.1, r1.2 ++ r2.2)

/-- `QXmppRegistrationManager::handleStanza` for a stream features element when `registerOnConnect` is enabled: STARTTLS first
(the client's own `handleStarttls`, which also gives up when TLS is required and not offered); then: no `<register/>` feature →
`disconnectFromServer()`; else the cached form is sent (once), or the form is requested -/
def registerOnFeatures (s : St) (f : Features) : R :=
  match handleStarttls s f with
  | some r => r
  | none =>
    if f.register then
      let r := sendStanza s (.register s.regForm)
      ({ r.1 with regForm := false }, r.2)
    else disconnectFromServer s

/-- what happens to a stream features element in the idle listener: extensions come first (`elementReceived`) -/
def handleFeatures (s : St) (f : Features) : R :=
  if s.cfg.registerOnConnect then registerOnFeatures s f else handleFeaturesOwn s f

/-- `C2sStreamManager::onEnabled` -/
def onSmEnabled (s : St) (resume : Bool) (loc : Bool := false) : R :=
  -- the resume address belongs to the stream enabled here: stored when resumable and a location is given, forgotten otherwise (dcf656f)
  enableAck { s with canResume := resume, smEnabled := true, resumeLoc := resume && loc }

/-- `C2sStreamManager::onResumed` -/
def onSmResumed (s : St) : R :=
  enableAck { s with smResumed := true, smEnabled := true }

/-- jabber:client elements -/
def El.isStanza : El → Bool
  | .iq _ => true
  | .message => true
  | .presence => true
  | _ => false

/-- what `handleElement` still processes on an unencrypted link when TLS is required (e3d3c0f): stream features and stream
errors; the namespace of anything else does not matter -/
def El.isStreamLevel : El → Bool
  | .features _ => true
  | .streamError _ => true
  | _ => false

/-- TLS is required and the link is not encrypted yet -/
def St.preTls (s : St) : Prop := ¬ s.encrypted ∧ s.cfg.tls = .required

instance (s : St) : Decidable s.preTls := by unfold St.preTls; exact inferInstance

/-- the idle listener after the pre-TLS guard -/
def idleHandle' (s : St) : El → R
  | .features f => handleFeatures s f
  | .streamError true =>
    -- see-other-host: only the socket is closed
    socketClose { s with redirect := true }
  | .streamError false => (s, [.sig .error])
  | .iq (.get known) => sendStanza s (.iqReply (!known))
  | .iq .set => sendStanza s (.iqReply true)
  | .iq .resultPending =>
    if s.pendingIq = 0 then
      (if s.pendingRetry = 0 then (s, []) else ({ s with pendingRetry := s.pendingRetry - 1 }, [.sig (.iqDone false)]))
    else ({ s with pendingIq := s.pendingIq - 1 }, [.sig (.iqDone false)])
  | .iq _ => (s, [])
  | .message => (s, [])
  | .presence => (s, [])
  | _ => reject s

/-- the idle listener: `QXmppOutgoingClient::handleElement`.  No stanza is processed over an unencrypted link if TLS is
required -/
def idleGuarded (s : St) (e : El) : R :=
  if ¬ e.isStreamLevel ∧ s.preTls then reject s else idleHandle' s e

def idleHandle (s : St) (e : El) : R :=
  match e with
  -- not in jabber:client, but `handleElement` processes them all the same (once the pre-TLS guard is passed):
  | .xiq .getKnown => if s.preTls then reject s else sendStanza s (.iqReply false)   -- an extension (version, disco) answers
  | .xiq .resultPending =>                             -- the IQ manager matches the id
    if s.preTls then reject s else
    if s.pendingIq = 0 then reject s else ({ s with pendingIq := s.pendingIq - 1 }, [.sig (.iqDone false)])
  | .smR => if s.preTls then reject s else if s.ackEnabled then (s, [send s .smAck]) else (s, [])
  | .smA => if s.preTls then reject s else (s, [])
  | _ => idleGuarded s e

/-- the XEP-0078 manager looks at the tag name only: an `<iq/>` in any namespace is an IQ (never the expected one) -/
def El.asIq : El → El
  | .xiq _ => .iq .resultStray
  | e => e

def starttlsHandle (s : St) : El → R
  | .proceed true =>
    -- startClientEncryption, handshake succeeds, `encrypted` → new stream
    handleStart { s with encrypted := true, headerSeen := false, listener := .idle }
  | .proceed false =>
    -- handshake fails: socket error, socket closes
    let r := onSocketDisconnected { armReconnect s with conn := .disconnected, listener := .idle }
    (r.1, .sig .error :: r.2)
  | _ => reject s

/-- `NonSaslAuthManager`, waiting for the field offer -/
def nonSaslHandle (s : St) : El → R
  | .iq (.authFields p d) =>
    if p ∨ d then
      let plain := if p ∧ d then s.cfg.nsPlain else p
      -- the authentication query is started on the same manager, which stays the listener (`Accepted`)
      ({ s with listener := .nonSaslResult }, [send s (.nonSaslAuth plain)])
    else
      let r := disconnectFromHost s
      ({ r.1 with listener := .idle }, r.2)
  | .iq _ =>
    let r := disconnectFromHost s
    ({ r.1 with listener := .idle }, r.2)
  | _ => reject s

/-- `NonSaslAuthManager`, waiting for the result of the authentication query.  The scripted server echoes the id of the last
jabber:iq:auth request, so both `authResult` and a repeated field offer carry the id of the query -/
def nonSaslResultHandle (s : St) : El → R
  | .iq (.authResult true) =>
    let r := openSession { s with authenticated := true }
    ({ r.1 with listener := .idle }, r.2)
  | .iq (.authFields _ _) =>
    let r := openSession { s with authenticated := true }
    ({ r.1 with listener := .idle }, r.2)
  | .iq _ =>
    -- error, wrong id or unexpected type: warning, disconnect
    let r := disconnectFromHost s
    ({ r.1 with listener := .idle }, r.2)
  | _ => reject s

def respondable (m : Used) (fresh ok : Bool) : Bool :=
  match m with
  | .scram => fresh && ok
  | _ => false

/-- may `<success/>` be accepted?  SCRAM: only after the client-final message went out and with a valid server signature in the
success data (the scripted server never sends the signature as a separate challenge); other mechanisms: always -/
def successOk (m : Used) (fresh proof : Bool) : Bool :=
  match m with
  | .scram => !fresh && proof
  | _ => true

def saslHandle (s : St) (m : Used) (fresh : Bool) : El → R
  | .saslSuccess proof =>
    if successOk m fresh proof then handleStart { s with authenticated := true } else failAuth s
  | .saslChallenge ok =>
    if respondable m fresh ok then ({ s with listener := .sasl m false }, [send s .saslResponse])
    else failAuth s
  | .saslFailure => failAuth s
  | _ => reject s

def sasl2Handle (s : St) (m : Used) (fresh : Bool) : El → R
  | .s2Challenge ok =>
    if respondable m fresh ok then ({ s with listener := .sasl2 m false }, [send s .sasl2Response])
    else failAuth s
  | .s2Success b r tok proof =>
    if successOk m fresh proof then
      let s1 := { s with authenticated := true, bind2Bound := decide (b ≠ .none),
                         hasToken := s.hasToken || (tok && (s.tokenRequested || s.hasToken)) }
      let r2 := if r = .resumed then onSmResumed s1 else (s1, [])
      let r3 := if b = .smEnabled then onSmEnabled r2.1 true else (r2.1, [])
      let r4 := if r = .resumed then openSession r3.1 else (r3.1, [])
      ({ r4.1 with listener := .idle }, r2.2 ++ r3.2 ++ r4.2)
    else failAuth s
  | .s2Failure => failAuth s
  | .s2Continue => (s, [send s .sasl2Abort])
  | _ => reject s

def smResumeHandle (s : St) : El → R
  | .smResumed =>
    let r1 := onSmResumed s
    let r2 := openSession r1.1
    ({ r2.1 with listener := .idle }, r1.2 ++ r2.2)
  | .smFailed =>
    if s.bindAvail then startBind s
    else
      let r := openSession s
      ({ r.1 with listener := .idle }, r.2)
  | _ => reject s

def smEnableHandle (s : St) : El → R
  | .smEnabled resume loc =>
    let r1 := onSmEnabled s resume loc
    let r2 := openSession r1.1
    ({ r2.1 with listener := .idle }, r1.2 ++ r2.2)
  | .smFailed =>
    let r := openSession s
    ({ r.1 with listener := .idle }, r.2)
  | _ => reject s

def bindHandle (s : St) : El → R
  | .iq (.bindResult .ok) =>
    if s.smAvail ∧ ¬ s.smEnabled then startSmEnable s
    else
      let r := openSession s
      ({ r.1 with listener := .idle }, r.2)
  | .iq (.bindResult .noJid) => failAuth s
  | .iq (.bindResult .error) => failAuth s
  | _ => reject s

def dispatch (s : St) (e : El) : R :=
  match s.listener with
  | .idle => idleHandle s e
  | .starttls => starttlsHandle s e
  | .nonSaslFields => nonSaslHandle s e.asIq
  | .nonSaslResult => nonSaslResultHandle s e.asIq
  | .sasl m fresh => saslHandle s m fresh e
  | .saslDead => reject s
  | .sasl2 m fresh => sasl2Handle s m fresh e
  | .sasl2Dead => reject s
  | .smResume => smResumeHandle s e
  | .smEnable => smEnableHandle s e
  | .bind => bindHandle s e

/-- `XmppSocket::processData` for one element, then `handlePacketReceived` -/
def recv (s : St) (e : El) : R :=
  if s.conn ≠ .connected ∨ s.wedged then (s, [])
  else
    match e with
    | .header v i => handleStream { s with headerSeen := true } v i
    | _ =>
      if ¬ s.headerSeen then ({ s with wedged := true }, [])
      else
        match e with
        | .streamClose => disconnectFromHost s
        | _ => dispatch s e

/-- `QXmppOutgoingClient::connectToHost`: the resume location if the stream manager holds one for a stream it can still
resume (`hasResumeAddress()`), else the configured host (DNS/SRV lookups are outside the model) -/
def connectTarget (s : St) : Addr :=
  if s.canResume ∧ s.resumeLoc then .location else .configured

/-- `PingManager`: the ping timer is started by the `connected` signal (end of `openSession`) if the interval is > 0 and
stopped by the `disconnected` signal (`closeSession`) — exactly the two places that set and clear the session flag, so
"armed" is a function of the state, not a separate field -/
def St.pingArmed (s : St) : Bool := s.cfg.keepAlive && s.sessionStarted

/-- `PingManager::sendPing`: `<r/>` if stream management is on, else a ping IQ -/
def sendPing (s : St) : R :=
  if s.ackEnabled then (s, [send s .smReq]) else (s, [send s .ping])

/-- the socket leaves the connected / connecting state without the client closing the stream: the connection is lost
(environment event `socketDisconnected`) or the client itself calls `abort()` -/
def socketGone (s : St) : R :=
  if s.conn = .connected then onSocketDisconnected { s with conn := .disconnected }
  else if s.conn = .connecting then ({ s with conn := .disconnected }, [])
  else (s, [])

/-- `QXmppOutgoingClient::connectToHost()` (application: `connectToServer`; QXmppClient: `_q_reconnect`).  A (re)connect starts
from an unconnected socket (6235115): a socket that is still connecting or connected is aborted first — the old session ends like
after a loss of the connection (no stream close, resumable if it was) — then the new connection is opened.  (Before that fix
`QSslSocket::connectToHost` reset the live socket to unencrypted mode and the old session went on in clear.) -/
def connectTo (s : St) : R :=
  let r := socketGone s
  ({ r.1 with conn := .connecting, encrypted := false, hasToken := r.1.cfg.token, target := connectTarget r.1,
              peerShutdown := false }, r.2)

/-- `sendIq(...).then(ctx, retry-once)`: if the request fails at once the continuation sends the retry right away -/
def sendIqRetry (s : St) : R :=
  let r := sendStanza s (.iqRequest false)
  if ¬ s.ackEnabled ∧ s.conn ≠ .connected then
    let r2 := sendIq r.1
    (r2.1, r.2 ++ [.sig (.iqDone true)] ++ r2.2)
  else ({ r.1 with pendingRetry := r.1.pendingRetry + 1 }, r.2)

def step (s : St) : Ev → R
  | .connectToServer => connectTo s
  | .socketConnected =>
    if s.conn = .connecting then handleStart { s with conn := .connected, headerSeen := false, wedged := false }
    else (s, [])
  | .socketError => (armReconnect s, [.sig .error])
  | .socketDisconnected => socketGone s
  | .recv e => recv s e
  | .sendIq => sendIq s
  | .sendIqRetry => sendIqRetry s
  | .recvWhitespace =>
    -- `handlePacketReceived` stops the ping timeout and returns (8d68c05): no listener sees the null element
    (s, [])
  | .recvPartial =>
    if s.conn ≠ .connected ∨ s.wedged then (s, []) else ({ s with wedged := true }, [])
  | .tlsCloseNotify =>
    -- QSslSocket reports RemoteHostClosedError and stays connected and in encrypted mode (it will not write a close_notify of its
    -- own); not modelled: every later write on this half-closed TLS session raises the same socket error again
    if s.conn = .connected ∧ s.encrypted then ({ armReconnect s with peerShutdown := true }, [.sig .error]) else (s, [])
  | .reconnectTick => if s.reconnectArmed then connectTo { s with reconnectArmed := false } else (s, [])
  | .tick => if s.pingArmed then sendPing s else (s, [])
  | .closeTail =>
    -- `streamClosed` → `QXmppOutgoingClient::disconnectFromHost`: forgets the resumption state and closes the socket if it is
    -- still connected (after a see-other-host in the same read it is not)
    disconnectFromHost s

def run (s : St) : List Ev → R
  | [] => (s, [])
  | e :: es =>
    let r := step s e
    let r' := run r.1 es
    (r'.1, r.2 ++ r'.2)

/-- what `QXmppClient::isConnected()` reports -/
def isConnected (s : St) : Bool := decide (s.conn = .connected) && s.sessionStarted

end Qx.C04
