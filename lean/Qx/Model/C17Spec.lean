/-
C17 — the SPECIFICATION side of the SCE split, written from the property text and the XEPs, NOT from the C++.

It is keyed by what is on the wire — (element name, namespace) as the XEPs define them — and by nothing the code
chooses (no member names, no guard positions).  `Qx/Model/C17Sce.lean` compares the table extracted from
`QXmppMessage.cpp` against it; a disagreement is a finding, not a modelling choice.

Reading used (property C17 + XEP-0420 Stanza Content Encryption): the `<content/>` of the envelope carries every
extension element that is not needed by servers/intermediaries to route, store or process the stanza; what may stay
outside is routing data, processing hints, stanza ids and EXPLICIT fallback for clients that cannot decrypt.
"never the body, subject, thread, attachments, reactions, receipts, markers or any other conversational payload".
Anything this file does not know is `unknown`, and `unknown` is payload.
No proofs here; core Lean only.
-/
namespace Qx.C17

/-- classification demanded by the property text -/
inductive Class | routing | hint | id | fallback | payload
  deriving DecidableEq, Repr

/-- what a top-level child of `<message/>` IS, by its wire identity -/
inductive FieldKind
  -- RFC 6121 core
  | body | subject | thread
  -- extensions carrying what the users say or do
  | oob            -- XEP-0066 jabber:x:oob <x/>: URL of an attachment
  | xhtml          -- XEP-0071 <html/>: formatted copy of the body
  | chatState      -- XEP-0085: composing / paused / … (behavioural metadata of the conversation)
  | delay          -- XEP-0203 <delay/> / XEP-0091 <x/>: when the payload was originally sent (inside the envelope it is
                   --   the sender's own claim; a server-added stamp would be added outside by the server, never by this writer)
  | receipt        -- XEP-0184 <received/>: which message was received
  | receiptRequest -- XEP-0184 <request/>
  | attention      -- XEP-0224
  | mucInvite      -- XEP-0249 direct invitation: room, password, reason
  | bob            -- XEP-0231 bits of binary: inline attachment data
  | correction     -- XEP-0308 <replace/>: which message is being rewritten
  | markable       -- XEP-0333 <markable/>
  | chatMarker     -- XEP-0333 <received/>, <displayed/>, <acknowledged/>: which message was read
  | jmi            -- XEP-0353 Jingle Message Initiation: who calls whom with which media
  | attach         -- XEP-0367 <attach-to/>
  | spoiler        -- XEP-0382: hint text about the body
  | mixInvitation  -- XEP-0407 <invitation/>: inviter, invitee, channel, token
  | trustMessage   -- XEP-0434: key ids and trust decisions
  | reaction       -- XEP-0444: emoji + referenced message
  | fileSharing    -- XEP-0447 <file-sharing/>: file name, size, hashes, URLs
  | fileSources    -- XEP-0447 <sources/>: more URLs for a shared file
  | reply          -- XEP-0461: which message is answered
  | callInvite     -- XEP-0482: call set-up, Jingle sid, external URIs
  -- what intermediaries need, or what exists for those who cannot decrypt
  | carbonsPrivate -- XEP-0280 <private/>: instruction to the user's own server
  | hint           -- XEP-0334 processing hints: instructions to servers (store / no-copy …)
  | stanzaId       -- XEP-0359 <stanza-id/>: assigned BY a server/archive, meaningless inside ciphertext
  | originId       -- XEP-0359 <origin-id/>: sender-chosen id used for deduplication by intermediaries
  | mixUser        -- XEP-0369 <mix/>: added by the MIX channel (real jid / nick of the participant)
  | eme            -- XEP-0380: names the encryption so that a client that cannot decrypt can say why
  | omemo          -- XEP-0384 <encrypted/>: the ciphertext and the per-device key transport themselves
  | addresses      -- XEP-0033: multicast routing
  | fallbackMarker -- XEP-0428 <fallback/>: explicit fallback indication (accompanies both parts)
  | unknown
  deriving DecidableEq, Repr

/-- the wire identity → kind map, from the XEPs' schemas (namespace first; element name where one namespace holds
several kinds).  Core elements appear without namespace in `toXml` and with `jabber:client` inside the envelope. -/
def kindOfWire (tag ns : String) : FieldKind :=
  if ns == "" || ns == "jabber:client" then
    (if tag == "body" then .body else if tag == "subject" then .subject else if tag == "thread" then .thread else .unknown)
  else if ns == "jabber:x:oob" then .oob
  else if ns == "http://jabber.org/protocol/xhtml-im" then .xhtml
  else if ns == "http://jabber.org/protocol/chatstates" then .chatState
  else if ns == "urn:xmpp:delay" || ns == "jabber:x:delay" then .delay
  else if ns == "urn:xmpp:receipts" then (if tag == "request" then .receiptRequest else .receipt)
  else if ns == "urn:xmpp:attention:0" then .attention
  else if ns == "jabber:x:conference" then .mucInvite
  else if ns == "urn:xmpp:bob" then .bob
  else if ns == "urn:xmpp:message-correct:0" then .correction
  else if ns == "urn:xmpp:chat-markers:0" then (if tag == "markable" then .markable else .chatMarker)
  else if ns == "urn:xmpp:jingle-message:0" then .jmi
  else if ns == "urn:xmpp:message-attaching:1" then .attach
  else if ns == "urn:xmpp:spoiler:0" then .spoiler
  else if ns == "urn:xmpp:mix:misc:0" then .mixInvitation
  else if ns == "urn:xmpp:tm:1" then .trustMessage
  else if ns == "urn:xmpp:reactions:0" then .reaction
  else if ns == "urn:xmpp:sfs:0" then (if tag == "sources" then .fileSources else .fileSharing)
  else if ns == "urn:xmpp:reply:0" then .reply
  else if ns == "urn:xmpp:call-invites:0" then .callInvite
  else if ns == "urn:xmpp:carbons:2" then (if tag == "private" then .carbonsPrivate else .unknown)
  else if ns == "urn:xmpp:hints" then .hint
  else if ns == "urn:xmpp:sid:0" then
    (if tag == "stanza-id" then .stanzaId else if tag == "origin-id" then .originId else .unknown)
  else if ns == "urn:xmpp:mix:core:1" then (if tag == "mix" then .mixUser else .unknown)
  else if ns == "urn:xmpp:eme:0" then .eme
  else if ns == "urn:xmpp:omemo:2" then .omemo
  else if ns == "http://jabber.org/protocol/address" then .addresses
  else if ns == "urn:xmpp:fallback:0" then .fallbackMarker
  else .unknown

/-- **The specification**: which kinds the property allows outside the envelope, and as what. -/
def classOfKind : FieldKind → Class
  | .carbonsPrivate => .hint
  | .hint => .hint
  | .eme => .hint
  | .stanzaId => .id
  | .originId => .id
  | .mixUser => .routing
  | .addresses => .routing
  | .omemo => .routing
  | .fallbackMarker => .fallback
  -- everything the users say or do, and everything unknown
  | _ => .payload

/-- `true` = must be inside the envelope only -/
def sensitiveKind (k : FieldKind) : Bool := classOfKind k == .payload

def classOfWire (tag ns : String) : Class := classOfKind (kindOfWire tag ns)

/-- The one exception that cannot be read off the wire: a plaintext `<body/>` next to the ciphertext is, by definition
(XEP-0420 / XEP-0380 practice, property text: "explicit fallback text"), the fallback text — the API field
`QXmppMessage::e2eeFallbackBody`.  The value of THIS field may be public although its wire identity is `body`. -/
def fallbackTextField : String := "e2eeFallbackBody"

end Qx.C17
