/-
C11 — model of the carbon-copy acceptance decision of
  * QXmppCarbonManagerV2::handleStanza (src/client/QXmppCarbonManagerV2.cpp:93-123) and
  * QXmppCarbonManager::handleStanza   (src/client/QXmppCarbonManager.cpp:71-111, "V1"),
embedded in the dispatch of QXmppClient (StanzaPipeline, MessagePipeline, injectMessage,
src/client/QXmppClient.cpp:158-205, 932-963) and the fallback of QXmppOutgoingClient::handleStanza
(src/client/QXmppOutgoingClient.cpp:689-720, 837-844).

An incoming stanza is abstracted to exactly what those functions look at:
  outer element : tagName, attributes id/from/to, element children (three levels deep)
  child         : tagName, namespaceURI, text, element children          (candidate <sent/>/<received/>/<body/>)
  grandchild    : tagName, namespaceURI, element children                (candidate <forwarded/>)
  great-grandch.: tagName, namespaceURI, attributes id/from/to, body     (candidate inner <message/>)
`tag` is what `QDomElement::tagName()` returns (with Qt 5.15's namespace-processing parse that is the local
name: `<c:sent xmlns:c=…>` has tagName `sent`; the harness renders prefixed forms and checks the DOM),
`ns` what `namespaceURI()` returns ("" when none).  Attributes are `Option String`; the code reads them with
`QDomElement::attribute(name)`, which yields the empty string for an absent attribute (`attrVal`).
Strings are compared exactly as the code does: plain equality, no JID normalisation, no case folding.
No proofs here.
-/
namespace Qx.C11

def nsCarbons : String := "urn:xmpp:carbons:2"
def nsForwarding : String := "urn:xmpp:forward:0"
def nsClient : String := "jabber:client"

/-- what the application gets to see of a message: the fields it displays a conversation line from -/
structure Msg where
  id : String
  sender : String
  to : String
  body : String
  /-- `QXmppMessage::type()` as the string `toXml` writes: error | normal | chat | groupchat | headline -/
  type : String
  /-- `QXmppMessage::isCarbonForwarded()` -/
  carbonForwarded : Bool
  deriving DecidableEq, Repr

/-- element below `<forwarded/>`: candidate inner message.  `body = none`: no `<body/>` child.
`nested = true`: the element additionally carries, as children of its own, a `<forwarded/>` with a forged message
(so a `forwarded` node gives forwarded-inside-forwarded), a carbon `<sent/>` wrapper with a forged message, and a
MAM `<result/>` with a forged message; nothing in the modelled code looks at them, so the model ignores the flag —
the correspondence run checks that the implementation ignores them too (no second unwrapping). -/
structure MsgNode where
  tag : String
  ns : String
  id : Option String
  sender : Option String
  to : Option String
  body : Option String
  /-- `type` attribute -/
  typ : Option String
  nested : Bool
  /-- bit mask of further payload children the harness renders into the element (subject, thread, `<private/>`,
  receipt request, processing hint, unknown extension).  None of the modelled fields depends on them: ignored here;
  that the delivered message carries them unchanged is judged by the harness oracle on the serialised message. -/
  extras : Nat
  deriving DecidableEq, Repr

/-- element below the wrapper: candidate `<forwarded/>` -/
structure FwdNode where
  tag : String
  ns : String
  kids : List MsgNode
  deriving DecidableEq, Repr

/-- element child of the outer stanza -/
structure Child where
  tag : String
  ns : String
  /-- text content (only used for `<body/>` children of the outer message) -/
  text : String
  kids : List FwdNode
  deriving DecidableEq, Repr

/-- the incoming stanza -/
structure Outer where
  tag : String
  id : Option String
  sender : Option String
  to : Option String
  /-- `type` attribute -/
  typ : Option String
  kids : List Child
  deriving DecidableEq, Repr

/-- `QDomElement::attribute(name)`: absent attribute reads as the empty string -/
def attrVal : Option String → String
  | none => ""
  | some s => s

/-- `enumFromString<Type>(MESSAGE_TYPES, attribute("type")).value_or(Normal)` (QXmppMessage.cpp:1567): one of the
five RFC 6121 type names (exact, case-sensitive) or else — absent, empty, unknown — `normal` -/
def msgType (t : Option String) : String :=
  let v := attrVal t
  if v = "error" ∨ v = "normal" ∨ v = "chat" ∨ v = "groupchat" ∨ v = "headline" then v else "normal"

/-- text of the (single) `<body/>` child of an inner message; no such child leaves `d->body` empty -/
def bodyVal : Option String → String
  | none => ""
  | some s => s

/-- `QXmppMessage::parse` on the inner element (QXmppStanza::parse for id/from/to, `body` child text),
followed by `setCarbonForwarded(true)` -/
def forwardedMsg (n : MsgNode) : Msg :=
  { id := attrVal n.id, sender := attrVal n.sender, to := attrVal n.to, body := bodyVal n.body,
    type := msgType n.typ, carbonForwarded := true }

/-- text of the last child whose tagName is `body` (QXmppMessage::parseExtensions visits the children in
order, every `body` overwrites `d->body`; the namespace is not looked at); empty when there is none -/
def lastBody (kids : List Child) : String :=
  match (kids.filter (fun c => c.tag == "body")).getLast? with
  | some c => c.text
  | none => ""

/-- ordinary parse of the outer stanza as a message (`QXmppMessage::parse`), flag not set -/
def parseOuter (o : Outer) : Msg :=
  { id := attrVal o.id, sender := attrVal o.sender, to := attrVal o.to, body := lastBody o.kids,
    type := msgType o.typ, carbonForwarded := false }

/-- `firstChildElement(carbon, "forwarded", ns_forwarding)` then
`firstChildElement(forwarded, "message", ns_client)`; a null `forwarded` has no children -/
def innerOf (c : Child) : Option MsgNode :=
  match c.kids.find? (fun f => f.ns == nsForwarding && f.tag == "forwarded") with
  | none => none
  | some f => f.kids.find? (fun m => m.ns == nsClient && m.tag == "message")

/-- V2: `firstChildElement(element, {}, ns_carbons)` — the first child in the carbons namespace, whatever
its tag — which must then be `sent` or `received` -/
def wrapperV2 (kids : List Child) : Option Child :=
  match kids.find? (fun c => c.ns == nsCarbons) with
  | none => none
  | some c => if c.tag = "sent" ∨ c.tag = "received" then some c else none

/-- V1: first `sent` in the carbons namespace, else first `received`; `true` = sent -/
def wrapperV1 (kids : List Child) : Option (Bool × Child) :=
  match kids.find? (fun c => c.ns == nsCarbons && c.tag == "sent") with
  | some c => some (true, c)
  | none =>
    match kids.find? (fun c => c.ns == nsCarbons && c.tag == "received") with
    | some c => some (false, c)
    | none => none

/-- outcome of one carbon manager looking at a `<message/>`:
`notCarbon` (no wrapper: return false silently), `foreign` (wrapper found, sender check failed: log the
CVE-2017-5603 notice, return false), `empty` (sender fine, no forwarded message inside: return false),
`accepted sent m` (return true; `sent` only meaningful for V1) -/
inductive Verdict
  | notCarbon
  | foreign
  | empty
  | accepted (sent : Bool) (m : Msg)
  deriving DecidableEq, Repr

/-- QXmppCarbonManagerV2::handleStanza, in the order of the code: wrapper lookup, sender comparison
(`from != client()->configuration().jidBare()`), forwarded/message lookup -/
def verdictV2 (own sender : String) (kids : List Child) : Verdict :=
  match wrapperV2 kids with
  | none => .notCarbon
  | some c =>
    if sender ≠ own then .foreign
    else
      match innerOf c with
      | none => .empty
      | some n => .accepted (c.tag == "sent") (forwardedMsg n)

/-- QXmppCarbonManager::handleStanza (V1), same order -/
def verdictV1 (own sender : String) (kids : List Child) : Verdict :=
  match wrapperV1 kids with
  | none => .notCarbon
  | some sc =>
    if sender ≠ own then .foreign
    else
      match innerOf sc.2 with
      | none => .empty
      | some n => .accepted sc.1 (forwardedMsg n)

def Verdict.msg? : Verdict → Option Msg
  | .accepted _ m => some m
  | _ => none

/-- the message V2 unwraps and injects, if any -/
def acceptCarbonV2 (own sender : String) (kids : List Child) : Option Msg :=
  (verdictV2 own sender kids).msg?

/-- the message V1 unwraps and emits, if any -/
def acceptCarbonV1 (own sender : String) (kids : List Child) : Option Msg :=
  (verdictV1 own sender kids).msg?

/-- sender-independent part: the inner message the wrapper lookup of V2 / V1 would reach -/
def extractV2 (kids : List Child) : Option Msg :=
  match wrapperV2 kids with
  | none => none
  | some c => (innerOf c).map forwardedMsg

def extractV1 (kids : List Child) : Option Msg :=
  match wrapperV1 kids with
  | none => none
  | some sc => (innerOf sc.2).map forwardedMsg

/-! ### the client around the manager -/

inductive Gen | v1 | v2
  deriving DecidableEq, Repr

/-- where a message surfaces in the application -/
inductive Ev
  /-- `QXmppMessageHandler::handleMessage` of an installed handler extension -/
  | handler (m : Msg)
  /-- signal `QXmppClient::messageReceived` -/
  | clientReceived (m : Msg)
  /-- signal `QXmppCarbonManager::messageSent` (V1) -/
  | v1Sent (m : Msg)
  /-- signal `QXmppCarbonManager::messageReceived` (V1) -/
  | v1Received (m : Msg)
  deriving DecidableEq, Repr

def Ev.msg : Ev → Msg
  | .handler m | .clientReceived m | .v1Sent m | .v1Received m => m

structure Res where
  /-- the extension pipeline reported the stanza as handled (`handled` of `elementReceived`) -/
  consumed : Bool
  /-- the CVE-2017-5603 notice was logged -/
  warned : Bool
  events : List Ev
  deriving DecidableEq, Repr

/-- normal processing of an incoming message nobody consumed: message handlers (ours returns false), then
the `messageReceived` signal of the client, both with the outer stanza parsed as it stands -/
def ordinary (o : Outer) : List Ev :=
  [.handler (parseOuter o), .clientReceived (parseOuter o)]

def verdict (g : Gen) (own : String) (o : Outer) : Verdict :=
  match g with
  | .v2 => verdictV2 own (attrVal o.sender) o.kids
  | .v1 => verdictV1 own (attrVal o.sender) o.kids

/-- one incoming stanza on a client with carbon manager generation `g` (plus one pass-through message
handler) installed and configured bare JID `own` -/
def handle (g : Gen) (own : String) (o : Outer) : Res :=
  if o.tag ≠ "message" then { consumed := false, warned := false, events := [] }
  else
    match verdict g own o with
    | .accepted sent m =>
      match g with
      | .v2 => { consumed := true, warned := false, events := [.handler m, .clientReceived m] }
      | .v1 => { consumed := true, warned := false, events := [if sent then .v1Sent m else .v1Received m] }
    | .foreign => { consumed := false, warned := true, events := ordinary o }
    | _ => { consumed := false, warned := false, events := ordinary o }

structure St where
  gen : Gen
  own : String
  deriving DecidableEq, Repr

/-- the bare part of a full JID: everything before the first `/` (RFC 7622: the resourcepart starts at the FIRST
slash and may itself contain `@` and `/`).  This is what the user's own bare address IS once the server has bound
`jid` (legacy bind result, SASL 2 authorization-identifier) or the application has set it with `setJid`. -/
def bareOf (jid : String) : String :=
  String.ofList (jid.toList.takeWhile (fun c => c != '/'))

inductive Op
  /-- new client / user+domain set field by field: manager generation and the resulting bare JID -/
  | configure (g : Gen) (own : String)
  /-- the own full JID becomes `jid`: bound by the server at login (legacy resource binding, SASL 2 + Bind 2) or given
  to `QXmppConfiguration::setJid`; the configuration's bare JID must from then on be `bareOf jid` -/
  | bound (jid : String)
  | stanza (o : Outer)
  deriving DecidableEq, Repr

def init : St := { gen := .v2, own := "" }

/-- one output record per stanza -/
def step (s : St) : Op → St × List Res
  | .configure g own => ({ gen := g, own := own }, [])
  | .bound jid => ({ s with own := bareOf jid }, [])
  | .stanza o => (s, [handle s.gen s.own o])

def run (s : St) : List Op → St × List Res
  | [] => (s, [])
  | op :: ops =>
    let r1 := step s op
    let r2 := run r1.1 ops
    (r2.1, r1.2 ++ r2.2)

/-- everything that surfaced in the application during a history -/
def presented (rs : List Res) : List Ev := rs.flatMap (·.events)

end Qx.C11
