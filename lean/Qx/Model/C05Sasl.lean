import Qx.Generated.SaslOrder
/-!
# C05 — model of the client's SASL mechanism choice

Follows `chooseMechanism` / `SaslManager::authenticate` / `Sasl2Manager::authenticate`
(src/client/QXmppSaslManager.cpp), `SaslMechanism::fromString` / `toString`, `SaslHtMechanism::fromString`
and `QXmppSaslClient::isMechanismAvailable` (src/base/QXmppSasl.cpp).

Everything that is *data* in the C++ (order of the variant alternatives, order of the enumerators, the
name tables, the default disabled list) comes from `Qx.Generated.SaslOrder`, regenerated from the source
tree by `translators/sasl_order.py` on every check.  No proofs and no Mathlib here (linked into the driver).
-/
namespace Qx.C05
open Qx.SaslOrder

/-- the alternatives of `SaslMechanism` that carry no data -/
inductive Simple
  | google | windowsLive | facebook | anonymous | plain | digestMd5
  deriving DecidableEq, Repr

/-- `SaslScramMechanism::Algorithm` -/
inductive ScramAlg
  | sha1 | sha256 | sha512 | sha3_512
  deriving DecidableEq, Repr

/-- `SaslHtMechanism::ChannelBindingType` (`nob` = `None`) -/
inductive Cb
  | endp | uniq | expr | nob
  deriving DecidableEq, Repr

/-- a parsed mechanism (`SaslMechanism`). The hash of an HT mechanism is the numeric value of its
`IanaHashAlgorithm` (= index into the `ianaHashAlgorithms` string table), exactly as the C++ produces it. -/
inductive Mech
  | simple (f : Simple)
  | scram (a : ScramAlg)
  | ht (h : Nat) (cb : Cb)
  deriving DecidableEq, Repr

def Simple.all : List Simple := [.google, .windowsLive, .facebook, .anonymous, .plain, .digestMd5]
def ScramAlg.all : List ScramAlg := [.sha1, .sha256, .sha512, .sha3_512]
def Cb.all : List Cb := [.endp, .uniq, .expr, .nob]

/-- C++ identifier of the variant alternative -/
def Simple.cxx : Simple → String
  | .google => "SaslXGoogleMechanism"
  | .windowsLive => "SaslXWindowsLiveMechanism"
  | .facebook => "SaslXFacebookMechanism"
  | .anonymous => "SaslAnonymousMechanism"
  | .plain => "SaslPlainMechanism"
  | .digestMd5 => "SaslDigestMd5Mechanism"

def scramCxx : String := "SaslScramMechanism"
def htCxx : String := "SaslHtMechanism"

/-- C++ enumerator -/
def ScramAlg.cxx : ScramAlg → String
  | .sha1 => "Sha1"
  | .sha256 => "Sha256"
  | .sha512 => "Sha512"
  | .sha3_512 => "Sha3_512"

/-- C++ enumerator -/
def Cb.cxx : Cb → String
  | .endp => "TlsServerEndpoint"
  | .uniq => "TlsUnique"
  | .expr => "TlsExporter"
  | .nob => "None"

def simpleOfCxx (s : String) : Option Simple := Simple.all.find? (fun f => f.cxx = s)
def scramOfCxx (s : String) : Option ScramAlg := ScramAlg.all.find? (fun a => a.cxx = s)
def cbOfCxx (s : String) : Option Cb := Cb.all.find? (fun c => c.cxx = s)

/-- first entry with the given key -/
def lookup : List (String × String) → String → Option String
  | [], _ => none
  | e :: t, k => if e.1 = k then some e.2 else lookup t k

/-! ## The order used by `std::ranges::max` -/

/-- the defaulted `<=>` of `SaslHtMechanism` compares its members in declaration order -/
def htHashFirst : Bool := decide (htFieldOrder = ["hashAlgorithm", "channelBindingType"])

/-- position under `std::variant`'s comparison (index of the alternative first, then the alternative's own
defaulted member-wise comparison), computed from the generated declaration orders -/
def rank : Mech → Nat × Nat × Nat
  | .simple f => (variantOrder.idxOf f.cxx, 0, 0)
  | .scram a => (variantOrder.idxOf scramCxx, scramAlgOrder.idxOf a.cxx, 0)
  | .ht h cb =>
    if htHashFirst then (variantOrder.idxOf htCxx, h, channelBindingOrder.idxOf cb.cxx)
    else (variantOrder.idxOf htCxx, channelBindingOrder.idxOf cb.cxx, h)

/-- lexicographic `<` on triples -/
def rlt (a b : Nat × Nat × Nat) : Bool :=
  decide (a.1 < b.1) || (decide (a.1 = b.1) &&
    (decide (a.2.1 < b.2.1) || (decide (a.2.1 = b.2.1) && decide (a.2.2 < b.2.2))))

/-- `weaker m m'`: the C++ `operator<` on `SaslMechanism` says `m < m'` -/
def weaker (m m' : Mech) : Bool := rlt (rank m) (rank m')

/-! ## Names -/

def scramFromName (n : String) : Option ScramAlg := (lookup scramFromString n).bind scramOfCxx

def stripPrefix? (p s : List Char) : Option (List Char) :=
  if p.isPrefixOf s then some (s.drop p.length) else none

/-- the loop over `ianaHashAlgorithms` in `SaslHtMechanism::fromString`: every table entry that is a prefix of
what is left is consumed; whether the loop then stops (`break`, since commit 0f385bc) or goes on and lets a later
entry overwrite the algorithm is read from the source by the translator (`htHashLoopBreaks`) -/
def htHashLoop : List String → Nat → List Char → Option Nat → List Char × Option Nat
  | [], _, s, alg => (s, alg)
  | nm :: rest, i, s, alg =>
    if nm.toList.isPrefixOf s then
      if htHashLoopBreaks then (s.drop nm.toList.length, some i)
      else htHashLoop rest (i + 1) (s.drop nm.toList.length) (some i)
    else htHashLoop rest (i + 1) s alg

/-- `SaslHtMechanism::fromString` -/
def htFromName (n : String) : Option (Nat × Cb) :=
  match stripPrefix? htPrefix.toList n.toList with
  | none => none
  | some r =>
    let st := htHashLoop ianaHashNames 0 r none
    match st.2 with
    | none => none
    | some h => ((lookup htCbFromString (String.ofList st.1)).bind cbOfCxx).map (fun cb => (h, cb))

/-- one `if` of `SaslMechanism::fromString`: `none` = the test does not apply, `some r` = the function returns `r` -/
def fromEntry (n : String) (e : String × String × String) : Option (Option Mech) :=
  if e.1 = "prefix" then
    if e.2.1.toList.isPrefixOf n.toList then
      some (if e.2.2 = scramCxx then (scramFromName n).map Mech.scram
            else if e.2.2 = htCxx then (htFromName n).map (fun p => Mech.ht p.1 p.2)
            else none)
    else none
  else
    if e.2.1 = n then some ((simpleOfCxx e.2.2).map Mech.simple) else none

def fromNameTbl : List (String × String × String) → String → Option Mech
  | [], _ => none
  | e :: t, n =>
    match fromEntry n e with
    | some r => r
    | none => fromNameTbl t n

/-- `SaslMechanism::fromString` -/
def fromName (n : String) : Option Mech := fromNameTbl mechFromString n

/-- `SaslMechanism::toString` (every lookup succeeds on the generated tables: `Props.C05.generated_wellformed`) -/
def toName : Mech → String
  | .simple f => (lookup mechToString f.cxx).getD ""
  | .scram a => (lookup scramToString a.cxx).getD ""
  | .ht h cb =>
    htToStringPrefix ++ (ianaHashNames[h]?).getD "" ++ htToStringSep ++ (lookup channelBindingToString cb.cxx).getD ""

/-- every mechanism value `fromName` can produce: all data-less alternatives, all SCRAM algorithms, and HT with a
hash that is a valid index of the `ianaHashAlgorithms` table -/
def allMechs : List Mech :=
  Simple.all.map Mech.simple ++ ScramAlg.all.map Mech.scram ++
    (List.range ianaHashNames.length).flatMap (fun h => Cb.all.map (Mech.ht h))

/-! ## Credentials and configuration -/

/-- state of a string credential (`QString`): never set (null), set but empty (`QString("")`, non-null), non-empty -/
inductive Secret
  | null | empty | nonEmpty
  deriving DecidableEq, Repr

/-- `!s.isEmpty()`: only a non-empty string is a credential -/
def Secret.present : Secret → Bool
  | .nonEmpty => true
  | _ => false

/-- what `isMechanismAvailable` looks at: the state of each secret string, and which mechanism the stored token is for
(the token's own secret string is not looked at) -/
structure Creds where
  password : Secret := .null
  htToken : Option (Nat × Cb) := none
  fbToken : Secret := .null
  fbAppId : Secret := .null
  google : Secret := .null
  windowsLive : Secret := .null
  deriving Repr

/-- `QXmppSaslClient::isMechanismAvailable` -/
def available (c : Creds) : Mech → Bool
  | .ht h cb => decide (c.htToken = some (h, cb)) && decide (cb = Cb.nob)
  | .scram _ => c.password.present
  | .simple .digestMd5 => c.password.present
  | .simple .plain => c.password.present
  | .simple .facebook => c.fbToken.present && c.fbAppId.present
  | .simple .windowsLive => c.windowsLive.present
  | .simple .google => c.google.present
  | .simple .anonymous => true

structure Cfg where
  /-- `disabledSaslMechanisms()` -/
  disabled : List String := defaultDisabled
  /-- `saslAuthMechanism()`, empty = not configured -/
  preferred : String := ""
  creds : Creds := {}
  deriving Repr

/-! ## `chooseMechanism` -/

/-- offered names that pass `isEnabled` -/
def enabledNames (cfg : Cfg) (offered : List String) : List String :=
  offered.filter (fun n => !cfg.disabled.contains n)

/-- `disabledAvailable`: offered names dropped because they are disabled (goes into the error text) -/
def disabledOffered (cfg : Cfg) (offered : List String) : List String :=
  offered.filter (fun n => cfg.disabled.contains n)

/-- the vector `mechanisms`: enabled → parsed → credential-available, in offer order, duplicates kept -/
def permitted (cfg : Cfg) (offered : List String) : List Mech :=
  ((enabledNames cfg offered).filterMap fromName).filter (available cfg.creds)

/-- the configured mechanism, if one is configured and parses -/
def prefMech (cfg : Cfg) : Option Mech :=
  if cfg.preferred = "" then none else fromName cfg.preferred

/-- `std::ranges::max` over a non-empty range: the first greatest element -/
def pickMax : Mech → List Mech → Mech
  | best, [] => best
  | best, x :: xs => pickMax (if weaker best x then x else best) xs

def maxMech : List Mech → Option Mech
  | [] => none
  | m :: ms => some (pickMax m ms)

/-- the part of `chooseMechanism` after the vector has been built -/
def chooseFrom (pref : Option Mech) (ms : List Mech) : Option Mech :=
  if ms.isEmpty then none
  else match pref with
    | some p => if ms.contains p then some p else maxMech ms
    | none => maxMech ms

/-- `chooseMechanism` (first component) -/
def choose (cfg : Cfg) (offered : List String) : Option Mech :=
  chooseFrom (prefMech cfg) (permitted cfg offered)

/-! ## What the managers do with it -/

inductive Outcome
  /-- `<auth mechanism=…/>` or `<authenticate mechanism=…>` sent, with/without `<fast/>` -/
  | sent (mechanism : String) (fast : Bool)
  /-- nothing sent, `AuthenticationError::MechanismMismatch`; the text lists the offered-but-disabled names -/
  | mismatch (disabledOffered : List String)
  deriving DecidableEq, Repr

/-- `SaslManager::authenticate` -/
def authenticate (cfg : Cfg) (offered : List String) : Outcome :=
  match choose cfg offered with
  | none => .mismatch (disabledOffered cfg offered)
  | some m => .sent (toName m) false

/-- `FastTokenManager::isFastEnabled` -/
def fastEnabled (useFast hasUserAgent : Bool) : Bool := useFast && hasUserAgent

/-- mechanisms `Sasl2Manager::authenticate` hands to `chooseMechanism` -/
def sasl2Offer (fastOn : Bool) (mechanisms : List String) (fast : Option (List String)) : List String :=
  match fast, fastOn with
  | some fm, true => mechanisms ++ fm
  | _, _ => mechanisms

/-- `Sasl2Manager::authenticate` (a user agent with a device id is assumed whenever one is configured) -/
def sasl2Authenticate (cfg : Cfg) (fastOn : Bool) (mechanisms : List String) (fast : Option (List String)) : Outcome :=
  let offer := sasl2Offer fastOn mechanisms fast
  match choose cfg offer with
  | none => .mismatch (disabledOffered cfg offer)
  | some m =>
    .sent (toName m)
      (match fast, fastOn with
       | some fm, true => fm.contains (toName m)
       | _, _ => false)

/-! ## One level up: `QXmppOutgoingClient::handleStreamFeatures` (after STARTTLS has been dealt with) -/

/-- the user's switches: `useSasl2Authentication`, `useSASLAuthentication`, `useNonSASLAuthentication` (all on by default),
and whether FAST is enabled (`fastEnabled`) -/
structure ClientCfg where
  cfg : Cfg := {}
  useSasl2 : Bool := true
  useSasl : Bool := true
  useNonSasl : Bool := true
  fastOn : Bool := false
  deriving Repr

/-- what the stream features advertise, as far as authentication goes -/
structure Features where
  /-- `<mechanisms xmlns='urn:ietf:params:xml:ns:xmpp-sasl'/>` (`authMechanisms()`), `[]` when absent -/
  mechanisms : List String := []
  /-- `<auth xmlns='http://jabber.org/features/iq-auth'/>` (XEP-0078) -/
  legacyAuth : Bool := false
  /-- `<bind xmlns='urn:ietf:params:xml:ns:xmpp-bind'/>` -/
  bind : Bool := false
  /-- SASL 2 `<authentication/>`: its mechanisms -/
  sasl2 : Option (List String) := none
  /-- `<fast/>` inside it -/
  fast : Option (List String) := none
  deriving Repr

inductive ClientOutcome
  /-- SASL 2 negotiated: `Sasl2Manager::authenticate`'s outcome; a mismatch is reported to the user and the client disconnects -/
  | sasl2 (o : Outcome)
  /-- SASL negotiated: `SaslManager::authenticate`'s outcome; a mismatch is reported to the user and the client disconnects -/
  | sasl (o : Outcome)
  /-- XEP-0078 `jabber:iq:auth` query sent -/
  | legacyAuth
  /-- resource bind request sent (without authentication) -/
  | bind
  /-- nothing to negotiate: session opened -/
  | session
  deriving DecidableEq, Repr

/-- the authentication part of `handleStreamFeatures` for a fresh connection (no resumable stream, no stream management
advertised): SASL 2 if offered and enabled, else SASL if a non-empty mechanism list is offered and SASL is enabled, else XEP-0078 if
advertised and enabled, else bind if advertised, else the session is opened -/
def clientChoice (c : ClientCfg) (f : Features) : ClientOutcome :=
  match f.sasl2, c.useSasl2 with
  | some m2, true => .sasl2 (sasl2Authenticate c.cfg c.fastOn m2 f.fast)
  | _, _ =>
    if !f.mechanisms.isEmpty && c.useSasl then .sasl (authenticate c.cfg f.mechanisms)
    else if f.legacyAuth && c.useNonSasl then .legacyAuth
    else if f.bind then .bind
    else .session

/-- does the client disconnect as part of this step? -/
def ClientOutcome.disconnects : ClientOutcome → Bool
  | .sasl2 (.mismatch _) => true
  | .sasl (.mismatch _) => true
  | _ => false

end Qx.C05
