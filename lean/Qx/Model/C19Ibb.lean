/-
C19 — model of an XEP-0047 (in-band) file transfer between two QXmppTransferManagers
(src/client/QXmppTransferManager.cpp, src/base/QXmppIbbIq.cpp) with an adversarial channel
in between, and of the SOCKS5 receive path of QXmppTransferIncomingJob.

What the code does today is modelled, not what it should do:

* Both jobs keep the block counter in `quint16 ibbSequence` (QXmppTransferJobPrivate; it was `int`
  before repo commit 49cbe2e, which made every transfer of more than 65536 blocks fail).  The
  sender writes `dataIq.setSequence(job->d->ibbSequence++)`, the receiver compares
  `iq.sequence() != job->d->ibbSequence` and increments: all three are 16-bit and wrap from 65535
  to 0, as XEP-0047 prescribes.  Here: `UInt16` everywhere.
* The receiver finds the job by (sender JID, session id) — `getIncomingJobBySid` — and needs
  `TransferState` for `<data/>` and `StartState` for `<open/>` (repo commit 31a1bb4); `<close/>` has no state
  requirement.
* The final check (`checkData`) compares the byte count only if a non-zero size was announced
  and the MD5 only if a hash was announced.
* `QXmppTransferIncomingJob::writeData` calls `QIODevice::write` ONCE per block and does not retry.  A write
  that fails or takes only part of the block ends the job with `FileAccessError` (repo commit 675e9c1; before, the
  short count was accepted and the whole block hashed).  The byte counter and the running MD5 only see blocks the
  device took completely, so `done = |fed|`; the device content `acc` additionally holds the part of a block a short
  write left behind.  The callers acknowledge the block and advance the sequence counter in every case.
* Each in-band job has an inactivity timer (repo commit 72eab57, 120 s), running while the job is in `TransferState`
  and restarted on every progress: when it fires the job ends with `ProtocolError`.  Modelled as the explicit op
  `timeout` ("the interval elapses with nothing happening"): every job in `TransferState` gives up.  A job in
  `StartState` (the `<open/>` or its answer got lost) has no timer and still waits for ever.
* A `<close/>` sent TO the sending client is answered with `<item-not-found/>` (`ibbCloseIqReceived` only looks for
  incoming jobs) and does not touch the sending job.

The file hash is a parameter `H`.  No proofs here.
-/
namespace Qx.C19

/-- `QXmppTransferJob::State` -/
inductive JState | offer | start | transfer | finished
  deriving DecidableEq, Repr

/-- `QXmppTransferJob::Error` -/
inductive JError | none | abort | access | corrupt | protocol
  deriving DecidableEq, Repr

/-- stanza error conditions the receiving manager answers with -/
inductive Cond | itemNotFound | unexpectedRequest | resourceConstraint
  deriving DecidableEq, Repr

inductive Kind
  | open (blockSize : Nat)
  | data (seq : UInt16) (payload : List UInt8)
  | close
  deriving DecidableEq, Repr

/-- an XEP-0047 request on its way to the receiving client.  `sender = 0` is the sending client's
JID, `sid = 0` the negotiated session id; other numbers are other JIDs / session ids.
`id = 0` is used by the channel for stanzas it fabricates (the sender's own ids start at 1). -/
structure Stanza where
  id : Nat
  sender : Nat
  sid : Nat
  kind : Kind
  deriving DecidableEq, Repr

/-- the receiving client's answer: `err = none` is `<iq type='result'/>`; addressed to `to`
(the `from` of the request) -/
structure Reply where
  id : Nat
  to : Nat
  err : Option Cond
  /-- who sent the response: 0 = the receiving client (the peer of the sending job), other = somebody else -/
  origin : Nat := 0
  deriving DecidableEq, Repr

/-! ### the receiver's output device -/

/-- how the `QIODevice` handed to `accept(QIODevice*)` takes a `write()` -/
inductive Dev
  /-- takes everything (QBuffer, a file on a healthy disk) -/
  | unlimited
  /-- takes at most `k` bytes per call and reports that count -/
  | perWrite (k : Nat)
  /-- holds at most `m` bytes in total; takes what still fits and reports that count (0 once full) -/
  | fullAfter (m : Nat)
  /-- a write that would go beyond byte `m` fails with -1 and stores nothing -/
  | failAt (m : Nat)
  deriving DecidableEq, Repr

/-- result of `write()` of `n` bytes on a device already holding `held ()` bytes: `none` = -1, `some w` = `w` bytes
taken (`held` is a thunk only so that the executable model does not measure the device on every block) -/
def Dev.accept (d : Dev) (held : Unit → Nat) (n : Nat) : Option Nat :=
  match d with
  | .unlimited => some n
  | .perWrite k => some (min k n)
  | .fullAfter m => some (min n (m - held ()))
  | .failAt m => if held () + n > m then none else some n

/-! ### receiving job (QXmppTransferIncomingJob + the ibb*IqReceived handlers) -/

structure Recv where
  /-- the receiving manager's `ibbBlockSize` -/
  maxBlock : Nat
  /-- `fileInfo.size()` from the offer; 0 = not announced -/
  size : Nat
  /-- `fileInfo.hash()` from the offer; `none` = empty -/
  hash : Option (List UInt8)
  state : JState := .start
  error : JError := .none
  /-- `d->ibbSequence` (quint16, wraps) -/
  expected : UInt16 := 0
  /-- bytes the output device actually took, newest first -/
  accRev : List UInt8 := []
  /-- bytes fed to the running MD5 (`d->hash.addData`; the code only does it when a hash was announced, which is also
  the only case in which it is looked at), newest first -/
  fedRev : List UInt8 := []
  dev : Dev := .unlimited
  /-- accept(filePath) only: what the destination file still holds of its previous content after it was opened
  (`[]` after a truncating open; the device is written from offset 0, so the old bytes beyond what has been written
  stay on disk) -/
  old : List UInt8 := []
  blockSize : Nat := 16384
  finishedSignals : Nat := 0
  errorSignals : Nat := 0
  deriving DecidableEq, Repr

/-- contents of the receiver's output device -/
def Recv.acc (r : Recv) : List UInt8 := r.accRev.reverse

/-- accept(filePath): what the destination file on disk holds — the bytes written so far, followed by whatever is left
of the previous content beyond them -/
def Recv.disk (r : Recv) : List UInt8 := r.acc ++ r.old.drop r.acc.length

/-- what the running hash has seen -/
def Recv.fed (r : Recv) : List UInt8 := r.fedRev.reverse

/-- `QXmppTransferJob::terminate` + the queued `_q_terminated` -/
def Recv.terminate (r : Recv) (cause : JError) : Recv :=
  if r.state = .finished then r
  else { r with state := .finished, error := cause,
                finishedSignals := r.finishedSignals + 1,
                errorSignals := r.errorSignals + (if cause = .none then 0 else 1) }

/-- `QXmppTransferIncomingJob::writeData` (since repo commit 675e9c1): one `write()`, no retry.  If the device took the
whole block, the byte counter `done` and the running hash advance by the block (`fed`; `done = |fed|`).  If the write
failed or was short, whatever the device took stays in it, neither counter nor hash move, and the job ends with
`FileAccessError` (the callers still acknowledge the block and advance the sequence counter). -/
def Recv.write (r : Recv) (pl : List UInt8) : Recv :=
  match r.dev.accept (fun _ => r.accRev.length) pl.length with
  | none => r.terminate .access
  | some w =>
    if w = pl.length then { r with accRev := pl.reverse ++ r.accRev, fedRev := pl.reverse ++ r.fedRev }
    else ({ r with accRev := (pl.take w).reverse ++ r.accRev } : Recv).terminate .access

/-- does the final verification fail? (`QXmppTransferIncomingJob::checkData`) -/
def Recv.checkFails (H : List UInt8 → List UInt8) (r : Recv) : Bool :=
  (r.size != 0 && r.fed.length != r.size) ||
  (match r.hash with
   | some h => H r.fed != h
   | none => false)

def Recv.checkData (H : List UInt8 → List UInt8) (r : Recv) : Recv :=
  if r.checkFails H then r.terminate .corrupt else r.terminate .none

/-- the job reported success: finished without error -/
def Recv.success (r : Recv) : Prop := r.state = .finished ∧ r.error = .none

instance (r : Recv) : Decidable r.success := by unfold Recv.success; infer_instance

/-- one XEP-0047 request handled by the receiving manager -/
def recv (H : List UInt8 → List UInt8) (r : Recv) (st : Stanza) : Recv × Reply :=
  -- getIncomingJobBySid(iq.from(), iq.sid())
  if st.sender ≠ 0 ∨ st.sid ≠ 0 then (r, { id := st.id, to := st.sender, err := some .itemNotFound })
  else
    match st.kind with
    | .close =>
      -- acknowledged first, then checkData(); no state requirement
      (r.checkData H, { id := st.id, to := st.sender, err := none })
    | .data seq payload =>
      if r.state ≠ .transfer then (r, { id := st.id, to := st.sender, err := some .itemNotFound })
      else if seq ≠ r.expected then (r, { id := st.id, to := st.sender, err := some .unexpectedRequest })
      else
        -- the return value of writeData is ignored: counted and acknowledged whatever the device did
        (({ r with expected := r.expected + 1 }).write payload, { id := st.id, to := st.sender, err := none })
    | .open bs =>
      -- only a job that was accepted and waits for the bytestream may be opened (repo commit 31a1bb4): a late or forged
      -- `<open/>` cannot put a running, finished or failed job (back) into TransferState
      if r.state ≠ .start then (r, { id := st.id, to := st.sender, err := some .itemNotFound })
      else if bs > r.maxBlock then (r, { id := st.id, to := st.sender, err := some .resourceConstraint })
      else ({ r with blockSize := bs, state := .transfer }, { id := st.id, to := st.sender, err := none })

/-! ### sending job (QXmppTransferOutgoingJob + ibbResponseReceived) -/

structure Send where
  /-- the sending manager's `ibbBlockSize`, copied into the job -/
  blockSize : Nat
  /-- unread part of the input device -/
  rest : List UInt8
  /-- `d->ibbSequence` (quint16, wraps) -/
  seq : UInt16 := 0
  /-- id of the last request sent (`d->requestId`) -/
  requestId : Nat := 1
  nextId : Nat := 2
  state : JState := .start
  error : JError := .none
  finishedSignals : Nat := 0
  errorSignals : Nat := 0
  deriving DecidableEq, Repr

def Send.terminate (s : Send) (cause : JError) : Send :=
  if s.state = .finished then s
  else { s with state := .finished, error := cause,
                finishedSignals := s.finishedSignals + 1,
                errorSignals := s.errorSignals + (if cause = .none then 0 else 1) }

def Send.success (s : Send) : Prop := s.state = .finished ∧ s.error = .none

instance (s : Send) : Decidable s.success := by unfold Send.success; infer_instance

/-- one IQ response handled by the sending client (`_q_iqReceived` → `ibbResponseReceived`).
A response addressed to somebody else never reaches it. -/
def sender (s : Send) (rep : Reply) : Send × Option Stanza :=
  -- `_q_iqReceived`: only `ptr->d->jid == iq.from() && ptr->d->requestId == iq.id()` is looked at
  if rep.to ≠ 0 ∨ rep.origin ≠ 0 then (s, none)
  else if rep.id ≠ s.requestId then (s, none)
  else if s.state = .finished then (s, none)
  else
    match rep.err with
    | none =>
      -- `iodevice->read(blockSize)`
      if s.rest.take s.blockSize ≠ [] then
        ({ s with state := .transfer, rest := s.rest.drop s.blockSize, seq := s.seq + 1,
                  requestId := s.nextId, nextId := s.nextId + 1 },
         some { id := s.nextId, sender := 0, sid := 0, kind := .data s.seq (s.rest.take s.blockSize) })
      else
        (({ s with state := .transfer, requestId := s.nextId, nextId := s.nextId + 1 }).terminate .none,
         some { id := s.nextId, sender := 0, sid := 0, kind := .close })
    | some _ =>
      (({ s with requestId := s.nextId, nextId := s.nextId + 1 }).terminate .protocol,
       some { id := s.nextId, sender := 0, sid := 0, kind := .close })

/-! ### the channel -/

structure St where
  s : Send
  r : Recv
  /-- the XEP-0047 request the sender emitted last and the channel still holds -/
  pending : Option Stanza
  deriving DecidableEq, Repr

inductive Op
  /-- hand the pending request to the receiver, its answer to the sender -/
  | deliver
  /-- lose the pending request; the sender is told it arrived (forged `result`) and goes on -/
  | drop
  /-- deliver the pending request twice -/
  | dup
  /-- reorder: hold the pending request (forged `result`), deliver the sender's next request first, then the held one -/
  | swap
  /-- flip one bit of the pending data block, then deliver it -/
  | flip (bit : Nat)
  /-- cut the stream short: a `<close/>` in the sender's name arrives now -/
  | earlyClose
  /-- deliver the pending request with another session id -/
  | wrongSid
  /-- deliver the pending request as coming from another JID -/
  | wrongSender
  /-- an arbitrary additional request arrives (third party, other session, or forged in the sender's name) -/
  | inject (sender sid : Nat) (kind : Kind)
  /-- the pending request is lost and NOBODY answers the sender (a lost stanza on a stream that stays up) -/
  | lose
  /-- a response IQ reaches the SENDING client: from the peer (`origin = 0`) or somebody else, carrying the id of the
  sender's last request (`back = 0`) or of the request `back` ids earlier, `result` or an error -/
  | injectReply (origin back : Nat) (err : Option Cond)
  /-- the receiving peer sends `<close/>` to the sending client (XEP-0047 allows either side to close) -/
  | peerClose
  /-- the inactivity interval elapses with nothing happening: the timer of every job in `TransferState` fires -/
  | timeout
  deriving DecidableEq, Repr

def bitMask (k : Nat) : UInt8 :=
  match k % 8 with
  | 0 => 1 | 1 => 2 | 2 => 4 | 3 => 8 | 4 => 16 | 5 => 32 | 6 => 64 | _ => 128

/-- flip bit `bit mod (8·length)` (bit 0 = least significant bit of the first byte) -/
def flipBit (l : List UInt8) (bit : Nat) : List UInt8 :=
  let b := bit % (8 * l.length)
  l.set (b / 8) (l.getD (b / 8) 0 ^^^ bitMask b)

def flipStanza (bit : Nat) (p : Stanza) : Stanza :=
  match p.kind with
  | .data seq payload => { p with kind := .data seq (flipBit payload bit) }
  | _ => p

/-- forged acknowledgement of request `p` -/
def ack (p : Stanza) : Reply := { id := p.id, to := 0, err := none }

/-- the receiver handles `p` -/
def toR (H : List UInt8 → List UInt8) (st : St) (p : Stanza) : St × Reply :=
  let x := recv H st.r p
  ({ st with r := x.1 }, x.2)

/-- the sender handles `rep`; what it emits becomes the pending request -/
def feed (st : St) (rep : Reply) : St :=
  let x := sender st.s rep
  { st with s := x.1, pending := match x.2 with | some p => some p | none => st.pending }

/-- deliver `p` (not necessarily the pending one) and route the answer -/
def deliverStanza (H : List UInt8 → List UInt8) (st : St) (p : Stanza) : St × List Reply :=
  let a := toR H st p
  (feed a.1 a.2, [a.2])

def step (H : List UInt8 → List UInt8) (st : St) : Op → St × List Reply
  | .deliver =>
    match st.pending with
    | none => (st, [])
    | some p => deliverStanza H { st with pending := none } p
  | .drop =>
    match st.pending with
    | none => (st, [])
    | some p => (feed { st with pending := none } (ack p), [])
  | .dup =>
    match st.pending with
    | none => (st, [])
    | some p =>
      let a := toR H { st with pending := none } p
      let b := toR H a.1 p
      (feed (feed b.1 a.2) b.2, [a.2, b.2])
  | .swap =>
    match st.pending with
    | none => (st, [])
    | some p =>
      let st1 := feed { st with pending := none } (ack p)
      match st1.pending with
      | none => deliverStanza H st1 p
      | some q =>
        let a := toR H { st1 with pending := none } q
        let b := toR H a.1 p
        (feed (feed b.1 a.2) b.2, [a.2, b.2])
  | .flip bit =>
    match st.pending with
    | none => (st, [])
    | some p => deliverStanza H { st with pending := none } (flipStanza bit p)
  | .earlyClose => deliverStanza H st { id := 0, sender := 0, sid := 0, kind := .close }
  | .wrongSid =>
    match st.pending with
    | none => (st, [])
    | some p => deliverStanza H { st with pending := none } { p with sid := 1 }
  | .wrongSender =>
    match st.pending with
    | none => (st, [])
    | some p => deliverStanza H { st with pending := none } { p with sender := 1 }
  | .inject sender sid kind => deliverStanza H st { id := 0, sender := sender, sid := sid, kind := kind }
  | .lose => ({ st with pending := none }, [])
  | .injectReply origin back err =>
    (feed st { id := st.s.requestId - back, to := 0, err := err, origin := origin }, [])
  -- `ibbCloseIqReceived` only knows incoming jobs: the sending client answers <item-not-found/>, the job goes on
  | .peerClose => (st, [{ id := 0, to := 1, err := some .itemNotFound }])
  | .timeout =>
    ({ st with s := if st.s.state = .transfer then st.s.terminate .protocol else st.s,
               r := if st.r.state = .transfer then st.r.terminate .protocol else st.r }, [])

def run (H : List UInt8 → List UInt8) (st : St) : List Op → St × List Reply
  | [] => (st, [])
  | op :: ops =>
    let r1 := step H st op
    let r2 := run H r1.1 ops
    (r2.1, r1.2 ++ r2.2)

/-- state after the stream-initiation offer was accepted: the sender has emitted `<open/>` with its
manager's block size, the receiving job waits in `StartState` holding the announced size and hash -/
def initDev (dev : Dev) (bsS bsR size : Nat) (hash : Option (List UInt8)) (data : List UInt8) : St :=
  { s := { blockSize := bsS, rest := data },
    r := { maxBlock := bsR, size := size, hash := hash, dev := dev },
    pending := some { id := 1, sender := 0, sid := 0, kind := .open bsS } }

/-- how `QXmppTransferJob::accept(const QString &filePath)` opens the destination file -/
inductive OpenMode
  /-- `QIODevice::WriteOnly` (implies Truncate): previous content is discarded -/
  | truncate
  /-- e.g. `QIODevice::ReadWrite`: previous content stays, writing starts at offset 0 -/
  | keep
  deriving DecidableEq, Repr

/-- the mode the code uses today (`file->open(QIODevice::WriteOnly)`); tied to the code by the `pathrun` correspondence
lines, which receive into pre-existing files -/
def acceptOpenMode : OpenMode := .truncate

/-- what is left of the previous content of the destination file once it has been opened -/
def openFile (mode : OpenMode) (previous : List UInt8) : List UInt8 :=
  match mode with
  | .truncate => []
  | .keep => previous

/-- accept(filePath) into a path that already holds `previous`: a healthy file opened with `mode` -/
def initPath (mode : OpenMode) (previous : List UInt8) (bsS bsR size : Nat) (hash : Option (List UInt8)) (data : List UInt8) : St :=
  { s := { blockSize := bsS, rest := data },
    r := { maxBlock := bsR, size := size, hash := hash, old := openFile mode previous },
    pending := some { id := 1, sender := 0, sid := 0, kind := .open bsS } }

/-- the same with a receiving device that takes everything (QBuffer, a healthy file) -/
def init (bsS bsR size : Nat) (hash : Option (List UInt8)) (data : List UInt8) : St :=
  initDev .unlimited bsS bsR size hash data

/-- `n` honest deliveries -/
def honest (n : Nat) : List Op := List.replicate n .deliver

/-! ### SOCKS5 receive path (QXmppTransferIncomingJob::_q_receiveData / _q_disconnected)

No sequence numbers: the bytes read from the socket are appended; the final check runs as soon as
`done ≥ size` (size announced) or when the peer disconnects.  Stream-host / proxy negotiation is
outside the model. -/

inductive SOp
  | chunk (bytes : List UInt8)
  | disconnect
  deriving DecidableEq, Repr

/-- the receiving job in `TransferState` with the socket connected -/
def sinitDev (dev : Dev) (size : Nat) (hash : Option (List UInt8)) : Recv :=
  { maxBlock := 0, size := size, hash := hash, state := .transfer, dev := dev }

def sinit (size : Nat) (hash : Option (List UInt8)) : Recv := sinitDev .unlimited size hash

def sstep (H : List UInt8 → List UInt8) (r : Recv) : SOp → Recv
  | .chunk bytes =>
    if r.state ≠ .transfer then r
    else
      let r1 := r.write bytes
      if r1.size ≠ 0 ∧ r1.fed.length ≥ r1.size then r1.checkData H else r1
  | .disconnect =>
    if r.state = .finished then r else r.checkData H

def srun (H : List UInt8 → List UInt8) (r : Recv) : List SOp → Recv
  | [] => r
  | op :: ops => srun H (sstep H r op) ops

/-! ### SOCKS5 sending job (QXmppTransferOutgoingJob with the bytestreams method): which outcome

`byteStreamResultReceived`: a `<streamhost-used/>` naming our own JID is believed only if somebody really connected to
our SOCKS server (`d->socksSocket`), one naming the proxy makes us connect there and ask for activation, anything else
falls into the same "they did not connect" branch.  While streaming, `_q_disconnected` gives `ProtocolError` unless
every byte of the announced size has been handed to the socket. -/

inductive SHost
  | ownConnected | ownNotConnected | unknown | proxyActivated | proxyRefused
  deriving DecidableEq, Repr

/-- `written` = bytes handed to the socket when the connection ended; `size ≠ 0` announced -/
def ssendOutcome (host : SHost) (size written : Nat) : JError :=
  match host with
  | .ownNotConnected | .unknown | .proxyRefused => .protocol
  | .ownConnected | .proxyActivated => if written = size then .none else .protocol

end Qx.C19
