/-
C18 — model of XEP-0450 Automatic Trust Management as implemented by
  src/client/QXmppAtmManager.cpp          (handleMessage, makeTrustDecisions ×2, authenticate, distrust,
                                           distrustAutomaticallyTrustedKeys, makePostponedTrustDecisions)
  src/client/QXmppTrustMemoryStorage.cpp  (setTrustLevel ×2, trustLevel, securityPolicy)
  src/client/QXmppAtmTrustMemoryStorage.cpp (add/remove/keysForPostponedTrustDecisions)
with the storage operations inlined.  All QXmppTask continuations run synchronously with the memory
storage, so every function is a plain state transformer.

Accounts (bare JIDs), resources, key ids and encryption namespaces are natural numbers.
Everything the C++ keeps per encryption namespace lives in one `Store`; the global state is a
family of independent stores indexed by the encryption.

The recursion authenticate → makePostponedTrustDecisions → makeTrustDecisions → authenticate is
written with an explicit fuel argument that starts at `postponed.length + 1`.  That the fuel never
runs out (every nested round removes at least one held-back entry *before* applying it) is proved
in `Qx/Proofs/C18.lean` (`authF_fuel_irrelevant`, `authenticate_never_exhausts`); the exhausted
branch additionally emits `Ev.fuelExhausted`, which the driver would print.
State transformers return the new `Store`; the events of a call (`Ev`) are returned next to it.
No proofs here.
-/
namespace Qx.C18

/-- `QXmpp::TrustLevel` -/
inductive Level
  | undecided | autoDistrusted | manDistrusted | autoTrusted | manTrusted | authenticated
  deriving DecidableEq, Repr, Inhabited

/-- `QXmpp::TrustSecurityPolicy` -/
inductive Policy | none | toakafa
  deriving DecidableEq, Repr

/-- `UnprocessedKey` of QXmppAtmTrustMemoryStorage: a held-back decision.  The sender is recorded by
key id only (no account) — exactly as in the code. -/
structure Entry where
  sender : Nat
  owner : Nat
  key : Nat
  trust : Bool
  deriving DecidableEq, Repr

/-- What happened during one step.  `changed` is observable on the implementation (one
`trustLevelsChanged` emission with its modified keys); the others are ghost events recording which
internal function was entered with which arguments. -/
inductive Ev
  | changed (keys : List (Nat × Nat))
  | auth (keys : List (Nat × Nat))      -- QXmppAtmManager::authenticate entered with a non-empty key set
  | dis (keys : List (Nat × Nat))       -- QXmppAtmManager::distrust entered with a non-empty key set
  | fired (e : Entry)                   -- makePostponedTrustDecisions fetched this held-back entry and applies it
  | fuelExhausted                       -- never happens (proved)
  deriving DecidableEq, Repr

structure Store where
  /-- `QXmppTrustMemoryStoragePrivate::keys` for this encryption: (owner, key id) ↦ level -/
  trust : List ((Nat × Nat) × Level) := []
  /-- `QXmppAtmTrustMemoryStoragePrivate::keys` for this encryption -/
  postponed : List Entry := []
  policy : Policy := .none
  deriving Repr

/-! ### QXmppTrustMemoryStorage -/

def stored : List ((Nat × Nat) × Level) → Nat × Nat → Option Level
  | [], _ => none
  | (r', l) :: rest, r => if r' = r then some l else stored rest r

/-- `trustLevel()`: first stored match, `Undecided` when absent -/
def lookup : List ((Nat × Nat) × Level) → Nat × Nat → Level
  | [], _ => .undecided
  | (r', l) :: rest, r => if r' = r then l else lookup rest r

def Store.level (s : Store) (o k : Nat) : Level := lookup s.trust (o, k)

/-- one iteration of `setTrustLevel(encryption, keyIds, level)`: update the first match or insert -/
def setOne : List ((Nat × Nat) × Level) → Nat × Nat → Level → List ((Nat × Nat) × Level)
  | [], r, l => [(r, l)]
  | (r', l') :: rest, r, l => if r' = r then (r', l) :: rest else (r', l') :: setOne rest r l

def setMany (t : List ((Nat × Nat) × Level)) : List (Nat × Nat) → Level → List ((Nat × Nat) × Level)
  | [], _ => t
  | r :: rest, l => setMany (setOne t r l) rest l

/-- the `modifiedKeys` result of the same call (inserted, or stored with a different level) -/
def modified (t : List ((Nat × Nat) × Level)) : List (Nat × Nat) → Level → List (Nat × Nat)
  | [], _ => []
  | r :: rest, l =>
    (if stored t r = some l then [] else [r]) ++ modified (setOne t r l) rest l

/-- `setTrustLevel(encryption, keyIds, level)`; the emission it causes is `.changed (modified s.trust keys l)` -/
def Store.setLevels (s : Store) (keys : List (Nat × Nat)) (l : Level) : Store :=
  { s with trust := setMany s.trust keys l }

/-- `setTrustLevel(encryption, keyOwnerJids, AutomaticallyTrusted, AutomaticallyDistrusted)` -/
def autoDistrust (t : List ((Nat × Nat) × Level)) (owners : List Nat) : List ((Nat × Nat) × Level) :=
  t.map fun e => if e.1.1 ∈ owners ∧ e.2 = .autoTrusted then (e.1, .autoDistrusted) else e

def autoDistrustModified (t : List ((Nat × Nat) × Level)) (owners : List Nat) : List (Nat × Nat) :=
  (t.filter fun e => decide (e.1.1 ∈ owners ∧ e.2 = .autoTrusted)).map (·.1)

/-- `QXmppAtmManager::distrustAutomaticallyTrustedKeys`; emission `.changed (autoDistrustModified s.trust owners)` -/
def Store.distrustAuto (s : Store) (owners : List Nat) : Store :=
  { s with trust := autoDistrust s.trust owners }

/-! ### QXmppAtmTrustMemoryStorage -/

/-- one iteration of `addKeysForPostponedTrustDecisions`: same (key, owner, sender key) ⇒ overwrite the
verdict, else insert -/
def addOne : List Entry → Entry → List Entry
  | [], e => [e]
  | x :: rest, e =>
    if x.key = e.key ∧ x.owner = e.owner ∧ x.sender = e.sender then { x with trust := e.trust } :: rest
    else x :: addOne rest e

def Store.addPostponed (s : Store) (es : List Entry) : Store :=
  { s with postponed := es.foldl addOne s.postponed }

/-- `keysForPostponedTrustDecisions(encryption, senderKeyIds)` (non-empty `senderKeyIds`) -/
def Store.fetch (s : Store) (senders : List Nat) : List Entry :=
  s.postponed.filter fun e => decide (e.sender ∈ senders)

/-- `removeKeysForPostponedTrustDecisions(encryption, keyIdsForAuthentication, keyIdsForDistrusting)`:
by verdict and *key id* only — neither the owner nor the sender key is compared -/
def Store.removeDecided (s : Store) (authIds disIds : List Nat) : Store :=
  { s with postponed := s.postponed.filter fun e =>
      !((e.trust && decide (e.key ∈ authIds)) || (!e.trust && decide (e.key ∈ disIds))) }

/-- `removeKeysForPostponedTrustDecisions(encryption, senderKeyIds)` -/
def Store.removeBySender (s : Store) (senders : List Nat) : Store :=
  { s with postponed := s.postponed.filter fun e => !decide (e.sender ∈ senders) }

/-! ### QXmppAtmManager -/

/-- `QXmppAtmManager::removePostponedTrustDecisions(encryption, keyIds.values(), keyIds.uniqueKeys())` (repo commit
845d75c): what is held under the sender key ids just distrusted is removed — all of it if the own account is among
the accounts the keys were distrusted for, else only the entries whose owner is one of those accounts (the code
removes everything held under the id and stores the out-of-scope entries again). -/
def Store.removeBySenderQ (s : Store) (own : Nat) (keys : List (Nat × Nat)) : Store :=
  { s with postponed := s.postponed.filter fun e =>
      !(decide (e.sender ∈ keys.map (·.2)) &&
        (decide (own ∈ keys.map (·.1)) || decide (e.owner ∈ keys.map (·.1)))) }

/-- `QXmppAtmManager::distrust`: state -/
def Store.distrust (s : Store) (own : Nat) (keys : List (Nat × Nat)) : Store :=
  if keys = [] then s else (s.setLevels keys .manDistrusted).removeBySenderQ own keys

/-- `QXmppAtmManager::distrust`: events -/
def Store.distrustEvs (s : Store) (keys : List (Nat × Nat)) : List Ev :=
  if keys = [] then [] else [.dis keys, .changed (modified s.trust keys .manDistrusted)]

def targets (es : List Entry) (verdict : Bool) : List (Nat × Nat) :=
  (es.filter fun e => e.trust == verdict).map fun e => (e.owner, e.key)

/-- first half of `QXmppAtmManager::authenticate` (non-empty key set): set the levels, then the TOAKAFA
side effect on the owners of these keys -/
def Store.beginAuth (s : Store) (keys : List (Nat × Nat)) : Store :=
  let s1 := s.setLevels keys .authenticated
  if s1.policy = .toakafa then s1.distrustAuto (keys.map (·.1)) else s1

def Store.beginAuthEvs (s : Store) (keys : List (Nat × Nat)) : List Ev :=
  let s1 := s.setLevels keys .authenticated
  [.auth keys, .changed (modified s.trust keys .authenticated)] ++
    (if s1.policy = .toakafa then [.changed (autoDistrustModified s1.trust (keys.map (·.1)))] else [])

/-- `makePostponedTrustDecisions(encryption, keyIds.values(), keyIds.uniqueKeys())` up to and including the
scope re-check (repo commit a532e12): fetch what is held under the sender key ids just authenticated; unless
the own account is among the accounts these keys were authenticated for, keep only the entries whose owner
is one of those accounts (`removeUnqualifiedKeys`).  Entries dropped here stay stored. -/
def Store.fetchQ (s : Store) (own : Nat) (keys : List (Nat × Nat)) : List Entry :=
  (s.fetch (keys.map (·.2))).filter fun e =>
    decide (own ∈ keys.map (·.1)) || decide (e.owner ∈ keys.map (·.1))

/-- `makePostponedTrustDecisions` after the fetch: remove what is about to be applied -/
def Store.takeFired (s : Store) (f : List Entry) : Store :=
  s.removeDecided ((targets f true).map (·.2)) ((targets f false).map (·.2))

/-- `QXmppAtmManager::authenticate`, with `makePostponedTrustDecisions` and the inner
`makeTrustDecisions` inlined; `n` is the fuel; result = new state and the events in order. -/
def authF : Nat → Nat → Store → List (Nat × Nat) → Store × List Ev
  | 0, _, s, keys => if keys = [] then (s, []) else (s, [.fuelExhausted])
  | n + 1, own, s, keys =>
    if keys = [] then (s, []) else
    let s2 := s.beginAuth keys
    -- makePostponedTrustDecisions(encryption, keyIds.values(), keyIds.uniqueKeys())
    let f := s2.fetchQ own keys
    -- makeTrustDecisions(encryption, keysBeingAuthenticated, keysBeingDistrusted)
    let r := authF n own (s2.takeFired f) (targets f true)
    (r.1.distrust own (targets f false),
     s.beginAuthEvs keys ++ f.map .fired ++ r.2 ++ r.1.distrustEvs (targets f false))

/-- `own` = own bare JID (`client()->configuration().jidBare()`) -/
def Store.authenticate (s : Store) (own : Nat) (keys : List (Nat × Nat)) : Store × List Ev :=
  authF (s.postponed.length + 1) own s keys

/-- private `makeTrustDecisions(encryption, keyIdsForAuthentication, keyIdsForDistrusting)` -/
def Store.makeTrustDecisions (s : Store) (own : Nat) (auth dis : List (Nat × Nat)) : Store × List Ev :=
  let r := s.authenticate own auth
  (r.1.distrust own dis, r.2 ++ r.1.distrustEvs dis)

/-- `QXmppTrustMessageKeyOwner` -/
structure KeyOwner where
  jid : Nat
  trusted : List Nat
  distrusted : List Nat
  deriving DecidableEq, Repr

/-- a received message.  `atm` = it carries a trust-message element whose usage is the ATM namespace;
`senderKey` = `e2eeMetadata()->senderKey()` (key id 0 stands for the empty id of an unencrypted message). -/
structure Msg where
  fromAcc : Nat
  fromRes : Nat
  senderKey : Nat
  atm : Bool
  owners : List KeyOwner
  deriving DecidableEq, Repr

/-- own bare JID and own resource (`client()->configuration()`) -/
structure Cfg where
  own : Nat
  ownRes : Nat
  deriving DecidableEq, Repr

/-- `isSenderQualifiedForTrustDecisions` -/
def qualified (c : Cfg) (m : Msg) (ko : KeyOwner) : Bool :=
  decide (m.fromAcc = c.own) || decide (m.fromAcc = ko.jid)

def inScope (c : Cfg) (m : Msg) : List KeyOwner := m.owners.filter (qualified c m)

def namedTrusted (kos : List KeyOwner) : List (Nat × Nat) :=
  kos.flatMap fun ko => ko.trusted.map fun k => (ko.jid, k)

def namedDistrusted (kos : List KeyOwner) : List (Nat × Nat) :=
  kos.flatMap fun ko => ko.distrusted.map fun k => (ko.jid, k)

/-- entries written by `addKeysForPostponedTrustDecisions(encryption, senderKey, keyOwners)`, in order -/
def holdEntries (senderKey : Nat) (kos : List KeyOwner) : List Entry :=
  kos.flatMap fun ko =>
    ko.trusted.map (fun k => ⟨senderKey, ko.jid, k, true⟩) ++
    ko.distrusted.map (fun k => ⟨senderKey, ko.jid, k, false⟩)

/-- the message is processed at all: trust-message element for ATM, and not sent by this very
endpoint (`message.from() != client()->configuration().jid()`, a full-JID comparison) -/
def processed (c : Cfg) (m : Msg) : Bool :=
  m.atm && !(decide (m.fromAcc = c.own) && decide (m.fromRes = c.ownRes))

/-- `QXmppAtmManager::handleMessage` -/
def Store.handleMessage (c : Cfg) (s : Store) (m : Msg) : Store × List Ev :=
  if processed c m then
    if s.level m.fromAcc m.senderKey = .authenticated then
      s.makeTrustDecisions c.own (namedTrusted (inScope c m)) (namedDistrusted (inScope c m))
    else
      -- nothing to decide now: makeTrustDecisions({}, {}) is a no-op
      (s.addPostponed (holdEntries m.senderKey (inScope c m)), [])
  else (s, [])

/-- public `makeTrustDecisions(encryption, keyOwnerJid, keyIdsForAuthentication, keyIdsForDistrusting)`;
the trust messages it sends are not modelled -/
def Store.manual (s : Store) (own : Nat) (o : Nat) (a d : List Nat) : Store × List Ev :=
  let ma := a.filter fun k => decide (s.level o k ≠ .authenticated)
  let md := d.filter fun k => decide (s.level o k ≠ .manDistrusted)
  if ma = [] ∧ md = [] then (s, [])
  else s.makeTrustDecisions own (ma.map fun k => (o, k)) (md.map fun k => (o, k))

inductive Op
  | setPolicy (p : Policy)                 -- QXmppTrustManager::setSecurityPolicy
  | seed (o k : Nat) (l : Level)           -- QXmppTrustManager::setTrustLevel(enc, {o ↦ k}, l): key store / manual UI
  | manual (o : Nat) (auth dis : List Nat) -- QXmppAtmManager::makeTrustDecisions (public)
  | message (m : Msg)                      -- QXmppAtmManager::handleMessage
  deriving DecidableEq, Repr

/-- one step on one encryption's store: new store and the events in order -/
def stepStore (c : Cfg) (s : Store) : Op → Store × List Ev
  | .setPolicy p => ({ s with policy := p }, [])
  | .seed o k l => (s.setLevels [(o, k)] l, [.changed (modified s.trust [(o, k)] l)])
  | .manual o a d => s.manual c.own o a d
  | .message m => s.handleMessage c m

def runStore (c : Cfg) (s : Store) : List Op → Store × List (List Ev)
  | [] => (s, [])
  | op :: ops =>
    let r := stepStore c s op
    let r' := runStore c r.1 ops
    (r'.1, r.2 :: r'.2)

/-! ### all encryptions -/

structure St where
  cfg : Cfg
  stores : Nat → Store

structure EOp where
  enc : Nat
  op : Op
  deriving DecidableEq, Repr

def init (own ownRes : Nat) : St := { cfg := ⟨own, ownRes⟩, stores := fun _ => {} }

def step (s : St) (e : EOp) : St × List Ev :=
  let r := stepStore s.cfg (s.stores e.enc) e.op
  ({ s with stores := fun i => if i = e.enc then r.1 else s.stores i }, r.2)

def run (s : St) : List EOp → St × List (List Ev)
  | [] => (s, [])
  | e :: es =>
    let r := step s e
    let r' := run r.1 es
    (r'.1, r.2 :: r'.2)

end Qx.C18
