/-
C09 — model of `QXmpp::Private::StreamAckManager` (src/base/QXmppStreamManagement.cpp) together
with the calls the `C2sStreamManager` glue makes into it (src/client/QXmppOutgoingClient.cpp:
`onEnabled` → `enableStreamManagement(true)`, `onResumed` → `resumeStreamManagement(h)`,
`onResumeFailed` → `setHandledByFailedSession(h)`, `requestResume` → `<resume h=lastIncoming/>`,
`closeSession` → `onSessionClosed`).

State = the manager's five fields plus a packet-id allocator (every `send` creates a new packet;
ids stand for "the promise of that packet").  `unacked` is the `QMap<unsigned, QXmppPacket>` as
the list of its entries in key order (sequence number, packet id).  Counters are unbounded `Nat`;
the C++ uses `unsigned int`, the 2³² wrap is outside the model (declared in props/C09.py).

Every operation that writes to the socket carries `up : Bool`: whether `XmppSocket::sendData`
succeeds during that call (socket in ConnectedState and the write is complete).  A failed write
puts nothing on the wire.  No proofs here.
-/
namespace Qx.C09

/-- top-level element received from the server (`StreamAckManager::handleStanza` looks at the tag
name only); `<a/>` and `<r/>` are separate operations -/
inductive RecvKind | message | presence | iq | nonza
  deriving DecidableEq, Repr

def RecvKind.isStanza : RecvKind → Bool
  | .nonza => false
  | _ => true

inductive Op
  /-- `send(QXmppPacket)`; `stanza` = `QXmppPacket::isXmppStanza()` -/
  | send (stanza : Bool) (up : Bool)
  /-- `<a h=…/>` received → `handleAcknowledgement`.  `re` = ids of the packets whose delivery-report
  continuation *sends one new stanza at once* (from inside `reportFinished`), `up` = those writes
  succeed; `re = []` is a client without such continuations.  Packets sent from inside a report have
  no sending continuation themselves unless they are listed in `re` too. -/
  | ack (h : Nat) (re : List Nat) (up : Bool)
  /-- `<r/>` received → `sendAcknowledgement` -/
  | ackReq (up : Bool)
  /-- any other element received → the counting part of `handleStanza` -/
  | recv (k : RecvKind)
  /-- `QXmppOutgoingClient::closeSession` → `onSessionClosed` -/
  | sessionClosed
  /-- `<enabled/>` received (own element, or inside Bind2 `<bound/>`) → `enableStreamManagement(true)` -/
  | enabledNew (re : List Nat) (up : Bool)
  /-- `C2sStreamManager::requestResume` / `onSasl2Authenticate`: writes `<resume h=lastIncoming previd=…/>` -/
  | resumeReq (up : Bool)
  /-- `<resumed h=…/>` received (own element, or inside SASL2 `<success/>`) → `resumeStreamManagement(h)` -/
  | resumed (h : Nat) (re : List Nat) (up : Bool)
  /-- `<failed [h=…]/>` received in answer to `<resume/>` → `onResumeFailed` →
  `setHandledByFailedSession(h)` if the server sent its handled count (XEP-0198 section 5) -/
  | resumeFailed (h : Option Nat)
  /-- `resetCache()` (destructor, `connectToServer` with another account) -/
  | resetCache (re : List Nat) (up : Bool)
  deriving DecidableEq, Repr

/-- what a packet's task is finished with -/
inductive Report
  | sent          -- SendSuccess { acknowledged = false }
  | acked         -- SendSuccess { acknowledged = true }
  | writeError    -- QXmppError SendError::SocketWriteError
  | disconnected  -- QXmppError SendError::Disconnected
  deriving DecidableEq, Repr

/-- what reaches the socket (only SM-relevant elements) -/
inductive Wire
  | pkt (id : Nat)      -- the serialized packet `id`
  | r                   -- <r/>
  | a (h : Nat)         -- <a h=…/>
  | resume (h : Nat)    -- <resume h=… previd=…/>
  deriving DecidableEq, Repr

inductive Out
  | wire (w : Wire)
  | report (id : Nat) (r : Report)
  /-- first component of `internalSend`'s result (what `sendPacketCompat` returns) -/
  | written (b : Bool)
  deriving DecidableEq, Repr

structure St where
  enabled : Bool := false
  /-- (sequence number, packet id) in key order -/
  unacked : List (Nat × Nat) := []
  lastOut : Nat := 0
  lastIn : Nat := 0
  nextId : Nat := 0
  /-- `m_handledByFailedSession`: handled count of a `<failed h/>`, not yet consumed -/
  handled : Option Nat := none
  deriving DecidableEq, Repr

def init : St := {}

/-- `socket.sendData(x)`: on the wire only when the write succeeds -/
def emit (up : Bool) (w : Wire) : List Out := if up then [.wire w] else []

/-- `sendAcknowledgementRequest()` -/
def reqOut (enabled up : Bool) : List Out := if enabled then emit up .r else []

/-- the entries `takeAcknowledged h` removes: it walks from the smallest key and stops at the first
key `> h` -/
def ackedPart (h : Nat) (l : List (Nat × Nat)) : List (Nat × Nat) := l.takeWhile fun e => e.1 ≤ h

/-- … and the entries it leaves -/
def keptPart (h : Nat) (l : List (Nat × Nat)) : List (Nat × Nat) := l.dropWhile fun e => e.1 ≤ h

/-- `m_unacknowledgedStanzas.insert(++m_lastOutgoingSequenceNumber, packet)` for each old entry in
key order, starting from `k` -/
def renumber (k : Nat) : List (Nat × Nat) → List (Nat × Nat)
  | [] => []
  | e :: t => (k + 1, e.2) :: renumber (k + 1) t

/-- `socket.sendData(packet.data())` for each entry in key order -/
def resendOut (up : Bool) (l : List (Nat × Nat)) : List Out := l.flatMap fun e => emit up (.pkt e.2)

def ackReports (l : List (Nat × Nat)) : List Out := l.map fun e => .report e.2 .acked

/-- `internalSend`: write first, then either store (+ `<r/>`) or report immediately -/
def sendStep (s : St) (stanza up : Bool) : St × List Out :=
  let id := s.nextId
  if s.enabled && stanza then
    ({ s with nextId := id + 1, lastOut := s.lastOut + 1,
              unacked := s.unacked ++ [(s.lastOut + 1, id)] },
     emit up (.pkt id) ++ emit up .r ++ [.written up])
  else
    ({ s with nextId := id + 1 },
     emit up (.pkt id) ++ [.report id (if up then .sent else .writeError), .written up])

/-- `packet.reportFinished(rk)` for the packets of `l`, in order — they have already been taken out of
the map.  Each report runs the packet's continuation, which (if the packet is in `re`) calls `send`
for a new stanza right there, in whatever state the manager is at that moment. -/
def fire (rk : Report) (re : List Nat) (up : Bool) : St → List (Nat × Nat) → St × List Out
  | s, [] => (s, [])
  | s, e :: t =>
    let r1 := if re.contains e.2 then sendStep s true up else (s, [])
    let r2 := fire rk re up r1.1 t
    (r2.1, .report e.2 rk :: (r1.2 ++ r2.2))

/-- `takeAcknowledged(*m_handledByFailedSession)` + reset of the stored count, if one is stored -/
def takeHandled (s : St) : St × List (Nat × Nat) :=
  match s.handled with
  | some hf => ({ s with unacked := keptPart hf s.unacked, handled := none }, ackedPart hf s.unacked)
  | none => (s, [])

/-- the middle part of `enableStreamManagement(reset)`: switch on, renumber on a fresh session,
write the stored packets again in key order followed by `<r/>` -/
def enableCore (s : St) (reset up : Bool) : St × List Out :=
  (if reset then { s with enabled := true, lastOut := s.unacked.length, lastIn := 0,
                          unacked := renumber 0 s.unacked }
   else { s with enabled := true },
   if s.unacked.isEmpty then [] else resendOut up s.unacked ++ reqOut true up)

/-- the loop of `resetCache` + `clear()`: every entry is reported "disconnected"; the loop runs over
the map itself, so it also reaches what a continuation appends meanwhile (with stream management on) -/
def discAll (re : List Nat) (up : Bool) (s : St) : St × List Out :=
  let f := fire .disconnected re up { s with unacked := [] } s.unacked
  ({ f.1 with unacked := [] }, f.2 ++ f.1.unacked.map fun e => .report e.2 .disconnected)

def step (s : St) : Op → St × List Out
  | .send stanza up => sendStep s stanza up
  | .ack h re up =>
    -- setAcknowledgedSequenceNumber: take the covered packets out first, report afterwards
    if s.enabled then
      fire .acked re up { s with unacked := keptPart h s.unacked } (ackedPart h s.unacked)
    else (s, [])
  | .ackReq up =>
    (s, if s.enabled then emit up (.a s.lastIn) else [])
  | .recv k =>
    -- counted only while stream management is enabled (repo commit 6d4ec74)
    (if s.enabled && k.isStanza then { s with lastIn := s.lastIn + 1 } else s, [])
  | .sessionClosed => ({ s with enabled := false }, [])
  | .enabledNew re up =>
    -- enableStreamManagement(true): what a <failed h/> declared handled is taken out, the rest is
    -- renumbered and written again, then the handled ones are reported
    let t := takeHandled s
    let e := enableCore t.1 true up
    let f := fire .acked re up e.1 t.2
    (f.1, e.2 ++ f.2)
  | .resumeReq up => (s, emit up (.resume s.lastIn))
  | .resumed h re up =>
    -- resumeStreamManagement(h): take the covered packets out, enableStreamManagement(false) (switch
    -- on, write the rest again), and only then report (repo commit 8fe1a13)
    let t := takeHandled { s with unacked := keptPart h s.unacked }
    let e := enableCore t.1 false up
    let f1 := fire .acked re up e.1 t.2
    let f2 := fire .acked re up f1.1 (ackedPart h s.unacked)
    (f2.1, e.2 ++ f1.2 ++ f2.2)
  | .resumeFailed h =>
    -- onResumeFailed → setHandledByFailedSession (repo commit 29f1a4c)
    (match h with
     | some n => { s with handled := some n }
     | none => s, [])
  | .resetCache re up =>
    -- first what the server is known to have handled (setAcknowledgedSequenceNumber), then the rest
    let t := takeHandled s
    let f := fire .acked re up t.1 t.2
    let d := discAll re up f.1
    (d.1, f.2 ++ d.2)

def run (s : St) : List Op → St × List Out
  | [] => (s, [])
  | op :: ops =>
    let r1 := step s op
    let r2 := run r1.1 ops
    (r2.1, r1.2 ++ r2.2)

/-! ### projections of an output log -/

def wireOf (o : List Out) : List Wire := o.filterMap fun | .wire w => some w | _ => none
/-- packet ids put on the wire, in order -/
def pktsOf (o : List Out) : List Nat := o.filterMap fun | .wire (.pkt i) => some i | _ => none
/-- packet ids that received a report (of any kind), in order -/
def reportedIds (o : List Out) : List Nat := o.filterMap fun | .report i _ => some i | _ => none
def ids (l : List (Nat × Nat)) : List Nat := l.map Prod.snd
def keys (l : List (Nat × Nat)) : List Nat := l.map Prod.fst

/-- specification of the retransmission block for a list `l` of stored entries: nothing if `l` is
empty, otherwise the packets of `l` in list order followed by one `<r/>` -/
def resendBlock (l : List (Nat × Nat)) : List Wire :=
  if l.isEmpty then [] else (l.map fun e => Wire.pkt e.2) ++ [Wire.r]

/-- a stanza the client sends by itself — the reply to an IQ request (`QXmppOutgoingClient::handleStanza`'s
feature-not-implemented answer, a manager's result), the initial presence of a new session — goes through
`StreamAckManager::send` like an application stanza: it *is* `send true up`. -/
abbrev Op.autoReply (up : Bool) : Op := .send true up

/-- the handled count carried by the operation, for the operations that acknowledge themselves -/
def Op.ackH : Op → Option Nat
  | .ack h _ _ => some h
  | .resumed h _ _ => some h
  | _ => none

/-- `<a/>` (as opposed to `<resumed/>`): only honoured while stream management is on -/
def Op.isA : Op → Bool
  | .ack _ _ _ => true
  | _ => false

/-- the stored entries not covered by the (optional) handled count `h` -/
def beyond (h : Option Nat) (l : List (Nat × Nat)) : List (Nat × Nat) :=
  match h with
  | some n => l.filter fun e => decide (n < e.1)
  | none => l

/-! ### specification-side counting (independent of `step`) -/

/-- "received on that session": (stream management currently on?, number of message/presence/iq
elements received while it was on since the last `<enabled/>`).  A session starts with `<enabled/>`,
is suspended by `sessionClosed`, continues with `<resumed/>`; elements received while stream
management is off (connection down, or an intermediate session without it) do not belong to it. -/
def sessionCountStep (c : Bool × Nat) : Op → Bool × Nat
  | .enabledNew _ _ => (true, 0)
  | .resumed _ _ _ => (true, c.2)
  | .sessionClosed => (false, c.2)
  | .recv k => if c.1 && k.isStanza then (c.1, c.2 + 1) else c
  | _ => c

def sessionCount (ops : List Op) : Bool × Nat := ops.foldl sessionCountStep (false, 0)

/-- stanzas received on the current stream-management session after history `ops` -/
def stanzasOnSession (ops : List Op) : Nat := (sessionCount ops).2

end Qx.C09
