/-
C08 — model of the incoming-IQ dispatch pipeline of a qxmpp client.

  QXmppOutgoingClient::handleElement          (src/client/QXmppOutgoingClient.cpp:689-720)
    1. StreamAckManager::handleStanza         never consumes an <iq/> (only <a/>, <r/>); counts it
    2. OutgoingIqManager::handleStanza        consumes result/error whose id is in the request table and
                                              whose `from` is empty or the recorded addressee
    3. elementReceived → QXmppClient::_q_elementReceived → StanzaPipeline::process
                                              (src/client/QXmppClient.cpp:160-176): extensions in registration
                                              order, new-style handleStanza(el, e2ee) then old-style
                                              handleStanza(el) when unencrypted; first `true` wins
    4. QXmppOutgoingClient::handleStanza      (805-830) error reply for get/set, iqReceived for result/error,
                                              `false` (→ Rejected → stream error + disconnect) for any other type
  QXmppClient::injectIq                       (src/client/QXmppClient.cpp): the entry used for IQs that arrived
                                              end-to-end encrypted (an e2ee extension claims the encrypted stanza in
                                              step 3, decrypts it and calls injectIq): step 3 again with new-style
                                              handlers only, then an error reply for get/set sent with
                                              QXmppClient::reply(iq, e2eeMetadata) — i.e. encrypted —, nothing otherwise.
  QXmppOutgoingClient::handlePacketReceived   while a negotiation manager is the listener (STARTTLS, SASL, SASL2, bind,
                                              stream-management enable/resume) or TLS is required and not yet active,
                                              an <iq/> never reaches steps 1-4: "Unexpected element received", stream closed.

An incoming IQ is abstracted to `Stanza`: type class × sender class × id class × the list of its child
elements, each reduced to (tag, namespace, one flag) over finite alphabets (`other` = anything else).
The list of children is NOT bounded.  Each bundled manager's `handleStanza` is transcribed below as a
function `Stanza → Beh` (= did it return true, which replies did it send).  No proofs here.
-/
namespace Qx.C08

/-- value of the `type` attribute as the code compares it (`absent` = no attribute / empty,
`garbage` = any other string) -/
inductive IqType | get | set | result | error | absent | garbage
  deriving DecidableEq, Repr

/-- sender class. Own account is `me@example.org/home` in the harness.
`none` = no `from` (server speaking for the account), `domain` = `example.org`, `ownBare` = `me@example.org`,
`ownFull` = the client's own full JID, `ownOther` = another resource of the own account,
`other` = exactly the full JID of the foreign entity the client has state with (addressee of the outstanding
request `IdC.table`, peer of the incoming transfer job, JID the joined MUC room is registered under);
`stranger` = any other foreign JID (including look-alikes of the own JID). -/
inductive From | none | domain | ownBare | ownFull | ownOther | other | stranger
  deriving DecidableEq, Repr

/-- id class: `absent`; `fresh` = an id nobody waits for; `table` = the id of a request currently in the
OutgoingIqManager table (sent to `From.other`); `reg` = an id the registration manager recorded
(`registrationIqId` / `changePasswordIqId` / `deleteAccountIqId`); `bm` = the id of the bookmark manager's
outstanding `setBookmarks` request (`pendingId`); `muc` = an id in the joined room's `permissionsQueue`
(`QXmppMucRoom::requestPermissions`). -/
inductive IdC | absent | fresh | table | reg | bm | muc
  deriving DecidableEq, Repr

inductive Tag
  | vCard | query | time | chat | list | pref | fin | block | unblock | request | slot
  | openT | close | data | si | error | other
  -- payloads of the application-style extension in the harness (namespace `Ns.app`), one per kind of object its handler
  -- hands to the public helper `QXmpp::handleIqRequests<>()`: a fresh IQ (default type get), the received IQ itself,
  -- an IQ typed result, an IQ typed error, a `QXmppStanza::Error`
  | appFresh | appEcho | appResult | appErrorIq | appError
  deriving DecidableEq, Repr

inductive Ns
  | vcard | roster | discoInfo | discoItems | version | time | archive | priv | rpc | mam | blocking
  | upload | register | ibb | bytestreams | si | mucAdmin | mucOwner | app | other
  deriving DecidableEq, Repr

/-- One child element of the `<iq/>`.  `flag` / `flag2` are the payload details some handler branches on:
* `chat@archive`  : flag = the `with` attribute is non-empty       (QXmppArchiveChatIq::isArchiveChatIq)
* `query@private` : flag = first grandchild is `storage@storage:bookmarks` (QXmppPrivateStorageIq::isPrivateStorageIq)
* `query@disco#*` : flag = `node` is non-empty and does not start with the client's capabilities node
* `query@rpc`     : flag = `methodCall/methodName` splits into exactly two parts at '.'
* `query@muc#owner`: flag = contains a non-null data form (`<x xmlns='jabber:x:data' type=…/>`)
* `open|data|close@ibb`: flag = `sid` is the sid of the incoming transfer job; flag2 = `block-size` ≤ 4096 (open) /
                    `seq` is the next expected sequence number (data)
* `si@si`         : flag = profile is SI file transfer; flag2 = offers a stream method the manager supports
false everywhere else. -/
structure Kid where
  tag : Tag
  ns : Ns
  flag : Bool := false
  flag2 : Bool := false
  deriving DecidableEq, Repr

/-- how the stanza reached the client: `stream` = handlePacketReceived; `inject` = QXmppClient::injectIq called
directly with e2ee metadata; `e2ee` = arrived on the stream encrypted, claimed and decrypted by the installed
e2ee extension (first in the extension list), which calls injectIq -/
inductive Entry | stream | inject | e2ee
  deriving DecidableEq, Repr

/-- `session` = the client itself is the stream's listener (session established); `negotiating` = a negotiation
manager is (STARTTLS / SASL / SASL2 / resource binding / stream management request) or TLS is required and not active -/
inductive Phase | session | negotiating
  deriving DecidableEq, Repr

structure Stanza where
  type : IqType
  frm : From
  id : IdC
  kids : List Kid
  entry : Entry := .stream
  phase : Phase := .session
  deriving DecidableEq, Repr

/-- the handlers see a decrypted IQ (e2ee metadata present): old-style handlers are skipped -/
def Stanza.dec (s : Stanza) : Bool := s.entry != .stream

/-- `type` attribute of the `<error/>` element -/
inductive EType | cancel | modify | auth | wait
  deriving DecidableEq, Repr

/-- defined condition (urn:ietf:params:xml:ns:xmpp-stanzas) -/
inductive ECond
  | featureNotImplemented | serviceUnavailable | badRequest | itemNotFound | forbidden | unexpectedRequest
  | notAcceptable | resourceConstraint
  deriving DecidableEq, Repr

inductive RKind | result | error (t : EType) (c : ECond)
  deriving DecidableEq, Repr

/-- `to` of a sent reply relative to the request: `sender` = equals the request's `from`
(both may be empty), `none` = no `to` although the request had a `from` -/
inductive ToC | sender | none
  deriving DecidableEq, Repr

/-- one IQ of type result/error sent while handling the stanza -/
structure Rep where
  kind : RKind
  to : ToC
  /-- carries the request's id (absent when the request had none) -/
  idSame : Bool := true
  /-- sent through `QXmppClient::reply(iq, e2eeMetadata)` with metadata present, i.e. encrypted by the e2ee extension -/
  e2ee : Bool := false
  deriving DecidableEq, Repr

/-- what one `handleStanza` call did -/
structure Beh where
  handled : Bool
  sent : List Rep
  /-- stanzas sent that are not IQ replies (new requests, …) -/
  other : Nat := 0
  deriving DecidableEq, Repr

def Beh.pass : Beh := { handled := false, sent := [] }
def Beh.swallow : Beh := { handled := true, sent := [] }
/-- reply addressed with `setTo(request.from)` -/
def Beh.reply (k : RKind) : Beh := { handled := true, sent := [⟨k, .sender, true, false⟩] }
def Beh.err (t : EType) (c : ECond) : Beh := .reply (.error t c)
def isReq : IqType → Bool
  | .get | .set => true
  | _ => false

def isResp : IqType → Bool
  | .result | .error => true
  | _ => false

/-- `QXmppIq::parse`: an unknown type string becomes `Get` -/
def parsedType : IqType → IqType
  | .absent | .garbage => .get
  | t => t

/-- `isIqType(el, tag, ns)` / `checkIqType` after `checkIsIqRequest`: looks at the FIRST child element only -/
def headIs (s : Stanza) (t : Tag) (n : Ns) : Bool :=
  match s.kids.head? with
  | some k => k.tag == t && k.ns == n
  | none => false

def headFlag (s : Stanza) : Bool :=
  match s.kids.head? with
  | some k => k.flag
  | none => false

def headFlag2 (s : Stanza) : Bool :=
  match s.kids.head? with
  | some k => k.flag2
  | none => false

/-- `QDomElement::firstChildElement(name)`: first child with that tag, whatever its namespace -/
def named (s : Stanza) (t : Tag) : Option Kid := s.kids.find? (fun k => k.tag == t)

/-- `…firstChildElement(name).namespaceURI() == ns` (a null element has an empty namespace) -/
def namedHasNs (s : Stanza) (t : Tag) (n : Ns) : Bool :=
  match named s t with
  | some k => k.ns == n
  | none => false

/-- the flags of the first child with that tag (false when there is none) -/
def namedFlag (s : Stanza) (t : Tag) : Bool :=
  match named s t with
  | some k => k.flag
  | none => false
def namedFlag2 (s : Stanza) (t : Tag) : Bool :=
  match named s t with
  | some k => k.flag2
  | none => false

/-- `QXmpp::Private::firstChildElement(el, tag, ns)`: first child with that tag AND namespace -/
def namedNs (s : Stanza) (t : Tag) (n : Ns) : Option Kid :=
  s.kids.find? (fun k => k.tag == t && k.ns == n)

/-- the flag of the first child with that tag and namespace (false when there is none) -/
def namedNsFlag (s : Stanza) (t : Tag) (n : Ns) : Bool :=
  match namedNs s t n with
  | some k => k.flag
  | none => false

/-! ### The bundled managers (src/client/*Manager.cpp, `handleStanza`) -/

/-- QXmppVCardManager.cpp `handleStanza` — responses with a vCard child are consumed (any sender);
`type == "get" || type == "set"` returns false (repo commit 28afc7a) -/
def vcardBeh (s : Stanza) : Beh :=
  if headIs s .vCard .vcard then (if s.type = .get ∨ s.type = .set then .pass else .swallow) else .pass

/-- QXmppRosterManager.cpp `handleStanza` — sender must be empty or have the own bare JID; `type == "get"` returns
false; a `set` (push) is acknowledged with `setTo(from)` (repo commit 318b7cf); everything else is consumed -/
def rosterBeh (s : Stanza) : Beh :=
  if !headIs s .query .roster then .pass
  else if s.frm = .domain ∨ s.frm = .other ∨ s.frm = .stranger then .pass
  else if s.type = .get then .pass
  else if parsedType s.type = .set then .reply .result
  else .swallow

/-- QXmppVersionManager.cpp:118 — handleIqRequests<QXmppVersionIq> then the legacy branch -/
def versionBeh (s : Stanza) : Beh :=
  if isReq s.type && headIs s .query .version then .reply .result
  else if headIs s .query .version then .swallow
  else .pass

/-- QXmppEntityTimeManager.cpp:76 -/
def timeBeh (s : Stanza) : Beh :=
  if isReq s.type && headIs s .time .time then .reply (if s.type = .get then .result else .error .cancel .badRequest)
  else if headIs s .time .time then .swallow
  else .pass

/-- QXmppDiscoveryManager.cpp:315 -/
def discoBeh (s : Stanza) : Beh :=
  let isDisco := headIs s .query .discoInfo || headIs s .query .discoItems
  if isReq s.type && isDisco then .reply (if headFlag s then .error .cancel .itemNotFound else .result)
  else if isDisco then
    match parsedType s.type with
    | .result | .error => .swallow
    | _ => .pass
  else .pass

/-- QXmppArchiveManager.cpp `handleStanza` — get/set return false first (repo commit 29beb7d) -/
def archiveBeh (s : Stanza) : Beh :=
  if s.type = .get ∨ s.type = .set then .pass
  -- isArchiveChatIq: the first chat@archive child, wherever it is, has a non-empty `with`
  else if namedNsFlag s .chat .archive then .swallow
  else if headIs s .list .archive then .swallow
  else if headIs s .pref .archive then .swallow
  else .pass

/-- QXmppBlockingManager.cpp:367 (new-style handler). `sub` = the manager holds a blocklist. -/
def blockingBeh (sub : Bool) (s : Stanza) : Beh :=
  if isReq s.type && (headIs s .block .blocking || headIs s .unblock .blocking) then
    -- checkIqValidity: type, then sender, then subscription
    .reply (if s.type ≠ .set then .error .cancel .featureNotImplemented
            else if ¬ (s.frm = .none ∨ s.frm = .ownBare) then .error .cancel .forbidden
            else if sub = false then .error .wait .unexpectedRequest
            else .result)
  else .pass

/-- QXmppBookmarkManager.cpp `handleStanza` — get/set return false first (repo commit 88fc5c1) -/
def bookmarkBeh (s : Stanza) : Beh :=
  if s.type = .get ∨ s.type = .set then .pass
  else if headIs s .query .priv && headFlag s then .swallow
  else if s.id = .bm then .swallow   -- `!pendingId.isEmpty() && id == pendingId`, any type
  else .pass

/-- QXmppMamManager.cpp `handleStanza` (not a `<message/>`): get/set return false (repo commit daa6e10), then
isMamResultIq -/
def mamBeh (s : Stanza) : Beh :=
  if s.type = .get ∨ s.type = .set then .pass
  else if namedHasNs s .fin .mam then .swallow else .pass

/-- QXmppMucManager.cpp `handleStanza`. `room` = a room is registered under the JID `From.other` and its
`permissionsQueue` holds `IdC.muc`; with no rooms the manager never returns true. -/
def mucBeh (room : Bool) (s : Stanza) : Beh :=
  if namedHasNs s .query .mucAdmin then
    (if room ∧ s.frm = .other ∧ parsedType s.type = .result ∧ s.id = .muc then .swallow else .pass)
  else if namedHasNs s .query .mucOwner then
    (if room ∧ s.frm = .other ∧ parsedType s.type = .result ∧ namedFlag s .query = true then .swallow else .pass)
  else .pass

/-- QXmppRegistrationManager.cpp `handleStanza` (registerOnConnect off; the stream-features branch is not an IQ):
get/set return false first (repo commit e597fe7) -/
def registrationBeh (s : Stanza) : Beh :=
  if s.type = .get ∨ s.type = .set then .pass
  else if s.id = .reg then .swallow
  else if headIs s .query .register then .swallow
  else .pass

/-- QXmppRpcManager.cpp:158 with no invokable interface registered -/
def rpcBeh (s : Stanza) : Beh :=
  let q := namedHasNs s .query .rpc
  -- invokeInterfaceMethod: method name not of the form a.b → bad-request error IQ (repo commit af7bef7);
  -- unknown interface → item-not-found error IQ
  if q && s.type = .set then
    (if namedFlag s .query then .err .cancel .itemNotFound else .err .modify .badRequest)
  else if q && s.type = .result then .swallow
  else if s.type = .error && (named s .error).isSome && q then .swallow
  else .pass

/-- who is connected to `QXmppTransferManager::fileReceived` and what the application decides (in the slot or
later in the same event turn): nobody; `job->accept(device)` with a writable device; `job->accept(device)` with a
device that is not writable (never opened / read-only) — `_q_jobStateChanged` takes its refusal branch;
`job->abort()` -/
inductive Lsn | none | accept | acceptRO | decline
  deriving DecidableEq, Repr

/-- the incoming in-band transfer job from `From.other`: none; `start` = accepted and waiting for `<open/>`
(StartState); `opened` = TransferState, expecting sequence number 0, whatever the receiving device does with the block
(a failed or short write terminates the job inside `writeData`, the block is acknowledged all the same); `finished` =
terminated (here: by a failed write) but still in the manager's list until the application deletes it: `<close/>`
still finds it, `<data/>` and — since repo commit 31a1bb4 — `<open/>` do not -/
inductive Job | none | start | opened | finished
  deriving DecidableEq, Repr

/-- streamInitiationSetReceived: which single reply an SI offer gets -/
def siSetKind (l : Lsn) (s : Stanza) : RKind :=
  if !namedFlag s .si then .error .cancel .badRequest          -- profile is not file transfer
  else match l with
    | .none => .error .cancel .forbidden                       -- nobody listens to fileReceived
    | .accept => if namedFlag2 s .si then .result else .error .cancel .badRequest
    | .acceptRO => if namedFlag2 s .si then .error .cancel .forbidden else .error .cancel .badRequest
    | .decline => if namedFlag2 s .si then .error .cancel .forbidden else .error .cancel .badRequest

/-- ibbCloseIqReceived / ibbDataIqReceived / ibbOpenIqReceived: which single reply an IBB element gets.
`mine` = `getIncomingJobBySid(iq.from(), iq.sid())` finds the job. -/
def ibbCloseKind (j : Job) (s : Stanza) : RKind :=
  if j ≠ .none ∧ s.frm = .other ∧ headFlag s = true then .result else .error .cancel .itemNotFound
def ibbDataKind (j : Job) (s : Stanza) : RKind :=
  if j = .opened ∧ s.frm = .other ∧ headFlag s = true then
    (if headFlag2 s then .result else .error .cancel .unexpectedRequest)
  else .error .cancel .itemNotFound
def ibbOpenKind (j : Job) (s : Stanza) : RKind :=
  -- only a job waiting for the bytestream is opened (repo commit 31a1bb4)
  if j = .start ∧ s.frm = .other ∧ headFlag s = true then
    (if headFlag2 s then .result else .error .modify .resourceConstraint)
  else .error .cancel .itemNotFound

/-- byteStreamIqReceived, "handle IQ from proxy": `job->socksProxy.jid() == iq.from() && job->requestId == iq.id()`
is also true for an incoming job (both strings empty) when the stanza has neither `from` nor `id`; a result with
at least one `<streamhost/>` (flag) then makes the manager send a SOCKS5 offer (a new `set` request, not a reply)
to the job's peer. -/
def proxyMatch (j : Job) (s : Stanza) : Bool :=
  j != .none && s.frm == .none && s.id == .absent && parsedType s.type == .result && headFlag s

/-- QXmppTransferManager.cpp `handleStanza` (+ ibb*IqReceived, byteStreamIqReceived, streamInitiationIqReceived).
Repo commit 1833c1a: a result/error carrying an IBB element and a `get` carrying bytestreams / SI return false.
No outgoing job, no SOCKS5 job. -/
def transferBeh (l : Lsn) (j : Job) (s : Stanza) : Beh :=
  if isResp s.type && (headIs s .close .ibb || headIs s .data .ibb || headIs s .openT .ibb) then .pass
  else if s.type = .get && (headIs s .query .bytestreams || namedHasNs s .si .si) then .pass
  else if headIs s .close .ibb then .reply (ibbCloseKind j s)
  else if headIs s .data .ibb then .reply (ibbDataKind j s)
  else if headIs s .openT .ibb then .reply (ibbOpenKind j s)
  else if headIs s .query .bytestreams then
    (if parsedType s.type = .set then .err .auth .notAcceptable
     else if proxyMatch j s then { handled := true, sent := [], other := 1 } else .swallow)
  else if namedHasNs s .si .si then
    (if parsedType s.type = .set then .reply (siSetKind l s) else .swallow)
  else .pass

/-- QXmppUploadRequestManager.cpp `handleStanza` — get/set return false first (repo commit 7916dee) -/
def uploadRequestBeh (s : Stanza) : Beh :=
  if s.type = .get ∨ s.type = .set then .pass
  else if headIs s .slot .upload then .swallow
  else if headIs s .request .upload then .swallow
  else .pass

/-! #### An application extension that answers through the public helper (QXmppIqHandling.h / .cpp) -/

/-- what the application's handler returned to `handleIqRequests<>()` (directly, inside a `std::variant`, or as the
value of a `QXmppTask`, finished at once or later): an IQ object carrying one of the four types, or a stanza error -/
inductive Returned | iqGet | iqSet | iqResult | iqError | stanzaError
  deriving DecidableEq, Repr

/-- `processHandleIqResult` + `sendIqReply`: a stanza error becomes an IQ of type error; an IQ object of type get or
set (a fresh object is `get`, the handed-back request is `get` or `set`) is retyped `result`; result and error stay -/
def wireType : Returned → IqType
  | .iqGet | .iqSet | .iqResult => .result
  | .iqError | .stanzaError => .error

/-- the helper sends the object with `setTo(request.from)`, `setId(request.id)` through `reply(iq, metadata)`; were its
type anything but result/error it would be a new request, not an answer -/
def helperSend (ret : Returned) (e2ee : Bool) : Beh :=
  match wireType ret with
  | .result => { handled := true, sent := [⟨.result, .sender, true, e2ee⟩] }
  | .error => { handled := true, sent := [⟨.error .modify .badRequest, .sender, true, e2ee⟩] }
  | _ => { handled := true, sent := [], other := 1 }

/-- which object the harness's application handler returns for which payload -/
def returnedFor (s : Stanza) : Option Returned :=
  match s.kids.head? with
  | some k =>
    if k.ns != .app then none else
    match k.tag with
    | .appFresh => some .iqGet
    | .appEcho => some (if s.type = .set then .iqSet else .iqGet)
    | .appResult => some .iqResult
    | .appErrorIq => some .iqError
    | .appError => some .stanzaError
    | _ => none
  | none => none

/-- `handleIqRequests<…>(element, e2eeMetadata, client, handler)` in a new-style `handleStanza` (metadata passed on:
`passMeta`) or `handleIqRequests<…>(element, client, handler)` in an old-style one -/
def appBeh (passMeta : Bool) (s : Stanza) : Beh :=
  if isReq s.type then
    (match returnedFor s with
     | some ret => helperSend ret (passMeta && s.dec)
     | none => .pass)
  else .pass

/-- managers that only look at `<message/>` (carbons, pubsub) or do not override `handleStanza` at all -/
def passBeh (_ : Stanza) : Beh := .pass

/-- identity of a row (= a client extension class) -/
inductive Mgr
  | archive | blocking | blockingSub | bookmark | carbon | carbonV2 | discovery | entityTime | mam
  | muc | mucRoom | pubsub | registration | roster | rpc | uploadRequest | vcard | version
  | transfer | transferAccept | transferAcceptRO | transferDecline | transferJob | transferJobOpen
  | transferJobOpenFail | transferJobOpenShort | transferJobFailed
  -- no handleStanza override (QXmppClientExtension::handleStanza returns false)
  | accountMigration | attention | callInvite | externalService | httpUpload | jmi | messageReceipt
  | mix | moved | userLocation | userTune | atm | fileSharing
  -- not bundled: application-style extensions of the harness built on the public helper (new-style / old-style)
  | app | appOld
  deriving DecidableEq, Repr

structure Row where
  mgr : Mgr
  /-- overrides `handleStanza(el, e2eeMetadata)`; old-style handlers are skipped for decrypted IQs -/
  newStyle : Bool
  beh : Stanza → Beh

def Row.run (r : Row) (s : Stanza) : Beh :=
  if s.dec && !r.newStyle then .pass else r.beh s

def rowOf : Mgr → Row
  | .archive => ⟨.archive, false, archiveBeh⟩
  | .blocking => ⟨.blocking, true, blockingBeh false⟩
  | .blockingSub => ⟨.blockingSub, true, blockingBeh true⟩
  | .bookmark => ⟨.bookmark, false, bookmarkBeh⟩
  | .carbon => ⟨.carbon, false, passBeh⟩
  | .carbonV2 => ⟨.carbonV2, true, passBeh⟩
  | .discovery => ⟨.discovery, false, discoBeh⟩
  | .entityTime => ⟨.entityTime, false, timeBeh⟩
  | .mam => ⟨.mam, false, mamBeh⟩
  | .muc => ⟨.muc, false, mucBeh false⟩
  | .mucRoom => ⟨.mucRoom, false, mucBeh true⟩
  | .pubsub => ⟨.pubsub, false, passBeh⟩
  | .registration => ⟨.registration, false, registrationBeh⟩
  | .roster => ⟨.roster, false, rosterBeh⟩
  | .rpc => ⟨.rpc, false, rpcBeh⟩
  | .transfer => ⟨.transfer, false, transferBeh .none .none⟩
  | .transferAccept => ⟨.transferAccept, false, transferBeh .accept .none⟩
  | .transferDecline => ⟨.transferDecline, false, transferBeh .decline .none⟩
  | .transferJob => ⟨.transferJob, false, transferBeh .accept .start⟩
  | .transferJobOpen => ⟨.transferJobOpen, false, transferBeh .accept .opened⟩
  | .transferAcceptRO => ⟨.transferAcceptRO, false, transferBeh .acceptRO .none⟩
  | .transferJobOpenFail => ⟨.transferJobOpenFail, false, transferBeh .accept .opened⟩    -- device write returns -1
  | .transferJobOpenShort => ⟨.transferJobOpenShort, false, transferBeh .accept .opened⟩   -- device takes part of a block
  | .transferJobFailed => ⟨.transferJobFailed, false, transferBeh .accept .finished⟩       -- finished after a failed write
  | .uploadRequest => ⟨.uploadRequest, false, uploadRequestBeh⟩
  | .vcard => ⟨.vcard, false, vcardBeh⟩
  | .version => ⟨.version, false, versionBeh⟩
  | .app => ⟨.app, true, appBeh true⟩
  | .appOld => ⟨.appOld, false, appBeh false⟩
  | m => ⟨m, false, passBeh⟩

/-- Which claim predicates each transcribed `handleStanza` body calls (`isXyz(` names, `requests<T>` = a type given
to `handleIqRequests<…>`), in order of first appearance.  The translator regenerates the same table from the
source; Props proves the two equal, so a handler that starts looking at a new kind of payload stops the build. -/
def modelledPredicates : List (String × List String) := [
  ("QXmppArchiveManager", ["isArchiveChatIq", "isArchiveListIq", "isArchivePrefIq"]),
  ("QXmppBlockingManager", ["requests<BlockIq>", "requests<UnblockIq>"]),
  ("QXmppBookmarkManager", ["isPrivateStorageIq"]),
  ("QXmppCarbonManager", []),
  ("QXmppCarbonManagerV2", []),
  ("QXmppDiscoveryManager", ["requests<QXmppDiscoveryIq>", "isDiscoveryIq"]),
  ("QXmppEntityTimeManager", ["requests<QXmppEntityTimeIq>", "isEntityTimeIq"]),
  ("QXmppMamManager", ["isMamResultIq"]),
  ("QXmppMucManager", ["isMucAdminIq", "isMucOwnerIq"]),
  ("QXmppPubSubManager", []),
  ("QXmppRegistrationManager", ["isStreamFeatures", "isRegisterIq"]),
  ("QXmppRosterManager", ["isRosterIq"]),
  ("QXmppRpcManager", ["isRpcInvokeIq", "isRpcResponseIq", "isRpcErrorIq"]),
  ("QXmppTransferManager", ["isIbbCloseIq", "isIbbDataIq", "isIbbOpenIq", "isByteStreamIq", "isStreamInitiationIq"]),
  ("QXmppUploadRequestManager", ["isHttpUploadSlotIq", "isHttpUploadRequestIq"]),
  ("QXmppVCardManager", ["isVCard"]),
  ("QXmppVersionManager", ["requests<QXmppVersionIq>", "isVersionIq"])
]

/-- `QXmppClient(BasicExtensions)`, in registration order (QXmppClient.cpp:345-349) -/
def defaultSet : List Row := [.roster, .vcard, .version, .entityTime, .discovery].map rowOf

/-! ### The pipeline -/

inductive Decider
  | table            -- consumed by the outgoing-IQ table (step 2)
  | ext (m : Mgr)    -- an extension returned true
  | fallback         -- step 4 / injectIq's own answer
  | rejected         -- step 4 returned false: "Unexpected element received", stream closed
  | negotiation      -- a negotiation manager was the listener: "Unexpected element received", stream closed
  deriving DecidableEq, Repr

structure Outcome where
  by_ : Decider
  sent : List Rep
  disconnect : Bool := false
  /-- stanzas sent that are not IQ replies -/
  other : Nat := 0
  deriving DecidableEq, Repr

/-- OutgoingIqManager::handleStanza; the outstanding request was sent to `From.other` -/
def tableConsumes (s : Stanza) : Bool :=
  isResp s.type && s.id = .table && (s.frm = .none || s.frm = .other)

structure ChainRes where
  handledBy : Option Mgr
  sent : List Rep
  other : Nat := 0
  deriving DecidableEq, Repr

/-- StanzaPipeline::process -/
def chain : List Row → Stanza → ChainRes
  | [], _ => { handledBy := none, sent := [] }
  | r :: rs, s =>
    let b := r.run s
    if b.handled then { handledBy := some r.mgr, sent := b.sent, other := b.other }
    else
      let c := chain rs s
      { handledBy := c.handledBy, sent := b.sent ++ c.sent, other := b.other + c.other }

/-- feature-not-implemented / cancel, `setTo(from)`, `setId(id)`; sent with `reply(iq, e2eeMetadata)` by injectIq -/
def fallbackReply (e : Entry) : Rep := ⟨.error .cancel .featureNotImplemented, .sender, true, e != .stream⟩

def dispatch (exts : List Row) (s : Stanza) : Outcome :=
  -- everything that arrives on the stream (plain or encrypted) before the session is established
  if s.entry != .inject && s.phase = .negotiating then { by_ := .negotiation, sent := [], disconnect := true }
  -- the (outer) stanza passes the request table before any extension, also before the e2ee extension
  else if s.entry != .inject && tableConsumes s then { by_ := .table, sent := [] }
  else
    let c := chain exts s
    match c.handledBy with
    | some m => { by_ := .ext m, sent := c.sent, other := c.other }
    | none =>
      if isReq s.type then { by_ := .fallback, sent := c.sent ++ [fallbackReply s.entry], other := c.other }
      else if isResp s.type then { by_ := .fallback, sent := c.sent, other := c.other }
      else if s.dec then { by_ := .fallback, sent := c.sent, other := c.other }
      else { by_ := .rejected, sent := c.sent, disconnect := true, other := c.other }

def replies (o : Outcome) : Nat := o.sent.length

/-! ### The property, as predicates (used by Props and by nothing in the driver) -/

/-- a reply with no `to` reaches the requester only when the request came from the account's own server -/
def ToC.okFor (f : From) : ToC → Bool
  | .sender => true
  | .none => f == .none || f == .ownBare || f == .domain

/-- exactly one reply, carrying the request's id and addressed so that it reaches a requester of class `f` -/
def okOne (f : From) : List Rep → Bool
  | [r] => r.idSame && r.to.okFor f
  | _ => false

/-- the statement of C08 for a stanza of type `t` from `f`, given what was sent for it -/
def answeredTF (t : IqType) (f : From) (sent : List Rep) : Bool :=
  if isReq t then okOne f sent
  else if isResp t then sent.isEmpty
  else true

def answeredRight (s : Stanza) (sent : List Rep) : Bool := answeredTF s.type s.frm sent

/-- per-row condition that makes the pipeline satisfy C08 whatever else is installed: a request is either
handled with exactly one proper reply or passed on silently; nothing is ever sent for a response -/
def goodTF (t : IqType) (f : From) (b : Beh) : Bool :=
  if isReq t then
    (if b.handled then okOne f b.sent else b.sent.isEmpty)
  else if isResp t then b.sent.isEmpty
  else true

def Beh.goodFor (s : Stanza) (b : Beh) : Bool := goodTF s.type s.frm b

def Row.good (r : Row) (s : Stanza) : Bool := (r.run s).goodFor s

def allMgrs : List Mgr :=
  [.archive, .blocking, .blockingSub, .bookmark, .carbon, .carbonV2, .discovery, .entityTime, .mam,
   .muc, .mucRoom, .pubsub, .registration, .roster, .rpc, .transfer, .transferAccept, .transferAcceptRO, .transferDecline,
   .transferJob, .transferJobOpen, .transferJobOpenFail, .transferJobOpenShort, .transferJobFailed, .uploadRequest, .vcard, .version,
   .accountMigration, .attention, .callInvite, .externalService, .httpUpload, .jmi, .messageReceipt,
   .mix, .moved, .userLocation, .userTune, .atm, .fileSharing, .app, .appOld]

end Qx.C08
