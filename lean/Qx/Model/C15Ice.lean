import Qx.Generated.IcePrio
/-
C15 — model of ONE `QXmppIceComponent` (src/base/QXmppStun.cpp, class QXmppIceComponent / QXmppIceComponentPrivate /
CandidatePair) bound to a single local host transport, no STUN/TURN server configured.

What is abstracted
* addresses are plain `Nat` identifiers (host+port of a UDP endpoint);
* transaction ids are `Nat`; the component's own ids are drawn from the counter `nextTx` (the C++ draws 96 random bits);
* a received datagram is described by what `QXmppStunMessage::decode` and `handleDatagram` look at: class, method,
  transaction id, the LAYOUT of the attribute list as far as integrity is concerned (`attrs`: where MESSAGE-INTEGRITY
  attributes — each with its status relative to the two session passwords — and FINGERPRINT attributes sit among the other
  attributes, in wire order), USE-CANDIDATE, ICE-CONTROLLING/ICE-CONTROLLED, PRIORITY, USERNAME (never looked at by the C++)
  as decoded from the part in front of the first MESSAGE-INTEGRITY, and for non-STUN traffic the payload;
* the local password is never empty (it is generated in `QXmppIcePrivate`), the remote one is empty until set.

Two separate walks over the attribute list decide whether a peer message is accepted, and both are transcribed here as coded:
`prescan` = `hasMessageIntegrity` in handleDatagram (true at the first MESSAGE-INTEGRITY, FALSE at a FINGERPRINT met first) and
`decodeWalk`/`decodeKeyed` = the attribute loop of `QXmppStunMessage::decode` plus its final "missing MESSAGE-INTEGRITY" test (verifies the first MESSAGE-INTEGRITY it meets, skips everything
but FINGERPRINT after it, and STOPS SUCCESSFULLY at a FINGERPRINT, so anything behind a FINGERPRINT is never looked at).
Peer messages for which the pre-scan finds no MESSAGE-INTEGRITY are dropped before decoding (repo commit f41aa68
"fix: ICE accepts connectivity checks that carry no MESSAGE-INTEGRITY"); before that commit `decode` verified the attribute
only when present and such messages were processed as authenticated.
STUN-server discovery (`setStunServers` before `bind`): the component sends an unauthenticated Binding request per server and keeps
the transactions in `stunTransactions`; a received STUN message whose transaction id is one of them is taken for the server's
answer WHATEVER ITS SOURCE ADDRESS, decoded without key and without the MESSAGE-INTEGRITY pre-scan, and a success response adds a
server-reflexive LOCAL candidate (`stunTx`, `localSrflx`, `reactServer`).  Not modelled: the TURN allocation (its relayed datagrams
enter the same `handleDatagram` with another transport), several local transports, what `close()` does to transactions in flight.
No proofs here.
-/
namespace Qx.C15

/-! ### priorities (constants come from the generated file) -/

inductive CandType | host | peerReflexive | serverReflexive | relayed
  deriving DecidableEq, Repr

def typePref : CandType → Nat
  | .host => Qx.IcePrio.typePrefHost
  | .peerReflexive => Qx.IcePrio.typePrefPeerReflexive
  | .serverReflexive => Qx.IcePrio.typePrefServerReflexive
  | .relayed => Qx.IcePrio.typePrefRelayed

/-- `candidatePriority(candidate, localPref)` -/
def candidatePriority (t : CandType) (localPref : Nat) (component : Nat) : Nat :=
  2 ^ Qx.IcePrio.typeShift * typePref t + 2 ^ Qx.IcePrio.localShift * localPref + (Qx.IcePrio.componentBase - component)

/-- priority of the (only) local host candidate: `QXmppUdpTransport::localCandidate` -/
def localPriority (component : Nat) : Nat := candidatePriority .host Qx.IcePrio.defaultLocalPref component

/-- PRIORITY attribute put into outgoing checks: `peerReflexivePriority` -/
def prflxPriority (component : Nat) : Nat := candidatePriority .peerReflexive Qx.IcePrio.defaultLocalPref component

/-- `CandidatePair::priority()`: `G` = priority of the controlling side's candidate, `D` = controlled side's.
`G`, `D` are `quint32` in the C++ (the translator pins that), so `2 * qMax(G, D)` is a 32-bit product and wraps for
priorities ≥ 2^31 — outside the RFC 5245 range 1 … 2^31-1, but reachable through the PRIORITY attribute. -/
def pairPriorityGD (g d : Nat) : Nat :=
  2 ^ Qx.IcePrio.pairShift * min g d + (Qx.IcePrio.pairMaxFactor * max g d) % 2 ^ 32
    + (if g > d then Qx.IcePrio.pairTieGt else Qx.IcePrio.pairTieLe)

def pairPriority (controlling : Bool) (localPrio remotePrio : Nat) : Nat :=
  if controlling then pairPriorityGD localPrio remotePrio else pairPriorityGD remotePrio localPrio

/-! ### datagrams -/

inductive Cls | request | indication | response | error
  deriving DecidableEq, Repr

inductive Method | binding | other
  deriving DecidableEq, Repr

/-- status of ONE MESSAGE-INTEGRITY attribute of a received STUN message: `validLocal` a correct HMAC (over the bytes in front
of it) under this component's LOCAL password; `validRemote` a correct HMAC under the REMOTE password; `wrongKey` a 20-byte
code that is correct under neither; `truncated` an attribute whose length is not 20. (Local and remote password are assumed
different, and HMAC collisions are not modelled.) -/
inductive MiSt | validLocal | validRemote | wrongKey | truncated
  /-- a correct HMAC under a remote password that has since been REPLACED by `setRemotePassword` (assumed different from the current one) -/
  | validOldRemote
  deriving DecidableEq, Repr

/-- one attribute as the two walks see it -/
inductive Attr
  | mi (st : MiSt)              -- MESSAGE-INTEGRITY
  | fingerprint (good : Bool)   -- FINGERPRINT with a right / wrong CRC
  | other                       -- any other attribute, known or unknown, with a well-formed length
  | useCandidate                -- a USE-CANDIDATE attribute at this position of the trailer
  | priority (n : Nat)          -- a PRIORITY attribute at this position of the trailer
  | overrun                     -- an attribute whose length field runs past the end of the message body
  deriving DecidableEq, Repr

inductive RoleAttr | none | controlling | controlled
  deriving DecidableEq, Repr

structure Stun where
  cls : Cls
  method : Method := .binding
  txid : Nat
  /-- integrity-relevant layout of the attribute list, wire order -/
  attrs : List Attr
  useCandidate : Bool := false
  roleAttr : RoleAttr := .none
  priority : Nat := 0
  username : Nat := 0
  /-- XOR-MAPPED-ADDRESS of a response (an address id), looked at only on the STUN-server path -/
  mapped : Option Nat := none
  deriving DecidableEq, Repr

inductive Kind
  | nonStun (payload : List UInt8)
  | stun (m : Stun)
  deriving DecidableEq, Repr

structure Datagram where
  src : Nat
  kind : Kind
  deriving DecidableEq, Repr

/-! ### STUN / application demultiplexing on the raw bytes -/

/-- `QXmppStunMessage::peekType` + the cookie test in `handleDatagram`: a received datagram is taken for a STUN message iff it
has at least the 20 header bytes, its 16-bit length field (bytes 2..3, big endian) equals size − 20, its 16-bit type (bytes 0..1)
is not 0, AND bytes 4..7 are the magic cookie 0x2112A442.  Everything else is application data. -/
def isStun (b : List UInt8) : Bool :=
  match b with
  | t0 :: t1 :: l0 :: l1 :: c0 :: c1 :: c2 :: c3 :: _ =>
    decide (b.length ≥ 20) && (l0.toNat * 256 + l1.toNat == b.length - 20) && (t0.toNat * 256 + t1.toNat != 0) &&
      (c0 == 0x21 && c1 == 0x12 && c2 == 0xA4 && c3 == 0x42)
  | _ => false

/-- a received datagram as the component sees it: `parse` stands for the STUN decoder's reading of the bytes (a parameter: it is
only consulted for datagrams that ARE STUN messages by `isStun`) -/
def Datagram.ofBytes (parse : List UInt8 → Stun) (src : Nat) (b : List UInt8) : Datagram :=
  if isStun b then { src := src, kind := .stun (parse b) } else { src := src, kind := .nonStun b }

/-- the integrity status that proves knowledge of the session credentials for a message of this class:
requests/indications are verified with the local password, responses/errors with the remote one
(`(messageType & 0xFF00) ? remotePassword : localPassword`). -/
def validFor : Cls → MiSt
  | .request => .validLocal
  | .indication => .validLocal
  | .response => .validRemote
  | .error => .validRemote

/-! ### state -/

inductive PState | frozen | waiting | inProgress | succeeded | failed
  deriving DecidableEq, Repr

structure Pair where
  remote : Nat
  rprio : Nat
  state : PState := .waiting
  nominated : Bool := false
  nominating : Bool := false
  tx : Option Nat := none
  /-- transmissions of the outstanding check so far (`QXmppStunTransaction::m_tries`) -/
  tries : Nat := 0
  deriving DecidableEq, Repr

structure Cand where
  addr : Nat
  prio : Nat
  prflx : Bool
  deriving DecidableEq, Repr

inductive Out
  | accepted                                   -- decode succeeded ("STUN packet from …" is logged)
  | warnBadMi                                  -- "Bad message integrity"
  | warnNoMi                                   -- "Dropping STUN packet with missing MESSAGE-INTEGRITY"
  | warnBadFp                                  -- "Bad fingerprint"
  | warnTruncAttr                              -- "Truncated STUN attribute …" (repo commit df53ac0)
  | warnMissingMi                              -- "Missing MESSAGE-INTEGRITY" from `decode` (repo commit 80bab8b)
  | roleConflict                               -- "Role conflict, expected to be …"
  | bindingResponse (to : Nat) (txid : Nat)    -- Binding success response written to `to`
  | checkSent (to : Nat) (txid : Nat) (useCandidate : Bool)   -- first transmission of a connectivity check
  | pairState (remote : Nat) (st : PState)     -- "ICE pair changed to state …"
  | selected (remote : Nat) (prio : Nat)       -- "ICE pair selected … (priority: …)"
  | connectedSig                               -- signal `connected()`
  | appData (payload : List UInt8)             -- signal `datagramReceived(payload)`
  | appSent (to : Nat) (payload : List UInt8)  -- `sendDatagram` wrote `payload` to `to`
  | appNoRoute                                 -- `sendDatagram` returned -1
  | localCandidate (addr : Nat)                -- "Adding server-reflexive candidate …" + `localCandidatesChanged()`
  | gatheringComplete                          -- gathering state becomes `complete`
  | warnNoReflexive                            -- "STUN server did not provide a reflexive address"
  deriving DecidableEq, Repr

structure St where
  controlling : Bool
  component : Nat := 1
  remoteUserSet : Bool := false
  remotePwSet : Bool := false
  pairs : List Pair := []
  remoteCands : List Cand := []
  /-- `activePair`, identified by the remote address of the pair (pairs are unique per remote address) -/
  active : Option Nat := none
  /-- `fallbackPair` -/
  fallback : Option Nat := none
  timerOn : Bool := false
  connectStarted : Bool := false
  nextTx : Nat := 0
  /-- outstanding STUN-server discovery transactions (`stunTransactions`), ids 500, 501, … -/
  stunTx : List Nat := []
  /-- server-reflexive LOCAL candidates learned so far (address ids) -/
  localSrflx : List Nat := []
  /-- `close()` was called: the sockets are closed, nothing is received any more -/
  closed : Bool := false
  deriving DecidableEq, Repr

def init (controlling : Bool) (component : Nat := 1) (stunServers : Nat := 0) : St :=
  { controlling := controlling, component := component, stunTx := (List.range stunServers).map (· + 500) }

def St.prioOf (s : St) (p : Pair) : Nat := pairPriority s.controlling (localPriority s.component) p.rprio

def findPair (ps : List Pair) (remote : Nat) : Option Pair := ps.find? (fun p => p.remote == remote)

def updatePair (ps : List Pair) (remote : Nat) (f : Pair → Pair) : List Pair :=
  ps.map fun p => if p.remote == remote then f p else p

/-- place `p` behind every element whose priority is ≥ its own (what a stable descending sort does with the element
appended last) -/
def insertDesc (prio : Pair → Nat) (p : Pair) : List Pair → List Pair
  | [] => [p]
  | q :: rest => if prio q ≥ prio p then q :: insertDesc prio p rest else p :: q :: rest

/-- `std::sort(pairs, candidatePairPtrLessThan)` (insertion sort for these sizes: stable) -/
def sortDesc (prio : Pair → Nat) (ps : List Pair) : List Pair :=
  ps.foldl (fun acc p => insertDesc prio p acc) []

def St.addPair (s : St) (p : Pair) : St := { s with pairs := sortDesc s.prioOf (s.pairs ++ [p]) }

/-- `performCheck(pair, nominate)`: new transaction, pair in progress; the request leaves immediately -/
def performCheck (s : St) (remote : Nat) (nominate : Bool) : St × List Out :=
  let t := s.nextTx
  ({ s with pairs := updatePair s.pairs remote fun p => { p with nominating := nominate, state := .inProgress, tx := some t, tries := 1 },
            nextTx := t + 1 },
   [.pairState remote .inProgress, .checkSent remote t s.controlling])

/-- `checkCandidates()` -/
def checkCandidates (s : St) : St × List Out :=
  if !s.remoteUserSet then (s, []) else
  match s.pairs.find? (fun p => p.state == .waiting) with
  | some p => performCheck s p.remote s.controlling
  | none => (s, [])

/-- the "signal completion" block at the end of `handleDatagram` for the pair with this remote address -/
def completion (s : St) (remote : Nat) : St × List Out :=
  match findPair s.pairs remote with
  | none => (s, [])
  | some p =>
    if !p.nominated then (s, []) else
    let s1 := { s with timerOn := false }
    match s.active with
    | none => ({ s1 with active := some remote }, [.selected remote (s.prioOf p), .connectedSig])
    | some a =>
      match findPair s.pairs a with
      | some q =>
        if s.prioOf p > s.prioOf q then ({ s1 with active := some remote }, [.selected remote (s.prioOf p)])
        else (s1, [])
      | none => (s1, [])

/-- a Binding request that passed decoding -/
def handleRequest (s : St) (src : Nat) (m : Stun) : St × List Out :=
  if s.controlling && (m.roleAttr == .controlling || m.useCandidate) then (s, [.roleConflict])
  else if !s.controlling && m.roleAttr == .controlled then (s, [.roleConflict])
  else
    let resp := Out.bindingResponse src m.txid
    -- find or learn the remote candidate
    let known := s.remoteCands.find? (fun c => c.addr == src)
    let rprio := match known with | some c => c.prio | none => m.priority
    let s1 := match known with
      | some _ => s
      | none => { s with remoteCands := s.remoteCands ++ [({ addr := src, prio := m.priority, prflx := true } : Cand)] }
    -- find or construct the pair
    let s2 := match findPair s1.pairs src with
      | some _ => s1
      | none => s1.addPair ({ remote := src, rprio := rprio } : Pair)
    let st := match findPair s2.pairs src with | some p => p.state | none => .waiting
    let nominatingNow := match findPair s2.pairs src with | some p => p.nominating | none => false
    let r3 : St × List Out :=
      match st with
      | .frozen | .waiting | .failed =>
        if s2.remoteUserSet then performCheck s2 src (nominatingNow || s2.controlling || m.useCandidate) else (s2, [])
      | .inProgress =>
        ({ s2 with pairs := updatePair s2.pairs src fun p => { p with nominating := p.nominating || m.useCandidate } }, [])
      | .succeeded =>
        if m.useCandidate then ({ s2 with pairs := updatePair s2.pairs src fun p => { p with nominated := true } }, [])
        else (s2, [])
    let r4 := completion r3.1 src
    (r4.1, resp :: (r3.2 ++ r4.2))

/-- a Binding success/error response that passed decoding -/
def handleResponse (s : St) (src : Nat) (m : Stun) : St × List Out :=
  match s.pairs.find? (fun p => p.tx == some m.txid) with
  | none => (s, [])
  | some p =>
    if src != p.remote then
      -- "Received response from unexpected …": the transaction is failed, no completion block
      ({ s with pairs := updatePair s.pairs p.remote fun q => { q with state := .failed, tx := none } },
       [.pairState p.remote .failed])
    else if m.cls == .response then
      let s1 := { s with pairs := updatePair s.pairs p.remote fun q =>
                    { q with state := .succeeded, nominated := q.nominated || q.nominating, tx := none } }
      let r := completion s1 p.remote
      (r.1, .pairState p.remote .succeeded :: r.2)
    else
      let s1 := { s with pairs := updatePair s.pairs p.remote fun q => { q with state := .failed, tx := none } }
      let r := completion s1 p.remote
      (r.1, .pairState p.remote .failed :: r.2)

/-- outcome of `QXmppStunMessage::decode(buffer, key)` as far as the attribute walk is concerned -/
inductive Dec | ok | badMi | badFp | truncAttr | silent | missingMi
  deriving DecidableEq, Repr

/-- the check made on a MESSAGE-INTEGRITY attribute when `decode` meets it (the key is never empty on the peer path);
`keyRemote` = the key handed to `decode` is the remote password -/
def miCheck (keyRemote : Bool) : MiSt → Dec
  | .validLocal => if keyRemote then .badMi else .ok
  | .validRemote => if keyRemote then .ok else .badMi
  | .wrongKey => .badMi
  | .validOldRemote => .badMi         -- the comparison is made with the CURRENT remote password
  | .truncated => .silent             -- `a_length != 20` ⇒ `return false` without a message

/-- `hasMessageIntegrity(buffer)` in handleDatagram: true at the first MESSAGE-INTEGRITY, false at a FINGERPRINT met first or
at the end of the attribute list -/
def prescan : List Attr → Bool
  | [] => false
  | .mi _ :: _ => true
  | .fingerprint _ :: _ => false
  | .other :: rest => prescan rest
  | .useCandidate :: rest => prescan rest
  | .priority _ :: rest => prescan rest
  | .overrun :: _ => false            -- the offset jumps past the end of the buffer: the loop ends

/-- the attribute loop of `QXmppStunMessage::decode`: `afterIntegrity` = a MESSAGE-INTEGRITY has been verified already -/
def decodeWalk (keyRemote : Bool) : Bool → List Attr → Dec
  | _, [] => .ok
  | _, .overrun :: _ => .truncAttr    -- checked before anything else, also behind MESSAGE-INTEGRITY
  | afterIntegrity, .mi st :: rest =>
    if afterIntegrity then decodeWalk keyRemote true rest       -- "Skipping attribute … after MESSAGE-INTEGRITY"
    else match miCheck keyRemote st with
      | .ok => decodeWalk keyRemote true rest
      | e => e
  | _, .fingerprint good :: _ => if good then .ok else .badFp   -- "stop parsing, no more attributes are allowed"
  | afterIntegrity, .other :: rest => decodeWalk keyRemote afterIntegrity rest
  | afterIntegrity, .useCandidate :: rest => decodeWalk keyRemote afterIntegrity rest
  | afterIntegrity, .priority _ :: rest => decodeWalk keyRemote afterIntegrity rest

/-- `after_integrity` when the attribute loop of `decode` stops (at the end of the attributes or at a good FINGERPRINT): has it
met — and, with a key, verified — a MESSAGE-INTEGRITY?  (Its own bookkeeping, independent of the pre-scan in handleDatagram.) -/
def decodeSawMi : List Attr → Bool
  | [] => false
  | .mi _ :: _ => true
  | .fingerprint _ :: _ => false
  | .overrun :: _ => false
  | .other :: rest => decodeSawMi rest
  | .useCandidate :: rest => decodeSawMi rest
  | .priority _ :: rest => decodeSawMi rest

/-- `QXmppStunMessage::decode(buffer, key)` with a non-empty key: the attribute loop, then (repo commit 80bab8b) "a request or
success response without MESSAGE-INTEGRITY is not accepted" — `needMi` = the class is neither Error nor Indication. -/
def decodeKeyed (keyRemote needMi : Bool) (attrs : List Attr) : Dec :=
  match decodeWalk keyRemote false attrs with
  | .ok => if needMi && !decodeSawMi attrs then .missingMi else .ok
  | e => e

/-- attributes that cannot make `decode` fail when they sit behind a verified MESSAGE-INTEGRITY -/
def Attr.harmless : Attr → Bool
  | .fingerprint false => false
  | .overrun => false
  | _ => true

/-- Which USE-CANDIDATE / PRIORITY attributes of the trailer does a successful `decode` actually parse?  Exactly those in front
of the first MESSAGE-INTEGRITY: behind it "only FINGERPRINT is allowed" and every other attribute is skipped unparsed (it is
not covered by the HMAC); at a FINGERPRINT parsing stops. -/
def parsedUc : List Attr → Bool
  | [] => false
  | .useCandidate :: _ => true
  | .mi _ :: _ => false
  | .fingerprint _ :: _ => false
  | .overrun :: _ => false
  | .other :: rest => parsedUc rest
  | .priority _ :: rest => parsedUc rest

/-- the PRIORITY in force after parsing the trailer (a later attribute overwrites an earlier one) -/
def parsedPrio (cur : Nat) : List Attr → Nat
  | [] => cur
  | .priority n :: rest => parsedPrio n rest
  | .mi _ :: _ => cur
  | .fingerprint _ :: _ => cur
  | .overrun :: _ => cur
  | .other :: rest => parsedPrio cur rest
  | .useCandidate :: rest => parsedPrio cur rest

/-- the message as `decode` hands it to handleDatagram -/
def Stun.decoded (m : Stun) : Stun :=
  { m with useCandidate := m.useCandidate || parsedUc m.attrs, priority := parsedPrio m.priority m.attrs }

/-- `decode(buffer, QByteArray())` — no key: a MESSAGE-INTEGRITY attribute is only checked for its length -/
def decodeNoKey : Bool → List Attr → Dec
  | _, [] => .ok
  | _, .overrun :: _ => .truncAttr
  | afterIntegrity, .mi st :: rest =>
    if afterIntegrity then decodeNoKey true rest
    else if st == .truncated then .silent else decodeNoKey true rest
  | _, .fingerprint good :: _ => if good then .ok else .badFp
  | afterIntegrity, .other :: rest => decodeNoKey afterIntegrity rest
  | afterIntegrity, .useCandidate :: rest => decodeNoKey afterIntegrity rest
  | afterIntegrity, .priority _ :: rest => decodeNoKey afterIntegrity rest

/-- the STUN-server branch of `handleDatagram` + `transactionFinished`: the message carries the id of an outstanding discovery
transaction.  Its source address is NOT compared with the server's. -/
def reactServer (s : St) (m : Stun) : St × List Out :=
  match decodeNoKey false m.attrs with
  | .missingMi => (s, [.warnMissingMi])     -- never: no key
  | .badMi => (s, [.warnBadMi])
  | .badFp => (s, [.warnBadFp])
  | .truncAttr => (s, [.warnTruncAttr])
  | .silent => (s, [])
  | .ok =>
    if m.method != .binding then (s, [.accepted]) else
    let rest := s.stunTx.filter (· != m.txid)
    let done : List Out := if rest.isEmpty then [.gatheringComplete] else []
    match m.cls with
    | .request => (s, [.accepted])          -- `QXmppStunTransaction::readStun` ignores it
    | .indication => (s, [.accepted])
    | .error => ({ s with stunTx := rest }, .accepted :: done)
    | .response =>
      match m.mapped with
      -- (before repo commit d3fbd07 the next two cases returned early WITHOUT forgetting the deleted transaction)
      | none => ({ s with stunTx := rest }, .accepted :: .warnNoReflexive :: done)
      | some a =>
        if s.localSrflx.contains a then ({ s with stunTx := rest }, .accepted :: done)
        else ({ s with stunTx := rest, localSrflx := s.localSrflx ++ [a] }, .accepted :: .localCandidate a :: done)

/-- the peer branch of `handleDatagram` (the message does not belong to a STUN-server transaction) -/
def reactPeer (s : St) (src : Nat) (m : Stun) : St × List Out :=
  let keyRemote := m.cls == .response || m.cls == .error
  if keyRemote && !s.remotePwSet then (s, []) else
  if !prescan m.attrs then (s, [.warnNoMi]) else             -- `!hasMessageIntegrity(buffer)`
  match decodeKeyed keyRemote (m.cls == .request || m.cls == .response) m.attrs with
  | .badMi => (s, [.warnBadMi])
  | .badFp => (s, [.warnBadFp])
  | .truncAttr => (s, [.warnTruncAttr])
  | .silent => (s, [])
  | .missingMi => (s, [.warnMissingMi])      -- unreachable behind the pre-scan (theorem `decode_never_misses_mi_behind_prescan`)
  | .ok =>
    if m.method != .binding then (s, [.accepted]) else
    match m.cls with
    | .request => let r := handleRequest s src m.decoded; (r.1, .accepted :: r.2)
    | .indication => (s, [.accepted])
    | .response => let r := handleResponse s src m; (r.1, .accepted :: r.2)
    | .error => let r := handleResponse s src m; (r.1, .accepted :: r.2)

/-- `QXmppIceComponent::handleDatagram` -/
def react (s : St) (d : Datagram) : St × List Out :=
  if s.closed then (s, []) else               -- the sockets are closed: nothing is delivered to the component
  match d.kind with
  | .nonStun payload =>
    -- "use this as an opportunity to flag a potential pair"
    let s1 := match findPair s.pairs d.src with
      | some _ => { s with fallback := some d.src }
      | none => s
    (s1, [.appData payload])
  | .stun m => if s.stunTx.contains m.txid then reactServer s m else reactPeer s d.src m

/-- `handleDatagram` on raw bytes -/
def receive (parse : List UInt8 → Stun) (s : St) (src : Nat) (b : List UInt8) : St × List Out :=
  react s (Datagram.ofBytes parse src b)

/-! ### the other entry points -/

/-- the 500 ms timer -/
def tick (s : St) : St × List Out := if s.timerOn then checkCandidates s else (s, [])

/-- transaction `t` used up its retransmissions (`QXmppStunTransaction::retry` ⇒ `finished` with an Error response) -/
def txFinished (s : St) (t : Nat) : St × List Out :=
  match s.pairs.find? (fun p => p.tx == some t) with
  | none => (s, [])
  | some p =>
    ({ s with pairs := updatePair s.pairs p.remote fun q => { q with state := .failed, tx := none } },
     [.pairState p.remote .failed])

/-- the retransmission timer of transaction `t` fires (`QXmppStunTransaction::retry`): the same request is sent again, or,
after STUN_RTO_MAX = 7 transmissions, the transaction finishes with an error and the pair fails -/
def retransmit (s : St) (t : Nat) : St × List Out :=
  match s.pairs.find? (fun p => p.tx == some t) with
  | none => (s, [])
  | some p =>
    if p.tries ≥ 7 then txFinished s t
    else ({ s with pairs := updatePair s.pairs p.remote fun q => { q with tries := q.tries + 1 } },
          [.checkSent p.remote t s.controlling])

/-- `QXmppIceConnection::addRemoteCandidate` for a host/server-reflexive/relayed UDP candidate of this component -/
def addRemote (s : St) (addr prio : Nat) : St × List Out :=
  if s.remoteCands.any (fun c => c.addr == addr) then (s, []) else
  let s1 : St := { s with remoteCands := s.remoteCands ++ [({ addr := addr, prio := prio, prflx := false } : Cand)] }
  let s2 := s1.addPair ({ remote := addr, rprio := prio } : Pair)
  ({ s2 with fallback := match s2.fallback with | some f => some f | none => some addr }, [])

/-- `QXmppIceConnection::connectToHost` (one component) -/
def connect (s : St) : St × List Out :=
  if s.active.isSome || s.connectStarted then (s, []) else
  let r := checkCandidates s
  ({ r.1 with timerOn := true, connectStarted := true }, r.2)

/-- `QXmppIceComponent::sendDatagram` -/
def sendApp (s : St) (payload : List UInt8) : St × List Out :=
  -- (also after `close()`: `activePair` is null then, so the fallback pair is used, and Qt re-opens the closed QUdpSocket on write —
  --  the datagram leaves from a fresh port)
  match s.active with
  | some a => (s, [.appSent a payload])
  | none =>
    match s.fallback with
    | some f => (s, [.appSent f payload])
    | none => (s, [.appNoRoute])

/-- `QXmppIceConnection::close()`: sockets closed, check timer stopped, `activePair = nullptr` -/
def close (s : St) : St × List Out :=
  ({ s with closed := true, active := none, timerOn := false }, [])

inductive Op
  | close
  | setRemoteCreds
  | setRemoteUser
  | setRemotePassword
  | retransmit (t : Nat)
  | addRemote (addr prio : Nat)
  | connect
  | dgram (d : Datagram)
  | tick
  | txTimeout (t : Nat)
  | sendApp (payload : List UInt8)
  deriving DecidableEq, Repr

def step (s : St) : Op → St × List Out
  | .close => close s
  | .setRemoteCreds => ({ s with remoteUserSet := true, remotePwSet := true }, [])
  | .setRemoteUser => ({ s with remoteUserSet := true }, [])
  | .setRemotePassword => ({ s with remotePwSet := true }, [])
  | .retransmit t => retransmit s t
  | .addRemote a p => addRemote s a p
  | .connect => connect s
  | .dgram d => react s d
  | .tick => tick s
  | .txTimeout t => txFinished s t
  | .sendApp p => sendApp s p

def run (s : St) : List Op → St × List Out
  | [] => (s, [])
  | op :: ops =>
    let r1 := step s op
    let r2 := run r1.1 ops
    (r2.1, r1.2 ++ r2.2)

/-! ### what the property talks about -/

def St.connected (s : St) : Bool := s.active.isSome

/-- connectivity state: per pair (remote, check state, nominated), the learned/told remote candidates, the selected
pair, connected -/
def connView (s : St) : List (Nat × PState × Bool) × List Cand × Option Nat × Bool :=
  (s.pairs.map fun p => (p.remote, p.state, p.nominated), s.remoteCands, s.active, s.connected)

def isBindingResponse : Out → Bool
  | .bindingResponse _ _ => true
  | _ => false

def isCheckSent : Out → Bool
  | .checkSent _ _ _ => true
  | _ => false

/-- SPECIFICATION side (RFC 5389 15.4 / 15.5, not a transcription of the code): the integrity attribute that protects a
message is its first MESSAGE-INTEGRITY, and it only counts when no FINGERPRINT precedes it (FINGERPRINT is the last attribute
of a message; what follows it is not part of the message).  `none` = the message carries no integrity protection. -/
def protectingMi : List Attr → Option MiSt
  | [] => none
  | .mi st :: _ => some st
  | .fingerprint _ :: _ => none
  | .other :: rest => protectingMi rest
  | .useCandidate :: rest => protectingMi rest
  | .priority _ :: rest => protectingMi rest
  | .overrun :: _ => none

/-- a STUN datagram that does not carry a valid integrity code under the session key for its class: no protecting
MESSAGE-INTEGRITY at all (none, or only behind a FINGERPRINT), or one that is wrong / under the other password / truncated -/
def Datagram.unauthenticated (d : Datagram) : Bool :=
  match d.kind with
  | .stun m => protectingMi m.attrs != some (validFor m.cls)
  | .nonStun _ => false

def Op.unauthenticated : Op → Bool
  | .dgram d => d.unauthenticated
  | _ => false

/-! ### two agents over a lossless in-order network (for the liveness statement) -/

structure Net where
  a : St
  b : St
  addrA : Nat
  addrB : Nat
  toA : List Datagram := []     -- in flight towards A, oldest first
  toB : List Datagram := []
  evA : List Out := []          -- everything A emitted so far
  evB : List Out := []
  deriving Repr

/-- what an emitted STUN message looks like to the receiver when credentials were exchanged: a request is protected with the
sender's remote password = receiver's local one, a response with the sender's local = receiver's remote one -/
def wire (sender : St) (from_ : Nat) : Out → Option (Nat × Datagram)
  | .checkSent to t uc =>
    let m : Stun := { cls := .request, txid := t, attrs := [.mi .validLocal, .fingerprint true], useCandidate := uc,
                      roleAttr := if sender.controlling then .controlling else .controlled,
                      priority := prflxPriority sender.component }
    some (to, ({ src := from_, kind := .stun m } : Datagram))
  | .bindingResponse to t =>
    let m : Stun := { cls := .response, txid := t, attrs := [.mi .validRemote, .fingerprint true] }
    some (to, ({ src := from_, kind := .stun m } : Datagram))
  | .appSent to p => some (to, ({ src := from_, kind := .nonStun p } : Datagram))
  | .accepted => none
  | .warnBadMi => none
  | .warnNoMi => none
  | .warnBadFp => none
  | .warnTruncAttr => none
  | .warnMissingMi => none
  | .roleConflict => none
  | .pairState _ _ => none
  | .selected _ _ => none
  | .connectedSig => none
  | .appData _ => none
  | .appNoRoute => none
  | .localCandidate _ => none
  | .gatheringComplete => none
  | .warnNoReflexive => none

/-- the datagrams among `outs` that are addressed to `dest`, as they arrive there -/
def route (sender : St) (from_ dest : Nat) : List Out → List Datagram
  | [] => []
  | o :: rest =>
    match wire sender from_ o with
    | some x => if x.1 == dest then x.2 :: route sender from_ dest rest else route sender from_ dest rest
    | none => route sender from_ dest rest

def Net.emitA (n : Net) (r : St × List Out) : Net :=
  { n with a := r.1, evA := n.evA ++ r.2, toB := n.toB ++ route r.1 n.addrA n.addrB r.2 }

def Net.emitB (n : Net) (r : St × List Out) : Net :=
  { n with b := r.1, evB := n.evB ++ r.2, toA := n.toA ++ route r.1 n.addrB n.addrA r.2 }

def Net.opA (n : Net) (op : Op) : Net := n.emitA (step n.a op)
def Net.opB (n : Net) (op : Op) : Net := n.emitB (step n.b op)

/-- deliver the oldest datagram in flight to B, then the oldest in flight to A -/
def Net.deliverRound (n : Net) : Net :=
  let n1 := match n.toB with
    | d :: rest => ({ n with toB := rest }).opB (.dgram d)
    | [] => n
  match n1.toA with
  | d :: rest => ({ n1 with toA := rest }).opA (.dgram d)
  | [] => n1

def Net.deliver : Nat → Net → Net
  | 0, n => n
  | k + 1, n => Net.deliver k n.deliverRound

/-- two agents, one host candidate each, credentials and candidates exchanged, both call `connectToHost`
(A first), then the network delivers everything in order without loss -/
def honestNet (aControlling : Bool) (component addrA addrB : Nat) : Net :=
  let a0 := (run (init aControlling component) [.setRemoteCreds, .addRemote addrB (localPriority component)]).1
  let b0 := (run (init (!aControlling) component) [.setRemoteCreds, .addRemote addrA (localPriority component)]).1
  let n0 : Net := { a := a0, b := b0, addrA := addrA, addrB := addrB }
  (n0.opA .connect).opB .connect

/-! ### schedules with loss of first transmissions and retransmission (for the liveness statements) -/


/-- transaction ids of the checks an agent has outstanding -/
def outstanding (s : St) : List Nat := s.pairs.filterMap (·.tx)

/-- which FIRST transmissions are still to be lost: the first Binding request sent by A, by B, the first response sent by A, by B -/
structure Loss where
  reqA : Bool
  reqB : Bool
  rspA : Bool
  rspB : Bool
  deriving DecidableEq, Repr

def isRequest (d : Datagram) : Bool := match d.kind with | .stun m => m.cls == .request | _ => false
def isResponse (d : Datagram) : Bool := match d.kind with | .stun m => m.cls == .response | _ => false

/-- the oldest datagram travelling to B (sent by A) arrives, unless it is a first transmission marked to be lost -/
def Net.passToB (n : Net) (l : Loss) : Net × Loss :=
  match n.toB with
  | [] => (n, l)
  | d :: rest =>
    let n1 := { n with toB := rest }
    if isRequest d && l.reqA then (n1, { l with reqA := false })
    else if isResponse d && l.rspA then (n1, { l with rspA := false })
    else (n1.opB (.dgram d), l)

def Net.passToA (n : Net) (l : Loss) : Net × Loss :=
  match n.toA with
  | [] => (n, l)
  | d :: rest =>
    let n1 := { n with toA := rest }
    if isRequest d && l.reqB then (n1, { l with reqB := false })
    else if isResponse d && l.rspB then (n1, { l with rspB := false })
    else (n1.opA (.dgram d), l)

/-- everything in flight is passed on (alternating directions) until nothing is in flight any more (`fuel` bounds the loop) -/
def Net.flush : Nat → Net × Loss → Net × Loss
  | 0, x => x
  | k + 1, x =>
    let x1 := x.1.passToB x.2
    let x2 := x1.1.passToA x1.2
    if x2.1.toA.isEmpty && x2.1.toB.isEmpty then x2 else Net.flush k x2

/-- all retransmission timers of both agents fire once -/
def Net.rtxAll (n : Net) : Net :=
  let n1 := (outstanding n.a).foldl (fun n t => n.opA (.retransmit t)) n
  (outstanding n1.b).foldl (fun n t => n.opB (.retransmit t)) n1

/-- one period of real time: what is in flight is passed on, the 500 ms check timers tick, the answers are passed on, the
retransmission timers fire -/
def Net.period (x : Net × Loss) : Net × Loss :=
  let x1 := Net.flush 12 x
  let n2 := (x1.1.opA .tick).opB .tick
  let x3 := Net.flush 12 (n2, x1.2)
  (x3.1.rtxAll, x3.2)

def Net.periods : Nat → Net × Loss → Net × Loss
  | 0, x => x
  | k + 1, x => Net.periods k (Net.period x)

/-- Two agents with exchanged credentials. Each is told the other's real host candidate and, optionally, one more candidate
of the other side that is unreachable (address 7 resp. 9, same priority), before or after the real one. -/
def lossyStart (aControlling bFirst gap deadA deadB deadFirst : Bool) (component : Nat) : Net :=
  let pr := localPriority component
  let candsA : List Op := if deadA then (if deadFirst then [.addRemote 7 pr, .addRemote 2 pr] else [.addRemote 2 pr, .addRemote 7 pr]) else [.addRemote 2 pr]
  let candsB : List Op := if deadB then (if deadFirst then [.addRemote 9 pr, .addRemote 1 pr] else [.addRemote 1 pr, .addRemote 9 pr]) else [.addRemote 1 pr]
  let a0 := (run (init aControlling component) (.setRemoteCreds :: candsA)).1
  let b0 := (run (init (!aControlling) component) (.setRemoteCreds :: candsB)).1
  let n0 : Net := { a := a0, b := b0, addrA := 1, addrB := 2 }
  if bFirst then
    let n1 := n0.opB .connect
    let n2 := if gap then (Net.flush 12 (n1, ⟨false, false, false, false⟩)).1 else n1
    n2.opA .connect
  else
    let n1 := n0.opA .connect
    let n2 := if gap then (Net.flush 12 (n1, ⟨false, false, false, false⟩)).1 else n1
    n2.opB .connect

/-- two agents with exchanged credentials and one candidate each whose roles are chosen INDEPENDENTLY (both controlling / both
controlled = glare); both call `connectToHost`, A first -/
def rolesNet (aControlling bControlling : Bool) (component : Nat) : Net :=
  let pr := localPriority component
  let a0 := (run (init aControlling component) [.setRemoteCreds, .addRemote 2 pr]).1
  let b0 := (run (init bControlling component) [.setRemoteCreds, .addRemote 1 pr]).1
  let n0 : Net := { a := a0, b := b0, addrA := 1, addrB := 2 }
  (n0.opA .connect).opB .connect

def bothConnected (n : Net) : Bool := n.a.active == some 2 && n.b.active == some 1

end Qx.C15
