/-
C03 — executable checker for the hypothesis structure `PrefixOracle` (end of `C03Framing.lean`): exhaustive
enumeration of the splits `items = A ++ B ++ C` and of the cuts of the next item.  Used by the driver on every
corpus stream (for the Lean parser instance) and by the non-vacuity examples; proved sound in
`Qx/Proofs/C03.lean` (`checkOracle_sound`).  No proofs here.
-/
import Qx.Model.C03Framing

namespace Qx.C03

variable {E : Type}

/-- all ways to cut a list in two -/
def splits {α : Type} : List α → List (List α × List α)
  | [] => [([], [])]
  | x :: xs => ([], x :: xs) :: (splits xs).map fun p => (x :: p.1, p.2)

def shapeOk (it : Item E) : Bool :=
  if it.ws then
    (match it.text with
     | [c] => isSpace c
     | _ => false) && it.evs.isEmpty && it.tag.isNone
  else
    match it.text with
    | c :: _ => !isSpace c
    | [] => false

def checkCuts (P : Parser E) (tag pre : List Char) (it : Item E) : Bool :=
  (splits it.text).all fun pq =>
    pq.1.isEmpty || pq.2.isEmpty || (P (wrapOf tag (pre ++ pq.1))).isNone

/-- `PrefixOracleFrom t0` by exhaustive enumeration of `items = A ++ B ++ C` and of the cuts of the next item -/
def checkOracleFrom [DecidableEq E] (t0 : List Char) (P : Parser E) (items : List (Item E)) : Bool :=
  items.all shapeOk &&
  (splits items).all fun ar =>
    (splits ar.2).all fun bc =>
      (bc.1.all (fun it => it.ws) ||
        decide (attempt P (tagFrom t0 ar.1) (textOf bc.1) = some (tagFrom t0 (ar.1 ++ bc.1), evsOf bc.1))) &&
      (match bc.2 with
       | [] => true
       | it :: _ => checkCuts P (tagFrom t0 ar.1) (textOf bc.1) it)

/-- fresh connection -/
def checkOracle [DecidableEq E] (P : Parser E) (items : List (Item E)) : Bool := checkOracleFrom [] P items

end Qx.C03
