/-
C12 — model of QXmppRosterManager's cache (src/client/QXmppRosterManager.cpp) together with the two
pieces of the client it depends on for this property:

* the outgoing-IQ bookkeeping (`OutgoingIqManager`, src/client/QXmppOutgoingClient.cpp): which answer to
  the manager's own roster request is delivered, and when outstanding requests are cancelled;
* the stream fallback for unhandled IQ requests (`QXmppOutgoingClient::handleStanza`).

Concrete state = what the C++ keeps (`entries`, `isRosterReceived`, `presences`, outstanding roster
requests).  The history-level specification (`Ev`, `Wire`, `wireEvent`, `wireTrace`, `specView`, `specPres`)
is defined here too (definitions only); the theorems relating both are in `Qx/Props/C12.lean`.  No proofs here.

The configured JID can be changed while running (`configuration().setJid`): `own` is therefore an argument of
every step, `run`/`trace` thread it through the history (`nextOwn`).

JID cutting (`bare`, `resource`) is the shared `Qx.Jid` (lean/Qx/Base/Jid.lean): `QXmppUtils::jidToBareJid` /
`jidToResource`, split at the FIRST '/'.
-/
import Qx.Base.Jid
namespace Qx.C12

/-- `QXmppUtils::jidToBareJid`: everything before the first `/` (the whole string if there is none) -/
abbrev bare (jid : String) : String := Qx.Jid.bare jid

/-- `QXmppUtils::jidToResource`: everything after the first `/` (empty if there is none) -/
abbrev resource (jid : String) : String := Qx.Jid.resource jid

/-- `QXmppRosterIq::Item::SubscriptionType` -/
inductive Sub | notSet | none_ | both | from_ | to_ | remove
  deriving DecidableEq, Repr

/-- `Item::setSubscriptionTypeFromStr`: an unknown value only warns and leaves the default `NotSet` -/
def Sub.ofAttr (s : String) : Sub :=
  if s = "none" then .none_ else if s = "both" then .both else if s = "from" then .from_
  else if s = "to" then .to_ else if s = "remove" then .remove else .notSet

/-- the fields of `QXmppRosterIq::Item` that the harness observes; `jid` is the raw `jid` attribute -/
structure Item where
  jid : String
  name : String
  sub : Sub
  groups : List String
  deriving DecidableEq, Repr

/-! ### association lists (`QMap<QString, …>`; key order is not modelled, observations are sorted) -/

def keys {α : Type} (l : List (String × α)) : List String := l.map (·.1)

def eraseKey {α : Type} (k : String) (l : List (String × α)) : List (String × α) :=
  l.filter (fun p => p.1 != k)

/-- `QMap::insert` (replace or add) -/
def insertKey {α : Type} (k : String) (v : α) (l : List (String × α)) : List (String × α) :=
  (k, v) :: eraseKey k l

def lookupKey {α : Type} (k : String) : List (String × α) → Option α
  | [] => none
  | p :: t => if p.1 = k then some p.2 else lookupKey k t

def hasKey {α : Type} (k : String) (l : List (String × α)) : Bool := (lookupKey k l).isSome

abbrev Entries := List (String × Item)
/-- resource ↦ status text of the stored presence -/
abbrev ResTable := List (String × String)
abbrev PresTable := List (String × ResTable)

/-- `d->presences[bare]` (a missing key reads as the empty map, as `QMap::operator[]` / `value()` do) -/
def resTable (p : PresTable) (b : String) : ResTable :=
  match lookupKey b p with
  | some t => t
  | none => []

/-! ### operations and outputs -/

/-- `QXmppClient::StreamManagementState` as read by `_q_connected` -/
inductive Sm | none_ | new | resumed
  deriving DecidableEq, Repr

inductive IqType | get | set | result | error
  deriving DecidableEq, Repr

inductive PType | available | unavailable | other
  deriving DecidableEq, Repr

/-- the manager's own mutator API; `addItem`/`removeItem`/`renameItem` also stand for the task-returning
`addRosterItem`/`removeRosterItem`/`renameRosterItem`, `subscribe`/`unsubscribe` for `subscribeTo`/
`unsubscribeFrom` (same stanza; the task variants register the request with the IQ manager) -/
inductive Api
  | addItem (jid name : String) (groups : List String)
  | removeItem (jid : String)
  | renameItem (jid name : String)
  | subscribe (jid : String)
  | unsubscribe (jid : String)
  | accept (jid : String)
  | refuse (jid : String)
  deriving DecidableEq, Repr

inductive Op
  /-- session established (`openSession`): SM state at that moment, `client()->isAuthenticated()` -/
  | connected (sm : Sm) (auth : Bool)
  /-- `closeSession`: `c2sStreamManager.enabled()` (what `streamManagementState()` reports) and
      `canResume()` (what the IQ manager looks at) at that moment -/
  | disconnected (smEnabled : Bool) (canResume : Bool)
  /-- an IQ of type result (`ok`) or error carrying the id of roster request number `k` -/
  | response (k : Nat) (sender : String) (ok : Bool) (items : List Item)
  /-- any other roster IQ (`<query xmlns='jabber:iq:roster'/>`), in particular a push (`set`) -/
  | rosterIq (type : IqType) (sender : String) (id : String) (items : List Item)
  | presence (sender : String) (type : PType) (status : String)
  /-- the application calls a mutator of the manager (`tracked`: the task-returning variant) -/
  | api (call : Api) (tracked : Bool)
  /-- `configuration().setJid(…)`: from now on `configuration().jidBare()` is `bareJid` -/
  | setJid (bareJid : String)
  deriving DecidableEq, Repr

inductive Out
  | rosterReceived
  | itemAdded (jid : String)
  | itemChanged (jid : String)
  | itemRemoved (jid : String)
  | presenceChanged (bareJid : String) (res : String)
  /-- roster request number `k` written to the stream (requests the client sends are numbered in order) -/
  | sentGet (k : Nat)
  /-- request number `k` is a roster `set` with this one item (mutator API) -/
  | sentSet (k : Nat) (item : Item)
  /-- `<presence type=… to=…/>` written by the subscription API -/
  | sentPresence (type : String) (to : String)
  /-- `<iq type='result' id=… to=…/>` sent by the roster manager (the acknowledgement of a push; `to` is the
      push's `from` attribute verbatim, absent when that was absent) -/
  | sentResult (id : String) (to : String)
  /-- `feature-not-implemented` error sent by the stream for an IQ request nobody handled -/
  | sentError (id : String)
  deriving DecidableEq, Repr

structure St where
  entries : Entries := []
  received : Bool := false
  presences : PresTable := []
  /-- roster requests awaiting their answer (`OutgoingIqManager::m_requests`, restricted to the manager's
  roster gets): request number and the address the answer is expected from (the bare JID configured when
  the request was sent, `QXmppOutgoingClient::sendIq`) -/
  pending : List (Nat × String) := []
  nextReq : Nat := 1
  /-- `d->inSession`: between `connected()` and the `disconnected()` that ends that session -/
  inSession : Bool := false
  deriving DecidableEq, Repr

def init : St := {}

/-- the sender check of `QXmppRosterManager::handleStanza`:
`fromJid.isEmpty() || jidToBareJid(fromJid) == configuration().jidBare()` -/
def authorised (own sender : String) : Bool := sender = "" || bare sender = own

/-- `OutgoingIqManager::handleStanza` on a list of outstanding requests: the id belongs to one of them and
the sender is absent or exactly the address that request went to (the account's bare JID at the time, for a
request without `to`) -/
def answers (asked : List (Nat × String)) (k : Nat) (sender : String) : Bool :=
  asked.any (fun p => p.1 = k && (sender = "" || sender = p.2))

/-- forget request `k` (`m_requests.erase`) -/
def dropReq (asked : List (Nat × String)) (k : Nat) : List (Nat × String) :=
  asked.filter (fun p => p.1 != k)

def delivered (s : St) (k : Nat) (sender : String) : Bool := answers s.pending k sender

/-- one item of a push (`handleStanza`, `case QXmppIq::Set`) -/
def applyItem (e : Entries) (it : Item) : Entries :=
  if it.sub = .remove then eraseKey it.jid e else insertKey it.jid it e

def itemSignal (e : Entries) (it : Item) : List Out :=
  if it.sub = .remove then (if hasKey it.jid e then [.itemRemoved it.jid] else [])
  else if hasKey it.jid e then [.itemChanged it.jid] else [.itemAdded it.jid]

def applyItems (e : Entries) : List Item → Entries × List Out
  | [] => (e, [])
  | it :: rest =>
    let r := applyItems (applyItem e it) rest
    (r.1, itemSignal e it ++ r.2)

/-- the continuation of `requestRoster()` in `_q_connected`: `entries.clear()` then insert every item -/
def fromItems (items : List Item) : Entries :=
  items.foldl (fun e it => insertKey it.jid it e) []

/-- `d->presences[bare][res] = presence` -/
def setRes (p : PresTable) (b r st : String) : PresTable :=
  insertKey b (insertKey r st (resTable p b)) p

/-- `d->presences[bare].remove(res)` (creates the outer key if it was missing) -/
def delRes (p : PresTable) (b r : String) : PresTable :=
  insertKey b (eraseKey r (resTable p b)) p

/-- `QXmppRosterManagerPrivate::clear()`; the IQ bookkeeping is not the manager's and is kept -/
def St.cleared (s : St) : St := { s with entries := [], presences := [], received := false }

def step (own : String) (s : St) : Op → St × List Out
  | .connected sm auth =>
    -- openSession: `iqManager.onSessionOpened` cancels everything unless the stream was resumed
    -- (the cancelled roster request's continuation sees an error and does nothing), then `connected`
    -- `_q_connected`: `d->inSession = true`, clear unless resumed, request the roster if needed
    let s1 : St := if sm = .resumed then { s with inSession := true }
                   else { s.cleared with pending := [], inSession := true }
    if !s1.received && auth then
      ({ s1 with pending := s1.pending ++ [(s1.nextReq, own)], nextReq := s1.nextReq + 1 }, [.sentGet s1.nextReq])
    else (s1, [])
  | .disconnected smEnabled canResume =>
    -- closeSession: `iqManager.onSessionClosed` first, then `disconnected` reaches `_q_disconnected`
    let s1 : St := if canResume then s else { s with pending := [] }
    -- `_q_disconnected`: `if (!std::exchange(d->inSession, false)) return;` — a `disconnected` that does not
    -- end an established session (failed reconnect attempt) touches nothing; otherwise clear iff no SM
    if !s.inSession then (s1, [])
    else if smEnabled then ({ s1 with inSession := false }, [])
    else ({ s1.cleared with inSession := false }, [])
  | .response k sender ok items =>
    if delivered s k sender then
      let s1 : St := { s with pending := dropReq s.pending k }
      if ok then ({ s1 with entries := fromItems items, received := true }, [.rosterReceived])
      else (s1, [])
    else
      -- not an answer the IQ manager accepts for a roster get (wrong sender, an id never used or already
      -- answered, or the id of a mutator's `set`): it reaches `handleStanza` as a roster IQ of type result
      -- (ignored) or as a non-roster IQ (not handled, no fallback for result/error); a tracked mutator
      -- request consumes its answer as a generic IQ — the roster is not involved
      (s, [])
  | .rosterIq type sender id items =>
    if authorised own sender then
      match type with
      | .set =>
        let r := applyItems s.entries items
        ({ s with entries := r.1 }, .sentResult id sender :: r.2)
      -- "a roster request sent to this client is not ours to answer": `handleStanza` returns false for `get`,
      -- the stream's fallback replies with an error
      | .get => (s, [.sentError id])
      | _ => (s, [])
    else
      -- `handleStanza` returns false; no other extension takes it; the stream answers requests with an error
      (s, if type = .get ∨ type = .set then [.sentError id] else [])
  | .presence sender type status =>
    let b := bare sender
    let r := resource sender
    if b = "" then (s, []) else
    match type with
    | .available => ({ s with presences := setRes s.presences b r status }, [.presenceChanged b r])
    | .unavailable => ({ s with presences := delRes s.presences b r }, [.presenceChanged b r])
    | .other => (s, [])
  | .api call _ =>
    -- the mutators only SEND; the cache changes when (and only when) the server's push arrives
    match call with
    | .addItem j n g =>
      ({ s with nextReq := s.nextReq + 1 }, [.sentSet s.nextReq { jid := j, name := n, sub := .notSet, groups := g }])
    | .removeItem j =>
      ({ s with nextReq := s.nextReq + 1 }, [.sentSet s.nextReq { jid := j, name := "", sub := .remove, groups := [] }])
    | .renameItem j n =>
      match lookupKey j s.entries with
      | some it => ({ s with nextReq := s.nextReq + 1 }, [.sentSet s.nextReq { it with name := n }])
      | none => (s, [])
    | .subscribe j => (s, [.sentPresence "subscribe" (bare j)])
    | .unsubscribe j => (s, [.sentPresence "unsubscribe" (bare j)])
    | .accept j => (s, [.sentPresence "subscribed" j])
    | .refuse j => (s, [.sentPresence "unsubscribed" j])
  | .setJid _ => (s, [])

/-- the configured bare JID after an operation -/
def nextOwn (own : String) : Op → String
  | .setJid j => j
  | _ => own

def run (own : String) (s : St) : List Op → St × List Out
  | [] => (s, [])
  | op :: ops =>
    let r1 := step own s op
    let r2 := run (nextOwn own op) r1.1 ops
    (r2.1, r1.2 ++ r2.2)

/-- `getResources(bare)` -/
def resources (s : St) (b : String) : List String := keys (resTable s.presences b)

/-! ### history-level specification

Every operation amounts to one *event* for the view; which one depends only on the operation, on who
sent it, and (for answers) on whether the IQ layer had that request outstanding. -/

inductive Ev
  /-- the view starts from nothing -/
  | clear
  /-- a full roster was received -/
  | full (items : List Item)
  /-- a roster push from the server / the user's own account -/
  | push (items : List Item)
  /-- an available (`avail`) or unavailable presence of `b/r` -/
  | pres (b r : String) (avail : Bool) (status : String)
  | other
  deriving DecidableEq, Repr

def Ev.isClear : Ev → Bool | .clear => true | _ => false
def Ev.isFull : Ev → Bool | .full _ => true | _ => false
def Ev.pushItems : Ev → List Item | .push items => items | _ => []
def Ev.isPresOf (b r : String) : Ev → Bool
  | .pres b' r' _ _ => b' = b && r' = r
  | _ => false

/-- events as the CODE draws the boundaries: a view ends at a connect that is not a resumption and at the
`disconnected` signal that ends an established session while `streamManagementState()` is
`NoStreamManagement` -/
def classify (own : String) (s : St) : Op → Ev
  | .connected sm _ => if sm = .resumed then .other else .clear
  | .disconnected smEnabled _ => if s.inSession && !smEnabled then .clear else .other
  | .response k sender ok items => if delivered s k sender && ok then .full items else .other
  | .rosterIq type sender _ items => if authorised own sender && type = .set then .push items else .other
  | .presence sender type status =>
    if bare sender = "" then .other else
    match type with
    | .available => .pres (bare sender) (resource sender) true status
    | .unavailable => .pres (bare sender) (resource sender) false status
    | .other => .other
  | .api _ _ => .other
  | .setJid _ => .other

/-- events as the PROPERTY draws the boundaries: a session's view ends only where a session that is not
its resumption begins; `disconnected` signals in between end nothing -/
def classifyS (own : String) (s : St) : Op → Ev
  | .disconnected _ _ => .other
  | op => classify own s op

def trace (own : String) (s : St) : List Op → List Ev
  | [] => []
  | op :: ops => classify own s op :: trace (nextOwn own op) (step own s op).1 ops

def traceS (own : String) (s : St) : List Op → List Ev
  | [] => []
  | op :: ops => classifyS own s op :: traceS (nextOwn own op) (step own s op).1 ops

/-! ### events read off the wire alone

`classify` above consults the model's state.  The same events can be determined by an observer who sees only
what crosses the stream — the stanzas arriving, the session signals, and the roster requests the client
itself sends — and applies the sender rules spelled out below; `wireTrace_eq_trace` (Proofs) shows both
agree, and the top theorem of `Qx/Props/C12.lean` is stated with `wireTrace`. -/

/-- what the observer keeps: the roster requests seen leaving the client that are still unanswered (number,
bare JID configured when it left = the only non-empty sender its answer may carry), and whether a session is
established -/
structure Wire where
  asked : List (Nat × String) := []
  inSession : Bool := false
  deriving DecidableEq, Repr

/-- **the sender rules**, with nothing hidden:
* a roster IQ of type `set` is a *push* iff it has no sender or `bare sender = own` (the configured bare JID
  at that moment; a full JID of the own account passes, any other bare JID — other case, other domain, the
  server's domain, a prefix or suffix look-alike — does not);
* an IQ result is a *full roster* iff its id is that of a roster request the client sent and that is still
  unanswered and not cancelled, and it has no sender or its sender is exactly the bare JID the request was
  addressed to;
* everything else — roster IQs of other types, results with foreign senders, unknown or already used ids,
  answers to the mutators' `set` requests, API calls, JID changes — is no event for the roster. -/
def wireEvent (own : String) (w : Wire) : Op → Ev
  | .connected sm _ => if sm = .resumed then .other else .clear
  | .disconnected smEnabled _ => if w.inSession && !smEnabled then .clear else .other
  | .response k sender ok items => if answers w.asked k sender && ok then .full items else .other
  | .rosterIq type sender _ items =>
    if (sender = "" || bare sender = own) && type = .set then .push items else .other
  | .presence sender type status =>
    if bare sender = "" then .other else
    match type with
    | .available => .pres (bare sender) (resource sender) true status
    | .unavailable => .pres (bare sender) (resource sender) false status
    | .other => .other
  | .api _ _ => .other
  | .setJid _ => .other

/-- roster requests among what the client wrote during a step -/
def askedNow (own : String) (outs : List Out) : List (Nat × String) :=
  outs.filterMap fun | .sentGet k => some (k, own) | _ => none

/-- how the observer's bookkeeping moves: session signals as the stream layer defines them (a connect that is
not a resumption cancels every outstanding request, a disconnect that cannot be resumed too), an accepted
answer uses its request up, requests seen leaving the client are added -/
def Wire.step (w : Wire) (own : String) (op : Op) (outs : List Out) : Wire :=
  let w1 : Wire :=
    match op with
    | .connected sm _ => if sm = .resumed then { w with inSession := true } else { asked := [], inSession := true }
    | .disconnected _ canResume => { asked := if canResume then w.asked else [], inSession := false }
    | .response k sender _ _ => if answers w.asked k sender then { w with asked := dropReq w.asked k } else w
    | _ => w
  { w1 with asked := w1.asked ++ askedNow own outs }

/-- the events of a history as the observer determines them (the model is run alongside only to produce the
client's outputs, of which the observer uses the roster requests) -/
def wireTrace (own : String) (s : St) (w : Wire) : List Op → List Ev
  | [] => []
  | op :: ops =>
    let r := step own s op
    wireEvent own w op :: wireTrace (nextOwn own op) r.1 (w.step own op r.2) ops

/-- the part of `l` after its last element satisfying `p` (all of `l` if there is none) -/
def afterLast {α : Type} (p : α → Bool) (l : List α) : List α :=
  (l.reverse.takeWhile (fun x => !p x)).reverse

/-- the last element of `l` satisfying `p` -/
def lastThat {α : Type} (p : α → Bool) (l : List α) : Option α := l.reverse.find? p

/-- **The view the property prescribes**: within the current session (events after the last `clear`), the
most recent full roster (nothing if none was received yet) with the items of every later push applied in
order. -/
def specView (evs : List Ev) : Entries :=
  let session := afterLast Ev.isClear evs
  let base : Entries :=
    match lastThat Ev.isFull session with
    | some (.full items) => fromItems items
    | _ => []
  let later : List Item := (afterLast Ev.isFull session).flatMap Ev.pushItems
  later.foldl applyItem base

/-- **The presence table the property prescribes** for resource `r` of contact `b`: the status of its latest
available/unavailable presence within the current session if that one was *available*, nothing otherwise. -/
def specPres (evs : List Ev) (b r : String) : Option String :=
  match lastThat (Ev.isPresOf b r) (afterLast Ev.isClear evs) with
  | some (.pres _ _ true st) => some st
  | _ => none

/-- **`isRosterReceived()` as prescribed**: a full roster was received in the current session -/
def specReceived (evs : List Ev) : Bool := (afterLast Ev.isClear evs).any Ev.isFull

/-! ### the session chain, as a function of the history alone -/

/-- where the history stands: `inSession` — the latest session event was a connect; `smChain` — since the
latest connect that was not a resumption, no established session has ended while stream management was off
(so the session begun by that connect can still be the one a later resumption continues) -/
structure Chain where
  inSession : Bool := false
  smChain : Bool := true
  deriving DecidableEq, Repr

def Chain.step (c : Chain) : Op → Chain
  | .connected sm _ =>
    if sm = .resumed then { c with inSession := true } else { inSession := true, smChain := true }
  | .disconnected smEnabled _ =>
    { inSession := false, smChain := c.smChain && !(c.inSession && !smEnabled) }
  | _ => c

def chainFrom (c : Chain) (ops : List Op) : Chain := ops.foldl Chain.step c
def chainOf (ops : List Op) : Chain := chainFrom {} ops

/-- is the client inside an established session after this history? -/
def connectedNow (ops : List Op) : Bool := (chainOf ops).inSession

def resumesOkFrom (c : Chain) : List Op → Bool
  | [] => true
  | op :: rest =>
    (match op with
     | .connected .resumed _ => c.smChain
     | _ => true) && resumesOkFrom (c.step op) rest

/-- **Environment assumption "a resumption continues the latest session, and that session had stream
management"**: at every resumed connect of the history, no established session has ended without stream
management since the latest connect that was not a resumption.  (XEP-0198: only a session with SM enabled
can be resumed, and a server resumes the client's latest session.)  Characterised by
`resumesContinueSmSession_iff` in `Qx/Props/C12.lean`. -/
def resumesContinueSmSession (ops : List Op) : Bool := resumesOkFrom {} ops

/-- a roster IQ the sender check rejects -/
def Op.isForeign (own : String) : Op → Bool
  | .rosterIq _ sender _ _ => !authorised own sender
  | _ => false

/-- a history with every roster IQ the sender check rejects taken out (the check is made against the bare JID
configured at that point of the history) -/
def dropForeign (own : String) : List Op → List Op
  | [] => []
  | op :: ops =>
    if op.isForeign own then dropForeign own ops else op :: dropForeign (nextOwn own op) ops

end Qx.C12
