/-
C04 / C10 — text form of the harness ops (harness/cxx/negotiation.cpp) and of the observations, shared by
`Driver/C04.lean` and `Driver/C10.lean`.  Pure functions only, no proofs.

A harness op is one thing the scripted server (or the environment / application) does; it expands into one or
more model events:
  connect            = connectToServer, then socketConnected (the TCP connect to 127.0.0.1 always succeeds)
  redirect           = recv (streamError see-other-host), then socketConnected (second local listener)
  drop               = the peer closes: Qt reports one socket error (two on a TLS link: "TLS closed" and
                       "remote host closed"), then socketDisconnected
  every other op     = one `recv` / `sendIq`
-/
import Qx.Model.C04Negotiation
namespace Qx.C04

def b01 (s : String) : Option Bool :=
  if s = "1" then some true else if s = "0" then some false else none

def parseMech (c : Char) : Option (Option Mech) :=
  match c with
  | 'n' => some none
  | 'p' => some (some .plain)
  | 's' => some (some .scram)
  | 'u' => some (some .unsupported)
  | _ => none

/-- `feat` tokens: t<0|1|2> m<n|p|s|u> a<0|1> b<0|1> s<0|1> c<0|1> z<n|p|s|u><bind2 0|1|2><fast 0|1><sm 0|1> -/
def parseFeatTok (f : Features) (tok : String) : Option Features :=
  match tok.toList with
  | ['t', '0'] => some { f with tls := .absent }
  | ['t', '1'] => some { f with tls := .optional }
  | ['t', '2'] => some { f with tls := .required }
  | ['m', c] => (parseMech c).map fun m => { f with mechs := m }
  | ['a', c] => (b01 (String.singleton c)).map fun b => { f with legacyAuth := b }
  | ['b', c] => (b01 (String.singleton c)).map fun b => { f with bind := b }
  | ['s', c] => (b01 (String.singleton c)).map fun b => { f with sm := b }
  | ['c', c] => (b01 (String.singleton c)).map fun b => { f with csi := b }
  | ['g', c] => (b01 (String.singleton c)).map fun b => { f with register := b }
  | ['z', 'n'] => some { f with sasl2 := none }
  | ['z', m, b2, fa, sr] =>
    match parseMech m, b01 (String.singleton fa), b01 (String.singleton sr) with
    | some (some mech), some fast, some smr =>
      if b2 = '0' then some { f with sasl2 := some { mech := mech, bind2 := false, bind2Ext := false, fast := fast, smInline := smr } }
      else if b2 = '1' then some { f with sasl2 := some { mech := mech, bind2 := true, bind2Ext := false, fast := fast, smInline := smr } }
      else if b2 = '2' then some { f with sasl2 := some { mech := mech, bind2 := true, bind2Ext := true, fast := fast, smInline := smr } }
      else none
    | _, _, _ => none
  | _ => none

def parseFeat (toks : List String) : Option Features :=
  toks.foldlM parseFeatTok {}

def parseCfgTok (c : Cfg) (tok : String) : Option Cfg :=
  match tok.splitOn "=" with
  | ["tls", "0"] => some { c with tls := .disabled }
  | ["tls", "1"] => some { c with tls := .enabled }
  | ["tls", "2"] => some { c with tls := .required }
  | ["s2", v] => (b01 v).map fun b => { c with useSasl2 := b }
  | ["s1", v] => (b01 v).map fun b => { c with useSasl := b }
  | ["ns", v] => (b01 v).map fun b => { c with useNonSasl := b }
  | ["pl", v] => (b01 v).map fun b => { c with plainOk := b }
  | ["tok", "0"] => some { c with fastUa := false, token := false }
  | ["tok", "1"] => some { c with fastUa := true, token := true }
  | ["tok", "2"] => some { c with fastUa := true, token := false }
  | ["nsp", v] => (b01 v).map fun b => { c with nsPlain := b }
  | ["ina", v] => (b01 v).map fun b => { c with inactive := b }
  | ["reg", "1"] => some { c with registerOnConnect := true, regForm := false }
  | ["reg", "2"] => some { c with registerOnConnect := true, regForm := true }
  | ["ar", v] => some { c with autoReconnect := v != "0" }
  | ["ka", v] => some { c with keepAlive := v != "0" }   -- keep-alive interval > 0 (the harness uses an hour and fires the timer itself: `tick`)
  | _ => none

def parseCfg (toks : List String) : Option Cfg :=
  toks.foldlM parseCfgTok {}

def parseEl : List String → Option El
  | ["hdr", v, i] => do some (.header (← b01 v) (← b01 i))
  | "feat" :: toks => (parseFeat toks).map .features
  | ["proceed", b] => (b01 b).map .proceed
  | ["tlsfailure"] => some .tlsFailure
  | ["success", p] => (b01 p).map .saslSuccess
  | ["failure"] => some .saslFailure
  | ["challenge", b] => (b01 b).map .saslChallenge
  | ["success2", b, r, t, p] => do
    let bb ← (match b with | "0" => some S2Bound.none | "1" => some .plain | "2" => some .smEnabled | "3" => some .smFailed | _ => none)
    let rr ← (match r with | "0" => some S2Sm.none | "1" => some .resumed | "2" => some .failed | _ => none)
    some (.s2Success bb rr (← b01 t) (← b01 p))
  | ["failure2"] => some .s2Failure
  | ["challenge2", b] => (b01 b).map .s2Challenge
  | ["continue2"] => some .s2Continue
  | ["fields", p, d] => do some (.iq (.authFields (← b01 p) (← b01 d)))
  | ["authres", b] => (b01 b).map fun x => .iq (.authResult x)
  | ["bindres", "ok"] => some (.iq (.bindResult .ok))
  | ["bindres", "nojid"] => some (.iq (.bindResult .noJid))
  | ["bindres", "err"] => some (.iq (.bindResult .error))
  | ["bindres", "wrongid"] => some (.iq (.bindResult .wrongId))
  | ["smenabled", b] => (b01 b).map fun r => .smEnabled r
  | ["smenabledat"] => some (.smEnabled true true)
  | ["smfailed"] => some .smFailed
  | ["smresumed"] => some .smResumed
  | ["iqget", "version"] => some (.iq (.get true))
  | ["iqget", "disco"] => some (.iq (.get true))
  | ["iqget", "unknown"] => some (.iq (.get false))
  | ["iqset"] => some (.iq .set)
  | ["iqresult", "pending"] => some (.iq .resultPending)
  | ["iqresult", "stray"] => some (.iq .resultStray)
  | ["message"] => some .message
  | ["presence", _] => some .presence
  | ["streamerror"] => some (.streamError false)
  | ["redirect"] => some (.streamError true)
  | ["close"] => some .streamClose
  | ["xel", _, "iqget-version"] => some (.xiq .getKnown)
  | ["xel", _, "iqget-unknown"] => some (.xiq .getUnknown)
  | ["xel", _, "iqset"] => some (.xiq .set)
  | ["xel", _, "iqresult-pending"] => some (.xiq .resultPending)
  | ["xel", _, "message"] => some .xstanza
  | ["xel", _, "presence"] => some .xstanza
  | ["smr"] => some .smR
  | ["sma"] => some .smA
  | _ => none

/-- split a token list at "+" -/
def splitPlus : List String → List (List String)
  | [] => [[]]
  | "+" :: rest => [] :: splitPlus rest
  | t :: rest =>
    match splitPlus rest with
    | [] => [[t]]
    | g :: gs => (t :: g) :: gs

/-- `<stream:error>…</stream:error></stream:stream>` in one segment: the close tag is only seen if the segment parses -/
def errorThenClose (s : St) (seeOther : Bool) : List Ev :=
  if s.conn = .connected ∧ s.wedged = false ∧ s.headerSeen = true then [.recv (.streamError seeOther), .closeTail]
  else [.recv (.streamError seeOther)]

/-- events of one harness op in state `s` (before the automatic `socketConnected`) -/
def opEvents (s : St) : List String → Option (List Ev)
  | ["connect"] => some [.connectToServer]
  | ["drop"] =>
    if s.conn = .connected then
      some ((if s.encrypted ∧ ¬ s.peerShutdown then [.socketError, .socketError] else [.socketError]) ++ [.socketDisconnected])
    else some []
  | ["sendiq"] => some [.sendIq]
  | ["sendiq-retry"] => some [.sendIqRetry]
  | "seg" :: rest => ((splitPlus rest).mapM parseEl).map fun es => es.map Ev.recv   -- several elements in ONE read
  | ["ws"] => some [.recvWhitespace]
  | ["tick"] => some [.tick]
  | ["rtick"] => some [.reconnectTick]
  | ["closenotify"] => some [.tlsCloseNotify]
  | ["partial"] => some [.recvPartial]
  | ["errclose"] => some (errorThenClose s false)
  | ["redirectclose"] => some (errorThenClose s true)
  | ["rst"] => if s.conn = .connected then some [.socketError, .socketDisconnected] else some []
  | toks => (parseEl toks).map fun e => [.recv e]

/-- the loopback connect always succeeds -/
def settle (r : R) : R :=
  if r.1.conn = .connecting then
    let r2 := step r.1 .socketConnected
    (r2.1, r.2 ++ r2.2)
  else r

def applyOp (s : St) (toks : List String) : Option R :=
  (opEvents s toks).map fun evs => settle (run s evs)

def showUsed : Used → String
  | .plain => "plain" | .scram => "scram" | .ht => "ht"

def flag (b : Bool) (s : String) : String := if b then s else ""

def showKind : Kind → String
  | .streamOpen => "StreamOpen"
  | .streamClose => "StreamClose"
  | .startTls => "StartTls"
  | .nonSaslQuery => "NonSaslQuery"
  | .nonSaslAuth p => if p then "NonSaslAuth:plain" else "NonSaslAuth:digest"
  | .saslAuth m => "SaslAuth:" ++ showUsed m
  | .saslResponse => "SaslResponse"
  | .sasl2Auth m b2 sm re ina rq fa =>
    "Sasl2Auth:" ++ showUsed m ++ flag b2 "+bind2" ++ flag sm "+sm" ++ flag re "+resume" ++ flag ina "+inactive" ++
      flag rq "+reqtoken" ++ flag fa "+fast"
  | .sasl2Response => "Sasl2Response"
  | .sasl2Abort => "Sasl2Abort"
  | .bind => "Bind"
  | .smEnable => "SmEnable"
  | .smResume => "SmResume"
  | .smReq => "SmReq"
  | .smAck => "SmAck"
  | .iqReply e => if e then "IqReply:error" else "IqReply:result"
  | .iqRequest r => if r then "IqRequest:roster" else "IqRequest:other"
  | .ping => "IqRequest:ping"
  | .register form => if form then "Register:set" else "Register:get"
  | .presence => "Presence"
  | .csiActive => "CsiActive"
  | .csiInactive => "CsiInactive"

def showLink : Link → String
  | .clear => "/c" | .enc => "/e" | .down => "/x"

def showOut : Out → String
  | .sent k l => showKind k ++ showLink l ++ flag k.carriesSecret "!"
  | .sig .connected => "connected"
  | .sig .disconnected => "disconnected"
  | .sig .error => "error"
  | .sig (.iqDone e) => if e then "iqdone:error" else "iqdone:result"

def showState (s : St) : String :=
  let st := if isConnected s then "connected" else if s.conn = .disconnected then "disconnected" else "connecting"
  let n (b : Bool) : String := if b then "1" else "0"
  let tg := match s.target with | .configured => "a" | .redirect => "b" | .location => "c"
  s!"st={st} ic={n (isConnected s)} au={n s.authenticated} enc={n (decide (s.conn = .connected) && s.encrypted)} tg={tg}"

def showObs (r : R) : String :=
  (if r.2.isEmpty then "-" else ",".intercalate (r.2.map showOut)) ++ "|" ++ showState r.1

end Qx.C04
